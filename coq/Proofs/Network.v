(* Proofs/Network.v — the three parallel arrays of the ChargingNetwork model refine the paper
   book-keeping of live constraints (`ghost`), for every operation sequence.  Any coefficient type. *)
From Coq Require Import List Bool Arith Lia ZArith QArith String Sorted.
From ACN Require Import Base.Num Base.ListX Gen.C12Shape Model.Current Model.Network Proofs.Current.
Import ListNotations.
Open Scope nat_scope.

(* ---------- names ---------- *)
Lemma nmem_In : forall x l, nmem x l = true <-> In x l.
Proof.
  intros x l. unfold nmem. rewrite existsb_exists. split.
  - intros [y [Hin He]]. apply String.eqb_eq in He. subst. exact Hin.
  - intros Hin. exists x. split; auto. apply String.eqb_refl.
Qed.

Lemma NoDup_app_single : forall {B} (l : list B) x, NoDup l -> ~ In x l -> NoDup (l ++ [x]).
Proof.
  intros B l x Hn Hx. induction Hn as [|y l Hy Hn IH]; simpl.
  - constructor; [intros [] | constructor].
  - constructor.
    + intro Hin. apply in_app_or in Hin. destruct Hin as [Hin | [Hin | []]].
      * contradiction.
      * subst. apply Hx. left; reflexivity.
    + apply IH. intro Hin. apply Hx. right; exact Hin.
Qed.

Set Default Proof Using "Type".
Section NetFacts.
  Context {A : Type}.
  Variable zero : A.

  Notation net := (net A).
  Notation ghost := (ghost A).
  Notation live := (live A).
  Notation frame := (frame A).
  Notation row_of := (row_of zero).
  Notation step := (step zero).
  Notation run := (run zero).
  Notation add_constraint := (add_constraint zero).
  Notation update_constraint := (update_constraint zero).

  (* ---------- frame cells ---------- *)
  Lemma cell_cons : forall c cols (x : option A) row s,
    cell (c :: cols) (x :: row) s = if Nat.eqb s c then x else cell cols row s.
  Proof.
    intros. unfold cell. simpl. destruct (Nat.eqb s c); auto.
    destruct (col_pos s cols); reflexivity.
  Qed.

  Lemma cell_nil : forall (row : list (option A)) s, cell [] row s = None.
  Proof. reflexivity. Qed.

  Lemma cell_absent : forall cols (row : list (option A)) s, smem s cols = false -> cell cols row s = None.
  Proof.
    intros cols row s H. unfold cell.
    assert (E : col_pos s cols = None).
    { induction cols as [|c cols IH]; simpl in *; auto.
      destruct (Nat.eqb s c); simpl in H; try discriminate. rewrite (IH H). reflexivity. }
    rewrite E. reflexivity.
  Qed.

  (* reindexing a row along its own (duplicate-free) columns gives the row back *)
  Lemma reindex_row_id : forall cols (row : list (option A)),
    NoDup cols -> List.length row = List.length cols -> map (cell cols row) cols = row.
  Proof.
    induction cols as [|c cols IH]; intros row Hn Hl.
    - destruct row; simpl in *; auto; discriminate.
    - destruct row as [|x row]; simpl in Hl; try discriminate.
      inversion Hn as [|? ? Hnot Hn']; subst.
      simpl. rewrite cell_cons, Nat.eqb_refl. f_equal.
      rewrite <- (IH row Hn') at 2 by lia.
      apply map_ext_in. intros s Hs. rewrite cell_cons.
      destruct (Nat.eqb s c) eqn:E; auto. apply Nat.eqb_eq in E. subst. contradiction.
  Qed.

  (* the single row of current.to_frame().T, read at column s, is the Series entry (or missing) *)
  Lemma cell_to_frame : forall (c : current A) s,
    cell (keys c) (map (fun p => Some (snd p)) c) s = lookup s c.
  Proof.
    induction c as [|[k v] c IH]; intros s; simpl.
    - reflexivity.
    - rewrite cell_cons. simpl. destruct (Nat.eqb s k); auto.
  Qed.

  Lemma cell_app_col : forall cols (row : list (option A)) col v s,
    List.length row = List.length cols ->
    cell (cols ++ [col]) (row ++ [v]) s =
    if smem s cols then cell cols row s else if Nat.eqb s col then v else None.
  Proof.
    induction cols as [|c cols IH]; intros row col v s Hl.
    - destruct row; simpl in Hl; try discriminate. simpl.
      rewrite cell_cons. destruct (Nat.eqb s col); auto.
    - destruct row as [|x row]; simpl in Hl; try discriminate.
      simpl. rewrite !cell_cons. destruct (Nat.eqb s c); simpl; [reflexivity | apply IH; lia].
  Qed.

  Definition fill0 (x : option A) : option A := match x with None => Some zero | Some v => Some v end.

  Lemma fill0_lookup : forall (c : current A) s, fill0 (lookup s c) = Some (coeff zero c s).
  Proof. intros. unfold coeff. destruct (lookup s c); reflexivity. Qed.

  Lemma fill0_row_of : forall sts (c : current A), map fill0 (row_of sts c) = row_of sts c.
  Proof. intros. unfold Network.row_of. rewrite map_map. reflexivity. Qed.

  Lemma row_of_length : forall sts (c : current A), List.length (row_of sts c) = List.length sts.
  Proof. intros. unfold Network.row_of. apply map_length. Qed.

  (* ---------- first-constraint branch: missing columns are added with 0 ---------- *)
  Definition add_missing (f : frame) (col : station) : frame :=
    if smem col (f_cols f) then f else add_col0 zero f col.

  Lemma add_missing_one_row : forall L cols (row : list (option A)) idx,
    List.length row = List.length cols ->
    exists cols' row',
      fold_left add_missing L (mkFrame cols idx [row]) = mkFrame cols' idx [row'] /\
      List.length row' = List.length cols' /\
      forall s, cell cols' row' s =
                if smem s cols then cell cols row s else if smem s L then Some zero else None.
  Proof.
    induction L as [|col L IH]; intros cols row idx Hl.
    - exists cols, row. simpl. repeat split; auto.
      intros s. destruct (smem s cols) eqn:E; auto. apply cell_absent. exact E.
    - simpl. unfold add_missing at 2. simpl.
      destruct (smem col cols) eqn:Ec.
      + destruct (IH cols row idx Hl) as [cols' [row' [H1 [H2 H3]]]].
        exists cols', row'. repeat split; auto.
        intros s. rewrite H3. destruct (smem s cols) eqn:Es; auto.
        destruct (Nat.eqb s col) eqn:E; simpl; auto.
        apply Nat.eqb_eq in E. subst. congruence.
      + unfold add_col0. simpl.
        assert (Hl' : List.length (row ++ [Some zero]) = List.length (cols ++ [col])).
        { rewrite !app_length. simpl. lia. }
        destruct (IH (cols ++ [col]) (row ++ [Some zero]) idx Hl') as [cols' [row' [H1 [H2 H3]]]].
        exists cols', row'. repeat split; auto.
        intros s. rewrite H3. rewrite smem_app. simpl. rewrite orb_false_r.
        rewrite (cell_app_col cols row col (Some zero) s Hl).
        destruct (smem s cols) eqn:Es; simpl; auto.
        destruct (Nat.eqb s col); auto.
  Qed.

  (* ---------- known stations ---------- *)
  Lemma known_negb : forall sts (c : current A),
    existsb (fun k => negb (smem k sts)) (keys c) = negb (known sts c).
  Proof.
    intros. unfold known. induction (keys c) as [|k l IH]; simpl; auto.
    rewrite IH. destruct (smem k sts); simpl; auto.
  Qed.

  Lemma known_filter : forall sts (c : current A),
    known sts c = true -> filter (fun k => negb (smem k sts)) (keys c) = [].
  Proof.
    intros sts c. unfold known. induction (keys c) as [|k l IH]; simpl; auto.
    intros H. apply andb_true_iff in H. destruct H as [H1 H2]. rewrite H1. simpl. auto.
  Qed.

  (* ---------- later constraints: concat, fillna(0), reindex(columns=station_ids) ---------- *)
  Lemma concat_branch : forall sts rows (c : current A) nm names,
    NoDup sts ->
    (forall r, In r rows -> List.length r = List.length sts /\ map fill0 r = r) ->
    known sts c = true ->
    let fr' := fillna0 zero (concat (mkFrame sts names rows) (to_frame_T nm c)) in
    map (fun row => map (cell (f_cols fr') row) sts) (f_rows fr') = rows ++ [row_of sts c] /\ f_idx fr' = names ++ [nm].
  Proof.
    intros sts rows c nm names Hn Hrows Hk. unfold concat, to_frame_T, fillna0, reindex_cols. simpl.
    rewrite (known_filter sts c Hk), app_nil_r. simpl.
    split; [|reflexivity].
    change (fun x : option A => match x with Some v => Some v | None => Some zero end) with fill0.
    rewrite !map_app. f_equal.
    - rewrite !map_map. rewrite <- (map_id rows) at 2. apply map_ext_in. intros r Hr.
      destruct (Hrows r Hr) as [Hlen Hfill].
      rewrite (reindex_row_id sts r Hn Hlen), Hfill. apply reindex_row_id; auto.
    - simpl. f_equal. rewrite map_map.
      assert (Hr : map (fun s => fill0 (cell (keys c) (map (fun p => Some (snd p)) c) s)) sts
                   = row_of sts c).
      { unfold Network.row_of. apply map_ext. intros s. rewrite cell_to_frame. apply fill0_lookup. }
      rewrite Hr. apply reindex_row_id; auto. apply row_of_length.
  Qed.

  (* ---------- removal: positions in the three arrays ---------- *)
  Lemma remove_first_names : forall x (l : list live),
    remove_first x (map l_name l) = map l_name (remove_live x l).
  Proof.
    induction l as [|y l IH]; simpl; auto.
    destruct (String.eqb x (l_name y)); simpl; auto. f_equal. exact IH.
  Qed.

  Lemma delete_index_map : forall {B} (f : live -> B) x (l : list live),
    nmem x (map l_name l) = true ->
    delete_nth (index_of x (map l_name l)) (map f l) = map f (remove_live x l).
  Proof.
    intros B f x. induction l as [|y l IH]; simpl; intros H.
    - discriminate.
    - destruct (String.eqb x (l_name y)); simpl; auto. simpl in H. f_equal. apply IH. exact H.
  Qed.

  Lemma remove_live_absent : forall x (l : list live),
    nmem x (map l_name l) = false -> remove_live x l = l.
  Proof.
    induction l as [|y l IH]; simpl; auto.
    destruct (String.eqb x (l_name y)); simpl; intros H; try discriminate. f_equal. auto.
  Qed.

  (* ---------- the refinement relation ---------- *)
  Definition rows_of (sts : list station) (l : list live) : list (list (option A)) :=
    map (fun x => row_of sts (l_cur x)) l.

  Definition rel (n : net) (g : ghost) : Prop :=
    stations n = g_stations g /\
    NoDup (g_stations g) /\
    cmat n = (if g_ever g then Some (rows_of (g_stations g) (g_live g)) else None) /\
    mags n = map l_limit (g_live g) /\
    cnames n = map l_name (g_live g) /\
    (g_ever g = false -> g_live g = []).

  Lemma rel0 : rel (net0 (A := A)) (ghost0 (A := A)).
  Proof. unfold rel; simpl. repeat split; auto. constructor. Qed.

  Lemma col_pos_smem : forall s l,
    smem s l = match col_pos s l with Some _ => true | None => false end.
  Proof.
    intros s l. induction l as [|c l IH]; simpl; auto.
    destruct (Nat.eqb s c); simpl; auto. rewrite IH. destruct (col_pos s l); reflexivity.
  Qed.

  Lemma col_pos_lt : forall s l i, col_pos s l = Some i -> i < List.length l /\ nth_error l i = Some s.
  Proof.
    intros s l. induction l as [|c l IH]; simpl; intros i H; try discriminate.
    destruct (Nat.eqb s c) eqn:E.
    - inversion H; subst. apply Nat.eqb_eq in E. subst. simpl. split; [lia | reflexivity].
    - destruct (col_pos s l) as [k|]; try discriminate. inversion H; subst.
      destruct (IH k eq_refl) as [H1 H2]. simpl. split; [lia | exact H2].
  Qed.

  Lemma register_rel : forall s v ph n g, rel n g ->
    rel (snd (register_evse s v ph n)) (gstep (ORegister s v ph) g) /\
    fst (register_evse s v ph n) = spec_err (ORegister s v ph) g.
  Proof.
    intros s v ph n g (Hs & Hn & Hm & Hl & Hc & He).
    unfold register_evse, gstep, spec_err. rewrite Hm.
    destruct (g_ever g) eqn:Ev; simpl.
    - split; auto. unfold rel. rewrite Ev. repeat split; auto.
    - specialize (He eq_refl).
      assert (Hsm : smem s (g_stations g) = match col_pos s (stations n) with Some _ => true | None => false end)
        by (rewrite <- Hs; apply col_pos_smem).
      rewrite Hsm.
      destruct (col_pos s (stations n)) as [i|] eqn:Ep.
      + destruct reregistration_overwrites; simpl; (split; [|reflexivity]); unfold rel; simpl;
          (split; [exact Hs|]); (split; [exact Hn|]); (split; [reflexivity|]);
          (split; [exact Hl|]); (split; [exact Hc|]); intros _; exact He.
      + simpl. split; [|reflexivity]. unfold rel; simpl. rewrite Hs.
        split; [reflexivity|]. split.
        { apply NoDup_app_single; auto. intro Hin. apply smem_In in Hin.
          rewrite Hsm in Hin. discriminate. }
        split; [reflexivity|]. split; [exact Hl|]. split; [exact Hc|]. intros _. exact He.
  Qed.

  Lemma add_rel : forall c l nm n g, rel n g ->
    rel (snd (add_constraint c l nm n)) (gstep (OAdd c l nm) g) /\
    fst (add_constraint c l nm n) = spec_err (OAdd c l nm) g.
  Proof.
    intros c l nm n g (Hs & Hn & Hm & Hl & Hc & He).
    unfold Network.add_constraint, gstep, spec_err.
    rewrite Hs, known_negb.
    destruct (known (g_stations g) c) eqn:Hk; simpl.
    2:{ split; auto. unfold rel. repeat split; auto. }
    split; auto.
    set (sts := g_stations g) in *.
    unfold constraints_as_df; simpl. rewrite Hc, Hs. fold sts.
    rewrite map_length.
    destruct (Nat.eqb (List.length (g_live g)) 0) eqn:E0.
    - (* first constraint (or first after everything was removed) *)
      apply Nat.eqb_eq in E0. apply length_zero_iff_nil in E0.
      rewrite E0 in *. simpl in Hc, Hl. simpl map.
      destruct (add_missing_one_row sts (keys c) (map (fun p => Some (snd p)) c)
                  [resolve_name [] nm]) as [cols' [row' [H1 [H2 H3]]]].
      { unfold keys. rewrite !map_length. reflexivity. }
      unfold to_frame_T.
      change (fold_left (fun f col => if smem col (f_cols f) then f else add_col0 zero f col))
        with (fold_left add_missing).
      rewrite H1. unfold rel; simpl. fold sts.
      split; [reflexivity|]. split; [exact Hn|]. split.
      { f_equal. f_equal.
        unfold Network.row_of. apply map_ext_in. intros s Hs'.
        rewrite H3. rewrite cell_to_frame.
        assert (Es : smem s sts = true) by (apply smem_In; exact Hs').
        rewrite Es. unfold coeff.
        destruct (lookup s c) eqn:El.
        * rewrite (lookup_some_smem _ _ _ El). reflexivity.
        * apply lookup_none_iff in El. rewrite El. reflexivity. }
      split; [rewrite Hl; reflexivity|]. split; [reflexivity|]. discriminate.
    - (* a constraint already exists: concat, fillna(0), reindex *)
      assert (Ev : g_ever g = true).
      { destruct (g_ever g) eqn:Ev; auto. rewrite (He eq_refl) in E0. discriminate. }
      rewrite Ev in Hm. rewrite Hm.
      destruct (concat_branch sts (rows_of sts (g_live g)) c
                  (resolve_name (map l_name (g_live g)) nm) (map l_name (g_live g)) Hn) as [Hrows Hidx]; auto.
      { intros r Hr. unfold rows_of in Hr. apply in_map_iff in Hr. destruct Hr as [y [Hy _]]. subst r.
        split; [apply row_of_length | apply fill0_row_of]. }
      cbv zeta in Hrows, Hidx. rewrite Hrows, Hidx.
      unfold rel; simpl. fold sts.
      split; [reflexivity|]. split; [exact Hn|]. split.
      { f_equal. unfold rows_of. rewrite map_app. reflexivity. }
      split; [rewrite Hl, map_app; reflexivity|]. split; [rewrite map_app; reflexivity|]. discriminate.
  Qed.

  Lemma remove_rel : forall nm n g, rel n g ->
    rel (snd (remove_constraint nm n)) (gstep (ORemove nm) g) /\
    fst (remove_constraint nm n) = spec_err (ORemove nm) g.
  Proof.
    intros nm n g (Hs & Hn & Hm & Hl & Hc & He).
    unfold remove_constraint, gstep, spec_err. rewrite Hc.
    destruct (nmem nm (map l_name (g_live g))) eqn:Em; simpl.
    - split; auto. unfold rel; simpl. repeat split; auto.
      + rewrite Hm. destruct (g_ever g); auto. f_equal.
        unfold rows_of. apply delete_index_map. exact Em.
      + rewrite Hl. apply delete_index_map. exact Em.
      + apply remove_first_names.
      + intros Hev. rewrite (He Hev). reflexivity.
    - split; auto. rewrite (remove_live_absent _ _ Em).
      unfold rel. destruct g; simpl in *. repeat split; auto.
  Qed.

  Lemma update_rel : forall nm c l nn n g, rel n g ->
    rel (snd (update_constraint nm c l nn n)) (gstep (OUpdate nm c l nn) g) /\
    fst (update_constraint nm c l nn n) = spec_err (OUpdate nm c l nn) g.
  Proof.
    intros nm c l nn n g Hrel.
    pose proof Hrel as (Hs & Hn & Hm & Hl & Hc & He).
    unfold Network.update_constraint. rewrite Hc.
    destruct (nmem nm (map l_name (g_live g))) eqn:Em.
    - simpl negb. cbv iota.
      destruct (remove_rel nm n g Hrel) as [Hr _].
      set (n1 := snd (remove_constraint nm n)) in *.
      set (nn' := match nn with None => nm | Some x => x end).
      destruct (add_rel c l (Some nn') n1 _ Hr) as [Ha Hae].
      split.
      + replace (gstep (OUpdate nm c l nn) g)
          with (gstep (OAdd c l (Some nn')) (gstep (ORemove nm) g)); auto.
        unfold gstep at 1 3. simpl. rewrite Em.
        destruct (known (g_stations g) c); reflexivity.
      + rewrite Hae. unfold spec_err. simpl. rewrite Em. reflexivity.
    - simpl. split.
      + rewrite Em. exact Hrel.
      + rewrite Em. reflexivity.
  Qed.

  Lemma step_rel : forall o n g, rel n g ->
    rel (snd (step o n)) (gstep o g) /\ fst (step o n) = spec_err o g.
  Proof.
    intros o n g H. destruct o; simpl.
    - apply register_rel; auto.
    - apply add_rel; auto.
    - apply remove_rel; auto.
    - apply update_rel; auto.
  Qed.

  Lemma run_rel : forall ops n g, rel n g -> rel (run ops n) (grun ops g).
  Proof.
    induction ops as [|o ops IH]; intros n g H; simpl; auto.
    apply IH. apply step_rel. exact H.
  Qed.

  Lemma run_app : forall a b n, run (a ++ b) n = run b (run a n).
  Proof. intros. unfold Network.run. apply fold_left_app. Qed.

  Lemma grun_app : forall a b (g : ghost), grun (a ++ b) g = grun b (grun a g).
  Proof. intros. unfold grun. apply fold_left_app. Qed.

  (* ---------- C12_aligned ---------- *)
  Theorem aligned : forall ops,
    let n := run ops net0 in
    let g := grun ops ghost0 in
    stations n = g_stations g /\
    NoDup (stations n) /\
    cmat n = (if g_ever g then Some (map (fun x => row_of (stations n) (l_cur x)) (g_live g)) else None) /\
    mags n = map l_limit (g_live g) /\
    cnames n = map l_name (g_live g).
  Proof.
    intros ops n g. destruct (run_rel ops _ _ rel0) as (Hs & Hn & Hm & Hl & Hc & He).
    fold n g in Hs, Hn, Hm, Hl, Hc. rewrite Hs. repeat split; auto.
  Qed.

  Theorem aligned_entry : forall ops i k x s m,
    let n := run ops net0 in
    let g := grun ops ghost0 in
    nth_error (g_live g) i = Some x ->
    nth_error (stations n) k = Some s ->
    cmat n = Some m ->
    (exists row, nth_error m i = Some row /\ nth_error row k = Some (Some (coeff zero (l_cur x) s)))
    /\ nth_error (mags n) i = Some (l_limit x)
    /\ nth_error (cnames n) i = Some (l_name x).
  Proof.
    intros ops i k x s m n g Hx Hk Hm.
    destruct (aligned ops) as (Hs & Hn & Hm' & Hl & Hc). fold n g in Hs, Hn, Hm', Hl, Hc.
    rewrite Hm in Hm'. destruct (g_ever g); try discriminate. injection Hm' as Hm'.
    repeat split.
    - exists (row_of (stations n) (l_cur x)). split.
      + rewrite Hm'. exact (map_nth_error (fun y => row_of (stations n) (l_cur y)) _ _ Hx).
      + unfold Network.row_of. exact (map_nth_error (fun s0 => Some (coeff zero (l_cur x) s0)) _ _ Hk).
    - rewrite Hl. exact (map_nth_error l_limit _ _ Hx).
    - rewrite Hc. exact (map_nth_error l_name _ _ Hx).
  Qed.

  Theorem aligned_lengths : forall ops,
    let n := run ops net0 in
    List.length (mags n) = List.length (cnames n) /\
    (forall m, cmat n = Some m ->
       List.length m = List.length (cnames n) /\ forall row, In row m -> List.length row = List.length (stations n)) /\
    (cmat n = None -> cnames n = []).
  Proof.
    intros ops n. destruct (aligned ops) as (Hs & Hn & Hm & Hl & Hc).
    destruct (run_rel ops _ _ rel0) as (_ & _ & _ & _ & _ & He).
    fold n in Hs, Hn, Hm, Hl, Hc. repeat split.
    - rewrite Hl, Hc, !map_length. reflexivity.
    - rewrite Hm in H. destruct (g_ever _); try discriminate. injection H as H. subst m.
      rewrite Hc, !map_length. reflexivity.
    - intros row Hin. rewrite Hm in H. destruct (g_ever _); try discriminate. injection H as H. subst m.
      apply in_map_iff in Hin. destruct Hin as [x [Hx _]]. subst row. apply row_of_length.
    - intros Hnone. rewrite Hm in Hnone. destruct (g_ever _) eqn:Ev; try discriminate.
      rewrite Hc, (He eq_refl). reflexivity.
  Qed.

  Theorem outcome : forall ops o,
    fst (step o (run ops net0)) = spec_err o (grun ops ghost0).
  Proof. intros. apply step_rel. apply run_rel. apply rel0. Qed.

  (* ---------- listing order inside a Current is irrelevant ---------- *)
  Lemma cur_equiv_known : forall sts (c c' : current A), cur_equiv c c' -> known sts c = known sts c'.
  Proof.
    intros sts c c' H. unfold known.
    apply eq_true_iff_eq. rewrite !forallb_forall. split; intros Hf k Hk.
    - apply smem_In in Hk. destruct (lookup k c') eqn:E.
      + rewrite <- H in E. apply Hf. apply smem_In. eapply lookup_some_smem; eauto.
      + apply lookup_none_iff in E. congruence.
    - apply smem_In in Hk. destruct (lookup k c) eqn:E.
      + rewrite H in E. apply Hf. apply smem_In. eapply lookup_some_smem; eauto.
      + apply lookup_none_iff in E. congruence.
  Qed.

  Lemma cur_equiv_row : forall sts (c c' : current A), cur_equiv c c' -> row_of sts c = row_of sts c'.
  Proof.
    intros sts c c' H. unfold Network.row_of. apply map_ext. intros s. unfold coeff. rewrite H. reflexivity.
  Qed.

  (* a net is determined by the relation *)
  Lemma rel_det : forall n n' g g',
    rel n g -> rel n' g' ->
    volts n = volts n' -> angles n = angles n' ->
    g_stations g = g_stations g' -> g_ever g = g_ever g' ->
    map l_name (g_live g) = map l_name (g_live g') ->
    map l_limit (g_live g) = map l_limit (g_live g') ->
    rows_of (g_stations g) (g_live g) = rows_of (g_stations g') (g_live g') ->
    n = n'.
  Proof.
    intros n n' g g' (Hs & _ & Hm & Hl & Hc & _) (Hs' & _ & Hm' & Hl' & Hc' & _) Hv Ha Es Ee En Elim Er.
    destruct n, n'; simpl in *. subst. f_equal; try congruence.
    rewrite Ee, Er. reflexivity.
  Qed.

  Theorem listing_order : forall ops c c' l nm,
    cur_equiv c c' ->
    add_constraint c l nm (run ops net0) = add_constraint c' l nm (run ops net0).
  Proof.
    intros ops c c' l nm H.
    pose proof (run_rel ops _ _ rel0) as Hr.
    destruct (add_rel c l nm _ _ Hr) as [R1 E1].
    destruct (add_rel c' l nm _ _ Hr) as [R2 E2].
    apply injective_projections.
    - rewrite E1, E2. unfold spec_err. rewrite (cur_equiv_known _ _ _ H). reflexivity.
    - revert R1 R2. unfold gstep. rewrite <- (cur_equiv_known _ _ _ H).
      destruct (known (g_stations (grun ops ghost0)) c) eqn:Hk; intros R1 R2.
      + eapply rel_det; eauto; simpl.
        * unfold Network.add_constraint. rewrite !known_negb.
          pose proof Hr as (Hs & _). rewrite Hs, <- (cur_equiv_known _ _ _ H), Hk. reflexivity.
        * unfold Network.add_constraint. rewrite !known_negb.
          pose proof Hr as (Hs & _). rewrite Hs, <- (cur_equiv_known _ _ _ H), Hk. reflexivity.
        * rewrite !map_app. reflexivity.
        * rewrite !map_app. reflexivity.
        * unfold rows_of. rewrite !map_app. simpl. rewrite (cur_equiv_row _ _ _ H). reflexivity.
      + eapply rel_det; eauto.
        * unfold Network.add_constraint. rewrite !known_negb.
          pose proof Hr as (Hs & _). rewrite Hs, <- (cur_equiv_known _ _ _ H), Hk. reflexivity.
        * unfold Network.add_constraint. rewrite !known_negb.
          pose proof Hr as (Hs & _). rewrite Hs, <- (cur_equiv_known _ _ _ H), Hk. reflexivity.
  Qed.

  Lemma perm_cur_equiv : forall c c' : current A,
    NoDup (keys c) -> Permutation.Permutation c c' -> cur_equiv c c'.
  Proof. intros c c' Hn Hp s. apply lookup_perm; auto. Qed.

  (* ---------- registration guard ---------- *)
  Lemma step_keeps_matrix : forall o n, cmat n <> None -> cmat (snd (step o n)) <> None.
  Proof.
    intros o n H. destruct o; simpl.
    - unfold register_evse. destruct (cmat n) eqn:E; simpl; congruence.
    - unfold Network.add_constraint. destruct (existsb _ _); simpl; auto. discriminate.
    - unfold remove_constraint. destruct (negb _); simpl; auto. destruct (cmat n) eqn:E; simpl; congruence.
    - unfold Network.update_constraint. destruct (negb (nmem name (cnames n))) eqn:E; simpl; auto.
      unfold Network.add_constraint. destruct (existsb _ _); simpl; try discriminate.
      unfold remove_constraint. rewrite E. simpl. destruct (cmat n); congruence.
  Qed.

  Lemma run_keeps_matrix : forall ops n, cmat n <> None -> cmat (run ops n) <> None.
  Proof.
    induction ops as [|o ops IH]; intros n H; simpl; auto.
    apply IH. apply step_keeps_matrix. exact H.
  Qed.

  Lemma accepted_sets_matrix : forall o n,
    is_constraint_op o = true -> fst (step o n) = None -> cmat (snd (step o n)) <> None.
  Proof.
    intros o n Ho He. destruct o; simpl in *; try discriminate.
    - unfold Network.add_constraint in *. destruct (existsb _ _); simpl in *; discriminate.
    - unfold Network.update_constraint in *. destruct (negb _); simpl in *; try discriminate.
      unfold Network.add_constraint in *. destruct (existsb _ _); simpl in *; discriminate.
  Qed.

  Theorem register_guard : forall pre o post s v ph,
    is_constraint_op o = true ->
    fst (step o (run pre net0)) = None ->
    let n := run (pre ++ o :: post) net0 in
    register_evse s v ph n = (Some "EVSERegistrationError"%string, n).
  Proof.
    intros pre o post s v ph Ho He n.
    assert (H : cmat n <> None).
    { unfold n. rewrite run_app. simpl. apply run_keeps_matrix. apply accepted_sets_matrix; auto. }
    unfold register_evse. destruct (cmat n); [reflexivity | congruence].
  Qed.

  (* and conversely: as long as no add/update has been accepted, registration is open *)
  Lemma matrix_none_until_accepted : forall ops,
    (forall pre o post, ops = pre ++ o :: post -> is_constraint_op o = true ->
                        fst (step o (run pre net0)) <> None) ->
    cmat (run ops net0) = None.
  Proof.
    intros ops. induction ops as [|o ops IH] using rev_ind; intros H.
    - reflexivity.
    - rewrite run_app. simpl.
      assert (IH' : cmat (run ops net0) = None).
      { apply IH. intros pre o' post E. apply (H pre o' (post ++ [o])). rewrite E, <- app_assoc. reflexivity. }
      specialize (H ops o [] eq_refl).
      destruct o; simpl in *.
      + unfold register_evse. rewrite IH'. destruct (col_pos s (stations (run ops net0)));
          [destruct reregistration_overwrites|]; simpl; first [reflexivity | exact IH'].
      + specialize (H eq_refl). unfold Network.add_constraint in *.
        destruct (existsb _ _); simpl in *; auto. congruence.
      + unfold remove_constraint. destruct (negb _); simpl; auto. rewrite IH'. reflexivity.
      + specialize (H eq_refl). unfold Network.update_constraint in *.
        destruct (negb (nmem name (cnames (run ops net0)))) eqn:E; simpl in *; auto.
        unfold Network.add_constraint in *. destruct (existsb _ _); simpl in *; try congruence.
        unfold remove_constraint. rewrite E. simpl. rewrite IH'. reflexivity.
  Qed.

  Theorem register_open : forall ops s v ph,
    (forall pre o post, ops = pre ++ o :: post -> is_constraint_op o = true ->
                        fst (step o (run pre net0)) <> None) ->
    let n := run ops net0 in
    register_evse s v ph n =
    (None, match col_pos s (stations n) with
           | Some i => mkNet (stations n) (upd i v (volts n)) (upd i ph (angles n)) None (mags n) (cnames n)
           | None => mkNet (stations n ++ [s]) (volts n ++ [v]) (angles n ++ [ph]) None (mags n) (cnames n)
           end).
  Proof.
    intros ops s v ph H n. subst n. unfold register_evse.
    rewrite (matrix_none_until_accepted ops H).
    destruct (col_pos s (stations (run ops net0))); reflexivity.
  Qed.

  (* registration order: the columns are the distinct stations in order of first registration *)
  Lemma dedup_first_snoc : forall l seen s,
    dedup_first seen (l ++ [s]) =
    if smem s seen || smem s l then dedup_first seen l else dedup_first seen l ++ [s].
  Proof.
    induction l as [|x l IH]; intros seen s; simpl.
    - rewrite orb_false_r. destruct (smem s seen); reflexivity.
    - destruct (smem x seen) eqn:Ex.
      + rewrite IH. destruct (Nat.eqb s x) eqn:E; simpl; auto.
        apply Nat.eqb_eq in E. subst. rewrite Ex. reflexivity.
      + rewrite IH. simpl. destruct (Nat.eqb s x) eqn:E; simpl.
        * rewrite orb_true_r. reflexivity.
        * destruct (smem s seen || smem s l); reflexivity.
  Qed.

  Lemma last_reg_app : forall regs p s,
    last_reg (regs ++ [p]) s =
    if Nat.eqb s (fst (fst p)) then Some (snd (fst p), snd p) else last_reg regs s.
  Proof.
    induction regs as [|a regs IH]; intros p s; simpl.
    - destruct (Nat.eqb s (fst (fst p))); reflexivity.
    - rewrite IH. destruct (Nat.eqb s (fst (fst p))); reflexivity.
  Qed.

  Lemma upd_map_at : forall {B} (f f' : station -> B) sts s i,
    NoDup sts -> col_pos s sts = Some i ->
    (forall s', s' <> s -> f' s' = f s') ->
    upd i (f' s) (map f sts) = map f' sts.
  Proof.
    intros B f f' sts s. induction sts as [|c sts IH]; intros i Hn Hp Hf; simpl in *; try discriminate.
    inversion Hn as [|? ? Hc Hn']; subst.
    destruct (Nat.eqb s c) eqn:E.
    - inversion Hp; subst. apply Nat.eqb_eq in E. subst c. simpl. f_equal.
      apply map_ext_in. intros s' Hs'. symmetry. apply Hf. intro; subst. contradiction.
    - destruct (col_pos s sts) as [k|] eqn:Ek; try discriminate. inversion Hp; subst.
      simpl. f_equal.
      + symmetry. apply Hf. intro; subst. rewrite Nat.eqb_refl in E. discriminate.
      + apply IH; auto.
  Qed.

  (* registration order: the columns are the distinct stations in order of FIRST registration; voltage and angle
     of a station are those of its LAST registration; the two arrays stay aligned with the station list *)
  Theorem registration_order : forall regs,
    let n := run (map reg_op regs) net0 in
    stations n = dedup_first [] (map (fun p => fst (fst p)) regs) /\
    volts n = map (reg_volt regs) (stations n) /\
    angles n = map (reg_angle regs) (stations n) /\
    cmat n = None /\ mags n = [] /\ cnames n = [].
  Proof.
    induction regs as [|p regs IH] using rev_ind; simpl.
    - repeat split; reflexivity.
    - rewrite !map_app, run_app. simpl.
      destruct IH as (Hs & Hv & Ha & Hm & Hl & Hc).
      destruct (aligned (map reg_op regs)) as (_ & Hnd & _).
      set (n := run (map reg_op regs) net0) in *.
      assert (E : forall l s, smem s (dedup_first [] l) = smem s l).
      { intros. rewrite (smem_dedup_first s l []). simpl. apply andb_true_r. }
      unfold register_evse. rewrite Hm.
      pose proof (col_pos_smem (fst (fst p)) (stations n)) as Hsm.
      rewrite Hs, E in Hsm at 1.
      unfold reg_volt, reg_angle.
      destruct (col_pos (fst (fst p)) (stations n)) as [i|] eqn:Ep.
      + change reregistration_overwrites with true. simpl.
        split; [|split; [|split; [|repeat split; auto]]].
        * rewrite dedup_first_snoc. simpl. rewrite Hsm. exact Hs.
        * rewrite Hv. unfold reg_volt.
          rewrite <- (upd_map_at (fun s => match last_reg regs s with Some x => fst x | None => 0%Q end)
                        (fun s => match last_reg (regs ++ [p]) s with Some x => fst x | None => 0%Q end)
                        (stations n) (fst (fst p)) i Hnd Ep).
          -- rewrite last_reg_app, Nat.eqb_refl. reflexivity.
          -- intros s' Hne. rewrite last_reg_app.
             destruct (Nat.eqb s' (fst (fst p))) eqn:E'; auto. apply Nat.eqb_eq in E'. contradiction.
        * rewrite Ha. unfold reg_angle.
          rewrite <- (upd_map_at (fun s => match last_reg regs s with Some x => snd x | None => 0%Q end)
                        (fun s => match last_reg (regs ++ [p]) s with Some x => snd x | None => 0%Q end)
                        (stations n) (fst (fst p)) i Hnd Ep).
          -- rewrite last_reg_app, Nat.eqb_refl. reflexivity.
          -- intros s' Hne. rewrite last_reg_app.
             destruct (Nat.eqb s' (fst (fst p))) eqn:E'; auto. apply Nat.eqb_eq in E'. contradiction.
      + simpl.
        assert (Hnew : forall (part : Q * Q -> Q) s', In s' (stations n) ->
                  match last_reg (regs ++ [p]) s' with Some x => part x | None => 0%Q end =
                  match last_reg regs s' with Some x => part x | None => 0%Q end).
        { intros part s' Hin. rewrite last_reg_app.
          destruct (Nat.eqb s' (fst (fst p))) eqn:E'; auto. apply Nat.eqb_eq in E'. subst s'.
          apply smem_In in Hin. rewrite (col_pos_smem _ (stations n)), Ep in Hin. discriminate. }
        split; [|split; [|split; [|repeat split; auto]]].
        * rewrite dedup_first_snoc. simpl. rewrite Hsm, Hs. reflexivity.
        * rewrite map_app. simpl. rewrite last_reg_app, Nat.eqb_refl. simpl. f_equal.
          rewrite Hv. unfold reg_volt. apply map_ext_in. intros s' Hin. symmetry. apply (Hnew fst). exact Hin.
        * rewrite map_app. simpl. rewrite last_reg_app, Nat.eqb_refl. simpl. f_equal.
          rewrite Ha. unfold reg_angle. apply map_ext_in. intros s' Hin. symmetry. apply (Hnew snd). exact Hin.
  Qed.

  (* the voltage and angle arrays have one entry per station on EVERY reachable network *)
  Theorem arrays_aligned : forall ops,
    let n := run ops net0 in
    List.length (volts n) = List.length (stations n) /\ List.length (angles n) = List.length (stations n).
  Proof.
    intros ops. induction ops as [|o ops IH] using rev_ind; simpl.
    - split; reflexivity.
    - rewrite run_app. simpl. set (n := run ops net0) in *. destruct IH as [Hv Ha].
      destruct o; simpl.
      + unfold register_evse. destruct (cmat n); simpl; auto.
        destruct (col_pos s (stations n)) as [i|]; simpl.
        * change reregistration_overwrites with true. simpl. rewrite !upd_length. auto.
        * rewrite !app_length. simpl. lia.
      + unfold Network.add_constraint. destruct (existsb _ _); simpl; auto.
      + unfold remove_constraint. destruct (negb _); simpl; auto.
      + unfold Network.update_constraint. destruct (negb (nmem name (cnames n))) eqn:E; simpl; auto.
        unfold Network.add_constraint. destruct (existsb _ _); simpl; unfold remove_constraint; rewrite E; simpl; auto.
  Qed.

  (* update_constraint is remove + add: when the new Current names an unregistered station the
     KeyError comes from add_constraint, AFTER the old constraint has been removed *)
  Theorem update_unknown_station : forall nm c l nn (n : net),
    nmem nm (cnames n) = true -> known (stations n) c = false ->
    update_constraint nm c l nn n = (Some "KeyError"%string, snd (remove_constraint nm n)).
  Proof.
    intros nm c l nn n Hm Hk. unfold Network.update_constraint. rewrite Hm. simpl negb. cbv iota.
    unfold Network.add_constraint.
    assert (Hs : stations (snd (remove_constraint nm n)) = stations n).
    { unfold remove_constraint. rewrite Hm. reflexivity. }
    rewrite Hs, known_negb, Hk. reflexivity.
  Qed.

  Theorem update_missing_name : forall nm c l nn (n : net),
    nmem nm (cnames n) = false -> update_constraint nm c l nn n = (Some "KeyError"%string, n).
  Proof. intros nm c l nn n Hm. unfold Network.update_constraint. rewrite Hm. reflexivity. Qed.
End NetFacts.

(* ------------------------------------------------------------------------------------------ *)
(* constraint_current: the answer for a subset of constraints / periods is the corresponding
   rows (network order) and columns (order given) of the answer for everything *)
Section Subset.
  Context {A : Type}.
  Variables (zero : A) (add mul : A -> A -> A) (absf : A -> A).

  Notation cc := (constraint_current zero add mul absf).
  Notation matmul_abs := (matmul_abs zero add mul absf).
  Notation dot := (dot zero add mul absf).
  Notation lin_sum := (lin_sum zero add mul).
  Notation run := (run zero).

  Lemma map_nth_seq : forall {B C} (f : B -> C) (l : list B) d,
    map (fun i => f (nth i l d)) (seq 0 (List.length l)) = map f l.
  Proof.
    intros B C f l d. induction l as [|x l IH]; simpl; auto.
    f_equal. rewrite <- seq_shift, map_map. exact IH.
  Qed.

  Lemma column_take_cols : forall X js jj, jj < List.length js ->
    column zero (take_cols zero X js) jj = column zero X (nth jj js 0).
  Proof.
    intros X js jj H. unfold column, take_cols. simpl. rewrite map_map.
    apply map_ext. intros row.
    rewrite (nth_indep _ zero (nth 0 row zero)) by (rewrite map_length; exact H).
    apply (map_nth (fun j => nth j row zero)).
  Qed.

  Lemma matmul_take_cols : forall M X js,
    matmul_abs M (take_cols zero X js) = map (fun row => map (fun j => dot row (column zero X j)) js) M.
  Proof.
    intros M X js. unfold Network.matmul_abs. apply map_ext. intros row. simpl xw.
    rewrite <- (map_nth_seq (fun j => dot row (column zero X j)) js 0).
    apply map_ext_in. intros jj Hjj. apply in_seq in Hjj.
    rewrite column_take_cols by lia. reflexivity.
  Qed.

  Lemma norm_index_lt : forall w t i, norm_index w t = Some i -> i < w.
  Proof.
    intros w t i. unfold norm_index.
    destruct (0 <=? t)%Z eqn:E0.
    - destruct (t <? Z.of_nat w)%Z eqn:E1; intros H; inversion H; subst. lia.
    - destruct (- Z.of_nat w <=? t)%Z eqn:E1; intros H; inversion H; subst. lia.
  Qed.

  Lemma norm_indices_lt : forall w ts js, norm_indices w ts = Some js -> Forall (fun j => j < w) js.
  Proof.
    intros w. induction ts as [|t ts IH]; simpl; intros js H.
    - inversion H. constructor.
    - destruct (norm_index w t) eqn:E; try discriminate.
      destruct (norm_indices w ts) eqn:E2; try discriminate.
      inversion H; subst. constructor; [eapply norm_index_lt; eauto | apply IH; reflexivity].
  Qed.

  Lemma norm_indices_length : forall w ts js, norm_indices w ts = Some js -> List.length js = List.length ts.
  Proof.
    intros w. induction ts as [|t ts IH]; simpl; intros js H.
    - inversion H. reflexivity.
    - destruct (norm_index w t); try discriminate. destruct (norm_indices w ts); try discriminate.
      inversion H; subst. simpl. f_equal. apply IH. reflexivity.
  Qed.

  Lemma positions_from_lt : forall C names i0 i,
    In i (positions_from i0 C names) -> i0 <= i < i0 + List.length names.
  Proof.
    intros C names. induction names as [|x names IH]; simpl; intros i0 i H.
    - contradiction.
    - destruct (nmem x C).
      + destruct H as [H | H]; [subst; lia | apply IH in H; lia].
      + apply IH in H. lia.
  Qed.

  Lemma constraint_indices_lt : forall C names i,
    In i (constraint_indices C names) -> i < List.length names.
  Proof.
    intros [l|] names i H; simpl in H.
    - apply positions_from_lt in H. lia.
    - apply in_seq in H. lia.
  Qed.

  (* positions are exactly the indices whose name is requested, in increasing order *)
  Lemma positions_from_spec : forall C names i0 i,
    In i (positions_from i0 C names) <->
    exists x, nth_error names (i - i0) = Some x /\ nmem x C = true /\ i0 <= i.
  Proof.
    intros C names. induction names as [|x names IH]; simpl; intros i0 i.
    - split; [contradiction|]. intros [y [H _]]. destruct (i - i0); discriminate.
    - destruct (nmem x C) eqn:Ex.
      + simpl. rewrite IH. split.
        * intros [H | [y [H1 [H2 H3]]]].
          -- subst. exists x. rewrite Nat.sub_diag. auto.
          -- exists y. replace (i - i0) with (S (i - S i0)) by lia. simpl. repeat split; auto. lia.
        * intros [y [H1 [H2 H3]]]. destruct (i - i0) as [|k] eqn:Ek.
          -- left. lia.
          -- right. exists y. simpl in H1. replace (i - S i0) with k by lia. repeat split; auto. lia.
      + rewrite IH. split.
        * intros [y [H1 [H2 H3]]]. exists y. replace (i - i0) with (S (i - S i0)) by lia. simpl.
          repeat split; auto. lia.
        * intros [y [H1 [H2 H3]]]. destruct (i - i0) as [|k] eqn:Ek.
          -- simpl in H1. inversion H1; subst. congruence.
          -- exists y. simpl in H1. replace (i - S i0) with k by lia. repeat split; auto. lia.
  Qed.

  Lemma positions_from_sorted : forall C names i0,
    Sorted.StronglySorted lt (positions_from i0 C names).
  Proof.
    intros C names. induction names as [|x names IH]; simpl; intros i0.
    - constructor.
    - destruct (nmem x C); auto. constructor; auto.
      apply Forall_forall. intros j Hj. apply positions_from_lt in Hj. lia.
  Qed.

  Lemma positions_network_order : forall (C names : list string),
    Sorted.StronglySorted lt (positions_from 0 C names) /\
    forall i, In i (positions_from 0 C names) <->
              exists x, nth_error names i = Some x /\ nmem x C = true.
  Proof.
    intros C names. split; [apply positions_from_sorted|].
    intros i. rewrite positions_from_spec. rewrite Nat.sub_0_r. split.
    - intros [x [H1 [H2 _]]]. exists x. auto.
    - intros [x [H1 H2]]. exists x. repeat split; auto. lia.
  Qed.

  Lemma sel_cols_lt : forall w T js, sel_cols w T = Some js -> Forall (fun j => j < w) js.
  Proof.
    intros w [ts|] js H; simpl in H.
    - eapply norm_indices_lt; eauto.
    - inversion H; subst. apply Forall_forall. intros j Hj. apply in_seq in Hj. lia.
  Qed.

  (* closed form of the answer for a reachable network *)
  Theorem cc_closed_form : forall ops X C T,
    let n := run ops net0 in
    cc X C T n =
    match sel_cols (xw X) T with
    | None => Err "IndexError"%string
    | Some js =>
        match cmat n with
        | None => Err "TypeError"%string
        | Some m =>
            if negb (Nat.eqb (List.length (xrows X)) (List.length (stations n))) then Err "ValueError"%string
            else Ok (map (fun i => map (fun j => dot (nth i m []) (column zero X j)) js)
                         (constraint_indices C (cnames n)))
        end
    end.
  Proof.
    intros ops X C T n. unfold Network.constraint_current.
    destruct T as [ts|]; simpl sel_cols.
    - destruct (norm_indices (xw X) ts) as [js|] eqn:Ej; auto.
      destruct (cmat n) as [m|]; auto.
      unfold take_cols at 1. simpl xrows. rewrite map_length.
      destruct (negb _); auto.
      rewrite matmul_take_cols, map_map. reflexivity.
    - destruct (cmat n) as [m|]; auto.
      destruct (negb _); auto.
      unfold Network.matmul_abs. rewrite map_map. reflexivity.
  Qed.

  Theorem subset_of_full : forall ops X C T,
    let n := run ops net0 in
    cc X C T n =
    match sel_cols (xw X) T with
    | None => Err "IndexError"%string
    | Some js =>
        match cc X None None n with
        | Err e => Err e
        | Ok full =>
            Ok (map (fun i => map (fun j => nth j (nth i full []) None) js)
                    (constraint_indices C (cnames n)))
        end
    end.
  Proof.
    intros ops X C T n. subst n.
    rewrite (cc_closed_form ops X C T), (cc_closed_form ops X None None).
    set (n := run ops net0).
    destruct (sel_cols (xw X) T) as [js|] eqn:Ej; auto. simpl sel_cols. cbv iota.
    destruct (cmat n) as [m|] eqn:Em; auto.
    destruct (negb _); auto.
    f_equal. apply map_ext_in. intros i Hi. apply constraint_indices_lt in Hi.
    destruct (aligned_lengths zero ops) as (_ & Hlen & _). fold n in Hlen.
    destruct (Hlen m Em) as [Hm _].
    assert (Hrow : nth i (map (fun i0 => map (fun j => dot (nth i0 m []) (column zero X j)) (seq 0 (xw X)))
                              (constraint_indices None (cnames n))) []
                   = map (fun j => dot (nth i m []) (column zero X j)) (seq 0 (xw X))).
    { simpl constraint_indices.
      rewrite (nth_indep _ [] ((fun i0 => map (fun j => dot (nth i0 m []) (column zero X j)) (seq 0 (xw X))) 0))
        by (rewrite map_length, seq_length; exact Hi).
      rewrite (map_nth (fun i0 => map (fun j => dot (nth i0 m []) (column zero X j)) (seq 0 (xw X)))).
      rewrite seq_nth by exact Hi. reflexivity. }
    rewrite Hrow.
    apply map_ext_in. intros j Hj.
    pose proof (sel_cols_lt _ _ _ Ej) as Hlt. rewrite Forall_forall in Hlt. specialize (Hlt j Hj).
    rewrite (nth_indep _ None ((fun j0 => dot (nth i m []) (column zero X j0)) 0))
      by (rewrite map_length, seq_length; exact Hlt).
    rewrite (map_nth (fun j0 => dot (nth i m []) (column zero X j0))).
    rewrite seq_nth by exact Hlt. reflexivity.
  Qed.

  (* with the alignment theorem: every entry is  sum_k |coeff(current_i, station_k)| * X[k][j] *)
  Lemma dot_all_some : forall (r : list A) col, dot (map Some r) col = Some (lin_sum (map absf r) col).
  Proof.
    induction r as [|u r IH]; intros col; simpl; auto.
    destruct col as [|v col]; simpl; auto. rewrite IH. reflexivity.
  Qed.

  Theorem cc_values : forall ops X C T,
    let n := run ops net0 in
    let g := grun ops (ghost0 (A := A)) in
    cc X C T n =
    match sel_cols (xw X) T with
    | None => Err "IndexError"%string
    | Some js =>
        if g_ever g then
          if negb (Nat.eqb (List.length (xrows X)) (List.length (stations n))) then Err "ValueError"%string
          else Ok (map (fun i =>
                     map (fun j =>
                        match nth_error (g_live g) i with
                        | Some x => Some (lin_sum (map (fun s => absf (coeff zero (l_cur x) s)) (stations n))
                                                  (column zero X j))
                        | None => Some zero
                        end) js)
                   (constraint_indices C (cnames n)))
        else Err "TypeError"%string
    end.
  Proof.
    intros ops X C T n g. subst n. rewrite (cc_closed_form ops X C T). set (n := run ops net0).
    destruct (sel_cols (xw X) T) as [js|]; auto.
    destruct (aligned zero ops) as (Hs & Hn & Hm & Hl & Hc). fold n g in Hs, Hn, Hm, Hl, Hc.
    rewrite Hm. destruct (g_ever g); auto.
    destruct (negb _); auto. f_equal.
    apply map_ext_in. intros i Hi. apply constraint_indices_lt in Hi.
    rewrite Hc, map_length in Hi.
    apply map_ext. intros j.
    destruct (nth_error (g_live g) i) as [x|] eqn:Ex.
    - rewrite (nth_indep _ [] ((fun y => Network.row_of zero (stations n) (l_cur y)) x))
        by (rewrite map_length; exact Hi).
      rewrite (map_nth (fun y => Network.row_of zero (stations n) (l_cur y))).
      rewrite (nth_error_nth _ _ x Ex).
      unfold Network.row_of.
      rewrite <- (map_map (fun s => coeff zero (l_cur x) s) Some).
      rewrite dot_all_some, map_map. reflexivity.
    - apply nth_error_None in Ex. lia.
  Qed.
End Subset.
