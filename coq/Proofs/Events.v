(* Proofs/Events.v — lemmas about the EventQueue model (Model/Events.v) on top of the proved
   heapq model (Proofs/HeapQ.v).  Z / nat / list only; axiom-free. *)
From Coq Require Import ZArith List Bool Lia Permutation Sorted ZifyBool.
From ACN Require Import Base.Num Base.ListX Model.HeapQ Proofs.HeapQ Gen.Events_Z Gen.EventParams Model.Events.
Import ListNotations.
Open Scope Z_scope.

(* ------------------------------------------------------------------ the key order *)
Lemma ev_eqb_eq a b : ev_eqb a b = true <-> a = b.
Proof.
  destruct a as [p i], b as [p' i']. unfold ev_eqb; simpl.
  rewrite andb_true_iff, Z.eqb_eq, Nat.eqb_eq. split; [intros [-> ->]; auto | intros [= -> ->]; auto].
Qed.

Lemma ev_eqb_refl a : ev_eqb a a = true.
Proof. now apply ev_eqb_eq. Qed.

Lemma item_eqb_eq a b : item_eqb a b = true <-> a = b.
Proof.
  destruct a as [t e], b as [t' e']. unfold item_eqb; simpl.
  rewrite andb_true_iff, Z.eqb_eq, ev_eqb_eq. split; [intros [-> ->]; auto | intros [= -> ->]; auto].
Qed.

(* Python's tuple comparison of (timestamp, event) is the lexicographic order on
   (timestamp, precedence) *)
Lemma item_lt_spec a b :
  item_lt a b = true <->
  item_ts a < item_ts b \/ (item_ts a = item_ts b /\ item_prec a < item_prec b).
Proof.
  unfold item_lt, item_ts, item_prec, Event_lt.
  destruct (Z.eqb_spec (fst a) (fst b)) as [E|E].
  - destruct (ev_eqb (snd a) (snd b)) eqn:V.
    + apply ev_eqb_eq in V. rewrite V. split; [discriminate | lia].
    + rewrite Z.ltb_lt. lia.
  - rewrite Z.ltb_lt. lia.
Qed.

Lemma item_lt_false a b :
  item_lt a b = false <->
  item_ts b < item_ts a \/ (item_ts a = item_ts b /\ item_prec b <= item_prec a).
Proof.
  pose proof (item_lt_spec a b) as H. destruct (item_lt a b).
  - split; [discriminate|]. intros. assert (true = true) as T by auto. apply H in T. lia.
  - split; auto. intros _.
    assert (~ (item_ts a < item_ts b \/ item_ts a = item_ts b /\ item_prec a < item_prec b)) as N
      by (intros C; apply H in C; discriminate).
    lia.
Qed.

Lemma item_lt_asym x y : item_lt x y = true -> item_lt y x = false.
Proof. rewrite item_lt_spec, item_lt_false. lia. Qed.

Lemma item_nlt_trans x y z : item_lt y x = false -> item_lt z y = false -> item_lt z x = false.
Proof. rewrite !item_lt_false. lia. Qed.

Lemma item_lt_irrefl x : item_lt x x = false.
Proof. rewrite item_lt_false. lia. Qed.

(* ------------------------------------------------------------------ heapq, instantiated *)
Definition heap_ok (h : list item) : Prop := is_heap item item_lt item0 h.

Lemma heap_ok_nil : heap_ok [].
Proof. exact (is_heap_nil _ _ _ item_lt_asym item_nlt_trans). Qed.

Lemma push_ok h x : heap_ok h -> heap_ok (heappush item_lt item0 h x).
Proof. apply heappush_heap; [exact item_lt_asym | exact item_nlt_trans]. Qed.

Lemma push_perm h x : Permutation (heappush item_lt item0 h x) (x :: h).
Proof. exact (heappush_perm _ _ _ item_lt_asym item_nlt_trans h x). Qed.

Lemma pop_none h : heappop item_lt item0 h = None <-> h = [].
Proof. apply heappop_none. Qed.

Lemma pop_some h : heap_ok h -> h <> [] ->
  exists x h', heappop item_lt item0 h = Some (x, h') /\ x = nth 0 h item0 /\ heap_ok h' /\
               Permutation h (x :: h') /\ (forall y, In y h -> item_lt y x = false).
Proof. apply heappop_some; [exact item_lt_asym | exact item_nlt_trans]. Qed.

(* ------------------------------------------------------------------ add_event(s) *)
Definition wf (q : queue) : Prop := heap_ok (q_queue q).

Lemma add_event_wf q x : wf q -> wf (add_event q x).
Proof. apply push_ok. Qed.

Lemma add_event_perm q x : Permutation (q_queue (add_event q x)) (x :: q_queue q).
Proof. apply push_perm. Qed.

Lemma add_event_timestep q x : q_timestep (add_event q x) = q_timestep q.
Proof. reflexivity. Qed.

Lemma add_events_wf xs : forall q, wf q -> wf (add_events q xs).
Proof. induction xs as [|x xs IH]; intros q Hq; simpl; auto. apply IH, add_event_wf, Hq. Qed.

Lemma add_events_perm xs : forall q, Permutation (q_queue (add_events q xs)) (xs ++ q_queue q).
Proof.
  induction xs as [|x xs IH]; intros q; simpl; auto.
  eapply perm_trans; [apply IH|].
  eapply perm_trans; [apply Permutation_app_head, add_event_perm|].
  apply Permutation_sym, Permutation_middle.
Qed.

Lemma add_events_timestep xs : forall q, q_timestep (add_events q xs) = q_timestep q.
Proof. induction xs as [|x xs IH]; intros q; simpl; auto. now rewrite IH. Qed.

Lemma eq_new_wf : wf eq_new.
Proof. apply heap_ok_nil. Qed.

Lemma eq_init_wf xs : wf (eq_init xs).
Proof. apply add_events_wf, eq_new_wf. Qed.

Lemma eq_init_perm xs : Permutation (q_queue (eq_init xs)) xs.
Proof.
  eapply perm_trans; [apply add_events_perm|]. simpl. now rewrite app_nil_r.
Qed.

(* ------------------------------------------------------------------ get_event *)
Lemma get_event_none q : get_event q = None <-> q_queue q = [].
Proof.
  unfold get_event. rewrite <- pop_none.
  destruct (heappop item_lt item0 (q_queue q)) as [[x h]|]; split; congruence.
Qed.

Lemma get_event_some q : wf q -> q_queue q <> [] ->
  exists x q', get_event q = Some (x, q') /\ x = nth 0 (q_queue q) item0 /\ wf q' /\
               q_timestep q' = q_timestep q /\
               Permutation (q_queue q) (x :: q_queue q') /\
               (forall y, In y (q_queue q) -> item_lt y x = false).
Proof.
  intros Hq Hne. destruct (pop_some _ Hq Hne) as (x & h' & Hp & Hx & Hh & Hperm & Hmin).
  exists x, {| q_queue := h'; q_timestep := q_timestep q |}.
  unfold get_event. rewrite Hp. repeat split; auto.
Qed.

(* ------------------------------------------------------------------ get_current_events *)
Definition le_item (a b : item) : Prop := item_lt b a = false.

Lemma eq_empty_spec q : eq_empty q = true <-> q_queue q = [].
Proof.
  unfold eq_empty, EventQueue_empty, eq_len. rewrite Z.eqb_eq.
  destruct (q_queue q); simpl; split; intros; try congruence; lia.
Qed.

Lemma current_loop_spec fuel : forall q acc,
  wf q -> (length (q_queue q) <= fuel)%nat ->
  exists l q', current_loop fuel q acc = (q', acc ++ l) /\ wf q' /\
    q_timestep q' = q_timestep q /\
    Permutation (q_queue q) (l ++ q_queue q') /\
    Forall (fun x => item_ts x <= q_timestep q) l /\
    Forall (fun x => q_timestep q < item_ts x) (q_queue q') /\
    StronglySorted le_item l /\
    (forall x y, In x l -> In y (q_queue q') -> item_lt y x = false).
Proof.
  induction fuel as [|fuel IH]; intros q acc Hq Hf.
  - exists [], q. simpl. rewrite app_nil_r.
    assert (q_queue q = []) as E by (destruct (q_queue q); simpl in *; auto; lia).
    rewrite E. repeat split; auto; try constructor; try (now intros ? ? []).
  - cbn [current_loop].
    unfold EventQueue_current_guard.
    destruct (eq_empty q) eqn:Ee; cbn [negb andb].
    + apply eq_empty_spec in Ee. exists [], q. rewrite app_nil_r, Ee.
      repeat split; auto; try constructor; try (now intros ? ? []).
    + assert (Hne : q_queue q <> []) by (intros C; apply eq_empty_spec in C; congruence).
      destruct (get_event_some q Hq Hne) as (x & q1 & Hg & Hx & Hq1 & Ht1 & Hperm & Hmin).
      destruct (Z.leb_spec (fst (nth 0 (q_queue q) item0)) (q_timestep q)) as [Hle|Hgt].
      * rewrite Hg.
        assert (Hlen : (length (q_queue q1) <= fuel)%nat).
        { apply Permutation_length in Hperm. simpl in Hperm. lia. }
        destruct (IH q1 (acc ++ [x]) Hq1 Hlen) as (l & q' & Hr & Hq' & Ht' & Hp' & Hf1 & Hf2 & Hs & Hc).
        exists (x :: l), q'. rewrite Hr, <- app_assoc. simpl.
        rewrite Ht1 in *.
        assert (Hin1 : forall y, In y (q_queue q1) -> In y (q_queue q)).
        { intros y Hy. eapply Permutation_in; [apply Permutation_sym, Hperm|]. now right. }
        assert (Hinl : forall y, In y l -> In y (q_queue q1)).
        { intros y Hy. eapply Permutation_in; [apply Permutation_sym, Hp'|]. apply in_or_app; now left. }
        assert (Hinq : forall y, In y (q_queue q') -> In y (q_queue q1)).
        { intros y Hy. eapply Permutation_in; [apply Permutation_sym, Hp'|]. apply in_or_app; now right. }
        repeat split; auto.
        -- eapply perm_trans; [exact Hperm|]. simpl. now apply perm_skip.
        -- constructor; auto. rewrite Hx. exact Hle.
        -- constructor; auto. apply Forall_forall. intros y Hy. apply Hmin, Hin1, Hinl, Hy.
        -- intros a b [<-|Ha] Hb; [apply Hmin, Hin1, Hinq, Hb | now apply Hc].
      * exists [], q. rewrite app_nil_r. repeat split; auto; try constructor.
        -- apply Forall_forall. intros y Hy. specialize (Hmin y Hy).
           rewrite item_lt_false in Hmin. rewrite Hx in Hmin. unfold item_ts in *. lia.
        -- intros a b [].
Qed.

Lemma filter_perm {A} (f : A -> bool) l l' : Permutation l l' -> Permutation (filter f l) (filter f l').
Proof.
  induction 1; simpl; auto.
  - destruct (f x); auto.
  - destruct (f x), (f y); auto. apply perm_swap.
  - eapply perm_trans; eauto.
Qed.

Lemma filter_all {A} (f : A -> bool) l : Forall (fun x => f x = true) l -> filter f l = l.
Proof. induction 1; simpl; auto. rewrite H. now f_equal. Qed.

Lemma filter_none {A} (f : A -> bool) l : Forall (fun x => f x = false) l -> filter f l = [].
Proof. induction 1; simpl; auto. now rewrite H. Qed.

Lemma get_current_events_spec q t : wf q ->
  exists l q', get_current_events q t = (q', l) /\ wf q' /\ q_timestep q' = t /\
    Permutation (q_queue q) (l ++ q_queue q') /\
    Permutation l (filter (fun x => item_ts x <=? t) (q_queue q)) /\
    Permutation (q_queue q') (filter (fun x => t <? item_ts x) (q_queue q)) /\
    StronglySorted le_item l /\
    (forall x y, In x l -> In y (q_queue q') -> item_lt y x = false).
Proof.
  intros Hq. unfold get_current_events.
  set (q1 := {| q_queue := q_queue q; q_timestep := t |}).
  destruct (current_loop_spec (length (q_queue q1)) q1 [] Hq (le_n _))
    as (l & q' & Hr & Hq' & Ht & Hp & Hf1 & Hf2 & Hs & Hc).
  simpl in Hr, Ht, Hp, Hf1, Hf2.
  exists l, q'. repeat split; auto.
  - apply Permutation_sym.
    eapply perm_trans; [apply filter_perm, Hp|]. rewrite filter_app.
    rewrite (filter_all _ l), (filter_none _ (q_queue q')); [now rewrite app_nil_r | |].
    + eapply Forall_impl; [|exact Hf2]. intros a Ha; simpl in Ha. lia.
    + eapply Forall_impl; [|exact Hf1]. intros a Ha; simpl in Ha. lia.
  - apply Permutation_sym.
    eapply perm_trans; [apply filter_perm, Hp|]. rewrite filter_app.
    rewrite (filter_none _ l), (filter_all _ (q_queue q')); [reflexivity | |].
    + eapply Forall_impl; [|exact Hf2]. intros a Ha; simpl in Ha. lia.
    + eapply Forall_impl; [|exact Hf1]. intros a Ha; simpl in Ha. lia.
Qed.

(* ------------------------------------------------------------------ queries *)
Lemma py_max_key_spec l : forall best,
  let r := py_max_key best l in
  (r = best \/ In r l) /\ fst best <= fst r /\ (forall x, In x l -> fst x <= fst r).
Proof.
  induction l as [|a l IH]; intros best; simpl.
  - split; [auto|split; [lia|intros x []]].
  - destruct (IH (if fst best <? fst a then a else best)) as (H1 & H2 & H3).
    destruct (Z.ltb_spec (fst best) (fst a)) as [Hlt|Hge].
    + split; [|split].
      * destruct H1 as [->|H1]; auto.
      * lia.
      * intros x [<-|Hx]; auto.
    + split; [|split].
      * destruct H1 as [->|H1]; auto.
      * lia.
      * intros x [<-|Hx]; auto. lia.
Qed.

Lemma get_last_timestamp_spec q :
  match get_last_timestamp q with
  | None => q_queue q = []
  | Some m => (exists x, In x (q_queue q) /\ item_ts x = m) /\
              (forall x, In x (q_queue q) -> item_ts x <= m)
  end.
Proof.
  unfold get_last_timestamp, EventQueue_get_last_timestamp.
  destruct (eq_empty q) eqn:E; cbn [negb].
  - now apply eq_empty_spec.
  - destruct (q_queue q) as [|a l] eqn:Eq.
    + exfalso. assert (eq_empty q = true) by (apply eq_empty_spec; auto). congruence.
    + destruct (py_max_key_spec l a) as (H1 & H2 & H3). split.
      * exists (py_max_key a l). split; auto. destruct H1 as [->|H1]; [now left | now right].
      * intros x [<-|Hx]; unfold item_ts; auto.
Qed.

(* ------------------------------------------------------------------ JSON round trip *)
Definition ctx_good (ctx : list (event * Z)) : Prop :=
  forall k v, ctx_lookup k ctx = Some v -> v = ev_prec k.

Lemma ctx_lookup_app k ctx e p :
  ctx_lookup k (ctx ++ [(e, p)]) =
  match ctx_lookup k ctx with Some v => Some v | None => if ev_eqb k e then Some p else None end.
Proof.
  induction ctx as [|[k' v'] ctx IH]; simpl; auto.
  destruct (ev_eqb k k'); auto.
Qed.

Lemma to_dict_loop_spec l : forall ctx out,
  ctx_good ctx ->
  exists ctx', to_dict_loop l ctx out = (out ++ l, ctx') /\ ctx_good ctx' /\
    (forall k, ctx_lookup k ctx <> None -> ctx_lookup k ctx' <> None) /\
    (forall x, In x l -> ctx_lookup (snd x) ctx' <> None).
Proof.
  induction l as [|[ts e] l IH]; intros ctx out Hg; simpl.
  - exists ctx. rewrite app_nil_r. repeat split; auto; try (now intros ? []).
  - set (ctx1 := match ctx_lookup e ctx with Some _ => ctx | None => ctx ++ [(e, ev_prec e)] end).
    assert (Hg1 : ctx_good ctx1).
    { subst ctx1. destruct (ctx_lookup e ctx) eqn:L; auto.
      intros k v. rewrite ctx_lookup_app. destruct (ctx_lookup k ctx) eqn:Lk.
      - intros [= <-]. now apply Hg.
      - destruct (ev_eqb k e) eqn:V; [|discriminate]. apply ev_eqb_eq in V. now intros [= <-]; subst. }
    assert (Hmono : forall k, ctx_lookup k ctx <> None -> ctx_lookup k ctx1 <> None).
    { subst ctx1. destruct (ctx_lookup e ctx) eqn:L; auto.
      intros k Hk. rewrite ctx_lookup_app. destruct (ctx_lookup k ctx); congruence. }
    assert (He : ctx_lookup e ctx1 <> None).
    { subst ctx1. destruct (ctx_lookup e ctx) eqn:L; [congruence|].
      rewrite ctx_lookup_app, L, ev_eqb_refl. discriminate. }
    destruct (IH ctx1 (out ++ [(ts, e)]) Hg1) as (ctx' & Hr & Hg' & Hm' & Hin').
    exists ctx'. rewrite Hr, <- app_assoc. simpl. repeat split; auto.
    intros x [<-|Hx]; simpl; auto.
Qed.

Lemma from_dict_loop_spec l : forall ctx out,
  ctx_good ctx -> (forall x, In x l -> ctx_lookup (snd x) ctx <> None) ->
  from_dict_loop l ctx out = Some (out ++ l).
Proof.
  induction l as [|[ts rid] l IH]; intros ctx out Hg Hin; simpl.
  - now rewrite app_nil_r.
  - destruct (ctx_lookup rid ctx) as [p|] eqn:L.
    + rewrite (Hg _ _ L). destruct rid as [pr i]. unfold ev_prec, ev_id; simpl.
      rewrite IH; auto; [now rewrite <- app_assoc | intros x Hx; apply Hin; now right].
    + exfalso. apply (Hin (ts, rid)); auto. now left.
Qed.

Lemma json_roundtrip q : from_dict (to_dict q) = Some q.
Proof.
  unfold to_dict, from_dict.
  destruct (to_dict_loop_spec (q_queue q) [] []) as (ctx' & Hr & Hg & _ & Hin).
  { intros k v; discriminate. }
  rewrite Hr. simpl. rewrite from_dict_loop_spec; auto. destruct q; reflexivity.
Qed.

(* ------------------------------------------------------------------ steps and runs *)
Lemma step_json q : step q OJson = (q, RJson (Some (q_timestep q, q_queue q))).
Proof. unfold step. now rewrite json_roundtrip. Qed.

(* one operation: invariant, conservation of the pending multiset *)
Lemma step_spec q o : wf q ->
  wf (fst (step q o)) /\
  Permutation (q_queue (fst (step q o)) ++ returned [snd (step q o)]) (inserted [o] ++ q_queue q).
Proof.
  intros Hq. destruct o; try (simpl; rewrite ?app_nil_r; split; auto; fail).
  - simpl. rewrite app_nil_r. split; [now apply add_event_wf | apply add_event_perm].
  - simpl. rewrite !app_nil_r. split; [now apply add_events_wf | apply add_events_perm].
  - unfold step. destruct (q_queue q) as [|a l] eqn:E.
    + assert (get_event q = None) as -> by (apply get_event_none; auto). simpl. rewrite E. split; auto.
    + destruct (get_event_some q Hq) as (x & q' & Hg & _ & Hq' & _ & Hp & _); [congruence|].
      rewrite Hg. simpl. split; auto. rewrite E in Hp.
      eapply perm_trans; [|apply Permutation_sym, Hp].
      apply Permutation_sym, Permutation_cons_append.
  - unfold step. destruct (get_current_events_spec q t Hq) as (l & q' & Hg & Hq' & _ & Hp & _).
    rewrite Hg. simpl. split; auto. rewrite app_nil_r.
    eapply perm_trans; [apply Permutation_app_comm|]. now apply Permutation_sym.
  - rewrite step_json. simpl. rewrite app_nil_r. auto.
Qed.

Lemma run_cons q o ops :
  run q (o :: ops) = (fst (run (fst (step q o)) ops), snd (step q o) :: snd (run (fst (step q o)) ops)).
Proof.
  simpl. destruct (step q o) as [q1 x]. simpl. destruct (run q1 ops) as [q2 xs]. reflexivity.
Qed.

Lemma returned_cons r rs : returned (r :: rs) = returned [r] ++ returned rs.
Proof. destruct r; simpl; auto. now rewrite app_nil_r. Qed.

Lemma inserted_cons o ops : inserted (o :: ops) = inserted [o] ++ inserted ops.
Proof. destruct o; simpl; auto. now rewrite app_nil_r. Qed.

Lemma run_spec ops : forall q, wf q ->
  wf (fst (run q ops)) /\
  Permutation (q_queue (fst (run q ops)) ++ returned (snd (run q ops))) (inserted ops ++ q_queue q).
Proof.
  induction ops as [|o ops IH]; intros q Hq.
  - simpl. rewrite app_nil_r. auto.
  - rewrite run_cons. cbn [fst snd].
    destruct (step_spec q o Hq) as (H1 & H2).
    destruct (IH _ H1) as (H3 & H4). split; auto.
    rewrite returned_cons, inserted_cons.
    set (q1 := fst (step q o)) in *. set (r := snd (step q o)) in *.
    set (q2 := fst (run q1 ops)) in *. set (rs := snd (run q1 ops)) in *.
    (* q2 ++ ret r ++ ret rs  ~  ret r ++ (q2 ++ ret rs) ~ ret r ++ (ins ops ++ q1) ~ ins ops ++ (q1 ++ ret r)
       ~ ins ops ++ (ins o ++ q) ~ (ins o ++ ins ops) ++ q *)
    eapply perm_trans; [apply Permutation_app_swap_app|].
    eapply perm_trans; [apply Permutation_app_head, H4|].
    eapply perm_trans; [apply Permutation_app_swap_app|].
    eapply perm_trans; [apply Permutation_app_head, Permutation_app_comm|].
    eapply perm_trans; [apply Permutation_app_head, H2|].
    rewrite <- !app_assoc. apply Permutation_app_swap_app.
Qed.

(* reachable states: EventQueue(events) followed by any operations *)
Inductive reachable : queue -> Prop :=
| reach_init : forall xs, reachable (eq_init xs)
| reach_step : forall q o, reachable q -> reachable (fst (step q o)).

Lemma reachable_wf q : reachable q -> wf q.
Proof. induction 1; [apply eq_init_wf | now apply step_spec]. Qed.

Lemma reachable_run ops : forall q, reachable q -> reachable (fst (run q ops)).
Proof.
  induction ops as [|o ops IH]; intros q Hq; simpl; auto.
  specialize (IH _ (reach_step q o Hq)).
  destruct (step q o) as [q1 x]. simpl in IH. destruct (run q1 ops) as [q2 xs]. exact IH.
Qed.

Lemma run_inv init ops :
  let '(q, rs) := run (eq_init init) ops in
  heap_ok (q_queue q) /\ Permutation (q_queue q ++ returned rs) (init ++ inserted ops).
Proof.
  destruct (run_spec ops (eq_init init) (eq_init_wf init)) as (H1 & H2).
  destruct (run (eq_init init) ops) as [q rs]. simpl in *. split; auto.
  eapply perm_trans; [exact H2|].
  eapply perm_trans; [apply Permutation_app_head, eq_init_perm|]. apply Permutation_app_comm.
Qed.

(* ------------------------------------------------------------------ pops are sorted *)
Definition no_insert (o : op) : Prop :=
  match o with OAdd _ | OAddMany _ => False | _ => True end.

Lemma step_noinsert q o : wf q -> no_insert o ->
  let q1 := fst (step q o) in let l := returned [snd (step q o)] in
  wf q1 /\ StronglySorted le_item l /\
  (forall y, In y (q_queue q1) -> In y (q_queue q)) /\
  (forall x y, In x l -> In y (q_queue q1) -> item_lt y x = false).
Proof.
  assert (Hsame : wf q -> wf q /\ StronglySorted le_item [] /\
            (forall y, In y (q_queue q) -> In y (q_queue q)) /\
            (forall x y : item, In x [] -> In y (q_queue q) -> item_lt y x = false)).
  { intros Hq. split; [auto|split; [constructor|split; [auto|intros x y []]]]. }
  intros Hq Hn. destruct o; simpl in Hn; try tauto; try (exact (Hsame Hq)).
  - unfold step. destruct (get_event q) as [[x0 q0]|] eqn:Hg0; [|exact (Hsame Hq)].
    + assert (Hne : q_queue q <> []) by (intros C; apply get_event_none in C; congruence).
      destruct (get_event_some q Hq Hne) as (x & q' & Hg & _ & Hq' & _ & Hp & Hmin).
      rewrite Hg0 in Hg. injection Hg as -> ->.
      cbn [fst snd returned].
      assert (Hin : forall y, In y (q_queue q') -> In y (q_queue q)).
      { intros y Hy. eapply Permutation_in; [apply Permutation_sym, Hp|]. now right. }
      split; [auto|split; [repeat constructor|split; [auto|]]].
      intros a0 b [<-|[]] Hb. apply Hmin, Hin, Hb.
  - unfold step. destruct (get_current_events_spec q t Hq) as (l & q' & Hg & Hq' & _ & Hp & _ & _ & Hs & Hc).
    rewrite Hg. cbn [fst snd returned]. rewrite app_nil_r.
    split; [auto|split; [auto|split; [|auto]]].
    intros y Hy. eapply Permutation_in; [apply Permutation_sym, Hp|]. apply in_or_app; now right.
  - rewrite step_json. exact (Hsame Hq).
Qed.

Lemma sorted_app l1 l2 :
  StronglySorted le_item l1 -> StronglySorted le_item l2 ->
  (forall x y, In x l1 -> In y l2 -> le_item x y) -> StronglySorted le_item (l1 ++ l2).
Proof.
  induction 1 as [|a l1 Hs IH Hf]; intros H2 Hc; simpl; auto.
  constructor.
  - apply IH; auto. intros x y Hx Hy. apply Hc; auto. now right.
  - apply Forall_app. split; auto. apply Forall_forall. intros y Hy. apply Hc; auto. now left.
Qed.

Lemma run_noinsert_sorted ops : forall q, wf q -> Forall no_insert ops ->
  StronglySorted le_item (returned (snd (run q ops))) /\
  (forall y, In y (q_queue (fst (run q ops))) -> In y (q_queue q)) /\
  (forall x, In x (returned (snd (run q ops))) -> In x (q_queue q)) /\
  (forall x y, In x (returned (snd (run q ops))) -> In y (q_queue (fst (run q ops))) -> item_lt y x = false).
Proof.
  induction ops as [|o ops IH]; intros q Hq Hn.
  - simpl. repeat split; auto; try constructor; try (now intros ? []); try (now intros ? ? []).
  - inversion Hn as [|? ? Hn1 Hn2]; subst.
    rewrite run_cons. cbn [fst snd]. rewrite returned_cons.
    destruct (step_noinsert q o Hq Hn1) as (Hq1 & Hs1 & Hin1 & Hc1).
    destruct (step_spec q o Hq) as (_ & Hperm).
    destruct (IH _ Hq1 Hn2) as (Hs2 & Hin2 & Hret2 & Hc2).
    set (q1 := fst (step q o)) in *. set (r := snd (step q o)) in *.
    assert (Hretq : forall x, In x (returned [r]) -> In x (q_queue q)).
    { intros x Hx. assert (inserted [o] = []) as Ei by (destruct o; simpl in *; tauto).
      rewrite Ei in Hperm. simpl in Hperm.
      eapply Permutation_in; [exact Hperm|]. apply in_or_app; now right. }
    repeat split.
    + apply sorted_app; auto. intros x y Hx Hy. apply Hc1; auto.
    + intros y Hy. apply Hin1, Hin2, Hy.
    + intros x Hx. apply in_app_or in Hx. destruct Hx as [Hx|Hx]; auto.
    + intros x y Hx Hy. apply in_app_or in Hx. destruct Hx as [Hx|Hx]; [|now apply Hc2].
      apply Hc1; auto.
Qed.

(* ------------------------------------------------------------------ statements used by Props/C11.v *)
Lemma prec_order : prec_unplug < prec_plugin /\ prec_plugin < prec_recompute.
Proof. unfold prec_unplug, prec_plugin, prec_recompute. lia. Qed.

Lemma le_item_spec a b :
  le_item a b <-> item_ts a < item_ts b \/ (item_ts a = item_ts b /\ item_prec a <= item_prec b).
Proof. unfold le_item. rewrite item_lt_false. lia. Qed.

Lemma class_order ts i j k :
  item_lt (mk ts KUnplug i) (mk ts KPlugin j) = true /\
  item_lt (mk ts KPlugin j) (mk ts KRecompute k) = true /\
  item_lt (mk ts KUnplug i) (mk ts KRecompute k) = true /\
  forall ts' k1 k2, ts < ts' -> item_lt (mk ts k1 i) (mk ts' k2 j) = true.
Proof.
  destruct prec_order as [H1 H2].
  repeat split; intros; rewrite item_lt_spec; unfold mk, item_ts, item_prec, ev_prec, prec_of; simpl; lia.
Qed.

Lemma pop_min q : reachable q ->
  match get_event q with
  | None => q_queue q = [] /\ step q OGet = (q, RIndexError)
  | Some (x, q') =>
      In x (q_queue q) /\
      (forall y, In y (q_queue q) -> item_lt y x = false) /\
      Permutation (q_queue q) (x :: q_queue q') /\
      q_timestep q' = q_timestep q /\
      step q OGet = (q', REvent x) /\ reachable q'
  end.
Proof.
  intros Hr. pose proof (reachable_wf q Hr) as Hq.
  pose proof (reach_step q OGet Hr) as Hr'. unfold step in *.
  destruct (get_event q) as [[x q']|] eqn:Hg.
  - assert (Hne : q_queue q <> []) by (intros C; apply get_event_none in C; congruence).
    destruct (get_event_some q Hq Hne) as (x1 & q1 & Hg1 & _ & Hq1 & Ht & Hp & Hmin).
    rewrite Hg in Hg1. injection Hg1 as <- <-.
    split; [|split; [|split; [|split; [|split]]]]; auto.
    eapply Permutation_in; [apply Permutation_sym, Hp|]. now left.
  - split; auto. now apply get_event_none.
Qed.

Lemma pops_sorted q ops : reachable q -> Forall no_insert ops ->
  let '(q', rs) := run q ops in
  StronglySorted le_item (returned rs) /\
  (forall x y, In x (returned rs) -> In y (q_queue q') -> le_item x y).
Proof.
  intros Hr Hn. destruct (run_noinsert_sorted ops q (reachable_wf q Hr) Hn) as (H1 & _ & _ & H4).
  destruct (run q ops) as [q' rs]. simpl in *. split; auto.
Qed.

Lemma current_exact q t : reachable q ->
  let '(q', l) := get_current_events q t in
  Permutation l (filter (fun x => item_ts x <=? t) (q_queue q)) /\
  Permutation (q_queue q') (filter (fun x => t <? item_ts x) (q_queue q)) /\
  StronglySorted le_item l /\
  q_timestep q' = t /\
  step q (OCurrent t) = (q', REvents l) /\ reachable q'.
Proof.
  intros Hr. pose proof (reach_step q (OCurrent t) Hr) as Hr'. unfold step in *.
  destruct (get_current_events_spec q t (reachable_wf q Hr)) as (l & q' & Hg & _ & Ht & _ & H1 & H2 & H3 & _).
  rewrite Hg in *. simpl in Hr'. split; [|split; [|split; [|split; [|split]]]]; auto.
Qed.

Lemma queries q M : Permutation (q_queue q) M ->
  step q OLen = (q, RLen (Z.of_nat (length M))) /\
  (exists b, step q OEmpty = (q, RBool b) /\ (b = true <-> M = [])) /\
  (exists o, step q OLast = (q, RLast o) /\
     match o with
     | None => M = []
     | Some m => (exists x, In x M /\ item_ts x = m) /\ (forall x, In x M -> item_ts x <= m)
     end).
Proof.
  intros Hp. split; [|split].
  - simpl. unfold eq_len. now rewrite (Permutation_length Hp).
  - exists (eq_empty q). split; auto. rewrite eq_empty_spec. split.
    + intros E. rewrite E in Hp. now apply Permutation_nil.
    + intros E. rewrite E in Hp. now apply Permutation_nil, Permutation_sym.
  - exists (get_last_timestamp q). split; auto.
    pose proof (get_last_timestamp_spec q) as H. destruct (get_last_timestamp q) as [m|].
    + destruct H as ((x & Hx & Hm) & Hmax). split.
      * exists x. split; auto. eapply Permutation_in; eauto.
      * intros y Hy. apply Hmax. eapply Permutation_in; [apply Permutation_sym, Hp|auto].
    + rewrite H in Hp. now apply Permutation_nil.
Qed.

Lemma run_app ops1 : forall q ops2,
  run q (ops1 ++ ops2) =
  (fst (run (fst (run q ops1)) ops2), snd (run q ops1) ++ snd (run (fst (run q ops1)) ops2)).
Proof.
  induction ops1 as [|o ops1 IH]; intros q ops2.
  - simpl. now destruct (run q ops2).
  - rewrite <- app_comm_cons, !run_cons, IH. reflexivity.
Qed.

Lemma run_length ops : forall q, length (snd (run q ops)) = length ops.
Proof.
  induction ops as [|o ops IH]; intros q; auto. rewrite run_cons. simpl. now rewrite IH.
Qed.

Lemma returned_app r1 r2 : returned (r1 ++ r2) = returned r1 ++ returned r2.
Proof.
  induction r1 as [|r r1 IH]; auto. rewrite <- app_comm_cons, returned_cons, IH, app_assoc.
  now rewrite <- returned_cons.
Qed.

Lemma json_transparent q ops1 ops2 :
  let '(qa, ra) := run q (ops1 ++ OJson :: ops2) in
  let '(qb, rb) := run q (ops1 ++ ops2) in
  qa = qb /\ returned ra = returned rb /\
  exists r1 r2 j, rb = r1 ++ r2 /\ ra = r1 ++ RJson (Some j) :: r2 /\ length r1 = length ops1.
Proof.
  rewrite !run_app, run_cons, step_json. cbn [fst snd].
  split; [reflexivity|]. split.
  - rewrite !returned_app. f_equal.
  - eexists _, _, _. split; [reflexivity|]. split; [reflexivity|]. apply run_length.
Qed.

Lemma example_run :
  let ops := [OAdd (mk 3 KRecompute 0); OAdd (mk 3 KPlugin 1); OAddMany [mk 3 KUnplug 2; mk 1 KRecompute 3];
              OGet; OAdd (mk 2 KPlugin 4); OJson; OCurrent 3; OLen; OLast; OGet] in
  snd (run eq_new ops) =
  [RNone; RNone; RNone;
   REvent (mk 1 KRecompute 3); RNone;
   RJson (Some (0, [mk 2 KPlugin 4; mk 3 KUnplug 2; mk 3 KPlugin 1; mk 3 KRecompute 0]));
   REvents [mk 2 KPlugin 4; mk 3 KUnplug 2; mk 3 KPlugin 1; mk 3 KRecompute 0];
   RLen 0; RLast None; RIndexError]
  /\ reachable (fst (run (eq_init [mk 5 KPlugin 7]) ops))
  /\ last (snd (run (eq_init [mk 5 KPlugin 7]) ops)) RNone = REvent (mk 5 KPlugin 7).
Proof.
  intros ops. split; [vm_compute; reflexivity|]. split; [|vm_compute; reflexivity].
  apply reachable_run, reach_init.
Qed.

(* ------------------------------------------------------------------ draining = sorting *)
Lemma run_gets_length n : forall q, wf q ->
  length (q_queue (fst (run q (repeat OGet n)))) = (length (q_queue q) - n)%nat.
Proof.
  induction n as [|n IH]; intros q Hq.
  - simpl. lia.
  - cbn [repeat]. rewrite run_cons. cbn [fst].
    destruct (step_spec q OGet Hq) as (Hq1 & _).
    rewrite (IH _ Hq1). unfold step.
    destruct (get_event q) as [[x q']|] eqn:Hg.
    + assert (Hne : q_queue q <> []) by (intros C; apply get_event_none in C; congruence).
      destruct (get_event_some q Hq Hne) as (x1 & q1 & Hg1 & _ & _ & _ & Hp & _).
      rewrite Hg in Hg1. injection Hg1 as <- <-. apply Permutation_length in Hp. simpl in *. lia.
    + apply get_event_none in Hg. simpl. rewrite Hg. simpl. lia.
Qed.

Lemma no_insert_gets n : Forall no_insert (repeat OGet n).
Proof. induction n; simpl; constructor; simpl; auto. Qed.

Lemma inserted_gets n : inserted (repeat OGet n) = [].
Proof. induction n; simpl; auto. Qed.

Lemma drain_sorted q : reachable q ->
  let '(q', rs) := run q (repeat OGet (length (q_queue q))) in
  q_queue q' = [] /\ Permutation (returned rs) (q_queue q) /\ StronglySorted le_item (returned rs).
Proof.
  intros Hr. pose proof (reachable_wf q Hr) as Hq.
  pose proof (run_gets_length (length (q_queue q)) q Hq) as Hl.
  destruct (run_spec (repeat OGet (length (q_queue q))) q Hq) as (_ & Hp).
  destruct (run_noinsert_sorted _ q Hq (no_insert_gets (length (q_queue q)))) as (Hs & _).
  rewrite inserted_gets in Hp.
  destruct (run q (repeat OGet (length (q_queue q)))) as [q' rs]. simpl in *.
  assert (E : q_queue q' = []) by (destruct (q_queue q'); simpl in *; auto; lia).
  rewrite E in Hp. simpl in Hp. auto.
Qed.

Lemma item_lt_strict_weak :
  (forall x, item_lt x x = false) /\
  (forall x y, item_lt x y = true -> item_lt y x = false) /\
  (forall x y z, item_lt x y = true -> item_lt y z = true -> item_lt x z = true) /\
  (forall x y z, item_lt y x = false -> item_lt z y = false -> item_lt z x = false).
Proof.
  split; [exact item_lt_irrefl|]. split; [exact item_lt_asym|]. split; [|exact item_nlt_trans].
  intros x y z. rewrite !item_lt_spec. lia.
Qed.

(* ------------------------------------------------------------------ several queues *)
Lemma mrun_cons qs a ops :
  mrun qs (a :: ops) =
  (fst (mrun (fst (mstep qs a)) ops), snd (mstep qs a) :: snd (mrun (fst (mstep qs a)) ops)).
Proof.
  simpl. destruct (mstep qs a) as [qs1 x]. simpl. destruct (mrun qs1 ops) as [qs2 xs]. reflexivity.
Qed.

Lemma mstep_fst qs a : fst (mstep qs a) = upd (fst a) (fst (step (nth (fst a) qs eq_new) (snd a))) qs.
Proof. unfold mstep. destruct (step (nth (fst a) qs eq_new) (snd a)); reflexivity. Qed.

Lemma mstep_snd qs a : snd (mstep qs a) = snd (step (nth (fst a) qs eq_new) (snd a)).
Proof. unfold mstep. destruct (step (nth (fst a) qs eq_new) (snd a)); reflexivity. Qed.

Lemma mrun_length ops : forall qs, length (fst (mrun qs ops)) = length qs.
Proof.
  induction ops as [|a ops IH]; intros qs; auto.
  rewrite mrun_cons. cbn [fst]. rewrite IH, mstep_fst. apply upd_length.
Qed.

Lemma queues_independent ops : forall qs i, (i < length qs)%nat ->
  nth i (fst (mrun qs ops)) eq_new = fst (run (nth i qs eq_new) (proj i ops)) /\
  proj_results i ops (snd (mrun qs ops)) = snd (run (nth i qs eq_new) (proj i ops)).
Proof.
  induction ops as [|a ops IH]; intros qs i Hi.
  - simpl. auto.
  - rewrite mrun_cons. cbn [fst snd proj_results]. unfold proj. cbn [filter].
    assert (Hl : (i < length (fst (mstep qs a)))%nat) by (rewrite mstep_fst, upd_length; exact Hi).
    destruct (IH (fst (mstep qs a)) i Hl) as (H1 & H2).
    destruct (Nat.eqb_spec (fst a) i) as [E|E].
    + cbn [map]. fold (proj i ops). rewrite run_cons. cbn [fst snd].
      rewrite H1, H2, mstep_fst, mstep_snd, E, nth_upd_same by exact Hi. auto.
    + fold (proj i ops). rewrite H1, H2, mstep_fst, nth_upd_other by exact E. auto.
Qed.

Lemma multi_reachable ops qs i : (i < length qs)%nat ->
  reachable (nth i qs eq_new) -> reachable (nth i (fst (mrun qs ops)) eq_new).
Proof.
  intros Hi Hr. destruct (queues_independent ops qs i Hi) as (-> & _). now apply reachable_run.
Qed.
