From Coq Require Import ZArith List Bool String.
From ACN Require Import Base.Num Base.Calendar Model.Client.
Lemma placeholder_c20 : True. Proof. exact I. Qed.
