(* Proofs/Client.v — lemmas about Model/Client.v (C20). *)
From Coq Require Import ZArith Lia List Bool String Ascii.
From ACN Require Import Base.Num Base.Calendar Gen.ClientShape Model.Client.
Import ListNotations.
Open Scope string_scope.
Ltac Zify.zify_post_hook ::= Z.to_euclidean_division_equations.

(* ------------------------------------------------------------------ strings *)
Lemma sapp_assoc (a b c : string) : (a ++ b) ++ c = a ++ (b ++ c).
Proof. induction a; simpl; [reflexivity|now rewrite IHa]. Qed.

Lemma strip_prefix_app p s : strip_prefix p (p ++ s) = Some s.
Proof. induction p as [|c p IH]; simpl; [reflexivity|]. now rewrite Ascii.eqb_refl. Qed.

Lemma take_day_name k rest : (k < 7)%nat ->
  take_name day_names 0 (nth k day_names "" ++ rest) = Some (k, rest).
Proof. intro H. do 7 (destruct k as [|k]; [reflexivity|]). lia. Qed.

Lemma take_month_name k rest : (k < 12)%nat ->
  take_name month_names 0 (nth k month_names "" ++ rest) = Some (k, rest).
Proof. intro H. do 12 (destruct k as [|k]; [reflexivity|]). lia. Qed.

Lemma digit_val_digit n : (0 <= n <= 9)%Z -> digit_val (digit n) = Some n.
Proof.
  intro H.
  assert (E : (n = 0 \/ n = 1 \/ n = 2 \/ n = 3 \/ n = 4 \/ n = 5 \/ n = 6 \/ n = 7 \/ n = 8 \/ n = 9)%Z) by lia.
  repeat (destruct E as [->|E]; [reflexivity|]). subst. reflexivity.
Qed.

Lemma take_dec2 n acc rest : (0 <= n <= 99)%Z ->
  take_dec 2 acc (dec2 n ++ rest) = Some (100 * acc + n, rest)%Z.
Proof.
  intro H. unfold dec2. cbn [append take_dec].
  rewrite !digit_val_digit.
  - f_equal. f_equal. lia.
  - lia.
  - lia.
Qed.

Lemma take_dec4 y rest : (0 <= y <= 9999)%Z ->
  take_dec 4 0 (dec4 y ++ rest) = Some (y, rest).
Proof.
  intro H. unfold dec4, dec2. cbn [append take_dec].
  rewrite (digit_val_digit (y / 100 / 10)%Z) by lia. cbn [take_dec].
  rewrite (digit_val_digit ((y / 100) mod 10)%Z) by lia. cbn [take_dec].
  rewrite (digit_val_digit (y mod 100 / 10)%Z) by lia. cbn [take_dec].
  rewrite (digit_val_digit ((y mod 100) mod 10)%Z) by lia.
  f_equal. f_equal. lia.
Qed.

(* ------------------------------------------------------------------ the text http_date builds *)
(* interpreting the regenerated format strings gives the RFC 1123 layout with a four-digit year *)
Lemma rfc1123_eq t :
  rfc1123 t = directive "a" t ++ ", " ++ directive "d" t ++ " " ++ directive "b" t ++ " "
              ++ dec4 (year_of (ord_of t)) ++ " "
              ++ directive "H" t ++ ":" ++ directive "M" t ++ ":" ++ directive "S" t ++ " GMT".
Proof.
  unfold rfc1123, K_strftime_prefix, K_year_format, K_strftime_suffix.
  cbn [strftime Ascii.eqb Bool.eqb format_year String.eqb].
  repeat progress (rewrite ?sapp_assoc; cbn [append]). reflexivity.
Qed.

Lemma year_in_range t : (min_t <= t <= max_t)%Z -> (1 <= year_of (ord_of t) <= 9999)%Z.
Proof.
  unfold ord_of, min_t, max_t. intro H.
  apply year_of_bounds. change (ordinal 1 1 1) with 1%Z. change (ordinal (9999 + 1) 1 1) with 3652060%Z. lia.
Qed.

(* ------------------------------------------------------------------ RFC 1123 round trip *)
Lemma parse_rfc1123_rfc1123 t : (min_t <= t <= max_t)%Z -> parse_rfc1123 (rfc1123 t) = Some t.
Proof.
  intro Hy. pose proof (year_in_range _ Hy) as Hyear.
  rewrite rfc1123_eq. unfold directive. unfold year_of in *.
  pose proof (civil_spec (ord_of t)) as Hc.
  destruct (civil (ord_of t)) as [[y m] d] eqn:Ec. cbn [fst snd] in *. destruct Hc as [Hv Ho].
  cbn [Ascii.eqb Bool.eqb].
  assert (Hv' := Hv). unfold valid_date in Hv'.
  repeat (apply andb_true_iff in Hv'; destruct Hv' as [Hv' ?]).
  repeat match goal with H1 : (_ <=? _)%Z = true |- _ => apply Z.leb_le in H1 end.
  destruct (tod_ranges t) as (Hh & Hmi & Hs).
  pose proof (weekday_range (ord_of t)) as Hw.
  assert (Hd99 : (0 <= d <= 99)%Z).
  { pose proof (days_in_month_le_max y m). pose proof (max_days_in_month_le_31 m). lia. }
  unfold parse_rfc1123.
  rewrite take_day_name by lia. cbn [obind].
  rewrite strip_prefix_app. cbn [obind].
  rewrite take_dec2 by lia. cbn [obind].
  rewrite strip_prefix_app. cbn [obind].
  rewrite take_month_name by lia. cbn [obind].
  rewrite strip_prefix_app. cbn [obind].
  rewrite take_dec4 by lia. cbn [obind].
  rewrite strip_prefix_app. cbn [obind].
  rewrite take_dec2 by lia. cbn [obind].
  rewrite strip_prefix_app. cbn [obind].
  rewrite take_dec2 by lia. cbn [obind].
  rewrite strip_prefix_app. cbn [obind].
  rewrite take_dec2 by lia. cbn [obind].
  change (strip_prefix " GMT" " GMT") with (Some ""). cbn [obind].
  replace (Z.of_nat (Z.to_nat (m - 1)) + 1)%Z with m by lia.
  replace (100 * 0 + d)%Z with d by lia.
  replace (100 * 0 + hour_of t)%Z with (hour_of t) by lia.
  replace (100 * 0 + minute_of t)%Z with (minute_of t) by lia.
  replace (100 * 0 + second_of t)%Z with (second_of t) by lia.
  rewrite Hv.
  assert (E1 : (1 <=? y)%Z = true) by (apply Z.leb_le; lia).
  assert (E2 : (hour_of t <=? 23)%Z = true) by (apply Z.leb_le; lia).
  assert (E3 : (minute_of t <=? 59)%Z = true) by (apply Z.leb_le; lia).
  assert (E4 : (second_of t <=? 59)%Z = true) by (apply Z.leb_le; lia).
  rewrite E1, E2, E3, E4. cbn [andb]. f_equal.
  rewrite Ho. symmetry. apply tod_recompose.
Qed.

(* ------------------------------------------------------------------ http_date / parse_http_date *)
Lemma in_range_iff t : in_range t = true <-> (min_t <= t <= max_t)%Z.
Proof. unfold in_range. rewrite andb_true_iff, !Z.leb_le. tauto. Qed.

Lemma roundtrip_aware zn z a : in_range (instant a) = true ->
  res_bind (http_date a) (parse_http_date zn z) = astimezone zn z (instant a).
Proof.
  intro H. unfold http_date. rewrite H. simpl.
  unfold parse_http_date. rewrite parse_rfc1123_rfc1123; [reflexivity|now apply in_range_iff].
Qed.

Lemma http_date_overflow a : in_range (instant a) = false -> http_date a = Err "OverflowError".
Proof. intro H. unfold http_date. now rewrite H. Qed.

Lemma astimezone_spec zn z u a : astimezone zn z u = Ok a ->
  instant a = u /\ a_off a = z u /\ a_zone a = zn /\ in_range (a_local a) = true.
Proof.
  unfold astimezone. destruct (in_range (u + z u)) eqn:E; [|discriminate].
  intros [= <-]. unfold instant. simpl. repeat split; auto. lia.
Qed.

Lemma astimezone_ok zn z u : in_range (u + z u) = true ->
  astimezone zn z u = Ok {| a_local := u + z u; a_off := z u; a_zone := zn |}.
Proof. unfold astimezone. now intros ->. Qed.

(* formatting and parsing back in the datetime's own zone gives the datetime back *)
Lemma roundtrip_identity z a : in_range (instant a) = true ->
  a_off a = z (instant a) -> in_range (a_local a) = true ->
  res_bind (http_date a) (parse_http_date (a_zone a) z) = Ok a.
Proof.
  intros H Hoff Hr. rewrite roundtrip_aware by assumption.
  unfold astimezone. rewrite <- Hoff.
  replace (instant a + a_off a)%Z with (a_local a) by (unfold instant; lia).
  rewrite Hr. destruct a; reflexivity.
Qed.

(* the witness of the defect fixed in 87c5f78 (0999-06-15 12:30:45 UTC) now round-trips *)
Definition a999 : aware := {| a_local := (364678 * 86400 + 12 * 3600 + 30 * 60 + 45)%Z; a_off := 0; a_zone := "UTC" |}.

Lemma year_999_roundtrips :
  http_date a999 = Ok "Sat, 15 Jun 0999 12:30:45 GMT" /\
  res_bind (http_date a999) (parse_http_date "UTC" (fun _ => 0%Z)) = Ok a999.
Proof. split; vm_compute; reflexivity. Qed.

(* a served (RFC-correct) timestamp becomes an aware datetime of the same instant in the given zone *)
Lemma parse_served zn z u : (min_t <= u <= max_t)%Z ->
  parse_http_date zn z (rfc1123 u) = astimezone zn z u.
Proof. intro H. unfold parse_http_date. now rewrite (parse_rfc1123_rfc1123 u H). Qed.

Lemma parse_http_date_spec zn z s a : parse_http_date zn z s = Ok a ->
  exists u, parse_rfc1123 s = Some u /\ instant a = u /\ a_off a = z u /\ a_zone a = zn.
Proof.
  unfold parse_http_date. destruct (parse_rfc1123 s) as [u|]; [|discriminate].
  intro H. exists u. destruct (astimezone_spec _ _ _ _ H) as (A & B & C & _). auto.
Qed.

(* ------------------------------------------------------------------ time series / documents *)
Lemma conv_series_spec zn z ts l : conv_series zn z ts = Ok l ->
  List.length l = List.length ts /\
  forall i, (i < List.length ts)%nat ->
    exists a, nth_error l i = Some a /\ parse_http_date zn z (nth i ts "") = Ok a.
Proof.
  revert l. induction ts as [|s ts IH]; simpl; intros l.
  - intros [= <-]. split; [reflexivity|]. intros i Hi. inversion Hi.
  - destruct (parse_http_date zn z s) as [a|e] eqn:E; simpl; [|discriminate].
    destruct (conv_series zn z ts) as [l0|e]; simpl; [|discriminate].
    intros [= <-]. destruct (IH _ eq_refl) as [Hl Hn]. split; [simpl; now rewrite Hl|].
    intros [|i] Hi; simpl.
    + exists a. auto.
    + apply Hn. lia.
Qed.

Lemma conv_series_err zn z ts e : conv_series zn z ts = Err e ->
  exists i, (i < List.length ts)%nat /\ parse_http_date zn z (nth i ts "") = Err e.
Proof.
  induction ts as [|s ts IH]; simpl; [discriminate|].
  destruct (parse_http_date zn z s) as [a|e1] eqn:E; simpl.
  - destruct (conv_series zn z ts) as [l0|e2]; simpl; [discriminate|].
    intros [= <-]. destruct (IH eq_refl) as (i & Hi & Hp). exists (S i). split; [lia|assumption].
  - intros [= <-]. exists 0%nat. split; [lia|assumption].
Qed.

Lemma conv_field_spec zn z v v' : conv_field zn z v = Ok v' -> field_converted zn z v v'.
Proof.
  destruct v as [s|k|ts|a|l]; simpl; try (now intros [= <-]).
  - destruct (parse_rfc1123 s) as [u|]; [|now intros [= <-]].
    destruct (astimezone zn z u) as [a|e] eqn:E; simpl; [|discriminate].
    intros [= <-]. exists a. destruct (astimezone_spec _ _ _ _ E) as (A & B & C & _). auto.
  - destruct (conv_series zn z ts) as [l|e] eqn:E; simpl; [|discriminate].
    intros [= <-]. exists l. destruct (conv_series_spec _ _ _ _ E). auto.
Qed.

Lemma conv_fields_spec zn z d d' : conv_fields zn z d = Ok d' ->
  Forall2 (fun kv kv' => fst kv' = fst kv /\ field_converted zn z (snd kv) (snd kv')) d d'.
Proof.
  revert d'. induction d as [|[k v] d IH]; simpl; intros d'.
  - intros [= <-]. constructor.
  - destruct (conv_field zn z v) as [v'|e] eqn:E; simpl; [|discriminate].
    destruct (conv_fields zn z d) as [d0|e]; simpl; [|discriminate].
    intros [= <-]. constructor; [|now apply IH]. simpl. split; [reflexivity|now apply conv_field_spec].
Qed.

Lemma parse_dates_spec tz d d' : parse_dates tz d = Ok d' ->
  exists zn z, dlookup "timezone" d = Some (JStr zn) /\ tz zn = Some z /\
    Forall2 (fun kv kv' => fst kv' = fst kv /\ field_converted zn z (snd kv) (snd kv')) d d'.
Proof.
  unfold parse_dates. destruct (dlookup "timezone" d) as [[zn|k|ts|a|l]|]; try discriminate.
  destruct (tz zn) as [z|] eqn:E; [|discriminate].
  intro H. exists zn, z. repeat split; auto. now apply conv_fields_spec.
Qed.

(* ------------------------------------------------------------------ pagination *)
Lemma yield_items_ok tz items : Forall (convertible tz) items ->
  yield_items tz items = (map (converted tz) items, None).
Proof.
  induction 1 as [|d r [d' Hd] Hr IH]; simpl; [reflexivity|].
  unfold converted at 1. rewrite Hd, IH. reflexivity.
Qed.

Lemma yield_items_prefix tz items :
  exists k, (k <= List.length items)%nat /\
            fst (yield_items tz items) = map (converted tz) (firstn k items) /\
            (snd (yield_items tz items) = None -> k = List.length items).
Proof.
  induction items as [|d r (k & Hle & Hk & Hn)]; simpl.
  - exists 0%nat. auto.
  - destruct (parse_dates tz d) as [d'|e] eqn:E.
    + destruct (yield_items tz r) as [ys e'] eqn:Ey. simpl in *.
      exists (S k). simpl. unfold converted at 1. rewrite E, Hk. split; [lia|]. split; [reflexivity|].
      intro H. now rewrite Hn.
    + exists 0%nat. simpl. split; [lia|]. split; [reflexivity|discriminate].
Qed.

Lemma firstn_app_le {A} k (l1 l2 : list A) : (k <= List.length l1)%nat -> firstn k (l1 ++ l2) = firstn k l1.
Proof.
  intro H. rewrite firstn_app. replace (k - List.length l1)%nat with 0%nat by lia. simpl. apply app_nil_r.
Qed.

Lemma paging_cons p q r : paging (p :: q :: r) <-> p_next p <> None /\ paging (q :: r).
Proof. simpl. tauto. Qed.

Lemma all_items_cons p ps : all_items (p :: ps) = (p_items p ++ all_items ps)%list.
Proof. reflexivity. Qed.

(* a well-formed paging, every document convertible: everything once, in order, one request per page,
   whatever else the server would have answered afterwards (extra) *)
Lemma consume_paging tz base extra : forall ps p,
  paging (p :: ps) -> Forall (convertible tz) (all_items (p :: ps)) ->
  consume tz base p (ps ++ extra) =
  {| t_requests := next_urls base (p :: ps);
     t_yielded := map (converted tz) (all_items (p :: ps));
     t_outcome := Done |}.
Proof.
  induction ps as [|q r IH]; intros p Hp Hc.
  - simpl in Hp. rewrite all_items_cons in Hc. apply Forall_app in Hc. destruct Hc as [Hc _].
    destruct extra as [|x extra]; cbn [consume app];
      rewrite (yield_items_ok _ _ Hc), Hp; cbn [next_urls]; rewrite Hp;
      rewrite all_items_cons; unfold all_items at 1; simpl concat; now rewrite app_nil_r.
  - apply paging_cons in Hp. destruct Hp as [Hn Hp].
    rewrite all_items_cons in Hc. apply Forall_app in Hc. destruct Hc as [Hc1 Hc2].
    cbn [consume app]. rewrite (yield_items_ok _ _ Hc1).
    destruct (p_next p) as [href|] eqn:En; [|congruence].
    rewrite (IH q Hp Hc2). cbn [t_requests t_yielded t_outcome].
    cbn [next_urls]. rewrite En. rewrite (all_items_cons p), map_app. reflexivity.
Qed.

Lemma next_urls_length base ps : paging ps -> S (List.length (next_urls base ps)) = List.length ps.
Proof.
  induction ps as [|p ps IH]; [intros []|].
  destruct ps as [|q r].
  - simpl. now intros ->.
  - intro H. apply paging_cons in H. destruct H as [Hn Hp].
    cbn [next_urls]. destruct (p_next p); [|congruence].
    cbn [List.length]. f_equal. exact (IH Hp).
Qed.

Lemma get_sessions_paging tz base q ps extra :
  valid_site (q_site q) = true -> paging ps -> Forall (convertible tz) (all_items ps) ->
  get_sessions tz base q (ps ++ extra) =
  {| t_requests := first_url base q :: next_urls base ps;
     t_yielded := map (converted tz) (all_items ps);
     t_outcome := Done |}.
Proof.
  intros Hs Hp Hc. unfold get_sessions. rewrite Hs.
  destruct ps as [|p ps]; [destruct Hp|]. cbn [app].
  rewrite (consume_paging tz base extra ps p Hp Hc). reflexivity.
Qed.

(* any server whatsoever: what is yielded is a prefix of the server's items, in order *)
Lemma consume_prefix tz base : forall rest pg,
  exists k, t_yielded (consume tz base pg rest) = map (converted tz) (firstn k (all_items (pg :: rest))).
Proof.
  induction rest as [|pg' rest IH]; intro pg; cbn [consume];
    destruct (yield_items_prefix tz (p_items pg)) as (k & Hle & Hk & Hn);
    destruct (yield_items tz (p_items pg)) as [ys e] eqn:Ey; simpl in Hk, Hn;
    rewrite (all_items_cons pg).
  - exists k. rewrite firstn_app_le by assumption.
    destruct e; [|destruct (p_next pg)]; simpl; exact Hk.
  - destruct e as [err|].
    + exists k. rewrite firstn_app_le by assumption. exact Hk.
    + specialize (Hn eq_refl). subst k.
      destruct (p_next pg) as [href|].
      * destruct (IH pg') as (k' & Hk'). exists (List.length (p_items pg) + k')%nat.
        cbn [t_yielded]. rewrite Hk', Hk.
        rewrite firstn_app_2, map_app. now rewrite firstn_all.
      * exists (List.length (p_items pg)). simpl. rewrite Hk. now rewrite firstn_app_le by lia.
Qed.

Lemma get_sessions_prefix tz base q responses :
  exists k, t_yielded (get_sessions tz base q responses) = map (converted tz) (firstn k (all_items responses)).
Proof.
  unfold get_sessions. destruct (valid_site (q_site q)); [|exists 0%nat; reflexivity].
  destruct responses as [|pg rest]; [exists 0%nat; reflexivity|].
  destruct (consume_prefix tz base rest pg) as (k & Hk). exists k. exact Hk.
Qed.

(* ------------------------------------------------------------------ the query *)
Lemma invalid_site tz base q responses : valid_site (q_site q) = false ->
  get_sessions tz base q responses = {| t_requests := []; t_yielded := []; t_outcome := Raised "ValueError" |}.
Proof. intro H. unfold get_sessions. now rewrite H. Qed.

Lemma valid_site_iff s : valid_site s = true <-> s = "caltech" \/ s = "jpl" \/ s = "office001".
Proof.
  unfold valid_site, K_valid_sites. cbn [existsb]. rewrite !orb_true_iff, !String.eqb_eq. intuition discriminate.
Qed.

Lemma first_request tz base q responses : valid_site (q_site q) = true ->
  exists more, t_requests (get_sessions tz base q responses) = first_url base q :: more.
Proof.
  intro H. unfold get_sessions. rewrite H. destruct responses; simpl; eauto.
Qed.

Lemma first_url_full base site c p s :
  first_url base {| q_site := site; q_cond := Some c; q_project := Some p; q_sort := Some s; q_timeseries := false |}
  = base ++ "sessions/" ++ site ++ "?where=" ++ c ++ "&project=" ++ p ++ "&sort=" ++ s ++ "&max_results=100".
Proof.
  unfold first_url, query_args, opt_arg, K_endpoint, K_ts_suffix, K_query_mark, K_arg_sep, K_arg_cond, K_arg_project,
    K_arg_sort, K_arg_max_results, K_limit, K_limit_ts. cbn [q_site q_cond q_project q_sort q_timeseries app join].
  repeat progress (rewrite ?sapp_assoc; cbn [append]). reflexivity.
Qed.

Lemma first_url_plain base site :
  first_url base {| q_site := site; q_cond := None; q_project := None; q_sort := None; q_timeseries := false |}
  = base ++ "sessions/" ++ site ++ "?max_results=100".
Proof. reflexivity. Qed.

Lemma first_url_ts base site c :
  first_url base {| q_site := site; q_cond := Some c; q_project := None; q_sort := Some "connectionTime"; q_timeseries := true |}
  = base ++ "sessions/" ++ site ++ "/ts/?where=" ++ c ++ "&sort=connectionTime&max_results=1".
Proof.
  unfold first_url, query_args, opt_arg, K_endpoint, K_ts_suffix, K_query_mark, K_arg_sep, K_arg_cond, K_arg_project,
    K_arg_sort, K_arg_max_results, K_limit, K_limit_ts. cbn [q_site q_cond q_project q_sort q_timeseries app join].
  repeat progress (rewrite ?sapp_assoc; cbn [append]). reflexivity.
Qed.

Lemma query_args_spec q :
  query_args q = (match q_cond q with Some c => [("where=" ++ c)%string] | None => [] end ++
                  match q_project q with Some p => [("project=" ++ p)%string] | None => [] end ++
                  match q_sort q with Some s => [("sort=" ++ s)%string] | None => [] end ++
                  [if q_timeseries q then "max_results=1" else "max_results=100"])%list.
Proof.
  unfold query_args, opt_arg. destruct (q_cond q), (q_project q), (q_sort q), (q_timeseries q); reflexivity.
Qed.

(* get_sessions_by_time: the where clause carries the RFC-1123 text of the bounds *)
Lemma by_time_cond start stop : in_range (instant start) = true -> in_range (instant stop) = true ->
  time_cond (Some start) (Some stop) None =
  Ok ("connectionTime >= """ ++ rfc1123 (instant start) ++ """ and connectionTime <= """
      ++ rfc1123 (instant stop) ++ """").
Proof.
  intros H1 H2. unfold time_cond, http_date.
  rewrite H1, H2. cbn [res_map res_bind app join].
  f_equal. repeat progress (rewrite ?sapp_assoc; cbn [append]). reflexivity.
Qed.

(* the literals regenerated from the code are the ones the model was written for *)
Lemma client_literals :
  (K_strftime_prefix ++ "%Y" ++ K_strftime_suffix = rfc1123_format /\ K_year_format = "%04d") /\
  K_strptime_format = rfc1123_format /\
  K_valid_sites = ["caltech"; "jpl"; "office001"] /\ K_site_error = "ValueError" /\
  K_endpoint = "sessions/" /\ K_ts_suffix = "/ts/" /\ K_limit = "100" /\ K_limit_ts = "1" /\
  K_arg_cond = "where=" /\ K_arg_project = "project=" /\ K_arg_sort = "sort=" /\
  K_arg_max_results = "max_results=" /\ K_query_mark = "?" /\ K_arg_sep = "&".
Proof. repeat split; reflexivity. Qed.

(* ------------------------------------------------------------------ lazy consumption *)
Lemma items_k_spec tz items : forall k,
  (k <= List.length (fst (yield_items tz items)))%nat /\
    items_k tz items k = (firstn k (fst (yield_items tz items)), None, 0%nat)
  \/
  (List.length (fst (yield_items tz items)) < k)%nat /\
    items_k tz items k = (fst (yield_items tz items), snd (yield_items tz items),
                          (k - List.length (fst (yield_items tz items)))%nat).
Proof.
  induction items as [|d r IH]; intros [|k]; simpl.
  - left. auto.
  - right. split; [lia|reflexivity].
  - left. split; [lia|reflexivity].
  - destruct (parse_dates tz d) as [d'|e]; simpl.
    + destruct (yield_items tz r) as [ys e0] eqn:Ey. simpl in *.
      destruct (IH k) as [[Hle Hk]|[Hlt Hk]]; rewrite Hk.
      * left. split; [lia|reflexivity].
      * right. split; [lia|reflexivity].
    + right. split; [lia|reflexivity].
Qed.

Lemma consume_k_spec tz base : forall rest pg k, (1 <= k)%nat ->
  t_yielded (consume_k tz base pg rest k) = firstn k (t_yielded (consume tz base pg rest)) /\
  (exists m, t_requests (consume_k tz base pg rest k) = firstn m (t_requests (consume tz base pg rest))) /\
  ((List.length (t_yielded (consume tz base pg rest)) < k)%nat ->
   consume_k tz base pg rest k = consume tz base pg rest).
Proof.
  induction rest as [|pg' rest IH]; intros pg k Hk; cbn [consume consume_k];
    destruct (items_k_spec tz (p_items pg) k) as [[Hle Hi]|[Hlt Hi]]; rewrite Hi;
    destruct (yield_items tz (p_items pg)) as [ys e] eqn:Ey; cbn [fst snd] in *.
  - (* suspended inside the only page *)
    assert (Hy : forall tr, t_yielded tr = ys -> firstn k ys = firstn k (t_yielded tr)) by (intros tr ->; reflexivity).
    destruct e as [err|]; [|destruct (p_next pg)]; cbn [t_yielded t_requests t_outcome];
      (split; [reflexivity|split; [exists 0%nat; reflexivity|intro; lia]]).
  - destruct e as [err|].
    + cbn [t_yielded t_requests]. split; [now rewrite firstn_all2 by lia|]. split; [exists 0%nat; reflexivity|reflexivity].
    + destruct (k - List.length ys)%nat as [|j] eqn:Ej; [lia|].
      destruct (p_next pg); cbn [t_yielded t_requests];
        (split; [now rewrite firstn_all2 by lia|split; [eexists; symmetry; apply firstn_all|reflexivity]]).
  - destruct e as [err|]; [|destruct (p_next pg)]; cbn [t_yielded t_requests t_outcome].
    + split; [reflexivity|]. split; [exists 0%nat; reflexivity|intro; lia].
    + split; [now rewrite firstn_app_le by assumption|]. split; [exists 0%nat; reflexivity|].
      rewrite app_length. intro; lia.
    + split; [reflexivity|]. split; [exists 0%nat; reflexivity|intro; lia].
  - destruct e as [err|].
    + cbn [t_yielded t_requests]. split; [now rewrite firstn_all2 by lia|]. split; [exists 0%nat; reflexivity|reflexivity].
    + destruct (k - List.length ys)%nat as [|j] eqn:Ej; [lia|].
      destruct (p_next pg) as [href|].
      * destruct (IH pg' (S j) ltac:(lia)) as (Hy & (m & Hm) & Hall).
        cbn [t_yielded t_requests t_outcome]. split; [|split].
        -- rewrite Hy. rewrite firstn_app. rewrite (@firstn_all2 _ k ys) by lia. f_equal. f_equal. lia.
        -- exists (S m). simpl. now rewrite Hm.
        -- rewrite app_length. intro Hlen. rewrite Hall by lia. reflexivity.
      * cbn [t_yielded t_requests]. split; [now rewrite firstn_all2 by lia|].
        split; [exists 0%nat; reflexivity|reflexivity].
Qed.

(* consuming only k sessions yields the first k of what full consumption yields, makes a prefix of the
   requests, and is the full run as soon as k exceeds the number of sessions *)
Lemma take_spec tz base q responses k :
  t_yielded (get_sessions_take tz base q responses k) = firstn k (t_yielded (get_sessions tz base q responses)) /\
  (exists m, t_requests (get_sessions_take tz base q responses k)
             = firstn m (t_requests (get_sessions tz base q responses))) /\
  ((List.length (t_yielded (get_sessions tz base q responses)) < k)%nat ->
   get_sessions_take tz base q responses k = get_sessions tz base q responses).
Proof.
  unfold get_sessions_take, get_sessions. destruct k as [|k].
  - simpl. split; [reflexivity|]. split; [exists 0%nat; reflexivity|intro; lia].
  - destruct (valid_site (q_site q)).
    + destruct responses as [|pg rest].
      * simpl. split; [reflexivity|]. split; [exists 1%nat; reflexivity|reflexivity].
      * destruct (consume_k_spec tz base rest pg (S k) ltac:(lia)) as (Hy & (m & Hm) & Hall).
        cbn [t_yielded t_requests t_outcome]. split; [exact Hy|]. split.
        -- exists (S m). simpl. now rewrite Hm.
        -- intro Hlen. now rewrite Hall.
    + simpl. split; [reflexivity|]. split; [exists 0%nat; reflexivity|reflexivity].
Qed.

Lemma take_zero tz base q responses :
  get_sessions_take tz base q responses 0 = {| t_requests := []; t_yielded := []; t_outcome := Suspended |}.
Proof. reflexivity. Qed.

(* ------------------------------------------------------------------ count_sessions *)
Lemma count_sessions_spec base site cond total :
  (valid_site site = false -> count_sessions base site cond total = ([], Err "ValueError")) /\
  (valid_site site = true ->
     count_sessions base site cond total =
     ([base ++ "sessions/" ++ site ++ "?" ++ match cond with Some c => "where=" ++ c ++ "&limit=1" | None => "limit=1" end],
      match total with Some h => Ok h | None => Err "KeyError" end)).
Proof.
  unfold count_sessions. split; intros ->; [reflexivity|].
  unfold count_url, opt_arg, K_endpoint, K_query_mark, K_arg_sep, K_arg_cond.
  destruct cond; cbn [app join]; repeat progress (rewrite ?sapp_assoc; cbn [append]); reflexivity.
Qed.
