(* Proofs/ConvertFit.v — lemmas about the two-stage capacity fit batt_cap_fn and about charging
   the fitted Linear2StageBattery for the whole stay (C15), over R: Model/ConvertR.v on top of
   the regenerated Gen/Fit_R.v and Gen/Battery_R.v.  Depends on the standard real-number axioms. *)
From Coq Require Import Reals Lra Lia List Bool String Psatz.
From ACN Require Import Base.Num Base.NumR Gen.Fit_R Gen.FitConst Gen.Battery_R Model.ConvertR.
Import ListNotations.
Open Scope R_scope.

(* ------------------------------------------------------------------------------------------ *)
(* exp facts                                                                                  *)
(* ------------------------------------------------------------------------------------------ *)
Lemma exp_le_1 y : y <= 0 -> exp y <= 1.
Proof.
  intro H. destruct (Req_dec y 0) as [->|Hn]; [rewrite exp_0; lra|].
  rewrite <- exp_0. left. apply exp_increasing. lra.
Qed.

Lemma exp_lt_1 y : y < 0 -> exp y < 1.
Proof. intro H. rewrite <- exp_0. now apply exp_increasing. Qed.

Lemma exp_nat (k : nat) x : exp (INR k * x) = exp x ^ k.
Proof.
  induction k as [|k IH].
  - simpl. rewrite Rmult_0_l. apply exp_0.
  - rewrite S_INR. replace ((INR k + 1) * x) with (x + INR k * x) by ring.
    rewrite exp_plus, IH. reflexivity.
Qed.

(* ------------------------------------------------------------------------------------------ *)
(* delta_soc_from_init_soc in normal form                                                     *)
(* A = max_dsoc * stay_dur (SoC deliverable at full rate before any rampdown), x = initial SoC *)
(* ------------------------------------------------------------------------------------------ *)
Definition hramp (u : R) : R :=            (* SoC lost to the rampdown when overshooting 0.8 by u *)
  if Rle_dec u 0 then 0 else u - (1/5) * (1 - exp (-5 * u)).

Definition Dn (A x : R) : R := A - hramp (A + x - 4/5).

Lemma hramp_mono_lip u v : u <= v -> 0 <= hramp v - hramp u <= v - u.
Proof.
  intro H. unfold hramp.
  destruct (Rle_dec u 0) as [Hu|Hu]; destruct (Rle_dec v 0) as [Hv|Hv]; try lra.
  - pose proof (exp_ineq1_le (-5 * v)). pose proof (exp_le_1 (-5 * v)). lra.
  - assert (E : exp (-5 * v) = exp (-5 * u) * exp (-5 * (v - u))).
    { rewrite <- exp_plus. f_equal. ring. }
    pose proof (exp_pos (-5 * u)) as P0. pose proof (exp_le_1 (-5 * u)) as P1.
    pose proof (exp_pos (-5 * (v - u))) as Q0. pose proof (exp_le_1 (-5 * (v - u))) as Q1.
    pose proof (exp_ineq1_le (-5 * (v - u))) as Q2.
    rewrite E. set (P := exp (-5 * u)) in *. set (Qv := exp (-5 * (v - u))) in *.
    assert (0 <= P * (1 - Qv) <= 5 * (v - u)) by nra. lra.
Qed.

Lemma hramp_nonneg u : 0 <= hramp u.
Proof.
  destruct (Rle_dec u 0) as [H|H].
  - unfold hramp. destruct (Rle_dec u 0); lra.
  - pose proof (hramp_mono_lip 0 u ltac:(lra)) as [H1 _].
    unfold hramp at 2 in H1. destruct (Rle_dec 0 0); lra.
Qed.

Lemma hramp_flat u : u <= 0 -> hramp u = 0.
Proof. intro H. unfold hramp. destruct (Rle_dec u 0); lra. Qed.

Lemma Dn_le A x : Dn A x <= A.
Proof. unfold Dn. pose proof (hramp_nonneg (A + x - 4/5)). lra. Qed.

Lemma Dn_antitone A x y : x <= y -> Dn A y <= Dn A x.
Proof. intro H. unfold Dn. pose proof (hramp_mono_lip (A + x - 4/5) (A + y - 4/5)). lra. Qed.

Lemma Dn_lipschitz A x y : Rabs (Dn A x - Dn A y) <= Rabs (x - y).
Proof.
  unfold Dn. destruct (Rle_dec x y) as [H|H].
  - pose proof (hramp_mono_lip (A + x - 4/5) (A + y - 4/5)) as L.
    rewrite (Rabs_pos_eq (A - _ - _)) by lra. rewrite (Rabs_left1 (x - y)) by lra. lra.
  - pose proof (hramp_mono_lip (A + y - 4/5) (A + x - 4/5)) as L.
    rewrite (Rabs_left1 (A - _ - _)) by lra. rewrite (Rabs_pos_eq (x - y)) by lra. lra.
Qed.

Lemma Dn_flat A x : A + x <= 4/5 -> Dn A x = A.
Proof. intro H. unfold Dn. rewrite hramp_flat; lra. Qed.

Lemma Dn_ramp A x : 4/5 < A + x -> Dn A x = 1 - (1/5) * exp (-5 * (A + x - 4/5)) - x.
Proof. intro H. unfold Dn, hramp. destruct (Rle_dec (A + x - 4/5) 0); lra. Qed.

(* initial SoC plus what is delivered never exceeds 1 *)
Lemma Dn_fits A x : 0 <= A -> x <= 1 -> x + Dn A x <= 1.
Proof.
  intros HA Hx. destruct (Rle_dec (A + x) (4/5)) as [H|H].
  - rewrite Dn_flat; lra.
  - rewrite Dn_ramp by lra. pose proof (exp_pos (-5 * (A + x - 4/5))). lra.
Qed.

Lemma Dn_at_1 A : 0 <= A -> Dn A 1 < 0.
Proof. intro H. rewrite Dn_ramp by lra. pose proof (exp_pos (-5 * (A + 1 - 4/5))). lra. Qed.

Lemma le_div_iff n b m : 0 < m -> (n <= b / m <-> m * n <= b).
Proof.
  intro Hm. split; intro H.
  - apply (Rmult_le_compat_l m) in H; [|lra]. replace (m * (b / m)) with b in H by (field; lra). exact H.
  - apply (Rmult_le_reg_l m); [lra|]. replace (m * (b / m)) with b by (field; lra). exact H.
Qed.

(* the generated function is Dn *)
Lemma Fit_delta_from_Dn m n x : 0 < m -> Fit_delta_from m n (4/5) x = Dn (m * n) x.
Proof.
  intro Hm. unfold Fit_delta_from.
  destruct (Rleb n ((4/5 - x) / m)) eqn:E; [apply Rleb_spec in E|apply Rleb_false in E].
  - apply le_div_iff in E; [|exact Hm]. rewrite Dn_flat; lra.
  - assert (4/5 - x < m * n).
    { destruct (Rlt_le_dec (4/5 - x) (m * n)) as [H|H]; auto.
      apply (le_div_iff n (4/5 - x) m Hm) in H. lra. }
    rewrite Dn_ramp by lra.
    replace ((m * n + x - 4/5) / (4/5 - 1)) with (-5 * (m * n + x - 4/5)) by field. lra.
Qed.

(* ------------------------------------------------------------------------------------------ *)
(* binsearch: terminates and is accurate for any 1-Lipschitz f that brackets the target       *)
(* ------------------------------------------------------------------------------------------ *)
Lemma binsearch_R_correct f tol target :
  0 < tol -> (forall a b, Rabs (f a - f b) <= Rabs (a - b)) ->
  forall k lb ub, lb <= ub -> target <= f lb -> f ub <= target -> ub - lb < tol * 2 ^ (S k) ->
  exists x, binsearch_R (S k) f lb ub target tol = Some x /\ lb <= x <= ub /\ Rabs (f x - target) < tol.
Proof.
  intros Htol Hlip. induction k as [|k IH]; intros lb ub Hle Hlb Hub Hw.
  - (* width < 2 tol: the midpoint is within tol *)
    cbn [binsearch_R]. unfold Fit_bs_mid, Fit_bs_done.
    set (mid := (lb + ub) / 2).
    assert (Hm : Rabs (f mid - target) < tol).
    { pose proof (Hlip mid ub) as L1. pose proof (Hlip lb mid) as L2.
      assert (Rabs (mid - ub) = ub - mid) by (rewrite Rabs_left1; unfold mid; lra).
      assert (Rabs (lb - mid) = mid - lb) by (rewrite Rabs_left1; unfold mid; lra).
      assert (ub - mid < tol) by (unfold mid; simpl in Hw; lra).
      assert (mid - lb < tol) by (unfold mid; simpl in Hw; lra).
      apply Rabs_def1.
      - pose proof (Rle_abs (f mid - f ub)). lra.
      - pose proof (Rle_abs (f lb - f mid)). lra. }
    apply Rltb_spec in Hm. rewrite Hm. exists mid. apply Rltb_spec in Hm.
    repeat split; auto; unfold mid; lra.
  - cbn [binsearch_R]. unfold Fit_bs_mid, Fit_bs_done, Fit_bs_up, Fit_bs_up_lb, Fit_bs_up_ub,
      Fit_bs_dn_lb, Fit_bs_dn_ub.
    set (mid := (lb + ub) / 2).
    destruct (Rltb (Rabs (f mid - target)) tol) eqn:Ed.
    + apply Rltb_spec in Ed. exists mid. repeat split; auto; unfold mid; lra.
    + assert (Hhalf : ub - mid < tol * 2 ^ S k /\ mid - lb < tol * 2 ^ S k).
      { unfold mid. change (2 ^ S (S k)) with (2 * 2 ^ S k) in Hw. lra. }
      destruct (Rltb 0 (f mid - target)) eqn:Eu; [apply Rltb_spec in Eu|apply Rltb_false in Eu].
      * destruct (IH mid ub) as (x & Hx & Hr & Ha); try (unfold mid; lra); try lra.
        exists x. repeat split; auto; unfold mid in *; lra.
      * destruct (IH lb mid) as (x & Hx & Hr & Ha); try (unfold mid; lra); try lra.
        exists x. repeat split; auto; unfold mid in *; lra.
Qed.

(* ------------------------------------------------------------------------------------------ *)
(* one period of Linear2StageBattery._charge at the fit's operating point                     *)
(*   pilot = 32 A, max_power = 32 V / 1000, transition_soc = 4/5, noise_level = 0             *)
(* ------------------------------------------------------------------------------------------ *)
Definition soc_step (m s : R) : R :=
  if Rlt_dec s (4/5) then
    if Rle_dec (s + m) (4/5) then s + m else 1 - (1/5) * exp (-5 * (m + s - 4/5))
  else 1 + exp (-5 * m) * (s - 1).

Lemma l2_step_spec cap V T nz charge :
  0 < V -> 0 < T -> 0 < cap ->
  l2_step_R cap (32 * V / 1000) (4/5) 32 V T nz charge
  = soc_step (Fit_max_dsoc T V cap) (charge / cap) * cap.
Proof.
  intros HV HT Hc. unfold l2_step_R, L2_charge, Fit_max_dsoc.
  assert (E1 : Rleb V 0 = false) by (apply Rleb_false; lra).
  assert (E2 : Rleb T 0 = false) by (apply Rleb_false; lra).
  assert (E3 : Reqb 32 0 = false) by (apply Reqb_false; lra).
  assert (E4 : Rltb 0 0 = false) by (apply Rltb_false; lra).
  rewrite E1, E2, E3, E4. cbv zeta.
  set (m := 32 * V / 1000 / cap / (60 / T)).
  assert (Hm : 0 < m).
  { unfold m. apply Rdiv_lt_0_compat; [apply Rdiv_lt_0_compat|apply Rdiv_lt_0_compat]; lra. }
  assert (E5 : Rltb m m = false) by (apply Rltb_false; lra). rewrite E5.
  replace (4/5 + (m - m) / m * (4/5 - 1)) with (4/5) by (unfold Rdiv; ring).
  set (s := charge / cap). cbn [stateS L2_charge__current_charge].
  f_equal. unfold soc_step.
  destruct (Rltb s (4/5)) eqn:Es; [apply Rltb_spec in Es|apply Rltb_false in Es].
  - destruct (Rlt_dec s (4/5)) as [_|N]; [|lra].
    destruct (Rleb 1 ((4/5 - s) / m)) eqn:Er; [apply Rleb_spec in Er|apply Rleb_false in Er].
    + apply le_div_iff in Er; [|exact Hm]. destruct (Rle_dec (s + m) (4/5)); lra.
    + assert (4/5 - s < m * 1).
      { destruct (Rlt_le_dec (4/5 - s) (m * 1)) as [H|H]; auto.
        apply (le_div_iff 1 (4/5 - s) m Hm) in H. lra. }
      destruct (Rle_dec (s + m) (4/5)); [lra|].
      replace ((m + s - 4/5) / (4/5 - 1)) with (-5 * (m + s - 4/5)) by field. lra.
  - destruct (Rlt_dec s (4/5)) as [N|_]; [lra|].
    replace (m / (4/5 - 1)) with (-5 * m) by field. reflexivity.
Qed.

(* n periods in SoC units *)
Fixpoint soc_iter (m : R) (n : nat) (s : R) : R :=
  match n with O => s | S k => soc_iter m k (soc_step m s) end.

Lemma soc_iter_S m n s : soc_iter m (S n) s = soc_step m (soc_iter m n s).
Proof. revert s. induction n as [|n IH]; intro s; [reflexivity|]. cbn [soc_iter] in *. now rewrite IH. Qed.

Lemma l2_run_spec n cap V T noise s :
  0 < V -> 0 < T -> 0 < cap ->
  l2_run_R n cap (32 * V / 1000) (4/5) 32 V T noise (s * cap)
  = soc_iter (Fit_max_dsoc T V cap) n s * cap.
Proof.
  intros HV HT Hc. revert noise s. induction n as [|n IH]; intros noise s; [reflexivity|].
  cbn [l2_run_R soc_iter]. rewrite l2_step_spec by assumption.
  replace (s * cap / cap) with s by (field; lra). apply IH.
Qed.

(* starting at or above the transition: pure exponential approach to 1 *)
Lemma soc_iter_above m n s :
  0 < m -> 4/5 <= s <= 1 -> soc_iter m n s = 1 + exp (-5 * (INR n * m)) * (s - 1).
Proof.
  intros Hm. revert s. induction n as [|n IH]; intros s Hs.
  - simpl. rewrite Rmult_0_l, Rmult_0_r, exp_0. ring.
  - cbn [soc_iter]. unfold soc_step at 1. destruct (Rlt_dec s (4/5)) as [N|_]; [lra|].
    pose proof (exp_pos (-5 * m)) as P0. pose proof (exp_le_1 (-5 * m) ltac:(lra)) as P1.
    rewrite IH by nra.
    rewrite S_INR. replace (-5 * ((INR n + 1) * m)) with (-5 * (INR n * m) + -5 * m) by ring.
    rewrite exp_plus. ring.
Qed.

(* starting at or below the transition: linear, then the rampdown; in total x + Dn *)
Lemma soc_iter_below m n x :
  0 < m -> x <= 4/5 -> soc_iter m n x = x + Dn (m * INR n) x.
Proof.
  intros Hm Hx. induction n as [|n IH].
  - simpl. rewrite Rmult_0_r, Dn_flat; lra.
  - rewrite soc_iter_S, IH. rewrite S_INR. set (k := INR n) in *.
    assert (Hk : 0 <= k) by apply pos_INR.
    destruct (Rle_dec (m * k + x) (4/5)) as [Hf|Hf].
    + (* still linear after k periods *)
      rewrite (Dn_flat (m * k)) by lra. unfold soc_step.
      destruct (Rlt_dec (x + m * k) (4/5)) as [L|L].
      * destruct (Rle_dec (x + m * k + m) (4/5)) as [L2|L2].
        -- rewrite Dn_flat by lra. ring.
        -- rewrite Dn_ramp by lra. replace (m + (x + m * k) - 4/5) with (m * (k + 1) + x - 4/5) by ring. ring.
      * assert (x + m * k = 4/5) by lra.
        rewrite Dn_ramp by lra. replace (m * (k + 1) + x - 4/5) with m by lra.
        replace (x + m * k - 1) with (- (1/5)) by lra. ring.
    + (* already in the rampdown *)
      rewrite (Dn_ramp (m * k)) by lra. rewrite Dn_ramp by lra.
      set (u := m * k + x - 4/5). assert (Hu : 0 < u) by (unfold u; lra).
      pose proof (exp_pos (-5 * u)) as P0. pose proof (exp_lt_1 (-5 * u) ltac:(lra)) as P1.
      unfold soc_step. destruct (Rlt_dec _ (4/5)) as [L|_]; [lra|].
      replace (m * (k + 1) + x - 4/5) with (m + u) by (unfold u; ring).
      replace (-5 * (m + u)) with (-5 * m + -5 * u) by ring. rewrite exp_plus. ring.
Qed.

(* ------------------------------------------------------------------------------------------ *)
(* _get_init_cap: which branch is taken                                                       *)
(* ------------------------------------------------------------------------------------------ *)
Definition tol9 : R := 1 / 1000000000.

Lemma max_dsoc_pos T V cap : 0 < V -> 0 < T -> 0 < cap -> 0 < Fit_max_dsoc T V cap.
Proof.
  intros. unfold Fit_max_dsoc.
  apply Rdiv_lt_0_compat; [apply Rdiv_lt_0_compat|apply Rdiv_lt_0_compat]; lra.
Qed.

Lemma cf_denom_eq m n : Fit_cf_denom m n = exp (-5 * (m * n)) - 1.
Proof. unfold Fit_cf_denom. f_equal. f_equal. field. Qed.

Lemma cf_denom_neg m n : 0 < m * n -> exp (-5 * (m * n)) - 1 < 0.
Proof. intro H. pose proof (exp_lt_1 (-5 * (m * n)) ltac:(lra)). lra. Qed.

(* closed-form candidate for the initial SoC *)
Definition init_cf (E n V T cap : R) : R :=
  1 + (E / cap) / (exp (-5 * (Fit_max_dsoc T V cap * n)) - 1).

Lemma get_init_cap_R_spec fuel E n V T cap :
  0 < V -> 0 < T -> 0 < cap -> 0 < n ->
  let m := Fit_max_dsoc T V cap in
  get_init_cap_R fuel E n V T cap =
  if Rle_dec (4/5) (init_cf E n V T cap) then FVR (init_cf E n V T cap * cap)
  else if Rlt_dec (Dn (m * n) 0) (E / cap) then FVR (-(1))
  else of_bs (run_bs_R fuel (E / cap) m n (4/5)) (fun x => x * cap).
Proof.
  intros HV HT Hc Hn m.
  assert (Hm : 0 < m) by (apply max_dsoc_pos; assumption).
  assert (HA : 0 < m * n) by (apply Rmult_lt_0_compat; assumption).
  unfold get_init_cap_R. fold m. unfold Fit_transition_soc, Fit_d0_arg, Fit_delta_soc.
  rewrite cf_denom_eq. rewrite Fit_delta_from_Dn by exact Hm.
  pose proof (cf_denom_neg m n HA) as Hden.
  assert (E0 : Reqb (exp (-5 * (m * n)) - 1) 0 = false) by (apply Reqb_false; lra).
  rewrite E0. unfold Fit_get_init_cap. cbv zeta.
  change (32 * V / 1000 / cap / (60 / T)) with m.
  replace (m * n / (4/5 - 1)) with (-5 * (m * n)) by field.
  change (1 + E / cap / (exp (-5 * (m * n)) - 1)) with (init_cf E n V T cap).
  destruct (Rleb (4/5) (init_cf E n V T cap)) eqn:Ecf;
    [apply Rleb_spec in Ecf|apply Rleb_false in Ecf].
  - destruct (Rle_dec (4/5) (init_cf E n V T cap)) as [_|N]; [|lra].
    assert (Er : Reqb (init_cf E n V T cap * cap) (init_cf E n V T cap * cap) = true)
      by (apply Reqb_spec; reflexivity).
    now rewrite Er.
  - destruct (Rle_dec (4/5) (init_cf E n V T cap)) as [N|_]; [lra|].
    destruct (Rltb (Dn (m * n) 0) (E / cap)) eqn:Ed; [apply Rltb_spec in Ed|apply Rltb_false in Ed].
    + destruct (Rlt_dec (Dn (m * n) 0) (E / cap)) as [_|N]; [|lra].
      assert (Er : Reqb (-1) (-1) = true) by (apply Reqb_spec; reflexivity). now rewrite Er.
    + destruct (Rlt_dec (Dn (m * n) 0) (E / cap)) as [N|_]; [lra|].
      assert (Er : Reqb (0 * cap) (1 * cap) = false) by (apply Reqb_false; lra). rewrite Er.
      unfold run_bs_R. reflexivity.
Qed.

(* ------------------------------------------------------------------------------------------ *)
(* the bisection branch terminates and is accurate                                            *)
(* ------------------------------------------------------------------------------------------ *)
Lemma run_bs_ok k delta m n :
  0 < m -> 0 <= n -> 0 <= delta -> delta <= Dn (m * n) 0 ->
  1/5 + m * n < tol9 * 2 ^ (S k) ->
  exists x, run_bs_R (S k) delta m n (4/5) = Some x /\
            4/5 - m * n <= x <= 1 /\ Rabs (Dn (m * n) x - delta) < tol9.
Proof.
  intros Hm Hn Hd0 Hd Hw. unfold run_bs_R, Fit_bs_lb, Fit_bs_ub, Fit_bs_target, Fit_bs_tol.
  assert (HA : 0 <= m * n) by (apply Rmult_le_pos; lra).
  destruct (binsearch_R_correct (Fit_delta_from m n (4/5)) tol9 delta) with (k := k)
    (lb := 4/5 - m * n) (ub := 1) as (x & Hx & Hr & Ha).
  - unfold tol9. lra.
  - intros a b. rewrite !Fit_delta_from_Dn by exact Hm. apply Dn_lipschitz.
  - lra.
  - rewrite Fit_delta_from_Dn by exact Hm. rewrite Dn_flat by lra. pose proof (Dn_le (m * n) 0). lra.
  - rewrite Fit_delta_from_Dn by exact Hm. pose proof (Dn_at_1 (m * n) HA). lra.
  - lra.
  - exists x. rewrite Fit_delta_from_Dn in Ha by exact Hm. unfold tol9 in *. auto.
Qed.

(* ------------------------------------------------------------------------------------------ *)
(* charging the fitted battery for the whole stay                                             *)
(* ------------------------------------------------------------------------------------------ *)
Lemma closed_form_delivers E (n : nat) V T cap noise :
  0 < V -> 0 < T -> 0 < cap -> 0 <= E -> (0 < n)%nat ->
  4/5 <= init_cf E (INR n) V T cap ->
  let init := init_cf E (INR n) V T cap * cap in
  l2_run_R n cap (32 * V / 1000) (4/5) 32 V T noise init - init = E /\
  0 <= init /\ init + E <= cap.
Proof.
  intros HV HT Hc HE Hn Hcf init.
  set (m := Fit_max_dsoc T V cap). assert (Hm : 0 < m) by (apply max_dsoc_pos; assumption).
  assert (HN : 0 < INR n) by (apply lt_0_INR; exact Hn).
  assert (HA : 0 < m * INR n) by (apply Rmult_lt_0_compat; assumption).
  pose proof (cf_denom_neg m (INR n) HA) as Hden.
  pose proof (exp_pos (-5 * (m * INR n))) as Hpos.
  set (s0 := init_cf E (INR n) V T cap) in *.
  assert (Hd : 0 <= E / cap) by (apply Rmult_le_pos; [lra|left; now apply Rinv_0_lt_compat]).
  assert (Hs1 : s0 <= 1).
  { unfold s0, init_cf. fold m.
    assert (Hinv : / (exp (-5 * (m * INR n)) - 1) < 0) by (apply Rinv_lt_0_compat; lra).
    assert (E / cap * / (exp (-5 * (m * INR n)) - 1) <= 0) by nra.
    unfold Rdiv at 1. lra. }
  unfold init. rewrite l2_run_spec by assumption. fold m.
  rewrite soc_iter_above by (try exact Hm; lra).
  replace (-5 * (INR n * m)) with (-5 * (m * INR n)) by ring.
  assert (Hkey : (exp (-5 * (m * INR n)) - 1) * (s0 - 1) = E / cap).
  { unfold s0, init_cf. fold m. field. split; lra. }
  assert (HEc : E / cap * cap = E) by (field; lra).
  repeat split.
  - replace ((1 + exp (-5 * (m * INR n)) * (s0 - 1)) * cap - s0 * cap)
      with ((exp (-5 * (m * INR n)) - 1) * (s0 - 1) * cap) by ring.
    rewrite Hkey. exact HEc.
  - apply Rmult_le_pos; lra.
  - (* s0 + delta = 1 + exp * (s0 - 1) <= 1 *)
    assert (s0 + E / cap <= 1).
    { rewrite <- Hkey. assert (0 <= exp (-5 * (m * INR n)) * (1 - s0)) by (apply Rmult_le_pos; lra). lra. }
    rewrite <- HEc at 1. nra.
Qed.

Lemma below_delivers x (n : nat) V T cap noise :
  0 < V -> 0 < T -> 0 < cap -> x <= 4/5 ->
  l2_run_R n cap (32 * V / 1000) (4/5) 32 V T noise (x * cap) - x * cap
  = Dn (Fit_max_dsoc T V cap * INR n) x * cap.
Proof.
  intros HV HT Hc Hx. rewrite l2_run_spec by assumption.
  rewrite soc_iter_below by (try apply max_dsoc_pos; assumption). ring.
Qed.

(* ------------------------------------------------------------------------------------------ *)
(* statements about _get_init_cap used by Props/C15.v                                         *)
(* ------------------------------------------------------------------------------------------ *)
(* the generated closed-form test *)
Definition closed_form_test (E n V T cap : R) : bool :=
  Rleb Fit_transition_soc (1 + Fit_delta_soc E cap / Fit_cf_denom (Fit_max_dsoc T V cap) n).

Lemma closed_form_test_iff E n V T cap :
  closed_form_test E n V T cap = true <-> 4/5 <= init_cf E n V T cap.
Proof.
  unfold closed_form_test, init_cf, Fit_transition_soc, Fit_delta_soc. rewrite cf_denom_eq.
  apply Rleb_spec.
Qed.

Theorem fit_closed_form fuel E (n : nat) V T cap noise :
  0 < V -> 0 < T -> 0 < cap -> 0 <= E -> (0 < n)%nat ->
  closed_form_test E (INR n) V T cap = true ->
  exists init,
    get_init_cap_R fuel E (INR n) V T cap = FVR init /\
    4/5 * cap <= init /\ init + E <= cap /\
    l2_run_R n cap (fit_max_power_R V) Fit_transition_soc Fit_max_rate V T noise init - init = E.
Proof.
  intros HV HT Hc HE Hn Ht. apply closed_form_test_iff in Ht.
  assert (HN : 0 < INR n) by (apply lt_0_INR; exact Hn).
  exists (init_cf E (INR n) V T cap * cap).
  rewrite get_init_cap_R_spec by assumption.
  destruct (Rle_dec (4/5) (init_cf E (INR n) V T cap)) as [_|N]; [|lra].
  destruct (closed_form_delivers E n V T cap noise HV HT Hc HE Hn Ht) as (H1 & H2 & H3).
  unfold fit_max_power_R, Fit_max_rate, Fit_transition_soc.
  repeat split; auto. nra.
Qed.

Theorem fit_bisect k E (n : nat) V T cap :
  0 < V -> 0 < T -> 0 < cap -> 0 <= E -> (0 < n)%nat ->
  closed_form_test E (INR n) V T cap = false ->
  let m := Fit_max_dsoc T V cap in
  E / cap <= Fit_delta_from m (INR n) Fit_transition_soc 0 ->          (* feasible from an empty battery *)
  1/5 + m * INR n < tol9 * 2 ^ (S k) ->                                  (* enough recursion depth *)
  exists x,
    get_init_cap_R (S k) E (INR n) V T cap = FVR (x * cap) /\
    4/5 - m * INR n <= x <= 1 /\
    Rabs (Fit_delta_from m (INR n) Fit_transition_soc x - E / cap) < tol9 /\
    x * cap + E < cap * (1 + tol9) /\
    (x <= 4/5 -> forall noise,
       Rabs (l2_run_R n cap (fit_max_power_R V) Fit_transition_soc Fit_max_rate V T noise (x * cap)
             - x * cap - E) < tol9 * cap).
Proof.
  intros HV HT Hc HE Hn Ht m Hfeas Hw.
  assert (Hm : 0 < m) by (apply max_dsoc_pos; assumption).
  assert (HN : 0 < INR n) by (apply lt_0_INR; exact Hn).
  assert (HA : 0 <= m * INR n) by (apply Rmult_le_pos; lra).
  assert (Hd : 0 <= E / cap) by (apply Rmult_le_pos; [lra|left; now apply Rinv_0_lt_compat]).
  assert (HEc : E / cap * cap = E) by (field; lra).
  unfold Fit_transition_soc in *. rewrite Fit_delta_from_Dn in Hfeas by exact Hm.
  destruct (run_bs_ok k (E / cap) m (INR n) Hm ltac:(lra) Hd Hfeas Hw) as (x & Hx & Hr & Ha).
  exists x. rewrite get_init_cap_R_spec by assumption. fold m.
  assert (Hncf : ~ 4/5 <= init_cf E (INR n) V T cap).
  { intro H. apply closed_form_test_iff in H. unfold Fit_transition_soc in H. congruence. }
  destruct (Rle_dec (4/5) (init_cf E (INR n) V T cap)) as [Y|_]; [contradiction|].
  destruct (Rlt_dec (Dn (m * INR n) 0) (E / cap)) as [Y|_]; [lra|].
  rewrite Hx. cbn [of_bs]. rewrite Fit_delta_from_Dn by exact Hm.
  split; [reflexivity|]. split; [exact Hr|]. split; [exact Ha|].
  pose proof (Dn_fits (m * INR n) x HA ltac:(lra)) as Hfit.
  apply Rabs_def2 in Ha. split.
  - assert (x + E / cap < 1 + tol9) by lra.
    replace (x * cap + E) with ((x + E / cap) * cap) by (rewrite Rmult_plus_distr_r, HEc; ring).
    rewrite (Rmult_comm cap). apply Rmult_lt_compat_r; assumption.
  - intros Hx45 noise. unfold fit_max_power_R, Fit_max_rate.
    rewrite below_delivers by assumption. fold m.
    replace (Dn (m * INR n) x * cap - E) with ((Dn (m * INR n) x - E / cap) * cap)
      by (rewrite Rmult_minus_distr_r, HEc; ring).
    rewrite Rabs_mult, (Rabs_pos_eq cap) by lra.
    apply Rmult_lt_compat_r; [exact Hc|]. apply Rabs_def1; lra.
Qed.

(* a request the fit turns down for this capacity cannot be served by it even from empty *)
Theorem fit_rejects_only_infeasible fuel E (n : nat) V T cap init :
  0 < V -> 0 < T -> 0 < cap -> 0 <= E -> (0 < n)%nat ->
  get_init_cap_R fuel E (INR n) V T cap = FVR init -> init < 0 ->
  cap * Fit_delta_from (Fit_max_dsoc T V cap) (INR n) Fit_transition_soc 0 < E + tol9 * cap.
Proof.
  intros HV HT Hc HE Hn Hg Hneg.
  set (m := Fit_max_dsoc T V cap). assert (Hm : 0 < m) by (apply max_dsoc_pos; assumption).
  assert (HN : 0 < INR n) by (apply lt_0_INR; exact Hn).
  assert (HEc : E / cap * cap = E) by (field; lra).
  unfold Fit_transition_soc. rewrite Fit_delta_from_Dn by exact Hm.
  rewrite get_init_cap_R_spec in Hg by assumption. fold m in Hg.
  destruct (Rle_dec (4/5) (init_cf E (INR n) V T cap)) as [Y|_].
  - inversion Hg; subst. exfalso. nra.
  - destruct (Rlt_dec (Dn (m * INR n) 0) (E / cap)) as [Y|Y].
    + assert (Dn (m * INR n) 0 * cap < E / cap * cap) by (apply Rmult_lt_compat_r; assumption).
      unfold tol9. nra.
    + unfold run_bs_R in Hg.
      destruct (binsearch_R fuel _ _ _ _ _) as [x|] eqn:Eb; cbn [of_bs] in Hg; [|discriminate].
      inversion Hg; subst. assert (Hx : x < 0) by nra.
      (* the returned point is within tol of the target, and Dn is antitone *)
      assert (Hacc : Rabs (Fit_delta_from m (INR n) (4/5) x - E / cap) < tol9).
      { clear - Eb. revert Eb. unfold Fit_bs_target, Fit_bs_tol. fold tol9.
        generalize (Fit_bs_lb m (INR n)) Fit_bs_ub. induction fuel as [|f IH]; intros lb ub Eb; [discriminate|].
        cbn [binsearch_R] in Eb.
        destruct (Fit_bs_done _ _ _) eqn:Ed.
        - inversion Eb; subst. unfold Fit_bs_done in Ed. apply Rltb_spec in Ed. exact Ed.
        - destruct (Fit_bs_up _ _); eapply IH; eassumption. }
      rewrite Fit_delta_from_Dn in Hacc by exact Hm. apply Rabs_def2 in Hacc.
      pose proof (Dn_antitone (m * INR n) x 0 ltac:(lra)).
      assert (Dn (m * INR n) 0 * cap < (E / cap + tol9) * cap) by (apply Rmult_lt_compat_r; lra).
      nra.
Qed.

(* ------------------------------------------------------------------------------------------ *)
(* the capacity ladder                                                                        *)
(* ------------------------------------------------------------------------------------------ *)
Lemma ladder_R_ok fuel caps E n V T cap init :
  ladder_R fuel caps E n V T = FitOkR cap init ->
  exists pre post, caps = (pre ++ cap :: post)%list /\
    E <= cap /\ get_init_cap_R fuel E n V T cap = FVR init /\ 0 <= init /\
    Forall (fun c => c < E \/ exists i, get_init_cap_R fuel E n V T c = FVR i /\ i < 0) pre.
Proof.
  induction caps as [|c rest IH]; cbn [ladder_R]; [discriminate|].
  unfold Fit_skip_cap, Fit_accept_init.
  destruct (Rltb c E) eqn:Es; [apply Rltb_spec in Es|apply Rltb_false in Es].
  - intro H. destruct (IH H) as (pre & post & -> & H1 & H2 & H3 & H4).
    exists (c :: pre), post. repeat split; auto.
  - destruct (get_init_cap_R fuel E n V T c) as [i| |] eqn:Eg; try discriminate.
    destruct (Rleb 0 i) eqn:Ea; [apply Rleb_spec in Ea|apply Rleb_false in Ea].
    + intro H. inversion H; subst. exists [], rest. repeat split; auto.
    + intro H. destruct (IH H) as (pre & post & -> & H1 & H2 & H3 & H4).
      exists (c :: pre), post. repeat split; auto. constructor; auto. right. exists i. split; auto.
Qed.

Lemma ladder_R_none fuel caps E n V T :
  ladder_R fuel caps E n V T = FitNoneR ->
  Forall (fun c => c < E \/ exists i, get_init_cap_R fuel E n V T c = FVR i /\ i < 0) caps.
Proof.
  induction caps as [|c rest IH]; cbn [ladder_R]; [constructor|].
  unfold Fit_skip_cap, Fit_accept_init.
  destruct (Rltb c E) eqn:Es; [apply Rltb_spec in Es|apply Rltb_false in Es].
  - intro H. constructor; auto.
  - destruct (get_init_cap_R fuel E n V T c) as [i| |] eqn:Eg; try discriminate.
    destruct (Rleb 0 i) eqn:Ea; [apply Rleb_spec in Ea|apply Rleb_false in Ea]; [discriminate|].
    intro H. constructor; auto. right. exists i. split; auto.
Qed.

Lemma potential_caps_pos : Forall (fun c => 0 < c) potential_caps_R.
Proof. unfold potential_caps_R, potential_caps_Z. cbn [map]. repeat constructor; lra. Qed.

(* ------------------------------------------------------------------------------------------ *)
(* whatever binsearch returns is accurate (no assumption on fuel)                             *)
(* ------------------------------------------------------------------------------------------ *)
Lemma binsearch_R_sound f tol target fuel :
  forall lb ub x, lb <= ub -> binsearch_R fuel f lb ub target tol = Some x ->
  lb <= x <= ub /\ Rabs (f x - target) < tol.
Proof.
  induction fuel as [|k IH]; intros lb ub x Hle H; [discriminate|].
  cbn [binsearch_R] in H. unfold Fit_bs_mid, Fit_bs_done, Fit_bs_up, Fit_bs_up_lb, Fit_bs_up_ub,
    Fit_bs_dn_lb, Fit_bs_dn_ub in H.
  set (mid := (lb + ub) / 2) in *.
  destruct (Rltb (Rabs (f mid - target)) tol) eqn:Ed.
  - inversion H; subst. apply Rltb_spec in Ed. split; auto. unfold mid. lra.
  - destruct (Rltb 0 (f mid - target)).
    + apply IH in H; [|unfold mid; lra]. unfold mid in *. split; [lra|tauto].
    + apply IH in H; [|unfold mid; lra]. unfold mid in *. split; [lra|tauto].
Qed.

(* every non-negative value of _get_init_cap comes from one of the two branches *)
Lemma get_init_cap_R_cases fuel E (n : nat) V T cap init :
  0 < V -> 0 < T -> 0 < cap -> 0 <= E -> (0 < n)%nat ->
  get_init_cap_R fuel E (INR n) V T cap = FVR init -> 0 <= init ->
  let A := Fit_max_dsoc T V cap * INR n in
  (closed_form_test E (INR n) V T cap = true /\ init = init_cf E (INR n) V T cap * cap) \/
  (closed_form_test E (INR n) V T cap = false /\ E / cap <= Dn A 0 /\
   exists x, init = x * cap /\ 4/5 - A <= x <= 1 /\ Rabs (Dn A x - E / cap) < tol9).
Proof.
  intros HV HT Hc HE Hn Hg Hpos A.
  set (m := Fit_max_dsoc T V cap) in *. assert (Hm : 0 < m) by (apply max_dsoc_pos; assumption).
  assert (HN : 0 < INR n) by (apply lt_0_INR; exact Hn).
  assert (HA : 0 <= A) by (apply Rmult_le_pos; lra).
  rewrite get_init_cap_R_spec in Hg by assumption. fold m in Hg. fold A in Hg.
  destruct (Rle_dec (4/5) (init_cf E (INR n) V T cap)) as [Y|Y].
  - left. split; [now apply closed_form_test_iff|]. now inversion Hg.
  - assert (Ht : closed_form_test E (INR n) V T cap = false).
    { destruct (closed_form_test E (INR n) V T cap) eqn:Et; auto. apply closed_form_test_iff in Et. lra. }
    destruct (Rlt_dec (Dn A 0) (E / cap)) as [Z|Z].
    + inversion Hg; subst. lra.
    + right. split; auto. split; [lra|]. unfold run_bs_R in Hg.
      destruct (binsearch_R fuel _ _ _ _ _) as [x|] eqn:Eb; cbn [of_bs] in Hg; [|discriminate].
      inversion Hg; subst. exists x. split; auto.
      unfold Fit_bs_lb, Fit_bs_ub, Fit_bs_target, Fit_bs_tol in Eb.
      apply binsearch_R_sound in Eb; [|fold A; lra]. fold A in Eb.
      rewrite Fit_delta_from_Dn in Eb by exact Hm. fold A in Eb. unfold tol9. exact Eb.
Qed.

Theorem fit_covers fuel E (n : nat) V T cap init :
  0 < V -> 0 < T -> 0 < cap -> 0 <= E -> (0 < n)%nat ->
  get_init_cap_R fuel E (INR n) V T cap = FVR init -> 0 <= init ->
  init <= cap /\ init + E < cap * (1 + tol9) /\
  (closed_form_test E (INR n) V T cap = true -> init + E <= cap).
Proof.
  intros HV HT Hc HE Hn Hg Hpos.
  assert (HEc : E / cap * cap = E) by (field; lra).
  assert (Hd : 0 <= E / cap) by (apply Rmult_le_pos; [lra|left; now apply Rinv_0_lt_compat]).
  assert (Htol : 0 < tol9) by (unfold tol9; lra).
  destruct (get_init_cap_R_cases fuel E n V T cap init HV HT Hc HE Hn Hg Hpos)
    as [[Ht Hi]|(Ht & Hfe & x & Hi & Hr & Ha)].
  - apply closed_form_test_iff in Ht.
    destruct (closed_form_delivers E n V T cap (fun _ => 0) HV HT Hc HE Hn Ht) as (_ & H2 & H3).
    rewrite <- Hi in *. repeat split; try nra; auto.
  - set (A := Fit_max_dsoc T V cap * INR n) in *.
    assert (HA : 0 <= A).
    { apply Rmult_le_pos; [left; apply max_dsoc_pos; assumption|apply pos_INR]. }
    pose proof (Dn_fits A x HA ltac:(lra)) as Hfit. apply Rabs_def2 in Ha.
    assert (Hx : x + E / cap < 1 + tol9) by lra.
    assert (Hlt : (x + E / cap) * cap < (1 + tol9) * cap) by (apply Rmult_lt_compat_r; assumption).
    rewrite Rmult_plus_distr_r, HEc in Hlt. subst init.
    repeat split; try nra. intro Hc'. congruence.
Qed.

Theorem fit_bisect_delivers fuel E (n : nat) V T cap init noise :
  0 < V -> 0 < T -> 0 < cap -> 0 <= E -> (0 < n)%nat ->
  get_init_cap_R fuel E (INR n) V T cap = FVR init -> 0 <= init ->
  closed_form_test E (INR n) V T cap = false ->
  init <= 4/5 * cap ->
  Rabs (l2_run_R n cap (fit_max_power_R V) Fit_transition_soc Fit_max_rate V T noise init - init - E)
  < tol9 * cap.
Proof.
  intros HV HT Hc HE Hn Hg Hpos Ht Hlow.
  assert (HEc : E / cap * cap = E) by (field; lra).
  destruct (get_init_cap_R_cases fuel E n V T cap init HV HT Hc HE Hn Hg Hpos)
    as [[Ht' _]|(_ & Hfe & x & Hi & Hr & Ha)]; [congruence|].
  subst init. assert (Hx : x <= 4/5) by nra.
  unfold fit_max_power_R, Fit_max_rate, Fit_transition_soc.
  rewrite below_delivers by assumption.
  set (A := Fit_max_dsoc T V cap * INR n) in *.
  replace (Dn A x * cap - E) with ((Dn A x - E / cap) * cap)
    by (rewrite Rmult_minus_distr_r, HEc; ring).
  rewrite Rabs_mult, (Rabs_pos_eq cap) by lra.
  apply Rmult_lt_compat_r; assumption.
Qed.

(* ------------------------------------------------------------------------------------------ *)
(* batt_cap_fn as a whole                                                                     *)
(* ------------------------------------------------------------------------------------------ *)
Theorem batt_cap_fn_ok fuel E (n : nat) V T cap init :
  0 < V -> 0 < T -> 0 <= E -> (0 < n)%nat ->
  batt_cap_fn_R fuel E (INR n) V T = FitOkR cap init ->
  In cap potential_caps_R /\ E <= cap /\ 0 <= init <= cap /\ init + E < cap * (1 + tol9) /\
  get_init_cap_R fuel E (INR n) V T cap = FVR init.
Proof.
  intros HV HT HE Hn H. unfold batt_cap_fn_R in H. apply ladder_R_ok in H.
  destruct H as (pre & post & Hl & Hle & Hg & Hpos & _).
  assert (Hin : In cap potential_caps_R) by (rewrite Hl; apply in_or_app; right; left; reflexivity).
  assert (Hc : 0 < cap) by (pose proof potential_caps_pos as P; rewrite Forall_forall in P; now apply P).
  destruct (fit_covers fuel E n V T cap init HV HT Hc HE Hn Hg Hpos) as (H1 & H2 & _).
  repeat split; auto.
Qed.

(* the ladder returns the first capacity that is large enough and whose fit succeeds *)
Theorem batt_cap_fn_first fuel E n V T cap init :
  batt_cap_fn_R fuel E n V T = FitOkR cap init ->
  exists pre post, potential_caps_R = (pre ++ cap :: post)%list /\
    E <= cap /\ get_init_cap_R fuel E n V T cap = FVR init /\ 0 <= init /\
    Forall (fun c => c < E \/ exists i, get_init_cap_R fuel E n V T c = FVR i /\ i < 0) pre.
Proof. apply ladder_R_ok. Qed.

(* ValueError("No feasible battery size found.") only for requests no ladder capacity can
   take, even starting empty, up to the bisection tolerance *)
Theorem batt_cap_fn_none fuel E (n : nat) V T :
  0 < V -> 0 < T -> 0 <= E -> (0 < n)%nat ->
  batt_cap_fn_R fuel E (INR n) V T = FitNoneR ->
  Forall (fun cap => cap < E \/
            cap * Fit_delta_from (Fit_max_dsoc T V cap) (INR n) Fit_transition_soc 0 < E + tol9 * cap)
         potential_caps_R.
Proof.
  intros HV HT HE Hn H. unfold batt_cap_fn_R in H. apply ladder_R_none in H.
  pose proof potential_caps_pos as P. rewrite Forall_forall in *.
  intros c Hin. destruct (H c Hin) as [Hlt|(i & Hg & Hi)]; [left; exact Hlt|right].
  eapply fit_rejects_only_infeasible; eauto.
Qed.

(* a concrete instance of the closed-form branch (hypotheses of fit_closed_form are satisfiable) *)
Lemma closed_form_example : closed_form_test 1 (INR 64) 208 5 8 = true.
Proof.
  apply closed_form_test_iff. unfold init_cf, Fit_max_dsoc.
  replace (INR 64) with 64 by (simpl; lra).
  set (y := -5 * (32 * 208 / 1000 / 8 / (60 / 5) * 64)).
  assert (Hy : y <= -22) by (unfold y; lra).
  assert (He : exp y <= 1 / 23).
  { pose proof (exp_ineq1_le (- y)) as H1. pose proof (exp_pos y) as H2.
    assert (H3 : exp y * exp (- y) = 1) by (rewrite <- exp_plus; replace (y + - y) with 0 by ring; apply exp_0).
    assert (H4 : 23 <= exp (- y)) by lra.
    apply (Rmult_le_reg_r (exp (- y))); [lra|]. rewrite H3. lra. }
  assert (Hd : exp y - 1 < 0) by lra.
  assert (Hi : / (exp y - 1) < 0) by (apply Rinv_lt_0_compat; exact Hd).
  assert (Hk : -(23/22) <= / (exp y - 1)).
  { apply (Rmult_le_reg_r (- (exp y - 1))); [lra|].
    replace (/ (exp y - 1) * - (exp y - 1)) with (-1) by (field; lra). lra. }
  unfold Rdiv at 1. lra.
Qed.

(* 64 halvings are enough whenever max_dsoc * stay <= 1e9 (Python's recursion limit is ~1000) *)
Lemma depth_64 A : A <= 1000000000 -> 1/5 + A < tol9 * 2 ^ 64.
Proof. intro H. unfold tol9. simpl. lra. Qed.

Theorem fit_bisect_64 E (n : nat) V T cap :
  0 < V -> 0 < T -> 0 < cap -> 0 <= E -> (0 < n)%nat ->
  closed_form_test E (INR n) V T cap = false ->
  let m := Fit_max_dsoc T V cap in
  E / cap <= Fit_delta_from m (INR n) Fit_transition_soc 0 ->
  m * INR n <= 1000000000 ->
  exists x,
    get_init_cap_R 64 E (INR n) V T cap = FVR (x * cap) /\
    4/5 - m * INR n <= x <= 1 /\
    Rabs (Fit_delta_from m (INR n) Fit_transition_soc x - E / cap) < tol9.
Proof.
  intros HV HT Hc HE Hn Ht m Hf HA.
  destruct (fit_bisect 63 E n V T cap HV HT Hc HE Hn Ht Hf (depth_64 _ HA)) as (x & H1 & H2 & H3 & _).
  exists x. auto.
Qed.

(* ------------------------------------------------------------------------------------------ *)
(* bisection stopping a hair above the transition: the battery then follows the other closed  *)
(* form; the difference is second order in the overshoot                                      *)
(* ------------------------------------------------------------------------------------------ *)
Lemma exp_neg_le_inv y : 0 <= y -> exp (- y) <= / (1 + y).
Proof.
  intro Hy. pose proof (exp_ineq1_le y) as H1. pose proof (exp_pos y) as H2.
  assert (H3 : exp (- y) = / exp y) by apply exp_Ropp. rewrite H3.
  apply Rinv_le_contravar; lra.
Qed.

Lemma above_delivers_bound A x delta :
  1/1000 <= A -> 4/5 < x <= 1 ->
  1/5 * (1 - exp (-5 * A)) < delta ->            (* the closed-form test failed *)
  Rabs (Dn A x - delta) < tol9 ->                (* bisection accuracy at x *)
  Rabs ((1 + exp (-5 * A) * (x - 1)) - x - delta) < 2 * tol9.
Proof.
  intros HA Hx Hcf Hacc. unfold tol9 in *.
  set (P := exp (-5 * A)) in *. set (e := x - 4/5). assert (He : 0 < e <= 1/5) by (unfold e; lra).
  assert (HP0 : 0 < P) by apply exp_pos.
  assert (HP1 : P <= 200/201).
  { unfold P. replace (-5 * A) with (- (5 * A)) by ring.
    pose proof (exp_neg_le_inv (5 * A) ltac:(lra)) as H.
    assert (/ (1 + 5 * A) <= / (201/200)) by (apply Rinv_le_contravar; lra).
    replace (/ (201/200)) with (200/201) in * by field. lra. }
  rewrite Dn_ramp in Hacc by lra.
  replace (-5 * (A + x - 4/5)) with (-5 * A + -5 * e) in Hacc by (unfold e; ring).
  rewrite exp_plus in Hacc. fold P in Hacc.
  set (Qe := exp (-5 * e)) in *.
  assert (HQ0 : 1 - 5 * e <= Qe) by (unfold Qe; pose proof (exp_ineq1_le (-5 * e)); lra).
  assert (HQ1 : Qe * (1 + 5 * e) <= 1).
  { unfold Qe. replace (-5 * e) with (- (5 * e)) by ring.
    pose proof (exp_neg_le_inv (5 * e) ltac:(lra)) as H.
    apply (Rmult_le_compat_r (1 + 5 * e)) in H; [|lra].
    replace (/ (1 + 5 * e) * (1 + 5 * e)) with 1 in H by (field; lra). exact H. }
  apply Rabs_def2 in Hacc. destruct Hacc as [Hlo Hhi].
  replace x with (e + 4/5) in * by (unfold e; ring).
  (* e * (1 - P) < tol *)
  assert (Hsmall : e * (1 - P) < 1 / 1000000000) by nra.
  assert (He2 : e < 1 / 1000000) by nra.
  (* diff = P/5 * (Qe - 1 + 5e) in [0, 5 e^2] *)
  assert (Hd0 : 0 <= P * (Qe - 1 + 5 * e)) by (apply Rmult_le_pos; lra).
  assert (Hd1 : Qe - 1 + 5 * e <= 25 * e * e) by nra.
  assert (Hd2 : P * (Qe - 1 + 5 * e) <= 25 * e * e) by nra.
  apply Rabs_def1; nra.
Qed.

Theorem fit_delivers fuel E (n : nat) V T cap init noise :
  0 < V -> 0 < T -> 0 < cap -> 0 <= E -> (0 < n)%nat ->
  1/1000 <= Fit_max_dsoc T V cap * INR n ->
  get_init_cap_R fuel E (INR n) V T cap = FVR init -> 0 <= init ->
  Rabs (l2_run_R n cap (fit_max_power_R V) Fit_transition_soc Fit_max_rate V T noise init - init - E)
  < 2 * tol9 * cap.
Proof.
  intros HV HT Hc HE Hn HA Hg Hpos.
  assert (HEc : E / cap * cap = E) by (field; lra).
  assert (Htol : 0 < tol9) by (unfold tol9; lra).
  set (m := Fit_max_dsoc T V cap) in *. assert (Hm : 0 < m) by (apply max_dsoc_pos; assumption).
  destruct (get_init_cap_R_cases fuel E n V T cap init HV HT Hc HE Hn Hg Hpos)
    as [[Ht Hi]|(Ht & Hfe & x & Hi & Hr & Ha)].
  - (* closed form: exact *)
    apply closed_form_test_iff in Ht.
    destruct (closed_form_delivers E n V T cap noise HV HT Hc HE Hn Ht) as (H1 & _).
    unfold fit_max_power_R, Fit_max_rate, Fit_transition_soc. rewrite Hi, H1.
    replace (E - E) with 0 by ring. rewrite Rabs_R0. nra.
  - fold m in Hfe, Hr, Ha. destruct (Rle_dec x (4/5)) as [Hx|Hx].
    + (* at or below the transition *)
      assert (Hlow : init <= 4/5 * cap) by (subst init; nra).
      pose proof (fit_bisect_delivers fuel E n V T cap init noise HV HT Hc HE Hn Hg Hpos Ht Hlow) as B.
      nra.
    + (* a hair above it *)
      subst init. unfold fit_max_power_R, Fit_max_rate, Fit_transition_soc.
      rewrite l2_run_spec by assumption. fold m.
      rewrite soc_iter_above by (try exact Hm; lra).
      replace (-5 * (INR n * m)) with (-5 * (m * INR n)) by ring.
      assert (Hcf : 1/5 * (1 - exp (-5 * (m * INR n))) < E / cap).
      { assert (Hn4 : ~ 4/5 <= init_cf E (INR n) V T cap).
        { intro H. apply closed_form_test_iff in H. congruence. }
        unfold init_cf in Hn4. fold m in Hn4.
        assert (HA0 : 0 < m * INR n) by lra.
        pose proof (cf_denom_neg m (INR n) HA0) as Hden.
        set (den := exp (-5 * (m * INR n)) - 1) in *.
        assert (Hlt : 1 + E / cap / den < 4/5) by lra.
        assert (Hq : E / cap / den * den = E / cap) by (field; split; lra).
        assert (E / cap / den < - (1/5)) by lra.
        set (a := E / cap / den) in *.
        assert (- (1/5) * den < a * den) by nra.
        unfold den in *. lra. }
      pose proof (above_delivers_bound (m * INR n) x (E / cap) HA ltac:(lra) Hcf Ha) as B.
      replace ((1 + exp (-5 * (m * INR n)) * (x - 1)) * cap - x * cap - E)
        with ((1 + exp (-5 * (m * INR n)) * (x - 1) - x - E / cap) * cap)
        by (rewrite !Rmult_minus_distr_r, HEc; ring).
      rewrite Rabs_mult, (Rabs_pos_eq cap) by lra.
      apply Rmult_lt_compat_r; assumption.
Qed.

(* the headline: whatever batt_cap_fn returns, charging at full rate for the stay delivers the request *)
Theorem batt_cap_fn_delivers fuel E (n : nat) V T cap init noise :
  0 < V -> 0 < T -> 0 <= E -> (0 < n)%nat ->
  batt_cap_fn_R fuel E (INR n) V T = FitOkR cap init ->
  1/1000 <= Fit_max_dsoc T V cap * INR n ->
  Rabs (l2_run_R n cap (fit_max_power_R V) Fit_transition_soc Fit_max_rate V T noise init - init - E)
  < 2 * tol9 * cap.
Proof.
  intros HV HT HE Hn H HA.
  destruct (batt_cap_fn_ok fuel E n V T cap init HV HT HE Hn H) as (Hin & _ & [Hpos _] & _ & Hg).
  assert (Hc : 0 < cap) by (pose proof potential_caps_pos as P; rewrite Forall_forall in P; now apply P).
  now apply fit_delivers with (fuel := fuel).
Qed.

(* a concrete instance of the bisection branch: 6 kWh in 12 five-minute periods at 208 V, 8 kWh step *)
Lemma bisect_example :
  closed_form_test 6 (INR 12) 208 5 8 = false /\
  6 / 8 <= Fit_delta_from (Fit_max_dsoc 5 208 8) (INR 12) Fit_transition_soc 0 /\
  Fit_max_dsoc 5 208 8 * INR 12 <= 1000000000.
Proof.
  replace (INR 12) with 12 by (simpl; lra).
  assert (Hm : Fit_max_dsoc 5 208 8 = 52/750) by (unfold Fit_max_dsoc; field).
  split; [|split].
  - destruct (closed_form_test 6 12 208 5 8) eqn:E; auto. apply closed_form_test_iff in E.
    unfold init_cf in E. rewrite Hm in E.
    set (P := exp (-5 * (52/750 * 12))) in *.
    assert (0 < P) by apply exp_pos. assert (P < 1) by (apply exp_lt_1; lra).
    assert (Hi : / (P - 1) < 0) by (apply Rinv_lt_0_compat; lra).
    assert (Hk : / (P - 1) <= -1).
    { apply (Rmult_le_reg_r (- (P - 1))); [lra|].
      replace (/ (P - 1) * - (P - 1)) with (-1) by (field; lra). lra. }
    unfold Rdiv at 2 in E. lra.
  - unfold Fit_transition_soc. rewrite Fit_delta_from_Dn by (rewrite Hm; lra). rewrite Hm.
    rewrite Dn_ramp by lra.
    replace (-5 * (52/750 * 12 + 0 - 4/5)) with (- (4/25)) by field.
    pose proof (exp_neg_le_inv (4/25) ltac:(lra)) as H.
    replace (/ (1 + 4/25)) with (25/29) in H by field. lra.
  - rewrite Hm. lra.
Qed.
