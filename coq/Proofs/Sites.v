(* Proofs/Sites.v — what a site that passes Model/Sites.v::check_site guarantees for every
   schedule its network accepts (R instance of the feasibility model). *)
From Coq Require Import String Reals Lra Lia List Bool Arith Psatz QArith Qreals.
From Coq Require RMicromega.
From ACN Require Import Base.Num Base.NumR Model.Feasible Proofs.Feasible Gen.Sites Model.Sites.
From ACN Require Gen.SiteLim_R Gen.SiteLim_Q.
Import ListNotations.
Open Scope R_scope.

Definition cosd (p : R) : R := cos (p * PI / 180).
Definition sind (p : R) : R := sin (p * PI / 180).

(* ------------------------------------------------------------------ trigonometric constants *)
Lemma cosd30 : cosd 30 = sqrt 3 / 2.
Proof. unfold cosd. replace (30 * PI / 180) with (PI / 6) by field. apply cos_PI6. Qed.
Lemma sind30 : sind 30 = 1 / 2.
Proof. unfold sind. replace (30 * PI / 180) with (PI / 6) by field. apply sin_PI6. Qed.
Lemma cosd_m90 : cosd (-90) = 0.
Proof. unfold cosd. replace (-90 * PI / 180) with (- (PI / 2)) by field. rewrite cos_neg. apply cos_PI2. Qed.
Lemma sind_m90 : sind (-90) = -1.
Proof. unfold sind. replace (-90 * PI / 180) with (- (PI / 2)) by field. rewrite sin_neg, sin_PI2. ring. Qed.
Lemma cosd150 : cosd 150 = - (sqrt 3 / 2).
Proof.
  unfold cosd. replace (150 * PI / 180) with (PI - PI / 6) by field.
  rewrite cos_minus, cos_PI, sin_PI, cos_PI6. ring.
Qed.
Lemma sind150 : sind 150 = 1 / 2.
Proof. unfold sind. replace (150 * PI / 180) with (PI - PI / 6) by field. rewrite sin_PI_x. apply sin_PI6. Qed.

Lemma sqrt3_sq : sqrt 3 * sqrt 3 = 3.
Proof. apply sqrt_sqrt. lra. Qed.
Lemma sqrt3_pos : 0 < sqrt 3.
Proof. apply sqrt_lt_R0. lra. Qed.

(* ------------------------------------------------------------------ Q -> R bridges *)
Lemma Q2R_Z (z : Z) : Q2R (z # 1) = IZR z.
Proof. unfold Q2R; simpl. field. Qed.

Lemma qeq_Q2R a b : qeq a b = true -> Q2R a = Q2R b.
Proof. unfold qeq. intros H. apply Qeq_bool_iff in H. now apply Qeq_eqR. Qed.

Lemma qeq_int a (z : Z) : qeq a (z # 1) = true -> Q2R a = IZR z.
Proof. intros H. rewrite (qeq_Q2R _ _ H). apply Q2R_Z. Qed.

Lemma nth_map_Q2R j (l : list Q) : nth j (map Q2R l) 0 = Q2R (nth j l 0%Q).
Proof. rewrite <- RMicromega.Q2R_0. apply map_nth. Qed.

Lemma nth_map_map_Q2R j (A : list (list Q)) : nth j (map (map Q2R) A) [] = map Q2R (nth j A []).
Proof. change (@nil R) with (map Q2R []). apply map_nth. Qed.

(* ------------------------------------------------------------------ delta pattern => line currents *)
Lemma phase_group_cases p :
  match phase_group p with
  | Some AB => Q2R p = 30
  | Some BC => Q2R p = -90
  | Some CA => Q2R p = 150
  | None => True
  end.
Proof.
  unfold phase_group.
  destruct (qeq p 30) eqn:E1; [exact (qeq_int p 30 E1)|].
  destruct (qeq p (-90)) eqn:E2; [exact (qeq_int p (-90) E2)|].
  destruct (qeq p 150) eqn:E3; [exact (qeq_int p 150 E3)|]. exact I.
Qed.

Lemma wsum_cons ai a r X wi w t :
  wsum (ai :: a) (r :: X) (wi :: w) t = ai * nth t r 0 * wi + wsum a X w t.
Proof. reflexivity. Qed.

(* group sums behind the three secondary rows of a delta connection *)
Lemma delta_sums ph : forall a b c mem,
  delta_rows_ok ph a b c mem = true ->
  forall (X : list (list R)) t,
  let cs := map cosd (map Q2R ph) in
  let sn := map sind (map Q2R ph) in
  let ab := sum_sel (gflags AB ph mem) X t in
  let bc := sum_sel (gflags BC ph mem) X t in
  let ca := sum_sel (gflags CA ph mem) X t in
  wsum (map Q2R a) X cs t = sqrt 3 / 2 * (ab + ca) /\
  wsum (map Q2R a) X sn t = (ab - ca) / 2 /\
  wsum (map Q2R b) X cs t = - (sqrt 3 / 2) * ab /\
  wsum (map Q2R b) X sn t = - bc - ab / 2 /\
  wsum (map Q2R c) X cs t = - (sqrt 3 / 2) * ca /\
  wsum (map Q2R c) X sn t = ca / 2 + bc /\
  sum_sel mem X t = ab + bc + ca.
Proof.
  induction ph as [|p ph IH]; intros a b c mem H X t.
  - destruct a, b, c, mem; try (simpl in H; discriminate). simpl. repeat split; field.
  - destruct a as [|x a], b as [|y b], c as [|z c], mem as [|m mem]; try (simpl in H; discriminate).
    simpl in H. apply andb_true_iff in H. destruct H as [Hpat Hrest].
    destruct X as [|r X].
    { simpl. repeat split; field. }
    specialize (IH a b c mem Hrest X t). cbv zeta in IH.
    destruct IH as (E1 & E2 & E3 & E4 & E5 & E6 & E7).
    cbv zeta. cbn [map]. rewrite !wsum_cons. rewrite E1, E2, E3, E4, E5, E6.
    unfold gflags in *. cbn [zipw sum_sel]. rewrite E7.
    set (ab := sum_sel (zipw (fun p0 m0 => m0 && in_group AB p0) ph mem) X t).
    set (bc := sum_sel (zipw (fun p0 m0 => m0 && in_group BC p0) ph mem) X t).
    set (ca := sum_sel (zipw (fun p0 m0 => m0 && in_group CA p0) ph mem) X t).
    set (v := nth t r 0).
    destruct m.
    + (* a member: one of the three delta patterns *)
      unfold delta_ok in Hpat. unfold in_group.
      pose proof (phase_group_cases p) as Hp.
      destruct (phase_group p) as [[| |]|]; try discriminate;
        apply andb_true_iff in Hpat; destruct Hpat as [Hxy Hz];
        apply andb_true_iff in Hxy; destruct Hxy as [Hx Hy];
        rewrite (qeq_int _ _ Hx), (qeq_int _ _ Hy), (qeq_int _ _ Hz), Hp; cbn [andb].
      * rewrite cosd30, sind30. repeat split; field.
      * rewrite cosd_m90, sind_m90. repeat split; field.
      * rewrite cosd150, sind150. repeat split; field.
    + unfold zero3 in Hpat.
      apply andb_true_iff in Hpat; destruct Hpat as [Hxy Hz];
        apply andb_true_iff in Hxy; destruct Hxy as [Hx Hy].
      rewrite (qeq_int _ _ Hx), (qeq_int _ _ Hy), (qeq_int _ _ Hz). cbn [andb].
      repeat split; field.
Qed.

(* |Ia|^2 = ab^2 + ca^2 + ab ca, etc. *)
Lemma line_sq (u w : R) :
  (sqrt 3 / 2 * (u + w)) * (sqrt 3 / 2 * (u + w)) + ((u - w) / 2) * ((u - w) / 2) = u * u + w * w + u * w.
Proof.
  replace ((sqrt 3 / 2 * (u + w)) * (sqrt 3 / 2 * (u + w))) with ((sqrt 3 * sqrt 3) * ((u + w) * (u + w)) / 4) by field.
  rewrite sqrt3_sq. field.
Qed.
Lemma line_sq_b (u w : R) :
  (- (sqrt 3 / 2) * u) * (- (sqrt 3 / 2) * u) + (- w - u / 2) * (- w - u / 2) = u * u + w * w + u * w.
Proof.
  replace ((- (sqrt 3 / 2) * u) * (- (sqrt 3 / 2) * u)) with ((sqrt 3 * sqrt 3) * (u * u) / 4) by field.
  rewrite sqrt3_sq. field.
Qed.
Lemma line_sq_c (u w : R) :
  (- (sqrt 3 / 2) * u) * (- (sqrt 3 / 2) * u) + (u / 2 + w) * (u / 2 + w) = u * u + w * w + u * w.
Proof.
  replace ((- (sqrt 3 / 2) * u) * (- (sqrt 3 / 2) * u)) with ((sqrt 3 * sqrt 3) * (u * u) / 4) by field.
  rewrite sqrt3_sq. field.
Qed.

(* the core inequality: three line currents within Rr  =>  sqrt3 * (ab+bc+ca) <= 3 Rr *)
Lemma delta_power ab bc ca Rr :
  0 <= Rr ->
  ab * ab + ca * ca + ab * ca <= Rr * Rr ->
  ab * ab + bc * bc + ab * bc <= Rr * Rr ->
  ca * ca + bc * bc + ca * bc <= Rr * Rr ->
  sqrt 3 * (ab + bc + ca) <= 3 * Rr.
Proof.
  intros HR Ha Hb Hc.
  set (s := ab + bc + ca).
  assert (Hs : s * s <= 3 * (Rr * Rr)).
  { unfold s.
    pose proof (Rle_0_sqr (ab - bc)) as Q1. pose proof (Rle_0_sqr (bc - ca)) as Q2.
    pose proof (Rle_0_sqr (ca - ab)) as Q3. unfold Rsqr in Q1, Q2, Q3.
    lra. }
  pose proof sqrt3_sq as H3. pose proof sqrt3_pos as H3p.
  clearbody s.
  destruct (Rle_dec s 0) as [Hn|Hn].
  { pose proof (Rmult_le_compat_l (sqrt 3) s 0 (Rlt_le _ _ H3p) Hn). lra. }
  apply Rnot_lt_le. intro Hlt.
  assert (Hq : (3 * Rr) * (3 * Rr) < (sqrt 3 * s) * (sqrt 3 * s)).
  { apply Rmult_le_0_lt_compat; nra. }
  replace ((sqrt 3 * s) * (sqrt 3 * s)) with ((sqrt 3 * sqrt 3) * (s * s)) in Hq by ring.
  rewrite H3 in Hq. nra.
Qed.

(* ------------------------------------------------------------------ reading the network's answer *)
Lemma site_row_feasible (s : site) X T ovt ort j t :
  net_is_feasible RF (site_net_R s) X T false ovt ort = true ->
  (j < n_site_rows s)%nat -> length (s_limits s) = n_site_rows s -> (t < T)%nat ->
  let re := wsum (map Q2R (site_row s j)) X (map cosd (map Q2R (s_phases s))) t in
  let im := wsum (map Q2R (site_row s j)) X (map sind (map Q2R (s_phases s))) t in
  let L := Q2R (site_limit s j) in
  let rhs := L + Rmax (opt_or RF ovt (Q2R (s_vt s))) (opt_or RF ort (Q2R (s_rt s)) * L) in
  0 <= rhs /\ re * re + im * im <= rhs * rhs.
Proof.
  intros Hf Hj Hlen Ht. cbv zeta.
  rewrite net_feasible_iff in Hf. specialize (Hf j t).
  unfold site_net_R, cur_re, cur_im, n_rows in Hf; cbn [n_matrix n_limits n_cis n_vt n_rt] in Hf.
  rewrite !map_length in Hf. unfold n_site_rows in *.
  rewrite Hlen in Hf. specialize (Hf Hj Hj Ht).
  rewrite nth_map_map_Q2R, nth_map_Q2R, !map_map in Hf. cbn [cis_deg fst snd] in Hf.
  unfold site_row, site_limit. rewrite !map_map. unfold cosd, sind.
  apply sq_le_iff_sqrt_le in Hf; [exact Hf|]. nra.
Qed.

Definition site_rhs (s : site) (ovt ort : option R) (j : nat) : R :=
  Q2R (site_limit s j)
  + Rmax (opt_or RF ovt (Q2R (s_vt s))) (opt_or RF ort (Q2R (s_rt s)) * Q2R (site_limit s j)).

Lemma check_transformer_fields s tr :
  check_transformer s tr = true ->
  (t_a tr < n_site_rows s)%nat /\ (t_b tr < n_site_rows s)%nat /\ (t_c tr < n_site_rows s)%nat
  /\ length (s_limits s) = n_site_rows s
  /\ delta_rows_ok (s_phases s) (site_row s (t_a tr)) (site_row s (t_b tr)) (site_row s (t_c tr))
       (member_flags (n_site_stations s) (t_members tr)) = true
  /\ Q2R (site_limit s (t_b tr)) = Q2R (site_limit s (t_a tr))
  /\ Q2R (site_limit s (t_c tr)) = Q2R (site_limit s (t_a tr))
  /\ 0 <= Q2R (site_limit s (t_a tr))
  /\ 3 * 120 * Q2R (site_limit s (t_a tr)) <= 1000 * Q2R (t_cap tr) * (1 + Q2R eps50).
Proof.
  unfold check_transformer. intros H.
  repeat (apply andb_true_iff in H; destruct H as [H ?]).
  repeat match goal with
         | H : Nat.ltb _ _ = true |- _ => apply Nat.ltb_lt in H
         | H : Nat.eqb _ _ = true |- _ => apply Nat.eqb_eq in H
         end.
  repeat split; auto.
  - now apply qeq_Q2R.
  - now apply qeq_Q2R.
  - match goal with H : Qleb 0 _ = true |- _ => apply Qleb_spec in H; apply Qle_Rle in H;
      rewrite RMicromega.Q2R_0 in H; exact H end.
  - match goal with H : Qleb (3 * 120 * _) _ = true |- _ => apply Qleb_spec in H; apply Qle_Rle in H;
      rewrite !Q2R_mult, Q2R_plus in H; rewrite RMicromega.Q2R_1 in H;
      change (Q2R 3) with (Q2R (3 # 1)) in H; change (Q2R 120) with (Q2R (120 # 1)) in H;
      change (Q2R 1000) with (Q2R (1000 # 1)) in H; rewrite !Q2R_Z in H; exact H end.
Qed.

(* a transformer that passes the check never carries more than 3 * 120 V * (L + tol) *)
Lemma transformer_bound s tr X T ovt ort t :
  check_transformer s tr = true ->
  net_is_feasible RF (site_net_R s) X T false ovt ort = true ->
  (t < T)%nat ->
  sqrt 3 * 120 * station_sum s (t_members tr) X t <= 3 * 120 * site_rhs s ovt ort (t_a tr).
Proof.
  intros Hc Hf Ht.
  destruct (check_transformer_fields s tr Hc) as (Ha & Hb & Hcc & Hlen & Hd & ELb & ELc & HLpos & _).
  pose proof (site_row_feasible s X T ovt ort _ t Hf Ha Hlen Ht) as Fa.
  pose proof (site_row_feasible s X T ovt ort _ t Hf Hb Hlen Ht) as Fb.
  pose proof (site_row_feasible s X T ovt ort _ t Hf Hcc Hlen Ht) as Fc.
  cbv zeta in Fa, Fb, Fc. rewrite ELb in Fb. rewrite ELc in Fc.
  destruct (delta_sums _ _ _ _ _ Hd X t) as (E1 & E2 & E3 & E4 & E5 & E6 & E7).
  rewrite E1, E2 in Fa. rewrite E3, E4 in Fb. rewrite E5, E6 in Fc.
  rewrite line_sq in Fa. rewrite line_sq_b in Fb. rewrite line_sq_c in Fc.
  unfold station_sum. rewrite E7. unfold site_rhs.
  set (Rr := Q2R (site_limit s (t_a tr)) + _) in *.
  destruct Fa as [HR Fa]. destruct Fb as [_ Fb]. destruct Fc as [_ Fc].
  pose proof (delta_power _ _ _ Rr HR Fa Fb Fc). nra.
Qed.

Lemma transformer_capacity s tr X T ovt ort t :
  check_transformer s tr = true ->
  net_is_feasible RF (site_net_R s) X T false ovt ort = true ->
  (t < T)%nat ->
  let L := Q2R (site_limit s (t_a tr)) in
  sqrt 3 * 120 * station_sum s (t_members tr) X t
  <= 1000 * Q2R (t_cap tr) * (1 + Q2R eps50)
     + 3 * 120 * Rmax (opt_or RF ovt (Q2R (s_vt s))) (opt_or RF ort (Q2R (s_rt s)) * L).
Proof.
  intros Hc Hf Ht. cbv zeta.
  pose proof (transformer_bound s tr X T ovt ort t Hc Hf Ht) as H.
  destruct (check_transformer_fields s tr Hc) as (_ & _ & _ & _ & _ & _ & _ & _ & Hcap).
  unfold site_rhs in H. lra.
Qed.

(* the line currents themselves, through the group sums *)
Lemma delta_line_currents s ja jb jc mem X T ovt ort t :
  (ja < n_site_rows s)%nat -> (jb < n_site_rows s)%nat -> (jc < n_site_rows s)%nat ->
  length (s_limits s) = n_site_rows s ->
  delta_rows_ok (s_phases s) (site_row s ja) (site_row s jb) (site_row s jc) mem = true ->
  net_is_feasible RF (site_net_R s) X T false ovt ort = true ->
  (t < T)%nat ->
  let ab := sum_sel (gflags AB (s_phases s) mem) X t in
  let bc := sum_sel (gflags BC (s_phases s) mem) X t in
  let ca := sum_sel (gflags CA (s_phases s) mem) X t in
  sqrt (ab * ab + ca * ca + ab * ca) <= site_rhs s ovt ort ja /\
  sqrt (ab * ab + bc * bc + ab * bc) <= site_rhs s ovt ort jb /\
  sqrt (ca * ca + bc * bc + ca * bc) <= site_rhs s ovt ort jc.
Proof.
  intros Ha Hb Hcc Hlen Hd Hf Ht. cbv zeta.
  pose proof (site_row_feasible s X T ovt ort _ t Hf Ha Hlen Ht) as Fa.
  pose proof (site_row_feasible s X T ovt ort _ t Hf Hb Hlen Ht) as Fb.
  pose proof (site_row_feasible s X T ovt ort _ t Hf Hcc Hlen Ht) as Fc.
  cbv zeta in Fa, Fb, Fc.
  destruct (delta_sums _ _ _ _ _ Hd X t) as (E1 & E2 & E3 & E4 & E5 & E6 & E7).
  rewrite E1, E2 in Fa. rewrite E3, E4 in Fb. rewrite E5, E6 in Fc.
  rewrite line_sq in Fa. rewrite line_sq_b in Fb. rewrite line_sq_c in Fc.
  unfold site_rhs.
  repeat split; apply sq_le_iff_sqrt_le; auto; nra.
Qed.

(* ------------------------------------------------------------------ pods *)
Lemma pod_sums g ph : forall a,
  pod_row_ok g ph a = true ->
  forall (X : list (list R)) t,
  let P := sum_sel (nonzero_flags a) X t in
  wsum (map Q2R a) X (map cosd (map Q2R ph)) t = cosd (Q2R g) * P /\
  wsum (map Q2R a) X (map sind (map Q2R ph)) t = sind (Q2R g) * P.
Proof.
  induction ph as [|p ph IH]; intros a H X t.
  - destruct a; try discriminate. simpl. split; ring.
  - destruct a as [|x a]; try discriminate. simpl in H.
    apply andb_true_iff in H. destruct H as [Hx Hrest].
    destruct X as [|r X]. { simpl. split; ring. }
    specialize (IH a Hrest X t). cbv zeta in IH. destruct IH as [E1 E2].
    cbv zeta. unfold nonzero_flags in *. cbn [map]. rewrite !wsum_cons, E1, E2. cbn [sum_sel].
    destruct (qeq x 0) eqn:E0.
    + rewrite (qeq_int _ _ E0). cbn [negb]. split; ring.
    + cbn [orb] in Hx. apply andb_true_iff in Hx. destruct Hx as [H1 Hp].
      rewrite (qeq_int _ _ H1), (qeq_Q2R _ _ Hp). cbn [negb]. split; ring.
Qed.

Lemma list_eqb_bool_eq (l1 l2 : list bool) : list_eqb Bool.eqb l1 l2 = true -> l1 = l2.
Proof.
  revert l2; induction l1 as [|a l1 IH]; intros [|b l2] H; simpl in H; try discriminate; auto.
  apply andb_true_iff in H. destruct H as [H1 H2]. apply eqb_prop in H1. subst. f_equal. auto.
Qed.

Lemma pod_bound s j rating members X T ovt ort t :
  check_pod s (j, rating, members) = true ->
  net_is_feasible RF (site_net_R s) X T false ovt ort = true ->
  (t < T)%nat ->
  station_sum s members X t <= site_rhs s ovt ort j
  /\ Q2R (site_limit s j) <= Q2R rating.
Proof.
  unfold check_pod. intros Hc Hf Ht.
  apply andb_true_iff in Hc; destruct Hc as [Hc Hrat].
  apply andb_true_iff in Hc; destruct Hc as [Hc Hmem].
  apply andb_true_iff in Hc; destruct Hc as [Hc Hex].
  apply andb_true_iff in Hc; destruct Hc as [Hc Hpos].
  apply andb_true_iff in Hc; destruct Hc as [Hj Hlen].
  apply Nat.ltb_lt in Hj. apply Nat.eqb_eq in Hlen.
  apply existsb_exists in Hex; destruct Hex as (g & _ & Hg).
  apply list_eqb_bool_eq in Hmem.
  split; [|apply Qle_Rle; now apply Qleb_spec].
  pose proof (site_row_feasible s X T ovt ort j t Hf Hj Hlen Ht) as Fa. cbv zeta in Fa.
  destruct (pod_sums g _ _ Hg X t) as [E1 E2]. rewrite E1, E2 in Fa.
  unfold station_sum, site_rhs. rewrite <- Hmem.
  set (P := sum_sel _ X t) in *. set (Rr := Q2R (site_limit s j) + _) in *.
  destruct Fa as [HR Fa].
  pose proof (sin2_cos2 (Q2R g * PI / 180)) as H1. unfold Rsqr in H1. fold (sind (Q2R g)) (cosd (Q2R g)) in H1.
  assert (HP : P * P <= Rr * Rr).
  { replace (cosd (Q2R g) * P * (cosd (Q2R g) * P) + sind (Q2R g) * P * (sind (Q2R g) * P))
      with ((sind (Q2R g) * sind (Q2R g) + cosd (Q2R g) * cosd (Q2R g)) * (P * P)) in Fa by ring.
    rewrite H1 in Fa. lra. }
  nra.
Qed.

(* ------------------------------------------------------------------ coverage *)
Lemma check_site_parts s :
  check_site s = true ->
  check_shape s = true /\ check_phases s = true /\ check_covered s = true
  /\ (forall tr, In tr (s_transformers s) -> check_transformer s tr = true)
  /\ (forall p, In p (s_pods s) -> check_pod s p = true)
  /\ (forall p, In p (s_panels s) -> check_panel s p = true).
Proof.
  unfold check_site. intros H.
  apply andb_true_iff in H; destruct H as [H Hprim].
  apply andb_true_iff in H; destruct H as [H Hpan].
  apply andb_true_iff in H; destruct H as [H Hpod].
  apply andb_true_iff in H; destruct H as [H Htr].
  apply andb_true_iff in H; destruct H as [H Hcov].
  apply andb_true_iff in H; destruct H as [Hsh Hph].
  rewrite forallb_forall in Htr, Hpod, Hpan.
  repeat split; auto.
Qed.

Lemma memb_In i l : memb i l = true -> In i l.
Proof.
  unfold memb. intros H. apply existsb_exists in H. destruct H as (k & Hk & E).
  apply Nat.eqb_eq in E. now subst.
Qed.

Lemma covered s :
  check_site s = true ->
  forall i, (i < n_site_stations s)%nat ->
    (exists g, phase_group (nth i (s_phases s) 0%Q) = Some g)
    /\ exists tr, In tr (s_transformers s) /\ In i (t_members tr) /\ check_transformer s tr = true.
Proof.
  intros H i Hi. destruct (check_site_parts s H) as (_ & Hph & Hcov & Htr & _).
  split.
  - unfold check_phases in Hph. rewrite forallb_forall in Hph.
    specialize (Hph (nth i (s_phases s) 0%Q) (nth_In _ _ Hi)).
    destruct (phase_group (nth i (s_phases s) 0%Q)); [eauto | discriminate].
  - unfold check_covered in Hcov. rewrite forallb_forall in Hcov.
    assert (Hin : In i (seq 0 (n_site_stations s))) by (apply in_seq; lia).
    specialize (Hcov i Hin). apply existsb_exists in Hcov. destruct Hcov as (tr & Htin & Hm).
    exists tr. repeat split; auto. now apply memb_In.
Qed.

Lemma check_panel_fields s ja jb jc rating members :
  check_panel s ((ja, jb, jc), rating, members) = true ->
  (ja < n_site_rows s)%nat /\ (jb < n_site_rows s)%nat /\ (jc < n_site_rows s)%nat
  /\ length (s_limits s) = n_site_rows s
  /\ delta_rows_ok (s_phases s) (site_row s ja) (site_row s jb) (site_row s jc)
       (member_flags (n_site_stations s) members) = true
  /\ Q2R (site_limit s jb) = Q2R (site_limit s ja) /\ Q2R (site_limit s jc) = Q2R (site_limit s ja)
  /\ Q2R (site_limit s ja) <= Q2R rating.
Proof.
  unfold check_panel. intros H.
  repeat (apply andb_true_iff in H; destruct H as [H ?]).
  repeat match goal with
         | H : Nat.ltb _ _ = true |- _ => apply Nat.ltb_lt in H
         | H : Nat.eqb _ _ = true |- _ => apply Nat.eqb_eq in H
         end.
  apply list_eqb_bool_eq in H. rewrite <- H.
  repeat split; auto; try (now apply qeq_Q2R).
  apply Qle_Rle. now apply Qleb_spec.
Qed.

(* ------------------------------------------------------------------ limit formulas *)
Lemma all_caps cap :
  3 * 120 * SiteLim_R.Caltech_secondary cap = 1000 * cap
  /\ 3 * 120 * SiteLim_R.Jpl_secondary cap = 1000 * cap
  /\ 3 * 120 * SiteLim_R.Office_secondary cap = 1000 * cap.
Proof.
  unfold SiteLim_R.Caltech_secondary, SiteLim_R.Jpl_secondary, SiteLim_R.Office_secondary.
  repeat split; field.
Qed.

(* the JPL helper is always called with its default (literal) secondary voltage *)
Lemma jpl_default_voltage : jpl_calls_use_default_secondary_voltage = true.
Proof. reflexivity. Qed.

(* every public constructor exported by the sites package is dumped (factories and aliases) *)
Lemma all_constructors_dumped : unknown_site_constructors = O.
Proof. reflexivity. Qed.

Lemma sites_ok :
  check_family sites_caltech = true /\ check_family sites_jpl = true /\ check_family sites_office001 = true.
Proof. repeat split; vm_compute; reflexivity. Qed.

Lemma family_site l s : check_family l = true -> In s l -> check_site s = true.
Proof.
  unfold check_family. destruct l; [discriminate|]. intros H Hin.
  apply andb_true_iff in H. destruct H as [H _]. rewrite forallb_forall in H. auto.
Qed.

Lemma all_sites_ok s : In s all_sites -> check_site s = true.
Proof.
  destruct sites_ok as (H1 & H2 & H3). unfold all_sites. rewrite !in_app_iff.
  intros [H|[H|H]]; eauto using family_site.
Qed.
