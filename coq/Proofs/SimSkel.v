(* Proofs/SimSkel.v — lemmas about the discrete skeleton of Simulator.run (C01, C05).
   Part 1: facts about the regenerated kernels; queue, occupancy and counting lemmas;
           closed forms of _process_event / the scheduling block / the loop tail.
   Part 2: the loop invariant for valid inputs (C01).
   Part 3: the scheduler-call invariant for arbitrary inputs (C05). *)
From Coq Require Import ZArith QArith List Bool String Lia Sorted Permutation.
From ACN Require Import Base.Num Gen.SimParams Gen.Sim_Z Gen.EvseZ_Z Model.SimSkel.
Import ListNotations.
Open Scope string_scope.
Open Scope Z_scope.
Open Scope list_scope.

(* ========================================================================================== *)
(* Part 1a: regenerated constants and guards                                                  *)
(* ========================================================================================== *)
Lemma prec_order :
  UnplugEvent_precedence < PluginEvent_precedence /\ PluginEvent_precedence < RecomputeEvent_precedence.
Proof. split; reflexivity. Qed.

Lemma event_codes_distinct :
  PluginEvent_event_type_code = 0 /\ UnplugEvent_event_type_code = 1 /\ RecomputeEvent_event_type_code = 2.
Proof. repeat split; reflexivity. Qed.

(* non-strict order on (timestamp, precedence) *)
Definition key_le (a b : event) : Prop :=
  ev_ts a < ev_ts b \/ (ev_ts a = ev_ts b /\ ev_prec a <= ev_prec b).

Lemma key_le_refl a : key_le a a.
Proof. right; split; lia. Qed.
Lemma key_le_trans a b c : key_le a b -> key_le b c -> key_le a c.
Proof. unfold key_le; intros [H|[H1 H2]] [K|[K1 K2]]; try lia. Qed.

Lemma entry_lt_true a b :
  entry_lt a b = true <-> ev_ts a < ev_ts b \/ (ev_ts a = ev_ts b /\ ev_prec a < ev_prec b).
Proof.
  unfold entry_lt, Event_lt. rewrite orb_true_iff, andb_true_iff, Z.ltb_lt, Z.eqb_eq, Z.ltb_lt. tauto.
Qed.
Lemma entry_lt_false a b : entry_lt a b = false <-> key_le b a.
Proof.
  unfold key_le. destruct (entry_lt a b) eqn:E.
  - apply entry_lt_true in E. split; [discriminate|]. lia.
  - split; [intros _|reflexivity].
    assert (H : ~ (ev_ts a < ev_ts b \/ (ev_ts a = ev_ts b /\ ev_prec a < ev_prec b))).
    { intro H. apply entry_lt_true in H. congruence. }
    lia.
Qed.

Lemma current_guard_spec h t :
  EventQueue_current_guard h t false = (h <=? t) /\ EventQueue_current_guard h t true = false.
Proof. split; reflexivity. Qed.

Lemma run_guard_spec r e : Simulator_run_guard r e = negb e || r.
Proof. reflexivity. Qed.

Lemma recompute_cond_spec t last r mr :
  Simulator_recompute_cond t last r mr =
  r || match mr with
       | None => false
       | Some k => match last with None => true | Some l => k <=? t - l end
       end.
Proof. reflexivity. Qed.

(* ========================================================================================== *)
(* Part 1b: lists, counting                                                                   *)
(* ========================================================================================== *)
Definition cnt {A} (f : A -> bool) (l : list A) : nat := List.length (filter f l).

Lemma cnt_app {A} (f : A -> bool) l1 l2 : cnt f (l1 ++ l2) = (cnt f l1 + cnt f l2)%nat.
Proof. unfold cnt. rewrite filter_app, app_length. reflexivity. Qed.
Lemma cnt_cons {A} (f : A -> bool) a l : cnt f (a :: l) = ((if f a then 1 else 0) + cnt f l)%nat.
Proof. unfold cnt. simpl. destruct (f a); reflexivity. Qed.
Lemma cnt_nil {A} (f : A -> bool) : cnt f [] = O.
Proof. reflexivity. Qed.
Lemma cnt_pos_ex {A} (f : A -> bool) l : (cnt f l > 0)%nat -> exists a, In a l /\ f a = true.
Proof.
  unfold cnt. intro H. destruct (filter f l) as [|a r] eqn:E; [simpl in H; lia|].
  assert (I : In a (filter f l)) by (rewrite E; left; reflexivity).
  apply filter_In in I. exists a. exact I.
Qed.
Lemma cnt_zero_all {A} (f : A -> bool) l : cnt f l = O -> forall a, In a l -> f a = false.
Proof.
  unfold cnt. intros H a I. destruct (f a) eqn:E; auto.
  assert (J : In a (filter f l)) by (apply filter_In; auto).
  destruct (filter f l); [destruct J|simpl in H; lia].
Qed.
Lemma cnt_in_pos {A} (f : A -> bool) l a : In a l -> f a = true -> (cnt f l > 0)%nat.
Proof.
  intros I E. destruct (cnt f l) eqn:C; [|lia].
  rewrite (cnt_zero_all f l C a I) in E. discriminate.
Qed.
Lemma cnt_map {A B} (g : A -> B) (f : B -> bool) l : cnt f (map g l) = cnt (fun a => f (g a)) l.
Proof. unfold cnt. induction l; simpl; auto. destruct (f (g a)); simpl; auto. Qed.

Lemma cnt_q_insert f e q : cnt f (q_insert e q) = cnt f (e :: q).
Proof.
  induction q as [|h r IH]; simpl; auto.
  destruct (entry_lt e h); auto.
  rewrite !cnt_cons in *. rewrite IH. lia.
Qed.
Lemma in_q_insert e q a : In a (q_insert e q) <-> a = e \/ In a q.
Proof.
  induction q as [|h r IH]; simpl.
  - intuition.
  - destruct (entry_lt e h); simpl; rewrite ?IH; intuition.
Qed.

Notation sorted := (StronglySorted key_le).

Lemma sorted_q_insert e q : sorted q -> sorted (q_insert e q).
Proof.
  induction 1 as [|h r Hs IH Hf]; simpl.
  - constructor; constructor.
  - destruct (entry_lt e h) eqn:E.
    + constructor. constructor; auto.
      apply entry_lt_true in E.
      assert (K : key_le e h) by (unfold key_le; lia).
      constructor; auto.
      eapply Forall_impl; [|exact Hf]. intros a Ha. eapply key_le_trans; eauto.
    + constructor; auto.
      apply Forall_forall. intros a Ia. apply in_q_insert in Ia. destruct Ia as [->|Ia].
      * apply entry_lt_false; auto.
      * rewrite Forall_forall in Hf; auto.
Qed.

Lemma sorted_q_of_list_aux evs q : sorted q -> sorted (fold_left (fun q e => q_insert e q) evs q).
Proof. revert q; induction evs; simpl; intros; auto. apply IHevs, sorted_q_insert; auto. Qed.
Lemma sorted_q_of_list evs : sorted (q_of_list evs).
Proof. apply sorted_q_of_list_aux. constructor. Qed.

Lemma cnt_q_of_list_aux f evs q :
  cnt f (fold_left (fun q e => q_insert e q) evs q) = (cnt f evs + cnt f q)%nat.
Proof.
  revert q; induction evs as [|e r IH]; simpl; intros; auto.
  rewrite IH, cnt_q_insert, !cnt_cons. lia.
Qed.
Lemma cnt_q_of_list f evs : cnt f (q_of_list evs) = cnt f evs.
Proof. unfold q_of_list. rewrite cnt_q_of_list_aux, cnt_nil. lia. Qed.
Lemma in_q_of_list_aux evs q a :
  In a (fold_left (fun q e => q_insert e q) evs q) <-> In a evs \/ In a q.
Proof.
  revert q; induction evs as [|e r IH]; simpl; intros.
  - intuition.
  - rewrite IH, in_q_insert. intuition.
Qed.
Lemma in_q_of_list evs a : In a (q_of_list evs) <-> In a evs.
Proof. unfold q_of_list. rewrite in_q_of_list_aux. simpl. intuition. Qed.

(* get_current_events: a prefix / suffix split *)
Lemma q_pop_current_split t q c r :
  q_pop_current t q = (c, r) ->
  q = c ++ r /\ Forall (fun e => ev_ts e <= t) c /\
  match r with [] => True | h :: _ => t < ev_ts h end.
Proof.
  revert c r; induction q as [|h q IH]; simpl; intros c r H.
  - inversion H; subst. auto.
  - destruct (current_guard_spec (ev_ts h) t) as [G _]. rewrite G in H.
    destruct (ev_ts h <=? t) eqn:E.
    + destruct (q_pop_current t q) as [c' r'] eqn:P. inversion H; subst.
      destruct (IH c' r eq_refl) as (A & B & C). subst q. split; [reflexivity|].
      split; auto. constructor; auto. apply Z.leb_le; auto.
    + inversion H; subst. split; [reflexivity|]. split; [constructor|].
      apply Z.leb_gt; auto.
Qed.

Lemma sorted_app_inv l1 l2 : sorted (l1 ++ l2) -> sorted l1 /\ sorted l2 /\
  forall a b, In a l1 -> In b l2 -> key_le a b.
Proof.
  induction l1 as [|h r IH]; simpl; intros H.
  - repeat split; auto. constructor. intros a b [].
  - inversion H as [|? ? Hs Hf]; subst. destruct (IH Hs) as (A & B & C).
    rewrite Forall_forall in Hf.
    split; [|split; auto].
    + constructor; auto. apply Forall_forall. intros a Ia. apply Hf, in_or_app; auto.
    + intros a b [->|Ia] Ib; auto. apply Hf, in_or_app; auto.
Qed.

Lemma sorted_tail_gt t h r : sorted (h :: r) -> t < ev_ts h -> Forall (fun e => t < ev_ts e) (h :: r).
Proof.
  intros H L. inversion H as [|? ? Hs Hf]; subst. constructor; auto.
  eapply Forall_impl; [|exact Hf]. intros a [K|[K _]]; lia.
Qed.

Lemma sorted_snoc l e : sorted l -> (forall a, In a l -> key_le a e) -> sorted (l ++ [e]).
Proof.
  induction 1 as [|h r Hs IH Hf]; simpl; intros K.
  - constructor; constructor.
  - constructor.
    + apply IH. intros a Ia. apply K; auto.
    + apply Forall_app. split; auto.
Qed.

(* ========================================================================================== *)
(* Part 1c: occupancy map                                                                     *)
(* ========================================================================================== *)
Lemma occ_get_remove_same s o : occ_get s (occ_remove s o) = None.
Proof.
  unfold occ_get, occ_remove. induction o as [|[k v] r IH]; simpl; auto.
  destruct (k =? s) eqn:E; simpl; auto. rewrite E. exact IH.
Qed.
Lemma occ_get_remove_other s s' o : s' <> s -> occ_get s' (occ_remove s o) = occ_get s' o.
Proof.
  intro D. unfold occ_get, occ_remove. induction o as [|[k v] r IH]; simpl; auto.
  destruct (k =? s) eqn:E; simpl.
  - apply Z.eqb_eq in E. subst k. destruct (s =? s') eqn:F; [apply Z.eqb_eq in F; congruence|]. exact IH.
  - destruct (k =? s'); auto.
Qed.
Lemma occ_get_set_same s x o : occ_get s (occ_set s x o) = Some x.
Proof. unfold occ_get, occ_set. simpl. rewrite Z.eqb_refl. reflexivity. Qed.
Lemma occ_get_set_other s s' x o : s' <> s -> occ_get s' (occ_set s x o) = occ_get s' o.
Proof.
  intro D. unfold occ_set. transitivity (occ_get s' (occ_remove s o)).
  - unfold occ_get at 1. simpl. destruct (s =? s') eqn:F; [apply Z.eqb_eq in F; congruence|]. reflexivity.
  - apply occ_get_remove_other; auto.
Qed.
Lemma occ_get_nil s : occ_get s [] = None.
Proof. reflexivity. Qed.

Lemma occ_all_none_nil o : (forall s, occ_get s o = None) -> o = [].
Proof.
  destruct o as [|[k v] r]; auto. intro H. specialize (H k).
  unfold occ_get in H. simpl in H. rewrite Z.eqb_refl in H. discriminate.
Qed.

Lemma zmem_in s l : zmem s l = true <-> In s l.
Proof.
  unfold zmem. rewrite existsb_exists. split.
  - intros (x & I & E). apply Z.eqb_eq in E. subst; auto.
  - intro I. exists s. split; auto. apply Z.eqb_refl.
Qed.

(* ========================================================================================== *)
(* Part 1d: closed forms of the translated procedures                                         *)
(* ========================================================================================== *)
Section Closed.
  Variables N V Sch : Type.
  Variable stations : list Z.
  Variable maxrec : option Z.
  Variable num_view : Z -> occupancy -> N -> res V.
  Variable num_apply : Z -> N -> Sch -> res N.
  Variable num_charge : Z -> occupancy -> N -> res N.
  Variable num_store : Z -> occupancy -> N -> N.
  Variable sched : V -> Sch.
  Notation state := (state N V).
  Notation mkState := (mkState N V).
  Notation process_event := (process_event N V stations).
  Notation process_all := (process_all N V stations).
  Notation events_phase := (events_phase N V stations).
  Notation sched_phase := (sched_phase N V Sch maxrec num_view num_apply sched).
  Notation tail_phase := (tail_phase N V num_charge num_store).
  Notation step := (step N V Sch stations maxrec num_view num_apply num_charge num_store sched).
  Notation run := (run N V Sch stations maxrec num_view num_apply num_charge num_store sched).
  Notation loop_guard := (loop_guard N V).

  Lemma net_plugin_eq x o :
    net_plugin stations x o =
    if zmem (s_station x) stations then
      match occ_get (s_station x) o with
      | None => OkS (occ_set (s_station x) x o)
      | Some y => ErrS "StationOccupiedError"
                       (if Z.eqb (sid y) (sid x) then occ_set (s_station x) x o else o)
      end
    else ErrS "KeyError" o.
  Proof.
    unfold net_plugin, ChargingNetwork_plugin.
    destruct (zmem (s_station x) stations); cbn.
    - destruct (occ_get (s_station x) o); cbn; [reflexivity|]. rewrite Z.eqb_refl. reflexivity.
    - reflexivity.
  Qed.

  Lemma net_unplug_eq s i o :
    net_unplug stations s i o =
    if zmem s stations then
      match occ_get s o with
      | None => OkS o
      | Some y => if Z.eqb i (sid y) then OkS (occ_remove s o) else OkS o
      end
    else ErrS "KeyError" o.
  Proof.
    unfold net_unplug, ChargingNetwork_unplug.
    destruct (zmem s stations); cbn.
    - destruct (occ_get s o); cbn; [|reflexivity]. destruct (i =? sid s0); reflexivity.
    - reflexivity.
  Qed.

  Lemma process_plugin_eq (st : state) ts x :
    process_event st (EPlugin ts x) =
    match net_plugin stations x (occ st) with
    | OkS o => OkS (mkState (iter st) true (Some ts)
                     (q_insert (EUnplug (s_departure x) x) (queue st)) o
                     ((sid x, x) :: filter (fun p => negb (Z.eqb (fst p) (sid x))) (ev_hist st))
                     (hist st) (calls st) (occ_log st) (num st))
    | ErrS e o => ErrS e (set_occ N V st o)
    end.
  Proof. unfold SimSkel.process_event. cbn. destruct (net_plugin stations x (occ st)); reflexivity. Qed.

  Lemma process_unplug_eq (st : state) ts x :
    process_event st (EUnplug ts x) =
    match net_unplug stations (s_station x) (sid x) (occ st) with
    | OkS o => OkS (mkState (iter st) true (Some ts) (queue st) o (ev_hist st)
                     (hist st) (calls st) (occ_log st) (num st))
    | ErrS e o => ErrS e (set_occ N V st o)
    end.
  Proof.
    unfold SimSkel.process_event. cbn.
    destruct (net_unplug stations (s_station x) (sid x) (occ st)); reflexivity.
  Qed.

  (* the three outcomes of processing a Plugin event, in one closed form *)
  Lemma process_plugin_outcomes (st : state) ts x :
    process_event st (EPlugin ts x) =
    if zmem (s_station x) stations then
      match occ_get (s_station x) (occ st) with
      | None => OkS (mkState (iter st) true (Some ts)
                       (q_insert (EUnplug (s_departure x) x) (queue st)) (occ_set (s_station x) x (occ st))
                       ((sid x, x) :: filter (fun p => negb (Z.eqb (fst p) (sid x))) (ev_hist st))
                       (hist st) (calls st) (occ_log st) (num st))
      | Some y => ErrS "StationOccupiedError"
                       (set_occ N V st (if Z.eqb (sid y) (sid x) then occ_set (s_station x) x (occ st) else occ st))
      end
    else ErrS "KeyError" (set_occ N V st (occ st)).
  Proof.
    rewrite process_plugin_eq, net_plugin_eq.
    destruct (zmem (s_station x) stations); [|reflexivity].
    destruct (occ_get (s_station x) (occ st)); reflexivity.
  Qed.

  Lemma process_unplug_outcomes (st : state) ts x :
    process_event st (EUnplug ts x) =
    if zmem (s_station x) stations then
      OkS (mkState (iter st) true (Some ts) (queue st)
             (match occ_get (s_station x) (occ st) with
              | Some y => if Z.eqb (sid x) (sid y) then occ_remove (s_station x) (occ st) else occ st
              | None => occ st
              end)
             (ev_hist st) (hist st) (calls st) (occ_log st) (num st))
    else ErrS "KeyError" (set_occ N V st (occ st)).
  Proof.
    rewrite process_unplug_eq, net_unplug_eq.
    destruct (zmem (s_station x) stations); [|reflexivity].
    destruct (occ_get (s_station x) (occ st)) as [y|]; [|reflexivity].
    destruct (sid x =? sid y); reflexivity.
  Qed.

  Lemma process_recompute_eq (st : state) ts :
    process_event st (ERecompute ts) =
    OkS (mkState (iter st) true (last_upd st) (queue st) (occ st) (ev_hist st)
                 (hist st) (calls st) (occ_log st) (num st)).
  Proof. reflexivity. Qed.

  (* before the scheduler is called the block leaves a resolve pending (regenerated `pre` piece) *)
  Lemma before_schedule_eq (st : state) :
    before_schedule N V st = set_flags N V st true (last_upd st).
  Proof. reflexivity. Qed.

  (* a queue entry that is none of the built-in events (a bare Event, a user-defined subclass): dispatch
     is on its event_type LABEL — labelled "Recompute" (code 2) it requests a resolve like a RecomputeEvent,
     with a label the simulator does not know it is logged and otherwise ignored *)
  Lemma process_other_eq (st : state) ts p c :
    c <> 0 -> c <> 1 ->
    process_event st (EOther ts p c) =
    OkS (mkState (iter st) (if c =? 2 then true else resolve st) (last_upd st) (queue st) (occ st) (ev_hist st)
                 (hist st) (calls st) (occ_log st) (num st)).
  Proof.
    intros H0 H1. unfold SimSkel.process_event, Simulator_process_event. cbn [ev_session ev_code ev_ts].
    apply Z.eqb_neq in H0, H1. rewrite H0, H1. destruct (c =? 2); reflexivity.
  Qed.

  Lemma sched_phase_eq (st : state) :
    sched_phase st =
    if Simulator_recompute_cond (iter st) (last_upd st) (resolve st) maxrec then
      match num_view (iter st) (occ st) (num st) with
      | Err e => ErrS e (set_flags N V st true (last_upd st))       (* interrupted with the resolve pending *)
      | Ok v =>
          match num_apply (iter st) (num st) (sched v) with
          | Ok n => OkS (mkState (iter st) false (Some (iter st)) (queue st) (occ st) (ev_hist st)
                                 (hist st) (calls st ++ [(iter st, v)]) (occ_log st) n)
          | Err e => ErrS e (log_call N V (set_flags N V st true (last_upd st)) v)
          end
      end
    else OkS st.
  Proof.
    unfold SimSkel.sched_phase, SimSkel.apply_schedule. rewrite before_schedule_eq.
    destruct (Simulator_recompute_cond (iter st) (last_upd st) (resolve st) maxrec); [|reflexivity].
    cbn [iter occ num set_flags].
    destruct (num_view (iter st) (occ st) (num st)) as [v|e]; [|reflexivity].
    cbn. destruct (num_apply (iter st) (num st) (sched v)); reflexivity.
  Qed.

  Lemma apply_schedule_eq (st : state) v s :
    apply_schedule N V Sch num_apply st v s =
    match num_apply (iter st) (num st) s with
    | Ok n => OkS (mkState (iter st) false (Some (iter st)) (queue st) (occ st) (ev_hist st)
                           (hist st) (calls st ++ [(iter st, v)]) (occ_log st) n)
    | Err e => ErrS e (log_call N V st v)
    end.
  Proof. unfold SimSkel.apply_schedule. cbn. destruct (num_apply (iter st) (num st) s); reflexivity. Qed.

  Lemma tail_phase_eq (st : state) :
    tail_phase st =
    match num_charge (iter st) (occ st) (num st) with
    | Ok n => OkS (mkState (iter st + 1) (resolve st) (last_upd st) (queue st) (occ st) (ev_hist st)
                           (hist st) (calls st) (occ_log st ++ [(iter st, occ st)])
                           (num_store (iter st) (occ st) n))
    | Err e => ErrS e st
    end.
  Proof.
    unfold SimSkel.tail_phase. cbn.
    destruct (num_charge (iter st) (occ st) (num st)); reflexivity.
  Qed.
End Closed.

(* ========================================================================================== *)
(* Part 2: valid inputs — every session plugged/unplugged exactly once (C01)                  *)
(* ========================================================================================== *)
Definition valid_event (stations : list Z) (e : event) : Prop :=
  match e with
  | EPlugin ts x => ts = s_arrival x /\ In (s_station x) stations /\ 0 <= s_arrival x < s_departure x
  | ERecompute ts => 0 <= ts
  | EOther ts _ c => 0 <= ts /\ c <> 0 /\ c <> 1     (* bare Event / user-defined subclass, not labelled Plugin/Unplug *)
  | EUnplug _ _ => False            (* unplug events are generated by the simulator, not given *)
  end.

Record valid (stations : list Z) (evs : list event) : Prop := {
  v_events : Forall (valid_event stations) evs;
  v_nodup : NoDup (map skey (sessions_of evs));
  v_nooverlap : forall x y, In x (sessions_of evs) -> In y (sessions_of evs) -> skey x <> skey y ->
      s_station x = s_station y ->
      s_departure x <= s_arrival y \/ s_departure y <= s_arrival x }.

Lemma in_sessions_of evs x : In x (sessions_of evs) <-> exists ts, In (EPlugin ts x) evs.
Proof.
  unfold sessions_of. rewrite in_flat_map. split.
  - intros (e & I & J). destruct e; simpl in J; try contradiction.
    destruct J as [->|[]]. eauto.
  - intros (ts & I). exists (EPlugin ts x). split; simpl; auto.
Qed.

Lemma nodup_map_inj {A B} (f : A -> B) l x y :
  NoDup (map f l) -> In x l -> In y l -> f x = f y -> x = y.
Proof.
  induction l as [|a r IH]; simpl; intros ND Ix Iy E; [contradiction|].
  inversion ND as [|? ? Hn Hr]; subst.
  destruct Ix as [->|Ix], Iy as [->|Iy]; auto.
  - exfalso. apply Hn. rewrite E. apply in_map; auto.
  - exfalso. apply Hn. rewrite <- E. apply in_map; auto.
Qed.

Lemma key_eqb_eq a b : key_eqb a b = true <-> a = b.
Proof.
  unfold key_eqb. destruct a as [a1 a2], b as [b1 b2]. simpl.
  rewrite andb_true_iff, !Z.eqb_eq. split; [intros (-> & ->); auto|intro H; inversion H; auto].
Qed.
Lemma key_eqb_refl a : key_eqb a a = true.
Proof. apply key_eqb_eq. reflexivity. Qed.
Lemma key_eqb_neq a b : key_eqb a b = false <-> a <> b.
Proof.
  destruct (key_eqb a b) eqn:E.
  - apply key_eqb_eq in E. split; [discriminate|congruence].
  - split; auto. intros _ H. apply key_eqb_eq in H. congruence.
Qed.

Definition is_plug (k : Z * Z) (e : event) : bool :=
  match e with EPlugin _ y => key_eqb (skey y) k | _ => false end.
Definition is_unpl (k : Z * Z) (e : event) : bool :=
  match e with EUnplug _ y => key_eqb (skey y) k | _ => false end.

(* "the same session-less event" (Recompute / other): used to count that none is lost or duplicated *)
Definition is_rec (e0 e : event) : bool :=
  match e, e0 with
  | ERecompute b, ERecompute a => Z.eqb b a
  | EOther b q d, EOther a p c => Z.eqb b a && Z.eqb q p && Z.eqb d c
  | _, _ => false
  end.
Lemma is_rec_eq e0 e : is_rec e0 e = true -> e = e0 /\ ev_session e0 = None.
Proof.
  destruct e, e0; simpl; try discriminate.
  - intro H. apply Z.eqb_eq in H. subst. auto.
  - intro H. apply andb_true_iff in H. destruct H as (H & H3). apply andb_true_iff in H. destruct H as (H1 & H2).
    apply Z.eqb_eq in H1, H2, H3. subst. auto.
Qed.
Lemma is_rec_refl e0 : ev_session e0 = None -> is_rec e0 e0 = true.
Proof. destruct e0; simpl; try discriminate; intros _; rewrite ?Z.eqb_refl; reflexivity. Qed.

Definition zrange (n : Z) : list Z := map Z.of_nat (seq 0 (Z.to_nat n)).
Lemma zrange_succ n : 0 <= n -> zrange (n + 1) = zrange n ++ [n].
Proof.
  intro H. unfold zrange. replace (Z.to_nat (n + 1)) with (S (Z.to_nat n)) by lia.
  rewrite seq_S, map_app. simpl. rewrite Z2Nat.id; auto.
Qed.
Lemma in_zrange n t : In t (zrange n) <-> 0 <= t < n.
Proof.
  unfold zrange. rewrite in_map_iff. split.
  - intros (k & <- & I). apply in_seq in I. lia.
  - intros H. exists (Z.to_nat t). split; [lia|]. apply in_seq. lia.
Qed.

Lemma sorted_app l1 l2 :
  sorted l1 -> sorted l2 -> (forall a b, In a l1 -> In b l2 -> key_le a b) -> sorted (l1 ++ l2).
Proof.
  induction 1 as [|h r Hs IH Hf]; simpl; intros S2 K; auto.
  constructor.
  - apply IH; auto.
  - apply Forall_app. split; auto. apply Forall_forall. intros b Ib. apply K; auto.
Qed.

Definition last_ts (h : list (Z * event)) : Z :=
  fold_right Z.max (-1) (map (fun p => ev_ts (snd p)) h).
Lemma last_ts_max h m :
  (exists p, In p h /\ ev_ts (snd p) = m) -> (forall p, In p h -> ev_ts (snd p) <= m) -> -1 <= m ->
  last_ts h = m.
Proof.
  unfold last_ts. induction h as [|a r IH]; simpl; intros (p & I & E) U L; [contradiction|].
  assert (Ua : ev_ts (snd a) <= m) by (apply U; auto).
  assert (Ur : forall p, In p r -> ev_ts (snd p) <= m) by (intros; apply U; auto).
  assert (B : fold_right Z.max (-1) (map (fun p => ev_ts (snd p)) r) <= m).
  { clear -Ur L. induction r; simpl; [lia|]. apply Z.max_lub; auto. apply Ur; simpl; auto.
    apply IHr. intros; apply Ur; simpl; auto. }
  destruct I as [->|I].
  - lia.
  - rewrite IH; eauto. lia.
Qed.

Lemma max_ts_ge l e : In e l -> ev_horizon e <= max_ts l.
Proof.
  unfold max_ts. induction l as [|a r IH]; simpl; intros []; subst; try lia.
  specialize (IH H). lia.
Qed.
Lemma max_ts_nonneg l : 0 <= max_ts l.
Proof. unfold max_ts. induction l; simpl; lia. Qed.

Lemma max_ts_attained l :
  l <> [] -> (forall e, In e l -> 0 <= ev_horizon e) -> exists e, In e l /\ ev_horizon e = max_ts l.
Proof.
  unfold max_ts. induction l as [|a r IH]; [congruence|]. intros _ H. simpl.
  destruct r as [|b r'].
  - exists a. split; [left; auto|]. simpl. specialize (H a (or_introl eq_refl)). lia.
  - destruct IH as (e & Ie & Ee); [discriminate|intros; apply H; right; auto|].
    destruct (Z_le_gt_dec (ev_horizon a) (fold_right (fun e m => Z.max (ev_horizon e) m) 0 (b :: r'))).
    + exists e. split; [right; auto|]. rewrite Ee. lia.
    + exists a. split; [left; auto|]. lia.
Qed.

Section C01.
  Variables N V Sch : Type.
  Variable stations : list Z.
  Variable maxrec : option Z.
  Variable num_view : Z -> occupancy -> N -> res V.
  Variable num_apply : Z -> N -> Sch -> res N.
  Variable num_charge : Z -> occupancy -> N -> res N.
  Variable num_store : Z -> occupancy -> N -> N.
  Variable sched : V -> Sch.
  Variable evs : list event.
  Hypothesis VALID : valid stations evs.

  Notation state := (state N V).
  Notation mkState := (mkState N V).
  Notation process_event := (process_event N V stations).
  Notation process_all := (process_all N V stations).
  Notation events_phase := (events_phase N V stations).
  Notation sched_phase := (sched_phase N V Sch maxrec num_view num_apply sched).
  Notation tail_phase := (tail_phase N V num_charge num_store).
  Notation step := (step N V Sch stations maxrec num_view num_apply num_charge num_store sched).
  Notation run := (run N V Sch stations maxrec num_view num_apply num_charge num_store sched).
  Notation loop_guard := (loop_guard N V).
  Notation sessions := (sessions_of evs).

  (* an event that can legitimately be pending or processed *)
  Definition good (e : event) : Prop :=
    match e with
    | EPlugin ts x => In (EPlugin ts x) evs
    | EUnplug ts x => In x sessions /\ ts = s_departure x
    | ERecompute ts => In (ERecompute ts) evs
    | EOther ts p c => In (EOther ts p c) evs
    end.

  Lemma valid_in e : In e evs -> valid_event stations e.
  Proof. intro I. pose proof (v_events _ _ VALID) as F. rewrite Forall_forall in F. auto. Qed.

  Lemma session_props x : In x sessions ->
    In (EPlugin (s_arrival x) x) evs /\ In (s_station x) stations /\ 0 <= s_arrival x < s_departure x.
  Proof.
    intro I. apply in_sessions_of in I. destruct I as (ts & I).
    pose proof (valid_in _ I) as (E & S & R). subst ts. auto.
  Qed.

  Lemma sid_inj x y : In x sessions -> In y sessions -> skey x = skey y -> x = y.
  Proof. intros. eapply nodup_map_inj with (f := skey); eauto. apply (v_nodup _ _ VALID). Qed.

  Lemma good_plugin ts x : good (EPlugin ts x) -> In x sessions /\ ts = s_arrival x.
  Proof.
    simpl. intro I. split; [apply in_sessions_of; eauto|].
    pose proof (valid_in _ I) as (E & _). auto.
  Qed.


  Lemma good_bounds e : good e -> 0 <= ev_ts e <= max_ts evs.
  Proof.
    destruct e as [ts x|ts x|ts|ts p c]; simpl.
    - intro I. pose proof (valid_in _ I) as (E & _ & R). pose proof (max_ts_ge _ _ I) as M. simpl in M. lia.
    - intros (I & ->). destruct (session_props x I) as (J & _ & R).
      pose proof (max_ts_ge _ _ J) as M. simpl in M. lia.
    - intro I. pose proof (valid_in _ I) as E. pose proof (max_ts_ge _ _ I) as M. simpl in *. lia.
    - intro I. pose proof (valid_in _ I) as (E & _). pose proof (max_ts_ge _ _ I) as M. simpl in *. lia.
  Qed.

  (* ---- the invariant while the events of period t are being processed ------------------- *)
  Record Inv (t : Z) (pend : list event) (st : state) : Prop := {
    i_good_p : forall e, In e pend -> good e;
    i_good_h : forall u e, In (u, e) (hist st) -> good e /\ u = ev_ts e /\ u <= t;
    i_cons1 : forall x, In x sessions ->
        (cnt (is_plug (skey x)) pend + cnt (is_plug (skey x)) (map snd (hist st)) = 1)%nat;
    i_cons2 : forall x, In x sessions ->
        (cnt (is_unpl (skey x)) pend + cnt (is_unpl (skey x)) (map snd (hist st))
         = cnt (is_plug (skey x)) (map snd (hist st)))%nat;
    i_occ1 : forall s y, occ_get s (occ st) = Some y ->
        In y sessions /\ s_station y = s /\ cnt (is_unpl (skey y)) pend = 1%nat;
    i_occ2 : forall x, In x sessions -> cnt (is_unpl (skey x)) pend = 1%nat ->
        occ_get (s_station x) (occ st) = Some x;
    (* given Recompute events are neither lost nor duplicated *)
    i_cons3 : forall e0, (cnt (is_rec e0) pend + cnt (is_rec e0) (map snd (hist st)) = cnt (is_rec e0) evs)%nat }.

  Lemma Inv_weaken t t' pend st : t <= t' -> Inv t pend st -> Inv t' pend st.
  Proof.
    intros L [A B C D E F G3]. constructor; auto.
    intros u e I. destruct (B u e I) as (G & H & K). repeat split; auto. lia.
  Qed.

  (* a pending unplug of session y is the event EUnplug (departure y) y *)
  Lemma pending_unplug pend y :
    (forall e, In e pend -> good e) -> In y sessions -> (cnt (is_unpl (skey y)) pend > 0)%nat ->
    In (EUnplug (s_departure y) y) pend.
  Proof.
    intros G Iy C. apply cnt_pos_ex in C. destruct C as (e & Ie & Ee).
    destruct e as [|ts z| |]; simpl in Ee; try discriminate.
    apply key_eqb_eq in Ee. destruct (G _ Ie) as (Iz & ->).
    assert (z = y) by (apply sid_inj; auto). subst z. exact Ie.
  Qed.

  Lemma processed_plugin t pend st y :
    Inv t pend st -> In y sessions -> (cnt (is_plug (skey y)) (map snd (hist st)) > 0)%nat ->
    In (s_arrival y, EPlugin (s_arrival y) y) (hist st) /\ s_arrival y <= t.
  Proof.
    intros I Iy C. apply cnt_pos_ex in C. destruct C as (e & Ie & Ee).
    apply in_map_iff in Ie. destruct Ie as ((u & e') & E' & Ie). simpl in E'. subst e'.
    destruct e as [ts z| | |]; simpl in Ee; try discriminate.
    apply key_eqb_eq in Ee. destruct (i_good_h _ _ _ I _ _ Ie) as (G & -> & L).
    destruct (good_plugin _ _ G) as (Iz & ->).
    assert (z = y) by (apply sid_inj; auto). subst z. simpl in *. auto.
  Qed.

  Lemma processed_unplug t pend st y :
    Inv t pend st -> In y sessions -> (cnt (is_unpl (skey y)) (map snd (hist st)) > 0)%nat ->
    In (s_departure y, EUnplug (s_departure y) y) (hist st) /\ s_departure y <= t.
  Proof.
    intros I Iy C. apply cnt_pos_ex in C. destruct C as (e & Ie & Ee).
    apply in_map_iff in Ie. destruct Ie as ((u & e') & E' & Ie). simpl in E'. subst e'.
    destruct e as [|ts z| |]; simpl in Ee; try discriminate.
    apply key_eqb_eq in Ee. destruct (i_good_h _ _ _ I _ _ Ie) as ((Iz & ->) & -> & L).
    assert (z = y) by (apply sid_inj; auto). subst z. simpl in *. auto.
  Qed.

  Lemma is_plug_self ts x : is_plug (skey x) (EPlugin ts x) = true.
  Proof. simpl. apply key_eqb_refl. Qed.
  Lemma is_unpl_self ts x : is_unpl (skey x) (EUnplug ts x) = true.
  Proof. simpl. apply key_eqb_refl. Qed.

  Ltac red_st := cbn [iter hist resolve last_upd calls occ_log num queue occ ev_hist log_event set_queue
                       set_occ set_flags set_num set_iter log_call log_occ set_ev_hist] in *.
  Hint Rewrite @cnt_app @cnt_cons @cnt_nil cnt_q_insert map_app map_cons : cntdb.
  Ltac cnts := autorewrite with cntdb in *; cbn [snd fst map is_plug is_unpl is_rec] in *; autorewrite with cntdb in *;
               rewrite ?key_eqb_refl, ?Z.eqb_refl in *; cbv iota in *.

  (* processing the first pending event of period t *)
  Lemma process_one t e rc (st : state) :
    iter st = t -> ev_ts e = t ->
    Inv t (e :: rc ++ queue st) st ->
    Forall (key_le e) (rc ++ queue st) ->
    exists st', process_event (log_event N V st e) e = OkS st' /\
      Inv t (rc ++ queue st') st' /\ iter st' = t /\ hist st' = hist st ++ [(t, e)] /\
      (resolving e = true -> resolve st' = true) /\ calls st' = calls st /\ occ_log st' = occ_log st /\ num st' = num st /\
      (queue st' = queue st \/
       exists u, queue st' = q_insert u (queue st) /\ t < ev_ts u).
  Proof.
    intros Hit Hts I K. rewrite Forall_forall in K.
    assert (Ge : good e) by (apply (i_good_p _ _ _ I); left; auto).
    destruct e as [ts x|ts x|ts|ts p c].
    - (* ---------------- Plugin ---------------- *)
      destruct (good_plugin _ _ Ge) as (Ix & Ea). simpl in Hts. subst ts.
      destruct (session_props x Ix) as (Iev & Ist & R).
      pose proof (i_cons1 _ _ _ I x Ix) as C1. pose proof (i_cons2 _ _ _ I x Ix) as C2.
      cnts.  simpl is_unpl in C2.
      assert (Hp0 : cnt (is_plug (skey x)) (map snd (hist st)) = O) by lia.
      assert (Hu0 : cnt (is_unpl (skey x)) (rc ++ queue st) = O) by (cnts; lia).
      (* the station is free *)
      assert (Free : occ_get (s_station x) (occ st) = None).
      { destruct (occ_get (s_station x) (occ st)) as [y|] eqn:Oy; auto. exfalso.
        destruct (i_occ1 _ _ _ I _ _ Oy) as (Iy & Sy & Cy).
        cnts. simpl is_unpl in Cy.
        assert (Py : In (EUnplug (s_departure y) y) (rc ++ queue st)).
        { apply pending_unplug; auto; [|cnts; lia].
          intros e' Ie'. apply (i_good_p _ _ _ I). right; auto. }
        pose proof (K _ Py) as Ky. unfold key_le in Ky. simpl in Ky.
        destruct prec_order as (PO & _).
        assert (Dy : t < s_departure y) by lia.
        pose proof (i_cons2 _ _ _ I y Iy) as C2y. pose proof (i_cons1 _ _ _ I y Iy) as C1y.
        cnts. simpl is_unpl in C2y.
        assert (Py1 : (cnt (is_plug (skey y)) (map snd (hist st)) > 0)%nat) by lia.
        destruct (processed_plugin _ _ _ y I Iy Py1) as (_ & Ay).
        assert (Dxy : skey x <> skey y).
        { intro E. rewrite E in Hp0. lia. }
        destruct (v_nooverlap _ _ VALID x y Ix Iy Dxy (eq_sym Sy)); lia. }
      rewrite process_plugin_eq, net_plugin_eq. red_st.
      apply zmem_in in Ist. rewrite Ist, Free.
      eexists. split; [reflexivity|]. red_st.
      split; [|rewrite Hit; repeat split; auto; right; eexists; split; [reflexivity|simpl; lia]].
      constructor; red_st.
      + intros e' Ie'. apply in_app_or in Ie'. destruct Ie' as [Ie'|Ie'].
        * apply (i_good_p _ _ _ I). right. apply in_or_app; auto.
        * apply in_q_insert in Ie'. destruct Ie' as [->|Ie'].
          -- simpl. auto.
          -- apply (i_good_p _ _ _ I). right. apply in_or_app; auto.
      + intros u e' Ie'. apply in_app_or in Ie'. destruct Ie' as [Ie'|[Ie'|[]]].
        * apply (i_good_h _ _ _ I); auto.
        * inversion Ie'; subst. simpl. repeat split; auto; lia.
      + intros z Iz. pose proof (i_cons1 _ _ _ I z Iz) as C. cnts. simpl is_plug at 2. lia.
      + intros z Iz. pose proof (i_cons2 _ _ _ I z Iz) as C. cnts.
        simpl is_unpl in *. simpl is_plug. lia.
      + intros s y Oy. destruct (Z.eq_dec s (s_station x)) as [->|Ds].
        * rewrite occ_get_set_same in Oy. inversion Oy; subst y. repeat split; auto.
          cnts. lia.
        * rewrite occ_get_set_other in Oy by auto.
          destruct (i_occ1 _ _ _ I _ _ Oy) as (Iy & Sy & Cy). repeat split; auto.
          cnts. simpl is_unpl in *.
          destruct (key_eqb (skey x) (skey y)) eqn:E; [|lia].
          apply key_eqb_eq in E. rewrite <- E in Cy. lia.
      + intros z Iz Cz. cnts. simpl is_unpl in Cz.
        destruct (key_eqb (skey x) (skey z)) eqn:E.
        * apply key_eqb_eq in E. assert (x = z) by (apply sid_inj; auto). subst z.
          apply occ_get_set_same.
        * assert (Oz : occ_get (s_station z) (occ st) = Some z).
          { apply (i_occ2 _ _ _ I); auto. cnts. simpl is_unpl. lia. }
          destruct (Z.eq_dec (s_station z) (s_station x)) as [Es|Ds].
          -- rewrite Es in Oz. congruence.
          -- rewrite occ_get_set_other; auto.
      + intros ts0. pose proof (i_cons3 _ _ _ I ts0) as C. cnts. lia.
    - (* ---------------- Unplug ---------------- *)
      destruct Ge as (Ix & Ed). simpl in Hts.
      destruct (session_props x Ix) as (Iev & Ist & R).
      pose proof (i_cons1 _ _ _ I x Ix) as C1. pose proof (i_cons2 _ _ _ I x Ix) as C2.
      cnts. simpl is_plug in C1. 
      assert (Hu1 : cnt (is_unpl (skey x)) (rc ++ queue st) = O) by (cnts; lia).
      assert (Ox : occ_get (s_station x) (occ st) = Some x).
      { apply (i_occ2 _ _ _ I); auto. cnts. lia. }
      rewrite process_unplug_eq, net_unplug_eq. red_st.
      apply zmem_in in Ist. rewrite Ist, Ox, Z.eqb_refl.
      eexists. split; [reflexivity|]. red_st.
      split; [|rewrite Hit; repeat split; auto].
      constructor; red_st.
      + intros e' Ie'. apply (i_good_p _ _ _ I). right; auto.
      + intros u e' Ie'. apply in_app_or in Ie'. destruct Ie' as [Ie'|[Ie'|[]]].
        * apply (i_good_h _ _ _ I); auto.
        * inversion Ie'; subst. simpl. repeat split; auto; lia.
      + intros z Iz. pose proof (i_cons1 _ _ _ I z Iz) as C. cnts. simpl is_plug in *. lia.
      + intros z Iz. pose proof (i_cons2 _ _ _ I z Iz) as C. cnts.
        simpl is_plug in *. simpl is_unpl at 2. lia.
      + intros s y Oy. destruct (Z.eq_dec s (s_station x)) as [->|Ds].
        * rewrite occ_get_remove_same in Oy. discriminate.
        * rewrite occ_get_remove_other in Oy by auto.
          destruct (i_occ1 _ _ _ I _ _ Oy) as (Iy & Sy & Cy). repeat split; auto.
          cnts. simpl is_unpl in Cy.
          destruct (key_eqb (skey x) (skey y)) eqn:E; [|lia].
          apply key_eqb_eq in E. assert (x = y) by (apply sid_inj; auto). subst y. congruence.
      + intros z Iz Cz.
        destruct (key_eqb (skey x) (skey z)) eqn:E.
        * apply key_eqb_eq in E. rewrite <- E in Cz. cnts. lia.
        * assert (Oz : occ_get (s_station z) (occ st) = Some z).
          { apply (i_occ2 _ _ _ I); auto. cnts. simpl is_unpl. rewrite E. cnts. lia. }
          destruct (Z.eq_dec (s_station z) (s_station x)) as [Es|Ds].
          -- rewrite Es in Oz. rewrite Ox in Oz. inversion Oz; subst z.
             rewrite key_eqb_refl in E. discriminate.
          -- rewrite occ_get_remove_other; auto.
      + intros ts0. pose proof (i_cons3 _ _ _ I ts0) as C. cnts. lia.
    - (* ---------------- Recompute ---------------- *)
      rewrite process_recompute_eq. cbn [log_event].
      eexists. split; [reflexivity|]. red_st.
      split; [|rewrite Hit; repeat split; auto].
      constructor; red_st.
      + intros e' Ie'. apply (i_good_p _ _ _ I). right; auto.
      + intros u e' Ie'. apply in_app_or in Ie'. destruct Ie' as [Ie'|[Ie'|[]]].
        * apply (i_good_h _ _ _ I); auto.
        * inversion Ie'; subst. simpl in *. repeat split; auto; lia.
      + intros z Iz. pose proof (i_cons1 _ _ _ I z Iz) as C. cnts. simpl is_plug in *. lia.
      + intros z Iz. pose proof (i_cons2 _ _ _ I z Iz) as C. cnts.
        simpl is_plug in *. simpl is_unpl in *. lia.
      + intros s y Oy. destruct (i_occ1 _ _ _ I _ _ Oy) as (Iy & Sy & Cy). repeat split; auto.
      + intros z Iz Cz. apply (i_occ2 _ _ _ I); auto.
      + intros ts0. pose proof (i_cons3 _ _ _ I ts0) as C. cnts. lia.
    - (* ---------------- any other event: logged, otherwise ignored ---------------- *)
      simpl in Ge. pose proof (valid_in _ Ge) as (_ & C0 & C1).
      rewrite (process_other_eq N V stations _ ts p c C0 C1). cbn [log_event].
      eexists. split; [reflexivity|]. red_st.
      split.
      2:{ rewrite Hit. repeat split; auto. unfold resolving. cbn [ev_code].
          apply Z.eqb_neq in C0, C1. rewrite C0, C1. simpl. intro H. rewrite H. reflexivity. }
      constructor; red_st.
      + intros e' Ie'. apply (i_good_p _ _ _ I). right; auto.
      + intros u e' Ie'. apply in_app_or in Ie'. destruct Ie' as [Ie'|[Ie'|[]]].
        * apply (i_good_h _ _ _ I); auto.
        * inversion Ie'; subst. simpl in *. repeat split; auto; lia.
      + intros z Iz. pose proof (i_cons1 _ _ _ I z Iz) as C. cnts. simpl is_plug in *. lia.
      + intros z Iz. pose proof (i_cons2 _ _ _ I z Iz) as C. cnts.
        simpl is_plug in *. simpl is_unpl in *. lia.
      + intros s y Oy. destruct (i_occ1 _ _ _ I _ _ Oy) as (Iy & Sy & Cy). repeat split; auto.
      + intros z Iz Cz. apply (i_occ2 _ _ _ I); auto.
      + intros ts0. pose proof (i_cons3 _ _ _ I ts0) as C. cnts. lia.
  Qed.

  (* all events of period t, in queue order *)
  Lemma process_all_ok t cur : forall (st : state),
    iter st = t -> Inv t (cur ++ queue st) st ->
    sorted cur -> Forall (fun e => ev_ts e = t) cur ->
    sorted (queue st) -> Forall (fun e => t < ev_ts e) (queue st) ->
    exists st', process_all cur st = OkS st' /\
      Inv t (queue st') st' /\ iter st' = t /\ hist st' = hist st ++ map (pair t) cur /\
      sorted (queue st') /\ Forall (fun e => t < ev_ts e) (queue st') /\
      True /\ (cur = [] -> st' = st) /\
      calls st' = calls st /\ occ_log st' = occ_log st /\ num st' = num st.
  Proof.
    induction cur as [|e r IH]; intros st Hit I Sc Tc Sq Gq.
    - exists st. simpl in *. rewrite app_nil_r.
      split; [reflexivity|]. split; [exact I|]. split; [exact Hit|]. split; [reflexivity|].
      split; [exact Sq|]. split; [exact Gq|]. split; [exact Logic.I|]. auto.
    - apply StronglySorted_inv in Sc. destruct Sc as (Sr & Fr).
      apply Forall_cons_iff in Tc. destruct Tc as (Te & Tr).
      assert (K : Forall (key_le e) (r ++ queue st)).
      { apply Forall_app. split; auto.
        eapply Forall_impl; [|exact Gq]. intros a Ha. left. simpl in Ha. lia. }
      destruct (process_one t e r st Hit Te I K)
        as (st1 & P1 & I1 & It1 & H1 & R1 & C1 & O1 & N1 & Q1).
      assert (Sq1 : sorted (queue st1) /\ Forall (fun a => t < ev_ts a) (queue st1)).
      { destruct Q1 as [->|(u & -> & Lu)]; [auto|]. split; [apply sorted_q_insert; auto|].
        apply Forall_forall. intros a Ia. apply in_q_insert in Ia. destruct Ia as [->|Ia]; auto.
        rewrite Forall_forall in Gq; auto. }
      destruct Sq1 as (Sq1 & Gq1).
      destruct (IH st1 It1 I1 Sr Tr Sq1 Gq1)
        as (st' & P & I' & It' & H' & S' & G' & R' & E' & C' & O' & N').
      exists st'. simpl. rewrite P1.
      split; [exact P|]. split; [exact I'|]. split; [exact It'|].
      split; [rewrite H', H1, <- app_assoc; reflexivity|].
      split; [exact S'|]. split; [exact G'|].
      split; [exact Logic.I|].
      split; [intro H; discriminate|].
      repeat split; congruence.
  Qed.

  (* who is connected once the events of period t have been processed *)
  Lemma occ_char t q (st : state) s y :
    Inv t q st -> Forall (fun e => t < ev_ts e) q ->
    (occ_get s (occ st) = Some y <->
     In y sessions /\ s_station y = s /\ s_arrival y <= t < s_departure y).
  Proof.
    intros I G. rewrite Forall_forall in G. split.
    - intro Oy. destruct (i_occ1 _ _ _ I _ _ Oy) as (Iy & Sy & Cy).
      assert (Py : In (EUnplug (s_departure y) y) q).
      { apply pending_unplug; auto; [apply (i_good_p _ _ _ I)|lia]. }
      pose proof (G _ Py) as Ly. simpl in Ly.
      pose proof (i_cons2 _ _ _ I y Iy) as C2.
      assert (P1 : (cnt (is_plug (skey y)) (map snd (hist st)) > 0)%nat) by lia.
      destruct (processed_plugin _ _ _ y I Iy P1) as (_ & Ay). repeat split; auto; lia.
    - intros (Iy & Sy & Ry).
      pose proof (i_cons1 _ _ _ I y Iy) as C1. pose proof (i_cons2 _ _ _ I y Iy) as C2.
      assert (Z1 : cnt (is_plug (skey y)) q = O).
      { destruct (cnt (is_plug (skey y)) q) eqn:E; auto. exfalso.
        assert (P : (cnt (is_plug (skey y)) q > 0)%nat) by lia.
        apply cnt_pos_ex in P. destruct P as (e & Ie & Ee).
        destruct e as [ts z| | |]; simpl in Ee; try discriminate. apply key_eqb_eq in Ee.
        destruct (good_plugin _ _ (i_good_p _ _ _ I _ Ie)) as (Iz & ->).
        assert (z = y) by (apply sid_inj; auto). subst z.
        pose proof (G _ Ie) as L. simpl in L. lia. }
      assert (Z2 : cnt (is_unpl (skey y)) (map snd (hist st)) = O).
      { destruct (cnt (is_unpl (skey y)) (map snd (hist st))) eqn:E; auto. exfalso.
        assert (P : (cnt (is_unpl (skey y)) (map snd (hist st)) > 0)%nat) by lia.
        destruct (processed_unplug _ _ _ y I Iy P) as (_ & L). lia. }
      rewrite <- Sy. apply (i_occ2 _ _ _ I); auto. lia.
  Qed.

  (* exceptions that can only come from the numeric layer / the Interface *)
  Definition num_err (e : string) : Prop :=
    (exists t o n, num_view t o n = Err e) \/ (exists t n s, num_apply t n s = Err e) \/
    (exists t o n, num_charge t o n = Err e).

  (* ---- the invariant at the head of the while loop --------------------------------------- *)
  Record LoopInv (st : state) : Prop := {
    l_iter : 0 <= iter st;
    l_inv : Inv (iter st - 1) (queue st) st;
    l_sorted : sorted (queue st);
    l_ge : Forall (fun e => iter st <= ev_ts e) (queue st);
    l_res : resolve st = false;
    l_hsorted : sorted (map snd (hist st));
    l_last : (iter st = 0 /\ hist st = []) \/ queue st <> [] \/ exists e, In (iter st - 1, e) (hist st);
    l_occlog : map fst (occ_log st) = zrange (iter st);
    l_occchar : forall t o, In (t, o) (occ_log st) -> forall s y,
        occ_get s o = Some y <-> In y sessions /\ s_station y = s /\ s_arrival y <= t < s_departure y }.

  Lemma cnt_false {A} (f : A -> bool) l : (forall a, In a l -> f a = false) -> cnt f l = O.
  Proof.
    intro H. destruct (cnt f l) eqn:E; auto. exfalso.
    assert (P : (cnt f l > 0)%nat) by lia. apply cnt_pos_ex in P. destruct P as (a & I & F).
    rewrite H in F; auto. discriminate.
  Qed.

  Lemma cnt_plug_sessions i l : cnt (is_plug i) l = cnt (fun y => key_eqb (skey y) i) (sessions_of l).
  Proof.
    induction l as [|e r IH]; auto. unfold sessions_of in *. simpl flat_map.
    destruct e; rewrite ?cnt_cons, ?cnt_app; simpl; rewrite ?cnt_cons, ?cnt_nil, IH; lia.
  Qed.
  Lemma cnt_nodup_one (L : list session) x :
    NoDup (map skey L) -> In x L -> cnt (fun y => key_eqb (skey y) (skey x)) L = 1%nat.
  Proof.
    induction L as [|a r IH]; simpl; intros ND I; [contradiction|].
    inversion ND as [|? ? Hn Hr]; subst. rewrite cnt_cons. destruct I as [->|I].
    - rewrite key_eqb_refl. rewrite cnt_false; auto.
      intros b Ib. apply key_eqb_neq. intro E. apply Hn. rewrite <- E. apply in_map; auto.
    - rewrite IH; auto. destruct (key_eqb (skey a) (skey x)) eqn:E; auto.
      apply key_eqb_eq in E. exfalso. apply Hn. rewrite E. apply in_map; auto.
  Qed.

  Lemma init_inv n0 : LoopInv (init N V evs n0).
  Proof.
    unfold init. constructor; red_st; simpl.
    - lia.
    - constructor; red_st.
      + intros e Ie. apply (proj1 (in_q_of_list _ _)) in Ie. pose proof (valid_in _ Ie) as Ve.
        destruct e; simpl in *; auto. contradiction.
      + intros u e [].
      + intros x Ix. simpl. rewrite cnt_nil, cnt_q_of_list, cnt_plug_sessions.
        rewrite cnt_nodup_one; auto. apply (v_nodup _ _ VALID).
      + intros x Ix. simpl. rewrite !cnt_nil, cnt_q_of_list.
        rewrite cnt_false; auto. intros e Ie. pose proof (valid_in _ Ie) as Ve.
        destruct e; simpl in *; auto. contradiction.
      + intros s y H. rewrite occ_get_nil in H. discriminate.
      + intros x Ix. rewrite cnt_q_of_list, cnt_false; [discriminate|].
        intros e Ie. pose proof (valid_in _ Ie) as Ve. destruct e; simpl in *; auto. contradiction.
      + intros ts0. simpl. rewrite cnt_nil, cnt_q_of_list. lia.
    - apply sorted_q_of_list.
    - apply Forall_forall. intros e Ie. apply (proj1 (in_q_of_list _ _)) in Ie. pose proof (valid_in _ Ie) as Ve.
      destruct e; simpl in *; solve [lia|contradiction].
    - reflexivity.
    - constructor.
    - left; auto.
    - reflexivity.
    - intros t o [].
  Qed.

  Lemma loop_inv_bound (st : state) : LoopInv st -> iter st <= max_ts evs + 1.
  Proof.
    intros L. pose proof (max_ts_nonneg evs) as M.
    destruct (l_last _ L) as [(E & _)|[Q|(e & Ie)]].
    - lia.
    - destruct (queue st) as [|e r] eqn:Eq; [congruence|].
      pose proof (l_ge _ L) as G. rewrite Eq in G. inversion G; subst.
      assert (Ge : good e) by (apply (i_good_p _ _ _ (l_inv _ L)); rewrite Eq; left; auto).
      pose proof (good_bounds _ Ge). lia.
    - destruct (i_good_h _ _ _ (l_inv _ L) _ _ Ie) as (Ge & E & _).
      pose proof (good_bounds _ Ge). lia.
  Qed.

  Lemma guard_queue (st : state) : LoopInv st -> loop_guard st = negb (q_empty (queue st)).
  Proof.
    intro L. unfold SimSkel.loop_guard. rewrite run_guard_spec, (l_res _ L). apply orb_false_r.
  Qed.

  (* the event phase of an iteration, on its own (used for C05: what the scheduler is shown) *)
  Lemma events_phase_inv (st : state) :
    LoopInv st ->
    exists st1, events_phase st = OkS st1 /\ Inv (iter st) (queue st1) st1 /\ iter st1 = iter st /\
                Forall (fun e => iter st < ev_ts e) (queue st1).
  Proof.
    intros L. set (t := iter st).
    destruct (q_pop_current t (queue st)) as [cur rest] eqn:P.
    destruct (q_pop_current_split _ _ _ _ P) as (Eq & Fc & Hr).
    pose proof (l_sorted _ L) as Sq. rewrite Eq in Sq.
    destruct (sorted_app_inv _ _ Sq) as (Sc & Sr & Kcr).
    pose proof (l_ge _ L) as Ge. rewrite Eq in Ge. apply Forall_app in Ge. destruct Ge as (Gc & Gr).
    assert (Tc : Forall (fun e => ev_ts e = t) cur).
    { rewrite Forall_forall in *. intros e Ie. specialize (Fc e Ie). specialize (Gc e Ie).
      simpl in *. fold t in Gc. lia. }
    assert (Gr' : Forall (fun e => t < ev_ts e) rest).
    { destruct rest as [|h r]; [constructor|]. apply sorted_tail_gt; auto. }
    assert (I0 : Inv t (cur ++ queue (set_queue N V st rest)) (set_queue N V st rest)).
    { red_st. rewrite <- Eq. apply Inv_weaken with (t := t - 1); [lia|].
      destruct (l_inv _ L) as [A B C D E F G3]. constructor; auto. }
    destruct (process_all_ok t cur (set_queue N V st rest) eq_refl I0 Sc Tc Sr Gr')
      as (st1 & P1 & I1 & It1 & H1 & S1 & G1 & R1 & E1 & C1 & O1 & N1).
    exists st1. split; [|auto].
    unfold SimSkel.events_phase. fold t. rewrite P. exact P1.
  Qed.

  (* one full iteration of the loop *)
  Lemma step_inv (st : state) :
    LoopInv st -> loop_guard st = true ->
    (exists st', step st = OkS st' /\ LoopInv st' /\ iter st' = iter st + 1) \/
    (exists e st', step st = ErrS e st' /\ num_err e).
  Proof.
    intros L G. rewrite guard_queue in G by auto.
    set (t := iter st).
    destruct (q_pop_current t (queue st)) as [cur rest] eqn:P.
    destruct (q_pop_current_split _ _ _ _ P) as (Eq & Fc & Hr).
    pose proof (l_sorted _ L) as Sq. rewrite Eq in Sq.
    destruct (sorted_app_inv _ _ Sq) as (Sc & Sr & Kcr).
    pose proof (l_ge _ L) as Ge. rewrite Eq in Ge. apply Forall_app in Ge. destruct Ge as (Gc & Gr).
    assert (Tc : Forall (fun e => ev_ts e = t) cur).
    { rewrite Forall_forall in *. intros e Ie. specialize (Fc e Ie). specialize (Gc e Ie).
      simpl in *. fold t in Gc. lia. }
    assert (Gr' : Forall (fun e => t < ev_ts e) rest).
    { destruct rest as [|h r]; [constructor|]. apply sorted_tail_gt; auto. }
    assert (I0 : Inv t (cur ++ queue (set_queue N V st rest)) (set_queue N V st rest)).
    { red_st. rewrite <- Eq. apply Inv_weaken with (t := t - 1); [lia|].
      destruct (l_inv _ L) as [A B C D E F G3]. constructor; auto. }
    destruct (process_all_ok t cur (set_queue N V st rest) eq_refl I0 Sc Tc Sr Gr')
      as (st1 & P1 & I1 & It1 & H1 & S1 & G1 & R1 & E1 & C1 & O1 & N1).
    red_st.
    assert (EP : events_phase st = OkS st1).
    { unfold SimSkel.events_phase. fold t. rewrite P. exact P1. }
    unfold SimSkel.step. rewrite EP. cbn [bindS].
    (* scheduling block *)
    rewrite sched_phase_eq.
    assert (NEcur : cur = [] -> queue st1 <> []).
    { intros ->. rewrite (E1 eq_refl). red_st. simpl in Eq. rewrite <- Eq.
      destruct (queue st); [discriminate|congruence]. }
    (* common continuation: any state st2 that agrees with st1 on the discrete part *)
    assert (TAIL : forall st2 : state,
               iter st2 = t -> queue st2 = queue st1 -> occ st2 = occ st1 -> hist st2 = hist st1 ->
               occ_log st2 = occ_log st1 -> resolve st2 = false ->
               (exists st', tail_phase st2 = OkS st' /\ LoopInv st' /\ iter st' = iter st + 1) \/
               (exists e st', tail_phase st2 = ErrS e st' /\ num_err e)).
    { intros st2 It2 Q2 O2 H2 OL2 R2. rewrite tail_phase_eq.
      destruct (num_charge (iter st2) (occ st2) (num st2)) as [n|e] eqn:NC.
      2:{ right. do 2 eexists. split; [reflexivity|]. right; right. eauto. }
      left. eexists. split; [reflexivity|]. red_st. split; [|rewrite It2; reflexivity].
      assert (I2 : Inv t (queue st1) st2).
      { destruct I1 as [A B C D E F G3]. constructor; rewrite ?H2, ?O2; auto. }
      constructor; red_st; rewrite ?It2, ?Q2, ?O2, ?H2, ?OL2.
      - pose proof (l_iter _ L). fold t in H. lia.
      - replace (t + 1 - 1) with t by lia. destruct I2 as [A B C D E F G3].
        constructor; red_st; rewrite ?H2, ?O2 in *; auto.
      - auto.
      - eapply Forall_impl; [|exact G1]. intros a Ha. simpl in *. lia.
      - auto.
      - rewrite H1. red_st. rewrite map_app, map_map. simpl. rewrite map_id.
        apply sorted_app; auto; [apply (l_hsorted _ L)|].
        intros a b Ia Ib. apply in_map_iff in Ia. destruct Ia as ((u & a') & Ea & Ia). simpl in Ea. subst a'.
        destruct (i_good_h _ _ _ (l_inv _ L) _ _ Ia) as (_ & Eu & Lu).
        rewrite Forall_forall in Tc. specialize (Tc b Ib). left. fold t in Lu. lia.
      - destruct cur as [|e0 r0].
        + right; left. apply NEcur; auto.
        + right; right. exists e0. replace (t + 1 - 1) with t by lia. rewrite H1.
          apply in_or_app. right. simpl. auto.
      - rewrite map_app, O1. red_st. rewrite (l_occlog _ L). simpl. fold t.
        rewrite zrange_succ; auto. apply (l_iter _ L).
      - intros t' o Io. apply in_app_or in Io. rewrite O1 in Io. red_st.
        destruct Io as [Io|[Io|[]]].
        + apply (l_occchar _ L); auto.
        + inversion Io; subst t' o. intros s y. rewrite <- O2. apply occ_char with (q := queue st1); auto. }
    destruct (Simulator_recompute_cond (iter st1) (last_upd st1) (resolve st1) maxrec) eqn:RC.
    - destruct (num_view (iter st1) (occ st1) (num st1)) as [v|e] eqn:NV.
      2:{ right. do 2 eexists. cbn [bindS]. split; [reflexivity|]. left. eauto. }
      destruct (num_apply (iter st1) (num st1) (sched v)) as [n|e] eqn:NA.
      2:{ right. do 2 eexists. cbn [bindS]. split; [reflexivity|]. right; left. eauto. }
      cbn [bindS]. apply TAIL; red_st; auto.
    - cbn [bindS]. apply TAIL; auto.
      rewrite recompute_cond_spec in RC. apply orb_false_iff in RC. destruct RC as (RC & _). exact RC.
  Qed.

  (* ---- termination with the fuel computed from the input -------------------------------- *)
  Lemma run_inv : forall fuel (st : state),
    LoopInv st -> max_ts evs + 2 - iter st <= Z.of_nat fuel ->
    (exists st', run fuel st = Done st' /\ LoopInv st' /\ loop_guard st' = false) \/
    (exists e st', run fuel st = Raised e st' /\ num_err e).
  Proof.
    induction fuel as [|f IH]; intros st L B.
    - pose proof (loop_inv_bound _ L). simpl in B. lia.
    - simpl. destruct (loop_guard st) eqn:G.
      + destruct (step_inv st L G) as [(st' & S & L' & It')|(e & st' & S & NE)].
        * rewrite S. apply IH; auto. lia.
        * rewrite S. right. eauto.
      + left. eauto.
  Qed.

  Lemma final_props (st : state) :
    LoopInv st -> loop_guard st = false ->
    queue st = [] /\ occ st = [] /\
    (forall x, In x sessions ->
       cnt (fun p => is_plug (skey x) (snd p)) (hist st) = 1%nat /\
       cnt (fun p => is_unpl (skey x) (snd p)) (hist st) = 1%nat /\
       In (s_arrival x, EPlugin (s_arrival x) x) (hist st) /\
       In (s_departure x, EUnplug (s_departure x) x) (hist st)) /\
    iter st = 1 + last_ts (hist st).
  Proof.
    intros L G. rewrite guard_queue in G by auto.
    assert (Q : queue st = []) by (destruct (queue st); [auto|discriminate]).
    pose proof (l_inv _ L) as I. rewrite Q in I.
    split; auto. split.
    { apply occ_all_none_nil. intro s. destruct (occ_get s (occ st)) as [y|] eqn:E; auto.
      destruct (i_occ1 _ _ _ I _ _ E) as (_ & _ & C). rewrite cnt_nil in C. discriminate. }
    split.
    { intros x Ix. pose proof (i_cons1 _ _ _ I x Ix) as C1. pose proof (i_cons2 _ _ _ I x Ix) as C2.
      rewrite cnt_nil in *.
      assert (P1 : (cnt (is_plug (skey x)) (map snd (hist st)) > 0)%nat) by lia.
      assert (P2 : (cnt (is_unpl (skey x)) (map snd (hist st)) > 0)%nat) by lia.
      destruct (processed_plugin _ _ _ x I Ix P1). destruct (processed_unplug _ _ _ x I Ix P2).
      rewrite (cnt_map snd (is_plug (skey x))) in *. rewrite (cnt_map snd (is_unpl (skey x))) in *.
      repeat split; auto; lia. }
    destruct (l_last _ L) as [(E & H)|[NQ|(e & Ie)]].
    - rewrite E, H. reflexivity.
    - congruence.
    - rewrite (last_ts_max (hist st) (iter st - 1)); [lia| | |pose proof (l_iter _ L); lia].
      + exists (iter st - 1, e). split; auto. simpl.
        destruct (i_good_h _ _ _ I _ _ Ie) as (_ & E & _). auto.
      + intros (u, a) Ia. simpl. destruct (i_good_h _ _ _ I _ _ Ia) as (_ & E & Lu). lia.
  Qed.

  (* nothing is lost: every given event, and the unplug of every given session, is in event_history *)
  Lemma final_all_processed (st : state) :
    LoopInv st -> loop_guard st = false ->
    (forall e, In e evs -> In (ev_ts e, e) (hist st)) /\
    (forall x, In x sessions -> In (s_departure x, EUnplug (s_departure x) x) (hist st)) /\
    (forall u e, In (u, e) (hist st) -> good e /\ u = ev_ts e).
  Proof.
    intros L G. destruct (final_props st L G) as (Q & _ & FP & _).
    pose proof (l_inv _ L) as I. rewrite Q in I.
    split; [|split].
    - assert (NS : forall e0, In e0 evs -> ev_session e0 = None -> In (ev_ts e0, e0) (hist st)).
      { intros e0 Ie NSe. pose proof (i_cons3 _ _ _ I e0) as C. rewrite cnt_nil in C.
        assert (P : (cnt (is_rec e0) evs > 0)%nat) by (eapply cnt_in_pos; eauto; apply is_rec_refl; auto).
        assert (P' : (cnt (is_rec e0) (map snd (hist st)) > 0)%nat) by lia.
        apply cnt_pos_ex in P'. destruct P' as (e & Ie' & Ee).
        apply in_map_iff in Ie'. destruct Ie' as ((u & e') & E' & Ie'). simpl in E'. subst e'.
        apply is_rec_eq in Ee. destruct Ee as (-> & _).
        destruct (i_good_h _ _ _ I _ _ Ie') as (_ & -> & _). exact Ie'. }
      intros e Ie. pose proof (valid_in _ Ie) as Ve. destruct e as [ts x|ts x|ts|ts p c]; simpl in Ve.
      + destruct Ve as (-> & _). simpl.
        assert (Ix : In x sessions) by (apply in_sessions_of; eauto).
        destruct (FP x Ix) as (_ & _ & H & _). exact H.
      + contradiction.
      + apply NS; auto.
      + apply NS; auto.
    - intros x Ix. destruct (FP x Ix) as (_ & _ & _ & H). exact H.
    - intros u e Ie. destruct (i_good_h _ _ _ I _ _ Ie) as (A & B & _). auto.
  Qed.

  (* ... hence the run ends one period after the largest timestamp / departure of the input *)
  Lemma final_iter_input (st : state) :
    LoopInv st -> loop_guard st = false -> evs <> [] -> iter st = max_ts evs + 1.
  Proof.
    intros L G NE. destruct (final_props st L G) as (_ & _ & _ & FI).
    destruct (final_all_processed st L G) as (AP & UP & GH).
    rewrite FI. rewrite (last_ts_max (hist st) (max_ts evs)); [lia| | |pose proof (max_ts_nonneg evs); lia].
    - destruct (max_ts_attained evs NE) as (e & Ie & Ee).
      { intros e Ie. pose proof (valid_in _ Ie) as Ve. destruct e; simpl in *; lia. }
      pose proof (valid_in _ Ie) as Ve. destruct e as [ts x|ts x|ts|ts p c]; simpl in Ve, Ee.
      + destruct Ve as (-> & _ & R).
        assert (Ix : In x sessions) by (apply in_sessions_of; eauto).
        exists (s_departure x, EUnplug (s_departure x) x). split; [apply UP; auto|]. simpl. lia.
      + contradiction.
      + exists (ts, ERecompute ts). split; [apply (AP _ Ie)|]. simpl. lia.
      + exists (ts, EOther ts p c). split; [apply (AP _ Ie)|]. simpl. lia.
    - intros (u, e) Ie. simpl. destruct (GH _ _ Ie) as (Ge & _). pose proof (good_bounds _ Ge). lia.
  Qed.

  (* ---- C01, assembled -------------------------------------------------------------------- *)
  Lemma c01_run n0 :
    (exists st, run (fuel_of evs) (init N V evs n0) = Done st /\ LoopInv st /\ loop_guard st = false) \/
    (exists e st, run (fuel_of evs) (init N V evs n0) = Raised e st /\ num_err e).
  Proof.
    apply run_inv; [apply init_inv|]. unfold fuel_of. simpl iter.
    pose proof (max_ts_nonneg evs). rewrite Z2Nat.id; lia.
  Qed.

  Lemma c01_trichotomy n0 :
    match run (fuel_of evs) (init N V evs n0) with
    | Done st => queue st = [] /\ occ st = []
    | Raised e _ => num_err e
    | OutOfFuel _ => False
    end.
  Proof.
    destruct (c01_run n0) as [(st & R & L & G)|(e & st & R & NE)]; rewrite R; auto.
    destruct (final_props st L G) as (A & B & _). auto.
  Qed.

  Lemma c01_terminates n0 : (forall e, ~ num_err e) ->
    exists st, run (fuel_of evs) (init N V evs n0) = Done st /\ queue st = [] /\ occ st = [].
  Proof.
    intro NR. destruct (c01_run n0) as [(st & R & L & G)|(e & st & R & NE)].
    - destruct (final_props st L G) as (A & B & _). eauto.
    - destruct (NR e NE).
  Qed.

  Lemma c01_done_inv n0 st :
    run (fuel_of evs) (init N V evs n0) = Done st -> LoopInv st /\ loop_guard st = false.
  Proof.
    intro R. destruct (c01_run n0) as [(st' & R' & L & G)|(e & st' & R' & NE)]; rewrite R in R'.
    - inversion R'; subst. auto.
    - discriminate.
  Qed.

  Lemma c01_once n0 st : run (fuel_of evs) (init N V evs n0) = Done st ->
    forall x, In x sessions ->
      cnt (fun p => is_plug (skey x) (snd p)) (hist st) = 1%nat /\
      cnt (fun p => is_unpl (skey x) (snd p)) (hist st) = 1%nat /\
      In (s_arrival x, EPlugin (s_arrival x) x) (hist st) /\
      In (s_departure x, EUnplug (s_departure x) x) (hist st).
  Proof.
    intro R. destruct (c01_done_inv _ _ R) as (L & G).
    destruct (final_props st L G) as (_ & _ & H & _). exact H.
  Qed.

  Lemma c01_order n0 st : run (fuel_of evs) (init N V evs n0) = Done st ->
    sorted (map snd (hist st)) /\ (forall u e, In (u, e) (hist st) -> u = ev_ts e).
  Proof.
    intro R. destruct (c01_done_inv _ _ R) as (L & G). split; [apply (l_hsorted _ L)|].
    intros u e I. destruct (i_good_h _ _ _ (l_inv _ L) _ _ I) as (_ & E & _). exact E.
  Qed.

  Lemma c01_connected n0 st : run (fuel_of evs) (init N V evs n0) = Done st ->
    map fst (occ_log st) = zrange (iter st) /\
    forall t o, In (t, o) (occ_log st) -> forall s y,
      occ_get s o = Some y <-> In y sessions /\ s_station y = s /\ s_arrival y <= t < s_departure y.
  Proof.
    intro R. destruct (c01_done_inv _ _ R) as (L & G). split; [apply (l_occlog _ L)|apply (l_occchar _ L)].
  Qed.

  Lemma c01_final_iter n0 st : run (fuel_of evs) (init N V evs n0) = Done st ->
    iter st = 1 + last_ts (hist st) /\ (evs <> [] -> iter st = max_ts evs + 1).
  Proof.
    intro R. destruct (c01_done_inv _ _ R) as (L & G).
    destruct (final_props st L G) as (_ & _ & _ & H). split; [exact H|].
    apply final_iter_input; auto.
  Qed.

  Lemma c01_all_processed n0 st : run (fuel_of evs) (init N V evs n0) = Done st ->
    (forall e, In e evs -> In (ev_ts e, e) (hist st)) /\
    (forall x, In x sessions -> In (s_departure x, EUnplug (s_departure x) x) (hist st)) /\
    (forall u e, In (u, e) (hist st) -> good e /\ u = ev_ts e).
  Proof. intro R. destruct (c01_done_inv _ _ R) as (L & G). apply final_all_processed; auto. Qed.
End C01.

(* ========================================================================================== *)
(* Part 3: when the scheduler is invoked — arbitrary event lists (C05)                        *)
(* ========================================================================================== *)
Definition last_opt {A} (l : list A) : option A := fold_left (fun _ a => Some a) l None.
Lemma last_opt_snoc {A} (l : list A) a : last_opt (l ++ [a]) = Some a.
Proof. unfold last_opt. rewrite fold_left_app. reflexivity. Qed.

(* the most recent invocation strictly before period t *)
Definition prev_call (cs : list Z) (t : Z) : option Z := last_opt (filter (fun c => c <? t) cs).

Lemma filter_all {A} (f : A -> bool) l : (forall a, In a l -> f a = true) -> filter f l = l.
Proof.
  induction l as [|a r IH]; simpl; intros H; auto.
  rewrite H by auto. f_equal. apply IH. intros; apply H; auto.
Qed.

Section C05.
  Variables N V Sch : Type.
  Variable stations : list Z.
  Variable maxrec : option Z.
  Variable num_view : Z -> occupancy -> N -> res V.
  Variable num_apply : Z -> N -> Sch -> res N.
  Variable num_charge : Z -> occupancy -> N -> res N.
  Variable num_store : Z -> occupancy -> N -> N.
  Variable sched : V -> Sch.

  Notation state := (state N V).
  Notation mkState := (mkState N V).
  Notation process_event := (process_event N V stations).
  Notation process_all := (process_all N V stations).
  Notation events_phase := (events_phase N V stations).
  Notation sched_phase := (sched_phase N V Sch maxrec num_view num_apply sched).
  Notation tail_phase := (tail_phase N V num_charge num_store).
  Notation step := (step N V Sch stations maxrec num_view num_apply num_charge num_store sched).
  Notation run := (run N V Sch stations maxrec num_view num_apply num_charge num_store sched).
  Notation loop_guard := (loop_guard N V).

  Ltac red_st := cbn [iter hist resolve last_upd calls occ_log num queue occ ev_hist log_event set_queue
                       set_occ set_flags set_num set_iter log_call log_occ set_ev_hist] in *.

  (* loop-head states reachable from s0 *)
  Inductive reach (s0 : state) : state -> Prop :=
  | reach_init : reach s0 s0
  | reach_step st st' : reach s0 st -> loop_guard st = true -> step st = OkS st' -> reach s0 st'.

  Lemma run_reach (s0 : state) : forall fuel st0 st,
    reach s0 st0 -> run fuel st0 = Done st -> reach s0 st /\ loop_guard st = false.
  Proof.
    induction fuel as [|f IH]; simpl; intros st0 st R H; [discriminate|].
    destruct (loop_guard st0) eqn:G.
    - destruct (step st0) as [st1|e st1] eqn:S; [|discriminate].
      apply IH with (st0 := st1); auto. eapply reach_step; eauto.
    - inversion H; subst. auto.
  Qed.

  (* an event the simulator dispatches on (Plugin / Unplug / Recompute) sets _resolve; any other queue
     entry changes neither _resolve nor _last_schedule_update; the logs are left alone *)
  Lemma process_event_facts (st st' : state) e :
    process_event st e = OkS st' ->
    iter st' = iter st /\ hist st' = hist st /\ calls st' = calls st /\
    (resolving e = true -> resolve st' = true) /\
    (resolving e = false -> resolve st' = resolve st /\ last_upd st' = last_upd st).
  Proof.
    destruct e as [ts x|ts x|ts|ts p c].
    - rewrite process_plugin_eq. destruct (net_plugin stations x (occ st)); intro H; inversion H; subst.
      red_st. repeat split; auto; discriminate.
    - rewrite process_unplug_eq. destruct (net_unplug stations (s_station x) (sid x) (occ st));
        intro H; inversion H; subst. red_st. repeat split; auto; discriminate.
    - rewrite process_recompute_eq. intro H; inversion H; subst. red_st. repeat split; auto; discriminate.
    - unfold SimSkel.process_event, Simulator_process_event, resolving. cbn [ev_session ev_code ev_ts].
      destruct (c =? 0) eqn:E0; [cbn; discriminate|].
      destruct (c =? 1) eqn:E1; [cbn; discriminate|].
      destruct (c =? 2) eqn:E2; cbn; intro H; inversion H; subst; red_st; repeat split; auto; discriminate.
  Qed.

  Lemma process_all_facts cur : forall (st st' : state),
    process_all cur st = OkS st' ->
    iter st' = iter st /\ hist st' = hist st ++ map (pair (iter st)) cur /\ calls st' = calls st /\
    (existsb resolving cur = true -> resolve st' = true) /\
    (existsb resolving cur = false -> resolve st' = resolve st /\ last_upd st' = last_upd st).
  Proof.
    induction cur as [|e r IH]; simpl; intros st st' H.
    - inversion H; subst. rewrite app_nil_r. repeat split; auto; discriminate.
    - destruct (process_event (log_event N V st e) e) as [st1|ex st1] eqn:P; [|discriminate].
      destruct (process_event_facts _ _ _ P) as (A & B & C & D & E). red_st.
      destruct (IH _ _ H) as (A' & B' & C' & D' & E').
      split; [congruence|]. split; [rewrite B', B, A, <- app_assoc; reflexivity|].
      split; [congruence|].
      destruct (existsb resolving r) eqn:Er.
      + rewrite orb_true_r. split; [intros _; apply D'; reflexivity|discriminate].
      + rewrite orb_false_r. destruct (E' eq_refl) as (E1 & E2). split.
        * intro R. rewrite E1. apply D; auto.
        * intro R. destruct (E R) as (F1 & F2). split; congruence.
  Qed.

  Lemma events_phase_facts (st st1 : state) :
    events_phase st = OkS st1 ->
    exists cur, iter st1 = iter st /\ hist st1 = hist st ++ map (pair (iter st)) cur /\
      calls st1 = calls st /\ (existsb resolving cur = true -> resolve st1 = true) /\
      (existsb resolving cur = false -> resolve st1 = resolve st /\ last_upd st1 = last_upd st).
  Proof.
    unfold SimSkel.events_phase. destruct (q_pop_current (iter st) (queue st)) as [cur rest].
    intro H. destruct (process_all_facts _ _ _ H) as (A & B & C & D & E). red_st.
    exists cur. split; auto.
  Qed.

  (* invariant at the head of the loop, for ANY event list *)
  Definition invoked_spec (cs : list Z) (h : list (Z * event)) (t : Z) : Prop :=
    In t cs <->
    (exists e, In (t, e) h /\ resolving e = true) \/
    (exists k, maxrec = Some k /\
               match prev_call cs t with None => True | Some l => k <= t - l end).

  Record CInv (s0 st : state) : Prop := {
    c_iter : 0 <= iter st;
    c_res : resolve st = false;
    c_last : last_upd st = last_opt (map fst (calls st));
    c_lt : forall t, In t (map fst (calls st)) -> 0 <= t < iter st;
    c_incr : StronglySorted Z.lt (map fst (calls st));
    c_hlt : forall u e, In (u, e) (hist st) -> 0 <= u < iter st;
    c_iff : forall t, 0 <= t < iter st -> invoked_spec (map fst (calls st)) (hist st) t;
    c_origin : forall t v, In (t, v) (calls st) ->
        exists s s1, reach s0 s /\ iter s = t /\ loop_guard s = true /\ events_phase s = OkS s1 /\
          Simulator_recompute_cond t (last_upd s1) (resolve s1) maxrec = true /\
          num_view t (occ s1) (num s1) = Ok v /\
          (forall e, In (t, e) (hist st) <-> In (t, e) (hist s1)) }.

  Lemma sorted_lt_snoc l t : StronglySorted Z.lt l -> (forall a, In a l -> a < t) -> StronglySorted Z.lt (l ++ [t]).
  Proof.
    induction 1 as [|h r Hs IH Hf]; simpl; intros K.
    - constructor; constructor.
    - constructor; [apply IH; intros; apply K; auto|].
      apply Forall_app. split; auto.
  Qed.

  Lemma prev_call_stable cs t t' : t' <= t -> prev_call (cs ++ [t]) t' = prev_call cs t'.
  Proof.
    intro L. unfold prev_call. rewrite filter_app. simpl.
    destruct (t <? t') eqn:E; [apply Z.ltb_lt in E; lia|]. rewrite app_nil_r. reflexivity.
  Qed.
  Lemma prev_call_all cs t : (forall a, In a cs -> a < t) -> prev_call cs t = last_opt cs.
  Proof.
    intro H. unfold prev_call. rewrite filter_all; auto. intros a Ia. apply Z.ltb_lt; auto.
  Qed.

  Lemma cinv_step (s0 st st' : state) :
    reach s0 st -> CInv s0 st -> loop_guard st = true -> step st = OkS st' ->
    CInv s0 st' /\ iter st' = iter st + 1.
  Proof.
    intros RS C G S. set (t := iter st).
    unfold SimSkel.step in S.
    destruct (events_phase st) as [st1|e1 st1] eqn:EP; [|discriminate]. cbn [bindS] in S.
    destruct (events_phase_facts _ _ EP) as (cur & It1 & H1 & C1 & R1 & E1).
    fold t in It1, H1. rewrite sched_phase_eq in S.
    (* the state after the scheduling block: st2 *)
    assert (exists (st2 : state) (called : bool), tail_phase st2 = OkS st' /\ iter st2 = t /\ hist st2 = hist st1 /\
              resolve st2 = false /\
              calls st2 = calls st ++ (if called then
                 match num_view t (occ st1) (num st1) with Ok v => [(t, v)] | Err _ => [] end else []) /\
              (called = true -> exists v, num_view t (occ st1) (num st1) = Ok v) /\
              called = Simulator_recompute_cond t (last_upd st1) (resolve st1) maxrec /\
              last_upd st2 = if called then Some t else last_upd st1) as (st2 & called & TP & It2 & H2 & R2 & C2 & CV & CC & L2).
    { rewrite It1 in S. fold t in S.
      destruct (Simulator_recompute_cond t (last_upd st1) (resolve st1) maxrec) eqn:RC.
      - destruct (num_view t (occ st1) (num st1)) as [v|e] eqn:NV; [|discriminate].
        destruct (num_apply t (num st1) (sched v)) as [n|e] eqn:NA; [|discriminate].
        cbn [bindS] in S. eexists. exists true. split; [exact S|]. red_st. rewrite C1.
        repeat split; eauto.
      - cbn [bindS] in S. exists st1, false. split; [exact S|]. rewrite app_nil_r.
        rewrite recompute_cond_spec in RC. apply orb_false_iff in RC. destruct RC as (RC & _).
        repeat split; auto. intro; discriminate. }
    rewrite tail_phase_eq in TP.
    destruct (num_charge (iter st2) (occ st2) (num st2)) as [n|e]; [|discriminate].
    inversion TP; subst st'; clear TP. red_st. split; [|rewrite It2; reflexivity].
    assert (Hcur : existsb resolving cur = true -> called = true).
    { intro NE. rewrite CC, recompute_cond_spec, (R1 NE). reflexivity. }
    assert (Hold : forall a, In a (map fst (calls st)) -> a < t).
    { intros a Ia. apply (c_lt _ _ C) in Ia. fold t in Ia. lia. }
    assert (Hcalls : map fst (calls st2) = map fst (calls st) ++ (if called then [t] else [])).
    { rewrite C2, map_app. f_equal. destruct called; auto.
      destruct (CV eq_refl) as (v & ->). reflexivity. }
    constructor; red_st; rewrite ?It2, ?H2, ?R2.
    - pose proof (c_iter _ _ C). fold t in H. lia.
    - reflexivity.
    - rewrite L2, Hcalls. destruct called.
      + rewrite last_opt_snoc. reflexivity.
      + rewrite app_nil_r. destruct (existsb resolving cur) eqn:Ex.
        * discriminate (Hcur eq_refl).
        * destruct (E1 eq_refl) as (_ & ->). apply (c_last _ _ C).
    - intros a Ia. rewrite Hcalls in Ia. apply in_app_or in Ia. pose proof (c_iter _ _ C). fold t in H.
      destruct Ia as [Ia|Ia].
      + apply (c_lt _ _ C) in Ia. fold t in Ia. lia.
      + destruct called; simpl in Ia; [|contradiction]. destruct Ia as [<-|[]]. lia.
    - rewrite Hcalls. destruct called; [|rewrite app_nil_r; apply (c_incr _ _ C)].
      apply sorted_lt_snoc; [apply (c_incr _ _ C)|exact Hold].
    - intros u e Ie. rewrite H1 in Ie. apply in_app_or in Ie. pose proof (c_iter _ _ C). fold t in H.
      destruct Ie as [Ie|Ie].
      + apply (c_hlt _ _ C) in Ie. fold t in Ie. lia.
      + apply in_map_iff in Ie. destruct Ie as (a & Ea & _). inversion Ea; subst. lia.
    - intros t' Ht'. unfold invoked_spec. rewrite Hcalls, H1.
      destruct (Z.eq_dec t' t) as [->|Dt].
      + (* the period that has just been executed *)
        assert (P1 : In t (map fst (calls st) ++ (if called then [t] else [])) <-> called = true).
        { split.
          - intro I. apply in_app_or in I. destruct I as [I|I].
            + apply Hold in I. lia.
            + destruct called; [reflexivity|destruct I].
          - intros ->. apply in_or_app. right. simpl. auto. }
        assert (P2 : (exists e, In (t, e) (hist st ++ map (pair t) cur) /\ resolving e = true)
                     <-> existsb resolving cur = true).
        { rewrite existsb_exists. split.
          - intros (e & I & R). apply in_app_or in I. destruct I as [I|I].
            + apply (c_hlt _ _ C) in I. fold t in I. lia.
            + apply in_map_iff in I. destruct I as (a & Ea & Ia). inversion Ea; subst. eauto.
          - intros (e & Ie & R). exists e. split; auto. apply in_or_app. right. apply in_map; auto. }
        assert (P3 : prev_call (map fst (calls st) ++ (if called then [t] else [])) t
                     = last_opt (map fst (calls st))).
        { destruct called.
          - rewrite prev_call_stable by lia. apply prev_call_all. exact Hold.
          - rewrite app_nil_r. apply prev_call_all. exact Hold. }
        rewrite P1, P2, P3.
        destruct (existsb resolving cur) eqn:Ex.
        2:{ destruct (E1 eq_refl) as (Er & El). rewrite CC, recompute_cond_spec, Er, El, (c_res _ _ C), (c_last _ _ C).
          simpl orb. split.
          -- intro H. right. destruct maxrec as [k|]; [|discriminate]. exists k. split; auto.
             destruct (last_opt (map fst (calls st))); auto. apply Z.leb_le; auto.
          -- intros [H|(k & -> & H)]; [congruence|].
             destruct (last_opt (map fst (calls st))); auto. apply Z.leb_le; auto. }
        split; [intros _; left; reflexivity|intros _; apply Hcur; reflexivity].
      + (* an earlier period: nothing changes *)
        assert (Lt' : 0 <= t' < t) by lia.
        pose proof (c_iff _ _ C t' Lt') as Old. unfold invoked_spec in Old.
        assert (Q1 : In t' (map fst (calls st) ++ (if called then [t] else [])) <-> In t' (map fst (calls st))).
        { split; [|intro; apply in_or_app; auto]. intro I. apply in_app_or in I. destruct I as [I|I]; auto.
          destruct called; simpl in I; [destruct I as [I|[]]; congruence|contradiction]. }
        assert (Q2 : (exists e, In (t', e) (hist st ++ map (pair t) cur) /\ resolving e = true)
                     <-> exists e, In (t', e) (hist st) /\ resolving e = true).
        { split; intros (e & I & R); exists e; (split; [|exact R]); [|apply in_or_app; auto].
          apply in_app_or in I. destruct I as [I|I]; auto.
          apply in_map_iff in I. destruct I as (a & Ea & _). inversion Ea; congruence. }
        assert (Q3 : prev_call (map fst (calls st) ++ (if called then [t] else [])) t'
                     = prev_call (map fst (calls st)) t').
        { destruct called; [apply prev_call_stable; lia|rewrite app_nil_r; reflexivity]. }
        rewrite Q1, Q2, Q3. exact Old.
    - intros t' v Iv. rewrite C2 in Iv. apply in_app_or in Iv. destruct Iv as [Iv|Iv].
      + destruct (c_origin _ _ C _ _ Iv) as (s & s1 & A1 & A2 & A3 & A4 & A5 & A6 & A7).
        exists s, s1. repeat split; auto.
        * intro I. apply A7. rewrite H1 in I. apply in_app_or in I. destruct I as [I|I]; auto.
          apply in_map_iff in I. destruct I as (a & Ea & _). inversion Ea as [[Et Ee]].
          assert (Hin : In t' (map fst (calls st))) by (apply in_map_iff; exists (t', v); auto).
          apply Hold in Hin. lia.
        * intro I. rewrite H1. apply in_or_app. left. apply A7; auto.
      + destruct called; [|destruct Iv].
        destruct (num_view t (occ st1) (num st1)) as [v0|] eqn:NV; [|destruct Iv].
        destruct Iv as [Iv|[]]. inversion Iv; subst t' v0.
        exists st, st1. repeat split; auto; try tauto.
  Qed.

  Lemma cinv_init evs n0 : CInv (init N V evs n0) (init N V evs n0).
  Proof.
    unfold init. constructor; red_st; simpl; try reflexivity; try lia; try (intros; contradiction).
    constructor.
  Qed.

  Lemma cinv_reach (s0 st : state) : CInv s0 s0 -> reach s0 st -> CInv s0 st.
  Proof.
    intros C0 R. induction R; auto.
    eapply cinv_step; eauto.
  Qed.

  Lemma c05_done evs n0 fuel st :
    run fuel (init N V evs n0) = Done st -> CInv (init N V evs n0) st.
  Proof.
    intro R. destruct (run_reach _ _ _ _ (reach_init _) R) as (RS & _).
    apply cinv_reach; auto. apply cinv_init.
  Qed.

  (* isolation: one iteration, written so that the scheduler only appears as `sched v` *)
  Lemma step_isolated (st : state) :
    step st =
    bindS N V (events_phase st) (fun s1 =>
      if Simulator_recompute_cond (iter s1) (last_upd s1) (resolve s1) maxrec then
        match num_view (iter s1) (occ s1) (num s1) with
        | Err e => ErrS e (before_schedule N V s1)
        | Ok v => bindS N V (apply_schedule N V Sch num_apply (before_schedule N V s1) v (sched v)) tail_phase
        end
      else tail_phase s1).
  Proof.
    unfold SimSkel.step. destruct (events_phase st) as [s1|e s1]; cbn [bindS]; [|reflexivity].
    unfold SimSkel.sched_phase.
    destruct (Simulator_recompute_cond (iter s1) (last_upd s1) (resolve s1) maxrec); [|reflexivity].
    rewrite before_schedule_eq. cbn [iter occ num set_flags].
    destruct (num_view (iter s1) (occ s1) (num s1)); reflexivity.
  Qed.
End C05.

(* two schedulers that return the same schedule for every view that is actually shown drive the
   simulator through the same states *)
Lemma run_ext (N V Sch : Type) stations maxrec num_view num_apply num_charge num_store
      (sched1 sched2 : V -> Sch) :
  (forall v, sched1 v = sched2 v) ->
  forall fuel st,
    run N V Sch stations maxrec num_view num_apply num_charge num_store sched1 fuel st =
    run N V Sch stations maxrec num_view num_apply num_charge num_store sched2 fuel st.
Proof.
  intros E. induction fuel as [|f IH]; intro st; simpl; auto.
  destruct (loop_guard N V st); auto.
  rewrite !step_isolated.
  destruct (events_phase N V stations st) as [s1|e s1]; cbn [bindS]; auto.
  destruct (Simulator_recompute_cond (iter s1) (last_upd s1) (resolve s1) maxrec).
  - destruct (num_view (iter s1) (occ s1) (num s1)); auto. rewrite E.
    destruct (bindS _ _ _ _); auto.
  - destruct (tail_phase _ _ _ _ s1); auto.
Qed.

(* ========================================================================================== *)
(* Part 4: valid inputs — what is connected when the scheduler is invoked (C01 + C05)         *)
(* ========================================================================================== *)
Section ValidCalls.
  Variables N V Sch : Type.
  Variable stations : list Z.
  Variable maxrec : option Z.
  Variable num_view : Z -> occupancy -> N -> res V.
  Variable num_apply : Z -> N -> Sch -> res N.
  Variable num_charge : Z -> occupancy -> N -> res N.
  Variable num_store : Z -> occupancy -> N -> N.
  Variable sched : V -> Sch.
  Variable evs : list event.
  Hypothesis VALID : valid stations evs.
  Notation state := (state N V).
  Notation run := (run N V Sch stations maxrec num_view num_apply num_charge num_store sched).
  Notation reach := (reach N V Sch stations maxrec num_view num_apply num_charge num_store sched).
  Notation step := (step N V Sch stations maxrec num_view num_apply num_charge num_store sched).

  Lemma reach_loopinv n0 (st : state) :
    reach (init N V evs n0) st -> LoopInv N V evs st.
  Proof.
    induction 1 as [|st st' R IH G S].
    - apply init_inv with (stations := stations); auto.
    - destruct (step_inv N V Sch stations maxrec num_view num_apply num_charge num_store sched evs VALID st IH G)
        as [(st2 & S2 & L2 & _)|(e & st2 & S2 & _)]; rewrite S in S2.
      + inversion S2; subst. exact L2.
      + discriminate.
  Qed.

  (* every scheduler invocation of a completed run was shown the view of a state in which exactly
     the sessions with arrival <= t < departure are connected *)
  Lemma call_occupancy n0 fuel (st : state) :
    run fuel (init N V evs n0) = Done st ->
    forall t v, In (t, v) (calls st) ->
    exists s1 : state,
      num_view t (occ s1) (num s1) = Ok v /\ iter s1 = t /\
      (forall e, In (t, e) (hist st) <-> In (t, e) (hist s1)) /\
      forall s y, occ_get s (occ s1) = Some y <->
                  In y (sessions_of evs) /\ s_station y = s /\ s_arrival y <= t < s_departure y.
  Proof.
    intros R t v Iv.
    pose proof (c05_done N V Sch stations maxrec num_view num_apply num_charge num_store sched evs n0 fuel st R) as C.
    destruct (c_origin _ _ _ _ _ _ _ _ _ _ _ _ C t v Iv) as (s & s1 & RS & It & G & EP & RC & NV & HH).
    pose proof (reach_loopinv n0 s RS) as L.
    destruct (events_phase_inv N V stations evs VALID s L) as (s1' & EP' & I1 & It1 & G1).
    rewrite EP in EP'. inversion EP'; subst s1'.
    exists s1. split; [exact NV|]. split; [congruence|]. split; [exact HH|].
    intros s0 y. rewrite It in *. eapply occ_char; eauto.
  Qed.
  (* "an event occurred in period t", in terms of the input *)
  Definition occurs_at (t : Z) : Prop :=
    (exists e, In e evs /\ ev_ts e = t /\ resolving e = true) \/
    (exists x, In x (sessions_of evs) /\ s_departure x = t).

  Lemma invoked_iff_valid n0 (st : state) :
    run (fuel_of evs) (init N V evs n0) = Done st ->
    forall t, 0 <= t < iter st ->
      (In t (map fst (calls st)) <->
       occurs_at t \/
       (exists k, maxrec = Some k /\
                  match prev_call (map fst (calls st)) t with None => True | Some l => k <= t - l end)).
  Proof.
    intros R t Ht.
    pose proof (c05_done N V Sch stations maxrec num_view num_apply num_charge num_store sched evs n0 _ st R) as C.
    pose proof (c_iff _ _ _ _ _ _ _ _ _ _ _ _ C t Ht) as IFF. unfold invoked_spec in IFF.
    destruct (c01_all_processed N V Sch stations maxrec num_view num_apply num_charge num_store sched evs VALID n0 st R)
      as (AP & UP & GH).
    assert (E : (exists e, In (t, e) (hist st) /\ resolving e = true) <-> occurs_at t).
    { unfold occurs_at. split.
      - intros (e & Ie & Re). destruct (GH _ _ Ie) as (Ge & Et).
        destruct e as [ts x|ts x|ts|ts p c]; simpl in Ge, Et.
        + left. exists (EPlugin ts x). auto.
        + right. destruct Ge as (Ix & ->). exists x. auto.
        + left. exists (ERecompute ts). auto.
        + left. exists (EOther ts p c). auto.
      - intros [(e & Ie & <- & Re)|(x & Ix & <-)].
        + exists e. split; [apply AP; auto|exact Re].
        + exists (EUnplug (s_departure x) x). split; [apply UP; auto|reflexivity]. }
    rewrite <- E. exact IFF.
  Qed.
End ValidCalls.
