(* Proofs/AnalysisStruct.v — the carrier-independent part of C18: which constraints are returned by
   constraint_currents, under which names, and from which rows -- for ANY numeric carrier (so also for
   the exact-rational executable twin).  No arithmetic, hence no axioms. *)
From Coq Require Import ZArith List Bool Lia.
From ACN Require Import Base.Num Base.ListX Model.Ledger Model.Analysis.
Import ListNotations.

(* ------------------------------------------------------------------------------------------ *)
(* python dict built from a list of items                                                       *)
(* ------------------------------------------------------------------------------------------ *)
Lemma dict_set_fresh {V} k (v : V) d : ~ In k (map fst d) -> dict_set k v d = d ++ [(k, v)].
Proof.
  induction d as [|[k' v'] d IH]; cbn; intro H; [reflexivity|].
  destruct (Z.eqb_spec k k') as [->|Hne]; [exfalso; apply H; now left|].
  rewrite IH; auto.
Qed.

Lemma fold_dict_set_nodup {V} (l : list (Z * V)) : forall acc,
  NoDup (map fst (acc ++ l)) ->
  fold_left (fun d kv => dict_set (fst kv) (snd kv) d) l acc = acc ++ l.
Proof.
  induction l as [|[k v] l IH]; intros acc H; cbn [fold_left]; [now rewrite app_nil_r|].
  cbn [fst snd]. rewrite dict_set_fresh.
  - rewrite IH; rewrite <- app_assoc; cbn; auto.
  - rewrite map_app in H. cbn in H. apply NoDup_remove_2 in H.
    intro Hin. apply H. apply in_or_app. now left.
Qed.

Lemma dict_of_nodup {V} (l : list (Z * V)) : NoDup (map fst l) -> dict_of l = l.
Proof. intro H. unfold dict_of. now rewrite fold_dict_set_nodup. Qed.

(* ------------------------------------------------------------------------------------------ *)
(* selection of the requested constraints                                                       *)
(* ------------------------------------------------------------------------------------------ *)
Section Select.
  Variable V : Type.
  Variable F : Type.
  Variable G : list F -> V.
  Variable req : Z -> bool.

  Definition sel_items (cindex : list Z) (cmat : list (list F)) : list (Z * V) :=
    map (fun p => (fst p, G (snd p))) (filter (fun p => req (fst p)) (combine cindex cmat)).

  Lemma sel_items_keys cindex : forall cmat, length cmat = length cindex ->
    map fst (sel_items cindex cmat) = filter req cindex.
  Proof.
    unfold sel_items. induction cindex as [|c ci IH]; intros [|r cm] H; cbn in *; try discriminate; auto.
    destruct (req c); cbn; rewrite IH by lia; reflexivity.
  Qed.

  Lemma sel_items_get cindex : forall cmat j c,
    NoDup cindex -> length cmat = length cindex -> nth_error cindex j = Some c -> req c = true ->
    dict_get c (sel_items cindex cmat) = Some (G (nth j cmat [])).
  Proof.
    unfold sel_items. induction cindex as [|c0 ci IH]; intros [|r cm] j c Hnd Hlen Hj Hreq;
      cbn in Hlen; try discriminate; [destruct j; discriminate|].
    inversion Hnd as [|? ? Hnotin Hnd']; subst.
    destruct j as [|j]; cbn in Hj.
    - inversion Hj; subst. cbn. rewrite Hreq. cbn. now rewrite Z.eqb_refl.
    - assert (Hne : c <> c0) by (intro; subst; apply Hnotin; eapply nth_error_In; eauto).
      cbn [combine filter fst]. destruct (req c0); cbn [map dict_get fst snd nth].
      + destruct (Z.eqb_spec c c0); [contradiction|]. apply IH; auto.
      + apply IH; auto.
  Qed.

  Lemma sel_items_miss cindex : forall cmat c,
    (req c = false \/ ~ In c cindex) -> dict_get c (sel_items cindex cmat) = None.
  Proof.
    unfold sel_items. induction cindex as [|c0 ci IH]; intros [|r cm] c H; cbn; auto.
    destruct (req c0) eqn:E; cbn.
    - destruct (Z.eqb_spec c c0) as [->|Hne].
      + destruct H as [H|H]; [congruence|exfalso; apply H; now left].
      + apply IH. destruct H as [H|H]; [now left|right; intro; apply H; now right].
    - apply IH. destruct H as [H|H]; [now left|right; intro; apply H; now right].
  Qed.
End Select.

Lemma filter_fst_combine {A C} (P : A -> bool) (a : list A) : forall (b : list C), length b = length a ->
  filter P a = map fst (filter (fun p => P (fst p)) (combine a b)).
Proof.
  induction a as [|x a IH]; intros [|y b] H; cbn in *; try discriminate; auto.
  destruct (P x); cbn; rewrite <- IH by lia; reflexivity.
Qed.

Lemma combine_map_fst_snd {A C D} (g : C -> D) (l : list (A * C)) :
  combine (map fst l) (map g (map snd l)) = map (fun p => (fst p, g (snd p))) l.
Proof. induction l as [|[a c] l IH]; cbn; [reflexivity|]. now rewrite IH. Qed.

Lemma combine_map_r {A C D} (g : C -> D) (a : list A) (b : list C) :
  combine a (map g b) = map (fun p => (fst p, g (snd p))) (combine a b).
Proof. revert b. induction a as [|x a IH]; intros [|y b]; cbn; auto. now rewrite IH. Qed.

Lemma filter_true {A} (l : list A) : filter (fun _ => true) l = l.
Proof. induction l; cbn; congruence. Qed.

Lemma NoDup_filter {A} (P : A -> bool) (l : list A) : NoDup l -> NoDup (filter P l).
Proof.
  induction 1 as [|x l Hx _ IH]; cbn; [constructor|].
  destruct (P x); auto. constructor; auto. intro Hin. apply filter_In in Hin. tauto.
Qed.

Section AnyCarrier.
  Context {F : Type}.
  Variable O : fops F.
  Variable A : akern F.

  Lemma constraint_currents_items (tr : traj (F:=F)) flag ids :
    length (t_cmat tr) = length (t_cindex tr) ->
    constraint_currents O A tr flag ids
    = dict_of (sel_items _ _ (series_row O A tr flag) (requested ids) (t_cindex tr) (t_cmat tr)).
  Proof.
    intro Hlen. unfold constraint_currents, constraint_current, selected_rows, sel_items, series_row. f_equal.
    destruct ids as [l|]; cbn [requested].
    - rewrite (filter_fst_combine (fun c => zmem c l) (t_cindex tr) (t_cmat tr) Hlen).
      destruct (a_abs_applied A flag); rewrite map_map, combine_map_fst_snd; reflexivity.
    - rewrite filter_true.
      destruct (a_abs_applied A flag); rewrite map_map, combine_map_r; reflexivity.
  Qed.

  (* For ANY numeric carrier: whatever the order / duplicates / unknown ids of the request, the keys are the
     requested existing constraints (once each, network order), each mapped to the series computed from ITS OWN
     row of the constraint matrix, and nothing else is returned. *)
  Theorem constraint_currents_structure (tr : traj (F:=F)) flag ids :
    length (t_cmat tr) = length (t_cindex tr) -> NoDup (t_cindex tr) ->
    map fst (constraint_currents O A tr flag ids) = filter (requested ids) (t_cindex tr)
    /\ (forall j c, nth_error (t_cindex tr) j = Some c -> requested ids c = true ->
          dict_get c (constraint_currents O A tr flag ids)
          = Some (series_row O A tr flag (nth j (t_cmat tr) [])))
    /\ (forall c, requested ids c = false \/ ~ In c (t_cindex tr) ->
          dict_get c (constraint_currents O A tr flag ids) = None).
  Proof.
    intros Hlen Hnd. rewrite (constraint_currents_items tr flag ids Hlen).
    assert (Hkeys : map fst (sel_items _ _ (series_row O A tr flag) (requested ids) (t_cindex tr) (t_cmat tr))
                    = filter (requested ids) (t_cindex tr)) by (apply sel_items_keys; exact Hlen).
    rewrite dict_of_nodup by (rewrite Hkeys; now apply NoDup_filter).
    split; [exact Hkeys|]. split.
    - intros j c Hj Hreq. apply sel_items_get; auto.
    - intros c H. now apply sel_items_miss.
  Qed.

  (* the result depends on the requested ids only as a SET: order and duplicates are irrelevant
     (no assumption on the constraint names or shapes) *)
  Theorem constraint_currents_order_irrelevant (tr : traj (F:=F)) flag ids ids' :
    (forall c, In c ids <-> In c ids') ->
    constraint_currents O A tr flag (Some ids) = constraint_currents O A tr flag (Some ids').
  Proof.
    intro H.
    assert (Hz : forall c, zmem c ids = zmem c ids').
    { intro c. unfold zmem. destruct (existsb (Z.eqb c) ids) eqn:E1, (existsb (Z.eqb c) ids') eqn:E2; auto.
      - apply existsb_exists in E1. destruct E1 as [x [Hin Hx]]. apply Z.eqb_eq in Hx. subst x.
        apply H in Hin. assert (existsb (Z.eqb c) ids' = true) by (apply existsb_exists; exists c; split; auto; apply Z.eqb_refl).
        congruence.
      - apply existsb_exists in E2. destruct E2 as [x [Hin Hx]]. apply Z.eqb_eq in Hx. subst x.
        apply H in Hin. assert (existsb (Z.eqb c) ids = true) by (apply existsb_exists; exists c; split; auto; apply Z.eqb_refl).
        congruence. }
    unfold constraint_currents, constraint_current, selected_rows.
    assert (H1 : filter (fun p : Z * list F => zmem (fst p) ids) (combine (t_cindex tr) (t_cmat tr))
                 = filter (fun p => zmem (fst p) ids') (combine (t_cindex tr) (t_cmat tr)))
      by (apply filter_ext; intro p; apply Hz).
    assert (H2 : filter (fun c => zmem c ids) (t_cindex tr) = filter (fun c => zmem c ids') (t_cindex tr))
      by (apply filter_ext; intro c; apply Hz).
    rewrite H1, H2. reflexivity.
  Qed.
End AnyCarrier.

