(* Proofs/ResumeFindings.v — witnesses of the two open C09 findings (compiled only while they are
   open and still reproduce on the implementation; see Props/C09_findings.v). *)
From Coq Require Import ZArith List Bool String Lia.
From ACN Require Import Base.Num Base.ResumeBase Model.Resume Proofs.Resume.
Import ListNotations.
Open Scope Z_scope.

(* OPEN FINDING: a session that leaves in the period in which it is plugged in (departure <=
   plugin time).  Reference: the EV is plugged during its plugin period and unplugged in the next
   one.  Interrupted in the plugin period and resumed: the already queued UnplugEvent is popped when
   the period is re-entered, the EV is unplugged before the network is stepped. *)
Definition zero_stay_witness : dsim HeapQ := init_sim [plug 1 0 0 1; plug 0 1 1 4] None.
Definition zs_ref := Eval vm_compute in drun 8 None zero_stay_witness.
Definition zs_crash := Eval vm_compute in drun 8 (Some 1%nat) zero_stay_witness.
Definition zs_res := Eval vm_compute in drun 8 None (state_of zs_crash).

Lemma zero_stay_refuted :
  exists (k fuel : nat) (sc sref sres : dsim HeapQ),
    drun fuel None zero_stay_witness = Done sref
    /\ drun fuel (Some k) zero_stay_witness = Raised sc
    /\ drun fuel None sc = Done sres
    /\ zassoc 1 (d_log (s_rest sref)) = Some [(1, 1); (0, 0)]     (* period 1: both stations occupied *)
    /\ zassoc 1 (d_log (s_rest sres)) = Some [(1, 1)]             (* resumed: session 0 already gone *)
    /\ d_calls (s_rest sref) <> d_calls (s_rest sres).
Proof.
  exists 1%nat, 8%nat, (state_of zs_crash), (state_of zs_ref), (state_of zs_res).
  split; [vm_compute; reflexivity|].
  split; [vm_compute; reflexivity|].
  split; [vm_compute; reflexivity|].
  split; [vm_compute; reflexivity|].
  split; [vm_compute; reflexivity|].
  vm_compute. discriminate.
Qed.
