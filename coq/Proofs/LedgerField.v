(* Proofs/LedgerField.v — the ledger invariants for ANY numeric carrier that is a commutative ring
   (Leibniz equality) in which division is multiplication by an inverse, and ANY kernel record that
   satisfies the interface laws (`kern_laws`).  Proof by induction over the operation sequence.
   Instances: R with the kernels regenerated over R (Proofs/Ledger.v), canonical rationals Qc with the
   kernels regenerated over Q (Proofs/LedgerQc.v; axiom-free). *)
From Coq Require Import ZArith List Bool Lia Permutation Ring.
From ACN Require Import Base.Num Base.ListX Model.Ledger.
Import ListNotations.

(* ------------------------------------------------------------------------------------------ *)
(* small list facts                                                                            *)
(* ------------------------------------------------------------------------------------------ *)
Lemma Forall2_rev {A C} (P : A -> C -> Prop) a b : Forall2 P a b -> Forall2 P (rev a) (rev b).
Proof. induction 1; cbn; [constructor|]. apply Forall2_app; auto. Qed.

Lemma Forall2_len {A C} (P : A -> C -> Prop) a b : Forall2 P a b -> length a = length b.
Proof. induction 1; cbn; auto. Qed.

Lemma Forall2_nth_error_ex {A C} (P : A -> C -> Prop) a b n y :
  Forall2 P a b -> nth_error b n = Some y -> exists x, nth_error a n = Some x /\ P x y.
Proof.
  intro H; revert n; induction H; intros [|n] Hn; cbn in *; try discriminate.
  - inversion Hn; subst. eauto.
  - eauto.
Qed.

Lemma Forall2_nth_error {A C} (P : A -> C -> Prop) a b n x y :
  Forall2 P a b -> nth_error a n = Some x -> nth_error b n = Some y -> P x y.
Proof.
  intros H Ha Hb. destruct (Forall2_nth_error_ex P a b n y H Hb) as [x' [Hx' HP]]. congruence.
Qed.

Lemma Forall_app_l {A} (P : A -> Prop) a b : Forall P (a ++ b) -> Forall P a.
Proof. intro H. apply Forall_app in H. tauto. Qed.
Lemma Forall_app_r {A} (P : A -> Prop) a b : Forall P (a ++ b) -> Forall P b.
Proof. intro H. apply Forall_app in H. tauto. Qed.

Lemma NoDup_app_l {A} (a b : list A) : NoDup (a ++ b) -> NoDup a.
Proof.
  induction a as [|x a IH]; cbn; intro H; [constructor|].
  inversion H; subst. constructor; auto. intro Hin. apply H2. apply in_or_app. now left.
Qed.

Section Field.
  Variable F : Type.
  Variable O : fops F.
  Variable oinv : F -> F.

  Notation z0 := (o0 O).
  Notation z1 := (o1 O).
  Infix "+'" := (oadd O) (at level 50, left associativity).
  Infix "*'" := (omul O) (at level 40, left associativity).
  Infix "-'" := (osub O) (at level 50, left associativity).
  Infix "/'" := (odiv O) (at level 40, left associativity).

  Definition fopp (x : F) : F := z0 -' x.
  Hypothesis Oring : ring_theory z0 z1 (oadd O) (omul O) (osub O) fopp (@eq F).
  Hypothesis Odiv : forall a b, a /' b = a *' oinv b.
  Add Ring Fring : Oring.

  (* what the ledger theorems need from the scalar kernels; `flaw_bstep` is the battery CONSISTENCY LAW *)
  Record kern_laws_F {B : Type} (K : kern F B) (bwf : B -> Prop) : Prop := {
    flaw_set_pilot_ok : forall ev p v t,
      k_set_pilot K ev p v t true = Some (match ev with None => None | Some _ => Some (p, v, t) end);
    flaw_set_pilot_bad : forall ev p v t, k_set_pilot K ev p v t false = None;
    flaw_ev_charge : forall e p v t r, k_ev_charge K e p v t r = (r, e +' energy_of O t v r, r);
    flaw_bstep : forall b p v t n r b', bwf b -> k_bstep K b p v t n = Some (r, b') ->
      bwf b' /\ k_bcharge K b' -' k_bcharge K b = energy_of O t v r;
    flaw_rate_elt : forall o d, k_rate_elt K o d = match o with Some _ => d | None => z0 end;
    flaw_peak : forall a b, k_peak K a b = omax O a b;
    flaw_peak_init : k_peak_init K = z0
  }.

  Variable B : Type.
  Variable K : kern F B.
  Variable bwf : B -> Prop.
  Hypothesis L : kern_laws_F K bwf.
  Variable T : F.

  Notation ev := (@Ledger.ev F B).
  Notation op := (@Ledger.op F B).
  Notation state := (@Ledger.state F B).
  Notation stn := (@Ledger.stn F).
  Notation Fsum := (fsum O).

  Lemma Fsum_cons x l : Fsum (x :: l) = x +' Fsum l.
  Proof. reflexivity. Qed.
  Lemma Fsum_app a b : Fsum (a ++ b) = Fsum a +' Fsum b.
  Proof. induction a as [|x a IH]; cbn [app]; rewrite ?Fsum_cons, ?IH; cbn [fsum fold_right]; ring. Qed.
  Lemma Fsum_perm a b : Permutation a b -> Fsum a = Fsum b.
  Proof.
    induction 1 as [|x l l' _ IH|x y l|l l' l'' _ IH1 _ IH2]; rewrite ?Fsum_cons.
    - reflexivity.
    - now rewrite IH.
    - ring.
    - congruence.
  Qed.

  Definition conn (l : list (option ev)) : list ev :=
    flat_map (fun o => match o with Some e => [e] | None => [] end) l.
  Definition tag (e : ev) : Z * F := (e_sid e, k_bcharge K (e_batt e) -' e_energy e).
  Definition ebwf (e : ev) : Prop := bwf (e_batt e).
  Definition esum (x : Z) (l : list ev) : F :=
    Fsum (map (fun e => if Z.eqb (e_sid e) x then e_energy e else z0) l).
  Definition etot (l : list ev) : F := Fsum (map e_energy l).
  Definition init_tags (ops : list op) : list (Z * F) :=
    flat_map (fun o => match o with Plugin _ sid b => [(sid, k_bcharge K b)] | _ => [] end) ops.
  Definition col_energy (net : list stn) (col : list F) : F := column_energy O T net col.

  Lemma esum_app x a b : esum x (a ++ b) = esum x a +' esum x b.
  Proof. unfold esum. rewrite map_app, Fsum_app. reflexivity. Qed.
  Lemma esum_perm x a b : Permutation a b -> esum x a = esum x b.
  Proof. intro H. unfold esum. apply Fsum_perm. now apply Permutation_map. Qed.
  Lemma etot_app a b : etot (a ++ b) = etot a +' etot b.
  Proof. unfold etot. rewrite map_app, Fsum_app. reflexivity. Qed.
  Lemma etot_perm a b : Permutation a b -> etot a = etot b.
  Proof. intro H. unfold etot. apply Fsum_perm. now apply Permutation_map. Qed.

  Lemma esum_cons x a l :
    esum x (a :: l) = (if Z.eqb (e_sid a) x then e_energy a else z0) +' esum x l.
  Proof. reflexivity. Qed.

  Lemma esum_notin x l : ~ In x (map e_sid l) -> esum x l = z0.
  Proof.
    induction l as [|c l IH]; intro Hn; [reflexivity|]. rewrite esum_cons.
    destruct (Z.eqb_spec (e_sid c) x) as [Heq|Hne].
    - exfalso. apply Hn. left. exact Heq.
    - rewrite IH; [ring|]. intro Hc. apply Hn. right. exact Hc.
  Qed.

  (* with distinct session ids the per-session sum picks out the one EV of that session *)
  Lemma esum_unique l : NoDup (map e_sid l) -> forall e, In e l -> esum (e_sid e) l = e_energy e.
  Proof.
    induction l as [|a l IH]; intros Hnd e Hin; [destruct Hin|].
    cbn in Hnd. inversion Hnd as [|? ? Hnotin Hnd']; subst.
    rewrite esum_cons. destruct Hin as [->|Hin].
    - rewrite Z.eqb_refl, esum_notin by exact Hnotin. ring.
    - destruct (Z.eqb_spec (e_sid a) (e_sid e)) as [Heq|Hne].
      + exfalso. apply Hnotin. rewrite Heq. now apply in_map.
      + rewrite IH by auto. ring.
  Qed.

  Lemma esum_one x (e : ev) : esum x [e] = if Z.eqb (e_sid e) x then e_energy e else z0.
  Proof. unfold esum; cbn [map fsum fold_right]. destruct (Z.eqb (e_sid e) x); ring. Qed.
  Lemma etot_one (e : ev) : etot [e] = e_energy e.
  Proof. unfold etot; cbn [map fsum fold_right]. ring. Qed.

  (* ---------------- one EV.charge ---------------- *)
  Lemma charge_ev_spec e p v t n e' :
    ebwf e -> charge_ev K e p v t n = Some e' ->
    e_sid e' = e_sid e /\ ebwf e' /\ tag e' = tag e /\
    e_energy e' = e_energy e +' energy_of O t v (e_rate e').
  Proof.
    unfold charge_ev, ebwf, tag. intros Hb.
    destruct (k_bstep K (e_batt e) p v t n) as [[r b']|] eqn:E; [|discriminate].
    rewrite (flaw_ev_charge _ _ L). intro H; inversion H; subst; clear H. cbn [e_sid e_energy e_rate e_batt].
    destruct (flaw_bstep _ _ L _ _ _ _ _ _ _ Hb E) as [Hb' Hd].
    repeat split; auto. f_equal.
    transitivity ((k_bcharge K b' -' k_bcharge K (e_batt e)) +' k_bcharge K (e_batt e)
                  -' (e_energy e +' energy_of O t v r)); [ring|]. rewrite Hd. ring.
  Qed.

  Definition obwf (o : option ev) : Prop := match o with Some e => ebwf e | None => True end.

  Lemma set_pilot_one_spec (s : stn) o p n o' :
    obwf o -> set_pilot_one K T s o p n = Some o' ->
    match o, o' with
    | None, None => True
    | Some e, Some e' =>
        e_sid e' = e_sid e /\ ebwf e' /\ tag e' = tag e /\
        e_energy e' = e_energy e +' energy_of O T (s_volt s) (e_rate e')
    | _, _ => False
    end.
  Proof.
    unfold set_pilot_one. intros Hb.
    destruct (s_valid s p).
    - rewrite (flaw_set_pilot_ok _ _ L). destruct o as [e|]; cbn [option_map].
      + destruct (charge_ev K e p (s_volt s) T n) as [e'|] eqn:E; cbn [option_map]; [|discriminate].
        intro H; inversion H; subst; clear H. eapply charge_ev_spec; eauto.
      + intro H; inversion H; subst. exact I.
    - rewrite (flaw_set_pilot_bad _ _ L). discriminate.
  Qed.

  (* ---------------- one period: update_pilots ---------------- *)
  Lemma current_rates_cons (o : option ev) l :
    current_rates O K (o :: l)
    = k_rate_elt K (option_map e_rate o) (match o with Some e => e_rate e | None => z0 end) :: current_rates O K l.
  Proof. reflexivity. Qed.
  Lemma period_energy_cons (s : stn) net r col o occ x :
    period_energy O T (s :: net) (r :: col) (o :: occ) x
    = (if connected_as o x then energy_of O T (s_volt s) r else z0) +' period_energy O T net col occ x.
  Proof. reflexivity. Qed.
  Lemma column_energy_cons (s : stn) net r col :
    column_energy O T (s :: net) (r :: col) = energy_of O T (s_volt s) r +' column_energy O T net col.
  Proof. reflexivity. Qed.

  (* a pilot of any value sent to a vacant station delivers no energy: energy_of T v 0 = 0 *)
  Lemma energy_of_zero v : energy_of O T v z0 = z0.
  Proof. unfold energy_of. rewrite !Odiv. ring. Qed.

  Lemma update_pilots_spec net : forall l ps ns l',
    Forall obwf l -> update_pilots O K T net l ps ns = Some l' ->
    length l = length net /\ length l' = length net /\
    Forall obwf l' /\
    map tag (conn l') = map tag (conn l) /\
    map (option_map e_sid) l' = map (option_map e_sid) l /\
    (forall x, esum x (conn l') = esum x (conn l)
               +' period_energy O T net (current_rates O K l') (map (option_map e_sid) l') x) /\
    etot (conn l') = etot (conn l) +' col_energy net (current_rates O K l').
  Proof.
    induction net as [|s net IH]; intros l ps ns l' Hb Hup.
    - destruct l; cbn [update_pilots] in Hup; [|discriminate]. inversion Hup; subst.
      unfold col_energy, etot, esum. cbn. repeat split; auto; intros; ring.
    - destruct l as [|o l]; cbn [update_pilots] in Hup; [discriminate|].
      destruct ps as [|p ps]; [discriminate|].
      destruct (set_pilot_one K T s o p (hd (o0 O, o0 O) ns)) as [o'|] eqn:E1; [|discriminate].
      destruct (update_pilots O K T net l ps (tl ns)) as [l2|] eqn:E2; cbn [option_map] in Hup; [|discriminate].
      inversion Hup; subst; clear Hup.
      inversion Hb as [|? ? Hbo Hbl]; subst.
      destruct (IH _ _ _ _ Hbl E2) as (Hl & Hl2 & Hb2 & Htag & Hsid & Hes & Het).
      pose proof (set_pilot_one_spec _ _ _ _ _ Hbo E1) as H1.
      destruct o as [e|], o' as [e'|]; try contradiction.
      + destruct H1 as (Hs & Hbe & Ht & Hen).
        cbn [length conn flat_map map option_map app].
        fold (conn l2). fold (conn l).
        repeat split.
        * cbn; lia.
        * cbn; lia.
        * constructor; auto.
        * cbn. fold (conn l2) (conn l). rewrite Ht, Htag. reflexivity.
        * rewrite Hs, Hsid. reflexivity.
        * intro x. change (e' :: conn l2) with ([e'] ++ conn l2). change (e :: conn l) with ([e] ++ conn l).
          rewrite !esum_app, Hes, !esum_one, Hs.
          rewrite current_rates_cons. cbn [map option_map]. rewrite period_energy_cons, (flaw_rate_elt _ _ L).
          cbn [connected_as]. rewrite ?Hs.
          destruct (Z.eqb (e_sid e) x); rewrite ?Hen; ring.
        * change (e' :: conn l2) with ([e'] ++ conn l2). change (e :: conn l) with ([e] ++ conn l).
          rewrite !etot_app, Het, !etot_one. unfold col_energy.
          rewrite current_rates_cons, column_energy_cons, (flaw_rate_elt _ _ L). cbn [option_map]. rewrite Hen. ring.
      + cbn [length conn flat_map map option_map app].
        fold (conn l2). fold (conn l).
        repeat split.
        * cbn; lia.
        * cbn; lia.
        * constructor; auto.
        * exact Htag.
        * rewrite Hsid. reflexivity.
        * intro x. rewrite Hes.
          rewrite current_rates_cons. cbn [map option_map]. rewrite period_energy_cons.
          cbn [connected_as]. ring.
        * rewrite Het. unfold col_energy.
          rewrite current_rates_cons, column_energy_cons, (flaw_rate_elt _ _ L). cbn [option_map].
          rewrite energy_of_zero. ring.
  Qed.

  (* recorded rate of a vacant station is 0, whatever the state *)
  Lemma current_rates_vacant (l : list (option ev)) :
    Forall2 (fun r o => o = None -> r = z0) (current_rates O K l) (map (option_map e_sid) l).
  Proof.
    induction l as [|o l IH]; cbn; constructor; auto.
    rewrite (flaw_rate_elt _ _ L). destruct o; cbn; [discriminate|reflexivity].
  Qed.

  Lemma current_rates_length (l : list (option ev)) : length (current_rates O K l) = length l.
  Proof. unfold current_rates. apply map_length. Qed.

  (* ---------------- plugin / unplug ---------------- *)
  Lemma plugin_at_spec net : forall l station sid b l',
    plugin_at O net l station sid b = Some l' ->
    length l' = length l /\ Permutation (conn l') (new_ev O sid b :: conn l).
  Proof.
    induction net as [|s net IH]; intros l station sid b l' H; [destruct l; discriminate|].
    destruct l as [|o l]; [discriminate|]. cbn in H.
    destruct (Z.eqb (s_id s) station).
    - destruct o as [e|]; cbn in H; [discriminate|]. inversion H; subst. cbn. split; auto.
    - destruct (plugin_at O net l station sid b) as [l2|] eqn:E; cbn in H; [|discriminate].
      inversion H; subst. destruct (IH _ _ _ _ _ E) as [Hlen Hperm]. split; [cbn; lia|].
      destruct o as [e|]; cbn; fold (conn l2) (conn l).
      + rewrite Hperm. apply perm_swap.
      + exact Hperm.
  Qed.

  Lemma unplug_at_spec net : forall l station sid l' d,
    unplug_at net l station sid = Some (l', d) ->
    length l' = length l /\
    Permutation (conn l) (match d with Some e => e :: conn l' | None => conn l' end).
  Proof.
    induction net as [|s net IH]; intros l station sid l' d H; [destruct l; discriminate|].
    destruct l as [|o l]; [discriminate|]. cbn in H.
    destruct (Z.eqb (s_id s) station).
    - destruct o as [e|].
      + destruct (Z.eqb sid (e_sid e)); inversion H; subst; cbn; split; auto.
      + inversion H; subst; cbn; split; auto.
    - destruct (unplug_at net l station sid) as [[l2 d2]|] eqn:E; [|discriminate].
      inversion H; subst. destruct (IH _ _ _ _ _ E) as [Hlen Hperm]. split; [cbn; lia|].
      destruct o as [e|]; cbn; fold (conn l2) (conn l).
      + destruct d as [e0|].
        * rewrite Hperm. apply perm_swap.
        * now constructor.
      + exact Hperm.
  Qed.

  (* ---------------- induction over the operation sequence ---------------- *)
  Lemma run_ind (P : list op -> state -> Prop) net :
    (forall done st o st', P done st -> apply_op O K T net st o = Some st' -> P (done ++ [o]) st') ->
    forall ops done st st', P done st -> run O K T net st ops = Some st' -> P (done ++ ops) st'.
  Proof.
    intros Hstep ops; induction ops as [|o r IH]; intros done st st' HP Hrun; cbn in Hrun.
    - inversion Hrun; subst. rewrite app_nil_r. exact HP.
    - destruct (apply_op O K T net st o) as [st1|] eqn:E; [|discriminate].
      replace (done ++ o :: r) with ((done ++ [o]) ++ r) by (rewrite <- app_assoc; reflexivity).
      eapply IH; eauto.
  Qed.

  Lemma init_tags_app a b : init_tags (a ++ b) = init_tags a ++ init_tags b.
  Proof. unfold init_tags. apply flat_map_app. Qed.
  Lemma plugged_sids_app (a b : list op) : plugged_sids (a ++ b) = plugged_sids a ++ plugged_sids b.
  Proof. unfold plugged_sids. apply flat_map_app. Qed.
  Lemma plugged_batts_app (a b : list op) : plugged_batts (a ++ b) = plugged_batts a ++ plugged_batts b.
  Proof. unfold plugged_batts. apply flat_map_app. Qed.
  Lemma n_steps_app (a b : list op) : n_steps (a ++ b) = (n_steps a + n_steps b)%nat.
  Proof. unfold n_steps. rewrite filter_app, app_length. reflexivity. Qed.

  Record Inv (net : list stn) (done : list op) (st : state) : Prop := {
    inv_len : length (evs st) = length net;
    inv_bwf : Forall bwf (plugged_batts done) -> Forall ebwf (all_evs st);
    inv_tags : Forall bwf (plugged_batts done) -> incl (map tag (all_evs st)) (init_tags done);
    inv_sids : incl (map e_sid (all_evs st)) (plugged_sids done);
    inv_nodup : NoDup (plugged_sids done) -> NoDup (map e_sid (all_evs st));
    inv_E : Forall bwf (plugged_batts done) ->
            forall x, esum x (all_evs st) = ledger_sum O T net (cols st) (occs st) x;
    inv_tot : Forall bwf (plugged_batts done) ->
              etot (all_evs st) = Fsum (map (col_energy net) (cols st));
    inv_vac : Forall2 (Forall2 (fun r o => o = None -> r = z0)) (cols st) (occs st);
    inv_peak : peak st = peak_of O (cols st);
    inv_shape : Forall (fun c => length c = length net) (cols st)
                /\ Forall (fun c => length c = length net) (occs st)
                /\ length (cols st) = n_steps done
  }.

  Lemma all_evs_unfold (st : state) : all_evs st = conn (evs st) ++ hist st.
  Proof. reflexivity. Qed.

  Lemma Inv_init net : Inv net [] (init_state K net).
  Proof.
    assert (Hc : conn (map (fun _ : stn => @None ev) net) = []) by (induction net; cbn; auto).
    constructor; unfold all_evs, connected, init_state; cbn [evs cols occs peak hist].
    - apply map_length.
    - intros _. fold (conn (map (fun _ : stn => @None ev) net)). rewrite Hc. constructor.
    - intros _. fold (conn (map (fun _ : stn => @None ev) net)). rewrite Hc. intros x [].
    - fold (conn (map (fun _ : stn => @None ev) net)). rewrite Hc. intros x [].
    - intros _. fold (conn (map (fun _ : stn => @None ev) net)). rewrite Hc. constructor.
    - intros _ x. fold (conn (map (fun _ : stn => @None ev) net)). rewrite Hc. reflexivity.
    - intros _. fold (conn (map (fun _ : stn => @None ev) net)). rewrite Hc. reflexivity.
    - constructor.
    - cbn. apply (flaw_peak_init _ _ L).
    - repeat split; constructor.
  Qed.

  Lemma Inv_step net done st o st' :
    Inv net done st -> apply_op O K T net st o = Some st' -> Inv net (done ++ [o]) st'.
  Proof.
    intros I Hop. destruct I as [Ilen Ibwf Itags Isids Ind IE Itot Ivac Ipeak Ishape].
    destruct o as [station sid b | station sid | ps ns]; cbn in Hop.
    - (* Plugin *)
      destruct (plugin_at O net (evs st) station sid b) as [l'|] eqn:E; [|discriminate].
      inversion Hop; subst; clear Hop.
      destruct (plugin_at_spec _ _ _ _ _ _ E) as [Hlen Hperm].
      assert (Hall : Permutation (all_evs {| evs := l'; cols := cols st; occs := occs st; peak := peak st; hist := hist st |})
                                 (new_ev O sid b :: all_evs st)).
      { rewrite !all_evs_unfold. cbn [evs hist]. rewrite Hperm. reflexivity. }
      constructor; cbn [evs cols occs peak hist];
        rewrite ?plugged_batts_app, ?plugged_sids_app, ?init_tags_app, ?n_steps_app;
        cbn [plugged_batts plugged_sids init_tags n_steps flat_map filter app length].
      + lia.
      + intro Hb. eapply Permutation_Forall; [symmetry; exact Hall|].
        constructor.
        * unfold ebwf, new_ev; cbn. apply Forall_app_r in Hb. now inversion Hb.
        * apply Ibwf. eapply Forall_app_l; eauto.
      + intros Hb t Ht. apply (Permutation_in _ (Permutation_map tag Hall)) in Ht.
        apply in_or_app. destruct Ht as [Ht|Ht].
        * right. left. rewrite <- Ht. unfold tag, new_ev; cbn. f_equal. ring.
        * left. apply Itags; auto. eapply Forall_app_l; eauto.
      + intros x Hx. apply (Permutation_in _ (Permutation_map e_sid Hall)) in Hx.
        apply in_or_app. destruct Hx as [Hx|Hx]; [right; left; exact Hx|left; now apply Isids].
      + intro Hnd. eapply Permutation_NoDup; [symmetry; apply (Permutation_map e_sid Hall)|].
        cbn [map new_ev e_sid]. constructor.
        * intro Hin. apply Isids in Hin.
          apply NoDup_remove_2 in Hnd. rewrite app_nil_r in Hnd. contradiction.
        * apply Ind. eapply NoDup_app_l; eauto.
      + intros Hb x. rewrite (esum_perm _ _ _ Hall).
        change (new_ev O sid b :: all_evs st) with ([new_ev O sid b] ++ all_evs st).
        rewrite esum_app, IE by (eapply Forall_app_l; eauto).
        rewrite esum_one. cbn [new_ev e_sid e_energy]. destruct (Z.eqb sid x); ring.
      + intros Hb. rewrite (etot_perm _ _ Hall).
        change (new_ev O sid b :: all_evs st) with ([new_ev O sid b] ++ all_evs st).
        rewrite etot_app, Itot by (eapply Forall_app_l; eauto). rewrite etot_one. cbn [new_ev e_energy]. ring.
      + exact Ivac.
      + exact Ipeak.
      + destruct Ishape as (S1 & S2 & S3). repeat split; auto. lia.
    - (* Unplug *)
      destruct (unplug_at net (evs st) station sid) as [[l' d]|] eqn:E; [|discriminate].
      inversion Hop; subst; clear Hop.
      destruct (unplug_at_spec _ _ _ _ _ _ E) as [Hlen Hperm].
      assert (Hall : Permutation (all_evs st)
                       (all_evs {| evs := l'; cols := cols st; occs := occs st; peak := peak st;
                                   hist := match d with Some e => e :: hist st | None => hist st end |})).
      { rewrite !all_evs_unfold. cbn [evs hist]. rewrite Hperm. destruct d as [e|].
        - cbn. apply Permutation_middle.
        - reflexivity. }
      constructor; cbn [evs cols occs peak hist];
        rewrite ?plugged_batts_app, ?plugged_sids_app, ?init_tags_app, ?n_steps_app;
        cbn [plugged_batts plugged_sids init_tags n_steps flat_map filter app length];
        rewrite ?app_nil_r.
      + lia.
      + intro Hb. eapply Permutation_Forall; [exact Hall|]. now apply Ibwf.
      + intros Hb t Ht. apply (Permutation_in _ (Permutation_sym (Permutation_map tag Hall))) in Ht.
        now apply Itags.
      + intros x Hx. apply (Permutation_in _ (Permutation_sym (Permutation_map e_sid Hall))) in Hx.
        now apply Isids.
      + intro Hnd. eapply Permutation_NoDup; [apply (Permutation_map e_sid Hall)|]. now apply Ind.
      + intros Hb x. rewrite <- (esum_perm _ _ _ Hall). now apply IE.
      + intros Hb. rewrite <- (etot_perm _ _ Hall). now apply Itot.
      + exact Ivac.
      + exact Ipeak.
      + destruct Ishape as (S1 & S2 & S3). repeat split; auto. lia.
    - (* Step *)
      destruct (update_pilots O K T net (evs st) ps ns) as [l'|] eqn:E; [|discriminate].
      inversion Hop; subst; clear Hop.
      assert (Hspec : Forall bwf (plugged_batts done) ->
                length (evs st) = length net /\ length l' = length net /\
                Forall obwf l' /\
                map tag (conn l') = map tag (conn (evs st)) /\
                map (option_map e_sid) l' = map (option_map e_sid) (evs st) /\
                (forall x, esum x (conn l') = esum x (conn (evs st))
                   +' period_energy O T net (current_rates O K l') (map (option_map e_sid) l') x) /\
                etot (conn l') = etot (conn (evs st)) +' col_energy net (current_rates O K l')).
      { intro Hb. apply (update_pilots_spec net _ ps ns); auto.
        specialize (Ibwf Hb). rewrite all_evs_unfold in Ibwf. apply Forall_app_l in Ibwf.
        clear - Ibwf. induction (evs st) as [|o l IH]; constructor.
        - destruct o; cbn in *; auto. now inversion Ibwf.
        - apply IH. destruct o; cbn in Ibwf; auto. now inversion Ibwf. }
      (* facts that do not need the battery law: lengths and session ids *)
      assert (Hlen' : length l' = length net /\ map (option_map e_sid) l' = map (option_map e_sid) (evs st)).
      { clear - E L. revert ps ns l' E.
        generalize (evs st) as l. induction net as [|s net IH]; intros l ps ns l' E.
        - destruct l; cbn [update_pilots] in E; [|discriminate]. inversion E; subst. auto.
        - destruct l as [|o l]; cbn [update_pilots] in E; [discriminate|].
          destruct ps as [|p ps]; [discriminate|].
          destruct (set_pilot_one K T s o p (hd (o0 O, o0 O) ns)) as [o'|] eqn:E1; [|discriminate].
          destruct (update_pilots O K T net l ps (tl ns)) as [l2|] eqn:E2; cbn [option_map] in E; [|discriminate].
          inversion E; subst. destruct (IH _ _ _ _ E2) as [H1 H2]. cbn. split; [lia|]. rewrite H2. f_equal.
          unfold set_pilot_one in E1. destruct (s_valid s p).
          + rewrite (flaw_set_pilot_ok _ _ L) in E1. destruct o as [e|]; cbn [option_map] in E1.
            * unfold charge_ev in E1. destruct (k_bstep K (e_batt e) p (s_volt s) T _) as [[r b']|]; cbn [option_map] in E1; [|discriminate].
              rewrite (flaw_ev_charge _ _ L) in E1. inversion E1; subst. reflexivity.
            * inversion E1; subst. reflexivity.
          + rewrite (flaw_set_pilot_bad _ _ L) in E1. discriminate. }
      destruct Hlen' as [Hl' Hsid'].
      assert (Hconn_sid : map e_sid (conn l') = map e_sid (conn (evs st))).
      { clear - Hsid'. revert l' Hsid'. generalize (evs st) as l.
        induction l as [|o l IH]; intros [|o' l'] H; cbn in H; try discriminate; auto.
        inversion H as [[H1 H2]]. specialize (IH _ H2).
        destruct o, o'; cbn in H1; try discriminate; cbn [conn flat_map app map];
          fold (conn l') (conn l); rewrite IH; congruence. }
      unfold store. constructor; cbn [evs cols occs peak hist];
        rewrite ?plugged_batts_app, ?plugged_sids_app, ?init_tags_app, ?n_steps_app;
        cbn [plugged_batts plugged_sids init_tags n_steps flat_map filter app length];
        rewrite ?app_nil_r.
      + exact Hl'.
      + intro Hb. destruct (Hspec Hb) as (_ & _ & Hob & _).
        rewrite all_evs_unfold. cbn [evs hist]. apply Forall_app. split.
        * clear - Hob. induction l' as [|o l IH]; cbn; [constructor|].
          inversion Hob; subst. destruct o; cbn; auto.
        * specialize (Ibwf Hb). rewrite all_evs_unfold in Ibwf. eapply Forall_app_r; eauto.
      + intros Hb t Ht. destruct (Hspec Hb) as (_ & _ & _ & Htag & _).
        rewrite all_evs_unfold in Ht. cbn [evs hist] in Ht. rewrite map_app, Htag in Ht.
        apply Itags; auto. rewrite all_evs_unfold, map_app. exact Ht.
      + intros x Hx. rewrite all_evs_unfold in Hx. cbn [evs hist] in Hx. rewrite map_app, Hconn_sid in Hx.
        apply Isids. rewrite all_evs_unfold, map_app. exact Hx.
      + intro Hnd. specialize (Ind Hnd). rewrite all_evs_unfold in *. cbn [evs hist].
        rewrite map_app, Hconn_sid. rewrite map_app in Ind. exact Ind.
      + intros Hb x. destruct (Hspec Hb) as (_ & _ & _ & _ & _ & Hes & _).
        rewrite all_evs_unfold. cbn [evs hist ledger_sum]. rewrite esum_app, Hes.
        specialize (IE Hb x). rewrite all_evs_unfold, esum_app in IE.
        rewrite <- IE. ring.
      + intros Hb. destruct (Hspec Hb) as (_ & _ & _ & _ & _ & _ & Het).
        rewrite all_evs_unfold. cbn [evs hist map]. rewrite Fsum_cons, etot_app, Het.
        specialize (Itot Hb). rewrite all_evs_unfold, etot_app in Itot.
        rewrite <- Itot. ring.
      + constructor; auto. apply current_rates_vacant.
      + rewrite (flaw_peak _ _ L), Ipeak. reflexivity.
      + destruct Ishape as (S1 & S2 & S3). repeat split.
        * constructor; auto. rewrite current_rates_length. exact Hl'.
        * constructor; auto. rewrite map_length. exact Hl'.
        * cbn. lia.
  Qed.

  Lemma Inv_run net ops st :
    simulate O K T net ops = Some st -> Inv net ops st.
  Proof.
    intro H. change ops with ([] ++ ops).
    eapply (run_ind (Inv net) net); [apply Inv_step| apply Inv_init | exact H].
  Qed.

  (* init_charge is the tag of the (unique) Plugin of the session *)
  Lemma init_tags_sid ops x c : In (x, c) (init_tags ops) -> In x (plugged_sids ops).
  Proof.
    induction ops as [|o r IH]; cbn; [tauto|].
    destruct o; cbn; auto. intros [H|H]; [left; congruence|right; auto].
  Qed.

  Lemma init_charge_of_tags ops x c :
    NoDup (plugged_sids ops) -> In (x, c) (init_tags ops) -> init_charge K ops x = Some c.
  Proof.
    induction ops as [|o r IH]; cbn; [tauto|].
    destruct o as [station sid b| |]; cbn; auto.
    intros Hnd [H|H].
    - inversion H; subst. now rewrite Z.eqb_refl.
    - inversion Hnd; subst. destruct (Z.eqb_spec sid x) as [->|Hne].
      + exfalso. apply H2. eapply init_tags_sid; eauto.
      + auto.
  Qed.

  (* ---------------- the statements, for any ring and any law-abiding kernel record ---------------- *)
  Theorem ledger_field net ops st :
    NoDup (plugged_sids ops) -> Forall bwf (plugged_batts ops) ->
    simulate O K T net ops = Some st ->
    forall e, In e (all_evs st) ->
      e_energy e = ledger_sum O T net (cols st) (occs st) (e_sid e)
      /\ exists c0, init_charge K ops (e_sid e) = Some c0 /\ e_energy e = k_bcharge K (e_batt e) -' c0.
  Proof.
    intros Hnd Hb Hrun e He. pose proof (Inv_run _ _ _ Hrun) as I. split.
    - rewrite <- (inv_E _ _ _ I Hb). symmetry. apply esum_unique; auto. apply (inv_nodup _ _ _ I Hnd).
    - exists (k_bcharge K (e_batt e) -' e_energy e). split; [|ring].
      apply init_charge_of_tags; auto. apply (inv_tags _ _ _ I Hb).
      change (e_sid e, k_bcharge K (e_batt e) -' e_energy e) with (tag e). now apply in_map.
  Qed.

  Theorem vacant_zero_field net ops st :
    simulate O K T net ops = Some st ->
    forall t col occ,
      nth_error (rates_by_period st) t = Some col -> nth_error (occupancy_by_period st) t = Some occ ->
      length col = length net /\ length occ = length net /\
      forall i, nth_error occ i = Some None -> nth_error col i = Some z0.
  Proof.
    intros Hrun t col occ Hc Ho. pose proof (Inv_run _ _ _ Hrun) as I.
    destruct (inv_shape _ _ _ I) as (S1 & S2 & _).
    unfold rates_by_period, occupancy_by_period in *.
    assert (Hcin : In col (cols st)) by (apply in_rev; eapply nth_error_In; eauto).
    assert (Hoin : In occ (occs st)) by (apply in_rev; eapply nth_error_In; eauto).
    rewrite Forall_forall in S1, S2. repeat split; auto.
    intros i Hi.
    pose proof (Forall2_rev _ _ _ (inv_vac _ _ _ I)) as Hv.
    pose proof (Forall2_nth_error _ _ _ _ _ _ Hv Hc Ho) as Hv2.
    destruct (Forall2_nth_error_ex _ _ _ _ _ Hv2 Hi) as [r [Hr Hz]].
    rewrite Hr, Hz; auto.
  Qed.

  Theorem shape_field net ops st :
    simulate O K T net ops = Some st ->
    length (rates_by_period st) = n_steps ops /\ length (occupancy_by_period st) = n_steps ops
    /\ length (evs st) = length net.
  Proof.
    intro Hrun. pose proof (Inv_run _ _ _ Hrun) as I.
    destruct (inv_shape _ _ _ I) as (_ & _ & S3).
    unfold rates_by_period, occupancy_by_period. rewrite !rev_length.
    pose proof (inv_vac _ _ _ I) as Hv. apply Forall2_len in Hv.
    repeat split; try lia. apply (inv_len _ _ _ I).
  Qed.

  Theorem peak_field net ops st :
    simulate O K T net ops = Some st -> peak st = peak_of O (cols st).
  Proof. intro Hrun. apply (inv_peak _ _ _ (Inv_run _ _ _ Hrun)). Qed.

  Theorem total_field net ops st :
    Forall bwf (plugged_batts ops) ->
    simulate O K T net ops = Some st ->
    Fsum (map e_energy (all_evs st)) = Fsum (map (column_energy O T net) (cols st)).
  Proof. intros Hb Hrun. apply (inv_tot _ _ _ (Inv_run _ _ _ Hrun) Hb). Qed.
End Field.
