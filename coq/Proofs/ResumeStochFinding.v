(* Proofs/ResumeStochFinding.v — OPEN FINDING stochastic-network-json-drops-queue, on the regenerated
   attribute lists (compiled only while the finding is open and still reproduces). *)
From Coq Require Import List Bool String.
From ACN Require Import Base.ResumeBase Gen.Serial Model.Resume.
Import ListNotations.
Open Scope string_scope.

(* contrib.acnsim.StochasticNetwork has no _to_dict/_from_dict of its own: exactly these five of its
   instance attributes are neither dumped nor restored by the ChargingNetwork methods it inherits *)
Lemma stochastic_network_unserialised :
  unserialised state_StochasticNetwork dumped_StochasticNetwork restored_StochasticNetwork
  = ["waiting_queue"; "early_departure"; "swaps"; "never_charged"; "early_unplug"].
Proof. vm_compute. reflexivity. Qed.

Lemma stochastic_network_incomplete :
  exists a, In a state_StochasticNetwork
            /\ kept dumped_StochasticNetwork restored_StochasticNetwork a = false.
Proof. exists "waiting_queue". split; [vm_compute; tauto | vm_compute; reflexivity]. Qed.
