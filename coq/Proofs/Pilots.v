(* Proofs/Pilots.v — lemmas about the pilot-matrix model (Model/Pilots.v) and the generated
   kernels (Gen/Pilots_Z.v).  Polymorphic in the station-id type K and the value type A;
   lists / nat / Z only, no axioms. *)
From Coq Require Import String ZArith List Bool Arith Lia Permutation ZifyBool.
From ACN Require Import Base.Num Gen.Pilots_Z Model.Pilots.
Import ListNotations.
Local Open Scope nat_scope.
Local Open Scope list_scope.

(* ------------------------------------------------------------------------------------------ *)
(* the generated kernels, characterised on the naturals the model feeds them                   *)
(* ------------------------------------------------------------------------------------------ *)
Lemma k_is_empty n : Sim_upd_is_empty (Z.of_nat n) = true <-> n = 0.
Proof. unfold Sim_upd_is_empty. lia. Qed.

Lemma k_ragged n : Sim_upd_ragged (Z.of_nat n) = true <-> 1 < n.
Proof. unfold Sim_upd_ragged. lia. Qed.

Lemma k_fits i w l : Sim_upd_fits (Z.of_nat i) (Z.of_nat w) (Z.of_nat l) = true <-> i + l <= w.
Proof. unfold Sim_upd_fits. lia. Qed.

Lemma k_lo i : Z.to_nat (Sim_upd_lo (Z.of_nat i)) = i.
Proof. unfold Sim_upd_lo. lia. Qed.
Lemma k_hi i l : Z.to_nat (Sim_upd_hi (Z.of_nat i) (Z.of_nat l)) = i + l.
Proof. unfold Sim_upd_hi. lia. Qed.
Lemma k_glo i : Z.to_nat (Sim_upd_glo (Z.of_nat i)) = i.
Proof. unfold Sim_upd_glo. lia. Qed.
Lemma k_ghi i l : Z.to_nat (Sim_upd_ghi (Z.of_nat i) (Z.of_nat l)) = i + l.
Proof. unfold Sim_upd_ghi. lia. Qed.

(* width requested by the growth branch: max(last + 1 | 0, iteration + length) — for EVERY value
   of get_last_timestamp(), None (drained queue) included *)
Definition grow_width (last : option Z) (i l : nat) : nat :=
  Nat.max (match last with None => 0 | Some v => Z.to_nat (v + 1) end) (i + l).

Lemma k_grow_width i last l :
  Z.to_nat (Sim_upd_grow_width (Z.of_nat i) last (Z.of_nat l)) = grow_width last i l.
Proof. unfold Sim_upd_grow_width, grow_width. destruct last; lia. Qed.

Lemma k_incw_keep w t : Sim_incw_keep (Z.of_nat w) t = true <-> (t <= Z.of_nat w)%Z.
Proof. unfold Sim_incw_keep. lia. Qed.

Lemma k_next i : Z.to_nat (Sim_run_next_iteration (Z.of_nat i)) = S i.
Proof. unfold Sim_run_next_iteration. lia. Qed.

Lemma k_col i : Z.to_nat (Net_update_pilots_col (Z.of_nat i)) = i.
Proof. unfold Net_update_pilots_col. lia. Qed.

Lemma k_run_width_none it : run_width None it = Z.of_nat (it + 1).
Proof. unfold run_width, Sim_run_width_increase. simpl. lia. Qed.
Lemma k_run_width_some v it : run_width (Some v) it = (v + 1)%Z.
Proof. unfold run_width, Sim_run_width_increase. simpl. lia. Qed.
(* the placeholder passed for get_last_timestamp() when the queue is empty is never looked at *)
Lemma k_run_width_dummy i x y : Sim_run_width_increase i x true = Sim_run_width_increase i y true.
Proof. reflexivity. Qed.

(* ------------------------------------------------------------------------------------------ *)
(* list helpers                                                                                *)
(* ------------------------------------------------------------------------------------------ *)
Section ListHelpers.
  Context {A : Type}.

  Lemma nth_firstn_lt (l : list A) n i d : i < n -> nth i (firstn n l) d = nth i l d.
  Proof.
    revert n i. induction l as [|x l IH]; intros n i H.
    - rewrite firstn_nil. reflexivity.
    - destruct n; [lia|]. destruct i; simpl; auto. apply IH. lia.
  Qed.

  Lemma nth_skipn_add (l : list A) n i d : nth i (skipn n l) d = nth (n + i) l d.
  Proof.
    revert n. induction l as [|x l IH]; intros n.
    - rewrite skipn_nil. destruct i, n; reflexivity.
    - destruct n; simpl; auto.
  Qed.

  Lemma nth_repeat_same (x : A) n i : nth i (repeat x n) x = x.
  Proof. revert i. induction n; destruct i; simpl; auto. Qed.

  Lemma nth_app_pad (l : list A) z n i : nth i (l ++ repeat z n) z = nth i l z.
  Proof.
    destruct (Nat.lt_ge_cases i (length l)) as [H|H].
    - now rewrite app_nth1.
    - rewrite app_nth2 by lia. rewrite nth_repeat_same. now rewrite nth_overflow.
  Qed.

  Lemma nth_error_nth_eq (l : list A) i x d : nth_error l i = Some x -> nth i l d = x /\ i < length l.
  Proof.
    revert i. induction l; destruct i; simpl; intros H; try discriminate.
    - inversion H. split; auto. lia.
    - apply IHl in H. destruct H. split; auto. lia.
  Qed.
End ListHelpers.

Inductive Forall3 {X Y Z : Type} (R : X -> Y -> Z -> Prop) : list X -> list Y -> list Z -> Prop :=
| F3_nil : Forall3 R [] [] []
| F3_cons x y z xs ys zs : R x y z -> Forall3 R xs ys zs -> Forall3 R (x :: xs) (y :: ys) (z :: zs).

Lemma Forall3_nth_error {X Y Z} (R : X -> Y -> Z -> Prop) xs ys zs :
  Forall3 R xs ys zs ->
  length zs = length xs /\
  forall i x y, nth_error xs i = Some x -> nth_error ys i = Some y ->
    exists z, nth_error zs i = Some z /\ R x y z.
Proof.
  induction 1 as [|x y z xs ys zs H H3 [IHl IH]]; split; simpl; auto.
  - intros [|i] ? ? ?; discriminate.
  - intros [|i] x0 y0 Hx Hy; simpl in *.
    + inversion Hx; inversion Hy; subst. eauto.
    + eauto.
Qed.

Lemma Forall2_nth_error {X Y} (R : X -> Y -> Prop) xs ys :
  Forall2 R xs ys ->
  length ys = length xs /\
  forall i x, nth_error xs i = Some x -> exists y, nth_error ys i = Some y /\ R x y.
Proof.
  induction 1 as [|x y xs ys H H2 [IHl IH]]; split; simpl; auto.
  - intros [|i] ? ?; discriminate.
  - intros [|i] x0 Hx; simpl in *.
    + inversion Hx; subst. eauto.
    + eauto.
Qed.

Lemma Forall2_Forall3 {X Y Z} (P : X -> Y -> Prop) (R : X -> Y -> Z -> Prop) (Q : X -> Z -> Prop) xs ys zs :
  Forall2 P xs ys -> Forall3 R xs ys zs ->
  (forall x y z, P x y -> R x y z -> Q x z) -> Forall2 Q xs zs.
Proof.
  intros H2 H3 HQ. induction H3; inversion H2; subst; constructor; eauto.
Qed.

Lemma Forall2_map_r {X Y Y'} (P : X -> Y -> Prop) (P' : X -> Y' -> Prop) (f : Y -> Y') xs ys :
  Forall2 P xs ys -> (forall x y, P x y -> P' x (f y)) -> Forall2 P' xs (map f ys).
Proof. induction 1; simpl; constructor; auto. Qed.

Lemma Forall2_impl' {X Y} (P Q : X -> Y -> Prop) xs ys :
  Forall2 P xs ys -> (forall x y, P x y -> Q x y) -> Forall2 Q xs ys.
Proof. induction 1; constructor; auto. Qed.

(* ------------------------------------------------------------------------------------------ *)
(* set(len(x) ...) as the list of distinct lengths                                             *)
(* ------------------------------------------------------------------------------------------ *)
Lemma In_distinct y l : In y (distinct l) <-> In y l.
Proof.
  induction l as [|x r IH]; simpl; [tauto|].
  rewrite filter_In, IH, negb_true_iff, Nat.eqb_neq.
  destruct (Nat.eq_dec x y); intuition.
Qed.

Lemma NoDup_distinct l : NoDup (distinct l).
Proof.
  induction l as [|x r IH]; simpl; constructor.
  - rewrite filter_In, negb_true_iff, Nat.eqb_neq. intuition.
  - now apply NoDup_filter.
Qed.

Lemma distinct_hd l : hd 0 (distinct l) = hd 0 l.
Proof. destruct l; reflexivity. Qed.

Lemma distinct_uniform l : length (distinct l) <= 1 -> forall x, In x l -> x = hd 0 l.
Proof.
  destruct l as [|a r]; simpl; intros H x Hx; [tauto|].
  destruct Hx as [Hx|Hx]; [auto|].
  destruct (Nat.eq_dec x a) as [|Hne]; auto. exfalso.
  assert (Hin : In x (filter (fun y => negb (y =? a)) (distinct r))).
  { rewrite filter_In, In_distinct, negb_true_iff, Nat.eqb_neq. auto. }
  destruct (filter _ _); simpl in *; [tauto|lia].
Qed.

Lemma distinct_two l a b : In a l -> In b l -> a <> b -> 1 < length (distinct l).
Proof.
  intros Ha Hb Hne. apply In_distinct in Ha. apply In_distinct in Hb.
  destruct (distinct l) as [|x [|y t]]; simpl in *.
  - tauto.
  - destruct Ha as [Ha|[]], Hb as [Hb|[]]. congruence.
  - lia.
Qed.

Lemma distinct_perm l l' : Permutation l l' -> Permutation (distinct l) (distinct l').
Proof.
  intro H. apply NoDup_Permutation; try apply NoDup_distinct.
  intro x. rewrite !In_distinct. split; apply Permutation_in; auto. now apply Permutation_sym.
Qed.

Lemma perm_short_eq (l l' : list nat) : Permutation l l' -> length l <= 1 -> l = l'.
Proof.
  intros H Hl. destruct l as [|a [|b t]]; simpl in Hl; try lia.
  - apply Permutation_nil in H. now subst.
  - apply Permutation_length_1_inv in H. now subst.
Qed.

Lemma filter_none {X} (f : X -> bool) l : (forall x, In x l -> f x = false) -> filter f l = [].
Proof.
  induction l as [|a l IH]; simpl; intro H; auto.
  rewrite (H a) by auto. apply IH. intros x Hx. apply H. auto.
Qed.

Lemma existsb_perm {X} (f : X -> bool) l l' : Permutation l l' -> existsb f l = existsb f l'.
Proof.
  intro H. destruct (existsb f l) eqn:E1, (existsb f l') eqn:E2; auto.
  - apply existsb_exists in E1. destruct E1 as [x [Hin Hx]].
    assert (existsb f l' = true) by (apply existsb_exists; exists x; split; auto; eapply Permutation_in; eauto).
    congruence.
  - apply existsb_exists in E2. destruct E2 as [x [Hin Hx]].
    assert (existsb f l = true) by (apply existsb_exists; exists x; split; auto;
      eapply Permutation_in; [apply Permutation_sym|]; eauto).
    congruence.
Qed.

(* ------------------------------------------------------------------------------------------ *)
(* the model                                                                                   *)
(* ------------------------------------------------------------------------------------------ *)
Section Proofs.
  Context {K A : Type}.
  Variable keqb : K -> K -> bool.
  Variable zero : A.

  Notation lookup := (lookup keqb).
  Notation known := (known keqb).
  Notation dense := (dense keqb zero).
  Notation sched_val := (sched_val keqb zero).
  Notation pilot_spec := (pilot_spec keqb zero).
  Notation update_schedules := (update_schedules keqb zero).
  Notation increase_width := (increase_width zero).
  Notation step := (step keqb zero).
  Notation run := (run keqb zero).
  Notation init := (init zero).

  (* a well-formed matrix for n stations: n rows, all of the recorded width *)
  Definition wfm (n : nat) (m : pmat A) : Prop :=
    length (rows m) = n /\ forall r, In r (rows m) -> length r = wid m.

  (* ---------------- _increase_width ---------------- *)
  Lemma increase_width_wid m t : wid (increase_width m t) = Nat.max (wid m) (Z.to_nat t).
  Proof.
    unfold increase_width. destruct (Sim_incw_keep _ _) eqn:E; simpl.
    - apply k_incw_keep in E. lia.
    - assert (~ (t <= Z.of_nat (wid m))%Z) by (rewrite <- k_incw_keep; congruence). lia.
  Qed.

  Lemma increase_width_rows m t :
    rows (increase_width m t) =
    map (fun r => r ++ repeat zero (wid (increase_width m t) - wid m)) (rows m).
  Proof.
    unfold increase_width. destruct (Sim_incw_keep _ _) eqn:E; simpl; auto.
    rewrite Nat.sub_diag. simpl. rewrite <- (map_id (rows m)) at 1.
    apply map_ext. intro r. now rewrite app_nil_r.
  Qed.

  Lemma increase_width_wfm n m t : wfm n m -> wfm n (increase_width m t).
  Proof.
    intros [Hn Hr]. split.
    - rewrite increase_width_rows, map_length. auto.
    - intros r. rewrite increase_width_rows, in_map_iff. intros [r0 [<- Hin]].
      rewrite app_length, repeat_length, (Hr _ Hin).
      pose proof (increase_width_wid m t). lia.
  Qed.

  (* ---------------- block write ---------------- *)
  Lemma write_row_some lo hi (r d : list A) :
    lo <= hi -> hi <= length r -> length d = hi - lo ->
    exists r', write_row lo hi r d = Some r' /\ length r' = length r /\
      forall t, nth t r' zero = if (lo <=? t) && (t <? hi) then nth (t - lo) d zero else nth t r zero.
  Proof.
    intros H1 H2 H3. unfold write_row.
    assert (E : (lo <=? hi) && (hi <=? length r) && (length d =? hi - lo) = true).
    { rewrite !andb_true_iff, !Nat.leb_le, Nat.eqb_eq. auto. }
    rewrite E. eexists. split; [reflexivity|]. split.
    - rewrite !app_length, firstn_length, skipn_length. lia.
    - intro t.
      assert (Lf : length (firstn lo r) = lo) by (rewrite firstn_length; lia).
      destruct (lo <=? t) eqn:E1; simpl.
      + apply Nat.leb_le in E1. rewrite app_nth2 by lia. rewrite Lf.
        destruct (t <? hi) eqn:E2.
        * apply Nat.ltb_lt in E2. rewrite app_nth1 by lia. reflexivity.
        * apply Nat.ltb_ge in E2. rewrite app_nth2 by lia. rewrite nth_skipn_add. f_equal. lia.
      + apply Nat.leb_gt in E1. rewrite app_nth1 by lia. now apply nth_firstn_lt.
  Qed.

  Lemma write_block_map lo hi (f : K -> list A) (R : K -> list A -> list A -> Prop) ids rs :
    length rs = length ids ->
    (forall k r, In k ids -> In r rs -> exists r', write_row lo hi r (f k) = Some r' /\ R k r r') ->
    exists rs', write_block lo hi rs (map f ids) = Some rs' /\ Forall3 R ids rs rs'.
  Proof.
    revert rs. induction ids as [|k ids IH]; intros [|r rs] Hl H; simpl in Hl; try discriminate.
    - exists []. split; [reflexivity|constructor].
    - destruct (H k r) as [r' [Hw HR]]; simpl; auto.
      destruct (IH rs) as [rs' [Hb H3]]; [lia| |].
      { intros k0 r0 Hk Hr. apply H; simpl; auto. }
      exists (r' :: rs'). simpl. rewrite Hw, Hb. split; [reflexivity|now constructor].
  Qed.

  (* ---------------- schedules ---------------- *)
  Lemma lookup_In k (s : schedule K A) row : lookup k s = Some row -> exists k', In (k', row) s.
  Proof.
    induction s as [|[k' r] s IH]; simpl; [discriminate|].
    destruct (keqb k k').
    - intro H. inversion H. subst. eauto.
    - intro H. destruct (IH H) as [k'' ?]. eauto.
  Qed.

  Definition uniform (s : schedule K A) (len : nat) : Prop := forall k row, In (k, row) s -> length row = len.
  Definition all_known (ids : list K) (s : schedule K A) : Prop := forall k row, In (k, row) s -> known ids k = true.

  Lemma uniform_sub_len (s : schedule K A) len : s <> [] -> uniform s len -> sub_len s = len.
  Proof. destruct s as [|[k row] s]; [congruence|]. intros _ H. simpl. apply (H k row). now left. Qed.

  Lemma lengths_uniform (s : schedule K A) len : s <> [] -> uniform s len -> lengths s = [len].
  Proof.
    intros Hne Hu. unfold lengths.
    assert (Hall : forall x, In x (map (fun kv => length (snd kv)) s) -> x = len).
    { intros x Hx. apply in_map_iff in Hx. destruct Hx as [[k row] [<- Hin]]. simpl. eauto. }
    destruct s as [|[k0 row0] s]; [congruence|]. simpl.
    rewrite (Hu k0 row0) by (now left).
    replace (filter _ _) with (@nil nat); auto.
    symmetry. apply filter_none.
    intros x Hx. apply -> In_distinct in Hx. rewrite (Hall x) by (simpl; auto).
    now rewrite Nat.eqb_refl.
  Qed.

  Lemma dense_row_len (ids : list K) len (s : schedule K A) k :
    uniform s len ->
    length (match lookup k s with Some row => row | None => repeat zero len end) = len.
  Proof.
    intro Hu. destruct (lookup k s) eqn:E.
    - apply lookup_In in E. destruct E as [k' Hin]. eauto.
    - apply repeat_length.
  Qed.

  Lemma dense_row_nth len (s : schedule K A) k j :
    nth j (match lookup k s with Some row => row | None => repeat zero len end) zero = sched_val s k j.
  Proof. unfold Pilots.sched_val. destruct (lookup k s); auto. apply nth_repeat_same. Qed.

  (* ---------------- _update_schedules: acceptance ---------------- *)
  (* row r' is row r with the block of schedule s written at columns it .. it+len-1;
     columns that did not exist in r read as `zero` (nth default) *)
  Definition written (it len : nat) (s : schedule K A) (k : K) (r r' : list A) : Prop :=
    forall t, nth t r' zero =
              if (it <=? t) && (t <? it + len) then sched_val s k (t - it) else nth t r zero.

  Lemma write_cols_dense (ids : list K) it len (s : schedule K A) (p : pmat A) lo hi :
    Z.to_nat lo = it -> Z.to_nat hi = it + len ->
    wfm (length ids) p -> uniform s len -> it + len <= wid p ->
    exists p', write_cols p lo hi (dense ids len s) = Some p' /\ wid p' = wid p /\
      Forall3 (fun k r r' => length r' = wid p /\ written it len s k r r') ids (rows p) (rows p').
  Proof.
    intros Hlo Hhi [Hn Hr] Hu Hfit. unfold write_cols. rewrite Hlo, Hhi. unfold Pilots.dense.
    destruct (write_block_map it (it + len)
                (fun k => match lookup k s with Some row => row | None => repeat zero len end)
                (fun k r r' => length r' = wid p /\ written it len s k r r') ids (rows p) Hn)
      as [rs' [Hb H3]].
    - intros k r _ Hin.
      destruct (write_row_some it (it + len) r
                  (match lookup k s with Some row => row | None => repeat zero len end))
        as [r' [Hw [Hl Hnth]]]; try lia.
      + rewrite (Hr _ Hin). lia.
      + rewrite (dense_row_len ids len s k Hu). lia.
      + exists r'. split; auto. split; [rewrite Hl; auto|].
        intro t. rewrite Hnth. now rewrite dense_row_nth.
    - rewrite Hb. eexists. split; [reflexivity|]. simpl. auto.
  Qed.

  Lemma Forall3_map2 {X Y Y' Z} (R : X -> Y' -> Z -> Prop) (R' : X -> Y -> Z -> Prop) (f : Y -> Y') xs ys zs :
    Forall3 R xs (map f ys) zs -> (forall x y z, R x (f y) z -> R' x y z) -> Forall3 R' xs ys zs.
  Proof.
    intros H HR. remember (map f ys) as ys' eqn:E. revert ys E.
    induction H; intros [|y0 ys0] E; simpl in E; try discriminate; constructor.
    - inversion E; subst. auto.
    - inversion E; subst. auto.
  Qed.

  Lemma Forall3_In3 {X Y Z} (R : X -> Y -> Z -> Prop) xs ys zs z :
    Forall3 R xs ys zs -> In z zs -> exists x y, R x y z.
  Proof. induction 1; simpl; [tauto|]. intros [<-|Hin]; eauto. Qed.

  Lemma Forall3_impl {X Y Z} (R R' : X -> Y -> Z -> Prop) xs ys zs :
    Forall3 R xs ys zs -> (forall x y z, R x y z -> R' x y z) -> Forall3 R' xs ys zs.
  Proof. induction 1; constructor; auto. Qed.

  Lemma grow_width_ge last i l : i + l <= grow_width last i l.
  Proof. unfold grow_width. lia. Qed.

  (* every well-formed non-empty schedule is accepted: at every iteration, for every length,
     whatever get_last_timestamp() returns (None = drained queue included) *)
  Lemma update_accept (ids : list K) last it (p : pmat A) (s : schedule K A) len :
    wfm (length ids) p -> s <> [] -> all_known ids s -> uniform s len ->
    exists p', update_schedules ids last it p s = OkS p' /\
      wid p' = (if it + len <=? wid p then wid p else grow_width last it len) /\
      Forall3 (fun k r r' => length r' = wid p' /\ written it len s k r r') ids (rows p) (rows p').
  Proof.
    intros Hwf Hne Hk Hu. unfold Pilots.update_schedules.
    destruct (Sim_upd_is_empty _) eqn:E0.
    { apply k_is_empty in E0. destruct s; [congruence|discriminate]. }
    destruct (existsb _ s) eqn:E1.
    { apply existsb_exists in E1. destruct E1 as [[k row] [Hin Hx]]. simpl in Hx.
      rewrite (Hk k row Hin) in Hx. discriminate. }
    rewrite (lengths_uniform s len Hne Hu). simpl hd. simpl length.
    destruct (Sim_upd_ragged _) eqn:E2.
    { apply (k_ragged 1) in E2. lia. }
    destruct (Sim_upd_fits _ _ _) eqn:E3.
    - apply k_fits in E3.
      destruct (write_cols_dense ids it len s p (Sim_upd_lo (Z.of_nat it))
                  (Sim_upd_hi (Z.of_nat it) (Z.of_nat len)) (k_lo it) (k_hi it len) Hwf Hu E3)
        as [p' [Hw [Hwid H3]]].
      rewrite Hw. exists p'. split; auto.
      assert (Eb : (it + len <=? wid p) = true) by now apply Nat.leb_le.
      rewrite Eb. split; auto. rewrite Hwid. exact H3.
    - assert (Hnf : ~ it + len <= wid p) by (rewrite <- k_fits; congruence).
      set (p1 := increase_width p (Sim_upd_grow_width (Z.of_nat it) last (Z.of_nat len))).
      assert (Hw1 : wid p1 = grow_width last it len).
      { unfold p1. rewrite increase_width_wid, k_grow_width.
        pose proof (grow_width_ge last it len). lia. }
      assert (Hfit1 : it + len <= wid p1) by (rewrite Hw1; apply grow_width_ge).
      destruct (write_cols_dense ids it len s p1 (Sim_upd_glo (Z.of_nat it))
                  (Sim_upd_ghi (Z.of_nat it) (Z.of_nat len)) (k_glo it) (k_ghi it len)
                  (increase_width_wfm _ _ _ Hwf) Hu Hfit1)
        as [p' [Hw [Hwid H3]]].
      rewrite Hw. exists p'. split; auto.
      assert (Eb : (it + len <=? wid p) = false) by (apply Nat.leb_gt; lia).
      rewrite Eb. split; [lia|].
      unfold p1 in H3 at 2. rewrite increase_width_rows in H3.
      eapply Forall3_map2; [exact H3|].
      intros k r r' [Hl Hwr]. split; [fold p1 in Hl; lia|].
      intro t. rewrite Hwr. now rewrite nth_app_pad.
  Qed.

  Lemma update_accept_wfm (ids : list K) (p p' : pmat A) (R : K -> list A -> list A -> Prop) :
    Forall3 (fun k r r' => length r' = wid p' /\ R k r r') ids (rows p) (rows p') -> wfm (length ids) p'.
  Proof.
    intro H3. split.
    - apply (Forall3_nth_error _ _ _ _ H3).
    - intros r' Hin. destruct (Forall3_In3 _ _ _ _ _ H3 Hin) as [k [r [Hl _]]]. exact Hl.
  Qed.

  (* what an accepted call tells about its argument *)
  Lemma update_ok_inv (ids : list K) last it (p p' : pmat A) (s : schedule K A) :
    update_schedules ids last it p s = OkS p' ->
    (s = [] /\ p' = p) \/ (s <> [] /\ all_known ids s /\ uniform s (sub_len s)).
  Proof.
    unfold Pilots.update_schedules.
    destruct (Sim_upd_is_empty _) eqn:E0.
    { apply k_is_empty in E0. intro H. left. split; [now destruct s|congruence]. }
    destruct (existsb _ s) eqn:E1; [discriminate|].
    destruct (Sim_upd_ragged _) eqn:E2; [discriminate|]. intros _. right.
    split. { intro; subst. discriminate E0. }
    split.
    - intros k row Hin. destruct (known ids k) eqn:Ek; auto.
      assert (existsb (fun kv : K * list A => negb (known ids (fst kv))) s = true).
      { apply existsb_exists. exists (k, row). simpl. rewrite Ek. auto. }
      congruence.
    - assert (Hle : length (lengths s) <= 1).
      { destruct (Nat.le_gt_cases (length (lengths s)) 1); auto.
        assert (Sim_upd_ragged (Z.of_nat (length (lengths s))) = true) by now apply k_ragged.
        congruence. }
      intros k row Hin.
      replace (sub_len s) with (hd 0 (map (fun kv : K * list A => length (snd kv)) s))
        by (destruct s as [|[? ?] ?]; reflexivity).
      apply (distinct_uniform _ Hle). apply in_map_iff. exists (k, row). auto.
  Qed.

  (* ---------------- _update_schedules: rejection ---------------- *)
  Lemma update_empty (ids : list K) last it (p : pmat A) : update_schedules ids last it p [] = OkS p.
  Proof. reflexivity. Qed.

  Lemma update_unknown (ids : list K) last it (p : pmat A) (s : schedule K A) k row :
    In (k, row) s -> known ids k = false -> update_schedules ids last it p s = ErrS "KeyError"%string p.
  Proof.
    intros Hin Hk. unfold Pilots.update_schedules.
    destruct (Sim_upd_is_empty _) eqn:E0.
    { apply k_is_empty in E0. destruct s; [destruct Hin|discriminate]. }
    replace (existsb _ s) with true; auto.
    symmetry. apply existsb_exists. exists (k, row). simpl. rewrite Hk. auto.
  Qed.

  Lemma update_ragged (ids : list K) last it (p : pmat A) (s : schedule K A) k1 r1 k2 r2 :
    all_known ids s -> In (k1, r1) s -> In (k2, r2) s -> length r1 <> length r2 ->
    update_schedules ids last it p s = ErrS "InvalidScheduleError"%string p.
  Proof.
    intros Hk H1 H2 Hne. unfold Pilots.update_schedules.
    destruct (Sim_upd_is_empty _) eqn:E0.
    { apply k_is_empty in E0. destruct s; [destruct H1|discriminate]. }
    destruct (existsb _ s) eqn:E1.
    { apply existsb_exists in E1. destruct E1 as [[k row] [Hin Hx]]. simpl in Hx.
      rewrite (Hk k row Hin) in Hx. discriminate. }
    replace (Sim_upd_ragged _) with true; auto.
    symmetry. apply k_ragged. unfold lengths.
    apply (distinct_two _ (length r1) (length r2)); auto; apply in_map_iff.
    - exists (k1, r1). auto.
    - exists (k2, r2). auto.
  Qed.

  (* ---------------- order independence ---------------- *)
  Section Order.
    Hypothesis keqb_spec : forall a b, keqb a b = true <-> a = b.

    Lemma known_In (ids : list K) k : known ids k = true <-> In k ids.
    Proof.
      unfold Pilots.known. rewrite existsb_exists. split.
      - intros [x [Hin Hx]]. apply keqb_spec in Hx. now subst.
      - intro H. exists k. split; auto. now apply keqb_spec.
    Qed.

    Lemma lookup_Some (s : schedule K A) k row :
      NoDup (map fst s) -> (lookup k s = Some row <-> In (k, row) s).
    Proof.
      induction s as [|[k' r] s IH]; simpl; intro Hnd.
      - split; [discriminate|tauto].
      - inversion Hnd as [|? ? Hnotin Hnd']; subst.
        destruct (keqb k k') eqn:E.
        + apply keqb_spec in E. subst k'. split.
          * intro H. inversion H. auto.
          * intros [H|H]; [inversion H; auto|].
            exfalso. apply Hnotin. apply in_map_iff. exists (k, row). auto.
        + rewrite (IH Hnd'). split; auto.
          intros [H|H]; auto. inversion H; subst.
          assert (keqb k k = true) by now apply keqb_spec. congruence.
    Qed.

    Lemma lookup_perm (s s' : schedule K A) k :
      Permutation s s' -> NoDup (map fst s) -> lookup k s = lookup k s'.
    Proof.
      intros Hp Hnd.
      assert (Hnd' : NoDup (map fst s')).
      { eapply Permutation_NoDup; [|exact Hnd]. now apply Permutation_map. }
      destruct (lookup k s) as [row|] eqn:E.
      - symmetry. apply (lookup_Some s' k row Hnd'). apply (lookup_Some s k row Hnd) in E.
        eapply Permutation_in; eauto.
      - destruct (lookup k s') as [row|] eqn:E'; auto.
        apply (lookup_Some s' k row Hnd') in E'.
        assert (Hin : In (k, row) s) by (eapply Permutation_in; [apply Permutation_sym|]; eauto).
        apply (lookup_Some s k row Hnd) in Hin. congruence.
    Qed.

    (* the outcome of _update_schedules (new matrix, or exception class and state) does not depend
       on the order of the mapping's entries *)
    Lemma update_perm (ids : list K) last it (p : pmat A) (s s' : schedule K A) :
      Permutation s s' -> NoDup (map fst s) ->
      update_schedules ids last it p s = update_schedules ids last it p s'.
    Proof.
      intros Hp Hnd. unfold Pilots.update_schedules.
      rewrite (Permutation_length Hp).
      rewrite (existsb_perm _ _ _ Hp).
      assert (HL : Permutation (lengths s) (lengths s')).
      { unfold lengths. apply distinct_perm. now apply Permutation_map. }
      rewrite (Permutation_length HL).
      destruct (Sim_upd_is_empty _); auto.
      destruct (existsb _ s'); auto.
      destruct (Sim_upd_ragged _) eqn:E2; auto.
      assert (Hle : length (lengths s) <= 1).
      { rewrite (Permutation_length HL).
        destruct (Nat.le_gt_cases (length (lengths s')) 1) as [|Hgt]; auto.
        apply k_ragged in Hgt. congruence. }
      rewrite <- (perm_short_eq _ _ HL Hle).
      replace (dense ids (hd 0 (lengths s)) s') with (dense ids (hd 0 (lengths s)) s); auto.
      unfold Pilots.dense. apply map_ext. intro k. now rewrite (lookup_perm s s' k Hp Hnd).
    Qed.
  End Order.

  (* ------------------------------------------------------------------------------------------ *)
  (* the matrix as a function of the submissions                                                 *)
  (* ------------------------------------------------------------------------------------------ *)
  Definition row_ok (w : nat) (g : K -> nat -> A) (k : K) (r : list A) : Prop :=
    length r = w /\ forall t, t < w -> nth t r zero = g k t.
  (* row s of the matrix holds g (station s) t in column t *)
  Definition mat_ok (ids : list K) (m : pmat A) (g : K -> nat -> A) : Prop :=
    Forall2 (row_ok (wid m) g) ids (rows m).
  Definition beyond_zero (g : K -> nat -> A) (w : nat) : Prop := forall k t, w <= t -> g k t = zero.

  Lemma mat_ok_wfm ids m g : mat_ok ids m g -> wfm (length ids) m.
  Proof.
    intro H. split.
    - apply (Forall2_nth_error _ _ _ H).
    - unfold mat_ok in H. induction H as [|k r ids rs [Hl _] H2 IH]; simpl; [tauto|].
      intros r0 [<-|Hin]; auto.
  Qed.

  Lemma mat_ok_ext ids m g g' : (forall k t, g k t = g' k t) -> mat_ok ids m g -> mat_ok ids m g'.
  Proof.
    intros He H. eapply Forall2_impl'; [exact H|].
    intros k r [Hl Hn]. split; auto. intros t Ht. rewrite <- He. auto.
  Qed.

  Lemma pilot_spec_cons it (s : schedule K A) subs k t :
    pilot_spec ((it, s) :: subs) k t =
    if (it <=? t) && (t <? it + sub_len s) then sched_val s k (t - it) else pilot_spec subs k t.
  Proof. reflexivity. Qed.

  Lemma pilot_spec_empty it subs k t : pilot_spec ((it, []) :: subs) k t = pilot_spec subs k t.
  Proof.
    rewrite pilot_spec_cons. simpl sub_len.
    replace ((it <=? t) && (t <? it + 0)) with false; auto.
    symmetry. apply andb_false_iff. destruct (it <=? t) eqn:E; auto.
    right. apply Nat.leb_le in E. apply Nat.ltb_ge. lia.
  Qed.

  (* an accepted submission turns the overlay of the earlier submissions into the overlay
     including the new one *)
  Lemma update_spec (ids : list K) last it (p p' : pmat A) (s : schedule K A) subs :
    mat_ok ids p (pilot_spec subs) -> beyond_zero (pilot_spec subs) (wid p) ->
    update_schedules ids last it p s = OkS p' ->
    mat_ok ids p' (pilot_spec ((it, s) :: subs)) /\
    beyond_zero (pilot_spec ((it, s) :: subs)) (wid p') /\ wid p <= wid p'.
  Proof.
    intros Hm Hb Hu.
    destruct (update_ok_inv ids last it p p' s Hu) as [[-> ->]|[Hne [Hk Hun]]].
    - split; [|split]; auto.
      + eapply mat_ok_ext; [|exact Hm]. intros. now rewrite pilot_spec_empty.
      + intros k t Ht. rewrite pilot_spec_empty. auto.
    - destruct (update_accept ids last it p s (sub_len s) (mat_ok_wfm _ _ _ Hm) Hne Hk Hun)
        as [p'' [Hu' [Hw H3]]].
      rewrite Hu in Hu'. inversion Hu'; subst p''. clear Hu'.
      assert (Hge : wid p <= wid p' /\ it + sub_len s <= wid p').
      { rewrite Hw. destruct (it + sub_len s <=? wid p) eqn:E.
        - apply Nat.leb_le in E. lia.
        - apply Nat.leb_gt in E. pose proof (grow_width_ge last it (sub_len s)). lia. }
      split; [|split]; try tauto.
      + unfold mat_ok. eapply Forall2_Forall3; [exact Hm|exact H3|].
        intros k r r' [Hl Hn] [Hl' Hwr]. split; auto.
        intros t Ht. rewrite Hwr, pilot_spec_cons.
        destruct ((it <=? t) && (t <? it + sub_len s)); auto.
        destruct (Nat.lt_ge_cases t (wid p)) as [Hlt|Hge'].
        * auto.
        * rewrite nth_overflow by lia. symmetry. auto.
      + intros k t Ht. rewrite pilot_spec_cons.
        replace ((it <=? t) && (t <? it + sub_len s)) with false.
        * apply Hb. lia.
        * symmetry. apply andb_false_iff. right. apply Nat.ltb_ge. lia.
  Qed.

  Lemma increase_width_mat_ok ids m g t :
    mat_ok ids m g -> beyond_zero g (wid m) ->
    mat_ok ids (increase_width m t) g /\ beyond_zero g (wid (increase_width m t)).
  Proof.
    intros Hm Hb. pose proof (increase_width_wid m t) as Hw. split.
    - unfold mat_ok. rewrite increase_width_rows.
      eapply Forall2_map_r; [exact Hm|].
      intros k r [Hl Hn]. split.
      + rewrite app_length, repeat_length. lia.
      + intros j Hj. rewrite nth_app_pad.
        destruct (Nat.lt_ge_cases j (wid m)); auto.
        rewrite nth_overflow by lia. symmetry. auto.
    - intros k j Hj. apply Hb. lia.
  Qed.

  Lemma read_col_spec (ids : list K) w g i rs row :
    Forall2 (row_ok w g) ids rs -> read_col i rs = Some row -> row = map (fun k => g k i) ids.
  Proof.
    intro H. revert row. induction H as [|k r ids rs [Hl Hn] H2 IH]; simpl; intros row Hr.
    - now inversion Hr.
    - destruct (nth_error r i) as [x|] eqn:Ex; [|discriminate].
      destruct (read_col i rs) as [xs|]; [|discriminate]. inversion Hr; subst.
      destruct (nth_error_nth_eq r i x zero Ex) as [Hx Hi].
      rewrite (IH xs eq_refl). f_equal. rewrite <- Hx. apply Hn. lia.
  Qed.

  (* ------------------------------------------------------------------------------------------ *)
  (* one period / a whole run                                                                    *)
  (* ------------------------------------------------------------------------------------------ *)
  Notation upto := (@upto K A).

  Lemma pilot_spec_upto subs k t : pilot_spec (upto t subs) k t = pilot_spec subs k t.
  Proof.
    induction subs as [|[t' s] subs IH]; simpl; auto.
    destruct (t' <=? t) eqn:E; simpl.
    - rewrite E, IH. reflexivity.
    - rewrite IH. reflexivity.
  Qed.

  Lemma upto_all t (subs : list (nat * schedule K A)) :
    (forall e, In e subs -> fst e <= t) -> upto t subs = subs.
  Proof.
    induction subs as [|e subs IH]; simpl; intro H; auto.
    assert (E : (fst e <=? t) = true) by (apply Nat.leb_le; apply H; auto).
    rewrite E, IH; auto.
  Qed.

  (* invariant at the start of every period *)
  Record Inv (ids : list K) (st : sim K A) : Prop := {
    inv_mat : mat_ok ids (pil st) (pilot_spec (hist st));
    inv_beyond : beyond_zero (pilot_spec (hist st)) (wid (pil st));
    inv_past : forall e, In e (hist st) -> fst e < itn st;
    inv_len : length (sent st) = itn st;
    inv_sent : forall t row, nth_error (rev (sent st)) t = Some row ->
                 row = map (fun k => pilot_spec (upto t (hist st)) k t) ids
  }.

  Lemma send_spec (ids : list K) last (st1 st' : sim K A) :
    mat_ok ids (pil st1) (pilot_spec (hist st1)) ->
    beyond_zero (pilot_spec (hist st1)) (wid (pil st1)) ->
    send zero last st1 = OkS st' ->
    mat_ok ids (pil st') (pilot_spec (hist st')) /\
    beyond_zero (pilot_spec (hist st')) (wid (pil st')) /\
    itn st' = S (itn st1) /\ hist st' = hist st1 /\
    sent st' = map (fun k => pilot_spec (hist st1) k (itn st1)) ids :: sent st1 /\
    wid (pil st1) <= wid (pil st').
  Proof.
    intros Hm Hb. unfold send. rewrite k_col, k_next.
    destruct (increase_width_mat_ok ids (pil st1) _ (run_width last (itn st1)) Hm Hb) as [Hm2 Hb2].
    destruct (read_col _ _) as [row|] eqn:Er; [|discriminate].
    intro H. inversion H; subst st'; clear H. simpl.
    repeat split; auto.
    - f_equal. eapply read_col_spec; [exact Hm2|exact Er].
    - rewrite increase_width_wid. lia.
  Qed.

  Lemma step_spec (ids : list K) (st st' : sim K A) pin :
    Inv ids st -> step ids st pin = OkS st' ->
    Inv ids st' /\ itn st' = S (itn st) /\
    hist st' = (match p_sub pin with Some s => (itn st, s) :: hist st | None => hist st end) /\
    sent st' = map (fun k => pilot_spec (hist st') k (itn st)) ids :: sent st /\
    wid (pil st) <= wid (pil st').
  Proof.
    intros [Hm Hb Hp Hl Hs] Hstep. unfold Pilots.step in Hstep.
    assert (Hgoal : forall st1, itn st1 = itn st -> sent st1 = sent st ->
              (forall e, In e (hist st1) -> fst e <= itn st) ->
              (forall t, t < itn st -> upto t (hist st1) = upto t (hist st)) ->
              wid (pil st) <= wid (pil st1) ->
              mat_ok ids (pil st1) (pilot_spec (hist st1)) ->
              beyond_zero (pilot_spec (hist st1)) (wid (pil st1)) ->
              send zero (p_last pin) st1 = OkS st' ->
              Inv ids st' /\ itn st' = S (itn st) /\ hist st' = hist st1 /\
              sent st' = map (fun k => pilot_spec (hist st') k (itn st)) ids :: sent st /\
              wid (pil st) <= wid (pil st')).
    { intros st1 Hi1 Hs1 Hp1 Hu1 Hw1 Hm1 Hb1 Hsend.
      destruct (send_spec ids _ st1 st' Hm1 Hb1 Hsend) as [Hm' [Hb' [Hi' [Hh' [Hs' Hw']]]]].
      rewrite Hi1 in *. rewrite Hs1 in *.
      split; [|repeat split; auto; try lia; rewrite Hh'; auto].
      constructor; auto.
      - rewrite Hh', Hi'. intros e He. apply Hp1 in He. lia.
      - rewrite Hs'. simpl. lia.
      - intros t row. rewrite Hs'. simpl rev. rewrite Hh'.
        destruct (Nat.lt_ge_cases t (length (rev (sent st)))) as [Hlt|Hge].
        + rewrite nth_error_app1 by auto. rewrite rev_length, Hl in Hlt.
          rewrite (Hu1 t Hlt). apply Hs.
        + rewrite nth_error_app2 by auto. rewrite rev_length, Hl in *.
          destruct (t - itn st) as [|d] eqn:Ed; simpl.
          * intro H. inversion H. assert (t = itn st) by lia. subst t.
            apply map_ext. intro k. now rewrite pilot_spec_upto.
          * destruct d; discriminate. }
    destruct (p_sub pin) as [s|].
    - destruct (Pilots.update_schedules keqb zero ids (p_last pin) (itn st) (pil st) s) as [p'|e pe] eqn:Eu;
        [|discriminate].
      destruct (update_spec ids _ _ _ _ _ _ Hm Hb Eu) as [Hm1 [Hb1 Hw1]].
      apply Hgoal in Hstep; simpl; auto.
      + intros e [<-|He]; simpl; auto. apply Hp in He. lia.
      + intros t Ht. assert (E : (itn st <=? t) = false) by (apply Nat.leb_gt; lia).
        now rewrite E.
    - apply Hgoal in Hstep; auto.
      intros e He. apply Hp in He. lia.
  Qed.

  Lemma init_Inv (ids : list K) last0 : Inv ids (init ids last0).
  Proof.
    constructor; simpl; try tauto; auto.
    - unfold mat_ok. simpl. induction ids as [|k ids IH]; simpl; constructor; auto.
      split; [apply repeat_length|]. intros. apply nth_repeat_same.
    - intros k t _. reflexivity.
    - intros [|t] row H; discriminate.
  Qed.

  Lemma run_spec (ids : list K) trace : forall (st st' : sim K A),
    Inv ids st -> run ids st trace = OkS st' ->
    Inv ids st' /\ itn st' = itn st + length trace /\
    hist st' = submitted_from (itn st) trace (hist st) /\ wid (pil st) <= wid (pil st').
  Proof.
    induction trace as [|pin trace IH]; simpl; intros st st' HI Hr.
    - inversion Hr; subst. split; [auto|]. split; [lia|]. split; auto.
    - destruct (step ids st pin) as [st1|e s1] eqn:Es; [|discriminate].
      destruct (step_spec ids st st1 pin HI Es) as [HI1 [Hi1 [Hh1 [_ Hw1]]]].
      destruct (IH st1 st' HI1 Hr) as [HI' [Hi' [Hh' Hw']]].
      split; auto. split; [lia|]. split; [|lia].
      rewrite Hh', Hi1, Hh1. reflexivity.
  Qed.

  (* ---------------- run() is not stopped by well-formed submissions ---------------- *)
  Definition sub_ok (ids : list K) (s : schedule K A) : Prop :=
    s = [] \/ (all_known ids s /\ exists len, uniform s len).

  (* requirements on the inputs of the periods i0, i0+1, ...: every submission is well-formed, and
     events still queued after the events of period i have been processed are not in the past
     (EventQueue.get_current_events(i) removed every event with timestamp <= i) *)
  Fixpoint trace_ok (ids : list K) (i0 : nat) (trace : list (period_in K A)) : Prop :=
    match trace with
    | [] => True
    | pin :: rest =>
        (forall s, p_sub pin = Some s -> sub_ok ids s) /\
        (forall v, p_last pin = Some v -> (Z.of_nat i0 <= v)%Z) /\
        trace_ok ids (S i0) rest
    end.

  Lemma update_accept_any (ids : list K) last it (p : pmat A) (s : schedule K A) :
    wfm (length ids) p -> sub_ok ids s -> exists p', update_schedules ids last it p s = OkS p'.
  Proof.
    intros Hwf [->|[Hk [len Hu]]].
    - exists p. reflexivity.
    - destruct s as [|kv s'] eqn:Es; [exists p; reflexivity|]. rewrite <- Es in *.
      assert (Hne : s <> []) by (rewrite Es; discriminate).
      destruct (update_accept ids last it p s len Hwf Hne Hk Hu) as [p' [H _]]. eauto.
  Qed.

  Lemma read_col_some' i (rs : list (list A)) :
    (forall r, In r rs -> i < length r) -> exists row, read_col i rs = Some row.
  Proof.
    induction rs as [|r rs IH]; simpl; intro H; eauto.
    destruct IH as [row IH]; auto.
    destruct (nth_error r i) eqn:E.
    - rewrite IH. eauto.
    - apply nth_error_None in E. specialize (H r (or_introl eq_refl)). lia.
  Qed.

  Lemma send_some (n : nat) last (st1 : sim K A) :
    wfm n (pil st1) ->
    (forall v, last = Some v -> (Z.of_nat (itn st1) <= v)%Z) ->
    exists st', send zero last st1 = OkS st'.
  Proof.
    intros Hwf Hv. unfold send. rewrite k_col.
    destruct (increase_width_wfm n (pil st1) (run_width last (itn st1)) Hwf) as [_ Hr].
    destruct (read_col_some' (itn st1) (rows (increase_width (pil st1) (run_width last (itn st1))))) as [row Hrow].
    - intros r Hin. rewrite (Hr r Hin), increase_width_wid.
      destruct last as [v|].
      + rewrite k_run_width_some. specialize (Hv v eq_refl). lia.
      + rewrite k_run_width_none. lia.
    - rewrite Hrow. eauto.
  Qed.

  Lemma step_some (ids : list K) (st : sim K A) pin :
    Inv ids st ->
    (forall s, p_sub pin = Some s -> sub_ok ids s) ->
    (forall v, p_last pin = Some v -> (Z.of_nat (itn st) <= v)%Z) ->
    exists st', step ids st pin = OkS st'.
  Proof.
    intros HI Hs Hv. unfold Pilots.step.
    pose proof (mat_ok_wfm _ _ _ (inv_mat _ _ HI)) as Hwf.
    destruct (p_sub pin) as [s|].
    - destruct (update_accept_any ids (p_last pin) (itn st) (pil st) s Hwf (Hs s eq_refl)) as [p' Hu].
      rewrite Hu.
      destruct (update_spec ids _ _ _ _ _ _ (inv_mat _ _ HI) (inv_beyond _ _ HI) Hu) as [Hm1 _].
      apply (send_some (length ids)); simpl; auto. apply (mat_ok_wfm _ _ _ Hm1).
    - apply (send_some (length ids)); auto.
  Qed.

  Lemma run_some (ids : list K) trace : forall (st : sim K A),
    Inv ids st -> trace_ok ids (itn st) trace -> exists st', run ids st trace = OkS st'.
  Proof.
    induction trace as [|pin trace IH]; simpl; intros st HI Hok; eauto.
    destruct Hok as [Hs [Hv Hrest]].
    destruct (step_some ids st pin HI Hs Hv) as [st1 Es]. rewrite Es.
    destruct (step_spec ids st st1 pin HI Es) as [HI1 [Hi1 _]].
    apply IH; auto. now rewrite Hi1.
  Qed.

  (* ------------------------------------------------------------------------------------------ *)
  (* the statements used by Props/C04.v                                                          *)
  (* ------------------------------------------------------------------------------------------ *)
  Lemma run_app (ids : list K) t1 t2 (st : sim K A) :
    run ids st (t1 ++ t2) =
    match run ids st t1 with OkS st1 => run ids st1 t2 | ErrS e s => ErrS e s end.
  Proof.
    revert st. induction t1 as [|pin t1 IH]; simpl; intro st; auto.
    destruct (step ids st pin); auto.
  Qed.

  Lemma mat_ok_rows (ids : list K) (m : pmat A) g :
    mat_ok ids m g ->
    length (rows m) = length ids /\
    forall s k, nth_error ids s = Some k ->
      exists row, nth_error (rows m) s = Some row /\ length row = wid m /\
        forall t, t < wid m -> nth t row zero = g k t.
  Proof.
    intro H. destruct (Forall2_nth_error _ _ _ H) as [Hl Hn]. split; [exact Hl|].
    intros s k Hk. destruct (Hn s k Hk) as [row [Hr [Hlen Hv]]]. eauto.
  Qed.

  Theorem overlay_thm (ids : list K) last0 trace (st : sim K A) :
    run ids (init ids last0) trace = OkS st ->
    length (rows (pil st)) = length ids /\
    (forall s k, nth_error ids s = Some k ->
       exists row, nth_error (rows (pil st)) s = Some row /\ length row = wid (pil st) /\
         forall t, t < wid (pil st) -> nth t row zero = pilot_spec (submitted trace) k t) /\
    (forall k t, wid (pil st) <= t -> pilot_spec (submitted trace) k t = zero).
  Proof.
    intro Hr. destruct (run_spec ids trace _ _ (init_Inv ids last0) Hr) as [HI [_ [Hh _]]].
    simpl in Hh. unfold submitted. rewrite <- Hh.
    destruct (mat_ok_rows _ _ _ (inv_mat _ _ HI)) as [Hl Hrows].
    split; auto. split; auto. apply (inv_beyond _ _ HI).
  Qed.

  Theorem applied_thm (ids : list K) last0 trace (st : sim K A) :
    run ids (init ids last0) trace = OkS st ->
    length (sent st) = length trace /\
    forall t row, nth_error (rev (sent st)) t = Some row ->
      row = map (fun k => pilot_spec (upto t (submitted trace)) k t) ids /\
      row = map (fun k => pilot_spec (submitted trace) k t) ids /\
      (forall s mrow, nth_error (rows (pil st)) s = Some mrow -> nth_error row s = Some (nth t mrow zero)).
  Proof.
    intro Hr. destruct (run_spec ids trace _ _ (init_Inv ids last0) Hr) as [HI [Hi [Hh _]]].
    simpl in Hh, Hi. unfold submitted. rewrite <- Hh. split.
    - rewrite (inv_len _ _ HI). exact Hi.
    - intros t row Hrow. pose proof (inv_sent _ _ HI t row Hrow) as E.
      assert (E2 : row = map (fun k => pilot_spec (hist st) k t) ids).
      { rewrite E. apply map_ext. intro k. apply pilot_spec_upto. }
      split; [exact E|]. split; [exact E2|].
      intros s mrow Hm.
      destruct (mat_ok_rows _ _ _ (inv_mat _ _ HI)) as [Hl Hrows].
      assert (Hs : s < length ids).
      { rewrite <- Hl. apply nth_error_Some. congruence. }
      destruct (nth_error ids s) as [k|] eqn:Ek; [|apply nth_error_None in Ek; lia].
      destruct (Hrows s k Ek) as [row' [Hr' [Hlen Hv]]].
      rewrite Hm in Hr'. inversion Hr'; subst row'.
      rewrite E2. rewrite nth_error_map, Ek. simpl. f_equal.
      destruct (Nat.lt_ge_cases t (wid (pil st))) as [Hlt|Hge].
      + symmetry. auto.
      + rewrite nth_overflow by lia. apply (inv_beyond _ _ HI). exact Hge.
  Qed.

  Theorem increase_width_thm (n : nat) (m : pmat A) target :
    wfm n m ->
    let m' := increase_width m target in
    wfm n m' /\ wid m' = Nat.max (wid m) (Z.to_nat target) /\
    rows m' = map (fun r => r ++ repeat zero (wid m' - wid m)) (rows m) /\
    (forall s r, nth_error (rows m) s = Some r ->
       exists r', nth_error (rows m') s = Some r' /\ forall t, nth t r' zero = nth t r zero).
  Proof.
    intro Hwf. cbv zeta. split; [now apply increase_width_wfm|]. split; [apply increase_width_wid|].
    split; [apply increase_width_rows|].
    intros s r Hr. rewrite increase_width_rows. rewrite nth_error_map, Hr. simpl.
    eexists. split; [reflexivity|]. intro t. apply nth_app_pad.
  Qed.

  Section Final.
    Hypothesis keqb_spec : forall a b, keqb a b = true <-> a = b.

    Lemma all_known_In (ids : list K) (s : schedule K A) :
      (forall k row, In (k, row) s -> In k ids) -> all_known ids s.
    Proof. intros H k row Hin. apply (known_In keqb_spec). eauto. Qed.

    Theorem accept_thm (ids : list K) last it (p : pmat A) (s : schedule K A) len :
      wfm (length ids) p -> s <> [] ->
      (forall k row, In (k, row) s -> In k ids /\ length row = len) ->
      exists p', update_schedules ids last it p s = OkS p' /\ wfm (length ids) p' /\
        wid p' = (if it + len <=? wid p then wid p
                  else Nat.max (match last with None => 0 | Some v => Z.to_nat (v + 1) end) (it + len)) /\
        forall i k r, nth_error ids i = Some k -> nth_error (rows p) i = Some r ->
          exists r', nth_error (rows p') i = Some r' /\ length r' = wid p' /\
            forall t, nth t r' zero =
                      if (it <=? t) && (t <? it + len) then sched_val s k (t - it) else nth t r zero.
    Proof.
      intros Hwf Hne Hs.
      assert (Hk : all_known ids s) by (apply all_known_In; intros k row Hin; apply (Hs k row Hin)).
      assert (Hu : uniform s len) by (intros k row Hin; apply (Hs k row Hin)).
      destruct (update_accept ids last it p s len Hwf Hne Hk Hu) as [p' [Hup [Hw H3]]].
      exists p'. split; auto. split; [eapply update_accept_wfm; exact H3|]. split; [exact Hw|].
      intros i k r Hi Hr. destruct (Forall3_nth_error _ _ _ _ H3) as [_ Hn].
      destruct (Hn i k r Hi Hr) as [r' [Hr' [Hl Hwr]]]. eauto.
    Qed.

    Theorem reject_unknown_thm (ids : list K) last it (p : pmat A) (s : schedule K A) k row :
      In (k, row) s -> ~ In k ids -> update_schedules ids last it p s = ErrS "KeyError"%string p.
    Proof.
      intros Hin Hk. apply (update_unknown ids last it p s k row Hin).
      destruct (known ids k) eqn:E; auto. apply (known_In keqb_spec) in E. tauto.
    Qed.

    Theorem reject_ragged_thm (ids : list K) last it (p : pmat A) (s : schedule K A) k1 r1 k2 r2 :
      (forall k row, In (k, row) s -> In k ids) ->
      In (k1, r1) s -> In (k2, r2) s -> length r1 <> length r2 ->
      update_schedules ids last it p s = ErrS "InvalidScheduleError"%string p.
    Proof. intros Hk. apply update_ragged. now apply all_known_In. Qed.

    (* run(): a malformed submission in period |good| ends the run with the exception, in exactly
       the state reached at the end of the previous period *)
    Theorem reject_run_thm (ids : list K) (st0 st1 : sim K A) good last (s : schedule K A) rest exc :
      run ids st0 good = OkS st1 ->
      update_schedules ids last (itn st1) (pil st1) s = ErrS exc (pil st1) ->
      run ids st0 (good ++ {| p_last := last; p_sub := Some s |} :: rest) = ErrS exc st1.
    Proof.
      intros Hg Hu. rewrite run_app, Hg. simpl. unfold Pilots.step. simpl. rewrite Hu.
      destruct st1; reflexivity.
    Qed.

    Theorem run_accepts_thm (ids : list K) last0 trace :
      trace_ok ids 0 trace -> exists st : sim K A, run ids (init ids last0) trace = OkS st.
    Proof. intro H. apply run_some; [apply init_Inv|exact H]. Qed.

    (* ---------------- order independence of a whole run ---------------- *)
    (* the same period, with the entries of the submitted mapping (if any) in another order *)
    Definition pin_perm (a b : period_in K A) : Prop :=
      p_last a = p_last b /\
      match p_sub a, p_sub b with
      | None, None => True
      | Some s, Some s' => Permutation s s' /\ NoDup (map fst s)
      | _, _ => False
      end.
    (* equal in everything but the order of the entries inside the recorded schedule history *)
    Definition same_pilots (x y : sim K A) : Prop := pil x = pil y /\ itn x = itn y /\ sent x = sent y.
    Definition res_same (r r' : resS (sim K A)) : Prop :=
      match r, r' with
      | OkS a, OkS b => same_pilots a b
      | ErrS e a, ErrS e' b => e = e' /\ same_pilots a b
      | _, _ => False
      end.

    Lemma send_same last (a b : sim K A) : same_pilots a b -> res_same (send zero last a) (send zero last b).
    Proof.
      destruct a, b. unfold same_pilots. simpl. intros [-> [-> ->]]. unfold send. simpl.
      destruct (read_col _ _); simpl; unfold same_pilots; simpl; auto.
    Qed.

    Lemma step_same (ids : list K) (a b : sim K A) pa pb :
      same_pilots a b -> pin_perm pa pb -> res_same (step ids a pa) (step ids b pb).
    Proof.
      intros Hs [Hl Hp]. unfold Pilots.step. rewrite <- Hl.
      destruct (p_sub pa) as [s|], (p_sub pb) as [s'|]; try tauto.
      - destruct Hp as [Hperm Hnd]. destruct Hs as [Hpil [Hit Hsent]].
        rewrite <- Hpil, <- Hit, <- (update_perm keqb_spec ids (p_last pa) (itn a) (pil a) s s' Hperm Hnd).
        destruct (Pilots.update_schedules keqb zero ids (p_last pa) (itn a) (pil a) s) as [p'|e pe].
        + apply send_same. unfold same_pilots. simpl. auto.
        + simpl. unfold same_pilots. simpl. auto.
      - now apply send_same.
    Qed.

    Theorem run_perm_thm (ids : list K) t t' :
      Forall2 pin_perm t t' -> forall a b : sim K A, same_pilots a b -> res_same (run ids a t) (run ids b t').
    Proof.
      induction 1 as [|pa pb t t' Hp H2 IH]; simpl; intros a b Hs; auto.
      pose proof (step_same ids a b pa pb Hs Hp) as Hstep.
      destruct (step ids a pa) as [a1|e a1], (step ids b pb) as [b1|e' b1]; simpl in Hstep; try tauto.
      - now apply IH.
      - exact Hstep.
    Qed.

    (* ---------------- complete classification of the outcomes of _update_schedules ---------------- *)
    Lemma distinct_two_inv l : 1 < length (distinct l) -> exists a b, In a l /\ In b l /\ a <> b.
    Proof.
      intro H. pose proof (NoDup_distinct l) as Hnd.
      destruct (distinct l) as [|x [|y t]] eqn:E; simpl in H; try lia.
      exists x, y. repeat split.
      - apply In_distinct. rewrite E. simpl. auto.
      - apply In_distinct. rewrite E. simpl. auto.
      - inversion Hnd as [|? ? Hnotin _]; subst. intro; subst. apply Hnotin. simpl. auto.
    Qed.

    Theorem classify_thm (ids : list K) last it (p : pmat A) (s : schedule K A) :
      wfm (length ids) p ->
      match update_schedules ids last it p s with
      | OkS p' =>
          (s = [] /\ p' = p) \/
          (s <> [] /\ (forall k row, In (k, row) s -> In k ids /\ length row = sub_len s))
      | ErrS e pe =>
          pe = p /\
          ((e = "KeyError"%string /\ exists k row, In (k, row) s /\ ~ In k ids) \/
           (e = "InvalidScheduleError"%string /\ (forall k row, In (k, row) s -> In k ids) /\
            exists k1 r1 k2 r2, In (k1, r1) s /\ In (k2, r2) s /\ length r1 <> length r2))
      end.
    Proof.
      intro Hwf.
      destruct (update_schedules ids last it p s) as [p'|e pe] eqn:E.
      - destruct (update_ok_inv ids last it p p' s E) as [H|[Hne [Hk Hu]]]; [left; exact H|right].
        split; auto. intros k row Hin. split; [|eauto]. apply (known_In keqb_spec). eauto.
      - destruct s as [|kv0 s0] eqn:Es; [discriminate E|]. rewrite <- Es in *.
        assert (Hne : s <> []) by (rewrite Es; discriminate).
        destruct (existsb (fun kv : K * list A => negb (known ids (fst kv))) s) eqn:E1.
        + apply existsb_exists in E1. destruct E1 as [[k row] [Hin Hx]]. simpl in Hx.
          apply negb_true_iff in Hx.
          rewrite (update_unknown ids last it p s k row Hin Hx) in E. inversion E; subst.
          split; auto. left. split; auto. exists k, row. split; auto.
          intro Hk. apply (known_In keqb_spec) in Hk. congruence.
        + assert (Hk : all_known ids s).
          { intros k row Hin. destruct (known ids k) eqn:Ek; auto.
            assert (existsb (fun kv : K * list A => negb (known ids (fst kv))) s = true).
            { apply existsb_exists. exists (k, row). simpl. rewrite Ek. auto. }
            congruence. }
          destruct (Nat.le_gt_cases (length (lengths s)) 1) as [Hle|Hgt].
          * exfalso.
            assert (Hu : uniform s (hd 0 (map (fun kv : K * list A => length (snd kv)) s))).
            { intros k row Hin. apply (distinct_uniform _ Hle). apply in_map_iff. exists (k, row). auto. }
            destruct (update_accept ids last it p s _ Hwf Hne Hk Hu) as [p' [Hok _]]. congruence.
          * destruct (distinct_two_inv _ Hgt) as [a [b [Ha [Hb Hab]]]].
            apply in_map_iff in Ha. destruct Ha as [[k1 r1] [<- H1]].
            apply in_map_iff in Hb. destruct Hb as [[k2 r2] [<- H2]]. simpl in Hab.
            rewrite (update_ragged ids last it p s k1 r1 k2 r2 Hk H1 H2 Hab) in E. inversion E; subst.
            split; auto. right. split; auto. split.
            -- intros k row Hin. apply (known_In keqb_spec). eauto.
            -- exists k1, r1, k2, r2. auto.
    Qed.

    (* ---------------- arbitrary sequences of direct calls ---------------- *)
    Lemma run_calls_spec (ids : list K) calls : forall (m : pmat A) acc log,
      mat_ok ids m (pilot_spec acc) -> beyond_zero (pilot_spec acc) (wid m) ->
      match run_calls keqb zero ids m calls acc log with
      | (m', acc', log') =>
          mat_ok ids m' (pilot_spec acc') /\ beyond_zero (pilot_spec acc') (wid m') /\
          wid m <= wid m' /\ length log' = length log + length calls
      end.
    Proof.
      induction calls as [|c calls IH]; intros m acc log Hm Hb.
      - simpl. repeat split; auto; lia.
      - destruct c as [last it s|t]; simpl.
        + destruct (update_schedules ids last it m s) as [m1|e m1] eqn:E.
          * destruct (update_spec ids last it m m1 s acc Hm Hb E) as [Hm1 [Hb1 Hw1]].
            specialize (IH m1 ((it, s) :: acc) (None :: log) Hm1 Hb1).
            destruct (run_calls keqb zero ids m1 calls ((it, s) :: acc) (None :: log)) as [[m' acc'] log'].
            destruct IH as [? [? [? Hl]]]. simpl in Hl. repeat split; auto; lia.
          * pose proof (classify_thm ids last it m s (mat_ok_wfm _ _ _ Hm)) as Hc.
            rewrite E in Hc. destruct Hc as [-> _].
            specialize (IH m acc (Some e :: log) Hm Hb).
            destruct (run_calls keqb zero ids m calls acc (Some e :: log)) as [[m' acc'] log'].
            destruct IH as [? [? [? Hl]]]. simpl in Hl. repeat split; auto; lia.
        + destruct (increase_width_mat_ok ids m _ t Hm Hb) as [Hm1 Hb1].
          specialize (IH (increase_width m t) acc (None :: log) Hm1 Hb1).
          destruct (run_calls keqb zero ids (increase_width m t) calls acc (None :: log)) as [[m' acc'] log'].
          destruct IH as [? [? [Hw Hl]]]. simpl in Hl. rewrite increase_width_wid in Hw.
          repeat split; auto; lia.
    Qed.

    Theorem calls_overlay_thm (ids : list K) (w0 : nat) (calls : list (call K A)) :
      match run_calls keqb zero ids (zero_mat zero ids w0) calls [] [] with
      | (m, acc, log) =>
          length (rows m) = length ids /\
          (forall s k, nth_error ids s = Some k ->
             exists row, nth_error (rows m) s = Some row /\ length row = wid m /\
               forall t, t < wid m -> nth t row zero = pilot_spec acc k t) /\
          (forall k t, wid m <= t -> pilot_spec acc k t = zero) /\
          length log = length calls
      end.
    Proof.
      assert (Hm : mat_ok ids (zero_mat zero ids w0) (pilot_spec [])).
      { unfold mat_ok, zero_mat. simpl. induction ids as [|k ids' IH]; simpl; constructor; auto.
        split; [apply repeat_length|]. intros. apply nth_repeat_same. }
      assert (Hb : beyond_zero (pilot_spec []) (wid (zero_mat zero ids w0))) by (intros k t _; reflexivity).
      pose proof (run_calls_spec ids calls _ [] [] Hm Hb) as H.
      destruct (run_calls keqb zero ids (zero_mat zero ids w0) calls [] []) as [[m acc] log].
      destruct H as [Hm' [Hb' [_ Hl]]].
      destruct (mat_ok_rows _ _ _ Hm') as [Hlen Hrows]. simpl in Hl. repeat split; auto.
    Qed.
  End Final.
End Proofs.
