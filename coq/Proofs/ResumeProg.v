(* Proofs/ResumeProg.v — the loop body regenerated from Simulator.run (Gen/Serial.run_loop_prog),
   executed statement by statement, is the hand-written loop of Model/Resume.v.  The proof is by
   computation on the regenerated program: it stops checking when a statement of the loop is
   moved, added or removed in a way that changes what is left behind by a raising scheduler. *)
From Coq Require Import ZArith List Bool String Lia.
From ACN Require Import Base.Num Base.ResumeBase Gen.ResumeZ_Z Gen.Serial Model.Resume Proofs.Resume.
Import ListNotations.
Open Scope Z_scope.

Section ProgProofs.
  Variable QI : queue_impl.
  Variables St Sched : Type.
  Variable N : rest_ops St Sched.
  Variable SS : string -> Z -> option Sched -> option Z -> St -> St.
  Variable sched : sim QI St -> Sched.

  Notation R := (R_of St Sched N SS).
  Notation runP := (run_prog QI St Sched N SS sched).
  Notation runG := (fun guard => run_gen QI St Sched R sched guard (pending_resolve QI St)).

  Lemma run_prog_S guard f k (s : sim QI St) :
    runP guard (S f) k s =
    if guard (s_resolve s) (q_empty QI (s_queue s)) then
      match exec QI St Sched N SS sched run_loop_prog (match k with Some O => true | _ => false end)
                 (loc0 QI St Sched s) with
      | inr s1 => Raised s1
      | inl l => runP guard f (match c_sch QI St Sched l, k with
                               | Some _, Some (S k') => Some k'
                               | _, c => c
                               end) (c_sim QI St Sched l)
      end
    else Done s.
  Proof. reflexivity. Qed.

  Lemma exec_cons g st rest crash (l : loc QI St Sched) :
    exec QI St Sched N SS sched ((g, st) :: rest) crash l =
    if g && negb (c_due QI St Sched l) then exec QI St Sched N SS sched rest crash l
    else match exec1 QI St Sched N SS sched crash g l st with
         | inl l' => exec QI St Sched N SS sched rest crash l'
         | inr s => inr s
         end.
  Proof. reflexivity. Qed.
  Lemma exec_nil crash (l : loc QI St Sched) : exec QI St Sched N SS sched [] crash l = inl l.
  Proof. reflexivity. Qed.

  Ltac step := rewrite exec_cons;
    cbn [andb negb c_due c_sim c_cur c_sch loc0 set_sim exec1 s_iter s_resolve s_last s_mr s_queue s_ehist s_rest
         with_rest with_last with_resolve with_iter with_queue].
  (* one symbolic execution of the regenerated loop body *)
  Lemma exec_body crash (s : sim QI St) :
    exec QI St Sched N SS sched run_loop_prog crash (loc0 QI St Sched s) =
    let s1 := pop_and_process QI St Sched R s in
    let cur := fst (q_pop QI (s_iter s) (s_queue s)) in
    if recompute_due QI St s1 then
      let s1r := pending_resolve QI St s1 in
      if crash then inr s1r
      else inl {| c_sim := advance QI St Sched R (after_sched QI St Sched R (sched s1r) s1r);
                  c_cur := cur; c_due := true; c_sch := Some (sched s1r) |}
    else inl {| c_sim := advance QI St Sched R s1; c_cur := cur; c_due := false; c_sch := None |}.
  Proof.
    unfold run_loop_prog, pop_and_process.
    step.
    destruct (q_pop QI (s_iter s) (s_queue s)) as [evs q'].
    step. step. cbn [fst].
    set (s1 := fold_left (handle_event QI St Sched R) evs (with_queue QI St q' s)).
    cbv zeta.
    destruct (recompute_due QI St s1) eqn:D.
    - step. step. destruct crash; [reflexivity|].
      repeat step. rewrite exec_nil. reflexivity.
    - repeat step. rewrite exec_nil. reflexivity.
  Qed.

  Theorem run_prog_eq guard : forall fuel k (s : sim QI St), runP guard fuel k s = runG guard fuel k s.
  Proof.
    induction fuel as [|f IH]; intros k s; [reflexivity|].
    rewrite run_prog_S. rewrite run_S.
    destruct (guard (s_resolve s) (q_empty QI (s_queue s))); [|reflexivity].
    rewrite exec_body. cbv zeta.
    destruct (recompute_due QI St (pop_and_process QI St Sched R s)).
    - destruct k as [[|k']|]; cbn [c_sch c_sim]; [reflexivity|apply IH|apply IH].
    - cbn [c_sch c_sim]. apply IH.
  Qed.

  (* the resume theorem, stated for the regenerated loop *)
  Variable inv : Qt QI -> Prop.
  Variable QL : queue_laws QI inv.
  Theorem resume_prog : forall fuel k (s sc sref : sim QI St),
    inv (s_queue s) /\ queue_ok QI St s ->
    runP Run_guard fuel (Some k) s = Raised sc ->
    runP Run_guard fuel None s = Done sref ->
    runP Run_guard fuel None sc = Done sref.
  Proof.
    intros fuel k s sc sref Hq Hc Hr. rewrite run_prog_eq in *.
    exact (proj1 (resume_one QI inv QL St Sched R sched fuel k s sc sref Hq Hc Hr)).
  Qed.
End ProgProofs.
