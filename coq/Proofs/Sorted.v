(* Proofs/Sorted.v — lemmas about the sorting-based algorithms (Model/Sorted.v) for an ARBITRARY
   feasibility check `feasible : list Q -> bool` (section variable), plus the facts that tie the
   hand-written loops to the generated scalar expressions (Gen/Sorted_Q.v). *)
From Coq Require Import ZArith QArith Qminmax Qabs Qround List Bool String Lia Lqa Permutation Sorting.Sorted.
From ACN Require Import Base.Num Base.ListX Gen.Sorted_Q Gen.SortedZ_Z Model.Preproc Model.Sorted.
Import ListNotations.
Open Scope list_scope.
Open Scope Q_scope.

(* ============================================================================================
   0. small general facts
   ============================================================================================ *)
Lemma upd_nth_id {A} n (l : list A) d : upd n (nth n l d) l = l.
Proof. revert n; induction l as [|a l IH]; destruct n; simpl; auto. now rewrite IH. Qed.

Lemma upd_upd {A} n (x y : A) l : upd n x (upd n y l) = upd n x l.
Proof. revert n; induction l as [|a l IH]; destruct n; simpl; auto. now rewrite IH. Qed.

Lemma upd_oob {A} n (x : A) l : (List.length l <= n)%nat -> upd n x l = l.
Proof. revert n; induction l as [|a l IH]; destruct n; simpl; intros; auto; try lia. rewrite IH; auto; lia. Qed.

Lemma upd_same_value {A} n (x d : A) l : nth n l d = x -> upd n x l = l.
Proof. intros <-. apply upd_nth_id. Qed.

Lemma nth_upd {A} n m (x d : A) l :
  nth m (upd n x l) d = if Nat.eqb n m then (if Nat.ltb n (List.length l) then x else nth m l d) else nth m l d.
Proof.
  destruct (Nat.eqb n m) eqn:E.
  - apply Nat.eqb_eq in E; subst m. destruct (Nat.ltb n (List.length l)) eqn:L.
    + apply Nat.ltb_lt in L. now apply nth_upd_same.
    + apply Nat.ltb_ge in L. now rewrite upd_oob.
  - apply Nat.eqb_neq in E. now apply nth_upd_other.
Qed.

Lemma nth_map_seq {A} (f : nat -> A) n j d : (j < n)%nat -> nth j (map f (seq 0 n)) d = f j.
Proof.
  intro L. rewrite (nth_indep _ d (f O)) by (now rewrite map_length, seq_length).
  rewrite map_nth, seq_nth; auto.
Qed.

Lemma find_app {A} (p : A -> bool) l1 l2 :
  find p (l1 ++ l2) = match find p l1 with Some x => Some x | None => find p l2 end.
Proof. induction l1 as [|a l1 IH]; simpl; auto. destruct (p a); auto. Qed.

Lemma app_eq_length {A} (a b c d : list A) :
  List.length a = List.length c -> a ++ b = c ++ d -> a = c /\ b = d.
Proof.
  revert c; induction a as [|x a IH]; intros [|y c] L E; simpl in *; try discriminate; auto.
  injection E as -> E. injection L as L. destruct (IH c L E) as [-> ->]. auto.
Qed.

Lemma nth_repeat {A} (x : A) n i : nth i (repeat x n) x = x.
Proof. revert i; induction n; destruct i; simpl; auto. Qed.

(* Leibniz behaviour of Qmax / Qmin (they return one of their arguments) *)
Lemma Qmax_left x y : ~ x < y -> Qmax x y = x.
Proof.
  intro H. unfold Qmax, GenericMinMax.gmax. destruct (Qcompare_spec x y) as [E|E|E]; auto. contradiction.
Qed.
Lemma Qmax_right x y : x < y -> Qmax x y = y.
Proof.
  intro H. unfold Qmax, GenericMinMax.gmax. destruct (Qcompare_spec x y) as [E|E|E]; auto.
  - rewrite E in H. exfalso. eapply Qlt_irrefl; eauto.
  - exfalso. eapply Qlt_irrefl. eapply Qlt_trans; eauto.
Qed.
Lemma Qmax_cases x y : Qmax x y = x \/ Qmax x y = y.
Proof. unfold Qmax, GenericMinMax.gmax. destruct (x ?= y); auto. Qed.
Lemma Qmin_cases x y : Qmin x y = x \/ Qmin x y = y.
Proof. unfold Qmin, GenericMinMax.gmin. destruct (x ?= y); auto. Qed.

Lemma Qleb_false a b : Qleb a b = false <-> b < a.
Proof.
  split; intro H.
  - apply Qnot_le_lt. intro Hle. apply Qleb_spec in Hle. congruence.
  - destruct (Qleb a b) eqn:E; auto. apply Qleb_spec in E. exfalso. eapply Qlt_not_le; eauto.
Qed.

(* ---- stable insertion sort is a permutation ---- *)
Lemma insert_stable_perm {A} (le : A -> A -> bool) x l : Permutation (insert_stable le x l) (x :: l).
Proof.
  induction l as [|y l IH]; simpl; auto.
  destruct (le x y); auto.
  rewrite IH. apply perm_swap.
Qed.
Lemma stable_sort_perm {A} (le : A -> A -> bool) l : Permutation (stable_sort le l) l.
Proof.
  induction l as [|x l IH]; simpl; auto.
  rewrite insert_stable_perm. now constructor.
Qed.
Lemma sort_by_perm {A} (key : A -> Q) rev l : Permutation (sort_by key rev l) l.
Proof. apply stable_sort_perm. Qed.

(* ============================================================================================
   1. the generated scalar expressions have the shape the loops rely on
      (each is closed by reflexivity on the regenerated Gen/Sorted_Q.v: a change of the Python
      expression breaks the lemma and every theorem below it)
   ============================================================================================ *)
Lemma anchor_init_lb m : Greedy_init_lb m 0 0 = Qmax 0 m.            Proof. reflexivity. Qed.
Lemma anchor_lb m : Greedy_lb m 0 0 = Qmax 0 m.                      Proof. reflexivity. Qed.
Lemma anchor_ub mx r : Greedy_ub mx 0 0 r = Qmin mx r.                Proof. reflexivity. Qed.
Lemma anchor_eps : Greedy_eps 0 0 = 1 # 100.                          Proof. reflexivity. Qed.
Lemma anchor_level_ok a lb ub : Greedy_level_ok a lb ub 0 0 = Qleb lb a && Qleb a ub.
Proof. reflexivity. Qed.
Lemma anchor_mid lo hi : Bisect_mid 0 lo hi 0 = (hi + lo) / (2 # 1).  Proof. reflexivity. Qed.
Lemma anchor_stop eps lo hi : Bisect_stop eps 0 lo hi 0 = Qleb (hi - lo) eps.  Proof. reflexivity. Qed.
Lemma anchor_ret lo hi : Bisect_ret 0 lo hi 0 = lo.                   Proof. reflexivity. Qed.
Lemma anchor_feas_lo mid lo hi : Bisect_feas_lo mid 0 lo hi 0 = mid.  Proof. reflexivity. Qed.
Lemma anchor_feas_hi lo hi : Bisect_feas_hi 0 lo hi 0 = hi.           Proof. reflexivity. Qed.
Lemma anchor_infeas_lo lo hi : Bisect_infeas_lo 0 lo hi 0 = lo.       Proof. reflexivity. Qed.
Lemma anchor_infeas_hi mid lo hi : Bisect_infeas_hi mid 0 lo hi 0 = mid.  Proof. reflexivity. Qed.
Lemma anchor_rr_ub mp mx r : RR_ub mp mx 0 0 r = Qmin (Qmin mx mp) r. Proof. reflexivity. Qed.
Lemma anchor_rr_lb m : RR_lb m 0 0 = Qmax 0 m.                        Proof. reflexivity. Qed.
Lemma anchor_rr_keep_lb a lb : RR_keep_lb a lb 0 0 = Qleb lb a.       Proof. reflexivity. Qed.
Lemma anchor_rr_keep_ub a ub : RR_keep_ub a ub 0 0 = Qleb a ub.       Proof. reflexivity. Qed.
Lemma anchor_rr_start m : RR_arange_start m 0 0 = m.                  Proof. reflexivity. Qed.
Lemma anchor_rr_stop inc mx : RR_arange_stop inc mx 0 0 = mx + inc / (2 # 1).  Proof. reflexivity. Qed.
Lemma anchor_rr_step inc : RR_arange_step inc 0 0 = inc.              Proof. reflexivity. Qed.
Lemma anchor_can_raise k n : RR_can_raise k 0%Z 0%Z n = Z.ltb k (n - 1).  Proof. reflexivity. Qed.
Lemma anchor_feas_tol lim : feas_tol lim = Qmax (1 # 100000) ((1 # 10000000) * lim).  Proof. reflexivity. Qed.
Lemma anchor_feas_rhs lim : feas_rhs lim = lim + feas_tol lim.        Proof. reflexivity. Qed.
(* the comparison the code makes is  line_current <= limit + tol  (non-strict) *)
Lemma anchor_feas_within lim lc : Feas_within lim lc (feas_tol lim) 0 0 0 0 0 = Qleb lc (feas_rhs lim).
Proof. reflexivity. Qed.
Lemma anchor_sort_rev : Sort_lcfs_reverse 0 0 = true /\ Sort_lrpt_reverse 0 0 = true.
Proof. split; reflexivity. Qed.
Lemma anchor_sort_keys a e now mp r :
  Sort_fcfs_key a 0 0 = a /\ Sort_lcfs_key a 0 0 = a /\ Sort_edf_key e 0 0 = e
  /\ Sort_laxity e now 0 mp r = (e - now) - r / mp /\ Sort_rpt 0 mp r = r / mp.
Proof. repeat split; reflexivity. Qed.
Lemma anchor_rap period kwh v : Iface_to_amp_periods period kwh 0 v = kwh * (1000 # 1) / v * (60 # 1) / period.
Proof. reflexivity. Qed.
Lemma anchor_rap_utils period rd v : Utils_rap v rd 0 0 period 0 = rd * (1000 # 1) / v * (60 # 1) / period.
Proof. reflexivity. Qed.

Section Alg.
  Variable feasible : list Q -> bool.
  Variable inf : infra.
  Variable period : Q.
  Variable now : Z.

  Notation g_lb := (g_lb).
  Notation g_ub := (g_ub inf period).
  Notation g_allowable := (g_allowable inf period).
  Notation greedy_rate := (greedy_rate feasible inf period).
  Notation greedy_loop := (greedy_loop feasible inf period).
  Notation bisect := (bisect feasible).
  Notation walk_down := (walk_down feasible).

  Lemma g_init_lb_eq s : g_init_lb s = g_lb s.
  Proof. reflexivity. Qed.
  Lemma g_lb_nonneg s : 0 <= g_lb s.
  Proof. unfold Sorted.g_lb. rewrite anchor_lb. apply Q.le_max_l. Qed.
  Lemma g_lb_zero s : hd0 (s_min s) <= 0 -> g_lb s = 0.
  Proof.
    intro H. unfold Sorted.g_lb. rewrite anchor_lb. apply Qmax_left. intro C.
    eapply Qlt_not_le; eauto.
  Qed.

  (* ==========================================================================================
     2. bisection
     ========================================================================================== *)
  (* what is returned is the initial lower end or a rate the check accepted *)
  Lemma bisect_result fuel idx sched eps : forall lo hi r,
    bisect fuel idx sched eps lo hi = Some r ->
    r = lo \/ feasible (upd idx r sched) = true.
  Proof.
    induction fuel as [|f IH]; intros lo hi r H; simpl in H; [discriminate|].
    destruct (Bisect_stop eps 0 lo hi 0).
    - injection H as <-. left. apply anchor_ret.
    - destruct (feasible (upd idx (Bisect_mid 0 lo hi 0) sched)) eqn:F.
      + apply IH in H. rewrite anchor_feas_lo in H. destruct H as [->|H]; auto.
      + apply IH in H. rewrite anchor_infeas_lo in H. exact H.
  Qed.

  Lemma mid_between lo hi : lo < hi -> lo < (hi + lo) / (2 # 1) /\ (hi + lo) / (2 # 1) < hi.
  Proof. intro H. split; apply Qlt_shift_div_l || apply Qlt_shift_div_r; lra. Qed.
  Lemma mid_between_le lo hi : lo <= hi -> lo <= (hi + lo) / (2 # 1) /\ (hi + lo) / (2 # 1) <= hi.
  Proof. intro H. split; apply Qle_shift_div_l || apply Qle_shift_div_r; lra. Qed.

  Lemma bisect_range fuel idx sched eps : forall lo hi r,
    lo <= hi -> bisect fuel idx sched eps lo hi = Some r -> lo <= r /\ r <= hi.
  Proof.
    induction fuel as [|f IH]; intros lo hi r Hle H; simpl in H; [discriminate|].
    destruct (Bisect_stop eps 0 lo hi 0).
    - injection H as <-. rewrite anchor_ret. split; [apply Qle_refl|exact Hle].
    - rewrite anchor_feas_lo, anchor_feas_hi, anchor_infeas_lo, anchor_infeas_hi, anchor_mid in H.
      destruct (mid_between_le lo hi Hle) as [M1 M2].
      destruct (feasible _); apply IH in H; auto; destruct H; split; lra.
  Qed.

  Lemma bisect_degenerate fuel idx sched eps lo hi r :
    0 <= eps -> hi < lo -> bisect fuel idx sched eps lo hi = Some r -> r = lo.
  Proof.
    intros He Hlt H. destruct fuel; simpl in H; [discriminate|].
    rewrite anchor_stop in H.
    assert (E : Qleb (hi - lo) eps = true) by (apply Qleb_spec; lra).
    rewrite E in H. injection H as <-. apply anchor_ret.
  Qed.

  (* bracket: the returned rate is within eps below a rate the check rejected *)
  Lemma bisect_bracket fuel idx sched eps : forall lo hi r,
    lo < hi -> feasible (upd idx hi sched) = false ->
    bisect fuel idx sched eps lo hi = Some r ->
    lo <= r /\ exists r', r < r' /\ r' <= r + eps /\ r' <= hi /\ feasible (upd idx r' sched) = false.
  Proof.
    induction fuel as [|f IH]; intros lo hi r Hlt Hhi H; simpl in H; [discriminate|].
    rewrite anchor_stop in H.
    destruct (Qleb (hi - lo) eps) eqn:S.
    - injection H as <-. rewrite anchor_ret. apply Qleb_spec in S. split; [lra|].
      exists hi. repeat split; auto; lra.
    - rewrite anchor_feas_lo, anchor_feas_hi, anchor_infeas_lo, anchor_infeas_hi, anchor_mid in H.
      destruct (mid_between lo hi Hlt) as [M1 M2].
      destruct (feasible (upd idx ((hi + lo) / (2 # 1)) sched)) eqn:F.
      + apply IH in H; auto. destruct H as [H1 [r' [A [B [C D]]]]]. split; [lra|].
        exists r'. repeat split; auto.
      + apply IH in H; auto. destruct H as [H1 [r' [A [B [C D]]]]]. split; [lra|].
        exists r'. repeat split; auto. lra.
  Qed.

  (* ---- termination: fuel ---- *)
  Fixpoint qpow2 (n : nat) : Q := match n with O => 1 | S m => (2 # 1) * qpow2 m end.
  Lemma qpow2_pos n : 0 < qpow2 n.
  Proof. induction n; simpl; lra. Qed.
  Lemma qpow2_inject n : inject_Z (2 ^ Z.of_nat n) == qpow2 n.
  Proof.
    induction n as [|n IH].
    - reflexivity.
    - rewrite Nat2Z.inj_succ, Z.pow_succ_r by lia. rewrite inject_Z_mult, IH. reflexivity.
  Qed.

  Lemma bisect_enough_fuel idx sched eps : forall n lo hi,
    hi - lo <= eps * qpow2 n -> bisect (S n) idx sched eps lo hi <> None.
  Proof.
    induction n as [|n IH]; intros lo hi H; cbn [Sorted.bisect]; rewrite anchor_stop.
    - simpl in H. assert (E : Qleb (hi - lo) eps = true) by (apply Qleb_spec; lra).
      rewrite E. discriminate.
    - destruct (Qleb (hi - lo) eps) eqn:S; [discriminate|].
      rewrite anchor_feas_lo, anchor_feas_hi, anchor_infeas_lo, anchor_infeas_hi, anchor_mid.
      assert (W : hi - (hi + lo) / (2 # 1) == (hi - lo) / (2 # 1)) by field.
      assert (W' : (hi + lo) / (2 # 1) - lo == (hi - lo) / (2 # 1)) by field.
      assert (Hh : (hi - lo) / (2 # 1) <= eps * qpow2 n).
      { apply Qle_shift_div_r; [lra|]. cbn [qpow2] in H.
        setoid_replace (eps * qpow2 n * (2 # 1)) with (eps * ((2 # 1) * qpow2 n)) by ring. exact H. }
      destruct (feasible _); apply IH; [rewrite W|rewrite W']; exact Hh.
  Qed.

  Lemma bisect_fuel_enough idx sched eps lo hi :
    0 < eps -> bisect (bisect_fuel eps lo hi) idx sched eps lo hi <> None.
  Proof.
    intro He. unfold bisect_fuel. apply bisect_enough_fuel.
    set (c := Qceiling ((hi - lo) / eps)).
    assert (Hc : (hi - lo) / eps <= inject_Z c) by apply Qle_ceiling.
    assert (Hp : (c <= 2 ^ Z.of_nat (Z.to_nat (Z.log2_up c)))%Z).
    { rewrite Z2Nat.id by apply Z.log2_up_nonneg.
      destruct (Z_lt_le_dec 1 c) as [L|L].
      - apply Z.log2_up_spec in L. lia.
      - rewrite Z.log2_up_eqn0 by lia. simpl. lia. }
    rewrite <- qpow2_inject.
    assert (Hq : inject_Z c <= inject_Z (2 ^ Z.of_nat (Z.to_nat (Z.log2_up c)))).
    { rewrite <- Zle_Qle. exact Hp. }
    assert (Hd : hi - lo == (hi - lo) / eps * eps) by (field; lra).
    rewrite Hd. rewrite (Qmult_comm eps). apply Qmult_le_compat_r; lra.
  Qed.

  (* ==========================================================================================
     3. one allocation step
     ========================================================================================== *)
  Lemma walk_down_spec idx sched l :
    (In (walk_down idx sched l) l /\ feasible (upd idx (walk_down idx sched l) sched) = true)
    \/ (walk_down idx sched l = 0 /\ forall b, In b l -> feasible (upd idx b sched) = false).
  Proof.
    induction l as [|a l IH]; simpl.
    - right. split; auto. intros b [].
    - destruct (feasible (upd idx a sched)) eqn:F.
      + left. auto.
      + destruct IH as [[I Fe]|[Z All]].
        * left. auto.
        * right. split; auto. intros b [<-|Hb]; auto.
  Qed.

  (* the first feasible level met when walking down: every level after it in the list was rejected *)
  Lemma walk_down_first idx sched l a :
    walk_down idx sched l = a -> feasible (upd idx a sched) = true -> In a l ->
    exists l1 l2, l = l1 ++ a :: l2 /\ forall b, In b l1 -> feasible (upd idx b sched) = false.
  Proof.
    revert a; induction l as [|x l IH]; intros a W F I; [destruct I|].
    simpl in W. destruct (feasible (upd idx x sched)) eqn:Fx.
    - subst x. exists [], l. split; auto. intros b [].
    - destruct I as [->|I]; [congruence|].
      destruct (IH a W F I) as [l1 [l2 [E All]]]. exists (x :: l1), l2. split.
      + simpl. now rewrite E.
      + intros b [<-|Hb]; auto.
  Qed.

  Definition fallback_safe (s : session) : Prop :=
    nth (s_station s) (i_cont inf) true = true \/ g_lb s = 0 \/ In (g_lb s) (g_allowable s).

  (* the rate granted by one step keeps the schedule feasible, provided the station still holds
     the session's lower bound and the fallback to 0 cannot change the vector *)
  Lemma greedy_rate_feasible s sched r :
    feasible sched = true ->
    nth (s_station s) sched 0 = g_lb s ->
    fallback_safe s ->
    greedy_rate s sched = Ok r ->
    feasible (upd (s_station s) r sched) = true.
  Proof.
    intros Fs Hlb Safe H. unfold Sorted.greedy_rate in H.
    destruct (nth (s_station s) (i_cont inf) true) eqn:C.
    - (* continuous *)
      unfold max_feasible_rate in H. rewrite Fs in H. cbn [negb] in H.
      destruct (feasible (upd (s_station s) (g_ub s) sched)) eqn:Fu.
      + injection H as <-. exact Fu.
      + destruct (Sorted.bisect _ _ _ _ _ _ _) eqn:B; [|discriminate]. injection H as <-.
        apply bisect_result in B. destruct B as [->|B]; auto.
        rewrite (upd_same_value _ _ 0); auto.
    - (* finite rates *)
      destruct Safe as [Cc|Safe]; [congruence|].
      assert (Zero : g_lb s = 0 -> feasible (upd (s_station s) 0 sched) = true).
      { intro Z. rewrite (upd_same_value _ _ 0); auto. congruence. }
      destruct (g_allowable s) as [|a0 al] eqn:AL.
      + injection H as <-. destruct Safe as [Z|I]; [auto|destruct I].
      + unfold discrete_max_feasible_rate in H. rewrite Fs in H. cbn [negb] in H. injection H as <-.
        change (rev al ++ [a0]) with (rev (a0 :: al)).
        destruct (walk_down_spec (s_station s) sched (rev (a0 :: al))) as [[_ F]|[Z All]]; auto.
        rewrite Z. destruct Safe as [Z0|I]; auto.
        exfalso. specialize (All (g_lb s)).
        rewrite <- in_rev in All. specialize (All I).
        rewrite (upd_same_value _ _ 0) in All; auto. congruence.
  Qed.

  (* ==========================================================================================
     4. the allocation loop
     ========================================================================================== *)
  Lemma greedy_loop_feasible : forall q sched out,
    NoDup (map s_station q) ->
    (forall s, In s q -> fallback_safe s) ->
    (forall s, In s q -> nth (s_station s) sched 0 = g_lb s) ->
    feasible sched = true ->
    greedy_loop q sched = Ok out ->
    feasible out = true.
  Proof.
    induction q as [|s q IH]; intros sched out ND Safe Hlb Fs H; simpl in H.
    - injection H as <-. exact Fs.
    - destruct (Sorted.greedy_rate _ _ _ s sched) as [r|e] eqn:R; [|discriminate].
      inversion ND as [|? ? Hnotin ND']; subst.
      apply (IH (upd (s_station s) r sched) out); auto.
      + intros s' I. apply Safe. now right.
      + intros s' I. rewrite nth_upd_other.
        * apply Hlb. now right.
        * intro E. apply Hnotin. rewrite E. now apply in_map.
      + eapply greedy_rate_feasible; eauto; [apply Hlb|apply Safe]; now left.
  Qed.

  (* initial schedule: every queued session's station holds its lower bound *)
  Lemma init_sched_other lbf q : forall sched i,
    ~ In i (map s_station q) ->
    nth i (fold_left (fun sch s => upd (s_station s) (lbf s) sch) q sched) 0 = nth i sched 0.
  Proof.
    induction q as [|s q IH]; intros sched i Hn; simpl; auto.
    rewrite IH. apply nth_upd_other.
    - intro E. apply Hn. simpl. now left.
    - intro I. apply Hn. simpl. now right.
  Qed.

  Lemma init_sched_at lbf q : forall sched s,
    NoDup (map s_station q) -> In s q -> (s_station s < List.length sched)%nat ->
    nth (s_station s) (fold_left (fun sch s => upd (s_station s) (lbf s) sch) q sched) 0 = lbf s.
  Proof.
    induction q as [|x q IH]; intros sched s ND I L; [destruct I|]. simpl.
    inversion ND as [|? ? Hnotin ND']; subst.
    destruct I as [->|I].
    - rewrite init_sched_other; auto. now apply nth_upd_same.
    - apply IH; auto. now rewrite upd_length.
  Qed.

  Lemma fold_upd_length {A} (f : session -> A) q : forall sched,
    List.length (fold_left (fun sch s => upd (s_station s) (f s) sch) q sched) = List.length sched.
  Proof. induction q; intros; simpl; auto. now rewrite IHq, upd_length. Qed.

  Definition stations_ok (ss : list session) : Prop :=
    forall s, In s ss -> (s_station s < n_stations inf)%nat.

  Theorem greedy_feasible k ss out :
    NoDup (map s_station ss) -> stations_ok ss ->
    (forall s, In s ss -> fallback_safe s) ->
    sorting_algorithm feasible inf period now k ss = Ok out ->
    feasible out = true.
  Proof.
    intros ND SO Safe H. unfold sorting_algorithm in H.
    set (q := sort_sessions inf period now k ss) in *.
    assert (P : Permutation q ss) by apply sort_by_perm.
    destruct (feasible (init_sched inf g_init_lb q)) eqn:F0; simpl in H; [|discriminate].
    assert (NDq : NoDup (map s_station q)).
    { eapply Permutation_NoDup; [|exact ND]. apply Permutation_map. now symmetry. }
    apply (greedy_loop_feasible q (init_sched inf g_init_lb q) out); auto.
    - intros s I. apply Safe. eapply Permutation_in; eauto.
    - intros s I. unfold init_sched. rewrite init_sched_at; auto.
      rewrite repeat_length. apply SO. eapply Permutation_in; eauto.
  Qed.


  (* ==========================================================================================
     5. what each step sees; bounds on what it grants
     ========================================================================================== *)
  Lemma greedy_loop_other : forall q sched out i,
    ~ In i (map s_station q) -> greedy_loop q sched = Ok out -> nth i out 0 = nth i sched 0.
  Proof.
    induction q as [|s q IH]; intros sched out i Hn H; simpl in H.
    - now injection H as <-.
    - destruct (Sorted.greedy_rate _ _ _ s sched) as [r|e]; [|discriminate].
      rewrite (IH _ _ i) with (2 := H).
      + apply nth_upd_other. intro E. apply Hn. simpl. now left.
      + intro I. apply Hn. simpl. now right.
  Qed.

  Lemma greedy_loop_length : forall q sched out,
    greedy_loop q sched = Ok out -> List.length out = List.length sched.
  Proof.
    induction q as [|s q IH]; intros sched out H; simpl in H.
    - now injection H as <-.
    - destruct (Sorted.greedy_rate _ _ _ s sched) as [r|e]; [|discriminate].
      apply IH in H. now rewrite upd_length in H.
  Qed.

  (* the schedule a step sees: `granted` sessions at their granted rate, `waiting` ones at their
     lower bound, every other station 0 — defined pointwise, independently of the loop *)
  Definition view (granted : list (session * Q)) (waiting : list session) : list Q :=
    map (fun j => match find (fun sr => Nat.eqb (s_station (fst sr)) j) granted with
                  | Some sr => snd sr
                  | None => match find (fun s => Nat.eqb (s_station s) j) waiting with
                            | Some s => g_lb s
                            | None => 0
                            end
                  end) (seq 0 (n_stations inf)).

  Lemma view_length g w : List.length (view g w) = n_stations inf.
  Proof. unfold view. now rewrite map_length, seq_length. Qed.

  Lemma nth_view g w j : (j < n_stations inf)%nat ->
    nth j (view g w) 0 =
    match find (fun sr => Nat.eqb (s_station (fst sr)) j) g with
    | Some sr => snd sr
    | None => match find (fun s => Nat.eqb (s_station s) j) w with Some s => g_lb s | None => 0 end
    end.
  Proof.
    intro L. unfold view. now rewrite nth_map_seq.
  Qed.

  Lemma find_none_station {A} (f : A -> nat) l j :
    ~ In j (map f l) -> find (fun x => Nat.eqb (f x) j) l = None.
  Proof.
    induction l as [|a l IH]; simpl; auto. intro H.
    destruct (Nat.eqb (f a) j) eqn:E.
    - apply Nat.eqb_eq in E. exfalso. apply H. now left.
    - apply IH. intro I. apply H. now right.
  Qed.

  Lemma init_is_view q : NoDup (map s_station q) -> stations_ok q ->
    init_sched inf g_init_lb q = view [] q.
  Proof.
    intros ND SO. apply (nth_ext _ _ 0 0).
    - unfold init_sched. now rewrite fold_upd_length, repeat_length, view_length.
    - intros j Hj. unfold init_sched in *. rewrite fold_upd_length, repeat_length in Hj.
      rewrite nth_view by auto. cbn [find].
      destruct (in_dec Nat.eq_dec j (map s_station q)) as [I|NI].
      + apply in_map_iff in I. destruct I as [s [<- I]].
        rewrite init_sched_at; auto; [|rewrite repeat_length; now apply SO].
        clear SO Hj. induction q as [|x q IH]; [destruct I|]. simpl.
        inversion ND as [|? ? Hn ND']; subst.
        destruct I as [->|I].
        * now rewrite Nat.eqb_refl.
        * destruct (Nat.eqb (s_station x) (s_station s)) eqn:E.
          -- apply Nat.eqb_eq in E. exfalso. apply Hn. rewrite E. now apply in_map.
          -- now apply IH.
      + rewrite init_sched_other by auto. rewrite find_none_station by auto. apply nth_repeat.
  Qed.

  Lemma view_step g s w r :
    ~ In (s_station s) (map (fun sr => s_station (fst sr)) g) ->
    (s_station s < n_stations inf)%nat ->
    upd (s_station s) r (view g (s :: w)) = view (g ++ [(s, r)]) w.
  Proof.
    intros Hn L. apply (nth_ext _ _ 0 0).
    - now rewrite upd_length, !view_length.
    - intros j Hj. rewrite upd_length, view_length in Hj.
      rewrite nth_upd, view_length. rewrite !nth_view by auto. rewrite find_app.
      destruct (Nat.eqb (s_station s) j) eqn:E.
      + apply Nat.eqb_eq in E. subst j. apply Nat.ltb_lt in L. rewrite L.
        rewrite (find_none_station (fun sr : session * Q => s_station (fst sr))) by auto.
        cbn [find fst snd]. now rewrite Nat.eqb_refl.
      + destruct (find _ g); auto. cbn [find fst snd]. rewrite E. reflexivity.
  Qed.

  (* the run of the allocation loop, step by step *)
  Inductive greedy_steps : list (session * Q) -> list session -> list (session * Q) -> Prop :=
  | gs_done g : greedy_steps g [] g
  | gs_step g s w r fin :
      greedy_rate s (view g (s :: w)) = Ok r ->
      greedy_steps (g ++ [(s, r)]) w fin ->
      greedy_steps g (s :: w) fin.

  Lemma greedy_loop_steps : forall w g out,
    NoDup (map (fun sr => s_station (fst sr)) g ++ map s_station w) ->
    stations_ok w ->
    greedy_loop w (view g w) = Ok out ->
    exists fin, greedy_steps g w fin /\ out = view fin [].
  Proof.
    induction w as [|s w IH]; intros g out ND SO H; simpl in H.
    - injection H as <-. exists g. split; constructor.
    - destruct (Sorted.greedy_rate _ _ _ s (view g (s :: w))) as [r|e] eqn:R; [|discriminate].
      assert (Hn : ~ In (s_station s) (map (fun sr => s_station (fst sr)) g)).
      { apply NoDup_remove_2 in ND. intro I. apply ND. apply in_or_app. now left. }
      rewrite view_step in H; auto; [|apply SO; now left].
      apply IH in H.
      + destruct H as [fin [St E]]. exists fin. split; auto. econstructor; eauto.
      + rewrite map_app. cbn [map fst]. rewrite <- app_assoc. cbn [app].
        exact ND.
      + intros s' I. apply SO. now right.
  Qed.

  Lemma greedy_steps_sessions g w fin :
    greedy_steps g w fin -> map fst fin = map fst g ++ w.
  Proof.
    induction 1 as [g|g s w r fin R St IH].
    - now rewrite app_nil_r.
    - rewrite IH, map_app. cbn [map fst]. now rewrite <- app_assoc.
  Qed.

  (* final pilot of a granted session = the rate it was granted *)
  Lemma view_final fin s r :
    NoDup (map (fun sr => s_station (fst sr)) fin) -> In (s, r) fin ->
    (s_station s < n_stations inf)%nat ->
    nth (s_station s) (view fin []) 0 = r.
  Proof.
    intros ND I L. rewrite nth_view by auto.
    induction fin as [|[x rx] fin IH]; [destruct I|]. cbn [find fst snd].
    inversion ND as [|? ? Hn ND']; subst.
    destruct I as [E|I].
    - injection E as -> ->. now rewrite Nat.eqb_refl.
    - destruct (Nat.eqb (s_station x) (s_station s)) eqn:E.
      + apply Nat.eqb_eq in E. exfalso. apply Hn. cbn [fst] in *. rewrite E.
        apply (in_map (fun sr : session * Q => s_station (fst sr))) in I. exact I.
      + now apply IH.
  Qed.

  (* ---- bounds on one granted rate ---- *)
  Lemma greedy_rate_bounds s sched r :
    greedy_rate s sched = Ok r ->
    r = 0 \/ r = g_lb s \/ r = g_ub s \/ (g_lb s <= r /\ r <= g_ub s).
  Proof.
    intro H. unfold Sorted.greedy_rate in H.
    destruct (nth (s_station s) (i_cont inf) true).
    - unfold max_feasible_rate in H. destruct (negb (feasible sched)); [discriminate|].
      destruct (feasible (upd (s_station s) (g_ub s) sched)).
      + injection H as <-. auto.
      + destruct (Sorted.bisect _ _ _ _ _ _ _) eqn:B; [|discriminate]. injection H as <-.
        destruct (Qlt_le_dec (g_ub s) (g_lb s)) as [L|L].
        * apply bisect_degenerate in B; auto. unfold g_eps. rewrite anchor_eps. lra.
        * apply bisect_range in B; auto.
    - destruct (g_allowable s) as [|a0 al] eqn:AL.
      + injection H as <-. auto.
      + unfold discrete_max_feasible_rate in H. destruct (negb (feasible sched)); [discriminate|].
        injection H as <-. change (rev al ++ [a0]) with (rev (a0 :: al)).
        destruct (walk_down_spec (s_station s) sched (rev (a0 :: al))) as [[I _]|[Z _]]; auto.
        set (w := Sorted.walk_down feasible (s_station s) sched (rev (a0 :: al))) in *.
        rewrite <- in_rev, <- AL in I. unfold Sorted.g_allowable in I.
        apply filter_In in I. destruct I as [_ I]. rewrite anchor_level_ok in I.
        apply andb_true_iff in I. destruct I as [I1 I2].
        apply Qleb_spec in I1. apply Qleb_spec in I2. auto.
  Qed.

  (* finite-rate stations only ever get 0 or one of their allowable levels *)
  Lemma greedy_rate_level s sched r :
    nth (s_station s) (i_cont inf) true = false ->
    greedy_rate s sched = Ok r ->
    r = 0 \/ In r (nth (s_station s) (i_allow inf) []).
  Proof.
    intros C H. unfold Sorted.greedy_rate in H. rewrite C in H.
    destruct (g_allowable s) as [|a0 al] eqn:AL.
    - injection H as <-. auto.
    - unfold discrete_max_feasible_rate in H. destruct (negb (feasible sched)); [discriminate|].
      injection H as <-. change (rev al ++ [a0]) with (rev (a0 :: al)).
      destruct (walk_down_spec (s_station s) sched (rev (a0 :: al))) as [[I _]|[Z _]]; auto.
      set (w := Sorted.walk_down feasible (s_station s) sched (rev (a0 :: al))) in *.
      right. rewrite <- in_rev, <- AL in I. unfold Sorted.g_allowable in I.
      apply filter_In in I. tauto.
  Qed.

  (* ---- exact maximality for finite-rate stations ---- *)
  Lemma filter_sorted {A} (R : A -> A -> Prop) p l : StronglySorted R l -> StronglySorted R (filter p l).
  Proof.
    induction 1 as [|a l S IH F]; simpl; [constructor|].
    destruct (p a); auto. constructor; auto.
    rewrite Forall_forall in *. intros x I. apply filter_In in I. apply F. tauto.
  Qed.

  Lemma greedy_discrete_max s sched r :
    nth (s_station s) (i_cont inf) true = false ->
    StronglySorted Qle (nth (s_station s) (i_allow inf) []) ->
    greedy_rate s sched = Ok r ->
    ((exists a, In a (g_allowable s) /\ feasible (upd (s_station s) a sched) = true) ->
       In r (g_allowable s) /\ feasible (upd (s_station s) r sched) = true
       /\ forall a, In a (g_allowable s) -> feasible (upd (s_station s) a sched) = true -> a <= r)
    /\ ((forall a, In a (g_allowable s) -> feasible (upd (s_station s) a sched) = false) -> r = 0).
  Proof.
    intros C Srt H. unfold Sorted.greedy_rate in H. rewrite C in H.
    assert (SrtA : StronglySorted Qle (g_allowable s)) by (apply filter_sorted; exact Srt).
    destruct (g_allowable s) as [|a0 al] eqn:AL.
    - injection H as <-. split; [intros [a [[] _]]|auto].
    - unfold discrete_max_feasible_rate in H. destruct (negb (feasible sched)); [discriminate|].
      injection H as <-. change (rev al ++ [a0]) with (rev (a0 :: al)).
      set (w := Sorted.walk_down feasible (s_station s) sched (rev (a0 :: al))).
      destruct (walk_down_spec (s_station s) sched (rev (a0 :: al))) as [[I F]|[Z All]]; fold w in I, F || fold w in Z.
      + split.
        * intros _. split; [now apply in_rev|]. split; auto.
          intros a Ia Fa.
          destruct (walk_down_first (s_station s) sched (rev (a0 :: al)) w eq_refl F I) as [l1 [l2 [E Bad]]].
          assert (E' : a0 :: al = rev l2 ++ w :: rev l1).
          { rewrite <- (rev_involutive (a0 :: al)), E, rev_app_distr. cbn [rev]. now rewrite <- app_assoc. }
          rewrite E' in Ia, SrtA. apply in_app_or in Ia. destruct Ia as [Ia|[<-|Ia]].
          -- (* a is before w in the ascending list *)
             clear - SrtA Ia. induction (rev l2) as [|x l IH]; [destruct Ia|].
             inversion SrtA as [|? ? S F]; subst. destruct Ia as [->|Ia]; auto.
             rewrite Forall_forall in F. apply F. apply in_or_app. right. now left.
          -- apply Qle_refl.
          -- exfalso. rewrite <- in_rev in Ia. apply Bad in Ia. congruence.
        * intros All. exfalso. apply in_rev in I. apply All in I. congruence.
      + split; auto. intros [a [Ia Fa]]. exfalso. apply in_rev in Ia. apply All in Ia. congruence.
  Qed.

  (* ---- bracket for continuous stations ---- *)
  Lemma greedy_continuous_bracket s sched r :
    nth (s_station s) (i_cont inf) true = true ->
    nth (s_station s) sched 0 = g_lb s ->
    g_lb s < g_ub s ->
    greedy_rate s sched = Ok r ->
    feasible (upd (s_station s) r sched) = true
    /\ g_lb s <= r /\ r <= g_ub s
    /\ (r = g_ub s
        \/ exists r', r < r' /\ r' <= r + g_eps /\ r' <= g_ub s /\ feasible (upd (s_station s) r' sched) = false).
  Proof.
    intros C Hlb Lt H. unfold Sorted.greedy_rate in H. rewrite C in H.
    unfold max_feasible_rate in H. destruct (feasible sched) eqn:Fs; [|discriminate]. cbn [negb] in H.
    destruct (feasible (upd (s_station s) (g_ub s) sched)) eqn:Fu.
    - injection H as <-. repeat split; auto; lra.
    - destruct (Sorted.bisect _ _ _ _ _ _ _) eqn:B; [|discriminate]. injection H as <-.
      pose proof (bisect_result _ _ _ _ _ _ _ B) as Res.
      pose proof (bisect_range _ _ _ _ _ _ _ (Qlt_le_weak _ _ Lt) B) as [R1 R2].
      apply bisect_bracket in B; auto. destruct B as [_ Br].
      split; [|split; [|split]]; auto.
      destruct Res as [->|Res]; auto. rewrite (upd_same_value _ _ 0); auto.
  Qed.

  (* if, for fixed other stations, the feasible rates of a station form an interval, the bracket gives
     optimality within eps: no feasible rate in [lb, ub] exceeds r + eps *)
  Definition interval_closed (i : nat) (sched : list Q) : Prop :=
    forall x1 x x2, x1 <= x -> x <= x2 ->
      feasible (upd i x1 sched) = true -> feasible (upd i x2 sched) = true -> feasible (upd i x sched) = true.

  Lemma greedy_continuous_sup s sched r :
    nth (s_station s) (i_cont inf) true = true ->
    nth (s_station s) sched 0 = g_lb s ->
    g_lb s < g_ub s ->
    interval_closed (s_station s) sched ->
    greedy_rate s sched = Ok r ->
    forall x, x <= g_ub s -> feasible (upd (s_station s) x sched) = true -> x <= r + g_eps.
  Proof.
    intros C Hlb Lt IC H x Hx Fx.
    destruct (greedy_continuous_bracket s sched r C Hlb Lt H) as [Fr [L1 [L2 [->|[r' [A [B [Cc D]]]]]]]].
    - unfold g_eps. rewrite anchor_eps. lra.
    - destruct (Qlt_le_dec x r') as [L|L]; [lra|].
      exfalso. assert (feasible (upd (s_station s) r' sched) = true).
      { apply (IC r r' x); auto. lra. }
      congruence.
  Qed.

End Alg.

(* ============================================================================================
   6. round robin
   ============================================================================================ *)
Section RR.
  Variable feasible : list Q -> bool.
  Variable inf : infra.
  Variable period : Q.
  Variable now : Z.
  Variable inc : Q.

  Notation rr_levels_of := (rr_levels_of inf period inc).
  Notation rr_init_step := (rr_init_step inf period inc).
  Notation stations_ok := (stations_ok inf).

  (* ---- initialisation: bound-filtered level lists, everybody at the first level ---- *)
  Lemma rr_init_fold : forall q levels sched,
    NoDup (map s_station q) ->
    (forall s, In s q -> (s_station s < List.length levels)%nat /\ (s_station s < List.length sched)%nat) ->
    let st := fold_left rr_init_step q (levels, sched) in
    List.length (fst st) = List.length levels /\ List.length (snd st) = List.length sched
    /\ (forall s, In s q ->
          nth (s_station s) (fst st) [] = rr_levels_of (nth (s_station s) levels []) s
          /\ nth (s_station s) (snd st) 0 = hd 0 (rr_levels_of (nth (s_station s) levels []) s))
    /\ (forall i, ~ In i (map s_station q) ->
          nth i (fst st) [] = nth i levels [] /\ nth i (snd st) 0 = nth i sched 0).
  Proof.
    induction q as [|x q IH]; intros levels sched ND L; cbn [fold_left].
    - cbn [fst snd]. split; [reflexivity|]. split; [reflexivity|]. split; [intros s []|auto].
    - inversion ND as [|? ? Hn ND']; subst.
      destruct (L x (or_introl eq_refl)) as [Lx1 Lx2].
      set (lv := rr_levels_of (nth (s_station x) levels []) x).
      change (rr_init_step (levels, sched) x)
        with (upd (s_station x) lv levels, upd (s_station x) (hd 0 lv) sched).
      specialize (IH (upd (s_station x) lv levels) (upd (s_station x) (hd 0 lv) sched) ND').
      rewrite !upd_length in IH.
      destruct IH as [A [B [C D]]].
      { intros s I. apply L. now right. }
      split; [exact A|]. split; [exact B|]. split.
      + intros s [<-|I].
        * destruct (D (s_station x) Hn) as [D1 D2]. rewrite D1, D2.
          rewrite !nth_upd_same by auto. auto.
        * destruct (C s I) as [C1 C2].
          assert (Ne : s_station x <> s_station s).
          { intro E. apply Hn. rewrite E. now apply in_map. }
          rewrite nth_upd_other in C1, C2 by auto. auto.
      + intros i Hi. destruct (D i) as [D1 D2].
        { intro I. apply Hi. now right. }
        rewrite D1, D2. rewrite !nth_upd_other; auto; intro E; apply Hi; now left.
  Qed.

  Definition infra_lengths : Prop := List.length (i_allow inf) = n_stations inf.

  (* level list of the station of a queued session, and the state the loop starts from *)
  Definition levels_for (s : session) : list Q := rr_levels_of (nth (s_station s) (i_allow inf) []) s.

  Lemma rr_init_spec q :
    NoDup (map s_station q) -> stations_ok q -> infra_lengths ->
    let st := rr_init inf period inc q in
    List.length (snd st) = n_stations inf
    /\ (forall s, In s q -> nth (s_station s) (fst st) [] = levels_for s
                           /\ nth (s_station s) (snd st) 0 = hd 0 (levels_for s))
    /\ (forall i, ~ In i (map s_station q) -> nth i (snd st) 0 = 0).
  Proof.
    intros ND SO IL. unfold rr_init.
    destruct (rr_init_fold q (i_allow inf) (repeat 0 (n_stations inf)) ND) as [A [B [C D]]].
    { intros s I. rewrite repeat_length, IL. split; now apply SO. }
    cbv zeta. split; [now rewrite B, repeat_length|]. split; [exact C|].
    intros i Hi. destruct (D i Hi) as [_ D2]. rewrite D2. apply nth_repeat.
  Qed.

  (* why a session left the deque: it was at the top of its own (bound-filtered) level list, or the
     schedule `tried` with its next level was infeasible at that moment *)
  Definition leave_reason (lv : list Q) (i kf : nat) (e : rr_event) : Prop :=
    (e = AtTop i kf /\ ~ (S kf < List.length lv)%nat)
    \/ (exists tried, e = Blocked i kf tried /\ (S kf < List.length lv)%nat
                      /\ nth i tried 0 = nth (S kf) lv 0 /\ feasible tried = false).

  (* ---- the loop as a step relation ---- *)
  Section Loop.
    Variable levels : list (list Q).
    Notation lv_of := (fun i => nth i levels []).

    Inductive rr_steps : list session -> list Q -> list nat -> list rr_event -> list Q -> Prop :=
    | rs_done sched ridx : rr_steps [] sched ridx [] sched
    | rs_raise s q sched ridx log out :
        let i := s_station s in let k := nth i ridx O in
        RR_can_raise (Z.of_nat k) 0%Z 0%Z (Z.of_nat (List.length (lv_of i))) = true ->
        feasible (upd i (nth (S k) (lv_of i) 0) sched) = true ->
        rr_steps (q ++ [s]) (upd i (nth (S k) (lv_of i) 0) sched) (upd i (S k) ridx) log out ->
        rr_steps (s :: q) sched ridx (Raised i k :: log) out
    | rs_block s q sched ridx log out :
        let i := s_station s in let k := nth i ridx O in
        RR_can_raise (Z.of_nat k) 0%Z 0%Z (Z.of_nat (List.length (lv_of i))) = true ->
        feasible (upd i (nth (S k) (lv_of i) 0) sched) = false ->
        rr_steps q (upd i (nth k (lv_of i) 0) (upd i (nth (S k) (lv_of i) 0) sched)) ridx log out ->
        rr_steps (s :: q) sched ridx (Blocked i k (upd i (nth (S k) (lv_of i) 0) sched) :: log) out
    | rs_top s q sched ridx log out :
        let i := s_station s in let k := nth i ridx O in
        RR_can_raise (Z.of_nat k) 0%Z 0%Z (Z.of_nat (List.length (lv_of i))) = false ->
        rr_steps q sched ridx log out ->
        rr_steps (s :: q) sched ridx (AtTop i k :: log) out.

    Lemma rr_loop_steps : forall fuel q sched ridx acc out l,
      rr_loop feasible fuel q sched ridx levels acc = Some (out, l) ->
      exists log, l = rev acc ++ log /\ rr_steps q sched ridx log out.
    Proof.
      induction fuel as [|f IH]; intros q sched ridx acc out l H; cbn [rr_loop] in H; [discriminate|].
      destruct q as [|s q].
      - injection H as <- <-. exists []. split; [now rewrite app_nil_r|constructor].
      - destruct (RR_can_raise _ _ _ _) eqn:CR.
        + destruct (feasible _) eqn:F.
          * apply IH in H. destruct H as [log [E St]]. cbn [rev] in E. rewrite <- app_assoc in E.
            eexists. split; [exact E|]. eapply rs_raise; eauto.
          * apply IH in H. destruct H as [log [E St]]. cbn [rev] in E. rewrite <- app_assoc in E.
            eexists. split; [exact E|]. eapply rs_block; eauto.
        + apply IH in H. destruct H as [log [E St]]. cbn [rev] in E. rewrite <- app_assoc in E.
          eexists. split; [exact E|]. eapply rs_top; eauto.
    Qed.

    (* invariant: every station of `all` sits at the level its index points to *)
    Definition at_level (all : list session) (sched : list Q) (ridx : list nat) : Prop :=
      forall s, In s all ->
        let i := s_station s in let k := nth i ridx O in
        nth i sched 0 = nth k (lv_of i) 0 /\ (k = O \/ k < List.length (lv_of i))%nat.

    Lemma can_raise_lt k n : RR_can_raise (Z.of_nat k) 0%Z 0%Z (Z.of_nat n) = true <-> (S k < n)%nat.
    Proof. rewrite anchor_can_raise. rewrite Z.ltb_lt. lia. Qed.

    Lemma rr_steps_inv all : forall q sched ridx log out,
      rr_steps q sched ridx log out ->
      NoDup (map s_station all) -> incl q all ->
      (forall s, In s all -> (s_station s < List.length sched)%nat /\ (s_station s < List.length ridx)%nat) ->
      at_level all sched ridx -> feasible sched = true ->
      feasible out = true
      /\ List.length out = List.length sched
      /\ (forall s, In s all -> exists k, nth (s_station s) out 0 = nth k (lv_of (s_station s)) 0
                                         /\ (k = O \/ k < List.length (lv_of (s_station s)))%nat)
      /\ (forall j, ~ In j (map s_station all) -> nth j out 0 = nth j sched 0).
    Proof.
      induction 1 as [sched ridx|s q sched ridx log out i k CR F St IH|s q sched ridx log out i k CR F St IH
                     |s q sched ridx log out i k CR St IH]; intros ND Inc Len AL Fs.
      - repeat split; auto. intros s I. destruct (AL s I) as [A B]. eexists; split; eauto.
      - assert (Is : In s all) by (apply Inc; now left).
        destruct (Len s Is) as [L1 L2]. fold i in L1, L2.
        destruct IH as [A [B [C D]]]; auto.
        + intros x Ix. apply in_app_or in Ix. destruct Ix as [Ix|[<-|[]]]; auto. apply Inc. now right.
        + intros x Ix. rewrite !upd_length. now apply Len.
        + intros x Ix. cbv zeta. destruct (Nat.eq_dec (s_station x) i) as [E|E].
          * rewrite E. rewrite !nth_upd_same by auto. split; auto. right. now apply can_raise_lt.
          * rewrite !nth_upd_other by auto. now apply AL.
        + rewrite upd_length in B. repeat split; auto.
          intros j Hj. rewrite D by auto. apply nth_upd_other. intro E. apply Hj. rewrite <- E. now apply in_map.
      - assert (Is : In s all) by (apply Inc; now left).
        destruct (AL s Is) as [A0 B0]. fold i in A0, B0. fold k in A0, B0.
        assert (E : upd i (nth k (lv_of i) 0) (upd i (nth (S k) (lv_of i) 0) sched) = sched).
        { rewrite upd_upd. now apply (upd_same_value _ _ 0). }
        rewrite E in St, IH. apply IH; auto. intros x Ix. apply Inc. now right.
      - apply IH; auto. intros x Ix. apply Inc. now right.
    Qed.

    (* deque discipline: the popped session is always the head; it is re-queued at the back iff raised *)
    Definition ev_station (e : rr_event) : nat :=
      match e with Raised i _ => i | Blocked i _ _ => i | AtTop i _ => i end.
    Definition ev_raised (e : rr_event) : bool := match e with Raised _ _ => true | _ => false end.
    Fixpoint deque_ok (q : list session) (log : list rr_event) : Prop :=
      match log, q with
      | [], [] => True
      | e :: l, s :: q' => ev_station e = s_station s /\ deque_ok (if ev_raised e then q' ++ [s] else q') l
      | _, _ => False
      end.

    Lemma rr_steps_deque q sched ridx log out : rr_steps q sched ridx log out -> deque_ok q log.
    Proof. induction 1; cbn [deque_ok ev_station ev_raised]; auto. Qed.

    (* per station: Raised k0, Raised k0+1, ..., then exactly one leaving event *)
    Definition events_of (i : nat) (log : list rr_event) : list rr_event :=
      filter (fun e => Nat.eqb (ev_station e) i) log.

    Definition leave_ok (i kf : nat) (e : rr_event) : Prop := leave_reason (lv_of i) i kf e.

    Lemma rr_steps_station : forall q sched ridx log out,
      rr_steps q sched ridx log out ->
      NoDup (map s_station q) ->
      (forall s, In s q -> (s_station s < List.length sched)%nat /\ (s_station s < List.length ridx)%nat) ->
      (forall s, In s q ->
         let i := s_station s in let k := nth i ridx O in
         nth i sched 0 = nth k (lv_of i) 0 /\ (k = O \/ k < List.length (lv_of i))%nat) ->
      (forall s, In s q ->
         let i := s_station s in let k0 := nth i ridx O in
         exists kf e, (k0 <= kf)%nat
           /\ events_of i log = map (Raised i) (seq k0 (kf - k0)) ++ [e]
           /\ leave_ok i kf e
           /\ nth i out 0 = nth kf (lv_of i) 0
           /\ (kf = O \/ kf < List.length (lv_of i))%nat)
      /\ (forall j, ~ In j (map s_station q) -> events_of j log = [] /\ nth j out 0 = nth j sched 0).
    Proof.
      induction 1 as [sched ridx|s q sched ridx log out i k CR F St IH|s q sched ridx log out i k CR F St IH
                     |s q sched ridx log out i k CR St IH]; intros ND Len AL.
      - split; [intros s []|]. intros j _. split; auto.
      - (* raised: s goes to the back *)
        inversion ND as [|? ? Hn ND']; subst.
        destruct (Len s (or_introl eq_refl)) as [L1 L2]. fold i in L1, L2.
        assert (ND2 : NoDup (map s_station (q ++ [s]))).
        { rewrite map_app. cbn [map]. eapply Permutation_NoDup; [apply Permutation_cons_append|exact ND]. }
        destruct IH as [IHa IHb]; auto.
        + intros x Ix. rewrite !upd_length. apply Len. apply in_app_or in Ix. destruct Ix as [Ix|[<-|[]]]; auto.
          now right. now left.
        + intros x Ix. apply in_app_or in Ix. destruct Ix as [Ix|[<-|[]]].
          * assert (Ne : i <> s_station x).
            { intro E. apply Hn. unfold i in E. rewrite E. now apply in_map. }
            cbv zeta. rewrite !nth_upd_other by auto. apply AL. now right.
          * cbv zeta. fold i. rewrite !nth_upd_same by auto. split; auto. right. now apply can_raise_lt.
        + split.
          * intros x [<-|Ix].
            -- destruct (IHa s) as [kf [e [Le [Ev [Lv [Out Kb]]]]]]. { apply in_or_app. right. now left. }
               fold i in Le, Ev, Lv, Out, Kb. rewrite nth_upd_same in Le, Ev by auto.
               exists kf, e. fold i. fold k. split; [lia|]. split; [|split; auto].
               unfold events_of in *. cbn [filter ev_station]. rewrite Nat.eqb_refl.
               rewrite Ev. replace (kf - k)%nat with (S (kf - S k)) by lia. reflexivity.
            -- destruct (IHa x) as [kf [e [Le [Ev [Lv [Out Kb]]]]]]. { apply in_or_app. now left. }
               assert (Ne : i <> s_station x).
               { intro E. apply Hn. unfold i in E. rewrite E. now apply in_map. }
               rewrite nth_upd_other in Le, Ev by auto.
               exists kf, e. split; auto. split; [|split; auto].
               unfold events_of in *. cbn [filter ev_station].
               destruct (Nat.eqb i (s_station x)) eqn:E; [apply Nat.eqb_eq in E; contradiction|exact Ev].
          * intros j Hj. destruct (IHb j) as [E1 E2].
            { rewrite map_app. cbn [map]. intro I. apply Hj. apply in_app_or in I.
              destruct I as [I|[<-|[]]]; [now right|now left]. }
            assert (Ne : i <> j) by (intro E; apply Hj; left; exact E).
            split.
            -- unfold events_of in *. cbn [filter ev_station].
               destruct (Nat.eqb i j) eqn:E; [apply Nat.eqb_eq in E; contradiction|exact E1].
            -- rewrite E2. now apply nth_upd_other.
      - (* blocked: s leaves; the schedule is restored *)
        inversion ND as [|? ? Hn ND']; subst.
        destruct (AL s (or_introl eq_refl)) as [A0 B0]. fold i in A0, B0. fold k in A0, B0.
        assert (E : upd i (nth k (lv_of i) 0) (upd i (nth (S k) (lv_of i) 0) sched) = sched).
        { rewrite upd_upd. now apply (upd_same_value _ _ 0). }
        rewrite E in St, IH.
        destruct (Len s (or_introl eq_refl)) as [L1 L2]. fold i in L1, L2.
        destruct IH as [IHa IHb]; auto.
        + intros x Ix. apply Len. now right.
        + intros x Ix. apply AL. now right.
        + split.
          * intros x [<-|Ix].
            -- destruct (IHb i Hn) as [E1 E2]. fold i. fold k.
               exists k, (Blocked i k (upd i (nth (S k) (lv_of i) 0) sched)).
               split; [lia|]. split; [|split; [|split]].
               ++ unfold events_of in *. cbn [filter ev_station]. rewrite Nat.eqb_refl, E1.
                  now rewrite Nat.sub_diag.
               ++ right. eexists. split; [reflexivity|]. split; [now apply can_raise_lt|].
                  split; [now apply nth_upd_same|exact F].
               ++ now rewrite E2.
               ++ exact B0.
            -- destruct (IHa x Ix) as [kf [e [Le [Ev [Lv [Out Kb]]]]]].
               assert (Ne : i <> s_station x).
               { intro E0. apply Hn. unfold i in E0. rewrite E0. now apply in_map. }
               exists kf, e. split; auto. split; [|split; auto].
               unfold events_of in *. cbn [filter ev_station].
               destruct (Nat.eqb i (s_station x)) eqn:E0; [apply Nat.eqb_eq in E0; contradiction|exact Ev].
          * intros j Hj. destruct (IHb j) as [E1 E2]. { intro I. apply Hj. now right. }
            assert (Ne : i <> j) by (intro E0; apply Hj; left; exact E0).
            split; auto. unfold events_of in *. cbn [filter ev_station].
            destruct (Nat.eqb i j) eqn:E0; [apply Nat.eqb_eq in E0; contradiction|exact E1].
      - (* at the top of its list: s leaves *)
        inversion ND as [|? ? Hn ND']; subst.
        destruct (AL s (or_introl eq_refl)) as [A0 B0]. fold i in A0, B0. fold k in A0, B0.
        destruct IH as [IHa IHb]; auto.
        + intros x Ix. apply Len. now right.
        + intros x Ix. apply AL. now right.
        + split.
          * intros x [<-|Ix].
            -- destruct (IHb i Hn) as [E1 E2]. fold i. fold k.
               exists k, (AtTop i k). split; [lia|]. split; [|split; [|split]].
               ++ unfold events_of in *. cbn [filter ev_station]. rewrite Nat.eqb_refl, E1.
                  now rewrite Nat.sub_diag.
               ++ left. split; auto. intro L. apply can_raise_lt in L. congruence.
               ++ now rewrite E2.
               ++ exact B0.
            -- destruct (IHa x Ix) as [kf [e [Le [Ev [Lv [Out Kb]]]]]].
               assert (Ne : i <> s_station x).
               { intro E0. apply Hn. unfold i in E0. rewrite E0. now apply in_map. }
               exists kf, e. split; auto. split; [|split; auto].
               unfold events_of in *. cbn [filter ev_station].
               destruct (Nat.eqb i (s_station x)) eqn:E0; [apply Nat.eqb_eq in E0; contradiction|exact Ev].
          * intros j Hj. destruct (IHb j) as [E1 E2]. { intro I. apply Hj. now right. }
            assert (Ne : i <> j) by (intro E0; apply Hj; left; exact E0).
            split; auto. unfold events_of in *. cbn [filter ev_station].
            destruct (Nat.eqb i j) eqn:E0; [apply Nat.eqb_eq in E0; contradiction|exact E1].
    Qed.
  End Loop.

  Lemma hd_nth0 (l : list Q) : hd 0 l = nth 0 l 0.
  Proof. destruct l; reflexivity. Qed.

  (* every level of a session's list respects its bounds; finite-rate stations only use their own levels *)
  Lemma levels_for_bounds s a :
    In a (levels_for s) ->
    rr_lb s <= a /\ a <= rr_ub inf period s
    /\ (nth (s_station s) (i_cont inf) true = false -> In a (nth (s_station s) (i_allow inf) [])).
  Proof.
    unfold levels_for, Sorted.rr_levels_of. intro I.
    apply filter_In in I. destruct I as [I U]. apply filter_In in I. destruct I as [I L].
    rewrite anchor_rr_keep_ub in U. rewrite anchor_rr_keep_lb in L.
    apply Qleb_spec in U. apply Qleb_spec in L. repeat split; auto.
    intro C. rewrite C in I. exact I.
  Qed.

  Theorem rr_run k ss out log :
    NoDup (map s_station ss) -> stations_ok ss -> infra_lengths ->
    round_robin_full feasible inf period now inc k ss = Ok (out, log) ->
    feasible out = true
    /\ deque_ok (sort_sessions inf period now k ss) log
    /\ (forall s, In s ss ->
          let i := s_station s in
          exists kf e, events_of i log = map (Raised i) (seq 0 kf) ++ [e]
                    /\ leave_reason (levels_for s) i kf e
                    /\ nth i out 0 = nth kf (levels_for s) 0
                    /\ (kf = O \/ kf < List.length (levels_for s))%nat)
    /\ (forall j, ~ In j (map s_station ss) -> nth j out 0 = 0).
  Proof.
    intros ND SO IL H. unfold round_robin_full in H.
    set (q := sort_sessions inf period now k ss) in *.
    assert (P : Permutation q ss) by apply sort_by_perm.
    assert (NDq : NoDup (map s_station q)).
    { eapply Permutation_NoDup; [|exact ND]. apply Permutation_map. now symmetry. }
    assert (SOq : stations_ok q).
    { intros s I. apply SO. eapply Permutation_in; eauto. }
    pose proof (rr_init_spec q NDq SOq IL) as Init. cbv zeta in Init.
    destruct (rr_init inf period inc q) as [levels s0] eqn:RI. cbn [fst snd] in Init.
    destruct Init as [L0 [Lv Z0]].
    destruct (feasible s0) eqn:F0; cbn [negb] in H; [|discriminate].
    destruct (rr_loop _ _ _ _ _ _ _) as [[o l]|] eqn:RL; [|discriminate].
    injection H as -> ->.
    apply rr_loop_steps in RL. destruct RL as [lg [E St]]. cbn [rev app] in E. subst lg.
    assert (Len : forall s, In s q -> (s_station s < List.length s0)%nat
                                      /\ (s_station s < List.length (repeat O (n_stations inf)))%nat).
    { intros s I. rewrite L0, repeat_length. split; now apply SOq. }
    assert (AL : forall s, In s q ->
               let i := s_station s in let k0 := nth i (repeat O (n_stations inf)) O in
               nth i s0 0 = nth k0 (nth i levels []) 0 /\ (k0 = O \/ k0 < List.length (nth i levels []))%nat).
    { intros s I. cbv zeta. rewrite nth_repeat. destruct (Lv s I) as [A B]. rewrite A, B. split; auto.
      apply hd_nth0. }
    destruct (rr_steps_inv levels q _ _ _ _ _ St NDq (incl_refl q) Len AL F0) as [Fo [_ [_ Oth]]].
    destruct (rr_steps_station levels _ _ _ _ _ St NDq Len AL) as [Sa Sb].
    split; [exact Fo|]. split; [eapply rr_steps_deque; eauto|]. split.
    - intros s I. assert (Iq : In s q) by (eapply Permutation_in; [symmetry|]; eauto).
      destruct (Sa s Iq) as [kf [e [Le [Ev [Lr [Out Kb]]]]]]. cbv zeta in *.
      rewrite nth_repeat in Ev. rewrite Nat.sub_0_r in Ev.
      destruct (Lv s Iq) as [A _]. unfold leave_ok in Lr. rewrite A in Lr, Out, Kb.
      exists kf, e. auto.
    - intros j Hj. rewrite Oth.
      + apply Z0. intro I. apply Hj. eapply Permutation_in; [apply Permutation_map; exact P|exact I].
      + intro I. apply Hj. eapply Permutation_in; [apply Permutation_map; exact P|exact I].
  Qed.

  (* consequences used by C07: feasibility and bounds of the emitted pilots *)
  Corollary rr_feasible k ss out :
    NoDup (map s_station ss) -> stations_ok ss -> infra_lengths ->
    round_robin feasible inf period now inc k ss = Ok out -> feasible out = true.
  Proof.
    intros ND SO IL H. unfold round_robin in H.
    destruct (round_robin_full _ _ _ _ _ _ _) as [[o l]|e] eqn:R; [|discriminate].
    cbn in H. injection H as <-. eapply rr_run; eauto.
  Qed.

  Corollary rr_bounds k ss out s :
    NoDup (map s_station ss) -> stations_ok ss -> infra_lengths ->
    round_robin feasible inf period now inc k ss = Ok out -> In s ss ->
    let r := nth (s_station s) out 0 in
    r = 0 \/ (rr_lb s <= r /\ r <= rr_ub inf period s
              /\ (nth (s_station s) (i_cont inf) true = false -> In r (nth (s_station s) (i_allow inf) []))).
  Proof.
    intros ND SO IL H I. unfold round_robin in H.
    destruct (round_robin_full _ _ _ _ _ _ _) as [[o l]|e] eqn:R; [|discriminate].
    cbn in H. injection H as <-.
    destruct (rr_run _ _ _ _ ND SO IL R) as [_ [_ [St _]]].
    destruct (St s I) as [kf [e [_ [_ [Out Kb]]]]]. cbv zeta in *. rewrite Out.
    destruct (levels_for s) as [|a l0] eqn:LV.
    - left. destruct kf; reflexivity.
    - right. rewrite <- LV in *. apply levels_for_bounds. apply nth_In.
      destruct Kb as [->|Kb]; auto. rewrite LV. simpl. lia.
  Qed.

  Corollary rr_inactive_zero k ss out j :
    NoDup (map s_station ss) -> stations_ok ss -> infra_lengths ->
    round_robin feasible inf period now inc k ss = Ok out ->
    ~ In j (map s_station ss) -> nth j out 0 = 0.
  Proof.
    intros ND SO IL H Hj. unfold round_robin in H.
    destruct (round_robin_full _ _ _ _ _ _ _) as [[o l]|e] eqn:R; [|discriminate].
    cbn in H. injection H as <-. eapply rr_run; eauto.
  Qed.
End RR.

(* ============================================================================================
   7. the sort functions: sorted by the key, stable, a permutation
   ============================================================================================ *)
Section SortSpec.
  Context {A : Type}.
  Variable key : A -> Q.
  Variable rev : bool.

  Definition key_le (a b : A) : Prop := if rev then key b <= key a else key a <= key b.
  Let le (x y : A) : bool := if rev then Qleb (key y) (key x) else Qleb (key x) (key y).

  Lemma le_spec x y : le x y = true <-> key_le x y.
  Proof. unfold le, key_le. destruct rev; apply Qleb_spec. Qed.
  Lemma le_false x y : le x y = false -> key_le y x /\ ~ key x == key y.
  Proof.
    unfold le, key_le. destruct rev; intro H; apply Qleb_false in H; split; try lra; intro E; rewrite E in H;
      eapply Qlt_irrefl; eauto.
  Qed.
  Lemma key_le_trans x y z : key_le x y -> key_le y z -> key_le x z.
  Proof. unfold key_le. destruct rev; intros; lra. Qed.

  Lemma insert_sorted x l :
    StronglySorted key_le l -> StronglySorted key_le (insert_stable le x l).
  Proof.
    induction 1 as [|y l S IH F]; simpl.
    - repeat constructor.
    - destruct (le x y) eqn:E.
      + apply le_spec in E. constructor; [constructor; auto|].
        constructor; auto. rewrite Forall_forall in *. intros z I. eapply key_le_trans; eauto.
      + apply le_false in E. destruct E as [E _]. constructor; auto.
        rewrite Forall_forall in *. intros z I.
        apply (Permutation_in _ (insert_stable_perm le x l)) in I. destruct I as [<-|I]; auto.
  Qed.

  Lemma sort_by_sorted l : StronglySorted key_le (sort_by key rev l).
  Proof.
    unfold sort_by. change (fun x y : A => if rev then Qleb (key y) (key x) else Qleb (key x) (key y)) with le.
    induction l as [|x l IH]; simpl; [constructor|]. now apply insert_sorted.
  Qed.

  (* stability: sessions with the same key keep their original relative order *)
  Lemma insert_filter v x l :
    filter (fun a => Qeqb (key a) v) (insert_stable le x l)
    = filter (fun a => Qeqb (key a) v) (x :: l).
  Proof.
    induction l as [|y l IH]; [reflexivity|]. cbn [insert_stable].
    destruct (le x y) eqn:E; [reflexivity|].
    apply le_false in E. destruct E as [_ Ne].
    cbn [filter] in *. rewrite IH.
    destruct (Qeqb (key x) v) eqn:Ex, (Qeqb (key y) v) eqn:Ey; auto.
    apply Qeqb_spec in Ex. apply Qeqb_spec in Ey. exfalso. apply Ne. now rewrite Ex, Ey.
  Qed.

  Lemma sort_by_stable v l :
    filter (fun a => Qeqb (key a) v) (sort_by key rev l) = filter (fun a => Qeqb (key a) v) l.
  Proof.
    unfold sort_by. change (fun x y : A => if rev then Qleb (key y) (key x) else Qleb (key x) (key y)) with le.
    induction l as [|x l IH]; [reflexivity|]. cbn [stable_sort fold_right].
    change (fold_right (insert_stable le) [] l) with (stable_sort le l).
    rewrite insert_filter. cbn [filter]. now rewrite IH.
  Qed.
End SortSpec.

(* ============================================================================================
   8. the greedy algorithm as a whole
   ============================================================================================ *)
Section Greedy.
  Variable feasible : list Q -> bool.
  Variable inf : infra.
  Variable period : Q.
  Variable now : Z.
  Notation greedy_steps := (greedy_steps feasible inf period).
  Notation view := (view inf).
  Notation greedy_rate := (greedy_rate feasible inf period).

  Lemma greedy_steps_prefix g w fin :
    greedy_steps g w fin -> exists rest, fin = g ++ rest /\ map fst rest = w.
  Proof.
    induction 1 as [g|g s w r fin R St IH].
    - exists []. now rewrite app_nil_r.
    - destruct IH as [rest [E M]]. exists ((s, r) :: rest). rewrite <- app_assoc in E. cbn [app] in E.
      split; auto. cbn [map fst]. now rewrite M.
  Qed.

  (* when s is processed it sees exactly: earlier sessions at their granted rates, itself and the later
     ones at their lower bounds, every other station 0 *)
  Lemma greedy_steps_split g w fin :
    greedy_steps g w fin ->
    forall f1 s r f2, fin = f1 ++ (s, r) :: f2 -> (List.length g <= List.length f1)%nat ->
    greedy_rate s (view f1 (s :: map fst f2)) = Ok r.
  Proof.
    induction 1 as [g|g s0 w r0 fin R St IH]; intros f1 s r f2 E L.
    - exfalso. apply (f_equal (@List.length _)) in E. rewrite app_length in E. simpl in E. lia.
    - destruct (Nat.eq_dec (List.length f1) (List.length g)) as [EL|NL].
      + destruct (greedy_steps_prefix _ _ _ St) as [rest [E2 M]].
        rewrite <- app_assoc in E2. cbn [app] in E2. rewrite E2 in E.
        apply app_eq_length in E; [|now symmetry]. destruct E as [-> E]. injection E as <- <- <-.
        now rewrite M.
      + apply IH; auto. rewrite app_length. simpl. lia.
  Qed.

  Theorem greedy_run k ss out :
    NoDup (map s_station ss) -> stations_ok inf ss ->
    sorting_algorithm feasible inf period now k ss = Ok out ->
    let q := sort_sessions inf period now k ss in
    exists rates, List.length rates = List.length q
      /\ forall f1 s r f2, combine q rates = f1 ++ (s, r) :: f2 ->
           greedy_rate s (view f1 (s :: map fst f2)) = Ok r
           /\ nth (s_station s) out 0 = r.
  Proof.
    intros ND SO H q. unfold sorting_algorithm in H. fold q in H.
    assert (P : Permutation q ss) by apply sort_by_perm.
    assert (NDq : NoDup (map s_station q)).
    { eapply Permutation_NoDup; [|exact ND]. apply Permutation_map. now symmetry. }
    assert (SOq : stations_ok inf q).
    { intros s I. apply SO. eapply Permutation_in; eauto. }
    destruct (feasible (init_sched inf g_init_lb q)) eqn:F0; cbn [negb] in H; [|discriminate].
    rewrite init_is_view in H by auto.
    apply greedy_loop_steps in H; auto.
    destruct H as [fin [St ->]].
    pose proof (greedy_steps_sessions _ _ _ _ _ _ St) as M. cbn [map app] in M.
    exists (map snd fin). split.
    - now rewrite <- M, !map_length.
    - assert (C : combine q (map snd fin) = fin).
      { rewrite <- M. clear. induction fin as [|[a b] l IH]; simpl; auto. now rewrite IH. }
      rewrite C. intros f1 s r f2 E. split.
      + eapply greedy_steps_split; eauto. simpl. lia.
      + apply view_final.
        * replace (map (fun sr : session * Q => s_station (fst sr)) fin) with (map s_station (map fst fin)).
          -- now rewrite M.
          -- now rewrite map_map.
        * rewrite E. apply in_or_app. right. now left.
        * apply SOq. rewrite <- M, E, map_app. apply in_or_app. right. now left.
  Qed.

  (* every session's final pilot is the rate some step granted it, hence bounded as greedy_rate_bounds says *)
  Corollary greedy_bounds k ss out s :
    NoDup (map s_station ss) -> stations_ok inf ss ->
    sorting_algorithm feasible inf period now k ss = Ok out -> In s ss ->
    let r := nth (s_station s) out 0 in
    (r = 0 \/ r = g_lb s \/ r = g_ub inf period s \/ (g_lb s <= r /\ r <= g_ub inf period s))
    /\ (nth (s_station s) (i_cont inf) true = false -> r = 0 \/ In r (nth (s_station s) (i_allow inf) [])).
  Proof.
    intros ND SO H I. destruct (greedy_run k ss out ND SO H) as [rates [L Sp]].
    set (q := sort_sessions inf period now k ss) in *.
    assert (Iq : In s q). { eapply Permutation_in; [symmetry; apply sort_by_perm|exact I]. }
    destruct (In_nth _ _ s Iq) as [n [Ln En]].
    assert (Ic : In (s, nth n rates 0) (combine q rates)).
    { rewrite <- En at 1. rewrite <- combine_nth by auto. apply nth_In. rewrite combine_length. lia. }
    apply in_split in Ic. destruct Ic as [f1 [f2 E]].
    destruct (Sp _ _ _ _ E) as [R Out]. cbv zeta. rewrite Out. split.
    - eapply greedy_rate_bounds; eauto.
    - intro C. eapply greedy_rate_level; eauto.
  Qed.

  Corollary greedy_inactive_zero k ss out j :
    sorting_algorithm feasible inf period now k ss = Ok out ->
    ~ In j (map s_station ss) -> nth j out 0 = 0.
  Proof.
    intros H Hj. unfold sorting_algorithm in H.
    set (q := sort_sessions inf period now k ss) in *.
    destruct (feasible (init_sched inf g_init_lb q)); cbn [negb] in H; [|discriminate].
    assert (Hq : ~ In j (map s_station q)).
    { intro I. apply Hj. eapply Permutation_in; [apply Permutation_map; apply sort_by_perm|exact I]. }
    rewrite (greedy_loop_other _ _ _ _ _ _ j Hq H). unfold init_sched.
    rewrite init_sched_other by auto. apply nth_repeat.
  Qed.
End Greedy.

(* ============================================================================================
   9. UncontrolledCharging
   ============================================================================================ *)
Lemma uncontrolled_spec inf ss j :
  (j < n_stations inf)%nat ->
  nth j (uncontrolled inf ss) None
  = if existsb (fun s => Nat.eqb (s_station s) j) ss then Some (nthQ (i_maxp inf) j) else None.
Proof.
  intro L. unfold uncontrolled.
  assert (G : forall out, List.length out = n_stations inf ->
            nth j (fold_left (fun out s => upd (s_station s) (Some (max_pilot_signal inf s)) out) ss out) None
            = if existsb (fun s => Nat.eqb (s_station s) j) ss then Some (nthQ (i_maxp inf) j) else nth j out None).
  { induction ss as [|s ss IH]; intros out Lo; cbn [fold_left existsb]; auto.
    rewrite IH by now rewrite upd_length.
    destruct (existsb _ ss); [now rewrite orb_true_r|]. rewrite orb_false_r.
    rewrite nth_upd. destruct (Nat.eqb (s_station s) j) eqn:E; auto.
    apply Nat.eqb_eq in E. subst j. rewrite Lo. apply Nat.ltb_lt in L. rewrite L. reflexivity. }
  rewrite G by apply repeat_length. destruct (existsb _ ss); auto. apply nth_repeat.
Qed.
