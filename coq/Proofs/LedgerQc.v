(* Proofs/LedgerQc.v — the canonical-rational instance of the ledger theorems (axiom-free).
   Part 1: the regenerated battery kernels over Q obey the consistency law (with ==).
   Part 2: Qc is a commutative ring with division = multiplication by the inverse; the lifted kernels
           KQc satisfy `kern_laws_F`.
   Part 3: instantiation of Proofs/LedgerField.v. *)
From Coq Require Import ZArith QArith Qcanon Qminmax Qabs Qround Qfield Lqa List Bool Lia Permutation Ring.
From ACN Require Import Base.Num Base.ListX Gen.Battery_Q Gen.Evse_Q Gen.EvseZ_Z Gen.Ledger_Q
                        Model.EVSE Model.Ledger Model.LedgerQ Model.LedgerQc Proofs.LedgerField.
Import ListNotations.

(* ------------------------------------------------------------------------------------------ *)
(* Part 1: battery kernels over Q                                                               *)
(* ------------------------------------------------------------------------------------------ *)
Open Scope Q_scope.

Lemma Qleb_false_lt a b : Qleb a b = false -> b < a.
Proof. intro H. apply Qnot_le_lt. intro Hle. apply Qleb_spec in Hle. congruence. Qed.

Lemma battery_consistent_ideal_Q cap cur pw mp p v t o :
  Battery_charge cap cur pw mp p v t = OkS o ->
  Battery_charge__current_charge o - cur == Battery_charge_ret o * v / 1000 * (t / 60).
Proof.
  unfold Battery_charge.
  destruct (Qleb v 0) eqn:Ev; [discriminate|]. apply Qleb_false_lt in Ev.
  destruct (Qleb t 0) eqn:Et; [discriminate|]. apply Qleb_false_lt in Et.
  cbv zeta. intro H; inversion H; subst; clear H. cbn [Battery_charge__current_charge Battery_charge_ret].
  set (cp := Qmin _ _). field. intro Hv. rewrite Hv in Ev. apply (Qlt_irrefl 0). exact Ev.
Qed.

Lemma battery_consistent_stepwise_Q cap cur pw mp nl ts p v t n n2 o :
  L2_charge_stepwise cap cur pw mp nl ts p v t n n2 = OkS o ->
  L2_charge_stepwise__current_charge o - cur == L2_charge_stepwise_ret o * v / 1000 * (t / 60).
Proof.
  unfold L2_charge_stepwise.
  destruct (Qleb v 0) eqn:Ev; [discriminate|]. apply Qleb_false_lt in Ev.
  destruct (Qleb t 0) eqn:Et; [discriminate|]. apply Qleb_false_lt in Et.
  cbv zeta. intro H; inversion H; subst; clear H.
  cbn [L2_charge_stepwise__current_charge L2_charge_stepwise_ret].
  match goal with |- cur + ?c * _ - cur == _ => set (cp := c) end.
  field. intro Hv. rewrite Hv in Ev. apply (Qlt_irrefl 0). exact Ev.
Qed.

Lemma battery_consistent_continuous_Q cap cur pw mp nl ts p v t n o :
  ~ cap == 0 ->
  L2_charge cap cur pw mp nl ts p v t n = OkS o ->
  L2_charge__current_charge o - cur == L2_charge_ret o * v / 1000 * (t / 60).
Proof.
  intro Hcap. unfold L2_charge.
  destruct (Qleb v 0) eqn:Ev; [discriminate|]. apply Qleb_false_lt in Ev.
  destruct (Qleb t 0) eqn:Et; [discriminate|]. apply Qleb_false_lt in Et.
  assert (Hv : ~ v == 0) by (intro Hv; rewrite Hv in Ev; apply (Qlt_irrefl 0); exact Ev).
  assert (Ht : ~ t == 0) by (intro Ht; rewrite Ht in Et; apply (Qlt_irrefl 0); exact Et).
  destruct (Qeqb p 0) eqn:Ep.
  - cbv zeta. intro H; inversion H; subst; clear H. cbn [L2_charge__current_charge L2_charge_ret]. field; auto.
  - cbv zeta. intro H; inversion H; subst; clear H. cbn [L2_charge__current_charge L2_charge_ret].
    match goal with |- ?s * cap - cur == _ => set (soc' := s) end.
    field. repeat split; auto.
Qed.

Lemma batt_step_Q_law b p v t n r b' :
  (b_kind b = BL2cont -> ~ b_cap b == 0) ->
  batt_step_Q b p v t n = Some (r, b') ->
  b_kind b' = b_kind b /\ b_cap b' = b_cap b /\ b_cur b' - b_cur b == r * v / 1000 * (t / 60).
Proof.
  unfold batt_step_Q. destruct b as [k cap cur pw mp nl ts]; cbn [b_kind b_cap b_cur b_pow b_maxp b_noise b_tsoc].
  destruct k; intros Hok.
  - destruct (Battery_charge cap cur pw mp p v t) as [o|] eqn:E; [|discriminate].
    intro H; inversion H; subst; clear H. cbn [b_kind b_cap b_cur]. repeat split.
    rewrite Qred_correct. now apply battery_consistent_ideal_Q in E.
  - destruct (L2_charge cap cur pw mp nl ts p v t (fst n)) as [o|] eqn:E; [|discriminate].
    intro H; inversion H; subst; clear H. cbn [b_kind b_cap b_cur]. repeat split.
    rewrite Qred_correct. apply battery_consistent_continuous_Q in E; auto.
  - destruct (L2_charge_stepwise cap cur pw mp nl ts p v t (fst n) (snd n)) as [o|] eqn:E; [|discriminate].
    intro H; inversion H; subst; clear H. cbn [b_kind b_cap b_cur]. repeat split.
    rewrite Qred_correct. now apply battery_consistent_stepwise_Q in E.
Qed.

Close Scope Q_scope.

(* ------------------------------------------------------------------------------------------ *)
(* Part 2: Qc                                                                                   *)
(* ------------------------------------------------------------------------------------------ *)
Lemma Q2Qc_this (q : Qc) : Q2Qc (this q) = q.
Proof. apply Qc_is_canon. simpl. apply Qred_correct. Qed.

Lemma this_Q2Qc (q : Q) : (this (Q2Qc q) == q)%Q.
Proof. simpl. apply Qred_correct. Qed.

Lemma this_plus (a b : Qc) : (this (a + b)%Qc == this a + this b)%Q.
Proof. unfold Qcplus. apply this_Q2Qc. Qed.
Lemma this_mult (a b : Qc) : (this (a * b)%Qc == this a * this b)%Q.
Proof. unfold Qcmult. apply this_Q2Qc. Qed.
Lemma this_opp (a : Qc) : (this (- a)%Qc == - this a)%Q.
Proof. unfold Qcopp. apply this_Q2Qc. Qed.
Lemma this_minus (a b : Qc) : (this (a - b)%Qc == this a - this b)%Q.
Proof. unfold Qcminus. rewrite this_plus, this_opp. reflexivity. Qed.
Lemma this_inv (a : Qc) : (this (/ a)%Qc == / this a)%Q.
Proof. unfold Qcinv. apply this_Q2Qc. Qed.
Lemma this_div (a b : Qc) : (this (a / b)%Qc == this a / this b)%Q.
Proof. unfold Qcdiv. rewrite this_mult, this_inv. reflexivity. Qed.

Lemma Q2Qc_eq (a b : Q) : (a == b)%Q -> Q2Qc a = Q2Qc b.
Proof. intro H. apply Qc_is_canon. rewrite !this_Q2Qc. exact H. Qed.

Lemma QcO_ring : ring_theory (o0 QcO) (o1 QcO) (oadd QcO) (omul QcO) (osub QcO) (fopp Qc QcO) (@eq Qc).
Proof.
  constructor; intros; unfold fopp; cbn [o0 o1 oadd omul osub QcO];
    change (Q2Qc 0) with 0%Qc; change (Q2Qc 1) with 1%Qc; ring.
Qed.

Lemma QcO_div : forall a b, odiv QcO a b = omul QcO a (Qcinv b).
Proof. reflexivity. Qed.

Lemma energy_of_this (T v r : Qc) :
  (this (energy_of QcO T v r) == this r * this v / 1000 * (this T / 60))%Q.
Proof.
  unfold energy_of. cbn [omul odiv oofZ QcO].
  rewrite this_mult, !this_div, this_mult, !this_Q2Qc. reflexivity.
Qed.

Lemma KQc_set_pilot_ok ev p v t :
  set_pilot_Qc ev p v t true = Some (match ev with None => None | Some _ => Some (p, v, t) end).
Proof. destruct ev; cbn; rewrite ?Q2Qc_this; reflexivity. Qed.

Lemma KQc_set_pilot_bad ev p v t : set_pilot_Qc ev p v t false = None.
Proof. reflexivity. Qed.

Lemma KQc_ev_charge e p v t r :
  ev_charge_Qc e p v t r = (r, (e + energy_of QcO t v r)%Qc, r).
Proof.
  unfold ev_charge_Qc, ev_charge_Q, EV_charge.
  cbn [EV_charge_ret EV_charge__energy_delivered EV_charge__current_charging_rate].
  rewrite Q2Qc_this. f_equal. f_equal.
  apply Qc_is_canon. rewrite this_Q2Qc, Qred_correct, this_plus, energy_of_this. reflexivity.
Qed.

Lemma batt_ok_to_Q (b : batt Qc) : batt_ok_Qc b -> b_kind (batt_to_Q b) = BL2cont -> ~ (b_cap (batt_to_Q b) == 0)%Q.
Proof.
  unfold batt_ok_Qc, batt_to_Q. cbn [b_kind b_cap]. intros Hok Hk. rewrite Hk in Hok.
  intro Hz. apply Hok. apply Qc_is_canon. rewrite this_Q2Qc. exact Hz.
Qed.

Lemma KQc_bstep b p v t n r b' :
  batt_ok_Qc b -> batt_step_Qc b p v t n = Some (r, b') ->
  batt_ok_Qc b' /\ (b_cur b' - b_cur b)%Qc = energy_of QcO t v r.
Proof.
  intros Hok. unfold batt_step_Qc.
  destruct (batt_step_Q (batt_to_Q b) (this p) (this v) (this t) (this (fst n), this (snd n))) as [[rq bq]|] eqn:E;
    [|discriminate].
  intro H; inversion H; subst; clear H.
  destruct (batt_step_Q_law _ _ _ _ _ _ _ (batt_ok_to_Q b Hok) E) as (Hk & Hc & Hd).
  split.
  - unfold batt_ok_Qc, batt_of_Q. cbn [b_kind b_cap]. rewrite Hk, Hc.
    unfold batt_ok_Qc in Hok. unfold batt_to_Q. cbn [b_kind b_cap].
    destruct (b_kind b); auto. rewrite Q2Qc_this. exact Hok.
  - apply Qc_is_canon. unfold batt_of_Q. cbn [b_cur].
    rewrite this_minus, this_Q2Qc, energy_of_this, this_Q2Qc.
    unfold batt_to_Q in Hd. cbn [b_cur] in Hd. exact Hd.
Qed.

Lemma KQc_rate_elt (o : option Qc) d :
  Q2Qc (CN_current_rate_elt (option_map this o) (this d)) = match o with Some _ => d | None => Q2Qc 0 end.
Proof. destruct o; cbn; [apply Q2Qc_this|reflexivity]. Qed.

Lemma KQc_laws : kern_laws_F Qc QcO KQc batt_ok_Qc.
Proof.
  constructor.
  - exact KQc_set_pilot_ok.
  - exact KQc_set_pilot_bad.
  - exact KQc_ev_charge.
  - exact KQc_bstep.
  - exact KQc_rate_elt.
  - reflexivity.
  - reflexivity.
Qed.

(* ------------------------------------------------------------------------------------------ *)
(* Part 3: the ledger theorems over canonical rationals                                         *)
(* ------------------------------------------------------------------------------------------ *)
Definition ledger_Qc := ledger_field Qc QcO Qcinv QcO_ring QcO_div (batt Qc) KQc batt_ok_Qc KQc_laws.
Definition vacant_zero_Qc := vacant_zero_field Qc QcO Qcinv QcO_ring QcO_div (batt Qc) KQc batt_ok_Qc KQc_laws.
Definition shape_Qc := shape_field Qc QcO Qcinv QcO_ring QcO_div (batt Qc) KQc batt_ok_Qc KQc_laws.
Definition peak_Qc := peak_field Qc QcO Qcinv QcO_ring QcO_div (batt Qc) KQc batt_ok_Qc KQc_laws.
Definition total_Qc := total_field Qc QcO Qcinv QcO_ring QcO_div (batt Qc) KQc batt_ok_Qc KQc_laws.

(* the accumulated peak over Qc: max(0, max over columns of the column sum) *)
Lemma omax_Qc_cases (a b : Qc) :
  ((this a <= this b)%Q /\ omax QcO a b = b) \/ ((this b <= this a)%Q /\ omax QcO a b = a).
Proof.
  cbn [omax QcO]. destruct (Q.max_spec (this a) (this b)) as [[Hlt He]|[Hle He]].
  - left. split; [now apply Qlt_le_weak|]. transitivity (Q2Qc (this b)); [apply Q2Qc_eq; exact He|apply Q2Qc_this].
  - right. split; [exact Hle|]. transitivity (Q2Qc (this a)); [apply Q2Qc_eq; exact He|apply Q2Qc_this].
Qed.

Lemma peak_of_spec_Qc (cs : list (list Qc)) :
  (0 <= this (peak_of QcO cs))%Q
  /\ (forall c, In c cs -> (this (fsum QcO c) <= this (peak_of QcO cs))%Q)
  /\ (peak_of QcO cs = Q2Qc 0 \/ exists c, In c cs /\ peak_of QcO cs = fsum QcO c).
Proof.
  induction cs as [|c cs IH].
  - cbn. split; [apply Qle_refl|]. split; [intros c []|now left].
  - destruct IH as (H0 & Hle & Hatt).
    change (peak_of QcO (c :: cs)) with (omax QcO (peak_of QcO cs) (fsum QcO c)).
    destruct (omax_Qc_cases (peak_of QcO cs) (fsum QcO c)) as [[Hc Hm]|[Hc Hm]]; rewrite Hm.
    + split; [eapply Qle_trans; eauto|]. split.
      * intros c' [<-|Hin]; [apply Qle_refl|]. eapply Qle_trans; [apply (Hle _ Hin)|exact Hc].
      * right. exists c. split; [now left|reflexivity].
    + split; [exact H0|]. split.
      * intros c' [<-|Hin]; [exact Hc|]. now apply Hle.
      * destruct Hatt as [Hz|[c' [Hin He]]]; [now left|]. right. exists c'. split; [now right|exact He].
Qed.

Lemma peak_char_Qc (T : Qc) net ops st :
  simulate QcO KQc T net ops = Some st ->
  (0 <= this (peak st))%Q
  /\ (forall col, In col (rates_by_period st) -> (this (fsum QcO col) <= this (peak st))%Q)
  /\ (peak st = Q2Qc 0 \/ exists col, In col (rates_by_period st) /\ peak st = fsum QcO col).
Proof.
  intro H. rewrite (peak_Qc T net ops st H).
  destruct (peak_of_spec_Qc (cols st)) as (H0 & Hle & Hatt). unfold rates_by_period.
  split; [exact H0|]. split.
  - intros col Hin. apply Hle. now apply in_rev.
  - destruct Hatt as [Hz|[c [Hin He]]]; [now left|]. right. exists c. split; [|exact He].
    now apply -> in_rev.
Qed.
