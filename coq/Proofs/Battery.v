(* Proofs/Battery.v — lemmas about the generated battery kernels (R twin: Gen/Battery_R.v,
   Gen/BatteryGuard_R.v).  Used by Props/C03.v and Props/C14.v; the battery_consistent_*
   lemmas are exported for other properties (energy ledger). *)
From Coq Require Import ZArith Reals Lra Lia List Bool String.
From ACN Require Import Base.Num Base.NumR Gen.Battery_R Gen.BatteryGuard_R Gen.Evse_R.
Set Default Timeout 60.
Import ListNotations.
Open Scope R_scope.

(* case-split every Rmin / Rmax / Rabs in the goal (NumR.rminmax keeps the defining equation
   among the hypotheses and then matches it again; this variant clears it) *)
Ltac rmm :=
  repeat match goal with
  | |- context [Rmin ?a ?b] =>
      let H := fresh "Hmin" in
      destruct (Rmin_cases a b) as [[? H]|[? H]]; rewrite H in *; clear H
  | |- context [Rmax ?a ?b] =>
      let H := fresh "Hmax" in
      destruct (Rmax_cases a b) as [[? H]|[? H]]; rewrite H in *; clear H
  | |- context [Rabs ?a] =>
      let H := fresh "Habs" in
      destruct (Rabs_spec a) as [[? H]|[? H]]; rewrite H in *; clear H
  | H0 : context [Rmin ?a ?b] |- _ =>
      let H := fresh "Hmin" in
      destruct (Rmin_cases a b) as [[? H]|[? H]]; rewrite H in *; clear H
  | H0 : context [Rmax ?a ?b] |- _ =>
      let H := fresh "Hmax" in
      destruct (Rmax_cases a b) as [[? H]|[? H]]; rewrite H in *; clear H
  | H0 : context [Rabs ?a] |- _ =>
      let H := fresh "Habs" in
      destruct (Rabs_spec a) as [[? H]|[? H]]; rewrite H in *; clear H
  end.

(* ------------------------------------------------------------------------------------------ *)
(* real-analysis helpers                                                                       *)
(* ------------------------------------------------------------------------------------------ *)
Lemma div_ge1 a b : 0 < b -> (1 <= a / b <-> b <= a).
Proof.
  intro Hb. split; intro H.
  - apply (Rmult_le_compat_r b) in H; [|lra].
    unfold Rdiv in H. rewrite Rmult_assoc, Rinv_l in H; lra.
  - apply (Rmult_le_reg_r b); [lra|].
    unfold Rdiv. rewrite Rmult_assoc, Rinv_l; lra.
Qed.

Lemma div_pos a b : 0 < a -> 0 < b -> 0 < a / b.
Proof. intros. apply Rdiv_lt_0_compat; assumption. Qed.

Lemma div_nonneg a b : 0 <= a -> 0 < b -> 0 <= a / b.
Proof.
  intros Ha Hb. unfold Rdiv. apply Rmult_le_pos; [assumption|].
  left. apply Rinv_0_lt_compat. assumption.
Qed.

Lemma exp_ge_1plus y : 1 + y <= exp y.
Proof. apply exp_ineq1_le. Qed.

Lemma exp_neg_le1 y : 0 <= y -> exp (- y) <= 1.
Proof.
  intro Hy. destruct (Req_dec y 0) as [->|Hn].
  - rewrite Ropp_0, exp_0. lra.
  - left. rewrite <- exp_0 at 1. apply exp_increasing. lra.
Qed.

Lemma exp_neg_inv y : exp (- y) * exp y = 1.
Proof. rewrite <- exp_plus. replace (- y + y) with 0 by lra. apply exp_0. Qed.

(* 1 - e^{-y} <= y *)
Lemma one_minus_exp_le y : 1 - exp (- y) <= y.
Proof. pose proof (exp_ge_1plus (- y)). lra. Qed.

(* e^{-y} (1 + y) <= 1 *)
Lemma exp_neg_tangent y : 0 <= 1 + y -> exp (- y) * (1 + y) <= 1.
Proof.
  intro H. pose proof (exp_ge_1plus y) as H1. pose proof (exp_pos (- y)) as H2.
  pose proof (exp_neg_inv y) as H3. nra.
Qed.

(* ------------------------------------------------------------------------------------------ *)
(* the two-stage law in SoC units                                                              *)
(* ------------------------------------------------------------------------------------------ *)
(* The noiseless SoC update of Linear2StageBattery._charge, as a function of
   pd  = (clipped) pilot SoC increment per period,  pts = pilot transition SoC,  s = current SoC.
   [l2_charge_soc_step] below shows the generated kernel computes exactly this. *)
Definition l2_soc_step (pd pts s : R) : R :=
  if Rltb s pts then
    if Rleb 1 ((pts - s) / pd) then pd + s
    else 1 + exp ((pd + s - pts) / (pts - 1)) * (pts - 1)
  else 1 + exp (pd / (pts - 1)) * (s - 1).

(* characterisation by regime, with the exponentials in the usual orientation *)
Lemma l2_soc_step_pre pd pts s : 0 < pd -> s < pts -> pd <= pts - s ->
  l2_soc_step pd pts s = s + pd.
Proof.
  intros Hpd Hs Hc. unfold l2_soc_step.
  destruct (Rltb s pts) eqn:E1; [|apply Rltb_false in E1; lra].
  destruct (Rleb 1 ((pts - s) / pd)) eqn:E2; [lra|].
  apply Rleb_false in E2. exfalso.
  assert (1 <= (pts - s) / pd) by (apply div_ge1; lra). lra.
Qed.

Lemma l2_soc_step_cross pd pts s : 0 < pd -> pts < 1 -> s < pts -> pts - s < pd ->
  l2_soc_step pd pts s = 1 - (1 - pts) * exp (- ((pd + s - pts) / (1 - pts))).
Proof.
  intros Hpd Hp Hs Hc. unfold l2_soc_step.
  destruct (Rltb s pts) eqn:E1; [|apply Rltb_false in E1; lra].
  destruct (Rleb 1 ((pts - s) / pd)) eqn:E2.
  - apply Rleb_spec in E2. apply (proj1 (div_ge1 _ _ Hpd)) in E2. lra.
  - replace ((pd + s - pts) / (pts - 1)) with (- ((pd + s - pts) / (1 - pts))) by (field; lra).
    lra.
Qed.

Lemma l2_soc_step_ramp pd pts s : pts < 1 -> pts <= s ->
  l2_soc_step pd pts s = 1 - (1 - s) * exp (- (pd / (1 - pts))).
Proof.
  intros Hp Hs. unfold l2_soc_step.
  destruct (Rltb s pts) eqn:E1; [apply Rltb_spec in E1; lra|].
  replace (pd / (pts - 1)) with (- (pd / (1 - pts))) by (field; lra).
  lra.
Qed.

Ltac l2_regime pd pts s :=
  let Hs := fresh "Hs" in let Hc := fresh "Hc" in
  destruct (Rlt_le_dec s pts) as [Hs|Hs];
  [ destruct (Rle_lt_dec pd (pts - s)) as [Hc|Hc];
    [ rewrite (l2_soc_step_pre pd pts s) by lra
    | rewrite (l2_soc_step_cross pd pts s) by lra ]
  | rewrite (l2_soc_step_ramp pd pts s) by lra ].

(* bounds: s <= step <= 1 and step - s <= pd *)
Lemma l2_soc_step_bounds pd pts s : 0 < pd -> pts < 1 -> s <= 1 ->
  s <= l2_soc_step pd pts s /\ l2_soc_step pd pts s <= 1 /\ l2_soc_step pd pts s - s <= pd.
Proof.
  intros Hpd Hp Hs1. l2_regime pd pts s.
  - lra.
  - set (y := (pd + s - pts) / (1 - pts)).
    assert (Hy : 0 < y) by (apply div_pos; lra).
    assert (Hyd : y * (1 - pts) = pd + s - pts) by (unfold y; field; lra).
    pose proof (exp_pos (- y)) as He0.
    pose proof (exp_neg_le1 y (Rlt_le _ _ Hy)) as He1.
    pose proof (one_minus_exp_le y) as He2.
    repeat split; nra.
  - set (y := pd / (1 - pts)).
    assert (Hy : 0 < y) by (apply div_pos; lra).
    assert (Hyd : y * (1 - pts) = pd) by (unfold y; field; lra).
    pose proof (exp_pos (- y)) as He0.
    pose proof (exp_neg_le1 y (Rlt_le _ _ Hy)) as He1.
    pose proof (one_minus_exp_le y) as He2.
    repeat split; nra.
Qed.

(* after crossing, the SoC is strictly above the transition point *)
Lemma l2_soc_step_cross_above pd pts s : 0 < pd -> pts < 1 -> s < pts -> pts - s < pd ->
  pts < l2_soc_step pd pts s.
Proof.
  intros Hpd Hp Hs Hc. rewrite l2_soc_step_cross by lra.
  set (y := (pd + s - pts) / (1 - pts)).
  assert (Hy : 0 < y) by (apply div_pos; lra).
  assert (exp (- y) < 1).
  { rewrite <- exp_0 at 1. apply exp_increasing. lra. }
  nra.
Qed.

(* semigroup: charging for a+b (SoC units) = charging for a, then for b *)
Lemma l2_soc_step_split a b pts s : 0 < a -> 0 < b -> pts < 1 -> s <= 1 ->
  l2_soc_step (a + b) pts s = l2_soc_step b pts (l2_soc_step a pts s).
Proof.
  intros Ha Hb Hp Hs1.
  destruct (Rlt_le_dec s pts) as [Hs|Hs].
  - destruct (Rle_lt_dec a (pts - s)) as [Hc|Hc].
    + (* first part stays in the constant-rate stage *)
      rewrite (l2_soc_step_pre a pts s) by lra.
      destruct (Rle_lt_dec (a + b) (pts - s)) as [Hc2|Hc2].
      * rewrite (l2_soc_step_pre (a + b)), (l2_soc_step_pre b) by lra. lra.
      * rewrite (l2_soc_step_cross (a + b)) by lra.
        destruct (Rlt_le_dec (s + a) pts) as [Hs2|Hs2].
        -- rewrite (l2_soc_step_cross b) by lra.
           do 3 f_equal. field. lra.
        -- assert (s + a = pts) by lra.
           rewrite (l2_soc_step_ramp b) by lra.
           replace (1 - (s + a)) with (1 - pts) by lra.
           replace (a + b + s - pts) with b by lra. reflexivity.
    + (* first part crosses the transition *)
      pose proof (l2_soc_step_cross_above a pts s Ha Hp Hs Hc) as Habove.
      rewrite (l2_soc_step_ramp b pts (l2_soc_step a pts s)) by lra.
      rewrite (l2_soc_step_cross a) by lra.
      rewrite (l2_soc_step_cross (a + b)) by lra.
      replace (1 - (1 - (1 - pts) * exp (- ((a + s - pts) / (1 - pts)))))
        with ((1 - pts) * exp (- ((a + s - pts) / (1 - pts)))) by lra.
      rewrite Rmult_assoc, <- exp_plus.
      do 3 f_equal. field. lra.
  - (* already in the declining stage *)
    pose proof (l2_soc_step_bounds a pts s Ha Hp Hs1) as [Hge _].
    rewrite (l2_soc_step_ramp b pts (l2_soc_step a pts s)) by lra.
    rewrite (l2_soc_step_ramp a), (l2_soc_step_ramp (a + b)) by lra.
    replace (1 - (1 - (1 - s) * exp (- (a / (1 - pts)))))
      with ((1 - s) * exp (- (a / (1 - pts)))) by lra.
    rewrite Rmult_assoc, <- exp_plus.
    do 3 f_equal. field. lra.
Qed.

(* ------------------------------------------------------------------------------------------ *)
(* the generated continuous kernel computes l2_soc_step                                        *)
(* ------------------------------------------------------------------------------------------ *)
Definition l2_md (cap maxP T : R) : R := maxP / cap / (60 / T).
Definition l2_pd (cap pilot V T : R) : R := pilot * V / 1000 / cap / (60 / T).
Definition l2_pd3 (cap maxP pilot V T : R) : R :=
  if Rltb (l2_md cap maxP T) (l2_pd cap pilot V T) then l2_md cap maxP T else l2_pd cap pilot V T.
Definition l2_pts (cap maxP ts pilot V T : R) : R :=
  ts + (l2_pd3 cap maxP pilot V T - l2_md cap maxP T) / l2_md cap maxP T * (ts - 1).
(* SoC at the end of the period, noise included *)
Definition l2_new_soc (cap c maxP nl ts pilot V T noise : R) : R :=
  let s5 := l2_soc_step (l2_pd3 cap maxP pilot V T) (l2_pts cap maxP ts pilot V T) (c / cap) in
  if Rltb 0 nl then Rmax (s5 - Rabs (noise * (T / 60) / cap)) (c / cap) else s5.

Lemma Rleb_pos_false x : 0 < x -> Rleb x 0 = false.
Proof. intro. apply Rleb_false. assumption. Qed.

Lemma L2_charge_ok cap c p0 maxP nl ts pilot V T noise :
  0 < V -> 0 < T -> pilot <> 0 ->
  L2_charge cap c p0 maxP nl ts pilot V T noise =
  let s7 := l2_new_soc cap c maxP nl ts pilot V T noise in
  let P := (s7 - c / cap) * cap / (T / 60) in
  OkS {| L2_charge_ret := P * 1000 / V; L2_charge__current_charging_power := P;
         L2_charge__current_charge := s7 * cap |}.
Proof.
  intros HV HT Hp. unfold L2_charge.
  rewrite (Rleb_pos_false V HV), (Rleb_pos_false T HT).
  replace (Reqb pilot 0) with false by (symmetry; apply Reqb_false; assumption).
  reflexivity.
Qed.

Lemma L2_charge_zero_pilot cap c p0 maxP nl ts V T noise :
  0 < V -> 0 < T ->
  L2_charge cap c p0 maxP nl ts 0 V T noise =
  OkS {| L2_charge_ret := 0; L2_charge__current_charging_power := 0; L2_charge__current_charge := c |}.
Proof.
  intros HV HT. unfold L2_charge.
  rewrite (Rleb_pos_false V HV), (Rleb_pos_false T HT).
  replace (Reqb 0 0) with true by (symmetry; apply Reqb_spec; reflexivity).
  reflexivity.
Qed.

Lemma L2_charge_bad_voltage cap c p0 maxP nl ts pilot V T noise : V <= 0 ->
  L2_charge cap c p0 maxP nl ts pilot V T noise =
  ErrS "ValueError" {| L2_charge_ret := 0; L2_charge__current_charging_power := p0;
                       L2_charge__current_charge := c |}.
Proof. intro H. unfold L2_charge. replace (Rleb V 0) with true by (symmetry; apply Rleb_spec; lra). reflexivity. Qed.

Lemma L2_charge_bad_period cap c p0 maxP nl ts pilot V T noise : 0 < V -> T <= 0 ->
  L2_charge cap c p0 maxP nl ts pilot V T noise =
  ErrS "ValueError" {| L2_charge_ret := 0; L2_charge__current_charging_power := p0;
                       L2_charge__current_charge := c |}.
Proof.
  intros HV H. unfold L2_charge. rewrite (Rleb_pos_false V HV).
  replace (Rleb T 0) with true by (symmetry; apply Rleb_spec; lra). reflexivity.
Qed.

(* facts about the derived quantities *)
Section L2Facts.
  Variables cap maxP ts pilot V T : R.
  Hypothesis Hcap : 0 < cap.
  Hypothesis HmaxP : 0 < maxP.
  Hypothesis Hts : ts < 1.
  Hypothesis HV : 0 < V.
  Hypothesis HT : 0 < T.
  Hypothesis Hpilot : 0 < pilot.

  Lemma l2_md_pos : 0 < l2_md cap maxP T.
  Proof. unfold l2_md. repeat apply div_pos; lra. Qed.
  Lemma l2_pd_pos : 0 < l2_pd cap pilot V T.
  Proof. unfold l2_pd. repeat apply div_pos; try lra. apply Rmult_lt_0_compat; lra. Qed.
  Lemma l2_pd3_spec :
    0 < l2_pd3 cap maxP pilot V T /\ l2_pd3 cap maxP pilot V T <= l2_md cap maxP T
    /\ l2_pd3 cap maxP pilot V T <= l2_pd cap pilot V T.
  Proof.
    pose proof l2_md_pos. pose proof l2_pd_pos. unfold l2_pd3.
    destruct (Rltb (l2_md cap maxP T) (l2_pd cap pilot V T)) eqn:E;
      [apply Rltb_spec in E | apply Rltb_false in E]; lra.
  Qed.
  Lemma l2_pts_lt1 : l2_pts cap maxP ts pilot V T < 1.
  Proof.
    pose proof l2_md_pos as Hm. pose proof l2_pd3_spec as (H3 & H3m & _). unfold l2_pts.
    set (m := l2_md cap maxP T) in *. set (p := l2_pd3 cap maxP pilot V T) in *.
    replace (ts + (p - m) / m * (ts - 1)) with (1 - (p / m) * (1 - ts)) by (field; lra).
    assert (0 < p / m) by (apply div_pos; lra). nra.
  Qed.
  Lemma l2_pts_ge_ts : ts <= l2_pts cap maxP ts pilot V T.
  Proof.
    pose proof l2_md_pos as Hm. pose proof l2_pd3_spec as (H3 & H3m & _). unfold l2_pts.
    set (m := l2_md cap maxP T) in *. set (p := l2_pd3 cap maxP pilot V T) in *.
    assert (0 <= (m - p) / m) by (apply div_nonneg; lra).
    replace ((p - m) / m * (ts - 1)) with ((m - p) / m * (1 - ts)) by (field; lra). nra.
  Qed.
End L2Facts.

(* ------------------------------------------------------------------------------------------ *)
(* C03: physical bounds of one charge call                                                     *)
(* ------------------------------------------------------------------------------------------ *)
(* rate returned, power drawn, charge before / after *)
Definition phys_bounds (pilot maxP cap c ret power c' : R) : Prop :=
  0 <= ret <= pilot /\ 0 <= power <= maxP /\ c <= c' <= cap.

(* energy bookkeeping of one call: what the battery stored is what the returned current carries *)
Definition consistent (V T c ret c' : R) : Prop := c' - c = ret * V / 1000 * (T / 60).

Lemma l2_new_soc_bounds cap c maxP nl ts pilot V T noise :
  0 < cap -> 0 < maxP -> ts < 1 -> c <= cap -> 0 < V -> 0 < T -> 0 < pilot ->
  let s := c / cap in let s7 := l2_new_soc cap c maxP nl ts pilot V T noise in
  s <= s7 /\ s7 <= 1 /\ s7 - s <= l2_pd3 cap maxP pilot V T.
Proof.
  intros Hcap HmaxP Hts Hc HV HT Hp s s7.
  assert (Hs1 : s <= 1).
  { unfold s. apply (Rmult_le_reg_r cap); [lra|]. unfold Rdiv. rewrite Rmult_assoc, Rinv_l; lra. }
  pose proof (l2_pd3_spec cap maxP pilot V T Hcap HmaxP HV HT Hp) as (H3 & _ & _).
  pose proof (l2_pts_lt1 cap maxP ts pilot V T Hcap HmaxP Hts HV HT Hp) as Hpts.
  pose proof (l2_soc_step_bounds _ _ s H3 Hpts Hs1) as (B1 & B2 & B3).
  unfold s7, l2_new_soc. fold s. cbv zeta.
  destruct (Rltb 0 nl); [|lra].
  destruct (Rmax_cases (l2_soc_step (l2_pd3 cap maxP pilot V T) (l2_pts cap maxP ts pilot V T) s
                        - Rabs (noise * (T / 60) / cap)) s) as [[? ->]|[? ->]];
    pose proof (Rabs_pos (noise * (T / 60) / cap)); lra.
Qed.

Lemma c03_continuous cap c p0 maxP nl ts pilot V T noise :
  0 < cap -> 0 < maxP -> ts < 1 -> c <= cap -> 0 < V -> 0 < T -> 0 <= pilot ->
  exists o, L2_charge cap c p0 maxP nl ts pilot V T noise = OkS o
    /\ phys_bounds pilot maxP cap c (L2_charge_ret o) (L2_charge__current_charging_power o)
                   (L2_charge__current_charge o)
    /\ consistent V T c (L2_charge_ret o) (L2_charge__current_charge o).
Proof.
  intros Hcap HmaxP Hts Hc HV HT Hp0.
  destruct (Req_dec pilot 0) as [->|Hne].
  - rewrite L2_charge_zero_pilot by assumption. eexists; split; [reflexivity|].
    unfold phys_bounds, consistent; cbn. repeat split; lra.
  - assert (Hp : 0 < pilot) by lra.
    rewrite L2_charge_ok by assumption. cbv zeta. eexists; split; [reflexivity|].
    pose proof (l2_new_soc_bounds cap c maxP nl ts pilot V T noise Hcap HmaxP Hts Hc HV HT Hp)
      as (B1 & B2 & B3). cbv zeta in B1, B2, B3.
    pose proof (l2_pd3_spec cap maxP pilot V T Hcap HmaxP HV HT Hp) as (H3 & H3m & H3p).
    set (s7 := l2_new_soc cap c maxP nl ts pilot V T noise) in *.
    set (d := s7 - c / cap) in *.
    assert (Hd : 0 <= d) by (unfold d; lra).
    assert (Hk : 0 < cap / (T / 60)) by (apply div_pos; lra).
    assert (Em : l2_md cap maxP T * (cap / (T / 60)) = maxP) by (unfold l2_md; field; lra).
    assert (Ep : l2_pd cap pilot V T * (cap / (T / 60)) * 1000 / V = pilot) by (unfold l2_pd; field; lra).
    assert (EP : d * cap / (T / 60) = d * (cap / (T / 60))) by (field; lra).
    assert (Ec : c / cap * cap = c) by (field; lra).
    unfold phys_bounds, consistent; cbn. rewrite EP.
    assert (HP0 : 0 <= d * (cap / (T / 60))) by (apply Rmult_le_pos; lra).
    assert (HPm : d * (cap / (T / 60)) <= maxP).
    { rewrite <- Em. apply Rmult_le_compat_r; lra. }
    assert (HPp : d * (cap / (T / 60)) * 1000 / V <= pilot).
    { rewrite <- Ep. unfold Rdiv. apply Rmult_le_compat_r; [left; apply Rinv_0_lt_compat; lra|].
      apply Rmult_le_compat_r; [lra|]. apply Rmult_le_compat_r; lra. }
    assert (HR0 : 0 <= d * (cap / (T / 60)) * 1000 / V).
    { apply div_nonneg; [|lra]. apply Rmult_le_pos; lra. }
    repeat split; try lra; try nra.
    unfold d. field. lra.
Qed.

(* ---- ideal battery ---- *)
Definition ideal_power (cap c maxP pilot V T : R) : R :=
  Rmin (Rmin (pilot * V / 1000) maxP) ((cap - c) / (T / 60)).

Lemma Battery_charge_ok cap c p0 maxP pilot V T : 0 < V -> 0 < T ->
  Battery_charge cap c p0 maxP pilot V T =
  let P := ideal_power cap c maxP pilot V T in
  OkS {| Battery_charge_ret := P * 1000 / V; Battery_charge__current_charge := c + P * (T / 60);
         Battery_charge__current_charging_power := P |}.
Proof.
  intros HV HT. unfold Battery_charge.
  rewrite (Rleb_pos_false V HV), (Rleb_pos_false T HT). reflexivity.
Qed.

Lemma Battery_charge_bad_voltage cap c p0 maxP pilot V T : V <= 0 ->
  Battery_charge cap c p0 maxP pilot V T =
  ErrS "ValueError" {| Battery_charge_ret := 0; Battery_charge__current_charge := c;
                       Battery_charge__current_charging_power := p0 |}.
Proof. intro H. unfold Battery_charge. replace (Rleb V 0) with true by (symmetry; apply Rleb_spec; lra). reflexivity. Qed.

Lemma Battery_charge_bad_period cap c p0 maxP pilot V T : 0 < V -> T <= 0 ->
  Battery_charge cap c p0 maxP pilot V T =
  ErrS "ValueError" {| Battery_charge_ret := 0; Battery_charge__current_charge := c;
                       Battery_charge__current_charging_power := p0 |}.
Proof.
  intros HV H. unfold Battery_charge. rewrite (Rleb_pos_false V HV).
  replace (Rleb T 0) with true by (symmetry; apply Rleb_spec; lra). reflexivity.
Qed.

(* a power P with 0 <= P <= pilot*V/1000, P <= maxP, P <= (cap-c)/(T/60) meets the bounds *)
Lemma power_bounds_suffice cap c maxP pilot V T P :
  0 < V -> 0 < T -> 0 <= P -> P <= pilot * V / 1000 -> P <= maxP -> P <= (cap - c) / (T / 60) ->
  phys_bounds pilot maxP cap c (P * 1000 / V) P (c + P * (T / 60))
  /\ consistent V T c (P * 1000 / V) (c + P * (T / 60)).
Proof.
  intros HV HT HP0 HPp HPm HPf.
  assert (Hh : 0 < T / 60) by (apply div_pos; lra).
  assert (Hf : P * (T / 60) <= cap - c).
  { apply (Rmult_le_compat_r (T / 60)) in HPf; [|lra].
    replace ((cap - c) / (T / 60) * (T / 60)) with (cap - c) in HPf by (field; lra). lra. }
  assert (0 <= P * (T / 60)) by (apply Rmult_le_pos; lra).
  assert (HR0 : 0 <= P * 1000 / V) by (apply div_nonneg; lra).
  assert (HRp : P * 1000 / V <= pilot).
  { replace pilot with (pilot * V / 1000 * 1000 / V) by (field; lra).
    unfold Rdiv. apply Rmult_le_compat_r; [left; apply Rinv_0_lt_compat; lra|]. lra. }
  unfold phys_bounds, consistent. repeat split; try lra. field. lra.
Qed.

Lemma c03_ideal cap c p0 maxP pilot V T :
  0 <= maxP -> c <= cap -> 0 < V -> 0 < T -> 0 <= pilot ->
  exists o, Battery_charge cap c p0 maxP pilot V T = OkS o
    /\ phys_bounds pilot maxP cap c (Battery_charge_ret o) (Battery_charge__current_charging_power o)
                   (Battery_charge__current_charge o)
    /\ consistent V T c (Battery_charge_ret o) (Battery_charge__current_charge o).
Proof.
  intros HmaxP Hc HV HT Hp. rewrite Battery_charge_ok by assumption. cbv zeta.
  eexists; split; [reflexivity|]. cbn.
  assert (0 <= pilot * V / 1000) by (apply div_nonneg; [apply Rmult_le_pos|]; lra).
  assert (0 <= (cap - c) / (T / 60)) by (apply div_nonneg; [lra|apply div_pos; lra]).
  apply power_bounds_suffice; try assumption; unfold ideal_power; rmm; lra.
Qed.

(* ---- two-stage, legacy stepwise calculation ---- *)
Definition stepwise_power (cap c maxP nl ts pilot V T noise noise2 : R) : R :=
  let rtf := (cap - c) / (T / 60) in
  if Rltb (c / cap) ts then
    let p1 := Rmin (Rmin (pilot * V / 1000) maxP) rtf in
    if Rltb 0 nl then Rmax (p1 - Rabs noise) 0 else p1
  else
    let p4 := Rmin (Rmin (pilot * V / 1000) ((1 - c / cap) / (1 - ts) * maxP)) rtf in
    if Rltb 0 nl then
      let p5 := Rmin (Rmin (Rmin (Rmax (p4 + noise2) 0) (pilot * V / 1000)) maxP) rtf in
      Rmin (Rmin (Rmin p5 (pilot * V / 1000)) maxP) rtf
    else p4.

Lemma L2_charge_stepwise_ok cap c p0 maxP nl ts pilot V T noise noise2 : 0 < V -> 0 < T ->
  L2_charge_stepwise cap c p0 maxP nl ts pilot V T noise noise2 =
  let P := stepwise_power cap c maxP nl ts pilot V T noise noise2 in
  OkS {| L2_charge_stepwise_ret := P * 1000 / V;
         L2_charge_stepwise__current_charge := c + P * (T / 60);
         L2_charge_stepwise__current_charging_power := P |}.
Proof.
  intros HV HT. unfold L2_charge_stepwise.
  rewrite (Rleb_pos_false V HV), (Rleb_pos_false T HT). reflexivity.
Qed.

Lemma L2_charge_stepwise_bad_voltage cap c p0 maxP nl ts pilot V T noise noise2 : V <= 0 ->
  L2_charge_stepwise cap c p0 maxP nl ts pilot V T noise noise2 =
  ErrS "ValueError" {| L2_charge_stepwise_ret := 0; L2_charge_stepwise__current_charge := c;
                       L2_charge_stepwise__current_charging_power := p0 |}.
Proof. intro H. unfold L2_charge_stepwise. replace (Rleb V 0) with true by (symmetry; apply Rleb_spec; lra). reflexivity. Qed.

Lemma L2_charge_stepwise_bad_period cap c p0 maxP nl ts pilot V T noise noise2 : 0 < V -> T <= 0 ->
  L2_charge_stepwise cap c p0 maxP nl ts pilot V T noise noise2 =
  ErrS "ValueError" {| L2_charge_stepwise_ret := 0; L2_charge_stepwise__current_charge := c;
                       L2_charge_stepwise__current_charging_power := p0 |}.
Proof.
  intros HV H. unfold L2_charge_stepwise. rewrite (Rleb_pos_false V HV).
  replace (Rleb T 0) with true by (symmetry; apply Rleb_spec; lra). reflexivity.
Qed.

Lemma min3_spec a b c :
  Rmin (Rmin a b) c <= a /\ Rmin (Rmin a b) c <= b /\ Rmin (Rmin a b) c <= c
  /\ (0 <= a -> 0 <= b -> 0 <= c -> 0 <= Rmin (Rmin a b) c).
Proof. rmm; repeat split; intros; lra. Qed.

Lemma min4_spec a b c d :
  Rmin (Rmin (Rmin a b) c) d <= a /\ Rmin (Rmin (Rmin a b) c) d <= b
  /\ Rmin (Rmin (Rmin a b) c) d <= c /\ Rmin (Rmin (Rmin a b) c) d <= d
  /\ (0 <= a -> 0 <= b -> 0 <= c -> 0 <= d -> 0 <= Rmin (Rmin (Rmin a b) c) d).
Proof. rmm; repeat split; intros; lra. Qed.

Lemma stepwise_power_bounds cap c maxP nl ts pilot V T noise noise2 :
  0 < cap -> 0 <= maxP -> ts < 1 -> c <= cap -> 0 < V -> 0 < T -> 0 <= pilot ->
  let P := stepwise_power cap c maxP nl ts pilot V T noise noise2 in
  0 <= P /\ P <= pilot * V / 1000 /\ P <= maxP /\ P <= (cap - c) / (T / 60).
Proof.
  intros Hcap HmaxP Hts Hc HV HT Hp.
  assert (Hpv : 0 <= pilot * V / 1000) by (apply div_nonneg; [apply Rmult_le_pos|]; lra).
  assert (Hrtf : 0 <= (cap - c) / (T / 60)) by (apply div_nonneg; [lra|apply div_pos; lra]).
  assert (Hs1 : c / cap <= 1).
  { apply (Rmult_le_reg_r cap); [lra|]. unfold Rdiv. rewrite Rmult_assoc, Rinv_l; lra. }
  unfold stepwise_power; cbv zeta.
  set (pv := pilot * V / 1000) in *. set (rtf := (cap - c) / (T / 60)) in *.
  destruct (Rltb (c / cap) ts) eqn:E1; [apply Rltb_spec in E1 | apply Rltb_false in E1].
  - pose proof (min3_spec pv maxP rtf) as (M1 & M2 & M3 & M0). specialize (M0 Hpv HmaxP Hrtf).
    set (p1 := Rmin (Rmin pv maxP) rtf) in *.
    destruct (Rltb 0 nl); [|lra].
    pose proof (Rabs_pos noise).
    destruct (Rmax_cases (p1 - Rabs noise) 0) as [[? ->]|[? ->]]; lra.
  - assert (Hramp : 0 <= (1 - c / cap) / (1 - ts) * maxP <= maxP).
    { assert (0 <= (1 - c / cap) / (1 - ts) <= 1).
      { split; [apply div_nonneg; lra|].
        apply (Rmult_le_reg_r (1 - ts)); [lra|]. unfold Rdiv. rewrite Rmult_assoc, Rinv_l; lra. }
      nra. }
    set (ramp := (1 - c / cap) / (1 - ts) * maxP) in *.
    pose proof (min3_spec pv ramp rtf) as (M1 & M2 & M3 & M0).
    specialize (M0 Hpv (proj1 Hramp) Hrtf).
    set (p4 := Rmin (Rmin pv ramp) rtf) in *.
    destruct (Rltb 0 nl); [|lra].
    assert (Hx : 0 <= Rmax (p4 + noise2) 0) by apply Rmax_r.
    set (x := Rmax (p4 + noise2) 0) in *.
    pose proof (min4_spec x pv maxP rtf) as (N1 & N2 & N3 & N4 & N0).
    specialize (N0 Hx Hpv HmaxP Hrtf).
    set (p5 := Rmin (Rmin (Rmin x pv) maxP) rtf) in *.
    pose proof (min4_spec p5 pv maxP rtf) as (O1 & O2 & O3 & O4 & O0).
    specialize (O0 N0 Hpv HmaxP Hrtf). lra.
Qed.

Lemma c03_stepwise cap c p0 maxP nl ts pilot V T noise noise2 :
  0 < cap -> 0 <= maxP -> ts < 1 -> c <= cap -> 0 < V -> 0 < T -> 0 <= pilot ->
  exists o, L2_charge_stepwise cap c p0 maxP nl ts pilot V T noise noise2 = OkS o
    /\ phys_bounds pilot maxP cap c (L2_charge_stepwise_ret o)
                   (L2_charge_stepwise__current_charging_power o)
                   (L2_charge_stepwise__current_charge o)
    /\ consistent V T c (L2_charge_stepwise_ret o) (L2_charge_stepwise__current_charge o).
Proof.
  intros Hcap HmaxP Hts Hc HV HT Hp. rewrite L2_charge_stepwise_ok by assumption. cbv zeta.
  eexists; split; [reflexivity|]. cbn.
  pose proof (stepwise_power_bounds cap c maxP nl ts pilot V T noise noise2
                Hcap HmaxP Hts Hc HV HT Hp) as (B0 & B1 & B2 & B3).
  apply power_bounds_suffice; assumption.
Qed.

(* ------------------------------------------------------------------------------------------ *)
(* consistency lemmas exported for other properties (energy ledger):                           *)
(*   charge' - charge = ret * V/1000 * T/60   for every successful call                        *)
(* ------------------------------------------------------------------------------------------ *)
Lemma battery_consistent_ideal cap c p0 maxP pilot V T o : 0 < V -> 0 < T ->
  Battery_charge cap c p0 maxP pilot V T = OkS o ->
  Battery_charge__current_charge o - c = Battery_charge_ret o * V / 1000 * (T / 60).
Proof.
  intros HV HT H. rewrite Battery_charge_ok in H by assumption. cbv zeta in H.
  injection H as <-. cbn. field. lra.
Qed.

Lemma battery_consistent_stepwise cap c p0 maxP nl ts pilot V T noise noise2 o : 0 < V -> 0 < T ->
  L2_charge_stepwise cap c p0 maxP nl ts pilot V T noise noise2 = OkS o ->
  L2_charge_stepwise__current_charge o - c = L2_charge_stepwise_ret o * V / 1000 * (T / 60).
Proof.
  intros HV HT H. rewrite L2_charge_stepwise_ok in H by assumption. cbv zeta in H.
  injection H as <-. cbn. field. lra.
Qed.

(* continuous kernel, including the pilot = 0 early return and any noise draw; needs cap <> 0
   (the code divides by the capacity) *)
Lemma battery_consistent_continuous cap c p0 maxP nl ts pilot V T noise o : cap <> 0 -> 0 < V -> 0 < T ->
  L2_charge cap c p0 maxP nl ts pilot V T noise = OkS o ->
  L2_charge__current_charge o - c = L2_charge_ret o * V / 1000 * (T / 60).
Proof.
  intros Hcap HV HT H. destruct (Req_dec pilot 0) as [->|Hne].
  - rewrite L2_charge_zero_pilot in H by assumption. injection H as <-. cbn. lra.
  - rewrite L2_charge_ok in H by assumption. cbv zeta in H. injection H as <-. cbn. field. lra.
Qed.

(* successful calls are exactly those with V > 0 and T > 0 *)
Lemma Battery_charge_ok_iff cap c p0 maxP pilot V T :
  is_okS (Battery_charge cap c p0 maxP pilot V T) = true <-> 0 < V /\ 0 < T.
Proof.
  split.
  - intro H. destruct (Rlt_le_dec 0 V) as [HV|HV].
    + destruct (Rlt_le_dec 0 T) as [HT|HT]; [tauto|].
      rewrite Battery_charge_bad_period in H by assumption. discriminate.
    + rewrite Battery_charge_bad_voltage in H by assumption. discriminate.
  - intros [HV HT]. rewrite Battery_charge_ok by assumption. reflexivity.
Qed.

(* ------------------------------------------------------------------------------------------ *)
(* one battery object of any class: state, one charge call, sequences of calls                 *)
(* ------------------------------------------------------------------------------------------ *)
Inductive bkind :=
| Ideal
| TwoStage (noise_level transition_soc : R) (mode : Z).  (* mode: 0 "continuous", 1 "stepwise" (L2_dispatch) *)

Record battery := { b_kind : bkind; b_cap : R; b_maxP : R; b_init : R }.
Record bstate := { s_charge : R; s_power : R }.
(* one call charge(pilot, voltage, period); n1, n2 are the values np.random.normal would return *)
Record cop := { o_pilot : R; o_V : R; o_T : R; o_n1 : R; o_n2 : R }.
Record cres := { r_err : option string; r_rate : R; r_state : bstate }.

Definition charge_call (b : battery) (st : bstate) (o : cop) : cres :=
  let cap := b_cap b in let maxP := b_maxP b in
  let c := s_charge st in let p0 := s_power st in
  match b_kind b with
  | Ideal =>
      let r := Battery_charge cap c p0 maxP (o_pilot o) (o_V o) (o_T o) in
      {| r_err := errS r; r_rate := Battery_charge_ret (stateS r);
         r_state := {| s_charge := Battery_charge__current_charge (stateS r);
                       s_power := Battery_charge__current_charging_power (stateS r) |} |}
  | TwoStage nl ts mode =>
      match L2_dispatch mode (o_pilot o) (o_V o) (o_T o) 0 1 with
      | Ok tag =>
          if Reqb tag 0 then
            let r := L2_charge cap c p0 maxP nl ts (o_pilot o) (o_V o) (o_T o) (o_n1 o) in
            {| r_err := errS r; r_rate := L2_charge_ret (stateS r);
               r_state := {| s_charge := L2_charge__current_charge (stateS r);
                             s_power := L2_charge__current_charging_power (stateS r) |} |}
          else
            let r := L2_charge_stepwise cap c p0 maxP nl ts (o_pilot o) (o_V o) (o_T o) (o_n1 o) (o_n2 o) in
            {| r_err := errS r; r_rate := L2_charge_stepwise_ret (stateS r);
               r_state := {| s_charge := L2_charge_stepwise__current_charge (stateS r);
                             s_power := L2_charge_stepwise__current_charging_power (stateS r) |} |}
      | Err e => {| r_err := Some e; r_rate := 0; r_state := st |}
      end
  end.

(* what the constructors guarantee (plus positivity of capacity and max power, which the
   constructors do not check: with capacity 0 or max power 0 the two-stage code divides by zero) *)
Definition battery_ok (b : battery) : Prop :=
  0 < b_cap b /\ 0 < b_maxP b /\
  match b_kind b with Ideal => True | TwoStage nl ts mode => ts < 1 end.

Definition mode_known (b : battery) : Prop :=
  match b_kind b with Ideal => True | TwoStage _ _ mode => mode = 0%Z \/ mode = 1%Z end.

(* outcome of one call: either refused (ValueError) with the state untouched, or within bounds *)
Definition call_ok (b : battery) (st : bstate) (o : cop) (r : cres) : Prop :=
  match r_err r with
  | Some e => e = "ValueError"%string /\ r_state r = st /\ r_rate r = 0
  | None =>
      phys_bounds (o_pilot o) (b_maxP b) (b_cap b) (s_charge st) (r_rate r) (s_power (r_state r))
                  (s_charge (r_state r))
      /\ consistent (o_V o) (o_T o) (s_charge st) (r_rate r) (s_charge (r_state r))
  end.

Lemma bstate_eta st : {| s_charge := s_charge st; s_power := s_power st |} = st.
Proof. destruct st; reflexivity. Qed.

Lemma c03_call b st o : battery_ok b -> s_charge st <= b_cap b -> 0 <= o_pilot o ->
  call_ok b st o (charge_call b st o)
  /\ (0 < o_V o -> 0 < o_T o -> mode_known b -> r_err (charge_call b st o) = None)
  /\ (r_err (charge_call b st o) = None -> 0 < o_V o /\ 0 < o_T o /\ mode_known b).
Proof.
  intros (Hcap & HmaxP & Hk) Hc Hp. unfold charge_call, call_ok, mode_known.
  destruct (b_kind b) as [|nl ts mode].
  - (* ideal *)
    destruct (Rlt_le_dec 0 (o_V o)) as [HV|HV]; [destruct (Rlt_le_dec 0 (o_T o)) as [HT|HT]|].
    + destruct (c03_ideal (b_cap b) (s_charge st) (s_power st) (b_maxP b) (o_pilot o) (o_V o) (o_T o))
        as (x & E & B & C); try lra.
      cbv zeta. rewrite E. cbn. tauto.
    + cbv zeta. rewrite Battery_charge_bad_period by assumption. cbn. rewrite bstate_eta.
      repeat split; auto; try discriminate; lra.
    + cbv zeta. rewrite Battery_charge_bad_voltage by assumption. cbn. rewrite bstate_eta.
      repeat split; auto; try discriminate; lra.
  - unfold L2_dispatch.
    destruct (Z.eqb_spec mode 1) as [->|N1].
    + (* stepwise *)
      replace (Reqb 1 0) with false by (symmetry; apply Reqb_false; lra).
      destruct (Rlt_le_dec 0 (o_V o)) as [HV|HV]; [destruct (Rlt_le_dec 0 (o_T o)) as [HT|HT]|].
      * destruct (c03_stepwise (b_cap b) (s_charge st) (s_power st) (b_maxP b) nl ts (o_pilot o)
                    (o_V o) (o_T o) (o_n1 o) (o_n2 o)) as (x & E & B & C); try lra.
        cbv zeta. rewrite E. cbn. tauto.
      * cbv zeta. rewrite L2_charge_stepwise_bad_period by assumption. cbn. rewrite bstate_eta.
        repeat split; auto; try discriminate; lra.
      * cbv zeta. rewrite L2_charge_stepwise_bad_voltage by assumption. cbn. rewrite bstate_eta.
        repeat split; auto; try discriminate; lra.
    + destruct (Z.eqb_spec mode 0) as [->|N0].
      * (* continuous *)
        replace (Reqb 0 0) with true by (symmetry; apply Reqb_spec; reflexivity).
        destruct (Rlt_le_dec 0 (o_V o)) as [HV|HV]; [destruct (Rlt_le_dec 0 (o_T o)) as [HT|HT]|].
        -- destruct (c03_continuous (b_cap b) (s_charge st) (s_power st) (b_maxP b) nl ts (o_pilot o)
                       (o_V o) (o_T o) (o_n1 o)) as (x & E & B & C); try lra.
           cbv zeta. rewrite E. cbn. tauto.
        -- cbv zeta. rewrite L2_charge_bad_period by assumption. cbn. rewrite bstate_eta.
           repeat split; auto; try discriminate; lra.
        -- cbv zeta. rewrite L2_charge_bad_voltage by assumption. cbn. rewrite bstate_eta.
           repeat split; auto; try discriminate; lra.
      * (* unknown charge_calculation: ValueError *)
        cbn. repeat split; auto; try discriminate.
        intros _ _ [?|?]; congruence.
Qed.

(* sequences: (state before, call, result) for every call, threading the state *)
Fixpoint run_calls (b : battery) (st : bstate) (ops : list cop) : list (bstate * cop * cres) :=
  match ops with
  | [] => []
  | o :: rest => let r := charge_call b st o in (st, o, r) :: run_calls b (r_state r) rest
  end.

Definition final_state (b : battery) (st : bstate) (ops : list cop) : bstate :=
  fold_left (fun s o => r_state (charge_call b s o)) ops st.

Lemma call_ok_invariant b st o r : call_ok b st o r -> s_charge st <= b_cap b ->
  s_charge st <= s_charge (r_state r) <= b_cap b.
Proof.
  unfold call_ok, phys_bounds. destruct (r_err r).
  - intros (_ & -> & _) H. lra.
  - intros ((_ & _ & H) & _) _. exact H.
Qed.

Lemma c03_sequence b ops : battery_ok b -> Forall (fun o => 0 <= o_pilot o) ops ->
  forall st, s_charge st <= b_cap b ->
  Forall (fun '(s, o, r) => s_charge st <= s_charge s <= b_cap b /\ call_ok b s o r) (run_calls b st ops)
  /\ s_charge st <= s_charge (final_state b st ops) <= b_cap b.
Proof.
  intros Hb Hops. induction Hops as [|o rest Ho Hrest IH]; intros st Hst.
  - cbn. split; [constructor|lra].
  - cbn [run_calls final_state fold_left].
    destruct (c03_call b st o Hb Hst Ho) as (Hok & _).
    pose proof (call_ok_invariant _ _ _ _ Hok Hst) as Hinv.
    destruct (IH (r_state (charge_call b st o)) (proj2 Hinv)) as (IH1 & IH2).
    split.
    + constructor; [split; [lra|exact Hok]|].
      eapply Forall_impl; [|exact IH1]. intros [[s o'] r] (H1 & H2). split; [lra|exact H2].
    + unfold final_state in IH2. lra.
Qed.

(* ---- lift to a station's recorded (pilot, rate) pairs ---- *)
(* In Simulator.run each period calls network.update_pilots -> EVSE.set_pilot(pilot, V, period)
   (generated BaseEVSE_set_pilot; `true` = the pilot was accepted, otherwise the simulation stops
   with InvalidRateError) whose effect on an attached EV is EV.charge (generated EV_charge) ->
   Battery.charge; _store_actual_charging_rates then records ev.current_charging_rate (0 when
   no EV is attached) next to the pilot.  A station's history is therefore a sequence of gaps
   and sessions; each session charges its own battery. *)
Definition ev_recorded_rate (o : cop) (r : cres) : R :=
  EV_charge__current_charging_rate (EV_charge 0 (o_pilot o) (o_V o) (o_T o) (r_rate r)).

(* one period with an EV attached: (recorded pilot, recorded rate), battery state afterwards *)
Definition session_period (b : battery) (st : bstate) (o : cop) : (R * R) * bstate :=
  let sp := stateS (BaseEVSE_set_pilot 0 (Some 0%Z) (o_pilot o) (o_V o) (o_T o) true) in
  match BaseEVSE_set_pilot_effects sp with
  | [(_, [p; v; t])] =>
      let r := charge_call b st {| o_pilot := p; o_V := v; o_T := t; o_n1 := o_n1 o; o_n2 := o_n2 o |} in
      ((BaseEVSE_set_pilot__current_pilot sp,
        EV_charge__current_charging_rate (EV_charge 0 p v t (r_rate r))), r_state r)
  | _ => ((BaseEVSE_set_pilot__current_pilot sp, 0), st)
  end.

(* one period without EV *)
Definition gap_period (p : R) : R * R :=
  let sp := stateS (BaseEVSE_set_pilot 0 None p 0 0 true) in
  (BaseEVSE_set_pilot__current_pilot sp, 0).

Fixpoint session_records (b : battery) (st : bstate) (ops : list cop) : list (R * R) :=
  match ops with
  | [] => []
  | o :: rest => let '(pr, st') := session_period b st o in pr :: session_records b st' rest
  end.

Inductive segment :=
| Gap (pilots : list R)
| Session (b : battery) (st0 : bstate) (ops : list cop).

Definition recorded (sg : segment) : list (R * R) :=
  match sg with
  | Gap ps => map gap_period ps
  | Session b st0 ops => session_records b st0 ops
  end.

Definition segment_ok (sg : segment) : Prop :=
  match sg with
  | Gap ps => Forall (fun p => 0 <= p) ps
  | Session b st0 ops =>
      battery_ok b /\ mode_known b /\ s_charge st0 <= b_cap b
      /\ Forall (fun o => 0 <= o_pilot o /\ 0 < o_V o /\ 0 < o_T o) ops
  end.

Lemma session_period_eq b st o :
  session_period b st o =
  ((o_pilot o, ev_recorded_rate o (charge_call b st o)), r_state (charge_call b st o)).
Proof. destruct o; reflexivity. Qed.

Lemma c03_station timeline : Forall segment_ok timeline ->
  Forall (fun pr => 0 <= snd pr <= fst pr) (flat_map recorded timeline).
Proof.
  induction 1 as [|sg rest Hsg _ IH]; [constructor|].
  cbn [flat_map]. apply Forall_app. split; [|exact IH]. clear IH.
  destruct sg as [ps|b st0 ops]; cbn [recorded segment_ok] in *.
  - induction Hsg; cbn [map]; constructor; auto. cbn. lra.
  - destruct Hsg as (Hb & Hm & Hst & Hops).
    revert st0 Hst. induction Hops as [|o ops' (Ho1 & Ho2 & Ho3) _ IH]; intros st0 Hst; [constructor|].
    cbn [session_records]. rewrite session_period_eq.
    destruct (c03_call b st0 o Hb Hst Ho1) as (Hok & Hnone & _).
    specialize (Hnone Ho2 Ho3 Hm).
    constructor.
    + unfold call_ok in Hok. rewrite Hnone in Hok. destruct Hok as ((Hr & _) & _).
      unfold ev_recorded_rate, EV_charge. cbn. exact Hr.
    + apply IH. apply (call_ok_invariant _ _ _ _ Hok Hst).
Qed.

(* ------------------------------------------------------------------------------------------ *)
(* constructor and reset guards                                                                *)
(* ------------------------------------------------------------------------------------------ *)
Lemma Battery_init_spec u1 u2 u3 u4 u5 cap init maxP :
  (init <= cap ->
   Battery_init u1 u2 u3 u4 u5 cap init maxP =
   OkS {| Battery_init_ret := tt; Battery_init__capacity := cap; Battery_init__current_charge := init;
          Battery_init__init_charge := init; Battery_init__max_power := maxP;
          Battery_init__current_charging_power := 0 |})
  /\ (cap < init -> errS (Battery_init u1 u2 u3 u4 u5 cap init maxP) = Some "ValueError"%string).
Proof.
  unfold Battery_init. split; intro H.
  - replace (Rltb cap init) with false by (symmetry; apply Rltb_false; lra). reflexivity.
  - replace (Rltb cap init) with true by (symmetry; apply Rltb_spec; lra). reflexivity.
Qed.

(* every battery that was constructed satisfies charge <= capacity *)
Lemma Battery_init_invariant u1 u2 u3 u4 u5 cap init maxP o :
  Battery_init u1 u2 u3 u4 u5 cap init maxP = OkS o ->
  Battery_init__current_charge o <= Battery_init__capacity o
  /\ Battery_init__init_charge o = Battery_init__current_charge o
  /\ Battery_init__current_charging_power o = 0.
Proof.
  destruct (Rle_lt_dec init cap) as [H|H].
  - rewrite (proj1 (Battery_init_spec u1 u2 u3 u4 u5 cap init maxP) H). intros [= <-]. cbn. lra.
  - pose proof (proj2 (Battery_init_spec u1 u2 u3 u4 u5 cap init maxP) H) as E.
    intro E2. rewrite E2 in E. discriminate.
Qed.

Lemma L2_init_guards cap init maxP nl ts cc :
  L2_init_ts_negative cap init maxP nl ts cc = false /\ L2_init_ts_ge_one cap init maxP nl ts cc = false
  <-> 0 <= ts < 1.
Proof.
  unfold L2_init_ts_negative, L2_init_ts_ge_one. rewrite Rltb_false, Rleb_false. tauto.
Qed.

Lemma Battery_reset_default cap c p init :
  Battery_reset cap c p init None =
  OkS {| Battery_reset_ret := tt; Battery_reset__current_charge := init;
         Battery_reset__current_charging_power := 0 |}.
Proof. reflexivity. Qed.

Lemma Battery_reset_to cap c p init x :
  (x <= cap -> Battery_reset cap c p init (Some x) =
     OkS {| Battery_reset_ret := tt; Battery_reset__current_charge := x;
            Battery_reset__current_charging_power := 0 |})
  /\ (cap < x -> Battery_reset cap c p init (Some x) =
     ErrS "ValueError" {| Battery_reset_ret := tt; Battery_reset__current_charge := c;
                          Battery_reset__current_charging_power := p |}).
Proof.
  unfold Battery_reset. split; intro H.
  - replace (Rltb cap x) with false by (symmetry; apply Rltb_false; lra). reflexivity.
  - replace (Rltb cap x) with true by (symmetry; apply Rltb_spec; lra). reflexivity.
Qed.

(* reset never leaves the battery above capacity (given the constructor invariant init <= cap) *)
Lemma Battery_reset_invariant cap c p init x : init <= cap -> c <= cap ->
  Battery_reset__current_charge (stateS (Battery_reset cap c p init x)) <= cap.
Proof.
  intros Hi Hc. destruct x as [x|]; [|cbn; lra].
  destruct (Rle_lt_dec x cap) as [H|H].
  - rewrite (proj1 (Battery_reset_to cap c p init x) H). cbn. lra.
  - rewrite (proj2 (Battery_reset_to cap c p init x) H). cbn. lra.
Qed.

(* state of a battery object right after construction / after reset() *)
Definition initial_state (b : battery) : bstate := {| s_charge := b_init b; s_power := 0 |}.
Definition reset_state (b : battery) (st : bstate) (x : option R) : bstate :=
  let r := stateS (Battery_reset (b_cap b) (s_charge st) (s_power st) (b_init b) x) in
  {| s_charge := Battery_reset__current_charge r; s_power := Battery_reset__current_charging_power r |}.

(* after any sequence of charge calls, reset() restores the state the constructor produced
   (the charge kernels write only _current_charge and _current_charging_power: their result
   records have no other field, so capacity, max power and _init_charge are never modified) *)
Lemma c14_reset b st ops : reset_state b (final_state b st ops) None = initial_state b.
Proof. reflexivity. Qed.

(* ------------------------------------------------------------------------------------------ *)
(* C14: the noiseless continuous two-stage kernel follows its law                              *)
(* ------------------------------------------------------------------------------------------ *)
(* stored charge after one noiseless call *)
Definition l2_after (cap maxP ts c pilot V T : R) : R :=
  L2_charge__current_charge (stateS (L2_charge cap c 0 maxP 0 ts pilot V T 0)).
(* energy delivered by that call [kWh] *)
Definition l2_delivered (cap maxP ts c pilot V T : R) : R := l2_after cap maxP ts c pilot V T - c.

(* SoC rate per minute actually requested: min(pilot power, max power) / capacity / 60 *)
Definition l2_rate (cap maxP pilot V : R) : R :=
  Rmin (pilot * V / 1000 / cap / 60) (maxP / cap / 60).
(* SoC at which the declining stage starts for this pilot *)
Definition l2_knee (cap maxP ts pilot V : R) : R :=
  1 - l2_rate cap maxP pilot V / (maxP / cap / 60) * (1 - ts).

Lemma l2_pd3_linear cap maxP pilot V T : 0 < cap -> 0 < T ->
  l2_pd3 cap maxP pilot V T = l2_rate cap maxP pilot V * T.
Proof.
  intros Hcap HT. unfold l2_pd3, l2_rate, l2_md, l2_pd.
  replace (maxP / cap / (60 / T)) with (maxP / cap / 60 * T) by (field; lra).
  replace (pilot * V / 1000 / cap / (60 / T)) with (pilot * V / 1000 / cap / 60 * T) by (field; lra).
  set (m := maxP / cap / 60). set (p := pilot * V / 1000 / cap / 60).
  destruct (Rltb (m * T) (p * T)) eqn:E; [apply Rltb_spec in E | apply Rltb_false in E];
    destruct (Rmin_cases p m) as [[? ->]|[? ->]]; nra.
Qed.

Lemma l2_pts_knee cap maxP ts pilot V T : 0 < cap -> 0 < maxP -> 0 < T ->
  l2_pts cap maxP ts pilot V T = l2_knee cap maxP ts pilot V.
Proof.
  intros Hcap HmaxP HT. unfold l2_pts, l2_knee. rewrite l2_pd3_linear by assumption.
  unfold l2_md. set (r := l2_rate cap maxP pilot V). field. lra.
Qed.

Lemma l2_rate_pos cap maxP pilot V : 0 < cap -> 0 < maxP -> 0 < V -> 0 < pilot ->
  0 < l2_rate cap maxP pilot V.
Proof.
  intros. unfold l2_rate.
  assert (0 < pilot * V / 1000 / cap / 60).
  { repeat apply div_pos; try lra. apply Rmult_lt_0_compat; lra. }
  assert (0 < maxP / cap / 60) by (repeat apply div_pos; lra).
  destruct (Rmin_cases (pilot * V / 1000 / cap / 60) (maxP / cap / 60)) as [[? ->]|[? ->]]; lra.
Qed.

Lemma l2_knee_lt1 cap maxP ts pilot V : 0 < cap -> 0 < maxP -> ts < 1 -> 0 < V -> 0 < pilot ->
  l2_knee cap maxP ts pilot V < 1.
Proof.
  intros Hcap HmaxP Hts HV Hp. pose proof (l2_rate_pos cap maxP pilot V Hcap HmaxP HV Hp).
  unfold l2_knee. assert (0 < maxP / cap / 60) by (repeat apply div_pos; lra).
  assert (0 < l2_rate cap maxP pilot V / (maxP / cap / 60)) by (apply div_pos; lra). nra.
Qed.

(* noise off (noise_level <= 0): p0 and the noise argument are irrelevant *)
Lemma l2_noise_off cap c p0 maxP nl ts pilot V T noise : nl <= 0 ->
  L2_charge cap c p0 maxP nl ts pilot V T noise = L2_charge cap c p0 maxP 0 ts pilot V T 0.
Proof.
  intro H. unfold L2_charge.
  replace (Rltb 0 nl) with false by (symmetry; apply Rltb_false; lra).
  replace (Rltb 0 0) with false by (symmetry; apply Rltb_false; lra). reflexivity.
Qed.

Lemma l2_after_soc cap maxP ts c pilot V T : 0 < cap -> 0 < maxP -> 0 < V -> 0 < T -> 0 < pilot ->
  l2_after cap maxP ts c pilot V T =
  l2_soc_step (l2_rate cap maxP pilot V * T) (l2_knee cap maxP ts pilot V) (c / cap) * cap.
Proof.
  intros Hcap HmaxP HV HT Hp. unfold l2_after. rewrite L2_charge_ok by (try assumption; lra).
  cbv zeta. cbn. unfold l2_new_soc. cbv zeta.
  replace (Rltb 0 0) with false by (symmetry; apply Rltb_false; lra).
  rewrite l2_pd3_linear, l2_pts_knee by assumption. reflexivity.
Qed.

Lemma l2_after_zero_pilot cap maxP ts c V T : 0 < V -> 0 < T -> l2_after cap maxP ts c 0 V T = c.
Proof. intros. unfold l2_after. rewrite L2_charge_zero_pilot by assumption. reflexivity. Qed.

Lemma soc_le1 c cap : 0 < cap -> c <= cap -> c / cap <= 1.
Proof.
  intros. apply (Rmult_le_reg_r cap); [lra|]. unfold Rdiv. rewrite Rmult_assoc, Rinv_l; lra.
Qed.

Lemma l2_after_bounds cap maxP ts c pilot V T :
  0 < cap -> 0 < maxP -> ts < 1 -> c <= cap -> 0 < V -> 0 < T -> 0 <= pilot ->
  c <= l2_after cap maxP ts c pilot V T <= cap.
Proof.
  intros Hcap HmaxP Hts Hc HV HT Hp.
  destruct (c03_continuous cap c 0 maxP 0 ts pilot V T 0) as (o & E & (_ & _ & B) & _); try assumption.
  unfold l2_after. rewrite E. exact B.
Qed.

(* charging for T1 + T2 = charging for T1, then for T2 *)
Lemma c14_split cap maxP ts c pilot V T1 T2 :
  0 < cap -> 0 < maxP -> ts < 1 -> c <= cap -> 0 < V -> 0 < T1 -> 0 < T2 -> 0 <= pilot ->
  l2_after cap maxP ts c pilot V (T1 + T2) =
  l2_after cap maxP ts (l2_after cap maxP ts c pilot V T1) pilot V T2.
Proof.
  intros Hcap HmaxP Hts Hc HV HT1 HT2 Hp0.
  destruct (Req_dec pilot 0) as [->|Hne].
  - rewrite !l2_after_zero_pilot by lra. reflexivity.
  - assert (Hp : 0 < pilot) by lra.
    pose proof (l2_rate_pos cap maxP pilot V Hcap HmaxP HV Hp) as Hr.
    pose proof (l2_knee_lt1 cap maxP ts pilot V Hcap HmaxP Hts HV Hp) as Hk.
    rewrite !l2_after_soc by (try assumption; lra).
    set (r := l2_rate cap maxP pilot V) in *. set (k := l2_knee cap maxP ts pilot V) in *.
    replace (l2_soc_step (r * T1) k (c / cap) * cap / cap) with (l2_soc_step (r * T1) k (c / cap))
      by (field; lra).
    f_equal. rewrite Rmult_plus_distr_l.
    apply l2_soc_step_split; try lra; try (apply Rmult_lt_0_compat; lra).
    apply soc_le1; assumption.
Qed.

Lemma c14_half cap maxP ts c pilot V T :
  0 < cap -> 0 < maxP -> ts < 1 -> c <= cap -> 0 < V -> 0 < T -> 0 <= pilot ->
  l2_after cap maxP ts c pilot V T =
  l2_after cap maxP ts (l2_after cap maxP ts c pilot V (T / 2)) pilot V (T / 2).
Proof.
  intros. replace T with (T / 2 + T / 2) at 1 by lra. apply c14_split; try assumption; lra.
Qed.

(* n equal sub-steps *)
Lemma c14_n_steps_aux cap maxP ts pilot V d n :
  0 < cap -> 0 < maxP -> ts < 1 -> 0 < V -> 0 < d -> 0 <= pilot ->
  forall c, c <= cap ->
  Nat.iter (S n) (fun x => l2_after cap maxP ts x pilot V d) c
  = l2_after cap maxP ts c pilot V (INR (S n) * d)
  /\ Nat.iter (S n) (fun x => l2_after cap maxP ts x pilot V d) c <= cap.
Proof.
  intros Hcap HmaxP Hts HV Hd Hp. induction n as [|n IH]; intros c Hc.
  - cbn [Nat.iter]. replace (INR 1 * d) with d by (cbn; lra).
    split; [reflexivity|]. apply l2_after_bounds; assumption.
  - destruct (IH c Hc) as (IH1 & IH2).
    change (Nat.iter (S (S n)) (fun x => l2_after cap maxP ts x pilot V d) c)
      with (l2_after cap maxP ts (Nat.iter (S n) (fun x => l2_after cap maxP ts x pilot V d) c) pilot V d).
    split; [|apply l2_after_bounds; assumption].
    rewrite IH1. rewrite (S_INR (S n)).
    replace ((INR (S n) + 1) * d) with (INR (S n) * d + d) by lra.
    symmetry. apply c14_split; try assumption.
    apply Rmult_lt_0_compat; [|assumption]. apply lt_0_INR. lia.
Qed.

Lemma c14_n_steps cap maxP ts c pilot V T n :
  0 < cap -> 0 < maxP -> ts < 1 -> c <= cap -> 0 < V -> 0 < T -> 0 <= pilot -> (0 < n)%nat ->
  Nat.iter n (fun x => l2_after cap maxP ts x pilot V (T / INR n)) c = l2_after cap maxP ts c pilot V T.
Proof.
  intros Hcap HmaxP Hts Hc HV HT Hp Hn. destruct n as [|n]; [lia|].
  assert (Hpos : 0 < INR (S n)) by (apply lt_0_INR; lia).
  destruct (c14_n_steps_aux cap maxP ts pilot V (T / INR (S n)) n) with (c := c) as (E & _);
    try assumption; [apply div_pos; assumption|].
  rewrite E. f_equal. field. lra.
Qed.

(* longer period, never less energy *)
Lemma c14_mono_T cap maxP ts c pilot V T1 T2 :
  0 < cap -> 0 < maxP -> ts < 1 -> c <= cap -> 0 < V -> 0 < T1 -> T1 <= T2 -> 0 <= pilot ->
  l2_after cap maxP ts c pilot V T1 <= l2_after cap maxP ts c pilot V T2.
Proof.
  intros Hcap HmaxP Hts Hc HV HT1 HT Hp.
  destruct (Req_dec T1 T2) as [->|Hne]; [lra|].
  replace T2 with (T1 + (T2 - T1)) by lra. rewrite c14_split by (try assumption; lra).
  apply l2_after_bounds; try assumption; try lra.
  apply l2_after_bounds; assumption.
Qed.

(* ---- monotonicity in the pilot ---- *)
(* with K = max_dsoc / (1 - ts) the knee is at 1 - a/K for a clipped pilot increment a *)

(* e^u / u is non-decreasing on [1, oo) *)
Lemma exp_over_id_mono u v : 1 <= u -> u <= v -> v * exp u <= u * exp v.
Proof.
  intros Hu Huv. pose proof (exp_ge_1plus (v - u)) as H.
  replace (exp v) with (exp u * exp (v - u)) by (rewrite <- exp_plus; f_equal; lra).
  pose proof (exp_pos u) as Hp.
  assert (v <= u * (1 + (v - u))) by nra.
  assert (u * (1 + (v - u)) <= u * exp (v - u)) by (apply Rmult_le_compat_l; lra).
  nra.
Qed.

Section Knee.
  Variables K a s : R.
  Hypothesis HK : 0 < K.
  Hypothesis Ha : 0 < a.

  Let q := a / K.
  Lemma q_spec : 0 < a / K /\ a / K * K = a.
  Proof. split; [apply div_pos; lra | field; lra]. Qed.

  Lemma step_knee_pre : a * (K + 1) <= K * (1 - s) -> l2_soc_step a (1 - a / K) s = s + a.
  Proof.
    intro H. destruct q_spec as (Hq & Eq). apply l2_soc_step_pre; try lra; nra.
  Qed.

  Lemma step_knee_cross : a < K * (1 - s) -> K * (1 - s) < a * (K + 1) ->
    l2_soc_step a (1 - a / K) s = 1 - a / K * (exp (K * (1 - s) / a) * exp (- (K + 1))).
  Proof.
    intros H1 H2. destruct q_spec as (Hq & Eq).
    rewrite l2_soc_step_cross by (try lra; nra).
    replace (1 - (1 - a / K)) with (a / K) by lra.
    rewrite <- exp_plus. do 3 f_equal. field. lra.
  Qed.

  Lemma step_knee_ramp : K * (1 - s) <= a ->
    l2_soc_step a (1 - a / K) s = 1 - (1 - s) * exp (- K).
  Proof.
    intro H. destruct q_spec as (Hq & Eq).
    rewrite l2_soc_step_ramp by (try lra; nra).
    do 3 f_equal. field. lra.
  Qed.
End Knee.

Lemma step_knee_mono K a1 a2 s : 0 < K -> 0 < a1 -> a1 <= a2 -> s <= 1 ->
  l2_soc_step a1 (1 - a1 / K) s <= l2_soc_step a2 (1 - a2 / K) s.
Proof.
  intros HK Ha1 Ha12 Hs. assert (Ha2 : 0 < a2) by lra.
  set (D := 1 - s). assert (HD : 0 <= D) by (unfold D; lra).
  set (M := K * D). assert (HM : 0 <= M) by (unfold M; nra).
  assert (Hmono : a1 * (K + 1) <= a2 * (K + 1)) by nra.
  pose proof (exp_pos (- (K + 1))) as Hc0.
  pose proof (exp_neg_tangent K ltac:(lra)) as HtK.
  pose proof (exp_pos (- K)) as HeK.
  (* regime of a1 *)
  destruct (Rle_lt_dec (a1 * (K + 1)) M) as [C1|NC1].
  - rewrite (step_knee_pre K a1 s HK Ha1 C1).
    destruct (Rle_lt_dec (a2 * (K + 1)) M) as [C2|NC2].
    + rewrite (step_knee_pre K a2 s HK Ha2 C2). lra.
    + destruct (Rlt_le_dec a2 M) as [X2|R2].
      * (* pre / cross *)
        rewrite (step_knee_cross K a2 s HK Ha2 X2 NC2). fold D. fold M.
        set (u := M / a2). assert (Eu : a2 * u = M) by (unfold u; field; lra).
        assert (Hu1 : 1 <= u) by nra. assert (HuK : u <= K + 1) by nra.
        pose proof (exp_over_id_mono u (K + 1) Hu1 HuK) as HL.
        pose proof (exp_neg_inv (K + 1)) as Hinv. pose proof (exp_pos u) as Hpu.
        pose proof (exp_pos (K + 1)) as HpK.
        set (eu := exp u) in *. set (c0 := exp (- (K + 1))) in *. set (eK := exp (K + 1)) in *.
        assert (H1 : eu * c0 * (K + 1) <= u).
        { assert (eu * c0 * (K + 1) * eK <= u * eK).
          { replace (eu * c0 * (K + 1) * eK) with ((K + 1) * eu * (c0 * eK)) by ring.
            rewrite Hinv. lra. }
          apply (Rmult_le_reg_r eK); lra. }
        assert (Eq : a2 / K * K = a2) by (field; lra).
        assert (Hq : 0 < a2 / K) by (apply div_pos; lra).
        (* (a2/K) * eu*c0 <= D/(K+1) <= D - a1 *)
        assert (H2 : a2 / K * (eu * c0) * (K + 1) <= D).
        { assert (a2 / K * (eu * c0) * (K + 1) <= a2 / K * u).
          { rewrite Rmult_assoc. apply Rmult_le_compat_l; lra. }
          assert (a2 / K * u = D).
          { unfold D. unfold u, M, D. field. lra. }
          lra. }
        assert (H3 : a1 * (K + 1) <= K * D) by (fold M; lra).
        unfold D in *. nra.
      * (* pre / ramp *)
        rewrite (step_knee_ramp K a2 s HK Ha2 R2). fold D.
        assert (H3 : a1 * (K + 1) <= K * D) by (fold M; lra).
        unfold D in *. nra.
  - destruct (Rlt_le_dec a1 M) as [X1|R1].
    + rewrite (step_knee_cross K a1 s HK Ha1 X1 NC1). fold D. fold M.
      assert (NC2 : M < a2 * (K + 1)) by lra.
      destruct (Rlt_le_dec a2 M) as [X2|R2].
      * (* cross / cross *)
        rewrite (step_knee_cross K a2 s HK Ha2 X2 NC2). fold D. fold M.
        set (u1 := M / a1). set (u2 := M / a2).
        assert (E1 : a1 * u1 = M) by (unfold u1; field; lra).
        assert (E2 : a2 * u2 = M) by (unfold u2; field; lra).
        assert (Hu2 : 1 <= u2) by nra.
        assert (Hu21 : u2 <= u1).
        { assert (a1 * u2 <= a1 * u1) by nra. nra. }
        pose proof (exp_over_id_mono u2 u1 Hu2 Hu21) as HL.
        pose proof (exp_pos u1) as Hp1. pose proof (exp_pos u2) as Hp2.
        set (e1 := exp u1) in *. set (e2 := exp u2) in *. set (c0 := exp (- (K + 1))) in *.
        assert (Hkey : a2 * e2 <= a1 * e1).
        { assert (M * (a1 * e1 - a2 * e2) = a1 * a2 * (u1 * e2 * 0 + (u2 * e1 - u1 * e2))).
          { replace (M * (a1 * e1 - a2 * e2)) with (a1 * e1 * M - a2 * e2 * M) by ring.
            rewrite <- E2 at 1. rewrite <- E1 at 1. ring. }
          assert (0 < M) by lra.
          assert (0 <= a1 * a2 * (u1 * e2 * 0 + (u2 * e1 - u1 * e2))).
          { apply Rmult_le_pos; [apply Rmult_le_pos; lra | lra]. }
          nra. }
        assert (a2 / K * (e2 * c0) <= a1 / K * (e1 * c0)).
        { replace (a2 / K * (e2 * c0)) with (a2 * e2 * (c0 / K)) by (field; lra).
          replace (a1 / K * (e1 * c0)) with (a1 * e1 * (c0 / K)) by (field; lra).
          apply Rmult_le_compat_r; [left; apply div_pos; lra | lra]. }
        lra.
      * (* cross / ramp *)
        rewrite (step_knee_ramp K a2 s HK Ha2 R2). fold D.
        set (u1 := M / a1). assert (E1 : a1 * u1 = M) by (unfold u1; field; lra).
        pose proof (exp_ge_1plus (u1 - 1)) as Ht.
        assert (Eexp : exp u1 * exp (- (K + 1)) = exp (u1 - 1) * exp (- K)).
        { rewrite <- !exp_plus. f_equal. lra. }
        rewrite Eexp. set (e := exp (u1 - 1)) in *. set (eK := exp (- K)) in *.
        assert (D = a1 / K * u1) by (unfold u1, M; field; lra).
        assert (0 < a1 / K) by (apply div_pos; lra).
        assert (a1 / K * u1 * eK <= a1 / K * (e * eK)).
        { rewrite Rmult_assoc. apply Rmult_le_compat_l; [lra|]. apply Rmult_le_compat_r; lra. }
        nra.
    + rewrite (step_knee_ramp K a1 s HK Ha1 R1).
      rewrite (step_knee_ramp K a2 s HK Ha2) by (unfold M, D in *; lra). lra.
Qed.

Lemma l2_rate_mono cap maxP p1 p2 V : 0 < cap -> 0 < V -> p1 <= p2 ->
  l2_rate cap maxP p1 V <= l2_rate cap maxP p2 V.
Proof.
  intros Hcap HV Hp. unfold l2_rate.
  assert (p1 * V / 1000 / cap / 60 <= p2 * V / 1000 / cap / 60).
  { unfold Rdiv. repeat (apply Rmult_le_compat_r; [left; apply Rinv_0_lt_compat; lra|]). nra. }
  rmm; lra.
Qed.

(* larger pilot, never less energy *)
Lemma c14_mono_pilot cap maxP ts c p1 p2 V T :
  0 < cap -> 0 < maxP -> ts < 1 -> c <= cap -> 0 < V -> 0 < T -> 0 <= p1 -> p1 <= p2 ->
  l2_after cap maxP ts c p1 V T <= l2_after cap maxP ts c p2 V T.
Proof.
  intros Hcap HmaxP Hts Hc HV HT Hp1 Hp12.
  destruct (Req_dec p1 0) as [->|Hne].
  - rewrite l2_after_zero_pilot by assumption. apply l2_after_bounds; try assumption; lra.
  - assert (H1 : 0 < p1) by lra. assert (H2 : 0 < p2) by lra.
    rewrite !l2_after_soc by assumption.
    apply Rmult_le_compat_r; [lra|].
    pose proof (l2_rate_pos cap maxP p1 V Hcap HmaxP HV H1) as Hr1.
    pose proof (l2_rate_mono cap maxP p1 p2 V Hcap HV Hp12) as Hr12.
    unfold l2_knee.
    set (r1 := l2_rate cap maxP p1 V) in *. set (r2 := l2_rate cap maxP p2 V) in *.
    set (m := maxP / cap / 60). assert (Hm : 0 < m) by (unfold m; repeat apply div_pos; lra).
    set (K := m * T / (1 - ts)). assert (HK : 0 < K) by (unfold K; apply div_pos; [nra|lra]).
    replace (r1 / m * (1 - ts)) with (r1 * T / K) by (unfold K; field; lra).
    replace (r2 / m * (1 - ts)) with (r2 * T / K) by (unfold K; field; lra).
    apply step_knee_mono; try assumption; try nra.
    apply soc_le1; assumption.
Qed.

(* ---- the closed form, regime by regime, in kWh / kW ---- *)
(* power requested of the battery: min(pilot power, max power) *)
Definition l2_req_power (maxP pilot V : R) : R := Rmin (pilot * V / 1000) maxP.
(* maximum power the battery accepts at stored charge x in the declining stage *)
Definition l2_ramp_power (cap maxP ts x : R) : R := maxP * (1 - x / cap) / (1 - ts).

Lemma l2_rate_req cap maxP pilot V : 0 < cap ->
  l2_rate cap maxP pilot V = l2_req_power maxP pilot V / cap / 60.
Proof.
  intro Hcap. unfold l2_rate, l2_req_power.
  assert (Hmono : forall x y, x <= y -> x / cap / 60 <= y / cap / 60).
  { intros x y H. unfold Rdiv. repeat (apply Rmult_le_compat_r; [left; apply Rinv_0_lt_compat; lra|]). lra. }
  destruct (Rmin_cases (pilot * V / 1000) maxP) as [[H ->]|[H ->]].
  - apply Rmin_left. apply Hmono. exact H.
  - apply Rmin_right. apply Hmono. lra.
Qed.

(* the knee is where the declining maximum power equals the requested power *)
Lemma l2_knee_power cap maxP ts pilot V : 0 < cap -> 0 < maxP -> ts < 1 ->
  l2_ramp_power cap maxP ts (l2_knee cap maxP ts pilot V * cap) = l2_req_power maxP pilot V.
Proof.
  intros Hcap HmaxP Hts. unfold l2_ramp_power, l2_knee. rewrite l2_rate_req by assumption.
  field. lra.
Qed.

Section ClosedForm.
  Variables cap maxP ts c pilot V T : R.
  Hypothesis Hcap : 0 < cap.
  Hypothesis HmaxP : 0 < maxP.
  Hypothesis Hts : ts < 1.
  Hypothesis HV : 0 < V.
  Hypothesis HT : 0 < T.
  Hypothesis Hp : 0 < pilot.
  Let P := l2_req_power maxP pilot V.
  Let kc := l2_knee cap maxP ts pilot V * cap.     (* knee, in kWh *)

  Lemma closed_aux :
    0 < l2_rate cap maxP pilot V * T /\ l2_rate cap maxP pilot V * T * cap = P * (T / 60)
    /\ l2_knee cap maxP ts pilot V < 1.
  Proof.
    pose proof (l2_rate_pos cap maxP pilot V Hcap HmaxP HV Hp) as Hr.
    split; [apply Rmult_lt_0_compat; lra|]. split.
    - rewrite l2_rate_req by assumption. unfold P. field. lra.
    - apply l2_knee_lt1; assumption.
  Qed.

  (* constant-power stage: the whole period at the requested power *)
  Lemma c14_law_constant : c + P * (T / 60) <= kc ->
    l2_after cap maxP ts c pilot V T = c + P * (T / 60).
  Proof.
    intro H. destruct closed_aux as (Ha & Ea & Hk).
    rewrite l2_after_soc by assumption.
    set (a := l2_rate cap maxP pilot V * T) in *. set (k := l2_knee cap maxP ts pilot V) in *.
    assert (Ec : c / cap * cap = c) by (field; lra).
    assert (Hle : a <= k - c / cap).
    { apply (Rmult_le_reg_r cap); [lra|]. unfold kc in H. fold k in H. nra. }
    rewrite l2_soc_step_pre by lra. nra.
  Qed.

  (* declining stage from the start: the gap to full decays exponentially at rate
     maxP / (cap (1 - ts)), whatever the pilot *)
  Lemma c14_law_declining : kc <= c -> c <= cap ->
    cap - l2_after cap maxP ts c pilot V T = (cap - c) * exp (- (maxP * (T / 60) / (cap * (1 - ts)))).
  Proof.
    intros H Hc. destruct closed_aux as (Ha & Ea & Hk).
    rewrite l2_after_soc by assumption.
    pose proof (l2_rate_pos cap maxP pilot V Hcap HmaxP HV Hp) as Hr.
    assert (Hs : l2_knee cap maxP ts pilot V <= c / cap).
    { apply (Rmult_le_reg_r cap); [lra|]. replace (c / cap * cap) with c by (field; lra). exact H. }
    rewrite l2_soc_step_ramp by lra.
    replace (l2_rate cap maxP pilot V * T / (1 - l2_knee cap maxP ts pilot V))
      with (maxP * (T / 60) / (cap * (1 - ts))).
    - field. lra.
    - unfold l2_knee. field.
      assert (0 < l2_rate cap maxP pilot V * (cap * 60) * (1 - ts)).
      { apply Rmult_lt_0_compat; [apply Rmult_lt_0_compat|]; lra. }
      repeat split; lra.
  Qed.

  (* crossing the knee during the period *)
  Lemma c14_law_crossing : c < kc -> kc < c + P * (T / 60) ->
    cap - l2_after cap maxP ts c pilot V T
    = (cap - kc) * exp (- ((c + P * (T / 60) - kc) / (cap - kc))).
  Proof.
    intros H1 H2. destruct closed_aux as (Ha & Ea & Hk).
    rewrite l2_after_soc by assumption.
    set (a := l2_rate cap maxP pilot V * T) in *. set (k := l2_knee cap maxP ts pilot V) in *.
    assert (Ec : c / cap * cap = c) by (field; lra).
    assert (Hs : c / cap < k).
    { apply (Rmult_lt_reg_r cap); [lra|]. rewrite Ec. exact H1. }
    assert (Hx : k - c / cap < a).
    { apply (Rmult_lt_reg_r cap); [lra|]. unfold kc in H2. fold k in H2. nra. }
    rewrite l2_soc_step_cross by lra.
    replace ((c + P * (T / 60) - kc) / (cap - kc)) with ((a + c / cap - k) / (1 - k)).
    - unfold kc. fold k. field; lra.
    - unfold kc. fold k. rewrite <- Ea. field.
      assert (0 < cap - k * cap) by nra. repeat split; lra.
  Qed.
End ClosedForm.


(* ---- the law as a differential equation ---- *)
(* y / (1 + y) <= 1 - e^{-y} for y >= 0 *)
Lemma one_minus_exp_ge y : 0 <= y -> y / (1 + y) <= 1 - exp (- y).
Proof.
  intro Hy. pose proof (exp_neg_tangent y ltac:(lra)) as H. pose proof (exp_pos (- y)) as Hp.
  assert (exp (- y) <= / (1 + y)).
  { apply (Rmult_le_reg_r (1 + y)); [lra|]. rewrite Rinv_l by lra. exact H. }
  unfold Rdiv. replace (y * / (1 + y)) with (1 - / (1 + y)) by (field; lra). lra.
Qed.

(* right derivative at 0 of  h |-> l2_soc_step (r h) knee s  is  min(r, r/(1-knee) (1-s)) *)
Lemma soc_step_right_deriv r knee s : 0 < r -> knee < 1 -> s <= 1 ->
  forall eps, 0 < eps -> exists delta, 0 < delta /\ forall h, 0 < h < delta ->
    Rabs ((l2_soc_step (r * h) knee s - s) / h - Rmin r (r / (1 - knee) * (1 - s))) < eps.
Proof.
  intros Hr Hk Hs eps Heps.
  set (k := r / (1 - knee)). assert (Hkpos : 0 < k) by (apply div_pos; lra).
  assert (Ek : k * (1 - knee) = r) by (unfold k; field; lra).
  destruct (Rlt_le_dec s knee) as [Hlt|Hge].
  - (* constant stage: the quotient is exactly r *)
    exists ((knee - s) / r). split; [apply div_pos; lra|]. intros h [Hh0 Hh].
    assert (Hrh : r * h < knee - s).
    { apply (Rmult_lt_compat_l r) in Hh; [|lra]. replace (r * ((knee - s) / r)) with (knee - s) in Hh by (field; lra). lra. }
    rewrite l2_soc_step_pre by (try lra; apply Rmult_lt_0_compat; lra).
    replace ((s + r * h - s) / h) with r by (field; lra).
    rewrite Rmin_left by nra.
    replace (r - r) with 0 by lra. rewrite Rabs_R0. exact Heps.
  - (* declining stage *)
    set (L := k * (1 - s)). assert (HL : 0 <= L) by (unfold L; nra).
    assert (HLr : L <= r) by (unfold L; nra).
    exists (eps / (L * k + 1)). assert (0 < L * k + 1) by nra.
    split; [apply div_pos; lra|]. intros h [Hh0 Hh].
    rewrite l2_soc_step_ramp by lra. fold k.
    replace (r * h / (1 - knee)) with (k * h) by (unfold k; field; lra).
    rewrite Rmin_right by (fold L; lra). fold L.
    set (y := k * h). assert (Hy : 0 < y) by (unfold y; nra).
    pose proof (one_minus_exp_le y) as Hup. pose proof (one_minus_exp_ge y ltac:(lra)) as Hlo.
    set (e := 1 - exp (- y)) in *.
    assert (Eq : (1 - (1 - s) * exp (- y) - s) / h = (1 - s) * e / h).
    { subst e. field. lra. }
    rewrite Eq.
    (* (1-s) e / h  is between  L/(1+y)  and  L *)
    assert (Hq_up : (1 - s) * e / h <= L).
    { unfold L. apply (Rmult_le_reg_r h); [lra|]. unfold Rdiv. rewrite Rmult_assoc, Rinv_l by lra.
      unfold y in *. nra. }
    assert (Hq_lo : L / (1 + y) <= (1 - s) * e / h).
    { apply (Rmult_le_reg_r h); [lra|]. unfold Rdiv at 2. rewrite Rmult_assoc, Rinv_l by lra.
      assert (y / (1 + y) * (1 - s) <= e * (1 - s)) by (apply Rmult_le_compat_r; lra).
      assert (ELh : L * h = y * (1 - s)) by (unfold L, y; ring).
      replace (L / (1 + y) * h) with (L * h / (1 + y)) by (field; lra).
      rewrite ELh. replace (y * (1 - s) / (1 + y)) with (y / (1 + y) * (1 - s)) by (field; lra). lra. }
    assert (Hgap : L - L / (1 + y) <= L * k * h).
    { replace (L - L / (1 + y)) with (L * (y / (1 + y))) by (field; lra).
      replace (L * k * h) with (L * y) by (unfold y; ring).
      apply Rmult_le_compat_l; [lra|].
      apply (Rmult_le_reg_r (1 + y)); [lra|]. unfold Rdiv. rewrite Rmult_assoc, Rinv_l by lra. nra. }
    assert (Hsmall : L * k * h < eps).
    { apply (Rmult_lt_compat_l (L * k + 1)) in Hh; [|lra].
      replace ((L * k + 1) * (eps / (L * k + 1))) with eps in Hh by (field; lra). nra. }
    apply Rabs_def1; lra.
Qed.

(* one-sided (right) derivative *)
Definition right_derivative (f : R -> R) (x l : R) : Prop :=
  forall eps, 0 < eps -> exists delta, 0 < delta /\ forall h, 0 < h < delta ->
    Rabs ((f (x + h) - f x) / h - l) < eps.

(* the documented law: power accepted at stored charge x [kW] *)
Definition l2_law_power (cap maxP ts pilot V x : R) : R :=
  Rmin (l2_req_power maxP pilot V) (l2_ramp_power cap maxP ts x).

Lemma Rmin_scale a x y : 0 <= a -> Rmin (a * x) (a * y) = a * Rmin x y.
Proof.
  intro Ha. destruct (Rmin_cases x y) as [[H ->]|[H ->]].
  - apply Rmin_left. nra.
  - apply Rmin_right. nra.
Qed.

(* average power over a vanishing first period -> the law's power at the initial charge *)
Lemma c14_law_initial cap maxP ts c pilot V :
  0 < cap -> 0 < maxP -> ts < 1 -> c <= cap -> 0 < V -> 0 <= pilot ->
  forall eps, 0 < eps -> exists delta, 0 < delta /\ forall h, 0 < h < delta ->
    Rabs ((l2_after cap maxP ts c pilot V h - c) / (h / 60) - l2_law_power cap maxP ts pilot V c) < eps.
Proof.
  intros Hcap HmaxP Hts Hc HV Hp0 eps Heps.
  assert (Hs1 : c / cap <= 1) by (apply soc_le1; assumption).
  destruct (Req_dec pilot 0) as [->|Hne].
  - exists 1. split; [lra|]. intros h [Hh _].
    rewrite l2_after_zero_pilot by assumption.
    unfold l2_law_power, l2_req_power, l2_ramp_power.
    replace (0 * V / 1000) with 0 by lra. rewrite (Rmin_left 0 maxP) by lra.
    assert (0 <= maxP * (1 - c / cap) / (1 - ts)).
    { apply div_nonneg; [|lra]. apply Rmult_le_pos; lra. }
    rewrite Rmin_left by lra.
    replace ((c - c) / (h / 60) - 0) with 0 by (field; lra). rewrite Rabs_R0. exact Heps.
  - assert (Hp : 0 < pilot) by lra.
    pose proof (l2_rate_pos cap maxP pilot V Hcap HmaxP HV Hp) as Hr.
    pose proof (l2_knee_lt1 cap maxP ts pilot V Hcap HmaxP Hts HV Hp) as Hk.
    set (r := l2_rate cap maxP pilot V) in *. set (knee := l2_knee cap maxP ts pilot V) in *.
    assert (Hscale : 0 < 60 * cap) by lra.
    destruct (soc_step_right_deriv r knee (c / cap) Hr Hk Hs1 (eps / (60 * cap)) ltac:(apply div_pos; lra))
      as (delta & Hd & Hlim).
    exists delta. split; [exact Hd|]. intros h Hh.
    specialize (Hlim h Hh).
    rewrite l2_after_soc by (try assumption; lra). fold r. fold knee.
    (* rewrite both sides as 60 cap * (soc quantities) *)
    assert (Elaw : l2_law_power cap maxP ts pilot V c = 60 * cap * Rmin r (r / (1 - knee) * (1 - c / cap))).
    { unfold l2_law_power. rewrite <- Rmin_scale by lra. f_equal.
      - unfold r. rewrite l2_rate_req by assumption. field. lra.
      - unfold l2_ramp_power, knee, l2_knee. fold r. field.
        assert (0 < r / (maxP / cap / 60)) by (apply div_pos; [lra|repeat apply div_pos; lra]).
        repeat split; try lra.
        replace (maxP - (maxP - r * (cap * 60) * (1 - ts))) with (r * (cap * 60) * (1 - ts)) by ring.
        apply Rgt_not_eq. apply Rmult_lt_0_compat; [apply Rmult_lt_0_compat|]; lra. }
    rewrite Elaw.
    replace ((l2_soc_step (r * h) knee (c / cap) * cap - c) / (h / 60))
      with (60 * cap * ((l2_soc_step (r * h) knee (c / cap) - c / cap) / h)) by (field; lra).
    rewrite <- Rmult_minus_distr_l, Rabs_mult, (Rabs_pos_eq (60 * cap)) by lra.
    apply (Rmult_lt_compat_l (60 * cap)) in Hlim; [|lra].
    replace (60 * cap * (eps / (60 * cap))) with eps in Hlim by (field; lra). exact Hlim.
Qed.

(* the result of a period is the flow of the documented differential law: at every time T > 0 the
   right derivative of the stored charge [kWh per minute] is the law's power at the current charge / 60 *)
Lemma c14_law_ode cap maxP ts c pilot V T :
  0 < cap -> 0 < maxP -> ts < 1 -> c <= cap -> 0 < V -> 0 < T -> 0 <= pilot ->
  right_derivative (fun t => l2_after cap maxP ts c pilot V t) T
                   (l2_law_power cap maxP ts pilot V (l2_after cap maxP ts c pilot V T) / 60).
Proof.
  intros Hcap HmaxP Hts Hc HV HT Hp eps Heps.
  pose proof (l2_after_bounds cap maxP ts c pilot V T Hcap HmaxP Hts Hc HV HT Hp) as [_ Hb].
  destruct (c14_law_initial cap maxP ts (l2_after cap maxP ts c pilot V T) pilot V
              Hcap HmaxP Hts Hb HV Hp (60 * eps) ltac:(lra)) as (delta & Hd & Hlim).
  exists delta. split; [exact Hd|]. intros h Hh. specialize (Hlim h Hh).
  cbv beta. rewrite c14_split by (try assumption; lra).
  set (x := l2_after cap maxP ts c pilot V T) in *.
  set (y := l2_after cap maxP ts x pilot V h) in *.
  set (l := l2_law_power cap maxP ts pilot V x) in *.
  replace ((y - x) / h - l / 60) with (((y - x) / (h / 60) - l) / 60) by (field; lra).
  unfold Rdiv at 1. rewrite Rabs_mult, (Rabs_pos_eq (/ 60)) by lra. lra.
Qed.


(* ---- scope: the legacy stepwise calculation is not a flow (documented as an approximation) ---- *)
Definition stepwise_after (cap maxP ts c pilot V T : R) : R :=
  L2_charge_stepwise__current_charge (stateS (L2_charge_stepwise cap c 0 maxP 0 ts pilot V T 0 0)).

Lemma stepwise_after_ramp cap maxP ts c pilot V T :
  0 < V -> 0 < T -> ts <= c / cap ->
  (1 - c / cap) / (1 - ts) * maxP <= pilot * V / 1000 ->
  (1 - c / cap) / (1 - ts) * maxP <= (cap - c) / (T / 60) ->
  stepwise_after cap maxP ts c pilot V T = c + (1 - c / cap) / (1 - ts) * maxP * (T / 60).
Proof.
  intros HV HT Hs H1 H2. unfold stepwise_after.
  rewrite L2_charge_stepwise_ok by assumption. cbv zeta. cbn.
  unfold stepwise_power. cbv zeta.
  replace (Rltb (c / cap) ts) with false by (symmetry; apply Rltb_false; lra).
  replace (Rltb 0 0) with false by (symmetry; apply Rltb_false; lra).
  rewrite (Rmin_right (pilot * V / 1000)) by lra.
  rewrite Rmin_left by lra. reflexivity.
Qed.

Lemma c14_stepwise_does_not_split :
  stepwise_after 50 7 (4/5) 45 32 208 60
  <> stepwise_after 50 7 (4/5) (stepwise_after 50 7 (4/5) 45 32 208 30) 32 208 30.
Proof.
  assert (E1 : stepwise_after 50 7 (4/5) 45 32 208 60 = 97/2).
  { rewrite stepwise_after_ramp by lra. lra. }
  assert (E2 : stepwise_after 50 7 (4/5) 45 32 208 30 = 187/4).
  { rewrite stepwise_after_ramp by lra. lra. }
  rewrite E1, E2.
  rewrite stepwise_after_ramp by lra. lra.
Qed.


(* ---- whole life of a battery object: constructor, then any charge / reset calls ---- *)
Inductive bop :=
| OpCharge (o : cop)
| OpReset (x : option R).

Definition apply_bop (b : battery) (st : bstate) (o : bop) : bstate :=
  match o with
  | OpCharge c => r_state (charge_call b st c)
  | OpReset x => reset_state b st x
  end.

(* states before every operation *)
Fixpoint life (b : battery) (st : bstate) (ops : list bop) : list (bstate * bop) :=
  match ops with
  | [] => []
  | o :: rest => (st, o) :: life b (apply_bop b st o) rest
  end.

Definition bop_pilot_ok (o : bop) : Prop :=
  match o with OpCharge c => 0 <= o_pilot c | OpReset _ => True end.

Lemma reset_state_le b st x : b_init b <= b_cap b -> s_charge st <= b_cap b ->
  s_charge (reset_state b st x) <= b_cap b.
Proof. intros Hi Hc. unfold reset_state. cbn. apply Battery_reset_invariant; assumption. Qed.

(* a constructed battery (init <= capacity) never leaves [.., capacity], whatever is done to it with
   non-negative pilots; every charge call on the way is call_ok *)
Lemma c03_life b ops : battery_ok b -> b_init b <= b_cap b -> Forall bop_pilot_ok ops ->
  Forall (fun '(st, o) =>
            s_charge st <= b_cap b /\
            match o with
            | OpCharge c => call_ok b st c (charge_call b st c)
            | OpReset x => s_charge (reset_state b st x) <= b_cap b
            end) (life b (initial_state b) ops).
Proof.
  intros Hb Hi Hops.
  assert (H0 : s_charge (initial_state b) <= b_cap b) by (cbn; exact Hi).
  revert H0. generalize (initial_state b) as st.
  induction Hops as [|o rest Ho _ IH]; intros st Hst; [constructor|].
  cbn [life]. destruct o as [c|x]; cbn in Ho.
  - destruct (c03_call b st c Hb Hst Ho) as (Hok & _).
    constructor; [split; assumption|].
    apply IH. cbn. apply (call_ok_invariant _ _ _ _ Hok Hst).
  - pose proof (reset_state_le b st x Hi Hst) as Hr.
    constructor; [split; assumption|]. apply IH. exact Hr.
Qed.

(* EV.reset: energy delivered back to 0 and the battery is reset() *)
Lemma ev_reset_spec :
  EV_reset = {| EV_reset_ret := tt; EV_reset__energy_delivered := 0;
                EV_reset_effects := [("self._battery.reset"%string, [])] |}.
Proof. reflexivity. Qed.

(* ---- packaged statements for Props/C03.v ---- *)
Lemma Battery_charge_rejects cap c p0 maxP pilot V T : V <= 0 \/ T <= 0 ->
  Battery_charge cap c p0 maxP pilot V T =
  ErrS "ValueError" {| Battery_charge_ret := 0; Battery_charge__current_charge := c;
                       Battery_charge__current_charging_power := p0 |}.
Proof.
  intro H. destruct (Rlt_le_dec 0 V) as [HV|HV].
  - destruct H as [H|H]; [lra|]. apply Battery_charge_bad_period; assumption.
  - apply Battery_charge_bad_voltage; assumption.
Qed.

Lemma L2_charge_stepwise_rejects cap c p0 maxP nl ts pilot V T noise noise2 : V <= 0 \/ T <= 0 ->
  L2_charge_stepwise cap c p0 maxP nl ts pilot V T noise noise2 =
  ErrS "ValueError" {| L2_charge_stepwise_ret := 0; L2_charge_stepwise__current_charge := c;
                       L2_charge_stepwise__current_charging_power := p0 |}.
Proof.
  intro H. destruct (Rlt_le_dec 0 V) as [HV|HV].
  - destruct H as [H|H]; [lra|]. apply L2_charge_stepwise_bad_period; assumption.
  - apply L2_charge_stepwise_bad_voltage; assumption.
Qed.

Lemma L2_charge_rejects cap c p0 maxP nl ts pilot V T noise : V <= 0 \/ T <= 0 ->
  L2_charge cap c p0 maxP nl ts pilot V T noise =
  ErrS "ValueError" {| L2_charge_ret := 0; L2_charge__current_charging_power := p0;
                       L2_charge__current_charge := c |}.
Proof.
  intro H. destruct (Rlt_le_dec 0 V) as [HV|HV].
  - destruct H as [H|H]; [lra|]. apply L2_charge_bad_period; assumption.
  - apply L2_charge_bad_voltage; assumption.
Qed.

Lemma c03_constructor_guard u1 u2 u3 u4 u5 cap init maxP :
  (cap < init -> errS (Battery_init u1 u2 u3 u4 u5 cap init maxP) = Some "ValueError"%string)
  /\ (forall o, Battery_init u1 u2 u3 u4 u5 cap init maxP = OkS o ->
        Battery_init__current_charge o <= Battery_init__capacity o
        /\ Battery_init__init_charge o = Battery_init__current_charge o
        /\ Battery_init__current_charging_power o = 0).
Proof.
  split; [apply Battery_init_spec | apply Battery_init_invariant].
Qed.

Lemma c03_reset_guard cap c p init x :
  (cap < x -> Battery_reset cap c p init (Some x) =
     ErrS "ValueError" {| Battery_reset_ret := tt; Battery_reset__current_charge := c;
                          Battery_reset__current_charging_power := p |})
  /\ (forall y, init <= cap -> c <= cap ->
        Battery_reset__current_charge (stateS (Battery_reset cap c p init y)) <= cap).
Proof.
  split; [apply Battery_reset_to | intros; apply Battery_reset_invariant; assumption].
Qed.
