(* Proofs/NetworkMore.v — further facts about Model/Network.v:
   (1) an operation that raises leaves the network untouched (update_constraint excepted, see Proofs/Network.v);
   (2) the registration order only permutes the columns: names, limits, outcomes are the same and every
       aggregate current is the same number (over Q, up to ==). *)
From Coq Require Import List Bool Arith Lia ZArith QArith Qabs String Permutation Setoid.
From ACN Require Import Base.Num Base.ListX Gen.C12Shape Model.Current Model.Network Proofs.Current Proofs.Network.
Import ListNotations.
Open Scope nat_scope.
Set Default Proof Using "Type".

Section Failed.
  Context {A : Type}.
  Variable zero : A.

  Theorem failed_unchanged : forall (o : op A) (n : net A) e,
    fst (step zero o n) = Some e ->
    snd (step zero o n) =
    match o with
    | OUpdate nm _ _ _ => if nmem nm (cnames n) then snd (remove_constraint nm n) else n
    | _ => n
    end.
  Proof.
    intros o n e. destruct o; simpl.
    - unfold register_evse. destruct (cmat n); simpl; [intros; reflexivity|].
      destruct (col_pos s (stations n)); [destruct reregistration_overwrites|]; simpl; intros H; discriminate.
    - unfold add_constraint. destruct (existsb _ _); simpl; intros H; [reflexivity | discriminate].
    - unfold remove_constraint. destruct (negb _); simpl; intros H; [reflexivity | discriminate].
    - unfold update_constraint. destruct (nmem name (cnames n)); simpl; [|reflexivity].
      unfold add_constraint. destruct (existsb _ _); simpl; intros H; [reflexivity | discriminate].
  Qed.
End Failed.

(* ------------------------------------------------------------------------------------------ *)
Section RegistrationOrder.
  Context {A : Type}.
  Variable zero : A.

  Definition same_set (a b : list station) : Prop := forall s, smem s a = smem s b.

  Lemma known_same_set : forall a b (c : current A), same_set a b -> known a c = known b c.
  Proof.
    intros a b c H. unfold known. induction (keys c) as [|k l IH]; simpl; auto. rewrite H, IH. reflexivity.
  Qed.

  (* the book-keeping of two networks that differ only in the ORDER of their stations evolves identically *)
  Lemma gstep_same_set : forall (o : op A) (g g' : ghost A),
    no_register o = true ->
    same_set (g_stations g) (g_stations g') -> g_ever g = g_ever g' -> g_live g = g_live g' ->
    let h := gstep o g in let h' := gstep o g' in
    g_stations h = g_stations g /\ g_stations h' = g_stations g' /\
    g_ever h = g_ever h' /\ g_live h = g_live h' /\ spec_err o g = spec_err o g'.
  Proof.
    intros o g g' Ho Hs He Hl. destruct o; simpl in *; try discriminate.
    - rewrite <- (known_same_set _ _ c Hs), <- Hl.
      destruct (known (g_stations g) c); simpl; repeat split; auto.
    - rewrite <- Hl. repeat split; auto.
    - rewrite <- (known_same_set _ _ c Hs), <- Hl, <- He.
      destruct (nmem name (map l_name (g_live g))); simpl; repeat split; auto;
        destruct (known (g_stations g) c); simpl; repeat split; auto.
  Qed.

  Lemma grun_same_set : forall (ops : list (op A)) (g g' : ghost A),
    forallb no_register ops = true ->
    same_set (g_stations g) (g_stations g') -> g_ever g = g_ever g' -> g_live g = g_live g' ->
    let h := grun ops g in let h' := grun ops g' in
    g_stations h = g_stations g /\ g_stations h' = g_stations g' /\
    g_ever h = g_ever h' /\ g_live h = g_live h'.
  Proof.
    induction ops as [|o ops IH]; intros g g' Ho Hs He Hl; simpl.
    - repeat split; auto.
    - simpl in Ho. apply andb_true_iff in Ho. destruct Ho as [Ho Hops].
      destruct (gstep_same_set o g g' Ho Hs He Hl) as (S1 & S2 & E & L & _).
      assert (Hs' : same_set (g_stations (gstep o g)) (g_stations (gstep o g'))).
      { rewrite S1, S2. exact Hs. }
      destruct (IH _ _ Hops Hs' E L) as (T1 & T2 & E' & L').
      repeat split; auto; congruence.
  Qed.

  Lemma same_set_perm : forall a b : list station, Permutation a b -> same_set a b.
  Proof.
    intros a b H s. apply eq_true_iff_eq. rewrite !smem_In. split; apply Permutation_in; auto.
    apply Permutation_sym; auto.
  Qed.

  Lemma dedup_first_nodup_id : forall l seen,
    NoDup l -> (forall x, In x l -> ~ In x seen) -> dedup_first seen l = l.
  Proof.
    induction l as [|x l IH]; intros seen Hn Hd; simpl; auto.
    inversion Hn as [|? ? Hx Hn']; subst.
    destruct (smem x seen) eqn:E.
    - apply smem_In in E. exfalso. apply (Hd x); [left; reflexivity | exact E].
    - f_equal. apply IH; auto. intros y Hy [Hy' | Hy'].
      + subst. contradiction.
      + apply (Hd y); [right; exact Hy | exact Hy'].
  Qed.

  Lemma grun_registers : forall regs,
    grun (map (reg_op (A := A)) regs) ghost0 = mkGhost (dedup_first [] (reg_ids regs)) false [].
  Proof using zero.
    intros regs.
    pose proof (run_rel zero (map reg_op regs) _ _ (rel0 zero)) as (Hs & _ & Hm & _ & Hc & He).
    destruct (registration_order zero regs) as (Rs & _ & _ & Rm & _ & Rc).
    destruct (grun (map reg_op regs) ghost0) as [gs ge gl] eqn:Eg. simpl in *.
    rewrite Rm in Hm. destruct ge; try discriminate.
    rewrite (He eq_refl). rewrite <- Hs, Rs. reflexivity.
  Qed.

  (* two networks whose stations were registered in different orders, then driven through the same
     constraint operations: same names, same limits, same outcomes, and the same coefficient for every
     (constraint, station) pair — only the column positions differ *)
  Theorem registration_order_irrelevant : forall regs regs' (ops : list (op A)),
    NoDup (reg_ids regs) -> Permutation regs regs' -> forallb no_register ops = true ->
    let n := run zero (map reg_op regs ++ ops) net0 in
    let n' := run zero (map reg_op regs' ++ ops) net0 in
    let g := grun (map reg_op regs ++ ops) (ghost0 (A := A)) in
    let g' := grun (map reg_op regs' ++ ops) (ghost0 (A := A)) in
    stations n = reg_ids regs /\ stations n' = reg_ids regs' /\
    g_live g = g_live g' /\ g_ever g = g_ever g' /\
    cnames n = cnames n' /\ mags n = mags n' /\
    (forall o, no_register o = true -> fst (step zero o n) = fst (step zero o n')) /\
    (forall m m' i k k' s,
        cmat n = Some m -> cmat n' = Some m' ->
        nth_error (stations n) k = Some s -> nth_error (stations n') k' = Some s ->
        i < List.length (cnames n) ->
        nth k (nth i m []) None = nth k' (nth i m' []) None).
  Proof.
    intros regs regs' ops Hn Hp Hops n n' g g'.
    assert (Hp' : Permutation (reg_ids regs) (reg_ids regs')) by (apply Permutation_map; exact Hp).
    assert (Hn' : NoDup (reg_ids regs')) by (eapply Permutation_NoDup; eauto).
    assert (D : dedup_first [] (reg_ids regs) = reg_ids regs) by (apply dedup_first_nodup_id; auto).
    assert (D' : dedup_first [] (reg_ids regs') = reg_ids regs') by (apply dedup_first_nodup_id; auto).
    subst g g'. rewrite !grun_app, !(grun_registers), D, D'.
    destruct (grun_same_set ops (mkGhost (reg_ids regs) false []) (mkGhost (reg_ids regs') false []) Hops)
      as (S1 & S2 & E & L); simpl; auto.
    { apply same_set_perm. exact Hp'. }
    destruct (aligned zero (map reg_op regs ++ ops)) as (As & _ & Am & Al & Ac).
    destruct (aligned zero (map reg_op regs' ++ ops)) as (As' & _ & Am' & Al' & Ac').
    rewrite !grun_app, !grun_registers, D in As, Am, Al, Ac.
    rewrite !grun_app, !grun_registers, D' in As', Am', Al', Ac'.
    fold n in As, Am, Al, Ac. fold n' in As', Am', Al', Ac'.
    simpl in S1, S2.
    repeat split.
    - rewrite As. exact S1.
    - rewrite As'. exact S2.
    - exact L.
    - exact E.
    - rewrite Ac, Ac', L. reflexivity.
    - rewrite Al, Al', L. reflexivity.
    - intros o Ho. subst n n'. rewrite !(outcome zero). rewrite !grun_app, !(grun_registers), D, D'.
      apply (gstep_same_set o); auto; try (rewrite S1, S2; apply same_set_perm; exact Hp').
    - intros m m' i k k' s Hm Hm' Hk Hk' Hi.
      rewrite Hm in Am. rewrite Hm' in Am'.
      destruct (g_ever _); try discriminate. rewrite <- E in Am'.
      injection Am as Am. injection Am' as Am'. subst m m'. rewrite <- L.
      rewrite Ac, map_length in Hi.
      set (lv := g_live (grun ops (mkGhost (reg_ids regs) false []))) in *.
      destruct (nth_error lv i) as [x|] eqn:Ex; [|apply nth_error_None in Ex; lia].
      rewrite (nth_indep _ [] ((fun y => map (fun s0 => Some (coeff zero (l_cur y) s0)) (stations n)) x))
        by (rewrite map_length; exact Hi).
      rewrite (map_nth (fun y => map (fun s0 => Some (coeff zero (l_cur y) s0)) (stations n))).
      rewrite (nth_indep _ [] ((fun y => map (fun s0 => Some (coeff zero (l_cur y) s0)) (stations n')) x))
        by (rewrite map_length; exact Hi).
      rewrite (map_nth (fun y => map (fun s0 => Some (coeff zero (l_cur y) s0)) (stations n'))).
      rewrite (nth_error_nth _ _ x Ex).
      rewrite (nth_error_nth _ _ _ (map_nth_error (fun s0 => Some (coeff zero (l_cur x) s0)) _ _ Hk)).
      rewrite (nth_error_nth _ _ _ (map_nth_error (fun s0 => Some (coeff zero (l_cur x) s0)) _ _ Hk')).
      reflexivity.
  Qed.
End RegistrationOrder.

(* ------------------------------------------------------------------------------------------ *)
(* aggregate currents do not depend on the registration order (Q, up to ==) *)
Open Scope Q_scope.

Definition qlin := lin_sum 0 Qplus Qmult.

Lemma qlin_perm : forall (a b : station -> Q) sts sts',
  Permutation sts sts' -> qlin (map a sts) (map b sts) == qlin (map a sts') (map b sts').
Proof.
  intros a b sts sts' H. induction H; simpl.
  - reflexivity.
  - rewrite IHPermutation. reflexivity.
  - ring.
  - rewrite IHPermutation1. exact IHPermutation2.
Qed.

Lemma Forall2_map_same : forall {B C} (R : C -> C -> Prop) (f g : B -> C) l,
  (forall x, In x l -> R (f x) (g x)) -> Forall2 R (map f l) (map g l).
Proof.
  intros B C R f g l. induction l as [|x l IH]; intros H; simpl; constructor.
  - apply H. left; reflexivity.
  - apply IH. intros y Hy. apply H. right; exact Hy.
Qed.

Theorem aggregate_order_irrelevant : forall regs regs' (ops : list (op Q)) w xf C T,
  NoDup (reg_ids regs) -> Permutation regs regs' -> forallb (no_register (A := Q)) ops = true ->
  let n := run 0 (map reg_op regs ++ ops) net0 in
  let n' := run 0 (map reg_op regs' ++ ops) net0 in
  res_equiv (qcc (sched_for w xf (stations n)) C T n) (qcc (sched_for w xf (stations n')) C T n').
Proof.
  intros regs regs' ops w xf C T Hn Hp Hops n n'.
  destruct (registration_order_irrelevant 0 regs regs' ops Hn Hp Hops)
    as (Hs & Hs' & HL & HE & Hc & _).
  fold n n' in Hs, Hs', Hc.
  unfold qcc. subst n n'. rewrite !(cc_values 0 Qplus Qmult Qabs).
  set (n := run 0 (map reg_op regs ++ ops) net0) in *.
  set (n' := run 0 (map reg_op regs' ++ ops) net0) in *.
  simpl xw. destruct (sel_cols w T) as [js|]; simpl; auto.
  rewrite <- HE. destruct (g_ever _); simpl; auto.
  unfold sched_for; simpl xrows. rewrite !map_length, !Nat.eqb_refl. simpl.
  rewrite <- Hc, <- HL.
  apply Forall2_map_same. intros i _.
  apply Forall2_map_same. intros j _.
  destruct (nth_error _ i) as [x|]; simpl; [|reflexivity].
  unfold column. simpl xrows. rewrite !map_map.
  change (lin_sum 0 Qplus Qmult) with qlin.
  apply (qlin_perm (fun s => Qabs (coeff 0 (l_cur x) s)) (fun s => nth j (xf s) 0)).
  rewrite Hs, Hs'. apply Permutation_map. exact Hp.
Qed.

(* ------------------------------------------------------------------------------------------ *)
(* JSON round trip *)
Section Json.
  Context {A : Type}.
  Variable zero : A.

  Lemma json_reload_lossless : forall j : jnet A, json_reload false j = j.
  Proof. intros [n d]. unfold json_reload. simpl. rewrite orb_false_r. reflexivity. Qed.

  (* the tree under test: _from_dict restores the shape, so the reload is the identity on every network and every
     later operation is the plain one *)
  Theorem json_roundtrip : forall j : jnet A, json_reload repo_json_lossy j = j.
  Proof. exact json_reload_lossless. Qed.

  Theorem json_roundtrip_ops : forall (n : net A) o,
    jstep zero o (json_reload repo_json_lossy (mkJ n false)) =
    (fst (step zero o n), mkJ (snd (step zero o n)) false).
  Proof. intros n o. rewrite json_roundtrip. reflexivity. Qed.

  (* on a reachable network that still has a constraint, or never had one, the reload changes nothing — whatever
     the serialisation does with row-less matrices — and operations on the reloaded network are the plain ones *)
  Theorem json_roundtrip_identity : forall (ops : list (op A)) lossy,
    let n := run zero ops net0 in
    cnames n <> [] \/ cmat n = None ->
    json_reload lossy (mkJ n false) = mkJ n false /\
    forall o, jstep zero o (mkJ n false) = (fst (step zero o n), mkJ (snd (step zero o n)) false).
  Proof.
    intros ops lossy n H. split.
    - unfold json_reload. simpl. destruct lossy; auto.
      destruct (cmat n) as [[|r m]|] eqn:E; auto.
      destruct H as [H | H]; [|discriminate].
      destruct (aligned_lengths zero ops) as (_ & Hl & _). fold n in Hl.
      destruct (Hl [] E) as [Hlen _]. simpl in Hlen.
      destruct (cnames n); [contradiction | discriminate].
    - intros o. unfold jstep. simpl. reflexivity.
  Qed.
End Json.

(* the failing history: every constraint removed, JSON round trip, then a well-formed add_constraint *)
Definition json_ops : list (op Q) :=
  [ ORegister 1%nat 208 30; ORegister 2%nat 208 (-30);
    OAdd [(1%nat, 1%Q)] 10 (Some "pod"%string); ORemove "pod"%string ].

Lemma json_refuted :
  exists (ops : list (op Q)) (o : op Q),
    let j := json_reload true (mkJ (run 0%Q ops net0) false) in
    let r := jstep 0%Q o j in
    fst (step 0%Q o (run 0%Q ops net0)) = None /\               (* accepted by the original network *)
    fst r = Some "ValueError"%string /\                          (* raises on the reloaded one *)
    List.length (mags (jn (snd r))) = 1%nat /\ cnames (jn (snd r)) = [] /\ cmat (jn (snd r)) = Some [].
Proof.
  exists json_ops, (OAdd [(2%nat, 1%Q)] 5 (Some "pod2"%string)). vm_compute. repeat split; reflexivity.
Qed.
