(* Proofs/Analysis.v — lemmas and proofs for C18 (analysis functions = first-principles definitions). *)
From Coq Require Import ZArith Reals Lra List Bool Lia Permutation.
From ACN Require Import Base.Num Base.NumR Base.ListX Gen.Analysis_R Gen.Battery_R
                        Model.Ledger Model.LedgerR Model.Analysis Model.AnalysisR Proofs.Ledger Proofs.AnalysisStruct.
Import ListNotations.
Open Scope R_scope.

(* ------------------------------------------------------------------------------------------ *)
(* vectors                                                                                      *)
(* ------------------------------------------------------------------------------------------ *)
Lemma list_eq_map_seq {A} (d : A) (l : list A) (w : nat) (f : nat -> A) :
  length l = w -> (forall t, (t < w)%nat -> nth t l d = f t) -> l = map f (seq 0 w).
Proof.
  intros Hl Hn. apply (nth_ext _ _ d (f 0%nat)).
  - rewrite map_length, seq_length. exact Hl.
  - intros t Ht. rewrite Hl in Ht. rewrite Hn by exact Ht.
    rewrite (nth_indep _ (f 0%nat) (f t)) by (rewrite map_length, seq_length; exact Ht).
    rewrite map_nth. rewrite seq_nth by exact Ht. reflexivity.
Qed.

Lemma map_nth0 (f : R -> R) l t : f 0 = 0 -> nth t (map f l) 0 = f (nth t l 0).
Proof. intro H. rewrite <- H at 1. apply map_nth. Qed.

Lemma vadd_length a b : length (vadd RO a b) = Nat.min (length a) (length b).
Proof. unfold vadd. rewrite map_length, combine_length. reflexivity. Qed.

Lemma vadd_nth a b t : (t < length a)%nat -> (t < length b)%nat ->
  nth t (vadd RO a b) 0 = nth t a 0 + nth t b 0.
Proof.
  revert b t. induction a as [|x a IH]; intros [|y b] t Ha Hb; cbn in *; try lia.
  destruct t; [reflexivity|]. apply IH; lia.
Qed.

Lemma vscale_length k v : length (vscale RO k v) = length v.
Proof. unfold vscale. apply map_length. Qed.

Lemma vscale_nth k v t : nth t (vscale RO k v) 0 = k * nth t v 0.
Proof.
  unfold vscale. revert t. induction v as [|x v IH]; intros [|t]; cbn; try lra. apply IH.
Qed.

Lemma vmax_length a b : length (vmax RO a b) = Nat.min (length a) (length b).
Proof. unfold vmax. rewrite map_length, combine_length. reflexivity. Qed.

Lemma vmax_nth a b t : (t < length a)%nat -> (t < length b)%nat ->
  nth t (vmax RO a b) 0 = Rmax (nth t a 0) (nth t b 0).
Proof.
  revert b t. induction a as [|x a IH]; intros [|y b] t Ha Hb; cbn in *; try lia.
  destruct t; [reflexivity|]. apply IH; lia.
Qed.

Lemma zeros_length w : length (zeros RO w) = w.
Proof. apply repeat_length. Qed.

Lemma zeros_nth w t : nth t (zeros RO w) 0 = 0.
Proof. unfold zeros. revert t. induction w; intros [|t]; cbn; auto. Qed.

(* sum(axis=0) *)
Lemma fold_vadd_spec w rows : Forall (fun r => length r = w) rows ->
  forall acc, length acc = w ->
    length (fold_left (vadd RO) rows acc) = w
    /\ forall t, (t < w)%nat ->
         nth t (fold_left (vadd RO) rows acc) 0 = nth t acc 0 + Rsum (map (fun r => nth t r 0) rows).
Proof.
  induction 1 as [|r rows Hr _ IH]; intros acc Hacc; cbn [fold_left map].
  - split; auto. intros. unfold Rsum; cbn. lra.
  - assert (Hlen : length (vadd RO acc r) = w) by (rewrite vadd_length, Hacc, Hr; apply Nat.min_id).
    destruct (IH _ Hlen) as [H1 H2]. split; auto.
    intros t Ht. rewrite H2 by exact Ht. rewrite vadd_nth by lia.
    unfold Rsum; cbn [fold_right]. lra.
Qed.

Lemma colsum_spec w rows : Forall (fun r => length r = w) rows ->
  length (colsum RO w rows) = w
  /\ forall t, (t < w)%nat -> nth t (colsum RO w rows) 0 = Rsum (map (fun r => nth t r 0) rows).
Proof.
  intro H. unfold colsum. destruct (fold_vadd_spec w rows H (zeros RO w) (zeros_length w)) as [H1 H2].
  split; auto. intros t Ht. rewrite H2 by exact Ht. rewrite zeros_nth. lra.
Qed.

Lemma Forall_combine_snd {A C} (P : C -> Prop) (a : list A) (b : list C) :
  Forall P b -> Forall (fun p => P (snd p)) (combine a b).
Proof.
  intro H. revert a. induction H as [|y b Hy _ IH]; intros [|x a]; cbn; constructor; auto.
Qed.

Lemma lincomb_spec w coefs rows : Forall (fun r => length r = w) rows ->
  length (lincomb RO w coefs rows) = w
  /\ forall t, (t < w)%nat ->
       nth t (lincomb RO w coefs rows) 0 = Rsum (map (fun p => fst p * nth t (snd p) 0) (combine coefs rows)).
Proof.
  intro H. unfold lincomb.
  assert (H' : Forall (fun r => length r = w) (map (fun p => vscale RO (fst p) (snd p)) (combine coefs rows))).
  { apply Forall_map. eapply Forall_impl; [|apply (Forall_combine_snd _ coefs rows H)].
    intros p Hp. cbn in Hp. rewrite vscale_length. exact Hp. }
  destruct (colsum_spec w _ H') as [H1 H2]. split; auto.
  intros t Ht. rewrite H2 by exact Ht. rewrite map_map. f_equal.
  apply map_ext. intro p. apply vscale_nth.
Qed.

(* ------------------------------------------------------------------------------------------ *)
(* aggregate_current / aggregate_power                                                          *)
(* ------------------------------------------------------------------------------------------ *)
Lemma aggregate_current_ok (tr : traj (F:=R)) : wf tr ->
  length (aggregate_current RO tr) = t_width tr
  /\ forall t, (t < t_width tr)%nat ->
       nth t (aggregate_current RO tr) 0 = Rsum (map (fun row => nth t row 0) (t_rates tr)).
Proof. intros (H & _). unfold aggregate_current. now apply colsum_spec. Qed.

Lemma aggregate_power_ok (tr : traj (F:=R)) : wf tr ->
  length (aggregate_power RO RA tr) = t_width tr
  /\ forall t, (t < t_width tr)%nat ->
       nth t (aggregate_power RO RA tr) 0
       = Rsum (map (fun p => fst p * nth t (snd p) 0) (combine (t_volts tr) (t_rates tr))) / 1000.
Proof.
  intros (H & _). unfold aggregate_power.
  destruct (lincomb_spec (t_width tr) (t_volts tr) (t_rates tr) H) as [H1 H2].
  split; [rewrite map_length; exact H1|].
  intros t Ht. cbn [a_power_scale RA]. unfold An_power_scale.
  rewrite map_nth0 by lra. rewrite (H2 t Ht). reflexivity.
Qed.

(* ------------------------------------------------------------------------------------------ *)
(* value of one series = the phase-aware sum of its own row                                     *)
(* ------------------------------------------------------------------------------------------ *)
Lemma combine_map_combine {A C D E} (f : C * D -> E) (a : list A) (b : list C) (c : list D) :
  combine a (map f (combine b c))
  = map (fun p => (fst (fst p), f (snd (fst p), snd p))) (combine (combine a b) c).
Proof.
  revert b c. induction a as [|x a IH]; intros [|y b] [|z c]; cbn; auto. now rewrite IH.
Qed.

Lemma phasor_rows_length (tr : traj (F:=R)) : wf tr ->
  Forall (fun r => length r = t_width tr) (phasor_re RO tr)
  /\ Forall (fun r => length r = t_width tr) (phasor_im RO tr).
Proof.
  intros (H & _). unfold phasor_re, phasor_im. split; apply Forall_map;
    (eapply Forall_impl; [|apply (Forall_combine_snd _ (t_phasor tr) (t_rates tr) H)]);
    intros p Hp; cbn in Hp; rewrite vscale_length; exact Hp.
Qed.

Lemma lincomb_re_spec (tr : traj (F:=R)) j : wf tr ->
  lincomb RO (t_width tr) (nth j (t_cmat tr) []) (phasor_re RO tr) = map (cc_re_spec RO tr j) (periods tr).
Proof.
  intro Hwf. destruct (phasor_rows_length tr Hwf) as [Hre _].
  destruct (lincomb_spec (t_width tr) (nth j (t_cmat tr) []) _ Hre) as [H1 H2].
  unfold periods. apply (list_eq_map_seq 0); [exact H1|].
  intros t Ht. rewrite (H2 t Ht). unfold cc_re_spec, phasor_re.
  rewrite (combine_map_combine (fun p => vscale RO (fst (fst p)) (snd p))), map_map.
  change (fsumA RO) with Rsum. f_equal. apply map_ext. intros [[k [c s]] r]. cbn [fst snd].
  rewrite vscale_nth. reflexivity.
Qed.

Lemma lincomb_im_spec (tr : traj (F:=R)) j : wf tr ->
  lincomb RO (t_width tr) (nth j (t_cmat tr) []) (phasor_im RO tr) = map (cc_im_spec RO tr j) (periods tr).
Proof.
  intro Hwf. destruct (phasor_rows_length tr Hwf) as [_ Him].
  destruct (lincomb_spec (t_width tr) (nth j (t_cmat tr) []) _ Him) as [H1 H2].
  unfold periods. apply (list_eq_map_seq 0); [exact H1|].
  intros t Ht. rewrite (H2 t Ht). unfold cc_im_spec, phasor_im.
  rewrite (combine_map_combine (fun p => vscale RO (snd (fst p)) (snd p))), map_map.
  change (fsumA RO) with Rsum. f_equal. apply map_ext. intros [[k [c s]] r]. cbn [fst snd].
  rewrite vscale_nth. reflexivity.
Qed.

Lemma combine_map_same {A C D} (f : A -> C) (g : A -> D) (l : list A) :
  combine (map f l) (map g l) = map (fun x => (f x, g x)) l.
Proof. induction l; cbn; congruence. Qed.

(* the first-principles series of constraint row j *)
Definition series_spec (tr : traj (F:=R)) (return_magnitudes : bool) (j : nat) : series (F:=R) :=
  if An_abs_applied return_magnitudes
  then Mag (map (fun t => sqrt (cc_re_spec RO tr j t * cc_re_spec RO tr j t + cc_im_spec RO tr j t * cc_im_spec RO tr j t))
                (periods tr))
  else Cplx (map (cc_re_spec RO tr j) (periods tr)) (map (cc_im_spec RO tr j) (periods tr)).

Lemma series_of_spec (tr : traj (F:=R)) flag j : wf tr ->
  series_row RO RA tr flag (nth j (t_cmat tr) []) = series_spec tr flag j.
Proof.
  intro Hwf. unfold series_row, series_spec. rewrite lincomb_re_spec, lincomb_im_spec by exact Hwf.
  cbn [a_abs_applied RA]. destruct (An_abs_applied flag); [|reflexivity].
  rewrite combine_map_same, map_map. reflexivity.
Qed.

(* ---- the statement about constraint_currents over R: structure (any carrier) + value of each series ---- *)
Theorem constraint_currents_ok (tr : traj (F:=R)) flag ids :
  wf tr -> NoDup (t_cindex tr) ->
  (* the keys: the requested existing constraints, each once, in network order *)
  map fst (constraint_currents RO RA tr flag ids) = filter (requested ids) (t_cindex tr)
  (* every requested existing id is mapped to the series of ITS OWN row *)
  /\ (forall j c, nth_error (t_cindex tr) j = Some c -> requested ids c = true ->
        dict_get c (constraint_currents RO RA tr flag ids) = Some (series_spec tr flag j))
  (* nothing else is returned *)
  /\ (forall c, requested ids c = false \/ ~ In c (t_cindex tr) ->
        dict_get c (constraint_currents RO RA tr flag ids) = None).
Proof.
  intros Hwf Hnd. pose proof Hwf as (_ & _ & _ & Hlen & _).
  destruct (constraint_currents_structure RO RA tr flag ids Hlen Hnd) as (Hk & Hg & Hm).
  split; [exact Hk|]. split; [|exact Hm].
  intros j c Hj Hreq. rewrite (Hg j c Hj Hreq). f_equal. now apply series_of_spec.
Qed.

Lemma constraint_currents_call_ok (tr : traj (F:=R)) flag ids :
  (t_cmat_present tr = true ->
     constraint_currents_call RO RA tr flag ids = Some (constraint_currents RO RA tr flag ids))
  /\ (t_cmat_present tr = false ->
     constraint_currents_call RO RA tr flag ids = None /\ forall p, current_unbalance_call RO RA tr p = None).
Proof.
  unfold constraint_currents_call, current_unbalance_call. split; intro H; rewrite H; auto.
Qed.

(* ------------------------------------------------------------------------------------------ *)
(* energy metrics                                                                               *)
(* ------------------------------------------------------------------------------------------ *)
Lemma fold_left_Rplus l a : fold_left Rplus l a = a + Rsum l.
Proof.
  revert a. induction l as [|x l IH]; intro a; cbn [fold_left]; [unfold Rsum; cbn; lra|].
  rewrite IH. unfold Rsum; cbn [fold_right]. lra.
Qed.

Lemma total_requested_ok (tr : traj (F:=R)) : total_energy_requested RO tr = Rsum (map fst (t_evh tr)).
Proof. unfold total_energy_requested. cbn [oadd o0 RO]. rewrite fold_left_Rplus. lra. Qed.

Lemma total_delivered_ok (tr : traj (F:=R)) : total_energy_delivered RO tr = Rsum (map snd (t_evh tr)).
Proof. unfold total_energy_delivered. cbn [oadd o0 RO]. rewrite fold_left_Rplus. lra. Qed.

Lemma proportion_ok (tr : traj (F:=R)) :
  (Rsum (map fst (t_evh tr)) <> 0 ->
     proportion_of_energy_delivered RO RA tr = Some (Rsum (map snd (t_evh tr)) / Rsum (map fst (t_evh tr))))
  /\ (Rsum (map fst (t_evh tr)) = 0 -> proportion_of_energy_delivered RO RA tr = None).
Proof.
  unfold proportion_of_energy_delivered. rewrite total_requested_ok, total_delivered_ok.
  cbn [oeqb o0 RO a_proportion RA]. unfold An_proportion. split; intro H.
  - destruct (Reqb (Rsum (map fst (t_evh tr))) 0) eqn:E; [apply Reqb_spec in E; contradiction|reflexivity].
  - destruct (Reqb (Rsum (map fst (t_evh tr))) 0) eqn:E; [reflexivity|apply Reqb_false in E; contradiction].
Qed.

Lemma demands_met_ok (tr : traj (F:=R)) thr : t_evh tr <> [] ->
  proportion_of_demands_met RO RA tr thr
  = Some (INR (length (filter (fun e => Rltb (fst e - snd e) thr) (t_evh tr))) / INR (length (t_evh tr))).
Proof.
  intro H. unfold proportion_of_demands_met, n_finished.
  destruct (t_evh tr) as [|e l] eqn:E; [congruence|].
  cbn [a_demands_ratio a_demand_met a_remaining RA oofZ RO].
  unfold An_demands_ratio, An_demand_met, EV_remaining_demand. rewrite <- !INR_IZR_INZ. reflexivity.
Qed.

Lemma demands_met_none (tr : traj (F:=R)) thr : t_evh tr = [] -> proportion_of_demands_met RO RA tr thr = None.
Proof. intro H. unfold proportion_of_demands_met. now rewrite H. Qed.

(* ------------------------------------------------------------------------------------------ *)
(* datetimes_array                                                                              *)
(* ------------------------------------------------------------------------------------------ *)
Lemma nth_map_seq {A} (f : nat -> A) w t d : (t < w)%nat -> nth t (map f (seq 0 w)) d = f t.
Proof.
  intro H. rewrite (nth_indep _ d (f 0%nat)) by (rewrite map_length, seq_length; exact H).
  rewrite map_nth, seq_nth by exact H. reflexivity.
Qed.

Lemma datetimes_ok (tr : traj (F:=R)) :
  length (datetimes_minutes RO RA tr) = t_iter tr
  /\ (forall k, (k < t_iter tr)%nat -> nth k (datetimes_minutes RO RA tr) 0 = t_period tr * INR k)
  /\ (forall k, (S k < t_iter tr)%nat ->
        nth (S k) (datetimes_minutes RO RA tr) 0 - nth k (datetimes_minutes RO RA tr) 0 = t_period tr).
Proof.
  unfold datetimes_minutes. cbn [a_minutes RA oofZ RO]. unfold An_minutes.
  assert (Hn : forall k, (k < t_iter tr)%nat ->
            nth k (map (fun i => t_period tr * IZR (Z.of_nat i)) (seq 0 (t_iter tr))) 0 = t_period tr * INR k).
  { intros k Hk. rewrite nth_map_seq by exact Hk. now rewrite <- INR_IZR_INZ. }
  split; [now rewrite map_length, seq_length|]. split; [exact Hn|].
  intros k Hk. rewrite !Hn by lia. rewrite S_INR. lra.
Qed.

(* ------------------------------------------------------------------------------------------ *)
(* NEMA current unbalance                                                                       *)
(* ------------------------------------------------------------------------------------------ *)
Definition mag_spec (tr : traj (F:=R)) (j t : nat) : R :=
  sqrt (cc_re_spec RO tr j t * cc_re_spec RO tr j t + cc_im_spec RO tr j t * cc_im_spec RO tr j t).

Definition nema_R (ia ib ic : R) : option R :=
  let mean := (ia + (ib + ic)) / 3 in
  if Reqb mean 0 then None else Some ((Rmax (Rmax ia ib) ic - mean) / mean).

Lemma nema_spec_R ia ib ic : nema_spec RO ia ib ic = nema_R ia ib ic.
Proof. reflexivity. Qed.

Lemma zmem_in c l : In c l -> zmem c l = true.
Proof. intro H. unfold zmem. apply existsb_exists. exists c. split; auto. apply Z.eqb_refl. Qed.

Theorem nema_ok (tr : traj (F:=R)) a b c ja jb jc :
  wf tr -> NoDup (t_cindex tr) ->
  nth_error (t_cindex tr) ja = Some a -> nth_error (t_cindex tr) jb = Some b -> nth_error (t_cindex tr) jc = Some c ->
  current_unbalance RO RA tr [a; b; c]
  = Some (map (fun t => nema_R (mag_spec tr ja t) (mag_spec tr jb t) (mag_spec tr jc t)) (periods tr)).
Proof.
  intros Hwf Hnd Ha Hb Hc.
  destruct (constraint_currents_ok tr false (Some [a; b; c]) Hwf Hnd) as (_ & Hget & _).
  unfold current_unbalance. cbn [map all_some].
  rewrite (Hget ja a Ha) by (apply zmem_in; cbn; auto).
  rewrite (Hget jb b Hb) by (apply zmem_in; cbn; auto).
  rewrite (Hget jc c Hc) by (apply zmem_in; cbn; auto).
  unfold series_spec, An_abs_applied. cbn [negb mags_of map fold_left length].
  fold (mag_spec tr ja) (mag_spec tr jb) (mag_spec tr jc).
  set (W := t_width tr). unfold periods. fold W.
  set (A := map (mag_spec tr ja) (seq 0 W)). set (Bv := map (mag_spec tr jb) (seq 0 W)).
  set (Cv := map (mag_spec tr jc) (seq 0 W)).
  assert (LA : length A = W) by (unfold A; now rewrite map_length, seq_length).
  assert (LB : length Bv = W) by (unfold Bv; now rewrite map_length, seq_length).
  assert (LC : length Cv = W) by (unfold Cv; now rewrite map_length, seq_length).
  assert (Hmx : vmax RO (vmax RO A Bv) Cv
                = map (fun t => Rmax (Rmax (mag_spec tr ja t) (mag_spec tr jb t)) (mag_spec tr jc t)) (seq 0 W)).
  { apply (list_eq_map_seq 0).
    - rewrite !vmax_length, LA, LB, LC. rewrite !Nat.min_id. reflexivity.
    - intros t Ht. rewrite vmax_nth by (rewrite ?vmax_length, ?LA, ?LB, ?LC, ?Nat.min_id; lia).
      rewrite vmax_nth by lia. unfold A, Bv, Cv. rewrite !nth_map_seq by exact Ht. reflexivity. }
  assert (Hrows : Forall (fun r => length r = W) [A; Bv; Cv]) by (repeat constructor; auto).
  destruct (colsum_spec W _ Hrows) as [Hl Hn].
  assert (Hmean : map (fun s => s / oofZ RO (Z.of_nat 3)) (colsum RO W [A; Bv; Cv])
                  = map (fun t => (mag_spec tr ja t + (mag_spec tr jb t + mag_spec tr jc t)) / 3) (seq 0 W)).
  { apply (list_eq_map_seq 0).
    - now rewrite map_length.
    - intros t Ht. rewrite map_nth0 by (cbn; lra). rewrite (Hn t Ht).
      unfold A, Bv, Cv, Rsum. cbn [map fold_right]. rewrite !nth_map_seq by exact Ht. cbn [oofZ RO Z.of_nat Pos.of_succ_nat Pos.succ].
      lra. }
  cbn [odiv RO] in Hmean |- *. rewrite Hmx, Hmean, combine_map_same, map_map.
  f_equal.
Qed.

(* an unknown phase id: KeyError *)
Lemma all_some_none {V} (l : list (option V)) : In None l -> all_some l = None.
Proof.
  induction l as [|o l IH]; intro H; [destruct H|].
  destruct o as [v|]; cbn; [|reflexivity].
  destruct H as [H|H]; [discriminate|]. now rewrite IH.
Qed.

Theorem nema_unknown_id (tr : traj (F:=R)) ids x :
  wf tr -> NoDup (t_cindex tr) -> In x ids -> ~ In x (t_cindex tr) -> current_unbalance RO RA tr ids = None.
Proof.
  intros Hwf Hnd Hin Hx.
  destruct (constraint_currents_ok tr false (Some ids) Hwf Hnd) as (_ & _ & Hmiss).
  unfold current_unbalance. rewrite all_some_none; [reflexivity|].
  apply in_map_iff. exists x. split; auto.
Qed.

(* ------------------------------------------------------------------------------------------ *)
(* consistency with the ledger (C02)                                                            *)
(* ------------------------------------------------------------------------------------------ *)
Lemma aggregate_power_rows (tr : traj (F:=R)) :
  Forall (fun row => length row = t_width tr) (t_rates tr) ->
  length (aggregate_power RO RA tr) = t_width tr
  /\ forall t, (t < t_width tr)%nat ->
       nth t (aggregate_power RO RA tr) 0
       = Rsum (map (fun p => fst p * nth t (snd p) 0) (combine (t_volts tr) (t_rates tr))) / 1000.
Proof.
  intro H. unfold aggregate_power.
  destruct (lincomb_spec (t_width tr) (t_volts tr) (t_rates tr) H) as [H1 H2].
  split; [rewrite map_length; exact H1|].
  intros t Ht. cbn [a_power_scale RA]. unfold An_power_scale.
  rewrite map_nth0 by lra. rewrite (H2 t Ht). reflexivity.
Qed.

Lemma nth_nil_R n : nth n (@nil R) 0 = 0.
Proof. destruct n; reflexivity. Qed.

Lemma column_power_nil net : column_power net [] = 0.
Proof. destruct net; reflexivity. Qed.

Lemma skipn_cons_nth (l : list R) k : (k < length l)%nat -> skipn k l = nth k l 0 :: skipn (S k) l.
Proof.
  revert k. induction l as [|x l IH]; intros k H; cbn in H; [lia|].
  destruct k; [reflexivity|]. cbn [skipn nth]. apply IH. lia.
Qed.

Lemma column_power_seq (net : list (stn (F:=R))) : forall k col, length col = (k + length net)%nat ->
  Rsum (map (fun p => fst p * snd p) (combine (map s_volt net) (map (fun s => nth s col 0) (seq k (length net))))) / 1000
  = column_power net (skipn k col).
Proof.
  induction net as [|s net IH]; intros k col Hlen; cbn [length seq map combine].
  - unfold Rsum; cbn. lra.
  - rewrite (skipn_cons_nth col k) by (cbn in Hlen; lia).
    cbn [column_power]. rewrite <- (IH (S k) col) by (cbn in Hlen; lia).
    unfold Rsum; cbn [map fold_right fst snd]. lra.
Qed.

Lemma nth_map_cp net chrono t :
  nth t (map (column_power net) chrono) 0 = column_power net (nth t chrono []).
Proof.
  transitivity (nth t (map (column_power net) chrono) (column_power net [])).
  - f_equal. symmetry. apply column_power_nil.
  - apply map_nth.
Qed.

Lemma station_major_rows chrono n :
  Forall (fun row => length row = length chrono) (station_major chrono n).
Proof. unfold station_major. apply Forall_map. apply Forall_forall. intros s _. apply map_length. Qed.

Lemma aggregate_power_station_major (net : list (stn (F:=R))) chrono (tr : traj (F:=R)) :
  Forall (fun col => length col = length net) chrono ->
  t_width tr = length chrono -> t_rates tr = station_major chrono (length net) -> t_volts tr = map s_volt net ->
  aggregate_power RO RA tr = map (column_power net) chrono.
Proof.
  intros Hcols HW Hr Hv.
  assert (Hrows : Forall (fun row => length row = t_width tr) (t_rates tr))
    by (rewrite Hr, HW; apply station_major_rows).
  destruct (aggregate_power_rows tr Hrows) as [Hl Hn].
  apply (nth_ext _ _ 0 0); [rewrite Hl, map_length; exact HW|].
  intros t Ht. rewrite Hl in Ht. rewrite (Hn t Ht), Hr, Hv.
  rewrite (nth_map_cp net chrono t).
  assert (Hcol : length (nth t chrono []) = (0 + length net)%nat).
  { rewrite Forall_forall in Hcols. apply Hcols. apply nth_In. lia. }
  replace (column_power net (nth t chrono [])) with (column_power net (skipn 0 (nth t chrono []))) by reflexivity.
  rewrite <- (column_power_seq net 0 (nth t chrono []) Hcol).
  f_equal. f_equal. unfold station_major. rewrite !combine_map_r, !map_map.
  apply map_ext. intros [v s]. cbn [fst snd]. f_equal.
  transitivity (nth t (map (fun col => nth s col 0) chrono) (nth s [] 0)).
  - f_equal. symmetry. apply nth_nil_R.
  - apply (map_nth (fun col => nth s col 0)).
Qed.

Theorem analysis_consistent_with_ledger T net ops st (tr : traj (F:=R)) :
  Forall batt_ok (plugged_batts ops) -> simulate RO KR T net ops = Some st ->
  t_width tr = length (rates_by_period st) ->
  t_rates tr = station_major (rates_by_period st) (length net) ->
  t_volts tr = map s_volt net ->
  Permutation (map snd (t_evh tr)) (map e_energy (all_evs st)) ->
  total_energy_delivered RO tr = Rsum (map (fun p => p * (T / 60)) (aggregate_power RO RA tr)).
Proof.
  intros Hb Hrun HW Hr Hv Hperm.
  rewrite total_delivered_ok, (Rsum_perm _ _ Hperm).
  rewrite (total_any (batt R) KR batt_ok KR_laws T net ops st Hb Hrun).
  assert (Hcols : Forall (fun col => length col = length net) (rates_by_period st)).
  { apply Forall_forall. intros col Hin. apply In_nth_error in Hin. destruct Hin as [t Ht].
    destruct (shape_any (batt R) KR batt_ok KR_laws T net ops st Hrun) as (S1 & S2 & _).
    assert (Ho : exists occ, nth_error (occupancy_by_period st) t = Some occ).
    { destruct (nth_error (occupancy_by_period st) t) eqn:E; [eauto|].
      apply nth_error_None in E. assert (t < length (rates_by_period st))%nat by (apply nth_error_Some; congruence). lia. }
    destruct Ho as [occ Ho].
    destruct (vacant_zero_any (batt R) KR batt_ok KR_laws T net ops st Hrun t col occ Ht Ho) as (H1 & _). exact H1. }
  rewrite (aggregate_power_station_major net (rates_by_period st) tr Hcols HW Hr Hv), map_map.
  unfold rates_by_period. apply Rsum_perm. apply Permutation_map. apply Permutation_rev.
Qed.

(* ------------------------------------------------------------------------------------------ *)
(* a concrete well-formed trajectory (non-vacuity)                                              *)
(* ------------------------------------------------------------------------------------------ *)
Lemma analysis_example_wf :
  let tr := mk_traj 2%nat [[16; 0]; [8; 8]; [0; 32]] [208; 240; 277] [(1, 0); (0, 1); (-1, 0)]
                    [10%Z; 11%Z] [[1; 1; 0]; [0; 1; -1]] [(10, 4); (5, 5)] 2%nat 5 true in
  wf tr /\ NoDup (t_cindex tr) /\ nth_error (t_cindex tr) 1 = Some 11%Z /\ requested (Some [11%Z; 10%Z; 11%Z]) 11%Z = true.
Proof.
  cbv zeta. split; [|split; [|split]].
  - unfold wf; cbn. repeat split; repeat constructor.
  - cbn. constructor; [intros [H|[]]; discriminate|]. constructor; [intros []|constructor].
  - reflexivity.
  - reflexivity.
Qed.
