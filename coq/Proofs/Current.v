(* Proofs/Current.v — facts about Model/Current.v.
   Part 1: structural facts with Leibniz equality, for any coefficient type.
   Part 2: the algebra laws over any commutative ring given as a `ring_theory` with a setoid equality
           (instantiated for Q with Qeq, and for Z with eq, at the end). *)
From Coq Require Import List Bool Arith Lia QArith ZArith Setoid Morphisms Ring Permutation.
From ACN Require Import Base.Num Base.ListX Model.Current.
Import ListNotations.

Lemma list_eqb_nat_eq : forall a b : list nat, list_eqb Nat.eqb a b = true -> a = b.
Proof.
  induction a as [|x a IH]; destruct b as [|y b]; simpl; intros H; try discriminate; auto.
  apply andb_true_iff in H. destruct H as [H1 H2]. apply Nat.eqb_eq in H1. f_equal; auto.
Qed.

Lemma smem_In : forall s l, smem s l = true <-> In s l.
Proof.
  intros s l. unfold smem. rewrite existsb_exists. split.
  - intros [x [Hin He]]. apply Nat.eqb_eq in He. subst. exact Hin.
  - intros Hin. exists s. split; auto. apply Nat.eqb_refl.
Qed.

Lemma smem_app : forall s a b, smem s (a ++ b) = smem s a || smem s b.
Proof. intros. unfold smem. apply existsb_app. Qed.

Lemma smem_sort_dedup : forall s l, smem s (sort_dedup Nat.leb Nat.eqb l) = smem s l.
Proof.
  intros s l. change (mem Nat.eqb s (sort_dedup Nat.leb Nat.eqb l) = mem Nat.eqb s l).
  apply mem_sort_dedup.
  intros x y z H1 H2. apply Nat.eqb_eq in H1. apply Nat.eqb_eq in H2. apply Nat.eqb_eq. congruence.
Qed.

Lemma smem_union_keys : forall s ka kb, smem s (union_keys ka kb) = smem s ka || smem s kb.
Proof.
  intros s ka kb. unfold union_keys. destruct (list_eqb Nat.eqb ka kb) eqn:E.
  - apply list_eqb_nat_eq in E. subst. destruct (smem s kb); reflexivity.
  - rewrite smem_sort_dedup. apply smem_app.
Qed.

Set Default Proof Using "Type".
Section Facts.
  Context {A : Type}.
  Variables (zero one : A) (add mul : A -> A -> A) (neg1 : A).

  Notation coeff := (coeff zero).
  Notation cur_add := (cur_add zero add).
  Notation cur_sub := (cur_sub zero add mul neg1).
  Notation reindex_like := (reindex_like zero).

  Lemma lookup_none_iff : forall s (c : current A), lookup s c = None <-> smem s (keys c) = false.
  Proof.
    intros s c. induction c as [|[k v] c IH]; simpl.
    - split; intro; reflexivity.
    - destruct (Nat.eqb s k); simpl.
      + split; intro H; discriminate H.
      + exact IH.
  Qed.

  Lemma lookup_some_smem : forall s (c : current A) v, lookup s c = Some v -> smem s (keys c) = true.
  Proof.
    intros s c v H. destruct (smem s (keys c)) eqn:E; auto.
    apply lookup_none_iff in E. congruence.
  Qed.

  Lemma coeff_absent : forall s (c : current A), smem s (keys c) = false -> coeff c s = zero.
  Proof. intros s c H. unfold Current.coeff. apply lookup_none_iff in H. rewrite H. reflexivity. Qed.

  Lemma lookup_map_keys : forall (f : station -> A) ks s,
    lookup s (map (fun k => (k, f k)) ks) = if smem s ks then Some (f s) else None.
  Proof.
    intros f ks s. induction ks as [|k ks IH]; simpl; auto.
    destruct (Nat.eqb s k) eqn:E; simpl.
    - apply Nat.eqb_eq in E. subst. reflexivity.
    - exact IH.
  Qed.

  Lemma keys_map_keys : forall (f : station -> A) ks, keys (map (fun k => (k, f k)) ks) = ks.
  Proof. intros. unfold keys. rewrite map_map. simpl. apply map_id. Qed.

  Lemma keys_cur_add : forall a b : current A, keys (cur_add a b) = union_keys (keys a) (keys b).
  Proof. intros. unfold Current.cur_add. apply keys_map_keys. Qed.

  Lemma keys_cur_mul : forall (a : current A) k, keys (cur_mul mul a k) = keys a.
  Proof. intros. unfold cur_mul, keys. rewrite map_map. reflexivity. Qed.

  Lemma keys_reindex_like : forall a r : current A, keys (reindex_like a r) = keys a.
  Proof. intros. unfold Current.reindex_like, keys. rewrite map_map. reflexivity. Qed.

  (* exact values, Leibniz *)
  Lemma coeff_cur_add : forall (a b : current A) s,
    coeff (cur_add a b) s =
    if smem s (keys a) || smem s (keys b) then add (coeff a s) (coeff b s) else zero.
  Proof.
    intros a b s. unfold Current.coeff at 1, Current.cur_add.
    rewrite lookup_map_keys, smem_union_keys.
    destruct (smem s (keys a) || smem s (keys b)); reflexivity.
  Qed.

  Lemma lookup_cur_mul : forall (a : current A) k s,
    lookup s (cur_mul mul a k) = option_map (fun v => mul v k) (lookup s a).
  Proof.
    intros a k s. induction a as [|[x v] a IH]; simpl; auto.
    destruct (Nat.eqb s x); simpl; auto.
  Qed.

  Lemma coeff_cur_mul : forall (a : current A) k s,
    coeff (cur_mul mul a k) s = if smem s (keys a) then mul (coeff a s) k else zero.
  Proof.
    intros a k s. unfold Current.coeff. rewrite lookup_cur_mul.
    destruct (lookup s a) eqn:E; simpl.
    - rewrite (lookup_some_smem _ _ _ E). reflexivity.
    - apply lookup_none_iff in E. rewrite E. reflexivity.
  Qed.

  Lemma coeff_reindex_like : forall (a r : current A) s,
    coeff (reindex_like a r) s = if smem s (keys a) then coeff r s else zero.
  Proof.
    intros a r s. unfold Current.coeff at 1, Current.reindex_like.
    replace (map (fun p : station * A => (fst p, Current.coeff zero r (fst p))) a)
      with (map (fun k => (k, Current.coeff zero r k)) (keys a)).
    - rewrite lookup_map_keys. destruct (smem s (keys a)); reflexivity.
    - unfold keys. rewrite map_map. reflexivity.
  Qed.

  (* constructor forms *)
  Lemma smem_dedup_first : forall s l seen,
    smem s (dedup_first seen l) = smem s l && negb (smem s seen).
  Proof.
    intros s l. induction l as [|x l IH]; intros seen; simpl; auto.
    destruct (smem x seen) eqn:Ex.
    - rewrite IH. destruct (Nat.eqb s x) eqn:E; simpl; auto.
      apply Nat.eqb_eq in E. subst. rewrite Ex. simpl. apply andb_false_r.
    - simpl. rewrite IH. simpl. destruct (Nat.eqb s x) eqn:E; simpl.
      + apply Nat.eqb_eq in E. subst. rewrite Ex. reflexivity.
      + reflexivity.
  Qed.

  Lemma coeff_cur_list : forall l s,
    coeff (cur_list one l) s = if smem s l then one else zero.
  Proof.
    intros l s. unfold Current.coeff, cur_list.
    rewrite (lookup_map_keys (fun _ => one)). rewrite smem_dedup_first. simpl.
    rewrite andb_true_r. destruct (smem s l); reflexivity.
  Qed.

  Lemma keys_cur_list_nodup : forall l, NoDup (keys (cur_list one l)).
  Proof.
    intros l. unfold cur_list. rewrite (keys_map_keys (fun _ => one)).
    assert (H : forall l seen, NoDup (dedup_first seen l) /\
                               forall x, In x (dedup_first seen l) -> ~ In x seen).
    { clear l. induction l as [|x l IH]; intros seen; simpl.
      - split; [constructor | intros x []].
      - destruct (smem x seen) eqn:Ex.
        + apply IH.
        + destruct (IH (x :: seen)) as [N Hd]. split.
          * constructor; auto. intro Hin. apply (Hd x Hin). left; reflexivity.
          * intros y [Hy | Hy].
            -- subst. intro Hin. apply smem_In in Hin. congruence.
            -- intro Hin. apply (Hd y Hy). right; exact Hin. }
    apply H.
  Qed.

  Lemma coeff_cur_str : forall t s, coeff (cur_str one t) s = if Nat.eqb s t then one else zero.
  Proof. intros. unfold Current.coeff, cur_str. simpl. destruct (Nat.eqb s t); reflexivity. Qed.

  (* the order in which stations are listed in a dict / Series does not matter *)
  Lemma lookup_perm : forall (c c' : current A) s,
    NoDup (keys c) -> Permutation c c' -> lookup s c = lookup s c'.
  Proof.
    intros c c' s Hn Hp. induction Hp as [| [k v] l l' Hp IH | [k1 v1] [k2 v2] l | l1 l2 l3 H12 IH12 H23 IH23].
    - reflexivity.
    - simpl. destruct (Nat.eqb s k); auto. apply IH. simpl in Hn. inversion Hn; auto.
    - simpl. destruct (Nat.eqb s k2) eqn:E2, (Nat.eqb s k1) eqn:E1; auto.
      apply Nat.eqb_eq in E1. apply Nat.eqb_eq in E2. subst.
      simpl in Hn. inversion Hn as [|? ? Hnot _]. exfalso. apply Hnot. left; reflexivity.
    - rewrite IH12; auto. apply IH23.
      unfold keys in *. eapply Permutation_NoDup; [apply Permutation_map; exact H12 | exact Hn].
  Qed.

  Lemma coeff_perm : forall (c c' : current A) s,
    NoDup (keys c) -> Permutation c c' -> coeff c s = coeff c' s.
  Proof. intros. unfold Current.coeff. erewrite lookup_perm; eauto. Qed.
End Facts.

(* ------------------------------------------------------------------------------------------ *)
Section Algebra.
  Set Default Proof Using "Rsth Reqe Rth".
  Context {A : Type}.
  Variables (rO rI : A) (radd rmul rsub : A -> A -> A) (ropp : A -> A) (req : A -> A -> Prop).
  Hypothesis Rsth : Equivalence req.
  Hypothesis Reqe : ring_eq_ext radd rmul ropp req.
  Hypothesis Rth : ring_theory rO rI radd rmul rsub ropp req.

  Add Ring Aring : Rth (setoid Rsth Reqe).

  Local Instance radd_proper : Proper (req ==> req ==> req) radd.
  Proof. exact (Radd_ext Reqe). Qed.
  Local Instance rmul_proper : Proper (req ==> req ==> req) rmul.
  Proof. exact (Rmul_ext Reqe). Qed.
  Local Instance ropp_proper : Proper (req ==> req) ropp.
  Proof. exact (Ropp_ext Reqe). Qed.

  Notation "x == y" := (req x y) (at level 70, no associativity).
  Notation neg1 := (ropp rI).
  Notation coeff := (coeff rO).
  Notation cur_add := (cur_add rO radd).
  Notation cur_sub := (cur_sub rO radd rmul neg1).
  Notation cur_mul := (cur_mul rmul).
  Notation denote := (denote rO rI radd rmul neg1).
  Notation ceval := (ceval rO rI radd rmul neg1).
  Notation inplace_lossless := (inplace_lossless rO rI radd rmul neg1).

  Lemma alg_add : forall (a b : current A) s, coeff (cur_add a b) s == radd (coeff a s) (coeff b s).
  Proof.
    intros a b s. rewrite coeff_cur_add.
    destruct (smem s (keys a)) eqn:Ea; simpl; [reflexivity|].
    destruct (smem s (keys b)) eqn:Eb; simpl; [reflexivity|].
    rewrite (coeff_absent rO s a Ea), (coeff_absent rO s b Eb). ring.
  Qed.

  Lemma alg_scale : forall (a : current A) k s, coeff (cur_mul a k) s == rmul (coeff a s) k.
  Proof.
    intros a k s. rewrite coeff_cur_mul.
    destruct (smem s (keys a)) eqn:Ea; [reflexivity|].
    rewrite (coeff_absent rO s a Ea). ring.
  Qed.

  Lemma alg_scale_left : forall (a : current A) k s, coeff (cur_mul a k) s == rmul k (coeff a s).
  Proof. intros. rewrite alg_scale. ring. Qed.

  Lemma alg_sub : forall (a b : current A) s, coeff (cur_sub a b) s == rsub (coeff a s) (coeff b s).
  Proof.
    intros a b s. unfold Current.cur_sub. rewrite alg_add, alg_scale. ring.
  Qed.

  Lemma ceval_sub_form : forall x y, radd x (rmul y neg1) == rsub x y.
  Proof. intros. ring. Qed.

  (* every tree, when in-place statements rebind (or are lossless): the coefficient is the pointwise value *)
  Lemma alg_tree : forall m e s, inplace_lossless m e = true -> coeff (denote m e) s == ceval e s.
  Proof.
    intros m e s. induction e as
      [ | t | l | l | l | a IHa b IHb | a IHa b IHb | a IHa k | k a IHa | l a IHa | a IHa l
        | a IHa b IHb | a IHa b IHb | a IHa k ]; simpl; intros HL;
      try reflexivity.
    - apply andb_true_iff in HL. destruct HL as [Ha Hb].
      rewrite alg_add, (IHa Ha), (IHb Hb). reflexivity.
    - apply andb_true_iff in HL. destruct HL as [Ha Hb].
      unfold Current.cur_sub. rewrite alg_add, alg_scale, (IHa Ha), (IHb Hb). reflexivity.
    - rewrite alg_scale, (IHa HL). reflexivity.
    - rewrite alg_scale, (IHa HL). reflexivity.
    - rewrite alg_add, (IHa HL). reflexivity.
    - rewrite alg_add, (IHa HL). reflexivity.
    - (* a += b *)
      destruct m; simpl in *.
      + apply andb_true_iff in HL. destruct HL as [HL Hk]. apply andb_true_iff in HL. destruct HL as [Ha Hb].
        rewrite coeff_reindex_like.
        destruct (smem s (keys (denote InplaceReindex a))) eqn:Es.
        * rewrite alg_add, (IHa Ha), (IHb Hb). reflexivity.
        * rewrite <- (IHa Ha), <- (IHb Hb).
          rewrite (coeff_absent rO s _ Es).
          assert (Eb : smem s (keys (denote InplaceReindex b)) = false).
          { destruct (smem s (keys (denote InplaceReindex b))) eqn:Eb; auto.
            rewrite forallb_forall in Hk. apply smem_In in Eb. specialize (Hk s Eb). congruence. }
          rewrite (coeff_absent rO s _ Eb). ring.
      + apply andb_true_iff in HL. destruct HL as [HL _]. apply andb_true_iff in HL. destruct HL as [Ha Hb].
        rewrite alg_add, (IHa Ha), (IHb Hb). reflexivity.
    - (* a -= b *)
      destruct m; simpl in *.
      + apply andb_true_iff in HL. destruct HL as [HL Hk]. apply andb_true_iff in HL. destruct HL as [Ha Hb].
        rewrite coeff_reindex_like.
        destruct (smem s (keys (denote InplaceReindex a))) eqn:Es.
        * unfold Current.cur_sub. rewrite alg_add, alg_scale, (IHa Ha), (IHb Hb). reflexivity.
        * rewrite <- (IHa Ha), <- (IHb Hb).
          rewrite (coeff_absent rO s _ Es).
          assert (Eb : smem s (keys (denote InplaceReindex b)) = false).
          { destruct (smem s (keys (denote InplaceReindex b))) eqn:Eb; auto.
            rewrite forallb_forall in Hk. apply smem_In in Eb. specialize (Hk s Eb). congruence. }
          rewrite (coeff_absent rO s _ Eb). ring.
      + apply andb_true_iff in HL. destruct HL as [HL _]. apply andb_true_iff in HL. destruct HL as [Ha Hb].
        unfold Current.cur_sub. rewrite alg_add, alg_scale, (IHa Ha), (IHb Hb). reflexivity.
    - (* a *= k : pandas' in-place path, same index, nothing can be lost *)
      rewrite coeff_reindex_like.
      destruct (smem s (keys (denote m a))) eqn:Es.
      + rewrite alg_scale, (IHa HL). reflexivity.
      + rewrite <- (IHa HL). rewrite (coeff_absent rO s _ Es). ring.
  Qed.

  Lemma lossless_rebind : forall e, inplace_lossless InplaceRebind e = true.
  Proof.
    induction e; simpl; auto; try (rewrite IHe1, IHe2; reflexivity).
  Qed.

  Lemma alg_tree_rebind : forall e s, coeff (denote InplaceRebind e) s == ceval e s.
  Proof. intros. apply alg_tree. apply lossless_rebind. Qed.

  (* the stations of a Current are among those its expression mentions *)
  Lemma keys_mentioned : forall m e s, smem s (keys (denote m e)) = true -> In s (emention e).
  Proof using Type.
    intros m e. induction e as
      [ | t | l | l | l | a IHa b IHb | a IHa b IHb | a IHa k | k a IHa | l a IHa | a IHa l
        | a IHa b IHb | a IHa b IHb | a IHa k ]; simpl; intros s H.
    - discriminate.
    - rewrite orb_false_r in H. apply Nat.eqb_eq in H. auto.
    - unfold cur_list in H. rewrite (keys_map_keys (fun _ => rI)) in H.
      rewrite smem_dedup_first in H. apply andb_true_iff in H. apply smem_In. tauto.
    - apply smem_In. exact H.
    - apply smem_In. exact H.
    - rewrite keys_cur_add, smem_union_keys in H. apply in_or_app. apply orb_true_iff in H.
      destruct H; [left; apply IHa | right; apply IHb]; auto.
    - unfold Current.cur_sub in H. rewrite keys_cur_add, smem_union_keys, keys_cur_mul in H.
      apply in_or_app. apply orb_true_iff in H. destruct H; [left; apply IHa | right; apply IHb]; auto.
    - rewrite keys_cur_mul in H. auto.
    - rewrite keys_cur_mul in H. auto.
    - rewrite keys_cur_add, smem_union_keys in H. apply in_or_app. apply orb_true_iff in H.
      destruct H; [left; apply IHa; auto | right; apply smem_In; exact H].
    - rewrite keys_cur_add, smem_union_keys in H. apply in_or_app. apply orb_true_iff in H.
      destruct H; [left; apply IHa; auto | right; apply smem_In; exact H].
    - apply in_or_app. destruct m; simpl in H.
      + rewrite keys_reindex_like in H. left; auto.
      + rewrite keys_cur_add, smem_union_keys in H. apply orb_true_iff in H.
        destruct H; [left; apply IHa | right; apply IHb]; auto.
    - apply in_or_app. destruct m; simpl in H.
      + rewrite keys_reindex_like in H. left; auto.
      + unfold Current.cur_sub in H. rewrite keys_cur_add, smem_union_keys, keys_cur_mul in H.
        apply orb_true_iff in H. destruct H; [left; apply IHa | right; apply IHb]; auto.
    - rewrite keys_reindex_like in H. auto.
  Qed.
End Algebra.
Set Default Proof Using "Type".

(* ------------------------------------------------------------------------------------------ *)
(* instance: Q with Qeq *)
Open Scope Q_scope.

Lemma Q_reqe : ring_eq_ext Qplus Qmult Qopp Qeq.
Proof.
  constructor.
  - intros x x' Hx y y' Hy. rewrite Hx, Hy. reflexivity.
  - intros x x' Hx y y' Hy. rewrite Hx, Hy. reflexivity.
  - intros x x' Hx. rewrite Hx. reflexivity.
Qed.

Definition qadd_law := alg_add 0 1 Qplus Qmult Qminus Qopp Qeq Q_Setoid Q_reqe Qsrt.
Definition qscale_law := alg_scale 0 1 Qplus Qmult Qminus Qopp Qeq Q_Setoid Q_reqe Qsrt.
Definition qscale_left_law := alg_scale_left 0 1 Qplus Qmult Qminus Qopp Qeq Q_Setoid Q_reqe Qsrt.
Definition qsub_law := alg_sub 0 1 Qplus Qmult Qminus Qopp Qeq Q_Setoid Q_reqe Qsrt.
Definition qtree_law := alg_tree 0 1 Qplus Qmult Qminus Qopp Qeq Q_Setoid Q_reqe Qsrt.
Definition qtree_rebind_law := alg_tree_rebind 0 1 Qplus Qmult Qminus Qopp Qeq Q_Setoid Q_reqe Qsrt.

(* the in-place sum as Python executes it today loses the station the left operand lacks *)
Definition inplace_witness : cexpr Q := EIadd (EStr 0%nat) (EDict [(0%nat, 1); (1%nat, 2)]).

Lemma inplace_refuted :
  exists (e : cexpr Q) (s : station),
    ~ qcoeff (qdenote InplaceReindex e) s == qceval e s.
Proof.
  exists inplace_witness, 1%nat. vm_compute. intro H. discriminate H.
Qed.

Lemma inplace_witness_values :
  qcoeff (qdenote InplaceReindex inplace_witness) 1%nat == 0 /\ qceval inplace_witness 1%nat == 2
  /\ qcoeff (qdenote InplaceRebind inplace_witness) 1%nat == 2.
Proof. vm_compute. repeat split; intro H; discriminate H. Qed.

(* the class as it is in the tree under test: Gen/C12Shape.v says whether it defines += / -= itself *)
Lemma qtree_repo_law : forall (e : cexpr Q) s, qcoeff (qdenote repo_inplace_mode e) s == qceval e s.
Proof. exact qtree_rebind_law. Qed.
