(* Proofs/FeasBig.v — the BigQ evaluation of the feasibility check returns exactly the boolean of the
   Q definition (Preproc.feas_rows), for every row list and every rate vector. *)
From Coq Require Import ZArith QArith List Bool Setoid Morphisms.
From Bignums Require Import BigZ BigQ.
From ACN Require Import Base.Num Model.Preproc Model.FeasBig.
Import ListNotations.
Open Scope Q_scope.

Lemma Qle_bool_compare x y :
  Qle_bool x y = match x ?= y with Gt => false | _ => true end.
Proof. unfold Qle_bool, Qcompare, Z.leb. reflexivity. Qed.

Lemma bq_leb_spec a b : bq_leb a b = Qle_bool (BigQ.to_Q a) (BigQ.to_Q b).
Proof. unfold bq_leb. rewrite BigQ.spec_compare, Qle_bool_compare. reflexivity. Qed.

Lemma bdot_spec a x :
  BigQ.to_Q (bdot (map BigQ.of_Q a) (map BigQ.of_Q x)) == dot a x.
Proof.
  revert x; induction a as [|ai a IH]; intros [|xi x]; simpl; try reflexivity.
  rewrite BigQ.spec_add, BigQ.spec_mul, !BigQ.spec_of_Q, IH. reflexivity.
Qed.

Lemma brow_ok_spec x r :
  brow_ok (map BigQ.of_Q x)
          {| br_re := map BigQ.of_Q (cr_re r); br_im := map BigQ.of_Q (cr_im r);
             br_rhs := BigQ.of_Q (feas_rhs (cr_lim r)) |}
  = row_ok x r.
Proof.
  unfold brow_ok, row_ok, norm_within, Qleb; cbn [br_re br_im br_rhs].
  rewrite !bq_leb_spec.
  f_equal.
  - apply Qleb_comp. reflexivity. apply BigQ.spec_of_Q.
  - apply Qleb_comp.
    + rewrite BigQ.spec_add, !BigQ.spec_mul, !bdot_spec. reflexivity.
    + rewrite BigQ.spec_mul, !BigQ.spec_of_Q. reflexivity.
Qed.

Theorem feas_big_correct rows x : feas_big (big_rows rows) x = feas_rows rows x.
Proof.
  unfold feas_big, feas_rows, big_rows.
  induction rows as [|r rows IH]; cbn [map forallb]; auto.
  rewrite brow_ok_spec. f_equal. exact IH.
Qed.

Corollary feas_big_feasQ inf x : feas_big (big_rows (prep_rows inf)) x = feasQ inf x.
Proof. apply feas_big_correct. Qed.
