(* Proofs/HeapQ.v — the heap invariant and the multiset behaviour of the exact heapq model
   (Model/HeapQ.v), for any item type and any comparison `lt` that is asymmetric and whose
   negation is transitive (a strict weak order).  Axiom-free. *)
From Coq Require Import List Arith Bool Lia Permutation ZArith ZifyBool ZifyNat.
From ACN Require Import Base.ListX Model.HeapQ.
Import ListNotations.
Ltac Zify.zify_post_hook ::= Z.to_euclidean_division_equations.

Section HeapProofs.
  Variable A : Type.
  Variable lt : A -> A -> bool.
  Variable d : A.
  Hypothesis lt_asym : forall x y, lt x y = true -> lt y x = false.
  Hypothesis nlt_trans : forall x y z, lt y x = false -> lt z y = false -> lt z x = false.

  (* x <= y  is  "not y < x" *)
  Local Notation le x y := (lt y x = false).
  Local Notation parent i := ((i - 1) / 2).

  (* the heapq invariant: heap[(i-1)//2] <= heap[i] for every i > 0 *)
  Definition is_heap (h : list A) : Prop :=
    forall i, 0 < i < length h -> le (nth (parent i) h d) (nth i h d).

  Lemma lt_irrefl x : lt x x = false.
  Proof. destruct (lt x x) eqn:E; auto. now rewrite (lt_asym _ _ E) in E. Qed.

  Lemma lt_le x y : lt x y = true -> le x y.
  Proof. apply lt_asym. Qed.

  Lemma is_heap_nil : is_heap [].
  Proof. intros i Hi; simpl in Hi; lia. Qed.

  (* ------------------------------------------------------------------ the root is minimal *)
  Lemma heap_root_min h : is_heap h -> forall i, i < length h -> le (nth 0 h d) (nth i h d).
  Proof.
    intros Hh i. induction i as [i IH] using lt_wf_ind. intros Hi.
    destruct (Nat.eq_dec i 0) as [->|Hn]; [apply lt_irrefl|].
    assert (Hp : parent i < i) by lia.
    eapply nlt_trans; [apply IH; [exact Hp | lia] | apply Hh; lia].
  Qed.

  Lemma heap_root_min_In h : is_heap h -> forall y, In y h -> le (nth 0 h d) y.
  Proof.
    intros Hh y Hy. destruct (In_nth _ _ d Hy) as (i & Hi & <-). now apply heap_root_min.
  Qed.

  (* ------------------------------------------------------------------ multiset bookkeeping *)
  Lemma upd_perm h : forall i x, i < length h -> Permutation (nth i h d :: upd i x h) (x :: h).
  Proof.
    induction h as [|a h IH]; intros [|i] x Hi; simpl in *; try lia.
    - apply perm_swap.
    - eapply perm_trans; [apply perm_swap|].
      eapply perm_trans; [apply perm_skip, IH; lia|]. apply perm_swap.
  Qed.

  (* "x is being carried, position pos is free": the final array will be a permutation of T *)
  Definition carried (h : list A) (pos : nat) (x : A) (T : list A) : Prop :=
    Permutation (x :: h) (nth pos h d :: T).

  Lemma carried_fill h pos x T : pos < length h -> carried h pos x T -> Permutation (upd pos x h) T.
  Proof.
    intros Hp Hc. apply Permutation_cons_inv with (a := nth pos h d).
    eapply perm_trans; [apply upd_perm; exact Hp | exact Hc].
  Qed.

  Lemma carried_move h pos j x T :
    pos < length h -> j <> pos -> carried h pos x T -> carried (upd pos (nth j h d) h) j x T.
  Proof.
    unfold carried. intros Hp Hj Hc. rewrite nth_upd_other by auto.
    apply Permutation_cons_inv with (a := nth pos h d).
    eapply perm_trans; [apply perm_swap|].
    eapply perm_trans; [apply perm_skip, upd_perm; exact Hp|].
    eapply perm_trans; [apply perm_swap|].
    eapply perm_trans; [apply perm_skip; exact Hc|]. apply perm_swap.
  Qed.

  (* ------------------------------------------------------------------ _siftdown *)
  (* a heap with a hole at pos, carrying x: everything is ordered except the edges that touch
     pos; the children of pos dominate x and pos's parent *)
  Definition hole (h : list A) (pos : nat) (x : A) : Prop :=
    (forall i, 0 < i < length h -> i <> pos -> parent i <> pos -> le (nth (parent i) h d) (nth i h d)) /\
    (forall i, 0 < i < length h -> parent i = pos -> le x (nth i h d)) /\
    (forall i, 0 < i < length h -> parent i = pos -> 0 < pos -> le (nth (parent pos) h d) (nth i h d)).

  Lemma hole_fill h pos x :
    pos < length h -> hole h pos x -> (pos = 0 \/ le (nth (parent pos) h d) x) -> is_heap (upd pos x h).
  Proof.
    intros Hp (Ha & Hb & Hc) Hx i Hi. rewrite upd_length in Hi.
    destruct (Nat.eq_dec i pos) as [->|Hne].
    - rewrite nth_upd_same by auto. rewrite nth_upd_other by lia. destruct Hx as [->|Hx]; [lia|exact Hx].
    - rewrite (nth_upd_other pos i) by auto.
      destruct (Nat.eq_dec (parent i) pos) as [He|Hne2].
      + rewrite He, nth_upd_same by auto. now apply Hb.
      + rewrite nth_upd_other by auto. now apply Ha.
  Qed.

  Lemma hole_step h pos x :
    0 < pos < length h -> hole h pos x -> lt x (nth (parent pos) h d) = true ->
    hole (upd pos (nth (parent pos) h d) h) (parent pos) x.
  Proof.
    intros Hp (Ha & Hb & Hc) Hlt.
    assert (Hpp : parent pos < pos) by lia.
    repeat split; intros i Hi; rewrite upd_length in Hi.
    - intros Hne Hne2.
      assert (i <> pos) by (intros ->; apply Hne2; reflexivity).
      rewrite (nth_upd_other pos i) by auto.
      destruct (Nat.eq_dec (parent i) pos) as [He|Hne3].
      + rewrite He, nth_upd_same by lia. apply Hc; auto; lia.
      + rewrite nth_upd_other by auto. apply Ha; auto.
    - intros He.
      destruct (Nat.eq_dec i pos) as [->|Hne].
      + rewrite nth_upd_same by lia. now apply lt_le.
      + rewrite nth_upd_other by auto.
        eapply nlt_trans; [apply lt_le, Hlt|]. rewrite <- He. apply Ha; auto; lia.
    - intros He Hpos.
      rewrite (nth_upd_other pos (parent (parent pos))) by lia.
      assert (Hgp : le (nth (parent (parent pos)) h d) (nth (parent pos) h d)) by (apply Ha; lia).
      destruct (Nat.eq_dec i pos) as [->|Hne].
      + rewrite nth_upd_same by lia. exact Hgp.
      + rewrite nth_upd_other by auto.
        eapply nlt_trans; [exact Hgp|]. rewrite <- He. apply Ha; auto; lia.
  Qed.

  Lemma siftdown_loop_length fuel : forall h x sp pos,
    length (siftdown_loop lt d fuel h x sp pos) = length h.
  Proof.
    induction fuel as [|fuel IH]; intros; cbn [siftdown_loop]; [apply upd_length|].
    destruct (sp <? pos); [|apply upd_length].
    destruct (lt x _); [rewrite IH|]; apply upd_length.
  Qed.

  Lemma siftdown_loop_heap fuel : forall h x pos,
    pos <= fuel -> pos < length h -> hole h pos x -> is_heap (siftdown_loop lt d fuel h x 0 pos).
  Proof.
    induction fuel as [|fuel IH]; intros h x pos Hf Hp Hh; cbn [siftdown_loop].
    - apply hole_fill; auto. left; lia.
    - destruct (0 <? pos) eqn:E.
      + apply Nat.ltb_lt in E.
        destruct (lt x (nth (parent pos) h d)) eqn:L.
        * apply IH; [lia | rewrite upd_length; lia | apply hole_step; auto].
        * apply hole_fill; auto.
      + apply Nat.ltb_ge in E. apply hole_fill; auto. left; lia.
  Qed.

  Lemma siftdown_loop_perm T fuel : forall h x sp pos,
    pos < length h -> carried h pos x T -> Permutation (siftdown_loop lt d fuel h x sp pos) T.
  Proof.
    induction fuel as [|fuel IH]; intros h x sp pos Hp Hc; cbn [siftdown_loop].
    - now apply carried_fill.
    - destruct (sp <? pos) eqn:E; [|now apply carried_fill].
      apply Nat.ltb_lt in E.
      destruct (lt x (nth (parent pos) h d)); [|now apply carried_fill].
      apply IH; [rewrite upd_length; lia|]. apply carried_move; auto. lia.
  Qed.

  Lemma siftdown_perm h sp pos : pos < length h -> Permutation (siftdown lt d h sp pos) h.
  Proof. intros Hp. apply siftdown_loop_perm; auto. unfold carried. reflexivity. Qed.

  (* ------------------------------------------------------------------ _siftup, first phase *)
  (* a heap whose position pos is free (its old content has been copied to its parent) *)
  Definition free_at (h : list A) (pos : nat) : Prop :=
    (forall i, 0 < i < length h -> i <> pos -> parent i <> pos -> le (nth (parent i) h d) (nth i h d)) /\
    (forall i, 0 < i < length h -> parent i = pos -> 0 < pos -> le (nth (parent pos) h d) (nth i h d)).

  Lemma free_leaf_hole h pos x : free_at h pos -> length h <= 2 * pos + 1 -> hole h pos x.
  Proof.
    intros (Ha & Hc) Hleaf. repeat split; auto.
    intros i Hi He. exfalso. lia.
  Qed.

  Lemma hole_upd_pos h pos x y : hole h pos x -> hole (upd pos y h) pos x.
  Proof.
    intros (Ha & Hb & Hc). repeat split; intros i Hi; rewrite upd_length in Hi.
    - intros H1 H2. rewrite !nth_upd_other by auto. now apply Ha.
    - intros He. rewrite nth_upd_other by lia. now apply Hb.
    - intros He Hpos. rewrite !nth_upd_other by lia. now apply Hc.
  Qed.

  Lemma free_step h pos c :
    pos < length h -> c < length h -> parent c = pos -> 0 < c ->
    (forall i, 0 < i < length h -> parent i = pos -> le (nth c h d) (nth i h d)) ->
    free_at h pos -> free_at (upd pos (nth c h d) h) c.
  Proof.
    intros Hp Hc Hpc Hc0 Hmin (Ha & Hg).
    split; intros i Hi; rewrite upd_length in Hi.
    - intros Hne Hne2.
      destruct (Nat.eq_dec i pos) as [->|Hne3].
      + rewrite nth_upd_same by auto. rewrite nth_upd_other by lia.
        apply Hg; auto; lia.
      + rewrite (nth_upd_other pos i) by auto.
        destruct (Nat.eq_dec (parent i) pos) as [He|Hne4].
        * rewrite He, nth_upd_same by auto. now apply Hmin.
        * rewrite nth_upd_other by auto. now apply Ha.
    - intros He _. rewrite Hpc, nth_upd_same by auto.
      rewrite nth_upd_other by lia. rewrite <- He. apply Ha; auto; lia.
  Qed.

  Lemma siftup_loop_spec x T fuel : forall h pos,
    pos < length h -> length h <= pos + fuel -> free_at h pos -> carried h pos x T ->
    let '(h1, pos1) := siftup_loop lt d fuel h (length h) pos (2 * pos + 1) in
    length h1 = length h /\ pos1 < length h /\ length h <= 2 * pos1 + 1 /\
    free_at h1 pos1 /\ carried h1 pos1 x T.
  Proof.
    induction fuel as [|fuel IH]; intros h pos Hp Hf Hfree Hcar; cbn [siftup_loop].
    - repeat split; auto; try lia; apply Hfree.
    - destruct (2 * pos + 1 <? length h) eqn:E.
      2:{ apply Nat.ltb_ge in E. repeat split; auto; try lia; apply Hfree. }
      apply Nat.ltb_lt in E.
      set (c := if (2 * pos + 1 + 1 <? length h) &&
                   negb (lt (nth (2 * pos + 1) h d) (nth (2 * pos + 1 + 1) h d))
                then 2 * pos + 1 + 1 else 2 * pos + 1).
      assert (Hc : c < length h /\ parent c = pos /\ 0 < c /\
                   forall i, 0 < i < length h -> parent i = pos -> le (nth c h d) (nth i h d)).
      { subst c. destruct (2 * pos + 1 + 1 <? length h) eqn:E2; cbn [andb].
        - apply Nat.ltb_lt in E2.
          destruct (lt (nth (2 * pos + 1) h d) (nth (2 * pos + 1 + 1) h d)) eqn:L; cbn [negb].
          + split; [lia|]. split; [lia|]. split; [lia|]. intros i Hi He.
            assert (Hi2 : i = 2 * pos + 1 \/ i = 2 * pos + 1 + 1) by lia.
            destruct Hi2 as [-> | ->]; [apply lt_irrefl | now apply lt_le].
          + split; [lia|]. split; [lia|]. split; [lia|]. intros i Hi He.
            assert (Hi2 : i = 2 * pos + 1 \/ i = 2 * pos + 1 + 1) by lia.
            destruct Hi2 as [-> | ->]; [exact L | apply lt_irrefl].
        - apply Nat.ltb_ge in E2. split; [lia|]. split; [lia|]. split; [lia|]. intros i Hi He.
          assert (i = 2 * pos + 1) by lia. subst i. apply lt_irrefl. }
      destruct Hc as (Hc1 & Hc2 & Hc3 & Hc4).
      specialize (IH (upd pos (nth c h d) h) c).
      rewrite upd_length in IH.
      assert (Hpc : pos < c) by lia.
      specialize (IH Hc1 ltac:(lia) (free_step h pos c Hp Hc1 Hc2 Hc3 Hc4 Hfree)
                     (carried_move h pos c x T Hp ltac:(lia) Hcar)).
      destruct (siftup_loop lt d fuel (upd pos (nth c h d) h) (length h) c (2 * c + 1)) as [h1 pos1].
      exact IH.
  Qed.

  (* everything is ordered except possibly the edges leaving the root *)
  Definition heap_below_root (h : list A) : Prop :=
    forall i, 0 < i < length h -> parent i <> 0 -> le (nth (parent i) h d) (nth i h d).

  Lemma siftup_root h :
    0 < length h -> heap_below_root h ->
    is_heap (siftup lt d h 0) /\ Permutation (siftup lt d h 0) h.
  Proof.
    intros Hl Hb. unfold siftup.
    assert (Hfree : free_at h 0).
    { split; intros i Hi; [intros _ Hne; now apply Hb | intros _ Hpos; lia]. }
    assert (Hcar : carried h 0 (nth 0 h d) h) by (unfold carried; reflexivity).
    pose proof (siftup_loop_spec (nth 0 h d) h (length h) h 0 Hl ltac:(lia) Hfree Hcar) as Hs.
    change (2 * 0 + 1) with 1 in *.
    destruct (siftup_loop lt d (length h) h (length h) 0 1) as [h1 pos1].
    destruct Hs as (Hlen & Hp1 & Hleaf & Hfree1 & Hcar1).
    rewrite <- Hlen in Hp1, Hleaf.
    unfold siftdown. rewrite nth_upd_same by auto.
    split.
    - apply siftdown_loop_heap; [lia | rewrite upd_length; auto |].
      apply hole_upd_pos. now apply free_leaf_hole.
    - apply siftdown_loop_perm; [rewrite upd_length; auto|].
      unfold carried. rewrite nth_upd_same by auto. apply perm_skip.
      now apply carried_fill.
  Qed.

  (* ------------------------------------------------------------------ heappush / heappop *)
  Theorem heappush_heap h x : is_heap h -> is_heap (heappush lt d h x).
  Proof.
    intros Hh. unfold heappush, siftdown.
    assert (Hlen : length (h ++ [x]) - 1 = length h) by (rewrite app_length; simpl; lia).
    rewrite Hlen.
    apply siftdown_loop_heap; [lia | rewrite app_length; simpl; lia |].
    repeat split; intros i Hi; rewrite app_length in Hi; simpl in Hi.
    - intros H1 H2. rewrite !app_nth1 by lia. apply Hh. lia.
    - intros He. exfalso. lia.
    - intros He. exfalso. lia.
  Qed.

  Theorem heappush_perm h x : Permutation (heappush lt d h x) (x :: h).
  Proof.
    unfold heappush.
    eapply perm_trans; [apply siftdown_perm; rewrite app_length; simpl; lia|].
    apply Permutation_sym, Permutation_cons_append.
  Qed.

  Theorem heappush_length h x : length (heappush lt d h x) = S (length h).
  Proof. apply Permutation_length with (l' := x :: h), heappush_perm. Qed.

  Lemma is_heap_prefix h t : is_heap (h ++ t) -> is_heap h.
  Proof.
    intros Hh i Hi. specialize (Hh i). rewrite app_length in Hh.
    rewrite !app_nth1 in Hh by lia. apply Hh. lia.
  Qed.

  Theorem heappop_none h : heappop lt d h = None <-> h = [].
  Proof.
    destruct h as [|a t]; [simpl; tauto|]. split; [|discriminate].
    unfold heappop. destruct (removelast (a :: t)); discriminate.
  Qed.

  Theorem heappop_some h : is_heap h -> h <> [] ->
    exists x h', heappop lt d h = Some (x, h') /\
                 x = nth 0 h d /\ is_heap h' /\ Permutation h (x :: h') /\
                 (forall y, In y h -> lt y x = false).
  Proof.
    intros Hh Hne.
    assert (Hmin : forall y, In y h -> lt y (nth 0 h d) = false) by (apply heap_root_min_In; auto).
    destruct h as [|a t]; [congruence|]. clear Hne.
    unfold heappop.
    pose proof (@app_removelast_last _ (a :: t) d ltac:(discriminate)) as Hsplit.
    set (l := last (a :: t) d) in *. set (hr := removelast (a :: t)) in *.
    destruct hr as [|r t'] eqn:Ehr.
    - exists l, []. simpl in Hsplit. rewrite Hsplit in *. simpl in *.
      repeat split; auto using is_heap_nil.
    - exists r, (siftup lt d (upd 0 l (r :: t')) 0).
      assert (Hr : nth 0 (a :: t) d = r) by (rewrite Hsplit; reflexivity).
      rewrite Hr in Hmin.
      assert (Hhr : is_heap (r :: t')) by (apply is_heap_prefix with (t := [l]); rewrite <- Hsplit; exact Hh).
      destruct (siftup_root (upd 0 l (r :: t'))) as (H1 & H2).
      + simpl; lia.
      + intros i Hi Hp. rewrite upd_length in Hi. rewrite !nth_upd_other by lia. apply Hhr; auto.
      + repeat split; auto.
        rewrite Hsplit.
        eapply perm_trans; [apply Permutation_sym, Permutation_cons_append|].
        eapply perm_trans; [|apply perm_skip, Permutation_sym, H2].
        apply Permutation_sym. apply (upd_perm (r :: t') 0 l). simpl; lia.
  Qed.

  (* the documented heapq contract, in one statement *)
  Theorem heapq_contract_sec h : is_heap h ->
    (forall x, is_heap (heappush lt d h x) /\ Permutation (heappush lt d h x) (x :: h)) /\
    (heappop lt d h = None <-> h = []) /\
    (h <> [] -> exists x h', heappop lt d h = Some (x, h') /\
                             is_heap h' /\ Permutation h (x :: h') /\
                             (forall y, In y h -> lt y x = false)).
  Proof.
    intros Hh. split; [|split].
    - intros x. split; [now apply heappush_heap | apply heappush_perm].
    - apply heappop_none.
    - intros Hne. destruct (heappop_some h Hh Hne) as (x & h' & H1 & _ & H2 & H3 & H4).
      exists x, h'. auto.
  Qed.
End HeapProofs.

Definition heapq_contract := heapq_contract_sec.
