(* Proofs/StochNetGen.v — the hand-written model (Model/StochNet.v) IS the interpretation of the
   control skeletons regenerated from the Python source (Model/StochNetGen.v over
   Gen/StochNet_Z.v), for every state and every argument.  If a guard, a counter update, the
   order of the calls or a branch of plugin / unplug / post_charging_update / available_evses /
   ChargingNetwork.plugin changes in the repository, Gen/StochNet_Z.v changes and these proofs
   stop compiling.  No axioms. *)
From Coq Require Import ZArith List Bool String Arith Lia.
From ACN Require Import Base.Num Gen.EvseZ_Z Gen.StochNet_Z Model.StochNet Model.StochNetGen
                        Proofs.StochNet.
Import ListNotations.
Open Scope Z_scope.
Open Scope list_scope.

Lemma gen_available_eq l : gen_available l = available l.
Proof.
  assert (E : forall p : Z * option Z, SN_available_filter (snd p) = is_none (snd p))
    by (intros [k [y|]]; reflexivity).
  unfold gen_available, available. now rewrite (filter_ext _ _ E).
Qed.

Lemma gen_base_plugin_eq st y : gen_base_plugin st y = base_plugin st y.
Proof.
  unfold gen_base_plugin, base_plugin.
  destruct (ev_station st y) as [s|]; [|reflexivity].
  destruct (zassoc s (evses st)) as [occ|]; [|reflexivity].
  cbn. destruct (BaseEVSE_plugin occ y); reflexivity.
Qed.

Lemma zremove_app x a b : zremove x (a ++ b) = zremove x a ++ zremove x b.
Proof. unfold zremove. apply filter_app. Qed.

Lemma gen_plugin_eq ch st x : gen_plugin ch st x = net_plugin ch st x.
Proof.
  unfold gen_plugin, net_plugin. rewrite gen_available_eq.
  destruct (0 <? Z.of_nat (List.length (available (evses st)))) eqn:E.
  - unfold SN_plugin. rewrite E. cbn. unfold arg0. cbn. now rewrite gen_base_plugin_eq.
  - unfold SN_plugin. rewrite E. cbn. unfold arg0. cbn.
    destruct (zmem x (queue st)) eqn:M; unfold zmem in M; rewrite M.
    + reflexivity.
    + cbn. fold (zremove x (queue st ++ [x])). rewrite zremove_app. cbn. rewrite Z.eqb_refl. cbn.
      now rewrite <- app_assoc.
Qed.

Lemma base_plugin_early_unplug st x st' :
  base_plugin st x = Ok st' -> early_unplug st' = early_unplug st /\ swaps st' = swaps st.
Proof.
  unfold base_plugin. destruct (ev_station st x); [|discriminate].
  destruct (zassoc _ _); [|discriminate].
  destruct (BaseEVSE_plugin _ _); intro R; inversion R; subst; simpl; auto.
Qed.

Lemma net_unplug_early_unplug st sid x st' :
  net_unplug st sid x = Ok st' -> early_unplug st' = early_unplug st.
Proof.
  unfold net_unplug. destruct (zmem x (queue st)).
  - intro R; inversion R; subst; reflexivity.
  - destruct sid as [s|]; [|discriminate].
    destruct (zassoc s (evses st)) as [[y|]|]; try discriminate.
    + destruct (Z.eqb x y).
      * cbn [queue set_gone set_evses]. destruct (0 <? _).
        -- destruct (queue st) as [|h t].
           ++ intro R; inversion R; subst; reflexivity.
           ++ destruct (base_plugin _ h) as [st3|] eqn:B; [|discriminate].
              apply base_plugin_early_unplug in B. simpl in B. destruct B as [B _].
              intro R; inversion R; subst; simpl. exact B.
        -- intro R; inversion R; subst; reflexivity.
      * intro R; inversion R; subst; reflexivity.
    + intro R; inversion R; subst; reflexivity.
Qed.

Lemma gen_unplug_eq st sid x : gen_unplug st sid x = net_unplug st sid x.
Proof.
  unfold gen_unplug, net_unplug, SN_unplug.
  destruct (zmem x (queue st)) eqn:M.
  - cbn. unfold arg0. cbn. destruct st; reflexivity.
  - destruct sid as [s|]; [|reflexivity].
    destruct (zassoc s (evses st)) as [[y|]|] eqn:Z; [| |reflexivity].
    + destruct (Z.eqb x y) eqn:E.
      * cbn [queue set_gone set_evses].
        destruct (queue st) as [|h t] eqn:Q.
        -- cbn. destruct st; cbn in *; subst; reflexivity.
        -- cbn [List.length hd]. 
           replace (0 <? Z.of_nat (S (List.length t))) with true by (symmetry; apply Z.ltb_lt; lia).
           cbn. unfold arg0. cbn. rewrite Q. cbn. rewrite gen_base_plugin_eq.
           match goal with |- context [base_plugin ?a h] => destruct (base_plugin a h) as [st3|m] eqn:B end.
           ++ pose proof (base_plugin_early_unplug _ _ _ B) as [_ S]. cbn in S.
              pose proof (base_plugin_frame _ _ _ B) as [_ [_ [_ [_ N]]]]. cbn in N.
              rewrite <- S, <- N. destruct st3; reflexivity.
           ++ reflexivity.
      * cbn. destruct st; reflexivity.
    + cbn. destruct st; reflexivity.
Qed.

Lemma gen_post_one_eq acc y : gen_post_one acc y = post_one acc y.
Proof.
  unfold gen_post_one, post_one, SN_post_body. destruct acc as [st|m]; [|reflexivity].
  destruct (0 <? Z.of_nat (List.length (queue st))) eqn:E.
  - cbn. rewrite gen_unplug_eq.
    destruct (net_unplug st (ev_station st y) y) as [st1|m] eqn:U; [|reflexivity].
    now rewrite (net_unplug_early_unplug _ _ _ _ U).
  - cbn. destruct st; reflexivity.
Qed.

Lemma selected_eq full l :
  flat_map (fun p : Z * option Z =>
      if SN_post_selected (snd p) (match snd p with Some y => zmem y full | None => false end)
      then match snd p with Some y => [y] | None => [] end else []) l
  = filter (fun y => zmem y full) (occupants l).
Proof.
  induction l as [|[k o] l IH]; [reflexivity|].
  unfold occupants in *. simpl flat_map. rewrite IH. rewrite filter_app.
  destruct o as [y|]; simpl; [|reflexivity].
  destruct (zmem y full); reflexivity.
Qed.

Lemma gen_post_eq st full : gen_post st full = net_post st full.
Proof.
  unfold gen_post, net_post, SN_post_enabled. destruct (early st); [|reflexivity].
  rewrite selected_eq. generalize (filter (fun y => zmem y full) (occupants (evses st))). intro l.
  generalize (Ok st). induction l as [|y l IH]; intro acc; simpl; auto.
  now rewrite gen_post_one_eq, IH.
Qed.

Lemma gen_step_eq ch st e : gen_step ch st e = step ch st e.
Proof.
  destruct e; cbn; [apply gen_plugin_eq|apply gen_unplug_eq|apply gen_post_eq].
Qed.
