(* Proofs/Ledger.v — lemmas and proofs for C02 (energy ledger).
   Part 1: the three regenerated battery kernels obey the consistency law
           charge' - charge = rate * V / 1000 * (T / 60).
   Part 2: the regenerated scalar kernels (R instance KR) satisfy the interface laws.
   Part 3: R is an instance of the field-generic invariant proof (Proofs/LedgerField.v: for ANY kernel
           record satisfying the laws, every run keeps the ledger invariants; induction over the ops).
   Part 4: instantiation with KR. *)
From Coq Require Import ZArith Reals Lra List Bool Lia Permutation.
From ACN Require Import Base.Num Base.NumR Base.ListX Gen.Evse_R Gen.EvseZ_Z Gen.Battery_R Gen.Ledger_R
                        Model.Ledger Model.LedgerR Proofs.LedgerField.
Import ListNotations.
Open Scope R_scope.

(* ------------------------------------------------------------------------------------------ *)
(* Part 1: battery kernels                                                                     *)
(* ------------------------------------------------------------------------------------------ *)
Lemma battery_consistent_ideal cap cur pw mp p v t o :
  Battery_charge cap cur pw mp p v t = OkS o ->
  0 < v /\ 0 < t /\
  Battery_charge__current_charge o - cur = Battery_charge_ret o * v / 1000 * (t / 60).
Proof.
  unfold Battery_charge.
  destruct (Rleb v 0) eqn:Ev; [discriminate|]. apply Rleb_false in Ev.
  destruct (Rleb t 0) eqn:Et; [discriminate|]. apply Rleb_false in Et.
  cbv zeta. intro H; inversion H; subst; clear H. cbn [Battery_charge__current_charge Battery_charge_ret].
  repeat split; try lra.
  set (cp := Rmin _ _). field. lra.
Qed.

Lemma battery_consistent_stepwise cap cur pw mp nl ts p v t n n2 o :
  L2_charge_stepwise cap cur pw mp nl ts p v t n n2 = OkS o ->
  0 < v /\ 0 < t /\
  L2_charge_stepwise__current_charge o - cur = L2_charge_stepwise_ret o * v / 1000 * (t / 60).
Proof.
  unfold L2_charge_stepwise.
  destruct (Rleb v 0) eqn:Ev; [discriminate|]. apply Rleb_false in Ev.
  destruct (Rleb t 0) eqn:Et; [discriminate|]. apply Rleb_false in Et.
  cbv zeta. intro H; inversion H; subst; clear H.
  cbn [L2_charge_stepwise__current_charge L2_charge_stepwise_ret].
  repeat split; try lra.
  match goal with |- cur + ?c * _ - cur = _ => set (cp := c) end. field. lra.
Qed.

Lemma battery_consistent_continuous cap cur pw mp nl ts p v t n o :
  cap <> 0 ->
  L2_charge cap cur pw mp nl ts p v t n = OkS o ->
  0 < v /\ 0 < t /\
  L2_charge__current_charge o - cur = L2_charge_ret o * v / 1000 * (t / 60).
Proof.
  intro Hcap. unfold L2_charge.
  destruct (Rleb v 0) eqn:Ev; [discriminate|]. apply Rleb_false in Ev.
  destruct (Rleb t 0) eqn:Et; [discriminate|]. apply Rleb_false in Et.
  destruct (Reqb p 0) eqn:Ep.
  - cbv zeta. intro H; inversion H; subst; clear H. cbn [L2_charge__current_charge L2_charge_ret].
    repeat split; try lra.
  - cbv zeta. intro H; inversion H; subst; clear H. cbn [L2_charge__current_charge L2_charge_ret].
    repeat split; try lra.
    match goal with |- ?s * cap - cur = _ => set (soc' := s) end.
    field. repeat split; lra.
Qed.

(* ------------------------------------------------------------------------------------------ *)
(* Part 2: laws of the regenerated kernels                                                     *)
(* ------------------------------------------------------------------------------------------ *)
Lemma KR_set_pilot_ok ev p v t :
  set_pilot_R ev p v t true = Some (match ev with None => None | Some _ => Some (p, v, t) end).
Proof. destruct ev; reflexivity. Qed.

Lemma KR_set_pilot_bad ev p v t : set_pilot_R ev p v t false = None.
Proof. reflexivity. Qed.

Lemma KR_ev_charge e p v t r : ev_charge_R e p v t r = (r, e + r * v / 1000 * (t / 60), r).
Proof. reflexivity. Qed.

Lemma KR_rate_elt o d : CN_current_rate_elt o d = match o with Some _ => d | None => 0 end.
Proof. destruct o; reflexivity. Qed.

Lemma KR_peak a b : Sim_peak_update a b = Rmax a b.
Proof. reflexivity. Qed.

Lemma KR_peak_init : Sim_peak_init = 0.
Proof. reflexivity. Qed.

Lemma KR_bstep b p v t n r b' :
  batt_ok b -> batt_step_R b p v t n = Some (r, b') ->
  batt_ok b' /\ b_cur b' - b_cur b = r * v / 1000 * (t / 60).
Proof.
  unfold batt_ok, batt_step_R. destruct b as [k cap cur pw mp nl ts]; cbn [b_kind b_cap b_cur b_pow b_maxp b_noise b_tsoc].
  destruct k; intros Hok.
  - destruct (Battery_charge cap cur pw mp p v t) as [o|] eqn:E; [|discriminate].
    intro H; inversion H; subst; clear H. cbn. split; auto.
    apply battery_consistent_ideal in E. tauto.
  - destruct (L2_charge cap cur pw mp nl ts p v t (fst n)) as [o|] eqn:E; [|discriminate].
    intro H; inversion H; subst; clear H. cbn. split; auto.
    apply battery_consistent_continuous in E; tauto.
  - destruct (L2_charge_stepwise cap cur pw mp nl ts p v t (fst n) (snd n)) as [o|] eqn:E; [|discriminate].
    intro H; inversion H; subst; clear H. cbn. split; auto.
    apply battery_consistent_stepwise in E. tauto.
Qed.

(* ------------------------------------------------------------------------------------------ *)
(* R is an instance of the field-generic development (Proofs/LedgerField.v)                     *)
(* ------------------------------------------------------------------------------------------ *)
Lemma Rsum_app a b : Rsum (a ++ b) = Rsum a + Rsum b.
Proof.
  unfold Rsum. induction a as [|x a IH]; cbn [app fold_right]; [lra|]. rewrite IH. lra.
Qed.

Lemma Rsum_perm a b : Permutation a b -> Rsum a = Rsum b.
Proof.
  induction 1 as [|x l l' _ IH|x y l|l l' l'' _ IH1 _ IH2]; unfold Rsum in *; cbn [fold_right] in *; lra.
Qed.

Lemma RO_ring : ring_theory (o0 RO) (o1 RO) (oadd RO) (omul RO) (osub RO) (fopp R RO) (@eq R).
Proof. constructor; intros; unfold fopp; cbn [o0 o1 oadd omul osub RO]; ring. Qed.

Lemma RO_div : forall a b, odiv RO a b = omul RO a (/ b).
Proof. reflexivity. Qed.

(* the R-flavoured law record (Model/LedgerR.v) is the field-generic one *)
Lemma kern_laws_to_F {B} (K : kern R B) bwf : kern_laws K bwf -> kern_laws_F R RO K bwf.
Proof.
  intros [H1 H2 H3 H4 H5 H6 H7]. constructor; auto.
Qed.

Lemma column_energy_power T (net : list (stn (F:=R))) : forall col,
  column_energy RO T net col = column_power net col * (T / 60).
Proof.
  induction net as [|s net IH]; intros [|r col]; cbn [column_energy column_power]; try (cbn; lra).
  rewrite IH. unfold energy_of. cbn [oadd omul odiv oofZ RO]. lra.
Qed.

(* ------------------------------------------------------------------------------------------ *)
(* characterisation of the accumulated peak                                                    *)
(* ------------------------------------------------------------------------------------------ *)
Lemma peak_of_spec (cs : list (list R)) :
  0 <= peak_of RO cs
  /\ (forall c, In c cs -> Rsum c <= peak_of RO cs)
  /\ (peak_of RO cs = 0 \/ exists c, In c cs /\ peak_of RO cs = Rsum c).
Proof.
  induction cs as [|c cs IH].
  - cbn. split; [lra|]. split; [intros c []|now left].
  - destruct IH as (H0 & Hle & Hatt).
    change (peak_of RO (c :: cs)) with (Rmax (peak_of RO cs) (Rsum c)).
    destruct (Rmax_cases (peak_of RO cs) (Rsum c)) as [[Hc Hm]|[Hc Hm]]; rewrite Hm.
    + split; [lra|]. split.
      * intros c' [<-|Hin]; [lra|]. specialize (Hle _ Hin). lra.
      * right. exists c. split; [now left|reflexivity].
    + split; [lra|]. split.
      * intros c' [<-|Hin]; [lra|]. now apply Hle.
      * destruct Hatt as [Hz|[c' [Hin He]]]; [now left|]. right. exists c'. split; [now right|exact He].
Qed.

(* ------------------------------------------------------------------------------------------ *)
(* Part 4: the regenerated kernels                                                              *)
(* ------------------------------------------------------------------------------------------ *)
(* ------------------------------------------------------------------------------------------ *)
(* Part 4: the regenerated kernels satisfy the laws; packaged statements                        *)
(* ------------------------------------------------------------------------------------------ *)
Lemma KR_laws : kern_laws KR batt_ok.
Proof.
  constructor.
  - exact KR_set_pilot_ok.
  - exact KR_set_pilot_bad.
  - exact KR_ev_charge.
  - exact KR_bstep.
  - exact KR_rate_elt.
  - exact KR_peak.
  - exact KR_peak_init.
Qed.

Section Packaged.
  Variable B : Type.
  Variable K : kern R B.
  Variable bwf : B -> Prop.
  Hypothesis L : kern_laws K bwf.
  Let LF := kern_laws_to_F K bwf L.

  Lemma ledger_any (T : R) net ops st :
    NoDup (plugged_sids ops) -> Forall bwf (plugged_batts ops) ->
    simulate RO K T net ops = Some st ->
    forall e, In e (all_evs st) ->
      e_energy e = ledger_sum RO T net (cols st) (occs st) (e_sid e)
      /\ exists c0, init_charge K ops (e_sid e) = Some c0 /\ e_energy e = k_bcharge K (e_batt e) - c0.
  Proof. exact (ledger_field R RO Rinv RO_ring RO_div B K bwf LF T net ops st). Qed.

  Lemma vacant_zero_any (T : R) net ops st :
    simulate RO K T net ops = Some st ->
    forall t col occ,
      nth_error (rates_by_period st) t = Some col -> nth_error (occupancy_by_period st) t = Some occ ->
      length col = length net /\ length occ = length net /\
      forall i, nth_error occ i = Some None -> nth_error col i = Some 0.
  Proof. exact (vacant_zero_field R RO Rinv RO_ring RO_div B K bwf LF T net ops st). Qed.

  Lemma shape_any (T : R) net ops st :
    simulate RO K T net ops = Some st ->
    length (rates_by_period st) = n_steps ops /\ length (occupancy_by_period st) = n_steps ops
    /\ length (evs st) = length net.
  Proof. exact (shape_field R RO Rinv RO_ring RO_div B K bwf LF T net ops st). Qed.

  Lemma peak_any (T : R) net ops st :
    simulate RO K T net ops = Some st -> peak st = peak_of RO (cols st).
  Proof. exact (peak_field R RO Rinv RO_ring RO_div B K bwf LF T net ops st). Qed.

  Lemma total_any (T : R) net ops st :
    Forall bwf (plugged_batts ops) ->
    simulate RO K T net ops = Some st ->
    Rsum (map e_energy (all_evs st)) = Rsum (map (fun col => column_power net col * (T / 60)) (cols st)).
  Proof.
    intros Hb Hrun.
    pose proof (total_field R RO Rinv RO_ring RO_div B K bwf LF T net ops st Hb Hrun) as H.
    change (fsum RO) with Rsum in H. rewrite H. f_equal. apply map_ext. intro col. apply column_energy_power.
  Qed.
End Packaged.

(* the reported peak: max(0, max over periods of the recorded aggregate current) *)
Lemma peak_char B (K : kern R B) bwf (L : kern_laws K bwf) T net ops st :
  simulate RO K T net ops = Some st ->
  0 <= peak st
  /\ (forall col, In col (rates_by_period st) -> Rsum col <= peak st)
  /\ (peak st = 0 \/ exists col, In col (rates_by_period st) /\ peak st = Rsum col).
Proof.
  intro H. rewrite (peak_any B K bwf L T net ops st H).
  destruct (peak_of_spec (cols st)) as (H0 & Hle & Hatt). unfold rates_by_period.
  split; [exact H0|]. split.
  - intros col Hin. apply Hle. now apply in_rev.
  - destruct Hatt as [Hz|[c [Hin He]]]; [now left|]. right. exists c. split; [|exact He].
    now apply -> in_rev.
Qed.

(* when no recorded aggregate is negative and at least one period was simulated, the peak IS the maximum *)
Lemma peak_is_max B (K : kern R B) bwf (L : kern_laws K bwf) T net ops st :
  simulate RO K T net ops = Some st ->
  rates_by_period st <> [] ->
  (forall col, In col (rates_by_period st) -> 0 <= Rsum col) ->
  (exists col, In col (rates_by_period st) /\ peak st = Rsum col)
  /\ (forall col, In col (rates_by_period st) -> Rsum col <= peak st).
Proof.
  intros H Hne Hpos. destruct (peak_char B K bwf L T net ops st H) as (H0 & Hle & Hatt).
  split; [|exact Hle].
  destruct Hatt as [Hz|Hex]; [|exact Hex].
  destruct (rates_by_period st) as [|c r] eqn:E; [congruence|].
  exists c. split; [now left|].
  assert (Hc : In c (c :: r)) by now left.
  specialize (Hle _ Hc). specialize (Hpos _ Hc). lra.
Qed.

(* ------------------------------------------------------------------------------------------ *)
(* a concrete run (non-vacuity of the hypotheses)                                               *)
(* ------------------------------------------------------------------------------------------ *)
Lemma ex_batt : Battery_charge 10 2 0 50 16 208 15
  = OkS {| Battery_charge_ret := 16; Battery_charge__current_charge := 2 + 832/1000;
           Battery_charge__current_charging_power := 3328/1000 |}.
Proof.
  unfold Battery_charge.
  replace (Rleb 208 0) with false by (symmetry; apply Rleb_false; lra).
  replace (Rleb 15 0) with false by (symmetry; apply Rleb_false; lra).
  cbv zeta.
  replace (Rmin (Rmin (16 * 208 / 1000) 50) ((10 - 2) / (15 / 60))) with (3328/1000).
  2:{ unfold Rmin. repeat destruct (Rle_dec _ _); lra. }
  f_equal. f_equal; lra.
Qed.

Lemma ledger_example :
  let net := [mk_stn 0%Z 208 (fun _ => true)] in
  let ops := [Plugin 0%Z 7%Z (mk_batt BIdeal 10 2 0 50 0 0);
              Step [16] []; Unplug 0%Z 7%Z; Step [16] []] in
  NoDup (plugged_sids ops) /\ Forall batt_ok (plugged_batts ops) /\
  exists st, simulate RO KR 15 net ops = Some st
             /\ map e_sid (all_evs st) = [7%Z]
             /\ rates_by_period st = [[16]; [0]]
             /\ occupancy_by_period st = [[Some 7%Z]; [None]]
             /\ Rsum (map e_energy (all_evs st)) = 832 / 1000.
Proof.
  intros net ops. split; [|split].
  - cbn. constructor; [intros []|constructor].
  - cbn. constructor; [exact I|constructor].
  - eexists. split.
    + unfold simulate, ops, net. cbn -[Battery_charge]. unfold charge_ev. cbn -[Battery_charge].
      rewrite ex_batt. cbn. reflexivity.
    + cbn. repeat split; try reflexivity. lra.
Qed.
