(* Proofs/Ledger.v — lemmas and proofs for C02 (energy ledger).
   Part 1: the three regenerated battery kernels obey the consistency law
           charge' - charge = rate * V / 1000 * (T / 60).
   Part 2: the regenerated scalar kernels (R instance KR) satisfy the interface laws.
   Part 3: for ANY kernel record satisfying the laws, every run of the ledger state machine keeps
           the ledger invariants (induction over the operation sequence).
   Part 4: instantiation with KR. *)
From Coq Require Import ZArith Reals Lra List Bool Lia Permutation.
From ACN Require Import Base.Num Base.NumR Base.ListX Gen.Evse_R Gen.EvseZ_Z Gen.Battery_R Gen.Ledger_R
                        Model.Ledger Model.LedgerR.
Import ListNotations.
Open Scope R_scope.

(* ------------------------------------------------------------------------------------------ *)
(* Part 1: battery kernels                                                                     *)
(* ------------------------------------------------------------------------------------------ *)
Lemma battery_consistent_ideal cap cur pw mp p v t o :
  Battery_charge cap cur pw mp p v t = OkS o ->
  0 < v /\ 0 < t /\
  Battery_charge__current_charge o - cur = Battery_charge_ret o * v / 1000 * (t / 60).
Proof.
  unfold Battery_charge.
  destruct (Rleb v 0) eqn:Ev; [discriminate|]. apply Rleb_false in Ev.
  destruct (Rleb t 0) eqn:Et; [discriminate|]. apply Rleb_false in Et.
  cbv zeta. intro H; inversion H; subst; clear H. cbn [Battery_charge__current_charge Battery_charge_ret].
  repeat split; try lra.
  set (cp := Rmin _ _). field. lra.
Qed.

Lemma battery_consistent_stepwise cap cur pw mp nl ts p v t n n2 o :
  L2_charge_stepwise cap cur pw mp nl ts p v t n n2 = OkS o ->
  0 < v /\ 0 < t /\
  L2_charge_stepwise__current_charge o - cur = L2_charge_stepwise_ret o * v / 1000 * (t / 60).
Proof.
  unfold L2_charge_stepwise.
  destruct (Rleb v 0) eqn:Ev; [discriminate|]. apply Rleb_false in Ev.
  destruct (Rleb t 0) eqn:Et; [discriminate|]. apply Rleb_false in Et.
  cbv zeta. intro H; inversion H; subst; clear H.
  cbn [L2_charge_stepwise__current_charge L2_charge_stepwise_ret].
  repeat split; try lra.
  match goal with |- cur + ?c * _ - cur = _ => set (cp := c) end. field. lra.
Qed.

Lemma battery_consistent_continuous cap cur pw mp nl ts p v t n o :
  cap <> 0 ->
  L2_charge cap cur pw mp nl ts p v t n = OkS o ->
  0 < v /\ 0 < t /\
  L2_charge__current_charge o - cur = L2_charge_ret o * v / 1000 * (t / 60).
Proof.
  intro Hcap. unfold L2_charge.
  destruct (Rleb v 0) eqn:Ev; [discriminate|]. apply Rleb_false in Ev.
  destruct (Rleb t 0) eqn:Et; [discriminate|]. apply Rleb_false in Et.
  destruct (Reqb p 0) eqn:Ep.
  - cbv zeta. intro H; inversion H; subst; clear H. cbn [L2_charge__current_charge L2_charge_ret].
    repeat split; try lra.
  - cbv zeta. intro H; inversion H; subst; clear H. cbn [L2_charge__current_charge L2_charge_ret].
    repeat split; try lra.
    match goal with |- ?s * cap - cur = _ => set (soc' := s) end.
    field. repeat split; lra.
Qed.

(* ------------------------------------------------------------------------------------------ *)
(* Part 2: laws of the regenerated kernels                                                     *)
(* ------------------------------------------------------------------------------------------ *)
Lemma KR_set_pilot_ok ev p v t :
  set_pilot_R ev p v t true = Some (match ev with None => None | Some _ => Some (p, v, t) end).
Proof. destruct ev; reflexivity. Qed.

Lemma KR_set_pilot_bad ev p v t : set_pilot_R ev p v t false = None.
Proof. reflexivity. Qed.

Lemma KR_ev_charge e p v t r : ev_charge_R e p v t r = (r, e + r * v / 1000 * (t / 60), r).
Proof. reflexivity. Qed.

Lemma KR_rate_elt o d : CN_current_rate_elt o d = match o with Some _ => d | None => 0 end.
Proof. destruct o; reflexivity. Qed.

Lemma KR_peak a b : Sim_peak_update a b = Rmax a b.
Proof. reflexivity. Qed.

Lemma KR_peak_init : Sim_peak_init = 0.
Proof. reflexivity. Qed.

Lemma KR_bstep b p v t n r b' :
  batt_ok b -> batt_step_R b p v t n = Some (r, b') ->
  batt_ok b' /\ b_cur b' - b_cur b = r * v / 1000 * (t / 60).
Proof.
  unfold batt_ok, batt_step_R. destruct b as [k cap cur pw mp nl ts]; cbn [b_kind b_cap b_cur b_pow b_maxp b_noise b_tsoc].
  destruct k; intros Hok.
  - destruct (Battery_charge cap cur pw mp p v t) as [o|] eqn:E; [|discriminate].
    intro H; inversion H; subst; clear H. cbn. split; auto.
    apply battery_consistent_ideal in E. tauto.
  - destruct (L2_charge cap cur pw mp nl ts p v t (fst n)) as [o|] eqn:E; [|discriminate].
    intro H; inversion H; subst; clear H. cbn. split; auto.
    apply battery_consistent_continuous in E; tauto.
  - destruct (L2_charge_stepwise cap cur pw mp nl ts p v t (fst n) (snd n)) as [o|] eqn:E; [|discriminate].
    intro H; inversion H; subst; clear H. cbn. split; auto.
    apply battery_consistent_stepwise in E. tauto.
Qed.

(* ------------------------------------------------------------------------------------------ *)
(* small list facts                                                                            *)
(* ------------------------------------------------------------------------------------------ *)
Lemma Rsum_app a b : Rsum (a ++ b) = Rsum a + Rsum b.
Proof.
  unfold Rsum. induction a as [|x a IH]; cbn [app fold_right]; [lra|]. rewrite IH. lra.
Qed.

Lemma Rsum_perm a b : Permutation a b -> Rsum a = Rsum b.
Proof.
  induction 1 as [|x l l' _ IH|x y l|l l' l'' _ IH1 _ IH2]; unfold Rsum in *; cbn [fold_right] in *; lra.
Qed.

Lemma Forall2_rev {A C} (P : A -> C -> Prop) a b : Forall2 P a b -> Forall2 P (rev a) (rev b).
Proof.
  induction 1; cbn; [constructor|]. apply Forall2_app; auto.
Qed.

Lemma Forall2_len {A C} (P : A -> C -> Prop) a b : Forall2 P a b -> length a = length b.
Proof. induction 1; cbn; auto. Qed.

Lemma Forall2_nth_error_ex {A C} (P : A -> C -> Prop) a b n y :
  Forall2 P a b -> nth_error b n = Some y -> exists x, nth_error a n = Some x /\ P x y.
Proof.
  intro H; revert n; induction H; intros [|n] Hn; cbn in *; try discriminate.
  - inversion Hn; subst. eauto.
  - eauto.
Qed.

Lemma Forall2_nth_error {A C} (P : A -> C -> Prop) a b n x y :
  Forall2 P a b -> nth_error a n = Some x -> nth_error b n = Some y -> P x y.
Proof.
  intros H Ha Hb. destruct (Forall2_nth_error_ex P a b n y H Hb) as [x' [Hx' HP]]. congruence.
Qed.

(* ------------------------------------------------------------------------------------------ *)
(* Part 3: generic ledger invariants                                                           *)
(* ------------------------------------------------------------------------------------------ *)
Section Generic.
  Variable B : Type.
  Variable K : kern R B.
  Variable bwf : B -> Prop.
  Hypothesis L_set_pilot_ok : forall ev p v t,
    k_set_pilot K ev p v t true = Some (match ev with None => None | Some _ => Some (p, v, t) end).
  Hypothesis L_set_pilot_bad : forall ev p v t, k_set_pilot K ev p v t false = None.
  Hypothesis L_ev_charge : forall e p v t r, k_ev_charge K e p v t r = (r, e + r * v / 1000 * (t / 60), r).
  Hypothesis L_bstep : forall b p v t n r b', bwf b -> k_bstep K b p v t n = Some (r, b') ->
    bwf b' /\ k_bcharge K b' - k_bcharge K b = r * v / 1000 * (t / 60).
  Hypothesis L_rate_elt : forall o d, k_rate_elt K o d = match o with Some _ => d | None => 0 end.
  Hypothesis L_peak : forall a b, k_peak K a b = Rmax a b.
  Hypothesis L_peak_init : k_peak_init K = 0.

  Variable T : R.

  Notation ev := (@Ledger.ev R B).
  Notation op := (@Ledger.op R B).
  Notation state := (@Ledger.state R B).
  Notation stn := (@Ledger.stn R).

  Definition conn (l : list (option ev)) : list ev :=
    flat_map (fun o => match o with Some e => [e] | None => [] end) l.
  Definition tag (e : ev) : Z * R := (e_sid e, k_bcharge K (e_batt e) - e_energy e).
  Definition ebwf (e : ev) : Prop := bwf (e_batt e).
  Definition esum (x : Z) (l : list ev) : R :=
    Rsum (map (fun e => if Z.eqb (e_sid e) x then e_energy e else 0) l).
  Definition etot (l : list ev) : R := Rsum (map e_energy l).
  Definition init_tags (ops : list op) : list (Z * R) :=
    flat_map (fun o => match o with Plugin _ sid b => [(sid, k_bcharge K b)] | _ => [] end) ops.
  Lemma connected_conn (st : state) : connected st = conn (evs st).
  Proof. reflexivity. Qed.

  Lemma esum_app x a b : esum x (a ++ b) = esum x a + esum x b.
  Proof. unfold esum. rewrite map_app, Rsum_app. reflexivity. Qed.
  Lemma esum_perm x a b : Permutation a b -> esum x a = esum x b.
  Proof. intro H. unfold esum. apply Rsum_perm. now apply Permutation_map. Qed.
  Lemma etot_app a b : etot (a ++ b) = etot a + etot b.
  Proof. unfold etot. rewrite map_app, Rsum_app. reflexivity. Qed.
  Lemma etot_perm a b : Permutation a b -> etot a = etot b.
  Proof. intro H. unfold etot. apply Rsum_perm. now apply Permutation_map. Qed.

  (* with distinct session ids the per-session sum picks out the one EV of that session *)
  Lemma esum_cons x a l :
    esum x (a :: l) = (if Z.eqb (e_sid a) x then e_energy a else 0) + esum x l.
  Proof. reflexivity. Qed.

  Lemma esum_notin x l : ~ In x (map e_sid l) -> esum x l = 0.
  Proof.
    induction l as [|c l IH]; intro Hn; [reflexivity|]. rewrite esum_cons.
    destruct (Z.eqb_spec (e_sid c) x) as [Heq|Hne].
    - exfalso. apply Hn. left. exact Heq.
    - rewrite IH; [lra|]. intro Hc. apply Hn. right. exact Hc.
  Qed.

  Lemma esum_unique l : NoDup (map e_sid l) -> forall e, In e l -> esum (e_sid e) l = e_energy e.
  Proof.
    induction l as [|a l IH]; intros Hnd e Hin; [destruct Hin|].
    cbn in Hnd. inversion Hnd as [|? ? Hnotin Hnd']; subst.
    rewrite esum_cons. destruct Hin as [->|Hin].
    - rewrite Z.eqb_refl, esum_notin by exact Hnotin. lra.
    - destruct (Z.eqb_spec (e_sid a) (e_sid e)) as [Heq|Hne].
      + exfalso. apply Hnotin. rewrite Heq. now apply in_map.
      + rewrite IH by auto. lra.
  Qed.

  (* ---------------- one EV.charge ---------------- *)
  Lemma charge_ev_spec e p v t n e' :
    ebwf e -> charge_ev K e p v t n = Some e' ->
    e_sid e' = e_sid e /\ ebwf e' /\ tag e' = tag e /\
    e_energy e' = e_energy e + e_rate e' * v / 1000 * (t / 60).
  Proof.
    unfold charge_ev, ebwf, tag. intros Hb.
    destruct (k_bstep K (e_batt e) p v t n) as [[r b']|] eqn:E; [|discriminate].
    rewrite L_ev_charge. intro H; inversion H; subst; clear H. cbn.
    destruct (L_bstep _ _ _ _ _ _ _ Hb E) as [Hb' Hd].
    repeat split; auto. f_equal. lra.
  Qed.

  Definition obwf (o : option ev) : Prop := match o with Some e => ebwf e | None => True end.

  Lemma set_pilot_one_spec s o p n o' :
    obwf o -> set_pilot_one K T s o p n = Some o' ->
    match o, o' with
    | None, None => True
    | Some e, Some e' =>
        e_sid e' = e_sid e /\ ebwf e' /\ tag e' = tag e /\
        e_energy e' = e_energy e + e_rate e' * s_volt s / 1000 * (T / 60)
    | _, _ => False
    end.
  Proof.
    unfold set_pilot_one. intros Hb.
    destruct (s_valid s p).
    - rewrite L_set_pilot_ok. destruct o as [e|]; cbn.
      + destruct (charge_ev K e p (s_volt s) T n) as [e'|] eqn:E; cbn; [|discriminate].
        intro H; inversion H; subst; clear H. eapply charge_ev_spec; eauto.
      + intro H; inversion H; subst. exact I.
    - rewrite L_set_pilot_bad. discriminate.
  Qed.

  (* ---------------- one period: update_pilots ---------------- *)
  Lemma current_rates_cons (o : option ev) l :
    current_rates RO K (o :: l)
    = k_rate_elt K (option_map e_rate o) (match o with Some e => e_rate e | None => 0 end) :: current_rates RO K l.
  Proof. reflexivity. Qed.
  Lemma period_energy_cons (s : stn) net r col o occ x :
    period_energy RO T (s :: net) (r :: col) (o :: occ) x
    = (if connected_as o x then r * s_volt s / 1000 * (T / 60) else 0) + period_energy RO T net col occ x.
  Proof. reflexivity. Qed.
  Lemma column_power_cons (s : stn) net r col :
    column_power (s :: net) (r :: col) = s_volt s * r / 1000 + column_power net col.
  Proof. reflexivity. Qed.
  Lemma esum_one x (e : ev) : esum x [e] = if Z.eqb (e_sid e) x then e_energy e else 0.
  Proof. unfold esum; cbn. destruct (Z.eqb (e_sid e) x); lra. Qed.
  Lemma etot_one (e : ev) : etot [e] = e_energy e.
  Proof. unfold etot; cbn. lra. Qed.
  Definition col_energy (net : list stn) (col : list R) : R := column_power net col * (T / 60).

  Lemma update_pilots_spec net : forall l ps ns l',
    Forall obwf l -> update_pilots RO K T net l ps ns = Some l' ->
    length l = length net /\ length l' = length net /\
    Forall obwf l' /\
    map tag (conn l') = map tag (conn l) /\
    map (option_map e_sid) l' = map (option_map e_sid) l /\
    (forall x, esum x (conn l') = esum x (conn l)
               + period_energy RO T net (current_rates RO K l') (map (option_map e_sid) l') x) /\
    etot (conn l') = etot (conn l) + col_energy net (current_rates RO K l').
  Proof.
    induction net as [|s net IH]; intros l ps ns l' Hb Hup.
    - destruct l; cbn [update_pilots] in Hup; [|discriminate]. inversion Hup; subst.
      cbn. unfold col_energy, etot, esum. cbn. repeat split; auto; intros; lra.
    - destruct l as [|o l]; cbn [update_pilots] in Hup; [discriminate|].
      destruct ps as [|p ps]; [discriminate|].
      destruct (set_pilot_one K T s o p (hd (o0 RO, o0 RO) ns)) as [o'|] eqn:E1; [|discriminate].
      destruct (update_pilots RO K T net l ps (tl ns)) as [l2|] eqn:E2; cbn [option_map] in Hup; [|discriminate].
      inversion Hup; subst; clear Hup.
      inversion Hb as [|? ? Hbo Hbl]; subst.
      destruct (IH _ _ _ _ Hbl E2) as (Hl & Hl2 & Hb2 & Htag & Hsid & Hes & Het).
      pose proof (set_pilot_one_spec _ _ _ _ _ Hbo E1) as H1.
      destruct o as [e|], o' as [e'|]; try contradiction.
      + destruct H1 as (Hs & Hbe & Ht & Hen).
        cbn [length conn flat_map map option_map app].
        fold (conn l2). fold (conn l).
        repeat split.
        * cbn; lia.
        * cbn; lia.
        * constructor; auto.
        * cbn. fold (conn l2) (conn l). rewrite Ht, Htag. reflexivity.
        * rewrite Hs, Hsid. reflexivity.
        * intro x. change (e' :: conn l2) with ([e'] ++ conn l2). change (e :: conn l) with ([e] ++ conn l).
          rewrite !esum_app, Hes, !esum_one, Hs.
          rewrite current_rates_cons. cbn [map option_map]. rewrite period_energy_cons, L_rate_elt.
          cbn [connected_as]. rewrite ?Hs.
          destruct (Z.eqb (e_sid e) x); rewrite ?Hen; lra.
        * change (e' :: conn l2) with ([e'] ++ conn l2). change (e :: conn l) with ([e] ++ conn l).
          rewrite !etot_app, Het, !etot_one. unfold col_energy.
          rewrite current_rates_cons, column_power_cons, L_rate_elt. cbn [option_map]. rewrite Hen. lra.
      + cbn [length conn flat_map map option_map app].
        fold (conn l2). fold (conn l).
        repeat split.
        * cbn; lia.
        * cbn; lia.
        * constructor; auto.
        * exact Htag.
        * rewrite Hsid. reflexivity.
        * intro x. rewrite Hes.
          rewrite current_rates_cons. cbn [map option_map]. rewrite period_energy_cons.
          cbn [connected_as]. lra.
        * rewrite Het. unfold col_energy.
          rewrite current_rates_cons, column_power_cons, L_rate_elt. cbn [option_map]. lra.
  Qed.

  (* recorded rate of a vacant station is 0, whatever the state *)
  Lemma current_rates_vacant (l : list (option ev)) :
    Forall2 (fun r o => o = None -> r = 0) (current_rates RO K l) (map (option_map e_sid) l).
  Proof.
    induction l as [|o l IH]; cbn; constructor; auto.
    rewrite L_rate_elt. destruct o; cbn; [discriminate|reflexivity].
  Qed.

  Lemma current_rates_length (l : list (option ev)) : length (current_rates RO K l) = length l.
  Proof. unfold current_rates. apply map_length. Qed.

  (* ---------------- plugin / unplug ---------------- *)
  Lemma plugin_at_spec net : forall l station sid b l',
    plugin_at RO net l station sid b = Some l' ->
    length l' = length l /\ Permutation (conn l') (new_ev RO sid b :: conn l).
  Proof.
    induction net as [|s net IH]; intros l station sid b l' H; [destruct l; discriminate|].
    destruct l as [|o l]; [discriminate|]. cbn in H.
    destruct (Z.eqb (s_id s) station).
    - destruct o as [e|]; cbn in H; [discriminate|]. inversion H; subst. cbn. split; auto.
    - destruct (plugin_at RO net l station sid b) as [l2|] eqn:E; cbn in H; [|discriminate].
      inversion H; subst. destruct (IH _ _ _ _ _ E) as [Hlen Hperm]. split; [cbn; lia|].
      destruct o as [e|]; cbn; fold (conn l2) (conn l).
      + rewrite Hperm. apply perm_swap.
      + exact Hperm.
  Qed.

  Lemma unplug_at_spec net : forall l station sid l' d,
    unplug_at net l station sid = Some (l', d) ->
    length l' = length l /\
    Permutation (conn l) (match d with Some e => e :: conn l' | None => conn l' end).
  Proof.
    induction net as [|s net IH]; intros l station sid l' d H; [destruct l; discriminate|].
    destruct l as [|o l]; [discriminate|]. cbn in H.
    destruct (Z.eqb (s_id s) station).
    - destruct o as [e|].
      + destruct (Z.eqb sid (e_sid e)); inversion H; subst; cbn; split; auto.
      + inversion H; subst; cbn; split; auto.
    - destruct (unplug_at net l station sid) as [[l2 d2]|] eqn:E; [|discriminate].
      inversion H; subst. destruct (IH _ _ _ _ _ E) as [Hlen Hperm]. split; [cbn; lia|].
      destruct o as [e|]; cbn; fold (conn l2) (conn l).
      + destruct d as [e0|].
        * rewrite Hperm. apply perm_swap.
        * now constructor.
      + exact Hperm.
  Qed.

  (* ---------------- induction over the operation sequence ---------------- *)
  Lemma run_ind (P : list op -> state -> Prop) net :
    (forall done st o st', P done st -> apply_op RO K T net st o = Some st' -> P (done ++ [o]) st') ->
    forall ops done st st', P done st -> run RO K T net st ops = Some st' -> P (done ++ ops) st'.
  Proof.
    intros Hstep ops; induction ops as [|o r IH]; intros done st st' HP Hrun; cbn in Hrun.
    - inversion Hrun; subst. rewrite app_nil_r. exact HP.
    - destruct (apply_op RO K T net st o) as [st1|] eqn:E; [|discriminate].
      replace (done ++ o :: r) with ((done ++ [o]) ++ r) by (rewrite <- app_assoc; reflexivity).
      eapply IH; eauto.
  Qed.

  Lemma init_tags_app a b : init_tags (a ++ b) = init_tags a ++ init_tags b.
  Proof. unfold init_tags. apply flat_map_app. Qed.
  Lemma plugged_sids_app (a b : list op) : plugged_sids (a ++ b) = plugged_sids a ++ plugged_sids b.
  Proof. unfold plugged_sids. apply flat_map_app. Qed.
  Lemma plugged_batts_app (a b : list op) : plugged_batts (a ++ b) = plugged_batts a ++ plugged_batts b.
  Proof. unfold plugged_batts. apply flat_map_app. Qed.
  Lemma n_steps_app (a b : list op) : n_steps (a ++ b) = (n_steps a + n_steps b)%nat.
  Proof. unfold n_steps. rewrite filter_app, app_length. reflexivity. Qed.

  (* the invariant that needs no assumption on session ids *)
  Record Inv (net : list stn) (done : list op) (st : state) : Prop := {
    inv_len : length (evs st) = length net;
    inv_bwf : Forall bwf (plugged_batts done) -> Forall ebwf (all_evs st);
    inv_tags : Forall bwf (plugged_batts done) -> incl (map tag (all_evs st)) (init_tags done);
    inv_sids : incl (map e_sid (all_evs st)) (plugged_sids done);
    inv_nodup : NoDup (plugged_sids done) -> NoDup (map e_sid (all_evs st));
    inv_E : Forall bwf (plugged_batts done) ->
            forall x, esum x (all_evs st) = ledger_sum RO T net (cols st) (occs st) x;
    inv_tot : Forall bwf (plugged_batts done) ->
              etot (all_evs st) = Rsum (map (col_energy net) (cols st));
    inv_vac : Forall2 (Forall2 (fun r o => o = None -> r = 0)) (cols st) (occs st);
    inv_peak : peak st = peak_of RO (cols st);
    inv_shape : Forall (fun c => length c = length net) (cols st)
                /\ Forall (fun c => length c = length net) (occs st)
                /\ length (cols st) = n_steps done
  }.

  Lemma all_evs_unfold (st : state) : all_evs st = conn (evs st) ++ hist st.
  Proof. reflexivity. Qed.

  Lemma Inv_init net : Inv net [] (init_state K net).
  Proof.
    assert (Hc : conn (map (fun _ : stn => @None ev) net) = []) by (induction net; cbn; auto).
    constructor; unfold all_evs, connected, init_state; cbn [evs cols occs peak hist].
    - apply map_length.
    - intros _. fold (conn (map (fun _ : stn => @None ev) net)). rewrite Hc. constructor.
    - intros _. fold (conn (map (fun _ : stn => @None ev) net)). rewrite Hc. intros x [].
    - fold (conn (map (fun _ : stn => @None ev) net)). rewrite Hc. intros x [].
    - intros _. fold (conn (map (fun _ : stn => @None ev) net)). rewrite Hc. constructor.
    - intros _ x. fold (conn (map (fun _ : stn => @None ev) net)). rewrite Hc. reflexivity.
    - intros _. fold (conn (map (fun _ : stn => @None ev) net)). rewrite Hc. reflexivity.
    - constructor.
    - cbn. apply L_peak_init.
    - repeat split; constructor.
  Qed.

  Lemma Forall_app_l {A} (P : A -> Prop) a b : Forall P (a ++ b) -> Forall P a.
  Proof. intro H. apply Forall_app in H. tauto. Qed.
  Lemma Forall_app_r {A} (P : A -> Prop) a b : Forall P (a ++ b) -> Forall P b.
  Proof. intro H. apply Forall_app in H. tauto. Qed.

  Lemma NoDup_app_l {A} (a b : list A) : NoDup (a ++ b) -> NoDup a.
  Proof.
    induction a as [|x a IH]; cbn; intro H; [constructor|].
    inversion H; subst. constructor; auto. intro Hin. apply H2. apply in_or_app. now left.
  Qed.

  Lemma Inv_step net done st o st' :
    Inv net done st -> apply_op RO K T net st o = Some st' -> Inv net (done ++ [o]) st'.
  Proof.
    intros I Hop. destruct I as [Ilen Ibwf Itags Isids Ind IE Itot Ivac Ipeak Ishape].
    destruct o as [station sid b | station sid | ps ns]; cbn in Hop.
    - (* Plugin *)
      destruct (plugin_at RO net (evs st) station sid b) as [l'|] eqn:E; [|discriminate].
      inversion Hop; subst; clear Hop.
      destruct (plugin_at_spec _ _ _ _ _ _ E) as [Hlen Hperm].
      assert (Hall : Permutation (all_evs {| evs := l'; cols := cols st; occs := occs st; peak := peak st; hist := hist st |})
                                 (new_ev RO sid b :: all_evs st)).
      { rewrite !all_evs_unfold. cbn [evs hist]. rewrite Hperm. reflexivity. }
      constructor; cbn [evs cols occs peak hist];
        rewrite ?plugged_batts_app, ?plugged_sids_app, ?init_tags_app, ?n_steps_app;
        cbn [plugged_batts plugged_sids init_tags n_steps flat_map filter app length].
      + lia.
      + intro Hb. eapply Permutation_Forall; [symmetry; exact Hall|].
        constructor.
        * unfold ebwf, new_ev; cbn. apply Forall_app_r in Hb. now inversion Hb.
        * apply Ibwf. eapply Forall_app_l; eauto.
      + intros Hb t Ht. apply (Permutation_in _ (Permutation_map tag Hall)) in Ht.
        apply in_or_app. destruct Ht as [Ht|Ht].
        * right. left. rewrite <- Ht. unfold tag, new_ev; cbn. f_equal. lra.
        * left. apply Itags; auto. eapply Forall_app_l; eauto.
      + intros x Hx. apply (Permutation_in _ (Permutation_map e_sid Hall)) in Hx.
        apply in_or_app. destruct Hx as [Hx|Hx]; [right; left; exact Hx|left; now apply Isids].
      + intro Hnd. eapply Permutation_NoDup; [symmetry; apply (Permutation_map e_sid Hall)|].
        cbn [map new_ev e_sid]. constructor.
        * intro Hin. apply Isids in Hin.
          apply NoDup_remove_2 in Hnd. rewrite app_nil_r in Hnd. contradiction.
        * apply Ind. eapply NoDup_app_l; eauto.
      + intros Hb x. rewrite (esum_perm _ _ _ Hall).
        change (new_ev RO sid b :: all_evs st) with ([new_ev RO sid b] ++ all_evs st).
        rewrite esum_app, IE by (eapply Forall_app_l; eauto).
        unfold esum; cbn. destruct (Z.eqb sid x); lra.
      + intros Hb. rewrite (etot_perm _ _ Hall).
        change (new_ev RO sid b :: all_evs st) with ([new_ev RO sid b] ++ all_evs st).
        rewrite etot_app, Itot by (eapply Forall_app_l; eauto). unfold etot; cbn. lra.
      + exact Ivac.
      + exact Ipeak.
      + destruct Ishape as (S1 & S2 & S3). repeat split; auto. lia.
    - (* Unplug *)
      destruct (unplug_at net (evs st) station sid) as [[l' d]|] eqn:E; [|discriminate].
      inversion Hop; subst; clear Hop.
      destruct (unplug_at_spec _ _ _ _ _ _ E) as [Hlen Hperm].
      assert (Hall : Permutation (all_evs st)
                       (all_evs {| evs := l'; cols := cols st; occs := occs st; peak := peak st;
                                   hist := match d with Some e => e :: hist st | None => hist st end |})).
      { rewrite !all_evs_unfold. cbn [evs hist]. rewrite Hperm. destruct d as [e|].
        - cbn. apply Permutation_middle.
        - reflexivity. }
      constructor; cbn [evs cols occs peak hist];
        rewrite ?plugged_batts_app, ?plugged_sids_app, ?init_tags_app, ?n_steps_app;
        cbn [plugged_batts plugged_sids init_tags n_steps flat_map filter app length];
        rewrite ?app_nil_r.
      + lia.
      + intro Hb. eapply Permutation_Forall; [exact Hall|]. now apply Ibwf.
      + intros Hb t Ht. apply (Permutation_in _ (Permutation_sym (Permutation_map tag Hall))) in Ht.
        now apply Itags.
      + intros x Hx. apply (Permutation_in _ (Permutation_sym (Permutation_map e_sid Hall))) in Hx.
        now apply Isids.
      + intro Hnd. eapply Permutation_NoDup; [apply (Permutation_map e_sid Hall)|]. now apply Ind.
      + intros Hb x. rewrite <- (esum_perm _ _ _ Hall). now apply IE.
      + intros Hb. rewrite <- (etot_perm _ _ Hall). now apply Itot.
      + exact Ivac.
      + exact Ipeak.
      + destruct Ishape as (S1 & S2 & S3). repeat split; auto. lia.
    - (* Step *)
      destruct (update_pilots RO K T net (evs st) ps ns) as [l'|] eqn:E; [|discriminate].
      inversion Hop; subst; clear Hop.
      assert (Hspec : Forall bwf (plugged_batts done) ->
                length (evs st) = length net /\ length l' = length net /\
                Forall obwf l' /\
                map tag (conn l') = map tag (conn (evs st)) /\
                map (option_map e_sid) l' = map (option_map e_sid) (evs st) /\
                (forall x, esum x (conn l') = esum x (conn (evs st))
                   + period_energy RO T net (current_rates RO K l') (map (option_map e_sid) l') x) /\
                etot (conn l') = etot (conn (evs st)) + col_energy net (current_rates RO K l')).
      { intro Hb. apply (update_pilots_spec net _ ps ns); auto.
        specialize (Ibwf Hb). rewrite all_evs_unfold in Ibwf. apply Forall_app_l in Ibwf.
        clear - Ibwf. induction (evs st) as [|o l IH]; constructor.
        - destruct o; cbn in *; auto. now inversion Ibwf.
        - apply IH. destruct o; cbn in Ibwf; auto. now inversion Ibwf. }
      (* facts that do not need the battery law: lengths and session ids *)
      assert (Hlen' : length l' = length net /\ map (option_map e_sid) l' = map (option_map e_sid) (evs st)).
      { clear - E L_set_pilot_ok L_set_pilot_bad L_ev_charge. revert ps ns l' E.
        generalize (evs st) as l. induction net as [|s net IH]; intros l ps ns l' E.
        - destruct l; cbn [update_pilots] in E; [|discriminate]. inversion E; subst. auto.
        - destruct l as [|o l]; cbn [update_pilots] in E; [discriminate|].
          destruct ps as [|p ps]; [discriminate|].
          destruct (set_pilot_one K T s o p (hd (o0 RO, o0 RO) ns)) as [o'|] eqn:E1; [|discriminate].
          destruct (update_pilots RO K T net l ps (tl ns)) as [l2|] eqn:E2; cbn [option_map] in E; [|discriminate].
          inversion E; subst. destruct (IH _ _ _ _ E2) as [H1 H2]. cbn. split; [lia|]. rewrite H2. f_equal.
          unfold set_pilot_one in E1. destruct (s_valid s p).
          + rewrite L_set_pilot_ok in E1. destruct o as [e|]; cbn [option_map] in E1.
            * unfold charge_ev in E1. destruct (k_bstep K (e_batt e) p (s_volt s) T _) as [[r b']|]; cbn [option_map] in E1; [|discriminate].
              rewrite L_ev_charge in E1. inversion E1; subst. reflexivity.
            * inversion E1; subst. reflexivity.
          + rewrite L_set_pilot_bad in E1. discriminate. }
      destruct Hlen' as [Hl' Hsid'].
      assert (Hconn_sid : map e_sid (conn l') = map e_sid (conn (evs st))).
      { clear - Hsid'. revert l' Hsid'. generalize (evs st) as l.
        induction l as [|o l IH]; intros [|o' l'] H; cbn in H; try discriminate; auto.
        inversion H as [[H1 H2]]. specialize (IH _ H2).
        destruct o, o'; cbn in H1; try discriminate; cbn [conn flat_map app map];
          fold (conn l') (conn l); rewrite IH; congruence. }
      unfold store. constructor; cbn [evs cols occs peak hist];
        rewrite ?plugged_batts_app, ?plugged_sids_app, ?init_tags_app, ?n_steps_app;
        cbn [plugged_batts plugged_sids init_tags n_steps flat_map filter app length];
        rewrite ?app_nil_r.
      + exact Hl'.
      + intro Hb. destruct (Hspec Hb) as (_ & _ & Hob & _).
        rewrite all_evs_unfold. cbn [evs hist]. apply Forall_app. split.
        * clear - Hob. induction l' as [|o l IH]; cbn; [constructor|].
          inversion Hob; subst. destruct o; cbn; auto.
        * specialize (Ibwf Hb). rewrite all_evs_unfold in Ibwf. eapply Forall_app_r; eauto.
      + intros Hb t Ht. destruct (Hspec Hb) as (_ & _ & _ & Htag & _).
        rewrite all_evs_unfold in Ht. cbn [evs hist] in Ht. rewrite map_app, Htag in Ht.
        apply Itags; auto. rewrite all_evs_unfold, map_app. exact Ht.
      + intros x Hx. rewrite all_evs_unfold in Hx. cbn [evs hist] in Hx. rewrite map_app, Hconn_sid in Hx.
        apply Isids. rewrite all_evs_unfold, map_app. exact Hx.
      + intro Hnd. specialize (Ind Hnd). rewrite all_evs_unfold in *. cbn [evs hist].
        rewrite map_app, Hconn_sid. rewrite map_app in Ind. exact Ind.
      + intros Hb x. destruct (Hspec Hb) as (_ & _ & _ & _ & _ & Hes & _).
        rewrite all_evs_unfold. cbn [evs hist ledger_sum]. rewrite esum_app, Hes.
        specialize (IE Hb x). rewrite all_evs_unfold, esum_app in IE.
        cbn [oadd RO]. lra.
      + intros Hb. destruct (Hspec Hb) as (_ & _ & _ & _ & _ & _ & Het).
        rewrite all_evs_unfold. cbn [evs hist map Rsum fold_right]. rewrite etot_app, Het.
        specialize (Itot Hb). rewrite all_evs_unfold, etot_app in Itot.
        fold (Rsum (map (col_energy net) (cols st))). lra.
      + constructor; auto. apply current_rates_vacant.
      + rewrite L_peak, Ipeak. reflexivity.
      + destruct Ishape as (S1 & S2 & S3). repeat split.
        * constructor; auto. rewrite current_rates_length. exact Hl'.
        * constructor; auto. rewrite map_length. exact Hl'.
        * cbn. lia.
  Qed.

  Lemma Inv_run net ops st :
    simulate RO K T net ops = Some st -> Inv net ops st.
  Proof.
    intro H. change ops with ([] ++ ops).
    eapply (run_ind (Inv net) net); [apply Inv_step| apply Inv_init | exact H].
  Qed.

  (* init_charge is the tag of the (unique) Plugin of the session *)
  Lemma init_tags_sid ops x c : In (x, c) (init_tags ops) -> In x (plugged_sids ops).
  Proof.
    induction ops as [|o r IH]; cbn; [tauto|].
    destruct o; cbn; auto. intros [H|H]; [left; congruence|right; auto].
  Qed.

  Lemma init_charge_of_tags ops x c :
    NoDup (plugged_sids ops) -> In (x, c) (init_tags ops) -> init_charge K ops x = Some c.
  Proof.
    induction ops as [|o r IH]; cbn; [tauto|].
    destruct o as [station sid b| |]; cbn; auto.
    intros Hnd [H|H].
    - inversion H; subst. now rewrite Z.eqb_refl.
    - inversion Hnd; subst. destruct (Z.eqb_spec sid x) as [->|Hne].
      + exfalso. apply H2. eapply init_tags_sid; eauto.
      + auto.
  Qed.

  (* ---------------- the four statements, for any law-abiding kernel record ---------------- *)
  Theorem ledger_generic net ops st :
    NoDup (plugged_sids ops) -> Forall bwf (plugged_batts ops) ->
    simulate RO K T net ops = Some st ->
    forall e, In e (all_evs st) ->
      e_energy e = ledger_sum RO T net (cols st) (occs st) (e_sid e)
      /\ exists c0, init_charge K ops (e_sid e) = Some c0 /\ e_energy e = k_bcharge K (e_batt e) - c0.
  Proof.
    intros Hnd Hb Hrun e He. pose proof (Inv_run _ _ _ Hrun) as I. split.
    - rewrite <- (inv_E _ _ _ I Hb). symmetry. apply esum_unique; auto. apply (inv_nodup _ _ _ I Hnd).
    - exists (k_bcharge K (e_batt e) - e_energy e). split; [|lra].
      apply init_charge_of_tags; auto. apply (inv_tags _ _ _ I Hb).
      change (e_sid e, k_bcharge K (e_batt e) - e_energy e) with (tag e). now apply in_map.
  Qed.

  Theorem vacant_zero_generic net ops st :
    simulate RO K T net ops = Some st ->
    forall t col occ,
      nth_error (rates_by_period st) t = Some col -> nth_error (occupancy_by_period st) t = Some occ ->
      length col = length net /\ length occ = length net /\
      forall i, nth_error occ i = Some None -> nth_error col i = Some 0.
  Proof.
    intros Hrun t col occ Hc Ho. pose proof (Inv_run _ _ _ Hrun) as I.
    destruct (inv_shape _ _ _ I) as (S1 & S2 & _).
    unfold rates_by_period, occupancy_by_period in *.
    assert (Hcin : In col (cols st)) by (apply in_rev; eapply nth_error_In; eauto).
    assert (Hoin : In occ (occs st)) by (apply in_rev; eapply nth_error_In; eauto).
    rewrite Forall_forall in S1, S2. repeat split; auto.
    intros i Hi.
    pose proof (Forall2_rev _ _ _ (inv_vac _ _ _ I)) as Hv.
    pose proof (Forall2_nth_error _ _ _ _ _ _ Hv Hc Ho) as Hv2.
    destruct (Forall2_nth_error_ex _ _ _ _ _ Hv2 Hi) as [r [Hr Hz]].
    rewrite Hr, Hz; auto.
  Qed.

  Theorem shape_generic net ops st :
    simulate RO K T net ops = Some st ->
    length (rates_by_period st) = n_steps ops /\ length (occupancy_by_period st) = n_steps ops
    /\ length (evs st) = length net.
  Proof.
    intro Hrun. pose proof (Inv_run _ _ _ Hrun) as I.
    destruct (inv_shape _ _ _ I) as (_ & _ & S3).
    unfold rates_by_period, occupancy_by_period. rewrite !rev_length.
    pose proof (inv_vac _ _ _ I) as Hv. apply Forall2_len in Hv.
    repeat split; try lia. apply (inv_len _ _ _ I).
  Qed.

  Theorem peak_generic net ops st :
    simulate RO K T net ops = Some st -> peak st = peak_of RO (cols st).
  Proof. intro Hrun. apply (inv_peak _ _ _ (Inv_run _ _ _ Hrun)). Qed.

  Theorem total_generic net ops st :
    Forall bwf (plugged_batts ops) ->
    simulate RO K T net ops = Some st ->
    Rsum (map e_energy (all_evs st)) = Rsum (map (fun col => column_power net col * (T / 60)) (cols st)).
  Proof. intros Hb Hrun. apply (inv_tot _ _ _ (Inv_run _ _ _ Hrun) Hb). Qed.
End Generic.

(* ------------------------------------------------------------------------------------------ *)
(* characterisation of the accumulated peak                                                    *)
(* ------------------------------------------------------------------------------------------ *)
Lemma peak_of_spec (cs : list (list R)) :
  0 <= peak_of RO cs
  /\ (forall c, In c cs -> Rsum c <= peak_of RO cs)
  /\ (peak_of RO cs = 0 \/ exists c, In c cs /\ peak_of RO cs = Rsum c).
Proof.
  induction cs as [|c cs IH].
  - cbn. split; [lra|]. split; [intros c []|now left].
  - destruct IH as (H0 & Hle & Hatt).
    change (peak_of RO (c :: cs)) with (Rmax (peak_of RO cs) (Rsum c)).
    destruct (Rmax_cases (peak_of RO cs) (Rsum c)) as [[Hc Hm]|[Hc Hm]]; rewrite Hm.
    + split; [lra|]. split.
      * intros c' [<-|Hin]; [lra|]. specialize (Hle _ Hin). lra.
      * right. exists c. split; [now left|reflexivity].
    + split; [lra|]. split.
      * intros c' [<-|Hin]; [lra|]. now apply Hle.
      * destruct Hatt as [Hz|[c' [Hin He]]]; [now left|]. right. exists c'. split; [now right|exact He].
Qed.

(* ------------------------------------------------------------------------------------------ *)
(* Part 4: the regenerated kernels                                                              *)
(* ------------------------------------------------------------------------------------------ *)
(* ------------------------------------------------------------------------------------------ *)
(* Part 4: the regenerated kernels satisfy the laws; packaged statements                        *)
(* ------------------------------------------------------------------------------------------ *)
Lemma KR_laws : kern_laws KR batt_ok.
Proof.
  constructor.
  - exact KR_set_pilot_ok.
  - exact KR_set_pilot_bad.
  - exact KR_ev_charge.
  - exact KR_bstep.
  - exact KR_rate_elt.
  - exact KR_peak.
  - exact KR_peak_init.
Qed.

Section Packaged.
  Variable B : Type.
  Variable K : kern R B.
  Variable bwf : B -> Prop.
  Hypothesis L : kern_laws K bwf.

  Definition ledger_any := ledger_generic B K bwf (law_set_pilot_ok _ _ L) (law_set_pilot_bad _ _ L)
    (law_ev_charge _ _ L) (law_bstep _ _ L) (law_rate_elt _ _ L) (law_peak _ _ L) (law_peak_init _ _ L).
  Definition vacant_zero_any := vacant_zero_generic B K bwf (law_set_pilot_ok _ _ L) (law_set_pilot_bad _ _ L)
    (law_ev_charge _ _ L) (law_bstep _ _ L) (law_rate_elt _ _ L) (law_peak _ _ L) (law_peak_init _ _ L).
  Definition shape_any := shape_generic B K bwf (law_set_pilot_ok _ _ L) (law_set_pilot_bad _ _ L)
    (law_ev_charge _ _ L) (law_bstep _ _ L) (law_rate_elt _ _ L) (law_peak _ _ L) (law_peak_init _ _ L).
  Definition peak_any := peak_generic B K bwf (law_set_pilot_ok _ _ L) (law_set_pilot_bad _ _ L)
    (law_ev_charge _ _ L) (law_bstep _ _ L) (law_rate_elt _ _ L) (law_peak _ _ L) (law_peak_init _ _ L).
  Definition total_any := total_generic B K bwf (law_set_pilot_ok _ _ L) (law_set_pilot_bad _ _ L)
    (law_ev_charge _ _ L) (law_bstep _ _ L) (law_rate_elt _ _ L) (law_peak _ _ L) (law_peak_init _ _ L).
End Packaged.

(* the reported peak: max(0, max over periods of the recorded aggregate current) *)
Lemma peak_char B (K : kern R B) bwf (L : kern_laws K bwf) T net ops st :
  simulate RO K T net ops = Some st ->
  0 <= peak st
  /\ (forall col, In col (rates_by_period st) -> Rsum col <= peak st)
  /\ (peak st = 0 \/ exists col, In col (rates_by_period st) /\ peak st = Rsum col).
Proof.
  intro H. rewrite (peak_any B K bwf L T net ops st H).
  destruct (peak_of_spec (cols st)) as (H0 & Hle & Hatt). unfold rates_by_period.
  split; [exact H0|]. split.
  - intros col Hin. apply Hle. now apply in_rev.
  - destruct Hatt as [Hz|[c [Hin He]]]; [now left|]. right. exists c. split; [|exact He].
    now apply -> in_rev.
Qed.

(* when no recorded aggregate is negative and at least one period was simulated, the peak IS the maximum *)
Lemma peak_is_max B (K : kern R B) bwf (L : kern_laws K bwf) T net ops st :
  simulate RO K T net ops = Some st ->
  rates_by_period st <> [] ->
  (forall col, In col (rates_by_period st) -> 0 <= Rsum col) ->
  (exists col, In col (rates_by_period st) /\ peak st = Rsum col)
  /\ (forall col, In col (rates_by_period st) -> Rsum col <= peak st).
Proof.
  intros H Hne Hpos. destruct (peak_char B K bwf L T net ops st H) as (H0 & Hle & Hatt).
  split; [|exact Hle].
  destruct Hatt as [Hz|Hex]; [|exact Hex].
  destruct (rates_by_period st) as [|c r] eqn:E; [congruence|].
  exists c. split; [now left|].
  assert (Hc : In c (c :: r)) by now left.
  specialize (Hle _ Hc). specialize (Hpos _ Hc). lra.
Qed.

(* ------------------------------------------------------------------------------------------ *)
(* a concrete run (non-vacuity of the hypotheses)                                               *)
(* ------------------------------------------------------------------------------------------ *)
Lemma ex_batt : Battery_charge 10 2 0 50 16 208 15
  = OkS {| Battery_charge_ret := 16; Battery_charge__current_charge := 2 + 832/1000;
           Battery_charge__current_charging_power := 3328/1000 |}.
Proof.
  unfold Battery_charge.
  replace (Rleb 208 0) with false by (symmetry; apply Rleb_false; lra).
  replace (Rleb 15 0) with false by (symmetry; apply Rleb_false; lra).
  cbv zeta.
  replace (Rmin (Rmin (16 * 208 / 1000) 50) ((10 - 2) / (15 / 60))) with (3328/1000).
  2:{ unfold Rmin. repeat destruct (Rle_dec _ _); lra. }
  f_equal. f_equal; lra.
Qed.

Lemma ledger_example :
  let net := [mk_stn 0%Z 208 (fun _ => true)] in
  let ops := [Plugin 0%Z 7%Z (mk_batt BIdeal 10 2 0 50 0 0);
              Step [16] []; Unplug 0%Z 7%Z; Step [16] []] in
  NoDup (plugged_sids ops) /\ Forall batt_ok (plugged_batts ops) /\
  exists st, simulate RO KR 15 net ops = Some st
             /\ map e_sid (all_evs st) = [7%Z]
             /\ rates_by_period st = [[16]; [0]]
             /\ occupancy_by_period st = [[Some 7%Z]; [None]]
             /\ Rsum (map e_energy (all_evs st)) = 832 / 1000.
Proof.
  intros net ops. split; [|split].
  - cbn. constructor; [intros []|constructor].
  - cbn. constructor; [exact I|constructor].
  - eexists. split.
    + unfold simulate, ops, net. cbn -[Battery_charge]. unfold charge_ev. cbn -[Battery_charge].
      rewrite ex_batt. cbn. reflexivity.
    + cbn. repeat split; try reflexivity. lra.
Qed.
