(* Proofs/AnalysisQc.v — the canonical-rational instance of the C18 theorems (axiom-free):
   the lifted scalar kernels QcA satisfy `akern_laws`; instantiation of Proofs/AnalysisField.v. *)
From Coq Require Import ZArith QArith Qcanon Qminmax Qabs Qround Qfield Lqa List Bool Lia Permutation Ring.
From ACN Require Import Base.Num Base.ListX Gen.Analysis_Q Gen.Battery_Q Model.Ledger Model.LedgerQ Model.LedgerQc
                        Model.Analysis Model.AnalysisQ Model.AnalysisQc
                        Proofs.LedgerField Proofs.LedgerQc Proofs.AnalysisStruct Proofs.AnalysisField.
Import ListNotations.

Lemma QcA_laws : akern_laws Qc QcO QcA.
Proof.
  constructor; intros; cbn [a_power_scale a_proportion a_remaining a_demand_met a_demands_ratio a_nema a_minutes
                            a_energy_cost a_demand_charge a_abs_applied QcA odiv osub omul oofZ oltb QcO].
  - unfold An_power_scale. apply Qc_is_canon. rewrite this_Q2Qc, this_div, this_Q2Qc. reflexivity.
  - unfold An_proportion. apply Qc_is_canon. rewrite this_Q2Qc, this_div. reflexivity.
  - unfold EV_remaining_demand. apply Qc_is_canon. rewrite this_Q2Qc, this_minus. reflexivity.
  - reflexivity.
  - unfold An_demands_ratio. apply Qc_is_canon. rewrite this_Q2Qc, this_div. reflexivity.
  - unfold An_nema. apply Qc_is_canon. rewrite this_Q2Qc, this_div, this_minus. reflexivity.
  - unfold An_minutes. apply Qc_is_canon. rewrite this_Q2Qc, this_mult. reflexivity.
  - unfold An_energy_cost. apply Qc_is_canon. rewrite this_Q2Qc, this_mult, this_div, this_Q2Qc. reflexivity.
  - unfold An_demand_charge. apply Qc_is_canon. rewrite this_Q2Qc, this_mult. reflexivity.
  - reflexivity.
Qed.

Ltac qc_inst thm :=
  eapply thm; try exact QcO_ring; try exact QcO_div; try exact QcA_laws; try exact KQc_laws; eauto.

Notation trajQc := (traj (F:=Qc)).
Notation q0 := (Q2Qc 0).

Lemma aggregate_Qc (tr : trajQc) :
  Forall (fun row => length row = t_width tr) (t_rates tr) ->
  length (aggregate_current QcO tr) = t_width tr
  /\ length (aggregate_power QcO QcA tr) = t_width tr
  /\ forall t, (t < t_width tr)%nat ->
       nth t (aggregate_current QcO tr) q0 = aggregate_current_spec QcO tr t
       /\ nth t (aggregate_power QcO QcA tr) q0 = aggregate_power_spec QcO tr t.
Proof. intro H. qc_inst (aggregate_F Qc QcO Qcinv). Qed.

Lemma aggregate_relabel_Qc (tr tr' : trajQc) :
  Forall (fun row => length row = t_width tr) (t_rates tr) ->
  Forall (fun row => length row = t_width tr') (t_rates tr') ->
  t_width tr = t_width tr' ->
  Permutation (combine (t_volts tr) (t_rates tr)) (combine (t_volts tr') (t_rates tr')) ->
  length (t_volts tr) = length (t_rates tr) -> length (t_volts tr') = length (t_rates tr') ->
  aggregate_current QcO tr = aggregate_current QcO tr' /\ aggregate_power QcO QcA tr = aggregate_power QcO QcA tr'.
Proof. intros. qc_inst (aggregate_relabel_F Qc QcO Qcinv). Qed.

Lemma costs_Qc (tr : trajQc) prices dc :
  Forall (fun row => length row = t_width tr) (t_rates tr) ->
  energy_cost QcO QcA tr prices = energy_cost_spec QcO tr prices
  /\ demand_charge QcO QcA tr dc = demand_charge_spec QcO tr dc.
Proof. intro H. qc_inst (costs_F Qc QcO Qcinv). Qed.

Lemma constraint_currents_Qc (tr : trajQc) flag ids :
  wf tr -> NoDup (t_cindex tr) ->
  map fst (constraint_currents QcO QcA tr flag ids) = filter (requested ids) (t_cindex tr)
  /\ (forall j c, nth_error (t_cindex tr) j = Some c -> requested ids c = true ->
        dict_get c (constraint_currents QcO QcA tr flag ids) = Some (series_spec_of QcO QcA tr flag j))
  /\ (forall c, requested ids c = false \/ ~ In c (t_cindex tr) ->
        dict_get c (constraint_currents QcO QcA tr flag ids) = None).
Proof. intros H1 H2. qc_inst (constraint_currents_F Qc QcO). Qed.

Lemma metrics_Qc (tr : trajQc) threshold :
  total_energy_requested QcO tr = fsumA QcO (map fst (t_evh tr))
  /\ total_energy_delivered QcO tr = fsumA QcO (map snd (t_evh tr))
  /\ proportion_of_energy_delivered QcO QcA tr
     = (if oeqb QcO (fsumA QcO (map fst (t_evh tr))) q0 then None
        else Some (fsumA QcO (map snd (t_evh tr)) / fsumA QcO (map fst (t_evh tr)))%Qc)
  /\ proportion_of_demands_met QcO QcA tr threshold
     = match t_evh tr with
       | [] => None
       | _ => Some (Q2Qc (inject_Z (Z.of_nat (length (filter (fun e => Qltb (this (fst e - snd e)%Qc) (this threshold)) (t_evh tr)))))
                    / Q2Qc (inject_Z (Z.of_nat (length (t_evh tr)))))%Qc
       end.
Proof. qc_inst (metrics_F Qc QcO). Qed.

Lemma datetimes_Qc (tr : trajQc) :
  length (datetimes_minutes QcO QcA tr) = t_iter tr
  /\ forall k, (k < t_iter tr)%nat ->
       nth k (datetimes_minutes QcO QcA tr) q0 = (t_period tr * Q2Qc (inject_Z (Z.of_nat k)))%Qc.
Proof. qc_inst (datetimes_F Qc QcO). Qed.

Lemma nema_Qc (tr : trajQc) a b c ja jb jc :
  wf tr -> NoDup (t_cindex tr) ->
  nth_error (t_cindex tr) ja = Some a -> nth_error (t_cindex tr) jb = Some b -> nth_error (t_cindex tr) jc = Some c ->
  current_unbalance QcO QcA tr [a; b; c]
  = Some (map (fun t => nema_spec QcO (cc_mag_spec QcO tr ja t) (cc_mag_spec QcO tr jb t) (cc_mag_spec QcO tr jc t))
              (periods tr)).
Proof. intros. qc_inst (nema_F Qc QcO Qcinv). Qed.

Lemma nema_unknown_id_Qc (tr : trajQc) ids x :
  wf tr -> NoDup (t_cindex tr) -> In x ids -> ~ In x (t_cindex tr) -> current_unbalance QcO QcA tr ids = None.
Proof. intros. qc_inst (nema_unknown_id_F Qc QcO). Qed.

Lemma consistent_with_ledger_Qc (T : Qc) net ops st (tr : trajQc) :
  Forall batt_ok_Qc (plugged_batts ops) -> simulate QcO KQc T net ops = Some st ->
  t_width tr = length (rates_by_period st) ->
  t_rates tr = station_major_of QcO (rates_by_period st) (length net) ->
  t_volts tr = map s_volt net ->
  Permutation (map snd (t_evh tr)) (map e_energy (all_evs st)) ->
  total_energy_delivered QcO tr
  = fsumA QcO (map (fun p => (p * (T / Q2Qc (inject_Z 60)))%Qc) (aggregate_power QcO QcA tr)).
Proof. intros. qc_inst (consistent_with_ledger_F Qc QcO Qcinv). Qed.
