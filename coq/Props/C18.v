(* Props/C18.v — analysis functions equal their first-principles definitions.

   Model/Analysis.v has two layers: implementation-shaped functions (what the numpy code of
   acnsim/analysis/__init__.py and ChargingNetwork.constraint_current does: row-wise vector sums,
   selection of constraint rows in network order, the re-ordered id list zipped into a dict, vstack /
   max / mean) and first-principles per-period formulas.  The scalar expressions (/1000, the threshold
   test, the proportions, the NEMA formula, the minute offset) are REGENERATED from the code
   (Gen/Analysis_R.v).  The theorems say: implementation-shaped = first principles, for every recorded
   trajectory `tr` (rates matrix, voltages, phasors (cos, sin) of the phase angles, constraint matrix and
   names, sessions), every list of requested ids in any order with duplicates / unknown ids, every
   threshold.  `wf tr` only states the array shapes numpy enforces.
   The executable Q twin of the same model is compared with the real functions on every run.

   Observation (not a violation; the property does not fix the polarity): the `return_magnitudes`
   flag of constraint_currents is inverted relative to its docstring -- magnitudes are returned when
   the flag is False.  The model follows the code. *)
From Coq Require Import ZArith QArith Qcanon Reals Lra List Bool Permutation.
From ACN Require Import Base.Num Base.NumR Gen.Analysis_R Model.Ledger Model.LedgerR Model.LedgerQ Model.Analysis Model.AnalysisR
                        Model.AnalysisQ Model.LedgerQc Model.AnalysisQc Proofs.LedgerField Proofs.Ledger Proofs.AnalysisStruct
                        Proofs.AnalysisField Proofs.AnalysisQc Proofs.Analysis.
Import ListNotations.
Open Scope R_scope.

(* aggregate current = station sum; aggregate power = station sum weighted by each station's voltage, / 1000 *)
Theorem C18_aggregate : forall tr : traj (F:=R), wf tr ->
  length (aggregate_current RO tr) = t_width tr
  /\ length (aggregate_power RO RA tr) = t_width tr
  /\ forall t, (t < t_width tr)%nat ->
       nth t (aggregate_current RO tr) 0 = Rsum (map (fun row => nth t row 0) (t_rates tr))
       /\ nth t (aggregate_power RO RA tr) 0
          = Rsum (map (fun p => fst p * nth t (snd p) 0) (combine (t_volts tr) (t_rates tr))) / 1000.
Proof.
  exact (fun tr H =>
    conj (proj1 (aggregate_current_ok tr H))
      (conj (proj1 (aggregate_power_ok tr H))
         (fun t Ht => conj (proj2 (aggregate_current_ok tr H) t Ht) (proj2 (aggregate_power_ok tr H) t Ht)))).
Qed.
Print Assumptions C18_aggregate.

(* constraint_currents: whatever the order / duplicates / unknown ids of the request,
   - the returned keys are exactly the requested existing constraints, once each (network order),
   - every such id is mapped to the series of ITS OWN row:
       period t |-> | sum_s M[j][s] * rates[s][t] * (cos phi_s + i sin phi_s) |      (flag False)
                     the complex sum itself, as (re, im)                                (flag True)
   - nothing else is returned.   `requested None c` is true (constraint_ids=None). *)
Theorem C18_constraint_currents : forall (tr : traj (F:=R)) flag ids,
  wf tr -> NoDup (t_cindex tr) ->
  map fst (constraint_currents RO RA tr flag ids) = filter (requested ids) (t_cindex tr)
  /\ (forall j c, nth_error (t_cindex tr) j = Some c -> requested ids c = true ->
        dict_get c (constraint_currents RO RA tr flag ids)
        = Some (if An_abs_applied flag
                then Mag (map (fun t => sqrt (cc_re_spec RO tr j t * cc_re_spec RO tr j t
                                              + cc_im_spec RO tr j t * cc_im_spec RO tr j t)) (periods tr))
                else Cplx (map (cc_re_spec RO tr j) (periods tr)) (map (cc_im_spec RO tr j) (periods tr))))
  /\ (forall c, requested ids c = false \/ ~ In c (t_cindex tr) ->
        dict_get c (constraint_currents RO RA tr flag ids) = None).
Proof. exact constraint_currents_ok. Qed.
Print Assumptions C18_constraint_currents.

(* the call itself: defined exactly when the network's constraint matrix exists; on a network that never
   had a constraint the code raises TypeError (constraint_matrix is None) -- recorded as an observation *)
Theorem C18_constraint_currents_call : forall (tr : traj (F:=R)) flag ids,
  (t_cmat_present tr = true ->
     constraint_currents_call RO RA tr flag ids = Some (constraint_currents RO RA tr flag ids))
  /\ (t_cmat_present tr = false ->
     constraint_currents_call RO RA tr flag ids = None /\ forall p, current_unbalance_call RO RA tr p = None).
Proof. exact constraint_currents_call_ok. Qed.
Print Assumptions C18_constraint_currents_call.

(* cc_re_spec / cc_im_spec are the phase-aware weighted sums *)
Theorem C18_phase_aware_sum : forall (tr : traj (F:=R)) j t,
  cc_re_spec RO tr j t
  = Rsum (map (fun p => fst (fst p) * (fst (snd (fst p)) * nth t (snd p) 0))
              (combine (combine (nth j (t_cmat tr) []) (t_phasor tr)) (t_rates tr)))
  /\ cc_im_spec RO tr j t
  = Rsum (map (fun p => fst (fst p) * (snd (snd (fst p)) * nth t (snd p) 0))
              (combine (combine (nth j (t_cmat tr) []) (t_phasor tr)) (t_rates tr))).
Proof. exact (fun tr j t => conj eq_refl eq_refl). Qed.
Print Assumptions C18_phase_aware_sum.

(* For ANY numeric carrier (reals, exact rationals, ...): the result depends on the requested ids only as a
   set -- order and duplicates are irrelevant; no assumption at all; no axioms *)
Theorem C18_request_order_irrelevant : forall F (O : fops F) (A : akern F) (tr : traj (F:=F)) flag ids ids',
  (forall c, In c ids <-> In c ids') ->
  constraint_currents O A tr flag (Some ids) = constraint_currents O A tr flag (Some ids').
Proof. exact (fun F O A => constraint_currents_order_irrelevant O A). Qed.
Print Assumptions C18_request_order_irrelevant.

(* For ANY numeric carrier: the returned keys are the requested existing constraints (once, network order), each
   is mapped to the series the code computes from ITS OWN row of the constraint matrix, nothing else is returned.
   (C18_constraint_currents above adds: over R that series is the phase-aware sum.)  No axioms. *)
Theorem C18_constraint_currents_names : forall F (O : fops F) (A : akern F) (tr : traj (F:=F)) flag ids,
  length (t_cmat tr) = length (t_cindex tr) -> NoDup (t_cindex tr) ->
  map fst (constraint_currents O A tr flag ids) = filter (requested ids) (t_cindex tr)
  /\ (forall j c, nth_error (t_cindex tr) j = Some c -> requested ids c = true ->
        dict_get c (constraint_currents O A tr flag ids) = Some (series_row O A tr flag (nth j (t_cmat tr) [])))
  /\ (forall c, requested ids c = false \/ ~ In c (t_cindex tr) ->
        dict_get c (constraint_currents O A tr flag ids) = None).
Proof. exact (fun F O A => constraint_currents_structure O A). Qed.
Print Assumptions C18_constraint_currents_names.

(* energy totals and proportions follow from the sessions' requested and delivered energy *)
Theorem C18_energy_metrics : forall (tr : traj (F:=R)) threshold,
  total_energy_requested RO tr = Rsum (map fst (t_evh tr))
  /\ total_energy_delivered RO tr = Rsum (map snd (t_evh tr))
  /\ (Rsum (map fst (t_evh tr)) <> 0 ->
        proportion_of_energy_delivered RO RA tr = Some (Rsum (map snd (t_evh tr)) / Rsum (map fst (t_evh tr))))
  /\ (t_evh tr <> [] ->
        proportion_of_demands_met RO RA tr threshold
        = Some (INR (length (filter (fun e => Rltb (fst e - snd e) threshold) (t_evh tr)))
                / INR (length (t_evh tr)))).
Proof.
  exact (fun tr thr => conj (total_requested_ok tr) (conj (total_delivered_ok tr)
           (conj (proj1 (proportion_ok tr)) (demands_met_ok tr thr)))).
Qed.
Print Assumptions C18_energy_metrics.

(* the error branches: the code divides by zero there *)
Theorem C18_energy_metrics_undefined : forall (tr : traj (F:=R)) threshold,
  (Rsum (map fst (t_evh tr)) = 0 -> proportion_of_energy_delivered RO RA tr = None)
  /\ (t_evh tr = [] -> proportion_of_demands_met RO RA tr threshold = None).
Proof. exact (fun tr thr => conj (proj2 (proportion_ok tr)) (demands_met_none tr thr)). Qed.
Print Assumptions C18_energy_metrics_undefined.

(* NEMA: per period (max - mean) / mean of the three phase-current magnitudes (nan when the mean is 0),
   for any three existing phase ids in any order, distinct or not *)
Theorem C18_nema : forall (tr : traj (F:=R)) a b c ja jb jc,
  wf tr -> NoDup (t_cindex tr) ->
  nth_error (t_cindex tr) ja = Some a -> nth_error (t_cindex tr) jb = Some b -> nth_error (t_cindex tr) jc = Some c ->
  current_unbalance RO RA tr [a; b; c]
  = Some (map (fun t =>
           let ia := mag_spec tr ja t in let ib := mag_spec tr jb t in let ic := mag_spec tr jc t in
           let mean := (ia + (ib + ic)) / 3 in
           if Reqb mean 0 then None else Some ((Rmax (Rmax ia ib) ic - mean) / mean)) (periods tr)).
Proof. exact nema_ok. Qed.
Print Assumptions C18_nema.

(* an unknown phase id raises (KeyError) *)
Theorem C18_nema_unknown_id : forall (tr : traj (F:=R)) ids x,
  wf tr -> NoDup (t_cindex tr) -> In x ids -> ~ In x (t_cindex tr) -> current_unbalance RO RA tr ids = None.
Proof. exact nema_unknown_id. Qed.
Print Assumptions C18_nema_unknown_id.

(* datetimes_array: one entry per simulated period, entry k = start + k * period, spacing = period *)
Theorem C18_datetimes : forall tr : traj (F:=R),
  length (datetimes_minutes RO RA tr) = t_iter tr
  /\ (forall k, (k < t_iter tr)%nat -> nth k (datetimes_minutes RO RA tr) 0 = t_period tr * INR k)
  /\ (forall k, (S k < t_iter tr)%nat ->
        nth (S k) (datetimes_minutes RO RA tr) 0 - nth k (datetimes_minutes RO RA tr) 0 = t_period tr).
Proof. exact datetimes_ok. Qed.
Print Assumptions C18_datetimes.

(* consistency with C02: on the trajectory recorded by a ledger run, total_energy_delivered is the time
   integral of aggregate_power (ev_history in any order) *)
Theorem C18_consistent_with_C02 : forall T net ops st (tr : traj (F:=R)),
  Forall batt_ok (plugged_batts ops) -> simulate RO KR T net ops = Some st ->
  t_width tr = length (rates_by_period st) ->
  t_rates tr = station_major (rates_by_period st) (length net) ->
  t_volts tr = map s_volt net ->
  Permutation (map snd (t_evh tr)) (map e_energy (all_evs st)) ->
  total_energy_delivered RO tr = Rsum (map (fun p => p * (T / 60)) (aggregate_power RO RA tr)).
Proof. exact analysis_consistent_with_ledger. Qed.
Print Assumptions C18_consistent_with_C02.

(* ------------------------------------------------------------------------------------------------ *)
(* The same statements over CANONICAL RATIONALS (Qc) -- the instance the correspondence check executes   *)
(* against the real functions.  Proved once for any commutative-ring carrier (Proofs/AnalysisField.v);   *)
(* sqrt / max / comparisons are uninterpreted there (implementation-shaped and first-principles sides    *)
(* use the same functions; this instance's sqrt is a 2^-60 integer square root).  No axioms.            *)
(* ------------------------------------------------------------------------------------------------ *)
Theorem C18_kernels_lawful_rational : akern_laws Qc QcO QcA.
Proof. exact QcA_laws. Qed.
Print Assumptions C18_kernels_lawful_rational.

Theorem C18_aggregate_rational : forall tr : traj (F:=Qc),
  Forall (fun row => length row = t_width tr) (t_rates tr) ->
  length (aggregate_current QcO tr) = t_width tr
  /\ length (aggregate_power QcO QcA tr) = t_width tr
  /\ forall t, (t < t_width tr)%nat ->
       nth t (aggregate_current QcO tr) (Q2Qc 0) = aggregate_current_spec QcO tr t
       /\ nth t (aggregate_power QcO QcA tr) (Q2Qc 0) = aggregate_power_spec QcO tr t.
Proof. exact aggregate_Qc. Qed.
Print Assumptions C18_aggregate_rational.

(* the aggregates do not depend on the order in which the stations are listed (a consistent relabelling / re-ordering
   of the rows of charging_rates together with the voltages, e.g. after a reload, leaves them unchanged) *)
Theorem C18_aggregate_relabel_rational : forall tr tr' : traj (F:=Qc),
  Forall (fun row => length row = t_width tr) (t_rates tr) ->
  Forall (fun row => length row = t_width tr') (t_rates tr') ->
  t_width tr = t_width tr' ->
  Permutation (combine (t_volts tr) (t_rates tr)) (combine (t_volts tr') (t_rates tr')) ->
  length (t_volts tr) = length (t_rates tr) -> length (t_volts tr') = length (t_rates tr') ->
  aggregate_current QcO tr = aggregate_current QcO tr' /\ aggregate_power QcO QcA tr = aggregate_power QcO QcA tr'.
Proof. exact aggregate_relabel_Qc. Qed.
Print Assumptions C18_aggregate_relabel_rational.

(* energy_cost = sum_t price_t * aggregate power_t * T / 60 and demand_charge = rate * max_t aggregate power_t, for
   the price series / demand-charge rate of the tariff that applies (which tariff applies -- the explicit argument if
   given, otherwise the simulator's own -- is checked against the real functions by the correspondence; the tariff
   lookup itself is C17) *)
Theorem C18_costs_rational : forall (tr : traj (F:=Qc)) prices dc,
  Forall (fun row => length row = t_width tr) (t_rates tr) ->
  energy_cost QcO QcA tr prices = energy_cost_spec QcO tr prices
  /\ demand_charge QcO QcA tr dc = demand_charge_spec QcO tr dc.
Proof. exact costs_Qc. Qed.
Print Assumptions C18_costs_rational.

Theorem C18_constraint_currents_rational : forall (tr : traj (F:=Qc)) flag ids,
  wf tr -> NoDup (t_cindex tr) ->
  map fst (constraint_currents QcO QcA tr flag ids) = filter (requested ids) (t_cindex tr)
  /\ (forall j c, nth_error (t_cindex tr) j = Some c -> requested ids c = true ->
        dict_get c (constraint_currents QcO QcA tr flag ids) = Some (series_spec_of QcO QcA tr flag j))
  /\ (forall c, requested ids c = false \/ ~ In c (t_cindex tr) ->
        dict_get c (constraint_currents QcO QcA tr flag ids) = None).
Proof. exact constraint_currents_Qc. Qed.
Print Assumptions C18_constraint_currents_rational.

Theorem C18_energy_metrics_rational : forall (tr : traj (F:=Qc)) threshold,
  total_energy_requested QcO tr = fsumA QcO (map fst (t_evh tr))
  /\ total_energy_delivered QcO tr = fsumA QcO (map snd (t_evh tr))
  /\ proportion_of_energy_delivered QcO QcA tr
     = (if oeqb QcO (fsumA QcO (map fst (t_evh tr))) (Q2Qc 0) then None
        else Some (fsumA QcO (map snd (t_evh tr)) / fsumA QcO (map fst (t_evh tr)))%Qc)
  /\ proportion_of_demands_met QcO QcA tr threshold
     = match t_evh tr with
       | [] => None
       | _ => Some (Q2Qc (inject_Z (Z.of_nat (length (filter (fun e => Qltb (this (fst e - snd e)%Qc) (this threshold)) (t_evh tr)))))
                    / Q2Qc (inject_Z (Z.of_nat (length (t_evh tr)))))%Qc
       end.
Proof. exact metrics_Qc. Qed.
Print Assumptions C18_energy_metrics_rational.

Theorem C18_nema_rational : forall (tr : traj (F:=Qc)) a b c ja jb jc,
  wf tr -> NoDup (t_cindex tr) ->
  nth_error (t_cindex tr) ja = Some a -> nth_error (t_cindex tr) jb = Some b -> nth_error (t_cindex tr) jc = Some c ->
  current_unbalance QcO QcA tr [a; b; c]
  = Some (map (fun t => nema_spec QcO (cc_mag_spec QcO tr ja t) (cc_mag_spec QcO tr jb t) (cc_mag_spec QcO tr jc t))
              (periods tr)).
Proof. exact nema_Qc. Qed.
Print Assumptions C18_nema_rational.

Theorem C18_datetimes_rational : forall tr : traj (F:=Qc),
  length (datetimes_minutes QcO QcA tr) = t_iter tr
  /\ forall k, (k < t_iter tr)%nat ->
       nth k (datetimes_minutes QcO QcA tr) (Q2Qc 0) = (t_period tr * Q2Qc (inject_Z (Z.of_nat k)))%Qc.
Proof. exact datetimes_Qc. Qed.
Print Assumptions C18_datetimes_rational.

Theorem C18_consistent_with_C02_rational : forall (T : Qc) net ops st (tr : traj (F:=Qc)),
  Forall batt_ok_Qc (plugged_batts ops) -> simulate QcO KQc T net ops = Some st ->
  t_width tr = length (rates_by_period st) ->
  t_rates tr = station_major_of QcO (rates_by_period st) (length net) ->
  t_volts tr = map s_volt net ->
  Permutation (map snd (t_evh tr)) (map e_energy (all_evs st)) ->
  total_energy_delivered QcO tr
  = fsumA QcO (map (fun p => (p * (T / Q2Qc (inject_Z 60)))%Qc) (aggregate_power QcO QcA tr)).
Proof. exact consistent_with_ledger_Qc. Qed.
Print Assumptions C18_consistent_with_C02_rational.

(* ---- non-vacuity ---- *)
Example C18_wf_example :
  let tr := mk_traj 2%nat [[16; 0]; [8; 8]; [0; 32]] [208; 240; 277] [(1, 0); (0, 1); (-1, 0)]
                    [10%Z; 11%Z] [[1; 1; 0]; [0; 1; -1]] [(10, 4); (5, 5)] 2%nat 5 true in
  wf tr /\ NoDup (t_cindex tr) /\ nth_error (t_cindex tr) 1 = Some 11%Z /\ requested (Some [11%Z; 10%Z; 11%Z]) 11%Z = true.
Proof. exact analysis_example_wf. Qed.

(* the executable twin on the same trajectory: request [11; 10; 11] and [10; 11] give the same dict,
   keyed 10, 11 in network order; |16 + 8i| ~ 17.888 *)
Example C18_exec_example :
  let tr := mk_traj 2%nat [[16; 0]; [8; 8]; [0; 32]]%Q [208; 240; 277]%Q [(1, 0); (0, 1); (-1, 0)]%Q
                    [10%Z; 11%Z] [[1; 1; 0]; [0; 1; -1]]%Q [(10, 4); (5, 5)]%Q 2%nat 5%Q true in
  constraint_currents QO QA tr false (Some [11%Z; 10%Z; 11%Z]) = constraint_currents QO QA tr false (Some [10%Z; 11%Z])
  /\ map fst (constraint_currents QO QA tr false (Some [11%Z; 10%Z; 11%Z])) = [10%Z; 11%Z]
  /\ check_c18_example tr = true.
Proof. vm_compute. repeat split; reflexivity. Qed.
