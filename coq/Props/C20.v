(* Props/C20.v — the ACN-Data client yields every session once, in server order, and converts
   times faithfully.

   Vocabulary (Model/Client.v): the server is the finite list of pages it answers with, one per request
   (a page = its items and an optional `next` href); `paging ps` = every page but the last has a next link;
   get_sessions returns the trace (URLs requested, documents yielded, how the generator ended);
   `converted tz d` is the document after parse_dates; instants are seconds (Base/Calendar.v); an aware
   datetime is (local seconds, utc offset, zone) with instant = local - offset; a zone is an oracle
   z : UTC instant -> offset; rfc1123 t is the text http_date builds for the UTC instant t, obtained by
   interpreting the format strings regenerated from utils.py on every run (Gen/ClientShape.v):
   utc.strftime(K_strftime_prefix) + K_year_format % utc.year + utc.strftime(K_strftime_suffix).
   Only statements here; proofs in Proofs/Client.v. *)
From Coq Require Import ZArith List Bool String.
From ACN Require Import Base.Num Base.Calendar Gen.ClientShape Model.Client Proofs.Client.
Import ListNotations.
Open Scope string_scope.

(* For ANY well-formed paging of the result set (any number of pages, empty pages included) in which every
   document can be converted, and whatever the server would answer afterwards: the documents yielded are
   exactly the server's documents, each once, in server order; one request per page (the first URL, then
   each `next` href appended to the base URL); the generator ends normally. *)
Theorem C20_all_once_in_order : forall tz base q ps extra,
  valid_site (q_site q) = true -> paging ps -> Forall (convertible tz) (all_items ps) ->
  get_sessions tz base q (ps ++ extra) =
  {| t_requests := first_url base q :: next_urls base ps;
     t_yielded := map (converted tz) (all_items ps);
     t_outcome := Done |}.
Proof. exact get_sessions_paging. Qed.
Print Assumptions C20_all_once_in_order.

(* For ANY server behaviour at all (ill-formed paging, responses running out, unconvertible documents):
   what has been yielded is a prefix of the server's documents in order — nothing twice, nothing skipped,
   nothing reordered. *)
Theorem C20_never_out_of_order : forall tz base q responses,
  exists k, t_yielded (get_sessions tz base q responses)
            = map (converted tz) (firstn k (all_items responses)).
Proof. exact get_sessions_prefix. Qed.
Print Assumptions C20_never_out_of_order.

(* Laziness (the generator is consumed session by session): taking only k sessions and closing the generator
   yields the first k of what full consumption yields, makes only a prefix of the requests (none at all, not
   even the site check, for k = 0), and is the full run as soon as k exceeds the number of sessions. *)
Theorem C20_lazy_prefix : forall tz base q responses k,
  t_yielded (get_sessions_take tz base q responses k) = firstn k (t_yielded (get_sessions tz base q responses)) /\
  (exists m, t_requests (get_sessions_take tz base q responses k)
             = firstn m (t_requests (get_sessions tz base q responses))) /\
  ((List.length (t_yielded (get_sessions tz base q responses)) < k)%nat ->
   get_sessions_take tz base q responses k = get_sessions tz base q responses) /\
  get_sessions_take tz base q responses 0 = {| t_requests := []; t_yielded := []; t_outcome := Suspended |}.
Proof.
  exact (fun tz base q responses k =>
    let '(conj a (conj b c)) := take_spec tz base q responses k in
    conj a (conj b (conj c (take_zero tz base q responses)))).
Qed.
Print Assumptions C20_lazy_prefix.

(* exactly #pages requests: it stops at the first page without a next link *)
Theorem C20_stops : forall tz base q ps extra,
  valid_site (q_site q) = true -> paging ps -> Forall (convertible tz) (all_items ps) ->
  List.length (t_requests (get_sessions tz base q (ps ++ extra))) = List.length ps.
Proof.
  exact (fun tz base q ps extra Hs Hp Hc =>
    eq_trans (f_equal (fun t => List.length (t_requests t)) (get_sessions_paging tz base q ps extra Hs Hp Hc))
             (next_urls_length base ps Hp)).
Qed.
Print Assumptions C20_stops.

(* The query: an invalid site raises ValueError before any request; a valid one makes the first request to
   <base>sessions/<site>[/ts/]?<args> where args are exactly where / project / sort (those that were given,
   verbatim, in this order) and max_results (100, or 1 for time series). *)
Theorem C20_query : forall tz base q responses,
  (valid_site (q_site q) = true <-> q_site q = "caltech" \/ q_site q = "jpl" \/ q_site q = "office001") /\
  (valid_site (q_site q) = false ->
     get_sessions tz base q responses = {| t_requests := []; t_yielded := []; t_outcome := Raised "ValueError" |}) /\
  (valid_site (q_site q) = true ->
     exists more, t_requests (get_sessions tz base q responses) = first_url base q :: more) /\
  first_url base q = base ++ "sessions/" ++ q_site q ++ (if q_timeseries q then "/ts/" else "") ++ "?"
                     ++ join "&" (query_args q) /\
  query_args q = (match q_cond q with Some c => [("where=" ++ c)%string] | None => [] end ++
                  match q_project q with Some p => [("project=" ++ p)%string] | None => [] end ++
                  match q_sort q with Some s => [("sort=" ++ s)%string] | None => [] end ++
                  [if q_timeseries q then "max_results=1" else "max_results=100"])%list.
Proof.
  exact (fun tz base q responses =>
    conj (valid_site_iff (q_site q)) (conj (invalid_site tz base q responses)
   (conj (first_request tz base q responses) (conj eq_refl (query_args_spec q))))).
Qed.
Print Assumptions C20_query.

(* count_sessions (also reached through get_sessions_by_time(count=True)): an invalid site raises before any
   request; otherwise exactly one HEAD request to <base>sessions/<site>?[where=<cond>&]limit=1 *)
Theorem C20_count_query : forall base site cond total,
  (valid_site site = false -> count_sessions base site cond total = ([], Err "ValueError")) /\
  (valid_site site = true ->
     count_sessions base site cond total =
     ([base ++ "sessions/" ++ site ++ "?" ++ match cond with Some c => "where=" ++ c ++ "&limit=1" | None => "limit=1" end],
      match total with Some h => Ok h | None => Err "KeyError" end)).
Proof. exact count_sessions_spec. Qed.
Print Assumptions C20_count_query.

(* the string literals the model is built from are re-read from data_client.py / utils.py on every run
   (Gen/ClientShape.v); this fails to compile as soon as one of them changes *)
Theorem C20_literals :
  (K_strftime_prefix ++ "%Y" ++ K_strftime_suffix = rfc1123_format /\ K_year_format = "%04d") /\
  K_strptime_format = rfc1123_format /\
  K_valid_sites = ["caltech"; "jpl"; "office001"] /\ K_site_error = "ValueError" /\
  K_endpoint = "sessions/" /\ K_ts_suffix = "/ts/" /\ K_limit = "100" /\ K_limit_ts = "1" /\
  K_arg_cond = "where=" /\ K_arg_project = "project=" /\ K_arg_sort = "sort=" /\
  K_arg_max_results = "max_results=" /\ K_query_mark = "?" /\ K_arg_sep = "&".
Proof. exact client_literals. Qed.
Print Assumptions C20_literals.

(* the same, written out for a fully specified query and for the time-window wrapper's query *)
Theorem C20_query_text : forall base site c p s,
  first_url base {| q_site := site; q_cond := Some c; q_project := Some p; q_sort := Some s; q_timeseries := false |}
    = base ++ "sessions/" ++ site ++ "?where=" ++ c ++ "&project=" ++ p ++ "&sort=" ++ s ++ "&max_results=100" /\
  first_url base {| q_site := site; q_cond := Some c; q_project := None; q_sort := Some "connectionTime"; q_timeseries := true |}
    = base ++ "sessions/" ++ site ++ "/ts/?where=" ++ c ++ "&sort=connectionTime&max_results=1" /\
  first_url base {| q_site := site; q_cond := None; q_project := None; q_sort := None; q_timeseries := false |}
    = base ++ "sessions/" ++ site ++ "?max_results=100".
Proof.
  exact (fun base site c p s => conj (first_url_full base site c p s)
                                     (conj (first_url_ts base site c) (first_url_plain base site))).
Qed.
Print Assumptions C20_query_text.

(* get_sessions_by_time: the where clause carries the RFC-1123 text of both bounds *)
Theorem C20_time_window : forall start stop,
  in_range (instant start) = true -> in_range (instant stop) = true ->
  time_cond (Some start) (Some stop) None =
  Ok ("connectionTime >= """ ++ rfc1123 (instant start) ++ """ and connectionTime <= """
      ++ rfc1123 (instant stop) ++ """").
Proof. exact by_time_cond. Qed.
Print Assumptions C20_time_window.

(* Round trip, every instant at second resolution in years 1..9999 (min_t = 0001-01-01 00:00:00,
   max_t = 9999-12-31 23:59:59, in_range t <-> min_t <= t <= max_t), for the text the regenerated format strings
   produce: parsing it back gives the instant; on aware datetimes http_date followed by parse_http_date is the
   conversion of the same instant into the target zone, and the identity when the target zone is the datetime's
   own; outside years 1..9999 (in UTC) http_date raises OverflowError. *)
Theorem C20_roundtrip :
  (forall t, (min_t <= t <= max_t)%Z -> parse_rfc1123 (rfc1123 t) = Some t) /\
  (forall zn z a, in_range (instant a) = true ->
     res_bind (http_date a) (parse_http_date zn z) = astimezone zn z (instant a)) /\
  (forall z a, in_range (instant a) = true -> a_off a = z (instant a) -> in_range (a_local a) = true ->
     res_bind (http_date a) (parse_http_date (a_zone a) z) = Ok a) /\
  (forall a, in_range (instant a) = false -> http_date a = Err "OverflowError").
Proof.
  exact (conj parse_rfc1123_rfc1123 (conj roundtrip_aware (conj roundtrip_identity http_date_overflow))).
Qed.
Print Assumptions C20_roundtrip.

(* the witness of the defect fixed in /repo 87c5f78 (three-digit year): 0999-06-15 12:30:45 UTC *)
Example C20_year_999_example :
  http_date a999 = Ok "Sat, 15 Jun 0999 12:30:45 GMT" /\
  res_bind (http_date a999) (parse_http_date "UTC" (fun _ => 0%Z)) = Ok a999.
Proof. exact year_999_roundtrips. Qed.

(* Conversion keeps the instant: a served RFC-1123 timestamp of instant u becomes, in zone (zn, z), an aware
   datetime a with instant a = u, offset z u, zone zn (or OverflowError when u + z u leaves years 1..9999);
   and whatever string parse_http_date accepts, the result denotes the instant the text denotes. *)
Theorem C20_same_instant : forall zn z,
  (forall u, (min_t <= u <= max_t)%Z ->
     parse_http_date zn z (rfc1123 u) = astimezone zn z u /\
     (in_range (u + z u) = true ->
      parse_http_date zn z (rfc1123 u) = Ok {| a_local := u + z u; a_off := z u; a_zone := zn |})) /\
  (forall s a, parse_http_date zn z s = Ok a ->
     exists u, parse_rfc1123 s = Some u /\ instant a = u /\ a_off a = z u /\ a_zone a = zn).
Proof.
  exact (fun zn z => conj
    (fun u H => conj (parse_served zn z u H)
                     (fun Hr => eq_trans (parse_served zn z u H) (astimezone_ok zn z u Hr)))
    (parse_http_date_spec zn z)).
Qed.
Print Assumptions C20_same_instant.

(* parse_dates: keys and order are kept; a string that is an RFC-1123 timestamp becomes an aware datetime of
   the same instant in the document's zone, any other string and any other value is unchanged; a time series
   is converted element-wise (same length, entry i = conversion of timestamp i). *)
Theorem C20_timeseries : forall tz d d', parse_dates tz d = Ok d' ->
  exists zn z, dlookup "timezone" d = Some (JStr zn) /\ tz zn = Some z /\
    Forall2 (fun kv kv' => fst kv' = fst kv /\ field_converted zn z (snd kv) (snd kv')) d d'.
Proof. exact parse_dates_spec. Qed.
Print Assumptions C20_timeseries.

Theorem C20_timeseries_elementwise : forall zn z ts,
  (forall l, conv_series zn z ts = Ok l ->
     List.length l = List.length ts /\
     forall i, (i < List.length ts)%nat ->
       exists a, nth_error l i = Some a /\ parse_http_date zn z (nth i ts "") = Ok a) /\
  (forall e, conv_series zn z ts = Err e ->
     exists i, (i < List.length ts)%nat /\ parse_http_date zn z (nth i ts "") = Err e).
Proof. exact (fun zn z ts => conj (conv_series_spec zn z ts) (conv_series_err zn z ts)). Qed.
Print Assumptions C20_timeseries_elementwise.

(* ---- the hypotheses are satisfiable: three pages (the middle one empty), two sessions in Los Angeles ---- *)
Definition la : zone := fun u => (-28800)%Z.
Definition tz_example : tzdb := fun n => if String.eqb n "America/Los_Angeles" then Some la else None.
Definition doc_example (id : string) (t : Z) : doc :=
  [("_id", JStr id); ("connectionTime", JStr (rfc1123 t)); ("timezone", JStr "America/Los_Angeles");
   ("kWhDelivered", JOpaque 0)].
Definition pages_example : list page :=
  [ {| p_items := [doc_example "a" 63683226005]; p_next := Some "sessions/caltech?page=2" |};
    {| p_items := []; p_next := Some "sessions/caltech?page=3" |};
    {| p_items := [doc_example "b" 63683229605]; p_next := None |} ].

Example C20_paging_example :
  paging pages_example /\ Forall (convertible tz_example) (all_items pages_example) /\
  let tr := get_sessions tz_example "http://h/"
              {| q_site := "caltech"; q_cond := None; q_project := None; q_sort := None; q_timeseries := false |}
              pages_example in
  t_requests tr = ["http://h/sessions/caltech?max_results=100"; "http://h/sessions/caltech?page=2";
                   "http://h/sessions/caltech?page=3"] /\
  map (dlookup "_id") (t_yielded tr) = [Some (JStr "a"); Some (JStr "b")] /\
  map (dlookup "connectionTime") (t_yielded tr) =
    [Some (JDate {| a_local := 63683226005 - 28800; a_off := -28800; a_zone := "America/Los_Angeles" |});
     Some (JDate {| a_local := 63683229605 - 28800; a_off := -28800; a_zone := "America/Los_Angeles" |})].
Proof.
  split; [simpl; repeat split; discriminate|].
  split.
  - repeat constructor; eexists; vm_compute; reflexivity.
  - vm_compute. auto.
Qed.
