From Coq Require Import ZArith List Bool String.
From ACN Require Import Base.Num Base.Calendar Model.Client Proofs.Client.
Theorem C20_placeholder : True. Proof. exact placeholder_c20. Qed.
Print Assumptions C20_placeholder.
