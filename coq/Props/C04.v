(* Props/C04.v — applied pilots are exactly what the submitted schedules say.
   Only statements, each closed by `exact <lemma>` (proofs: Proofs/Pilots.v; model: Model/Pilots.v,
   which calls the kernels regenerated from simulator.py / charging_network.py in Gen/Pilots_Z.v).

   Vocabulary (Model/Pilots.v).  K: station ids (dict keys, compared by keqb), A: pilot values with
   `zero`.  A schedule is the association list of a Python dict {station: [pilots]}.
   `run keqb zero ids (init zero ids last0) trace`: the pilot part of Simulator.run() on a fresh
   simulator whose network has stations `ids` (in station_ids order); element i of `trace` is period i:
   p_last = event_queue.get_last_timestamp() after the events of that period (None = queue drained),
   p_sub = Some s when the scheduler ran and returned s.  The final state has the matrix
   `rows (pil st)` (station-major) of width `wid (pil st)`, and `sent st`: the pilots handed to the
   EVSEs, one row per period, most recent first.
   `pilot_spec keqb zero subs k t` (subs most recent first): the value assigned to station k, period t
   by the LAST submission (t', s) with t' <= t < t' + len s (stations omitted by s read zero), zero when
   no submission covers t.  `submitted trace` are the submissions contained in the trace. *)
From Coq Require Import String ZArith List Bool Arith Permutation.
From ACN Require Import Base.Num Gen.Pilots_Z Model.Pilots Proofs.Pilots.
Import ListNotations.
Local Open Scope nat_scope.
Local Open Scope list_scope.

(* After ANY sequence of periods with or without submissions, the recorded matrix is the overlay of
   the submissions: entry (station s, period t) is pilot_spec for every allocated column, and
   nothing was submitted for the columns that are not allocated. *)
Theorem C04_overlay : forall (K A : Type) (keqb : K -> K -> bool) (zero : A)
    (ids : list K) (last0 : option Z) (trace : list (period_in K A)) (st : sim K A),
  run keqb zero ids (init zero ids last0) trace = OkS st ->
  length (rows (pil st)) = length ids /\
  (forall s k, nth_error ids s = Some k ->
     exists row, nth_error (rows (pil st)) s = Some row /\ length row = wid (pil st) /\
       forall t, t < wid (pil st) -> nth t row zero = pilot_spec keqb zero (submitted trace) k t) /\
  (forall k t, wid (pil st) <= t -> pilot_spec keqb zero (submitted trace) k t = zero).
Proof. exact @overlay_thm. Qed.
Print Assumptions C04_overlay.

(* The same for ANY caller, not only run(): any sequence of direct _update_schedules calls — at arbitrary,
   not necessarily increasing iterations, with any queue state, rejected calls being caught and followed
   by further calls — interleaved with _increase_width calls, on a simulator object that starts with a
   zero matrix of any width: the matrix is the overlay (in call order, the last covering call wins) of
   exactly the calls that returned normally (`acc`; by C04_outcomes these are the well-formed ones), and
   every call produced one outcome.  In particular a simulator object that is driven repeatedly keeps no
   other memory of earlier calls than this overlay. *)
Theorem C04_overlay_calls : forall (K A : Type) (keqb : K -> K -> bool) (zero : A),
  (forall a b, keqb a b = true <-> a = b) ->
  forall (ids : list K) (w0 : nat) (calls : list (call K A)),
  match run_calls keqb zero ids (zero_mat zero ids w0) calls [] [] with
  | (m, acc, log) =>
      length (rows m) = length ids /\
      (forall s k, nth_error ids s = Some k ->
         exists row, nth_error (rows m) s = Some row /\ length row = wid m /\
           forall t, t < wid m -> nth t row zero = pilot_spec keqb zero acc k t) /\
      (forall k t, wid m <= t -> pilot_spec keqb zero acc k t = zero) /\
      length log = length calls
  end.
Proof. exact @calls_overlay_thm. Qed.
Print Assumptions C04_overlay_calls.

(* The pilots sent to the stations in period t (one value per station, in station order) are what
   the submissions made up to period t say, which is also what all submissions of the run say, and
   it is exactly column t of the recorded matrix ("applied" = "recorded"). *)
Theorem C04_applied : forall (K A : Type) (keqb : K -> K -> bool) (zero : A)
    (ids : list K) (last0 : option Z) (trace : list (period_in K A)) (st : sim K A),
  run keqb zero ids (init zero ids last0) trace = OkS st ->
  length (sent st) = length trace /\
  forall t row, nth_error (rev (sent st)) t = Some row ->
    row = map (fun k => pilot_spec keqb zero (upto t (submitted trace)) k t) ids /\
    row = map (fun k => pilot_spec keqb zero (submitted trace) k t) ids /\
    (forall s mrow, nth_error (rows (pil st)) s = Some mrow -> nth_error row s = Some (nth t mrow zero)).
Proof. exact @applied_thm. Qed.
Print Assumptions C04_applied.

(* An empty schedule changes nothing: _update_schedules returns the matrix it was given, and an empty
   submission never contributes to pilot_spec. *)
Theorem C04_empty_noop : forall (K A : Type) (keqb : K -> K -> bool) (zero : A)
    (ids : list K) (last : option Z) (it : nat) (p : pmat A),
  update_schedules keqb zero ids last it p [] = OkS p /\
  forall subs k t, pilot_spec keqb zero ((it, []) :: subs) k t = pilot_spec keqb zero subs k t.
Proof.
  exact (fun K A keqb zero ids last it p =>
           conj (update_empty keqb zero ids last it p) (pilot_spec_empty keqb zero it)).
Qed.
Print Assumptions C04_empty_noop.

(* The whole outcome of _update_schedules — the new matrix, or the exception class and the state at
   the raise — is the same for every ordering of the mapping's entries (a dict has distinct keys). *)
Theorem C04_order_independent : forall (K A : Type) (keqb : K -> K -> bool) (zero : A),
  (forall a b, keqb a b = true <-> a = b) ->
  forall (ids : list K) (last : option Z) (it : nat) (p : pmat A) (s s' : schedule K A),
  Permutation s s' -> NoDup (map fst s) ->
  update_schedules keqb zero ids last it p s = update_schedules keqb zero ids last it p s'.
Proof. exact @update_perm. Qed.
Print Assumptions C04_order_independent.

(* ... and so does a whole run: if every period of trace' is the corresponding period of trace with the
   entries of its mapping permuted, both runs end the same way (same exception class, if any) with the
   same matrix, the same iteration counter and the same pilots sent in every period. *)
Theorem C04_order_independent_run : forall (K A : Type) (keqb : K -> K -> bool) (zero : A),
  (forall a b, keqb a b = true <-> a = b) ->
  forall (ids : list K) (last0 : option Z) (trace trace' : list (period_in K A)),
  Forall2 (fun a b => p_last a = p_last b /\
             match p_sub a, p_sub b with
             | None, None => True
             | Some s, Some s' => Permutation s s' /\ NoDup (map fst s)
             | _, _ => False
             end) trace trace' ->
  match run keqb zero ids (init zero ids last0) trace, run keqb zero ids (init zero ids last0) trace' with
  | OkS a, OkS b => pil a = pil b /\ itn a = itn b /\ sent a = sent b
  | ErrS e a, ErrS e' b => e = e' /\ pil a = pil b /\ itn a = itn b /\ sent a = sent b
  | _, _ => False
  end.
Proof.
  exact (fun K A keqb zero H ids last0 t t' H2 =>
           run_perm_thm keqb zero H ids t t' H2 (init zero ids last0) (init zero ids last0)
             (conj eq_refl (conj eq_refl eq_refl))).
Qed.
Print Assumptions C04_order_independent_run.

(* _increase_width keeps every entry, appends zeros, never shrinks. *)
Theorem C04_growth_preserves : forall (A : Type) (zero : A) (n : nat) (m : pmat A) (target : Z),
  wfm n m ->
  let m' := increase_width zero m target in
  wfm n m' /\ wid m' = Nat.max (wid m) (Z.to_nat target) /\
  rows m' = map (fun r => r ++ repeat zero (wid m' - wid m)) (rows m) /\
  (forall s r, nth_error (rows m) s = Some r ->
     exists r', nth_error (rows m') s = Some r' /\ forall t, nth t r' zero = nth t r zero).
Proof. exact @increase_width_thm. Qed.
Print Assumptions C04_growth_preserves.

(* A non-empty schedule over known stations with rows of one length `len` (any len, 0 included) is
   ACCEPTED at every iteration `it`, for every matrix, and for every value of get_last_timestamp() —
   None, i.e. the period in which the queue has just been drained, included.  The result has the block
   written at columns it .. it+len-1 (omitted stations zero), everything else kept (new columns zero),
   and the stated width. *)
Theorem C04_growth : forall (K A : Type) (keqb : K -> K -> bool) (zero : A),
  (forall a b, keqb a b = true <-> a = b) ->
  forall (ids : list K) (last : option Z) (it : nat) (p : pmat A) (s : schedule K A) (len : nat),
  wfm (length ids) p -> s <> [] ->
  (forall k row, In (k, row) s -> In k ids /\ length row = len) ->
  exists p', update_schedules keqb zero ids last it p s = OkS p' /\ wfm (length ids) p' /\
    wid p' = (if it + len <=? wid p then wid p
              else Nat.max (match last with None => 0 | Some v => Z.to_nat (v + 1) end) (it + len)) /\
    forall i k r, nth_error ids i = Some k -> nth_error (rows p) i = Some r ->
      exists r', nth_error (rows p') i = Some r' /\ length r' = wid p' /\
        forall t, nth t r' zero =
                  if (it <=? t) && (t <? it + len) then sched_val keqb zero s k (t - it) else nth t r zero.
Proof. exact @accept_thm. Qed.
Print Assumptions C04_growth.

(* At the level of run(): when every submission is well-formed (empty, or known stations and rows of
   one length) and the queue never reports a pending event in the past, no period raises — whatever
   the lengths, at whatever periods, including submissions in the queue-draining period. *)
Theorem C04_run_accepts : forall (K A : Type) (keqb : K -> K -> bool) (zero : A)
    (ids : list K) (last0 : option Z) (trace : list (period_in K A)),
  trace_ok keqb ids 0 trace -> exists st, run keqb zero ids (init zero ids last0) trace = OkS st.
Proof. exact @run_accepts_thm. Qed.
Print Assumptions C04_run_accepts.

(* Rejections.  A mapping naming a station that is not in the network raises KeyError (also when its
   rows are ragged as well); a mapping over known stations with two rows of different lengths raises
   InvalidScheduleError; in both cases the matrix is returned untouched. *)
Theorem C04_reject_atomic : forall (K A : Type) (keqb : K -> K -> bool) (zero : A),
  (forall a b, keqb a b = true <-> a = b) ->
  forall (ids : list K) (last : option Z) (it : nat) (p : pmat A) (s : schedule K A),
  (forall k row, In (k, row) s -> ~ In k ids ->
     update_schedules keqb zero ids last it p s = ErrS "KeyError"%string p) /\
  (forall k1 r1 k2 r2, (forall k row, In (k, row) s -> In k ids) ->
     In (k1, r1) s -> In (k2, r2) s -> length r1 <> length r2 ->
     update_schedules keqb zero ids last it p s = ErrS "InvalidScheduleError"%string p).
Proof.
  exact (fun K A keqb zero H ids last it p s =>
           conj (fun k row => reject_unknown_thm keqb zero H ids last it p s k row)
                (fun k1 r1 k2 r2 => reject_ragged_thm keqb zero H ids last it p s k1 r1 k2 r2)).
Qed.
Print Assumptions C04_reject_atomic.

(* Complete case analysis of _update_schedules on a well-formed matrix: it returns normally exactly for
   the empty mapping (matrix untouched) and for non-empty mappings over known stations with rows of one
   length; otherwise it raises KeyError (some station unknown) or InvalidScheduleError (all known, two
   rows of different lengths) — no other exception — and in every error case the matrix is untouched. *)
Theorem C04_outcomes : forall (K A : Type) (keqb : K -> K -> bool) (zero : A),
  (forall a b, keqb a b = true <-> a = b) ->
  forall (ids : list K) (last : option Z) (it : nat) (p : pmat A) (s : schedule K A),
  wfm (length ids) p ->
  match update_schedules keqb zero ids last it p s with
  | OkS p' =>
      (s = [] /\ p' = p) \/
      (s <> [] /\ (forall k row, In (k, row) s -> In k ids /\ length row = sub_len s))
  | ErrS e pe =>
      pe = p /\
      ((e = "KeyError"%string /\ exists k row, In (k, row) s /\ ~ In k ids) \/
       (e = "InvalidScheduleError"%string /\ (forall k row, In (k, row) s -> In k ids) /\
        exists k1 r1 k2 r2, In (k1, r1) s /\ In (k2, r2) s /\ length r1 <> length r2))
  end.
Proof. exact @classify_thm. Qed.
Print Assumptions C04_outcomes.

(* ... and run() is left with that exception in exactly the state reached at the end of the previous
   period: matrix, iteration counter, schedule history and the pilots already sent are unchanged. *)
Theorem C04_reject_atomic_run : forall (K A : Type) (keqb : K -> K -> bool) (zero : A)
    (ids : list K) (st0 st1 : sim K A) (good : list (period_in K A)) (last : option Z)
    (s : schedule K A) (rest : list (period_in K A)) (exc : string),
  run keqb zero ids st0 good = OkS st1 ->
  update_schedules keqb zero ids last (itn st1) (pil st1) s = ErrS exc (pil st1) ->
  run keqb zero ids st0 (good ++ {| p_last := last; p_sub := Some s |} :: rest) = ErrS exc st1.
Proof. exact @reject_run_thm. Qed.
Print Assumptions C04_reject_atomic_run.

(* ---- the theorems rest on these facts about the code as regenerated in Gen/Pilots_Z.v ---- *)
Theorem C04_kernels :
  (forall n, Sim_upd_is_empty (Z.of_nat n) = true <-> n = 0) /\
  (forall n, Sim_upd_ragged (Z.of_nat n) = true <-> 1 < n) /\
  (forall i w l, Sim_upd_fits (Z.of_nat i) (Z.of_nat w) (Z.of_nat l) = true <-> i + l <= w) /\
  (forall i l, Z.to_nat (Sim_upd_lo (Z.of_nat i)) = i /\ Z.to_nat (Sim_upd_hi (Z.of_nat i) (Z.of_nat l)) = i + l /\
               Z.to_nat (Sim_upd_glo (Z.of_nat i)) = i /\ Z.to_nat (Sim_upd_ghi (Z.of_nat i) (Z.of_nat l)) = i + l) /\
  (forall i last l, Z.to_nat (Sim_upd_grow_width (Z.of_nat i) last (Z.of_nat l)) =
                    Nat.max (match last with None => 0 | Some v => Z.to_nat (v + 1) end) (i + l)) /\
  (forall w t, Sim_incw_keep (Z.of_nat w) t = true <-> (t <= Z.of_nat w)%Z) /\
  (forall i, run_width None i = Z.of_nat (i + 1)) /\ (forall v i, run_width (Some v) i = (v + 1)%Z) /\
  (forall i, Z.to_nat (Sim_run_next_iteration (Z.of_nat i)) = S i) /\
  (forall i, Z.to_nat (Net_update_pilots_col (Z.of_nat i)) = i).
Proof.
  exact (conj k_is_empty (conj k_ragged (conj k_fits
        (conj (fun i l => conj (k_lo i) (conj (k_hi i l) (conj (k_glo i) (k_ghi i l))))
        (conj k_grow_width (conj k_incw_keep (conj k_run_width_none (conj k_run_width_some
        (conj k_next k_col))))))))).
Qed.
Print Assumptions C04_kernels.

(* ---- non-vacuity: a concrete run (K = Z, A = Z, two stations 7 and 3 registered in that order) ----
   period 0: schedule {3: [5,6,7]} (station 7 omitted); period 1: nothing; period 2, queue drained:
   {7: [9,9,9,9], 3: [1,2,3,4]} reaching beyond the 3 allocated columns. *)
Definition ex_trace : list (period_in Z Z) :=
  [ {| p_last := Some 2%Z; p_sub := Some [(3%Z, [5%Z; 6%Z; 7%Z])] |};
    {| p_last := Some 2%Z; p_sub := None |};
    {| p_last := None; p_sub := Some [(7%Z, [9%Z; 9%Z; 9%Z; 9%Z]); (3%Z, [1%Z; 2%Z; 3%Z; 4%Z])] |} ].

Example C04_example_run :
  exists st, run Z.eqb 0%Z [7%Z; 3%Z] (init 0%Z [7%Z; 3%Z] (Some 2%Z)) ex_trace = OkS st /\
    rows (pil st) = [[0; 0; 9; 9; 9; 9]; [5; 6; 1; 2; 3; 4]]%Z /\ wid (pil st) = 6 /\
    rev (sent st) = [[0; 5]; [0; 6]; [9; 1]]%Z.
Proof. eexists. vm_compute. repeat split. Qed.

Example C04_example_trace_ok : trace_ok Z.eqb [7%Z; 3%Z] 0 ex_trace.
Proof.
  simpl. repeat split; try discriminate.
  - intros s H. inversion H; subst. right. split.
    + intros k row [E|[]]. inversion E. reflexivity.
    + exists 3. intros k row [E|[]]. inversion E. reflexivity.
  - intros v H. inversion H. discriminate.
  - intros v H. inversion H. discriminate.
  - intros s H. inversion H; subst. right. split.
    + intros k row [E|[E|[]]]; inversion E; reflexivity.
    + exists 4. intros k row [E|[E|[]]]; inversion E; reflexivity.
Qed.

Example C04_example_reject :
  update_schedules Z.eqb 0%Z [7%Z; 3%Z] None 0 {| rows := [[0%Z]; [0%Z]]; wid := 1 |} [(8%Z, [1%Z])]
  = ErrS "KeyError"%string {| rows := [[0%Z]; [0%Z]]; wid := 1 |} /\
  update_schedules Z.eqb 0%Z [7%Z; 3%Z] None 0 {| rows := [[0%Z]; [0%Z]]; wid := 1 |} [(7%Z, [1%Z]); (3%Z, [1%Z; 2%Z])]
  = ErrS "InvalidScheduleError"%string {| rows := [[0%Z]; [0%Z]]; wid := 1 |}.
Proof. split; reflexivity. Qed.
