(* Props/C02.v — energy ledger: recorded rates, EV energy and battery charge agree.

   The model is Model/Ledger.v (one polymorphic state machine: Plugin / Unplug / Step = one
   simulator period), instantiated over R with the kernels REGENERATED from /repo on every run:
     Battery.charge, Linear2StageBattery._charge / _charge_stepwise, EV.charge   (Gen/Battery_R.v)
     BaseEVSE.set_pilot, BaseEVSE.plugin / unplug                                (Gen/Evse_R.v, EvseZ_Z.v)
     the element of ChargingNetwork.current_charging_rates, the peak update       (Gen/Ledger_R.v)
   `simulate RO KR T net ops = Some st` means: the run did not raise.  All statements hold for every
   network, voltage, period, battery, session set, pilot vector and noise draw.

   Vocabulary:  cols st / rates_by_period st = Simulator.charging_rates (one list per period),
   occs st / occupancy_by_period st = which session was connected to each station in that period,
   all_evs st = the EV objects in Simulator.ev_history,
   ledger_sum RO T net (cols st) (occs st) x
      = sum over periods t and stations s with (session x connected to s in t) of
        rates[s][t] * V_s / 1000 * (T / 60). *)
From Coq Require Import ZArith QArith Qcanon Qminmax Reals Lra List Bool.
From ACN Require Import Base.Num Base.NumR Gen.Battery_Q Gen.Battery_R Model.EVSE Model.Ledger Model.LedgerR Model.LedgerQ
                        Model.LedgerQc Proofs.LedgerField Proofs.Ledger Proofs.LedgerQc Proofs.LedgerResume.
Import ListNotations.
Open Scope R_scope.

(* ---- the three battery laws obey the consistency law  charge' - charge = rate * V/1000 * T/60 ---- *)
Theorem C02_battery_consistent_ideal : forall cap cur pw maxp pilot v t o,
  Battery_charge cap cur pw maxp pilot v t = OkS o ->
  0 < v /\ 0 < t /\
  Battery_charge__current_charge o - cur = Battery_charge_ret o * v / 1000 * (t / 60).
Proof. exact battery_consistent_ideal. Qed.
Print Assumptions C02_battery_consistent_ideal.

(* for every noise draw (n, n2) *)
Theorem C02_battery_consistent_stepwise : forall cap cur pw maxp noise_level tsoc pilot v t n n2 o,
  L2_charge_stepwise cap cur pw maxp noise_level tsoc pilot v t n n2 = OkS o ->
  0 < v /\ 0 < t /\
  L2_charge_stepwise__current_charge o - cur = L2_charge_stepwise_ret o * v / 1000 * (t / 60).
Proof. exact battery_consistent_stepwise. Qed.
Print Assumptions C02_battery_consistent_stepwise.

(* including the `pilot == 0` early return and the noise term; capacity 0 raises ZeroDivisionError in the code *)
Theorem C02_battery_consistent_continuous : forall cap cur pw maxp noise_level tsoc pilot v t n o,
  cap <> 0 ->
  L2_charge cap cur pw maxp noise_level tsoc pilot v t n = OkS o ->
  0 < v /\ 0 < t /\
  L2_charge__current_charge o - cur = L2_charge_ret o * v / 1000 * (t / 60).
Proof. exact battery_consistent_continuous. Qed.
Print Assumptions C02_battery_consistent_continuous.

(* the regenerated kernels satisfy every law the ledger needs *)
Theorem C02_kernels_lawful : kern_laws KR batt_ok.
Proof. exact KR_laws. Qed.
Print Assumptions C02_kernels_lawful.

(* ---- the ledger: for every session, reported energy = integral of its recorded rates = charge gained ---- *)
Theorem C02_ledger : forall (T : R) net ops st,
  NoDup (plugged_sids ops) ->                 (* each session is plugged at most once (C01) *)
  Forall batt_ok (plugged_batts ops) ->
  simulate RO KR T net ops = Some st ->
  forall e, In e (all_evs st) ->
    e_energy e = ledger_sum RO T net (cols st) (occs st) (e_sid e)
    /\ exists c0, init_charge KR ops (e_sid e) = Some c0 /\ e_energy e = b_cur (e_batt e) - c0.
Proof. exact (ledger_any (batt R) KR batt_ok KR_laws). Qed.
Print Assumptions C02_ledger.

(* the same for ANY battery model that satisfies the consistency law *)
Theorem C02_ledger_any_battery : forall B (K : kern R B) bwf, kern_laws K bwf ->
  forall (T : R) net ops st,
  NoDup (plugged_sids ops) -> Forall bwf (plugged_batts ops) ->
  simulate RO K T net ops = Some st ->
  forall e, In e (all_evs st) ->
    e_energy e = ledger_sum RO T net (cols st) (occs st) (e_sid e)
    /\ exists c0, init_charge K ops (e_sid e) = Some c0 /\ e_energy e = k_bcharge K (e_batt e) - c0.
Proof. exact ledger_any. Qed.
Print Assumptions C02_ledger_any_battery.

(* ---- a vacant station records 0; every column has one entry per station ---- *)
Theorem C02_vacant_zero : forall (T : R) net ops st,
  simulate RO KR T net ops = Some st ->
  forall t col occ,
    nth_error (rates_by_period st) t = Some col -> nth_error (occupancy_by_period st) t = Some occ ->
    length col = length net /\ length occ = length net /\
    forall i, nth_error occ i = Some None -> nth_error col i = Some 0.
Proof. exact (vacant_zero_any (batt R) KR batt_ok KR_laws). Qed.
Print Assumptions C02_vacant_zero.

(* one recorded column per simulated period *)
Theorem C02_one_column_per_period : forall (T : R) net ops st,
  simulate RO KR T net ops = Some st ->
  length (rates_by_period st) = n_steps ops /\ length (occupancy_by_period st) = n_steps ops
  /\ length (evs st) = length net.
Proof. exact (shape_any (batt R) KR batt_ok KR_laws). Qed.
Print Assumptions C02_one_column_per_period.

(* ---- peak: what the code computes is max(0, max_t sum_s rates[s][t]) ---- *)
Theorem C02_peak : forall (T : R) net ops st,
  simulate RO KR T net ops = Some st ->
  peak st = fold_right (fun col acc => Rmax acc (Rsum col)) 0 (cols st)
  /\ 0 <= peak st
  /\ (forall col, In col (rates_by_period st) -> Rsum col <= peak st)
  /\ (peak st = 0 \/ exists col, In col (rates_by_period st) /\ peak st = Rsum col).
Proof.
  exact (fun T net ops st H => conj (peak_any (batt R) KR batt_ok KR_laws T net ops st H)
                                    (peak_char (batt R) KR batt_ok KR_laws T net ops st H)).
Qed.
Print Assumptions C02_peak.

(* hence, when no recorded aggregate is negative (C03) and a period was simulated, the peak is exactly
   the maximum over periods of the recorded aggregate current *)
Theorem C02_peak_is_max : forall (T : R) net ops st,
  simulate RO KR T net ops = Some st ->
  rates_by_period st <> [] ->
  (forall col, In col (rates_by_period st) -> 0 <= Rsum col) ->
  (exists col, In col (rates_by_period st) /\ peak st = Rsum col)
  /\ (forall col, In col (rates_by_period st) -> Rsum col <= peak st).
Proof. exact (peak_is_max (batt R) KR batt_ok KR_laws). Qed.
Print Assumptions C02_peak_is_max.

(* ---- total energy delivered = time integral of the recorded aggregate power ---- *)
Theorem C02_total : forall (T : R) net ops st,
  Forall batt_ok (plugged_batts ops) ->
  simulate RO KR T net ops = Some st ->
  Rsum (map e_energy (all_evs st))
  = Rsum (map (fun col => column_power net col * (T / 60)) (cols st)).
Proof. exact (total_any (batt R) KR batt_ok KR_laws). Qed.
Print Assumptions C02_total.

(* ---- non-vacuity: a concrete run over R that satisfies every hypothesis and delivers energy ---- *)
Example C02_example :
  let net := [mk_stn 0%Z 208 (fun _ => true)] in
  let ops := [Plugin 0%Z 7%Z (mk_batt BIdeal 10 2 0 50 0 0);
              Step [16] []; Unplug 0%Z 7%Z; Step [16] []] in
  NoDup (plugged_sids ops) /\ Forall batt_ok (plugged_batts ops) /\
  exists st, simulate RO KR 15 net ops = Some st
             /\ map e_sid (all_evs st) = [7%Z]
             /\ rates_by_period st = [[16]; [0]]
             /\ occupancy_by_period st = [[Some 7%Z]; [None]]
             /\ Rsum (map e_energy (all_evs st)) = 832 / 1000.
Proof. exact ledger_example. Qed.

(* ------------------------------------------------------------------------------------------------ *)
(* The same statements over CANONICAL RATIONALS (Qc): the model instance that the correspondence check  *)
(* runs against the real Simulator on every run.  Every finite double is a rational, so these cover      *)
(* every float input under exact arithmetic.  No axioms ("Closed under the global context").             *)
(* The generic proof (Proofs/LedgerField.v) holds for any commutative ring with x / y = x * inv y.       *)
(* ------------------------------------------------------------------------------------------------ *)
Theorem C02_battery_consistent_rational :
  (forall cap cur pw maxp pilot v t o,
     Battery_Q.Battery_charge cap cur pw maxp pilot v t = OkS o ->
     (Battery_Q.Battery_charge__current_charge o - cur == Battery_Q.Battery_charge_ret o * v / 1000 * (t / 60))%Q)
  /\ (forall cap cur pw maxp nl tsoc pilot v t n n2 o,
     Battery_Q.L2_charge_stepwise cap cur pw maxp nl tsoc pilot v t n n2 = OkS o ->
     (Battery_Q.L2_charge_stepwise__current_charge o - cur == Battery_Q.L2_charge_stepwise_ret o * v / 1000 * (t / 60))%Q)
  /\ (forall cap cur pw maxp nl tsoc pilot v t n o,
     ~ (cap == 0)%Q ->
     Battery_Q.L2_charge cap cur pw maxp nl tsoc pilot v t n = OkS o ->
     (Battery_Q.L2_charge__current_charge o - cur == Battery_Q.L2_charge_ret o * v / 1000 * (t / 60))%Q).
Proof.
  exact (conj battery_consistent_ideal_Q (conj battery_consistent_stepwise_Q battery_consistent_continuous_Q)).
Qed.
Print Assumptions C02_battery_consistent_rational.

Theorem C02_kernels_lawful_rational : kern_laws_F Qc QcO KQc batt_ok_Qc.
Proof. exact KQc_laws. Qed.
Print Assumptions C02_kernels_lawful_rational.

Theorem C02_ledger_rational : forall (T : Qc) net ops st,
  NoDup (plugged_sids ops) -> Forall batt_ok_Qc (plugged_batts ops) ->
  simulate QcO KQc T net ops = Some st ->
  forall e, In e (all_evs st) ->
    e_energy e = ledger_sum QcO T net (cols st) (occs st) (e_sid e)
    /\ exists c0, init_charge KQc ops (e_sid e) = Some c0 /\ e_energy e = (b_cur (e_batt e) - c0)%Qc.
Proof. exact ledger_Qc. Qed.
Print Assumptions C02_ledger_rational.

Theorem C02_vacant_zero_rational : forall (T : Qc) net ops st,
  simulate QcO KQc T net ops = Some st ->
  forall t col occ,
    nth_error (rates_by_period st) t = Some col -> nth_error (occupancy_by_period st) t = Some occ ->
    length col = length net /\ length occ = length net /\
    forall i, nth_error occ i = Some None -> nth_error col i = Some (Q2Qc 0).
Proof. exact vacant_zero_Qc. Qed.
Print Assumptions C02_vacant_zero_rational.

Theorem C02_peak_rational : forall (T : Qc) net ops st,
  simulate QcO KQc T net ops = Some st ->
  peak st = fold_right (fun col acc => Q2Qc (Qmax (this acc) (this (fsum QcO col)))) (Q2Qc 0) (cols st)
  /\ (0 <= this (peak st))%Q
  /\ (forall col, In col (rates_by_period st) -> (this (fsum QcO col) <= this (peak st))%Q)
  /\ (peak st = Q2Qc 0 \/ exists col, In col (rates_by_period st) /\ peak st = fsum QcO col).
Proof. exact (fun T net ops st H => conj (peak_Qc T net ops st H) (peak_char_Qc T net ops st H)). Qed.
Print Assumptions C02_peak_rational.

Theorem C02_total_rational : forall (T : Qc) net ops st,
  Forall batt_ok_Qc (plugged_batts ops) ->
  simulate QcO KQc T net ops = Some st ->
  fsum QcO (map e_energy (all_evs st)) = fsum QcO (map (column_energy QcO T net) (cols st)).
Proof. exact total_Qc. Qed.
Print Assumptions C02_total_rational.

(* ---- check-points / interruptions: for ANY carrier and ANY kernels, a run can be cut at any point and continued from
   the state reached there, so every statement above also holds for a simulation that was interrupted and resumed
   (same object, or dumped and reloaded); a prefix that aborts makes the whole run abort.  No axioms. ---- *)
Theorem C02_resume : forall F B (O : fops F) (K : kern F B) (T : F) net (a b : list (@op F B)) st,
  simulate O K T net (a ++ b) = Some st
  <-> exists st1, simulate O K T net a = Some st1 /\ run O K T net st1 b = Some st.
Proof. exact (fun F B O K => simulate_resume O K). Qed.
Print Assumptions C02_resume.

Theorem C02_prefix_abort : forall F B (O : fops F) (K : kern F B) (T : F) net (a b : list (@op F B)),
  simulate O K T net a = None -> simulate O K T net (a ++ b) = None.
Proof. exact (fun F B O K => simulate_prefix_abort O K). Qed.
Print Assumptions C02_prefix_abort.

(* the executable twin (what the correspondence check runs) on a run with all three battery classes,
   two voltages, back-to-back reuse of station 0 and a pilot addressed to a vacant station:
   the ledger equalities hold EXACTLY (rational arithmetic, no tolerance) and energy is delivered *)
Example C02_exec_example :
  ledger_exact_Qc 5%Q [(0%Z, 208%Q, Continuous 0 80); (1%Z, 240%Q, Continuous 0 80)]
    [Plugin 0%Z 1%Z (mk_batt BL2cont 50 45 0 (66 # 10) 0 (8 # 10))%Q;
     Plugin 1%Z 2%Z (mk_batt BL2step 24 12 0 (72 # 10) (1 # 10) (1 # 2))%Q;
     Step [16; 32]%Q [(0, 0); (3 # 10, 3 # 10)]%Q; Step [16; 0]%Q [];
     Unplug 0%Z 1%Z; Plugin 0%Z 3%Z (mk_batt BIdeal 10 (99 # 10) 0 50 0 0)%Q;
     Step [32; 8]%Q []; Unplug 1%Z 2%Z; Step [8; 32]%Q []] = true.
Proof. vm_compute. reflexivity. Qed.
