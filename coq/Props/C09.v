(* Props/C09.v — interrupted, serialised and resumed runs equal the uninterrupted run.
   Only statements, each closed by `exact <lemma>`.

   Part (a)  Model/Resume.v: Simulator.run() with a scheduler that may raise.  The loop test,
             the recompute condition, `_iteration + 1`, the event constructors and
             Simulator._process_event (as a table of effects) are regenerated from
             acnportal/acnsim/simulator.py and events/event.py on every run (Gen/ResumeZ_Z.v,
             Gen/Serial.v); everything else of the simulator is an abstract state `St` with abstract
             operations, the event queue an abstract implementation satisfying `queue_laws`, the
             scheduler an arbitrary function of the state it is called in.
   Part (b)  Model/Registry.v: _to_registry / _from_registry / _build_from_id on an object heap;
             the serialised attribute lists of every class are regenerated (Gen/Serial.v). *)
From Coq Require Import ZArith List Bool String.
From ACN Require Import Base.Num Base.ResumeBase Gen.ResumeZ_Z Gen.Serial
  Model.Resume Model.ResumeHeap Model.Registry Proofs.Resume Proofs.ResumeProg Proofs.ResumeHeap Proofs.Registry.
Import ListNotations.
Open Scope Z_scope.

(* ------------------------------------------------------------------------------------------ *)
(* (a) resume                                                                                 *)
(* ------------------------------------------------------------------------------------------ *)

(* HEADLINE.  The event queue is the exact heapq-based EventQueue model of property C11
   (Model/HeapQ.v, Model/Events.v: CPython heappush / heappop line by line, Python tuple
   comparison of (timestamp, event) entries), `initial_sim` is the simulator as constructed
   from a list of events, before the first run().

   history_ok evs is a decidable condition on the initial events only:
     every timestamp is >= 0;
     a session to be plugged in at `timestamp` leaves later: timestamp < ev.departure.
   Events of any type are allowed, also the untyped base class Event (whose processing sets no
   _resolve): since `self._resolve = True` stands in front of the scheduler call, a period that
   is interrupted is always re-entered.

   For every such history, every max_recompute, every rest of the simulator (network, EVs,
   batteries, matrices ...) with arbitrary operations, every scheduler, every call index k:
   if run() with a scheduler that raises at its (k+1)-th call leaves state sc and the
   uninterrupted run() ends in sref, then run() again on sc ends in exactly sref. *)
Theorem C09_resume :
  forall (St Sched : Type) (R : rest_ops St Sched) (sched : sim HeapEQ St -> Sched)
         (evs : list event) (mr : option Z) (rest : St) (fuel k : nat) (sc sref : sim HeapEQ St),
    history_ok evs = true ->
    run HeapEQ St Sched R sched fuel (Some k) (initial_sim St evs mr rest) = Raised sc ->
    run HeapEQ St Sched R sched fuel None (initial_sim St evs mr rest) = Done sref ->
    run HeapEQ St Sched R sched fuel None sc = Done sref.
Proof. exact resume_from_history. Qed.
Print Assumptions C09_resume.

(* any number of interruptions, each followed by run() again *)
Theorem C09_resume_repeatedly :
  forall (St Sched : Type) (R : rest_ops St Sched) (sched : sim HeapEQ St -> Sched)
         (evs : list event) (mr : option Z) (rest : St) (ks : list nat) (fuel : nat) (sref : sim HeapEQ St),
    history_ok evs = true ->
    run HeapEQ St Sched R sched fuel None (initial_sim St evs mr rest) = Done sref ->
    run_chain HeapEQ St Sched R sched fuel ks (initial_sim St evs mr rest) = Done sref.
Proof. exact resume_repeatedly_from_history. Qed.
Print Assumptions C09_resume_repeatedly.

(* dump at the interruption point, load, give the scheduler again, run (reload is built from the
   regenerated serialised-attribute lists, see C09_reload_identity) *)
Theorem C09_resume_after_load :
  forall (St Sched : Type) (R : rest_ops St Sched) (sched : sim HeapEQ St -> Sched)
         (evs : list event) (mr : option Z) (rest rest0 : St) (queue0 : hq) (fuel k : nat)
         (sc sref : sim HeapEQ St),
    history_ok evs = true ->
    run HeapEQ St Sched R sched fuel (Some k) (initial_sim St evs mr rest) = Raised sc ->
    run HeapEQ St Sched R sched fuel None (initial_sim St evs mr rest) = Done sref ->
    run HeapEQ St Sched R sched fuel None (reload HeapEQ St rest0 queue0 sc) = Done sref.
Proof. exact resume_after_load_from_history. Qed.
Print Assumptions C09_resume_after_load.

(* the same from ANY well-formed state of the heap queue (hq_inv: the array is a heap and every
   entry is the entry of the event object it names) *)
Theorem C09_resume_heap_partial :
  forall (St Sched : Type) (R : rest_ops St Sched) (sched : sim HeapEQ St -> Sched)
         (fuel k : nat) (s sc sref : sim HeapEQ St),
    hq_inv (s_queue s) /\ queue_ok HeapEQ St s ->
    run HeapEQ St Sched R sched fuel (Some k) s = Raised sc ->
    run HeapEQ St Sched R sched fuel None s = Done sref ->
    run HeapEQ St Sched R sched fuel None sc = Done sref.
Proof. exact resume_heap. Qed.
Print Assumptions C09_resume_heap_partial.

(* the heapq-based EventQueue satisfies the queue laws (from C11's heap_root_min / heappush /
   heappop / get_current_events theorems; the two array-equality laws are proved in
   Proofs/ResumeHeap.v) *)
Theorem C09_heap_queue_laws : queue_laws HeapEQ hq_inv.
Proof. exact HeapEQ_laws. Qed.
Print Assumptions C09_heap_queue_laws.

(* history_ok is satisfiable, admits untyped events, and excludes the input of the open finding *)
Example C09_history_ok_example : history_ok ex_events = true.
Proof. exact history_ok_example. Qed.
Example C09_history_rejects_zero_stay_example : history_ok [plug 1 0 0 1; plug 0 1 1 4] = false.
Proof. exact history_ok_rejects_zero_stay. Qed.
Example C09_history_accepts_untyped_example :
  history_ok [plug 0 0 0 2; mk_event "Event" 4 (-1) (-1) (-1)] = true.
Proof. exact history_ok_accepts_untyped. Qed.
Example C09_heap_resume_example :
  drunE 10 None (init_simE ex_events (Some 2)) = Done (state_of exE_ref)
  /\ drunE 10 (Some 2%nat) (init_simE ex_events (Some 2)) = Raised (state_of exE_crash)
  /\ drunE 10 None (state_of exE_crash) = Done (state_of exE_ref)
  /\ s_iter (state_of exE_ref) = 6.
Proof. exact heap_resume_example. Qed.

(* GENERAL FORM, for any queue implementation.
   FULL STATEMENT (refuted, see Props/C09_findings.v): the theorem below without `queue_ok s`.
   `inv` is the representation invariant of the queue implementation (the heap invariant for
   EventQueue, `True` for the list queue).  queue_ok s says of every pending event e:  _iteration <= e.timestamp;  a session to be plugged
   in at e.timestamp leaves later: e.timestamp < ev.departure.

   For every history s, every call index k, every amount of fuel: if run() with a scheduler that
   raises at its (k+1)-th call leaves the simulator in state sc, and the uninterrupted run() ends in
   sref, then calling run() again on sc ends in the same sref — the whole state: pilots, rates,
   energies (inside the abstract St), event_history, _iteration, queue. *)
Theorem C09_resume_partial :
  forall (QI : queue_impl) (inv : Qt QI -> Prop), queue_laws QI inv ->
  forall (St Sched : Type) (R : rest_ops St Sched) (sched : sim QI St -> Sched)
         (fuel k : nat) (s sc sref : sim QI St),
    inv (s_queue s) /\ queue_ok QI St s ->
    run QI St Sched R sched fuel (Some k) s = Raised sc ->
    run QI St Sched R sched fuel None s = Done sref ->
    run QI St Sched R sched fuel None sc = Done sref.
Proof.
  exact (fun QI inv QL St Sched R sched fuel k s sc sref Hq Hc Hr =>
           proj1 (resume_one QI inv QL St Sched R sched fuel k s sc sref Hq Hc Hr)).
Qed.
Print Assumptions C09_resume_partial.

(* The order of the statements in the loop is not taken on trust: the body of the `while` loop
   of Simulator.run is regenerated statement by statement (Gen/Serial.run_loop_prog; statements
   that do not touch the loop state are opaque operations `SS <text>` on the rest of the state),
   and executing that program IS the loop the theorems are about. *)
Theorem C09_loop_is_regenerated :
  forall (QI : queue_impl) (St Sched : Type) (N : rest_ops St Sched)
         (SS : string -> Z -> option Sched -> option Z -> St -> St) (sched : sim QI St -> Sched)
         (guard : bool -> bool -> bool) (fuel : nat) (k : option nat) (s : sim QI St),
    run_prog QI St Sched N SS sched guard fuel k s
    = run_gen QI St Sched (R_of St Sched N SS) sched guard (pending_resolve QI St) fuel k s.
Proof. exact run_prog_eq. Qed.
Print Assumptions C09_loop_is_regenerated.

(* hence the resume theorem for the regenerated loop *)
Theorem C09_resume_regenerated_loop_partial :
  forall (QI : queue_impl) (St Sched : Type) (N : rest_ops St Sched)
         (SS : string -> Z -> option Sched -> option Z -> St -> St) (sched : sim QI St -> Sched)
         (inv : Qt QI -> Prop), queue_laws QI inv ->
  forall (fuel k : nat) (s sc sref : sim QI St),
    inv (s_queue s) /\ queue_ok QI St s ->
    run_prog QI St Sched N SS sched Run_guard fuel (Some k) s = Raised sc ->
    run_prog QI St Sched N SS sched Run_guard fuel None s = Done sref ->
    run_prog QI St Sched N SS sched Run_guard fuel None sc = Done sref.
Proof. exact resume_prog. Qed.
Print Assumptions C09_resume_regenerated_loop_partial.

(* any number of interruptions, each followed by run() again *)
Theorem C09_resume_repeatedly_partial :
  forall (QI : queue_impl) (inv : Qt QI -> Prop), queue_laws QI inv ->
  forall (St Sched : Type) (R : rest_ops St Sched) (sched : sim QI St -> Sched)
         (ks : list nat) (fuel : nat) (s sref : sim QI St),
    inv (s_queue s) /\ queue_ok QI St s ->
    run QI St Sched R sched fuel None s = Done sref ->
    run_chain QI St Sched R sched fuel ks s = Done sref.
Proof. exact resume_chain. Qed.
Print Assumptions C09_resume_repeatedly_partial.

(* the interruption point exists or is never reached: a run whose scheduler is told to raise at
   call k either raises or is exactly the uninterrupted run *)
Theorem C09_interrupted_or_same :
  forall (QI : queue_impl) (St Sched : Type) (R : rest_ops St Sched) (sched : sim QI St -> Sched)
         (fuel k : nat) (s : sim QI St),
    (exists sc, run QI St Sched R sched fuel (Some k) s = Raised sc)
    \/ run QI St Sched R sched fuel (Some k) s = run QI St Sched R sched fuel None s.
Proof. exact (fun QI St Sched R sched => crash_or_same QI St Sched R sched Run_guard (pending_resolve QI St)). Qed.
Print Assumptions C09_interrupted_or_same.

(* the state left behind by the raising scheduler (current events processed, `_resolve = True`
   pending) passes the loop test again, re-processes no event, is due for a recomputation again,
   is not changed by setting the pending resolve again, and is again well formed (the reason the
   resumed run continues identically) *)
Theorem C09_reentry :
  forall (QI : queue_impl) (inv : Qt QI -> Prop), queue_laws QI inv ->
  forall (St Sched : Type) (R : rest_ops St Sched) (s : sim QI St),
    inv (s_queue s) /\ queue_ok QI St s ->
    let sc := pending_resolve QI St (pop_and_process QI St Sched R s) in
    Run_guard (s_resolve sc) (q_empty QI (s_queue sc)) = true
    /\ pop_and_process QI St Sched R sc = sc
    /\ recompute_due QI St sc = true
    /\ pending_resolve QI St sc = sc
    /\ (inv (s_queue sc) /\ queue_ok QI St sc).
Proof. exact reentry. Qed.
Print Assumptions C09_reentry.

(* the hypothesis in terms of the input (list queue): any list of events with timestamps >= 0
   whose sessions leave after the period they are plugged in *)
Theorem C09_initial_state_ok :
  forall (evs : list event) (mr : option Z),
    Forall (fun e => 0 <= e_ts e /\ ev_ok e) evs ->
    queue_ok ListQ dstate (init_sim_list evs mr).
Proof. exact init_queue_ok. Qed.
Print Assumptions C09_initial_state_ok.

(* with the loop test of the code before commit e3d86c7 (`while not self.event_queue.empty()`) the
   theorem is false: one session, scheduler raises in the period that drains the queue *)
Theorem C09_resume_old_guard_refuted :
  exists (k fuel : nat) (sc sref sres : dsim HeapQ),
    queue_ok HeapQ dstate old_witness
    /\ drun_old fuel None old_witness = Done sref
    /\ drun_old fuel (Some k) old_witness = Raised sc
    /\ drun_old fuel None sc = Done sres
    /\ s_iter sref = 2 /\ s_iter sres = 1
    /\ d_log (s_rest sres) <> d_log (s_rest sref).
Proof. exact old_guard_refuted. Qed.
Print Assumptions C09_resume_old_guard_refuted.

(* built-in regression for the fix "keep a resolve pending across the scheduler call": WITHOUT
   `self._resolve = True` in front of `self.scheduler.run()` (run_nopre) a well-formed history with
   an untyped base Event that drains the queue, max_recompute = 1, raise at the fifth call, ends
   one iteration short (this was the open finding `untyped-event-drains-queue`) ... *)
Theorem C09_resume_without_pending_resolve_refuted :
  exists (k fuel : nat) (sc sref sres : dsim HeapQ),
    queue_ok HeapQ dstate untyped_witness
    /\ drun_nopre fuel None untyped_witness = Done sref
    /\ drun_nopre fuel (Some k) untyped_witness = Raised sc
    /\ drun_nopre fuel None sc = Done sres
    /\ s_iter sref = 5 /\ s_iter sres = 4.
Proof. exact no_pending_resolve_refuted. Qed.
Print Assumptions C09_resume_without_pending_resolve_refuted.
(* ... and with the statement the same history resumes to the reference run *)
Example C09_untyped_witness_resumes_example :
  drun 8 None untyped_witness = Done (state_of utn_ref)
  /\ drun 8 (Some 4%nat) untyped_witness = Raised (state_of utn_crash)
  /\ drun 8 None (state_of utn_crash) = Done (state_of utn_ref)
  /\ s_iter (state_of utn_ref) = 5.
Proof. exact untyped_witness_resumes. Qed.

(* the hypotheses are satisfiable: a queue implementation satisfying the laws, a well-formed
   history with two sessions and a RecomputeEvent *)
Example C09_queue_laws_example : queue_laws ListQ (fun _ => True).
Proof. exact ListQ_laws. Qed.
Example C09_queue_ok_example : queue_ok ListQ dstate (init_sim_list ex_events (Some 2)).
Proof. exact ex_qok. Qed.
Example C09_resume_example :
  drun 5 (Some 1%nat) old_witness = Raised (state_of new_crash)
  /\ drun 5 None old_witness = Done (state_of new_ref)
  /\ drun 5 None (state_of new_crash) = Done (state_of new_ref)
  /\ s_iter (state_of new_ref) = 2.
Proof. exact old_witness_new_guard_ok. Qed.

(* ------------------------------------------------------------------------------------------ *)
(* (b) serialisation                                                                          *)
(* ------------------------------------------------------------------------------------------ *)

(* For every object heap h, every root, if references go to objects of smaller rank (the graph is
   acyclic) and every object reachable from the root exists, then with enough fuel (recursion
   depth) the dump succeeds, the load of the dump succeeds, and the loaded heap is isomorphic to
   the part of h reachable from the root: a bijection on addresses preserving class, scalars and
   references. *)
Theorem C09_dump_load_iso :
  forall (Sc : Type) (h : heap Sc) (root : addr) (rank : addr -> nat),
    (forall a o b, alookup a h = Some o -> In b (o_refs o) -> (rank b < rank a)%nat) ->
    (forall a, reachable h root a -> alookup a h <> None) ->
    forall fuel base, (rank root < fuel)%nat ->
    exists c root' st,
      to_registry fuel h root = Some c
      /\ from_registry fuel c root base = Some (root', st)
      /\ iso h root (l_heap st) root' (load_map Sc st).
Proof. exact dump_load_iso. Qed.
Print Assumptions C09_dump_load_iso.

(* the registry ("context_dict") written by the dump has exactly one entry per object reachable
   from the root — a shared EV is dumped once — nothing else, and every entry is the object itself *)
Theorem C09_dump_each_object_once :
  forall (Sc : Type) (h : heap Sc) (root : addr) (rank : addr -> nat),
    (forall a o b, alookup a h = Some o -> In b (o_refs o) -> (rank b < rank a)%nat) ->
    (forall a, reachable h root a -> alookup a h <> None) ->
    forall fuel c, (rank root < fuel)%nat ->
    to_registry fuel h root = Some c ->
    NoDup (map fst c) /\ (forall k, In k (map fst c) <-> reachable h root k)
    /\ (forall k e, alookup k c = Some e -> alookup k h = Some e).
Proof. exact dump_once. Qed.
Print Assumptions C09_dump_each_object_once.

(* independence of instances: a load creates its objects at fresh addresses only, so two loads of
   one dump (from_json called twice on the same text) share no object *)
Theorem C09_load_creates_fresh_objects :
  forall (Sc : Type) (c : ctx Sc) (base : addr) (fuel : nat) (root r : addr) (st : lstate Sc),
    from_registry fuel c root base = Some (r, st) ->
    forall a o, alookup a (l_heap st) = Some o -> (base <= a < l_next st)%nat.
Proof. exact load_range. Qed.
Print Assumptions C09_load_creates_fresh_objects.
Theorem C09_two_loads_disjoint :
  forall (Sc : Type) (c : ctx Sc) (fuel : nat) (root b1 b2 r1 : addr) (st1 : lstate Sc) (r2 : addr)
         (st2 : lstate Sc),
    from_registry fuel c root b1 = Some (r1, st1) ->
    from_registry fuel c root b2 = Some (r2, st2) ->
    (l_next st1 <= b2)%nat ->
    forall a o1 o2, alookup a (l_heap st1) = Some o1 -> alookup a (l_heap st2) = Some o2 -> False.
Proof. exact two_loads_disjoint. Qed.
Print Assumptions C09_two_loads_disjoint.

(* consequences of the isomorphism, in terms of access paths (lists of reference positions):
   the same path reaches the corresponding object ... *)
Theorem C09_paths_preserved :
  forall (Sc : Type) (h h' : heap Sc) (root root' : addr) (f : addr -> addr),
    iso h root h' root' f ->
    forall p a, follow h root p = Some a -> follow h' root' p = Some (f a).
Proof. exact paths_preserved. Qed.
Print Assumptions C09_paths_preserved.

(* ... and two paths lead to one object after loading exactly if they did before: the EV reached
   through network._EVSEs[s]._ev, through ev_history[id] and through a pending UnplugEvent's .ev
   is one shared object again (and distinct EVs stay distinct) *)
Theorem C09_sharing_preserved :
  forall (Sc : Type) (h h' : heap Sc) (root root' : addr) (f : addr -> addr),
    iso h root h' root' f ->
    forall p1 p2 a1 a2,
      follow h root p1 = Some a1 -> follow h root p2 = Some a2 ->
      (a1 = a2 <-> follow h' root' p1 = follow h' root' p2).
Proof. exact sharing_preserved. Qed.
Print Assumptions C09_sharing_preserved.

(* "the loaded object carries the complete state": whatever can be read from the simulator by
   following references to any depth (class, scalar attributes, at every level) is the same in
   the loaded heap *)
Theorem C09_loaded_state_complete :
  forall (Sc : Type) (h h' : heap Sc) (root root' : addr) (f : addr -> addr),
    iso h root h' root' f ->
    (forall a, reachable h root a -> alookup a h <> None) ->
    forall fuel, unfold fuel h' root' = unfold fuel h root.
Proof.
  exact (fun Sc h h' root root' f Hiso Hdef fuel =>
           eq_ind (f root) (fun r => unfold fuel h' r = unfold fuel h root)
                  (unfold_preserved Sc h h' root root' f Hiso Hdef fuel root (reach_root h root))
                  root' (iso_root _ _ _ _ _ _ Hiso)).
Qed.
Print Assumptions C09_loaded_state_complete.

(* the hypotheses of C09_dump_load_iso are satisfiable; the concrete dump/load of a simulator whose
   EV is referenced from its EVSE, ev_history, event_history and a pending UnplugEvent *)
Example C09_dump_load_hyps_example :
  (forall a o b, alookup a ex_heap = Some o -> In b (o_refs o) -> (ex_rank b < ex_rank a)%nat)
  /\ (forall a, reachable ex_heap 10%nat a -> alookup a ex_heap <> None).
Proof. exact (conj ex_heap_ranked ex_heap_defined). Qed.
Example C09_dump_load_example :
  exists c root' st,
    to_registry 5 ex_heap 10%nat = Some c /\ map fst c = [16; 15; 13; 11; 14; 12; 17; 10]%nat
    /\ from_registry 5 c 10%nat 100%nat = Some (root', st)
    /\ follow (l_heap st) root' [0; 0; 0]%nat = follow (l_heap st) root' [2]%nat
    /\ follow (l_heap st) root' [1; 0; 0]%nat = follow (l_heap st) root' [2]%nat
    /\ follow (l_heap st) root' [3; 0]%nat = follow (l_heap st) root' [2]%nat
    /\ follow (l_heap st) root' [2]%nat <> None
    /\ List.length (l_heap st) = 8%nat.
Proof. exact ex_dump_load. Qed.

(* SCOPE of the serialisation theorems.  The registry theorems (C09_dump_load_iso, C09_sharing_preserved,
   C09_loaded_state_complete ...) say that what _to_dict writes comes back as one isomorphic object graph;
   that ALL of an object's state is written is the separate statement C09_state_complete below, and it
   is claimed for the 15 classes of acnportal.acnsim that define (or inherit complete) _to_dict /
   _from_dict for their own attributes.  A subclass that adds attributes WITHOUT its own serialiser is
   outside it: acnportal.contrib.acnsim.StochasticNetwork inherits ChargingNetwork's methods and loses
   waiting_queue, early_departure, swaps, never_charged, early_unplug in a round trip — OPEN finding
   `stochastic-network-json-drops-queue`; the regenerated fact is
   C09_subclass_unserialised_attributes_refuted in Props/C09_findings_stochastic.v, the witness is
   replayed on every run.  The generators of the C09 check use ChargingNetwork only. *)
(* every instance attribute of every serialised class (assigned anywhere in the class or its
   bases) is written by _to_dict under its own name from its own value and restored by _from_dict
   from that key — decided on the lists regenerated from the code *)
Theorem C09_state_complete :
  forall cls st du re a,
    In (cls, (st, du, re)) serial_classes -> In a st ->
    (exists src, sassoc a du = Some src /\ In a src)
    /\ (exists keys, sassoc a re = Some keys /\ In a keys).
Proof. exact state_complete. Qed.
Print Assumptions C09_state_complete.

(* every Simulator attribute read by run(), _process_event, _update_schedules,
   _store_actual_charging_rates is such an attribute; all fifteen classes are covered *)
Theorem C09_run_reads_serialised : forall a, In a run_reads -> In a state_Simulator.
Proof. exact run_reads_in_state. Qed.
Print Assumptions C09_run_reads_serialised.
Theorem C09_classes_covered :
  forall c, In c expected_classes -> exists d, sassoc c serial_classes = Some d.
Proof. exact classes_present. Qed.
Print Assumptions C09_classes_covered.

(* dump + load + update_scheduler on the loop state: an attribute missing from the regenerated
   lists would come back as its constructor default; with the current lists nothing is lost *)
Theorem C09_reload_identity :
  forall (QI : queue_impl) (St : Type) (rest0 : St) (queue0 : Qt QI) (s : sim QI St),
    reload QI St rest0 queue0 s = s.
Proof. exact reload_id. Qed.
Print Assumptions C09_reload_identity.

(* corollary: dump at the interruption point, load, give the scheduler again, run *)
Theorem C09_resume_after_load_partial :
  forall (QI : queue_impl) (inv : Qt QI -> Prop), queue_laws QI inv ->
  forall (St Sched : Type) (R : rest_ops St Sched) (sched : sim QI St -> Sched)
         (rest0 : St) (queue0 : Qt QI) (fuel k : nat) (s sc sref : sim QI St),
    inv (s_queue s) /\ queue_ok QI St s ->
    run QI St Sched R sched fuel (Some k) s = Raised sc ->
    run QI St Sched R sched fuel None s = Done sref ->
    run QI St Sched R sched fuel None (reload QI St rest0 queue0 sc) = Done sref.
Proof. exact resume_after_load. Qed.
Print Assumptions C09_resume_after_load_partial.
