(* Props/C09_findings_stochastic.v — OPEN finding `stochastic-network-json-drops-queue`
   (known_findings.json): acnportal.contrib.acnsim.StochasticNetwork inherits ChargingNetwork's
   _to_dict/_from_dict and adds five attributes they do not know.  C09_state_complete (Props/C09.v)
   covers the 15 classes that serialise their own attributes; it is FALSE for this subclass. *)
From Coq Require Import List Bool String.
From ACN Require Import Base.ResumeBase Gen.Serial Model.Resume Proofs.ResumeStochFinding.
Import ListNotations.
Open Scope string_scope.

(* the statement of C09_state_complete, refuted for StochasticNetwork *)
Theorem C09_subclass_state_complete_refuted :
  exists a, In a state_StochasticNetwork
            /\ kept dumped_StochasticNetwork restored_StochasticNetwork a = false.
Proof. exact stochastic_network_incomplete. Qed.
Print Assumptions C09_subclass_state_complete_refuted.

(* exactly which attributes are lost by a dump + load (from the regenerated lists): the waiting
   queue, the early-departure flag and the three counters *)
Theorem C09_subclass_unserialised_attributes_refuted :
  unserialised state_StochasticNetwork dumped_StochasticNetwork restored_StochasticNetwork
  = ["waiting_queue"; "early_departure"; "swaps"; "never_charged"; "early_unplug"].
Proof. exact stochastic_network_unserialised. Qed.
Print Assumptions C09_subclass_unserialised_attributes_refuted.
