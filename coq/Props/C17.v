(* Props/C17.v — Tariff lookup is total, unambiguous and aligned with simulation time; cost formulas.

   Vocabulary (Model/Tariff.v):  an instant t is a wall-clock datetime in microseconds;
   t_month / t_day / t_weekday / target_hour are its datetime fields (Base/Calendar.v = Python's
   proleptic Gregorian calendar, proved to round-trip for every day number);
   `bundled` is the list (file name, raw JSON schedules) regenerated from the five tariff files on every
   run (Gen/Tariffs.v); `build` is TimeOfUseTariff.__init__ (mask strings, sorted breakpoints, wrap-around
   split, sort by start); valid_schedules is the list comprehension of _get_tariff_schedule, whose test is
   the translated expression Gen.TariffK_Z.Tariff_valid.  Only statements here; proofs in Proofs/Tariff.v. *)
From Coq Require Import ZArith QArith List Bool String Sorting.Permutation.
From ACN Require Import Base.Num Base.Lex Base.Calendar Base.TariffRaw
                        Gen.Tariffs Gen.TariffK_Z Gen.TariffK_Q Model.Tariff Proofs.Tariff.
Import ListNotations.
Open Scope Q_scope.

(* For each bundled file the constructor succeeds, and for every (month, day) among the 366 calendar days
   and every weekday exactly one schedule is valid.  (Finite check over the whole domain, re-evaluated on
   the regenerated data.) *)
Theorem C17_exactly_one : forall name raw, In (name, raw) bundled ->
  exists TS, build raw = Ok TS /\
  forall m d wd, (1 <= m <= 12)%Z -> (1 <= d <= max_days_in_month m)%Z -> (0 <= wd <= 6)%Z ->
    exists s, valid_schedules TS m d wd = [s].
Proof. exact bundled_exactly_one. Qed.
Print Assumptions C17_exactly_one.

(* Every instant of every year (t ranges over all of Z): exactly one schedule s applies, get_tariff
   returns the rate p of the latest breakpoint of s at or before the time of day, and get_demand_charge
   returns the demand rate of s. *)
Theorem C17_all_instants : forall name raw, In (name, raw) bundled ->
  exists TS, build raw = Ok TS /\
  forall t : Z, exists s p,
    valid_schedules TS (t_month t) (t_day t) (t_weekday t) = [s] /\
    get_tariff TS t = Ok p /\
    latest_breakpoint_rate (s_tariffs s) (target_hour t) p /\
    get_demand_charge TS t = Ok (s_demand s).
Proof. exact bundled_all_instants. Qed.
Print Assumptions C17_all_instants.

(* The finite check is a decision procedure for ANY tariff file (file_total raw evaluates the 366 x 7 cells of
   the file's schedules): if it passes, the lookup is total and unambiguous at every instant of every year; if it
   fails, there is a real instant (midnight of a date in 2000..2027) at which get_tariff and get_demand_charge
   raise.  C17_exactly_one / C17_all_instants are the instances for the bundled files. *)
Theorem C17_check_sound_and_complete : forall raw,
  (file_total raw = true ->
     exists TS, build raw = Ok TS /\
     forall t : Z, exists s p,
       valid_schedules TS (t_month t) (t_day t) (t_weekday t) = [s] /\
       get_tariff TS t = Ok p /\
       latest_breakpoint_rate (s_tariffs s) (target_hour t) p /\
       get_demand_charge TS t = Ok (s_demand s)) /\
  (forall TS, build raw = Ok TS -> file_total raw = false ->
     exists t e, get_tariff TS t = Err e /\ get_demand_charge TS t = Err e).
Proof. exact (fun raw => conj (file_total_all_instants raw) (file_total_complete raw)). Qed.
Print Assumptions C17_check_sound_and_complete.

(* the datetime fields used above are those of a real calendar date and time of day *)
Theorem C17_instant_fields : forall t : Z,
  (1 <= t_month t <= 12)%Z /\ (1 <= t_day t <= max_days_in_month (t_month t))%Z /\
  (0 <= t_weekday t <= 6)%Z /\
  target_hour t == inject_Z (t_hour t) + inject_Z (t_minute t) / 60 + inject_Z (t_second t) / 3600 /\
  0 <= target_hour t < 24.
Proof.
  exact (fun t => let '(conj a (conj b c)) := instant_cell t in
                  conj a (conj b (conj c (conj (target_hour_eq t)
                                               (conj (target_hour_nonneg t) (target_hour_lt_24 t)))))).
Qed.
Print Assumptions C17_instant_fields.

(* Breakpoint lookup, for ANY list of (hour, rate) pairs (sorted or not) and any time of day th:
   the result is the rate of the latest breakpoint <= th (largest rate if that hour is listed twice);
   it fails exactly when no breakpoint is <= th, hence never when a breakpoint 0 exists and th >= 0. *)
Theorem C17_breakpoint : forall (l : list (Q * Q)) (th : Q),
  (forall p, lookup l th = Some p ->
     exists b, In (b, p) l /\ b <= th /\
               forall b' p', In (b', p') l -> b' <= th -> b' < b \/ (b' == b /\ p' <= p)) /\
  (lookup l th = None <-> forall b p, In (b, p) l -> ~ b <= th) /\
  (forall b0 p0, In (b0, p0) l -> b0 == 0 -> 0 <= th -> exists p, lookup l th = Some p).
Proof. exact breakpoint_all. Qed.
Print Assumptions C17_breakpoint.

(* every schedule the constructor accepts has a breakpoint at hour 0 *)
Theorem C17_breakpoints_start_at_0 : forall raw TS s, build raw = Ok TS -> In s TS ->
  exists b p, In (b, p) (s_tariffs s) /\ b == 0.
Proof. exact build_zero. Qed.
Print Assumptions C17_breakpoints_start_at_0.

(* Seasons that wrap the new year: for ANY list of schedules and any calendar date, the schedules that
   _get_tariff_schedule finds valid after the constructor's split are (up to order, and up to the adjusted
   effective dates) exactly the schedules of the file whose weekday mask contains the weekday and whose
   season — `start <= date <= end`, or `date >= start or date <= end` when end < start — contains the date. *)
Theorem C17_wraparound : forall (l : list sched) m d wd, (1 <= m <= 12)%Z -> (1 <= d <= 31)%Z ->
  Permutation (map payload (valid_schedules (finalize l) m d wd))
              (map payload (filter (fun s => applies s m d wd) l)).
Proof. exact wraparound. Qed.
Print Assumptions C17_wraparound.

(* ... and stated on the file as written: at every instant exactly one schedule s0 of the file applies — its weekday
   mask contains the weekday and its season (wrap over the new year included) contains the date — and the price /
   demand rate returned are those of s0. *)
Theorem C17_season_and_class : forall name raw, In (name, raw) bundled ->
  exists L TS, build_all raw = Ok L /\ build raw = Ok TS /\
  forall t : Z, exists s0 p,
    filter (fun s => applies s (t_month t) (t_day t) (t_weekday t)) L = [s0] /\
    get_tariff TS t = Ok p /\
    latest_breakpoint_rate (s_tariffs s0) (target_hour t) p /\
    get_demand_charge TS t = Ok (s_demand s0).
Proof. exact bundled_season_class. Qed.
Print Assumptions C17_season_and_class.

(* Price vector = per-period lookup at start + k * period (period in minutes, instants in microseconds);
   the first failing period, if any, decides the exception. *)
Theorem C17_vector : forall TS start n period,
  get_tariffs TS start n period =
    res_seq (map (fun k => get_tariff TS (start + k * (60000000 * period))%Z) (Zrange n)) /\
  (forall v, get_tariffs TS start n period = Ok v ->
     List.length v = Z.to_nat n /\
     forall k, (0 <= k < n)%Z ->
       get_tariff TS (start + k * (60000000 * period))%Z = Ok (nth (Z.to_nat k) v 0)) /\
  (forall e, get_tariffs TS start n period = Err e ->
     exists k, (0 <= k < n)%Z /\ get_tariff TS (start + k * (60000000 * period))%Z = Err e /\
       forall j, (0 <= j < k)%Z -> exists p, get_tariff TS (start + j * (60000000 * period))%Z = Ok p).
Proof.
  exact (fun TS start n period => conj (get_tariffs_eq TS start n period)
           (conj (get_tariffs_ok TS start n period) (get_tariffs_err TS start n period))).
Qed.
Print Assumptions C17_vector.

(* Interface.get_prices(length, start): entry k is the price at simulation time index i0 + k, where
   i0 = start (or the current iteration when start is None) and sim_time sim i = sim.start + i * period;
   Interface.get_demand_charge(start) is the demand rate at time index i0. *)
Theorem C17_interface_aligned : forall sim TS n st v,
  sim_tariff sim = Some TS -> iface_get_prices sim n st = Ok v ->
  let i0 := match st with None => sim_iteration sim | Some s => s end in
  List.length v = Z.to_nat n /\
  (forall k, (0 <= k < n)%Z -> get_tariff TS (sim_time sim (i0 + k)) = Ok (nth (Z.to_nat k) v 0)) /\
  iface_get_demand_charge sim st = get_demand_charge TS (sim_time sim i0).
Proof.
  exact (fun sim TS n st v HT H =>
           let '(conj a b) := iface_aligned sim TS n st v HT H in
           conj a (conj b (iface_demand_eq sim TS st HT))).
Qed.
Print Assumptions C17_interface_aligned.

(* with a bundled tariff none of the vector / interface calls can raise *)
Theorem C17_bundled_never_raise : forall name raw TS, In (name, raw) bundled -> build raw = Ok TS ->
  (forall start n period, exists v, get_tariffs TS start n period = Ok v) /\
  (forall sim n st, sim_tariff sim = Some TS -> exists v, iface_get_prices sim n st = Ok v) /\
  (forall sim st, sim_tariff sim = Some TS -> exists dc, iface_get_demand_charge sim st = Ok dc).
Proof. exact bundled_vectors_total. Qed.
Print Assumptions C17_bundled_never_raise.

(* energy_cost = sum_k price_k * power_k * (period / 60);  demand_charge = demand rate at the start
   x peak power;  power_k = sum_s voltage_s * rate_(s,k) / 1000 (aggregate_power) *)
Theorem C17_costs : forall TS start period,
  (forall agg prices,
     get_tariffs TS start (Z.of_nat (List.length agg)) period = Ok prices ->
     exists c, energy_cost_agg TS start period agg = Ok c /\
               c == Qsum (cost_terms prices agg (inject_Z period / 60))) /\
  (forall a r dc, get_demand_charge TS start = Ok dc ->
     demand_charge_agg TS start (a :: r) = Ok (dc * Qmax_list a r) /\
     (forall x, In x (a :: r) -> x <= Qmax_list a r) /\
     (exists y, In y (a :: r) /\ Qmax_list a r == y)) /\
  (forall V cols k, (k < List.length cols)%nat ->
     nth k (aggregate_power V cols) 0 == Qdot V (nth k cols []) / 1000).
Proof.
  exact (fun TS start period =>
    conj (energy_cost_formula TS start period)
   (conj (fun a r dc H => conj (demand_charge_formula TS start a r dc H)
                               (conj (Qmax_list_ub a r) (Qmax_list_in a r)))
         aggregate_power_nth)).
Qed.
Print Assumptions C17_costs.

(* Fractional simulation periods (Simulator.period = 2.5, 0.5, 7.5 … minutes): the rational versions of the price
   vector, the interface accessors and the energy cost — built from the same source expressions translated over Q —
   coincide with the integer versions on whole-minute periods (so every theorem above transfers), and for any period
   whose microsecond count us = period * 6e7 is whole, the vector is the per-period lookup at start + k * us and the
   energy cost is sum_k price_k * power_k * (period / 60). *)
Theorem C17_fractional_periods : forall TS start n,
  (forall p, get_tariffs_q TS start n (inject_Z p) = get_tariffs TS start n p) /\
  (forall sim st,
     iface_get_prices_q (sim_tariff sim) (sim_start sim) (inject_Z (sim_period sim)) (sim_iteration sim) n st
       = iface_get_prices sim n st /\
     iface_get_demand_charge_q (sim_tariff sim) (sim_start sim) (inject_Z (sim_period sim)) (sim_iteration sim) st
       = iface_get_demand_charge sim st) /\
  (forall p agg, energy_cost_agg_q TS start (inject_Z p) agg = energy_cost_agg TS start p agg) /\
  (forall period us, 60000000 * period == inject_Z us ->
     get_tariffs_q TS start n period = res_seq (map (fun k => get_tariff TS (start + k * us)%Z) (Zrange n))) /\
  (forall period agg prices,
     get_tariffs_q TS start (Z.of_nat (List.length agg)) period = Ok prices ->
     exists c, energy_cost_agg_q TS start period agg = Ok c /\ c == Qsum (cost_terms prices agg (period / 60))).
Proof.
  exact (fun TS start n =>
    conj (get_tariffs_q_int TS start n)
   (conj (fun sim st => conj (iface_prices_q_int sim n st) (iface_demand_q_int sim st))
   (conj (energy_cost_q_int TS start)
   (conj (get_tariffs_q_whole TS start n) (energy_cost_q_formula TS start))))).
Qed.
Print Assumptions C17_fractional_periods.

(* Which tariff prices a simulation in analysis.energy_cost / demand_charge: the tariff passed explicitly wins over
   the simulator's signals["tariff"], which is used only when none is passed; with neither, ValueError. *)
Theorem C17_cost_tariff_precedence : forall signal explicit start period V cols,
  (forall TS, explicit = Some TS ->
     energy_cost_sim signal explicit start period V cols = energy_cost_q TS start period V cols /\
     demand_charge_sim signal explicit start V cols = demand_charge TS start V cols) /\
  (forall TS, explicit = None -> signal = Some TS ->
     energy_cost_sim signal explicit start period V cols = energy_cost_q TS start period V cols /\
     demand_charge_sim signal explicit start V cols = demand_charge TS start V cols) /\
  (explicit = None -> signal = None ->
     energy_cost_sim signal explicit start period V cols = Err "ValueError:nopricing" /\
     demand_charge_sim signal explicit start V cols = Err "ValueError:nopricing").
Proof. exact pricing_precedence. Qed.
Print Assumptions C17_cost_tariff_precedence.

(* ---- the hypotheses are satisfiable by concrete, non-trivial instances ---- *)
(* PG&E A-10, Tuesday 2019-01-15 09:00:00 (a winter weekday — the date on which the file used to be
   ambiguous): one schedule, rate 0.1477 $/kWh, demand rate 11.66 $/kW *)
Example C17_pge_winter_example :
  let t := ((737074 * 86400 + 9 * 3600) * 1000000)%Z in
  exists TS, build raw_pge_a10_tou_aug_2019 = Ok TS /\
  map s_id (valid_schedules TS (t_month t) (t_day t) (t_weekday t)) = ["Winter-Weekday"%string] /\
  (t_month t, t_day t, t_weekday t) = (1, 15, 1)%Z /\
  match get_tariff TS t with Ok p => Qeqb p (2660726659850489 # 18014398509481984) | Err _ => false end = true.
Proof. eexists. split; [vm_compute; reflexivity|]. vm_compute. auto. Qed.

(* a 3-period price vector through the interface, starting at iteration 2 of a 5-minute simulation
   that began 2019-08-01 11:50: the peak period starts at 12:00, i.e. at the first entry *)
Example C17_interface_example :
  exists TS v, build raw_sce_tou_ev_4_march_2019 = Ok TS /\
  iface_get_prices {| sim_start := ((737272 * 86400 + 11 * 3600 + 50 * 60) * 1000000)%Z; sim_period := 5;
                      sim_iteration := 2; sim_tariff := Some TS |} 3 None = Ok v /\
  List.length v = 3%nat /\ nth 0 v 0 == nth 2 v 0 /\ ~ nth 0 v 0 == 0.0925.
Proof.
  eexists. eexists. split; [vm_compute; reflexivity|]. split; [vm_compute; reflexivity|].
  split; [reflexivity|]. split; [reflexivity|]. intro H. vm_compute in H. discriminate.
Qed.
