(* Props/C12_findings.v — compiled only while the open finding `json-roundtrip-drained-matrix-loses-shape`
   (known_findings.json) still reproduces on the tree under test.

   ChargingNetwork._to_dict serialises constraint_matrix as a nested list and _from_dict rebuilds
   np.array(list): a matrix without rows (every constraint removed, shape (0, n)) becomes [] and comes back with
   shape (0,).  On the reloaded network pd.DataFrame(matrix, columns=station_ids) raises ValueError, so
   constraints_as_df / constraint_current / is_feasible raise, and add_constraint raises AFTER it appended the
   limit to magnitudes: magnitudes then has an entry without row and name.

   Full-strength statement that fails:
     forall ops o, jstep 0 o (json_reload true (mkJ (run 0 ops net0) false))
                   = (fst (step 0 o n), mkJ (snd (step 0 o n)) false)      with n = run 0 ops net0. *)
From Coq Require Import List QArith String.
From ACN Require Import Base.Num Model.Current Model.Network Proofs.NetworkMore.
Import ListNotations.

Theorem C12_json_roundtrip_drained_refuted :
  exists (ops : list (op Q)) (o : op Q),
    let j := json_reload true (mkJ (run 0%Q ops net0) false) in
    let r := jstep 0%Q o j in
    fst (step 0%Q o (run 0%Q ops net0)) = None /\               (* accepted by the original network *)
    fst r = Some "ValueError"%string /\                          (* raises on the reloaded one *)
    List.length (mags (jn (snd r))) = 1%nat /\ cnames (jn (snd r)) = [] /\ cmat (jn (snd r)) = Some [].
Proof. exact json_refuted. Qed.
Print Assumptions C12_json_roundtrip_drained_refuted.
