(* Props/C12_findings.v — compiled only while the open finding `reregistration-misaligns-phase-arrays`
   (known_findings.json) still reproduces on the tree under test.

   register_evse with a station id that is already registered overwrites the dict entry (station_ids keeps ONE
   entry) but appends to _voltages / _phase_angles.  From then on the default, phase-aware constraint_current
   raises ValueError (numpy cannot broadcast the n-row schedule with n+1 angle coefficients) on every well-formed
   schedule; the linear=True query and the matrix/limits/names alignment are unaffected.

   Full-strength statement that fails:
     forall ops X trig, g_ever (grun ops ghost0) = true -> one row per station, rectangular ->
       exists r, qccp X None None trig (run 0 ops net0) = Ok r. *)
From Coq Require Import List QArith String.
From ACN Require Import Base.Num Model.Current Model.Network Proofs.NetworkPhase.
Import ListNotations.
Open Scope Q_scope.

Theorem C12_subset_phase_reregistration_refuted :
  exists (ops : list (op Q)) (X : sched Q) (trig : list (Q * Q)),
    let n := run 0 ops net0 in
    g_ever (grun ops ghost0) = true /\                          (* a constraint exists *)
    List.length (xrows X) = List.length (stations n) /\          (* one schedule row per station *)
    Forall (fun r => List.length r = xw X) (xrows X) /\           (* rectangular *)
    List.length trig = List.length (angles n) /\
    qcc X None None n = Ok [[Some (1 * 10 + (1 * 5 + 0)); Some (1 * 10 + (1 * 5 + 0))]] /\   (* linear=True answers *)
    qccp X None None trig n = Err "ValueError"%string.           (* the default query raises *)
Proof. exact rereg_refuted. Qed.
Print Assumptions C12_subset_phase_reregistration_refuted.
