(* Props/C12_findings.v — compiled only while the defect is present in the tree under test
   (harness/c12.py: Current defines no __iadd__/__isub__; known_findings.json, sig
   "inplace-sum-cut-to-left-index").

   `a += b` / `a -= b` on Currents run pandas' NDFrame._inplace_method: the result of the binary operator is
   reindexed like the LEFT operand, so every station that only b mentions is dropped.  Model: mode
   InplaceReindex of Model/Current.v (confirmed by the correspondence run on every execution).

   Full-strength statement that fails today:
     forall e s, qcoeff (qdenote InplaceReindex e) s == qceval e s. *)
From Coq Require Import List QArith.
From ACN Require Import Base.Num Model.Current Proofs.Current.
Import ListNotations.
Open Scope Q_scope.

Theorem C12_algebra_inplace_refuted :
  exists (e : cexpr Q) (s : station), ~ qcoeff (qdenote InplaceReindex e) s == qceval e s.
Proof. exact inplace_refuted. Qed.
Print Assumptions C12_algebra_inplace_refuted.

(* the witness: t = Current("s0"); t += Current({"s0": 1, "s1": 2}) — station s1 should get 2, gets 0;
   with in-place operators that rebind (the repair) it gets 2 *)
Theorem C12_algebra_inplace_witness :
  let e := EIadd (EStr 0%nat) (EDict [(0%nat, 1); (1%nat, 2)]) in
  qcoeff (qdenote InplaceReindex e) 1%nat == 0 /\ qceval e 1%nat == 2 /\
  qcoeff (qdenote InplaceRebind e) 1%nat == 2.
Proof. exact inplace_witness_values. Qed.
Print Assumptions C12_algebra_inplace_witness.
