(* Props/C10.v — results are deterministic and independent of incidental ordering.

   Model/SimPerm.v is an executable model of Simulator.run in which every per-station quantity is
   keyed by station id; it is tied to the implementation by harness/c10.py, which replays every one
   of the paired real runs (original / stations permuted / constraints permuted / sessions
   permuted / shifted / other PYTHONHASHSEED) in the model and compares pilots, rates, energies and
   infeasibility warnings.
     simulate sched stations cf = Some st    the run succeeded (None: some call raised)
     stations : list (id * station)          registration order
     cf_sessions / cf_constraints            the session (event) list / constraints in the order given
     sched                                   scheduler oracle: iteration -> active sessions (station order)
                                             -> {station id: [pilots]}
     out_pilots n st s / out_rates st s / out_done st s   the rows of station s / the sessions that
                                             charged there with their delivered energy
   Only statements here. *)
From Coq Require Import ZArith QArith List Bool Permutation.
From ACN Require Import Base.Num Model.EVSE Model.SimPerm Proofs.SimPerm.
Import ListNotations.
Open Scope Q_scope.
Open Scope list_scope.

(* equal inputs give equal outputs: the model is a function; that the IMPLEMENTATION is one is what
   the correspondence check establishes (same scenario in two processes with different hash seeds) *)
Theorem C10_function : forall sched sts cf sts' cf',
  sts = sts' -> cf = cf' -> simulate sched sts cf = simulate sched sts' cf'.
Proof. intros; subst; reflexivity. Qed.
Print Assumptions C10_function.

(* listing the sessions (Plugin events) in a different order changes nothing at all — for EVERY
   scheduler oracle and every input (including runs that raise) *)
Theorem C10_session_perm : forall sched sts cf ses',
  Permutation (cf_sessions cf) ses' ->
  simulate sched sts (with_sessions cf ses') = simulate sched sts cf.
Proof. exact thm_session_perm. Qed.
Print Assumptions C10_session_perm.

(* ... more generally the order in which the event queue hands out the due events of one
   precedence class (ties of the heap) is irrelevant: any permutation du of the due Unplug events
   followed by any permutation ar of the due Plugin events leaves the same network *)
Theorem C10_tie_order : forall t ses l du ar,
  Permutation du (departing t ses) -> Permutation ar (arriving t ses) ->
  match fold_opt unplug du l with Some l1 => fold_opt plugin ar l1 | None => None end
  = process_events t ses l.
Proof. exact tie_order. Qed.
Print Assumptions C10_tie_order.

(* adding the constraints in a different order changes nothing (pilots, rates, energies, and the
   infeasibility warnings of _update_schedules) — for every scheduler oracle *)
Theorem C10_constraint_perm : forall sched sts cf cs',
  Permutation (cf_constraints cf) cs' ->
  simulate sched sts (with_constraints cf cs') = simulate sched sts cf.
Proof. exact thm_constraint_perm. Qed.
Print Assumptions C10_constraint_perm.

(* registering the stations in a different order: for every scheduler whose answer — as a
   dictionary — does not depend on the order in which the active sessions are presented, the run
   succeeds iff the original does, and every station has the same state, hence the same pilot row,
   rate row and per-session energies; the infeasibility warnings are the same *)
Theorem C10_station_perm : forall sched sts sts' cf st,
  equivariant sched -> NoDup (map fst sts) -> Permutation sts sts' ->
  simulate sched sts cf = Some st ->
  exists st', simulate sched sts' cf = Some st'
    /\ (forall s, zassoc s (ss_slots st') = zassoc s (ss_slots st))
    /\ Permutation (ss_slots st) (ss_slots st')
    /\ ss_warn st' = ss_warn st /\ ss_last st' = ss_last st.
Proof. exact thm_station_perm. Qed.
Print Assumptions C10_station_perm.

Theorem C10_station_perm_outputs : forall sched sts sts' cf st,
  equivariant sched -> NoDup (map fst sts) -> Permutation sts sts' ->
  simulate sched sts cf = Some st ->
  exists st', simulate sched sts' cf = Some st'
    /\ forall s n, out_pilots n st' s = out_pilots n st s
                   /\ out_rates st' s = out_rates st s /\ out_done st' s = out_done st s.
Proof.
  intros sched sts sts' cf st He Hn Hp Hr.
  destruct (thm_station_perm sched sts sts' cf st He Hn Hp Hr) as [st' [R [Hz _]]].
  exists st'. split; auto. intros s n. unfold out_pilots, out_rates, out_done. now rewrite Hz.
Qed.
Print Assumptions C10_station_perm_outputs.

(* the two scheduler families of the model are equivariant *)
Theorem C10_uncontrolled_equivariant : equivariant sched_uncontrolled.
Proof. exact uncontrolled_equivariant. Qed.
Print Assumptions C10_uncontrolled_equivariant.

Theorem C10_scripted_equivariant : forall script, equivariant (sched_script script).
Proof. exact script_equivariant. Qed.
Print Assumptions C10_scripted_equivariant.
