(* Props/C10.v — results are deterministic and independent of incidental ordering.

   Model/SimPerm.v is an executable model of Simulator.run in which every per-station quantity is
   keyed by station id; it is tied to the implementation by harness/c10.py, which replays every one
   of the paired real runs (original / stations permuted / constraints permuted / sessions
   permuted / shifted / other PYTHONHASHSEED) in the model and compares pilots, rates, energies and
   infeasibility warnings.
     simulate sched stations cf = Some st    the run succeeded (None: some call raised)
     stations : list (id * station)          registration order
     cf_sessions / cf_constraints            the session (event) list / constraints in the order given
     sched                                   scheduler oracle: iteration -> active sessions (station order)
                                             -> {station id: [pilots]}
     out_pilots n st s / out_rates st s / out_done st s   the rows of station s / the sessions that
                                             charged there with their delivered energy
   Only statements here. *)
From Coq Require Import ZArith QArith List Bool Permutation Lia.
From ACN Require Import Base.Num Model.EVSE Model.SimPerm Proofs.SimPerm Proofs.SimShift.
From ACN Require Model.Preproc Model.Sorted Proofs.SortedPerm.
Import ListNotations.
Open Scope Q_scope.
Open Scope list_scope.

(* equal inputs give equal outputs: the model is a function; that the IMPLEMENTATION is one is what
   the correspondence check establishes (same scenario in two processes with different hash seeds) *)
Theorem C10_function : forall sched sts cf sts' cf',
  sts = sts' -> cf = cf' -> simulate sched sts cf = simulate sched sts' cf'.
Proof. intros; subst; reflexivity. Qed.
Print Assumptions C10_function.

(* listing the sessions (Plugin events) in a different order changes nothing at all — for EVERY
   scheduler oracle and every input (including runs that raise) *)
Theorem C10_session_perm : forall sched sts cf ses',
  Permutation (cf_sessions cf) ses' ->
  simulate sched sts (with_sessions cf ses') = simulate sched sts cf.
Proof. exact thm_session_perm. Qed.
Print Assumptions C10_session_perm.

(* ... more generally the order in which the event queue hands out the due events of one
   precedence class (ties of the heap) is irrelevant: any permutation du of the due Unplug events
   followed by any permutation ar of the due Plugin events leaves the same network *)
Theorem C10_tie_order : forall t ses l du ar,
  Permutation du (departing t ses) -> Permutation ar (arriving t ses) ->
  match fold_opt unplug du l with Some l1 => fold_opt plugin ar l1 | None => None end
  = process_events t ses l.
Proof. exact tie_order. Qed.
Print Assumptions C10_tie_order.

(* adding the constraints in a different order changes nothing (pilots, rates, energies, and the
   infeasibility warnings of _update_schedules) — for every scheduler oracle *)
Theorem C10_constraint_perm : forall sched sts cf cs',
  Permutation (cf_constraints cf) cs' ->
  simulate sched sts (with_constraints cf cs') = simulate sched sts cf.
Proof. exact thm_constraint_perm. Qed.
Print Assumptions C10_constraint_perm.

(* registering the stations in a different order: for every scheduler whose answer — as a
   dictionary — does not depend on the order in which the active sessions are presented, the run
   succeeds iff the original does, and every station has the same state, hence the same pilot row,
   rate row and per-session energies; the infeasibility warnings are the same *)
Theorem C10_station_perm : forall sched sts sts' cf st,
  equivariant sched -> NoDup (map fst sts) -> Permutation sts sts' ->
  simulate sched sts cf = Some st ->
  exists st', simulate sched sts' cf = Some st'
    /\ (forall s, zassoc s (ss_slots st') = zassoc s (ss_slots st))
    /\ Permutation (ss_slots st) (ss_slots st')
    /\ ss_warn st' = ss_warn st /\ ss_last st' = ss_last st.
Proof. exact thm_station_perm. Qed.
Print Assumptions C10_station_perm.

Theorem C10_station_perm_outputs : forall sched sts sts' cf st,
  equivariant sched -> NoDup (map fst sts) -> Permutation sts sts' ->
  simulate sched sts cf = Some st ->
  exists st', simulate sched sts' cf = Some st'
    /\ forall s n, out_pilots n st' s = out_pilots n st s
                   /\ out_rates st' s = out_rates st s /\ out_done st' s = out_done st s.
Proof.
  intros sched sts sts' cf st He Hn Hp Hr.
  destruct (thm_station_perm sched sts sts' cf st He Hn Hp Hr) as [st' [R [Hz _]]].
  exists st'. split; auto. intros s n. unfold out_pilots, out_rates, out_done. now rewrite Hz.
Qed.
Print Assumptions C10_station_perm_outputs.

(* the same when the two runs use two schedulers (e.g. an algorithm that closes over the original /
   the permuted infrastructure) whose answers are the same dictionary *)
Theorem C10_station_perm_two_schedulers : forall sched sched' sts sts' cf st,
  equivariant2 sched sched' -> NoDup (map fst sts) -> Permutation sts sts' ->
  simulate sched sts cf = Some st ->
  exists st', simulate sched' sts' cf = Some st'
    /\ (forall s, zassoc s (ss_slots st') = zassoc s (ss_slots st))
    /\ Permutation (ss_slots st) (ss_slots st')
    /\ ss_warn st' = ss_warn st /\ ss_last st' = ss_last st.
Proof. exact thm_station_perm2. Qed.
Print Assumptions C10_station_perm_two_schedulers.

(* sorting-based schedulers: FULL statement wanted — "SortedSchedulingAlgo (FCFS, EDF, LLF, LRPT, finite or
   continuous rates) with distinct sort keys is equivariant2 under station / constraint permutation".
   Proved part: with distinct keys the sorted order, hence the input of the allocation procedure, does
   not depend on the order in which the active sessions are presented (whatever the allocation does).
   This partial statement is kept for the record; the allocation procedure is covered by the full
   theorem C10_sorted_equivariant further down (greedy algorithm of Model/Sorted.v, Proofs/SortedPerm.v).
   What remains unproved: round robin and run_preprocessing (order-dependent on remaining_time ties). *)
Theorem C10_sorted_equivariant_partial : forall key alloc t v v',
  NoDup (map key v) -> Permutation v v' -> sched_sorted key alloc t v = sched_sorted key alloc t v'.
Proof. exact sorted_equivariant. Qed.
Print Assumptions C10_sorted_equivariant_partial.

(* ... and the allocation procedure itself (Model/Sorted.v :: sorting_algorithm, the greedy loop with the bisection
   for continuous EVSEs and the top-down level search for finite-rate EVSEs, against the phasor check feasQ):
   FULL.  Three incidental orders are permuted at once:
     - the active sessions are presented in ANY order ss' (a Permutation of the relabelled list);
     - the stations are listed in another order: `p` is a permutation of 0..N-1, the new position k holds the old
       station p[k]; `infra_perm p inf inf'` says every per-station vector of InfrastructureInfo (phases as cos/sin,
       voltages, max/min pilots, allowable pilots, is_continuous) and every column of the constraint matrix is permuted
       accordingly, and a session at old station i sits at new station `pos p i` (relabel);
     - the constraint rows (with their limits) are listed in ANY order (the Permutation inside infra_perm).
   With pairwise distinct priority keys the algorithm returns the same schedule entry-for-entry permuted
   (perm_vec p out: entry k of the new vector is entry p[k] of the old one), i.e. the same map station -> pilot,
   and raises the same error if it raises.  Holds for all five sort orders and for continuous as well as
   finite-rate stations.  Round robin and the whole schedule() follow below. *)
Section SortedEquivariance.
  Import ACN.Model.Preproc ACN.Model.Sorted ACN.Proofs.SortedPerm.

  Theorem C10_sorted_equivariant :
    forall (inf inf' : infra) (p : list nat) period now k (ss ss' : list Preproc.session),
      is_perm p (n_stations inf) -> infra_shape inf -> infra_perm p inf inf' ->
      (forall s, In s ss -> (s_station s < n_stations inf)%nat) ->
      Permutation ss' (map (relabel p) ss) ->
      (forall a b, In a ss -> In b ss ->
         sort_key inf period now k a == sort_key inf period now k b -> a = b) ->
      sorting_algorithm (feasQ inf') inf' period now k ss'
      = res_map (perm_vec 0 p) (sorting_algorithm (feasQ inf) inf period now k ss).
  Proof. exact greedy_equivariant. Qed.

  (* the same, read station by station *)
  Theorem C10_sorted_equivariant_map :
    forall (inf inf' : infra) (p : list nat) period now k (ss ss' : list Preproc.session) out,
      is_perm p (n_stations inf) -> infra_shape inf -> infra_perm p inf inf' ->
      (forall s, In s ss -> (s_station s < n_stations inf)%nat) ->
      Permutation ss' (map (relabel p) ss) ->
      (forall a b, In a ss -> In b ss ->
         sort_key inf period now k a == sort_key inf period now k b -> a = b) ->
      sorting_algorithm (feasQ inf) inf period now k ss = Ok out ->
      exists out', sorting_algorithm (feasQ inf') inf' period now k ss' = Ok out'
        /\ List.length out' = List.length out
        /\ forall i, (i < n_stations inf)%nat -> nth (pos p i) out' 0 = nth i out 0.
  Proof. exact greedy_equivariant_map. Qed.

  (* round robin: the same statement *)
  Theorem C10_round_robin_equivariant :
    forall (inf inf' : infra) (p : list nat) period now inc k (ss ss' : list Preproc.session),
      is_perm p (n_stations inf) -> infra_shape inf -> infra_perm p inf inf' ->
      List.length (i_allow inf) = n_stations inf ->
      (forall s, In s ss -> (s_station s < n_stations inf)%nat) ->
      Permutation ss' (map (relabel p) ss) ->
      (forall a b, In a ss -> In b ss ->
         sort_key inf period now k a == sort_key inf period now k b -> a = b) ->
      round_robin (feasQ inf') inf' period now inc k ss'
      = res_map (perm_vec 0 p) (round_robin (feasQ inf) inf period now inc k ss).
  Proof. exact round_robin_equivariant_feasQ. Qed.

  (* the whole schedule() = run_preprocessing (finished-session removal, pilot limit, SimpleRampdown estimator,
     uninterrupted-charging minimum rates) + greedy or round robin + format_array_schedule, for sessions with distinct
     ids, pairwise distinct priority keys and -- when minimum rates are applied -- pairwise distinct remaining times
     (apply_minimum_charging_rate serves the sessions in order of remaining time; see C10_remaining_time_ties_matter) *)
  Theorem C10_schedule_equivariant :
    forall (inf inf' : infra) (p : list nat) (cfg : Sorted.config) (ss ss' : list Preproc.session),
      is_perm p (n_stations inf) -> infra_shape inf -> infra_perm p inf inf' ->
      List.length (i_allow inf) = n_stations inf ->
      (forall s, In s ss -> (s_station s < n_stations inf)%nat) ->
      Permutation ss' (map (relabel p) ss) ->
      NoDup (map s_id ss) ->
      (forall a b, In a ss -> In b ss ->
         sort_key inf (c_period cfg) (c_now cfg) (c_sort cfg) a == sort_key inf (c_period cfg) (c_now cfg) (c_sort cfg) b ->
         s_id a = s_id b) ->
      (c_unint cfg = true -> forall a b, In a ss -> In b ss -> remaining_time a = remaining_time b -> a = b) ->
      so_result (schedule_with (feasQ inf') inf' cfg ss')
      = res_map (perm_vec 0 p) (so_result (schedule_with (feasQ inf) inf cfg ss)).
  Proof. exact schedule_equivariant_feasQ. Qed.

  (* preprocessing alone, one infrastructure: any presentation order gives the same preprocessed sessions (as a multiset;
     the same list when minimum rates are applied) and the same estimator store (as a map) *)
  Theorem C10_preprocessing_order_independent :
    forall (feasible : list Q -> bool) (inf : infra) period est unint (ss1 ss2 : list Preproc.session),
      Permutation ss1 ss2 -> NoDup (map s_id ss1) ->
      (unint = true -> forall a b, In a ss1 -> In b ss1 -> remaining_time a = remaining_time b -> a = b) ->
      Permutation (fst (run_preprocessing feasible inf period est unint ss1))
                  (fst (run_preprocessing feasible inf period est unint ss2))
      /\ forall k, zassoc k (snd (run_preprocessing feasible inf period est unint ss1))
                   = zassoc k (snd (run_preprocessing feasible inf period est unint ss2)).
  Proof. exact run_preprocessing_perm. Qed.

  (* ... and the remaining-time hypothesis cannot be dropped: with EQUAL remaining times (a tie the scheduler's decision
     hinges on) the session listed first keeps its 8 A minimum pilot under the 10 A limit and the other one is dropped,
     although the priority keys (arrival times) are distinct: (8, 0) versus (0, 8).  Reproduced on the real
     SortedSchedulingAlgo(first_come_first_served, uninterrupted_charging=True). *)
  Theorem C10_remaining_time_ties_matter :
    let a := tie_session 0 1 0 in let b := tie_session 1 2 1 in
    Permutation [a; b] [b; a] /\ NoDup (map s_id [a; b])
    /\ ~ sort_key tie_inf 5 5%Z FCFS a == sort_key tie_inf 5 5%Z FCFS b
    /\ remaining_time a = remaining_time b
    /\ so_result (schedule tie_inf tie_cfg [a; b]) = Ok [8; 0]
    /\ so_result (schedule tie_inf tie_cfg [b; a]) = Ok [0; 8].
  Proof. exact remaining_time_tie_witness. Qed.

  (* what the permuted objects are *)
  Theorem C10_perm_vec_spec : forall (p : list nat) (v : list Q) i,
    In i p -> nth (pos p i) (perm_vec 0 p v) 0 = nth i v 0.
  Proof. intros. now apply nth_perm_vec_pos. Qed.

  (* non-vacuity: three stations on three phases, two finite-rate and one continuous EVSE, both constraints binding;
     stations rotated by (2,0,1), constraint rows swapped, sessions presented in reverse order *)
  Example C10_sorted_equivariant_example :
    is_perm sp_p (n_stations sp_inf) /\ infra_shape sp_inf /\ infra_perm sp_p sp_inf sp_inf'
    /\ (forall s, In s sp_ss -> (s_station s < n_stations sp_inf)%nat)
    /\ (forall a b, In a sp_ss -> In b sp_ss ->
          sort_key sp_inf 5 5%Z FCFS a == sort_key sp_inf 5 5%Z FCFS b -> a = b)
    /\ exists out,
         sorting_algorithm (feasQ sp_inf) sp_inf 5 5%Z FCFS sp_ss = Ok out
         /\ sorting_algorithm (feasQ sp_inf') sp_inf' 5 5%Z FCFS (rev (map (relabel sp_p) sp_ss)) = Ok (perm_vec 0 sp_p out)
         /\ nth 0 out 0 = 8 /\ nth 1 out 0 = 0 /\ 22 < nth 2 out 0 /\ nth 2 out 0 < 23.
  Proof. exact sp_example. Qed.
End SortedEquivariance.
Print Assumptions C10_sorted_equivariant.
Print Assumptions C10_sorted_equivariant_map.
Print Assumptions C10_round_robin_equivariant.
Print Assumptions C10_schedule_equivariant.
Print Assumptions C10_preprocessing_order_independent.
Print Assumptions C10_remaining_time_ties_matter.
Print Assumptions C10_perm_vec_spec.

(* the two scheduler families of the model are equivariant *)
Theorem C10_uncontrolled_equivariant : equivariant sched_uncontrolled.
Proof. exact uncontrolled_equivariant. Qed.
Print Assumptions C10_uncontrolled_equivariant.

Theorem C10_scripted_equivariant : forall script, equivariant (sched_script script).
Proof. exact script_equivariant. Qed.
Print Assumptions C10_scripted_equivariant.

(* shifting every event by k periods shifts the outputs by k periods.
   shift_config k cf: every session's arrival and departure + k.  shift_state k st: every pilot row
   and rate row gets k leading zeros (zeros k ++ row), the connected EVs carry the shifted times, the
   warning log and _last_schedule_update move by k, everything else (energies, occupants) is equal.
   Hypotheses: the scheduler is time-invariant (sched' at t+k on the shifted view = sched at t),
   submits nothing while the network is still empty, every EVSE accepts a zero pilot (an idle
   period raises InvalidRateError otherwise), sessions are well-formed (arrival < departure) and
   a0 is the first arrival.  The equation includes failure: one run raises iff the other does. *)
Theorem C10_shift : forall k a0 sched sched' sts cf,
  (forall t v, sched' (t + k)%nat (map (shift_info k) v) = sched t v) ->
  (forall t, (t < a0)%nat -> sched t [] = []) ->
  (forall t, (t < a0 + k)%nat -> sched' t [] = []) ->
  (forall q, In q sts -> valid_rate (st_kind (snd q)) 0 = true) ->
  (forall x, In x (cf_sessions cf) -> (a0 <= se_arr x /\ se_arr x < se_dep x)%nat) ->
  arriving a0 (cf_sessions cf) <> [] ->
  simulate sched' sts (shift_config k cf) = option_map (shift_state k) (simulate sched sts cf).
Proof. exact thm_shift. Qed.
Print Assumptions C10_shift.

(* what shift_state means for the observables of one station *)
Theorem C10_shift_outputs : forall k st s,
  out_rates (shift_state k st) s = option_map (fun r => zeros k ++ r) (out_rates st s)
  /\ out_done (shift_state k st) s = out_done st s
  /\ option_map sl_pilots (zassoc s (ss_slots (shift_state k st)))
     = option_map (fun sl => zeros k ++ sl_pilots sl) (zassoc s (ss_slots st)).
Proof.
  intros k st s. unfold out_rates, out_done. simpl. rewrite zassoc_shift.
  destruct (zassoc s (ss_slots st)); simpl; auto.
Qed.
Print Assumptions C10_shift_outputs.

(* the two scheduler families satisfy the hypotheses of C10_shift *)
Theorem C10_uncontrolled_time_invariant : forall k t v,
  sched_uncontrolled (t + k)%nat (map (shift_info k) v) = sched_uncontrolled t v
  /\ sched_uncontrolled t [] = [].
Proof. intros. split; [apply uncontrolled_shift|reflexivity]. Qed.
Print Assumptions C10_uncontrolled_time_invariant.

Theorem C10_scripted_time_invariant : forall k script t v v',
  sched_script (shift_script k script) (t + k)%nat v' = sched_script script t v
  /\ ((t < k)%nat -> sched_script (shift_script k script) t v = []).
Proof. intros. split; [apply script_shift|apply script_idle_before]. Qed.
Print Assumptions C10_scripted_time_invariant.

(* ---- non-vacuity: a concrete scenario (2 stations, 3 sessions, one constraint, uncontrolled
   charging) runs to completion in the model, in the original and in the permuted / shifted forms ---- *)
Definition ex_sts : list (Z * station) :=
  [(1%Z, {| st_kind := Continuous 0 32; st_voltage := 240; st_cos := 1; st_sin := 0 |});
   (2%Z, {| st_kind := Finite [8; 16]; st_voltage := 208; st_cos := 1 # 2; st_sin := 7 # 8 |})].
Definition ex_ses : list session :=
  [{| se_id := 101; se_station := 1; se_arr := 0; se_dep := 3; se_req := 2; se_cap := 20; se_init := 0; se_maxp := 7 |};
   {| se_id := 102; se_station := 2; se_arr := 1; se_dep := 4; se_req := 1 # 2; se_cap := 20; se_init := 0; se_maxp := 7 |};
   {| se_id := 103; se_station := 1; se_arr := 3; se_dep := 5; se_req := 5; se_cap := 20; se_init := 0; se_maxp := 7 |}].
Definition ex_cf : config :=
  {| cf_sessions := ex_ses; cf_max_recompute := Some 1%nat; cf_period := 5;
     cf_constraints := [{| c_name := 0; c_coef := [(1%Z, 1); (2%Z, 1)]; c_limit := 40 |}];
     cf_abs_tol := 1 # 100000; cf_rel_tol := 1 # 10000000 |}.

Example C10_example_runs :
  (exists st, simulate sched_uncontrolled ex_sts ex_cf = Some st
              /\ out_done st 1%Z = Some [(101%Z, 7 # 4); (103%Z, 7 # 6)]
              /\ ss_warn st <> [] )
  /\ (exists st, simulate sched_uncontrolled (rev ex_sts) ex_cf = Some st)
  /\ (exists st, simulate sched_uncontrolled ex_sts (shift_config 2 ex_cf) = Some st).
Proof.
  split; [|split].
  - eexists. split; [vm_compute; reflexivity|]. split; [reflexivity|discriminate].
  - eexists. vm_compute. reflexivity.
  - eexists. vm_compute. reflexivity.
Qed.

Example C10_example_hypotheses :
  NoDup (map fst ex_sts) /\ Permutation ex_sts (rev ex_sts)
  /\ (forall q, In q ex_sts -> valid_rate (st_kind (snd q)) 0 = true)
  /\ (forall x, In x (cf_sessions ex_cf) -> (0 <= se_arr x /\ se_arr x < se_dep x)%nat)
  /\ arriving 0 (cf_sessions ex_cf) <> [].
Proof.
  split; [repeat constructor; simpl; intuition discriminate|].
  split; [apply Permutation_rev|].
  split; [intros q [H|[H|[]]]; subst; reflexivity|].
  split; [intros x [H|[H|[H|[]]]]; subst; simpl; lia|discriminate].
Qed.
