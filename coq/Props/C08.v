(* Props/C08.v — priority allocation: greedy grants the max feasible rate in priority order; round robin raises
   one level at a time and a session stops only when blocked or at the top of its own list; the uncontrolled
   baseline.  Statements only (proofs in Proofs/Sorted.v, Proofs/Interval.v).  `feasible` is ANY feasibility
   check unless the statement says feasQ (the phasor check of Model/Preproc.v). *)
From Coq Require Import ZArith QArith Qminmax List Bool String Permutation Sorting.Sorted.
From ACN Require Import Base.Num Base.ListX Gen.Sorted_Q Model.Preproc Model.Sorted Proofs.Sorted Proofs.Interval Proofs.Preproc.
Import ListNotations.
Open Scope Q_scope.

(* the five priority keys and their directions, as regenerated from sorted_algorithms.py *)
Theorem C08_sort_keys :
  forall inf period now s,
    sort_key inf period now FCFS s = inject_Z (s_arr s) /\ sort_reverse FCFS = false          (* arrival, ascending *)
    /\ sort_key inf period now LCFS s = inject_Z (s_arr s) /\ sort_reverse LCFS = true        (* arrival, descending *)
    /\ sort_key inf period now EDF s = inject_Z (s_edep s) /\ sort_reverse EDF = false        (* estimated departure *)
    /\ sort_key inf period now LLF s =                                                        (* laxity, ascending *)
         (inject_Z (s_edep s) - inject_Z now) - rap inf period s / nthQ (i_maxp inf) (s_station s)
    /\ sort_reverse LLF = false
    /\ sort_key inf period now LRPT s = rap inf period s / nthQ (i_maxp inf) (s_station s)    (* remaining processing time, *)
    /\ sort_reverse LRPT = true.                                                              (* descending *)
Proof. intros. repeat split; reflexivity. Qed.
Print Assumptions C08_sort_keys.

(* what a step of the greedy loop sees, defined pointwise and independently of the loop:
   stations of already-served sessions hold the granted pilot, stations of waiting sessions their lower bound,
   every other station 0 *)
Theorem C08_view_spec :
  forall inf (granted : list (session * Q)) (waiting : list session) j,
    (j < n_stations inf)%nat ->
    nth j (view inf granted waiting) 0 =
    match find (fun sr => Nat.eqb (s_station (fst sr)) j) granted with
    | Some sr => snd sr
    | None => match find (fun s => Nat.eqb (s_station s) j) waiting with Some s => g_lb s | None => 0 end
    end.
Proof. exact nth_view. Qed.
Print Assumptions C08_view_spec.

(* sessions are served strictly in the stable order of the chosen key, each step seeing exactly the pilots
   already granted to the sessions before it (and nothing of the ones after it but their lower bounds);
   the final pilot of a session is what its step granted *)
Theorem C08_order :
  forall (feasible : list Q -> bool) inf period now k (ss : list session) out,
    NoDup (map s_station ss) -> stations_ok inf ss ->
    sorting_algorithm feasible inf period now k ss = Ok out ->
    let key := sort_key inf period now k in
    let q := sort_sessions inf period now k ss in
    Permutation q ss
    /\ StronglySorted (key_le key (sort_reverse k)) q
    /\ (forall v, filter (fun s => Qeqb (key s) v) q = filter (fun s => Qeqb (key s) v) ss)
    /\ exists rates, List.length rates = List.length q
         /\ forall f1 s r f2, combine q rates = f1 ++ (s, r) :: f2 ->
              greedy_rate feasible inf period s (view inf f1 (s :: map fst f2)) = Ok r
              /\ nth (s_station s) out 0 = r.
Proof.
  intros feasible inf period now k ss out ND SO H. cbv zeta.
  split; [apply sort_by_perm|]. split; [apply sort_by_sorted|]. split; [intro v; apply sort_by_stable|].
  exact (greedy_run feasible inf period now k ss out ND SO H).
Qed.
Print Assumptions C08_order.

(* finite-rate station: the level granted is EXACTLY the largest level in [lb, ub] that is feasible with
   the earlier grants fixed; 0 if none is *)
Theorem C08_greedy_discrete_max :
  forall (feasible : list Q -> bool) inf period s sched r,
    nth (s_station s) (i_cont inf) true = false ->
    StronglySorted Qle (nth (s_station s) (i_allow inf) []) ->          (* the EVSE's levels are ascending *)
    greedy_rate feasible inf period s sched = Ok r ->
    let levels := filter (fun a => Qleb (g_lb s) a && Qleb a (g_ub inf period s)) (nth (s_station s) (i_allow inf) []) in
    ((exists a, In a levels /\ feasible (upd (s_station s) a sched) = true) ->
       In r levels /\ feasible (upd (s_station s) r sched) = true
       /\ forall a, In a levels -> feasible (upd (s_station s) a sched) = true -> a <= r)
    /\ ((forall a, In a levels -> feasible (upd (s_station s) a sched) = false) -> r = 0).
Proof. exact greedy_discrete_max. Qed.
Print Assumptions C08_greedy_discrete_max.

(* continuous station: the granted rate is feasible, within [lb, ub], and either it is ub or a rate at most
   eps = 0.01 above it was rejected by the check *)
Theorem C08_greedy_continuous_bracket :
  forall (feasible : list Q -> bool) inf period s sched r,
    nth (s_station s) (i_cont inf) true = true ->
    nth (s_station s) sched 0 = g_lb s ->                               (* the station still holds its lower bound *)
    g_lb s < g_ub inf period s ->
    greedy_rate feasible inf period s sched = Ok r ->
    feasible (upd (s_station s) r sched) = true
    /\ g_lb s <= r /\ r <= g_ub inf period s
    /\ (r = g_ub inf period s
        \/ exists r', r < r' /\ r' <= r + (1 # 100) /\ r' <= g_ub inf period s
                      /\ feasible (upd (s_station s) r' sched) = false).
Proof. exact greedy_continuous_bracket. Qed.
Print Assumptions C08_greedy_continuous_bracket.

(* for fixed other stations the rates of one station accepted by the phasor check form an interval
   (x |-> |a + b x|^2 is a convex quadratic) *)
Theorem C08_feasible_interval :
  forall inf i sched x1 x x2,
    x1 <= x -> x <= x2 ->
    feasQ inf (upd i x1 sched) = true -> feasQ inf (upd i x2 sched) = true ->
    feasQ inf (upd i x sched) = true.
Proof. exact feasQ_interval. Qed.
Print Assumptions C08_feasible_interval.

(* hence the bisection result is within eps of the supremum of the feasible rates: no feasible rate <= ub
   exceeds r + 0.01 *)
Theorem C08_greedy_continuous_max :
  forall inf period s sched r,
    nth (s_station s) (i_cont inf) true = true ->
    nth (s_station s) sched 0 = g_lb s ->
    g_lb s < g_ub inf period s ->
    greedy_rate (feasQ inf) inf period s sched = Ok r ->
    forall x, x <= g_ub inf period s -> feasQ inf (upd (s_station s) x sched) = true -> x <= r + (1 # 100).
Proof.
  intros inf period s sched r C Hlb Lt H.
  exact (greedy_continuous_sup (feasQ inf) inf period s sched r C Hlb Lt (feasQ_interval inf _ _) H).
Qed.
Print Assumptions C08_greedy_continuous_max.

(* round robin.  `log` is the list of what happened to each session popped from the deque.
   (1) deque discipline: the popped session is always the head of the queue (initially the sorted order);
       it is re-queued at the back iff it was raised;
   (2) per session: its events are Raised 0, Raised 1, ..., Raised (kf-1) — one level at a time — followed by
       exactly one leaving event, whose reason is: it is at the top of its own bound-filtered level list, or
       the schedule `tried` with its next level was infeasible at that moment; its final pilot is level kf;
   (3) the result is feasible and stations without a session keep 0. *)
Theorem C08_rr_stop_reason :
  forall (feasible : list Q -> bool) inf period now inc k (ss : list session) out log,
    NoDup (map s_station ss) -> stations_ok inf ss -> infra_lengths inf ->
    round_robin_full feasible inf period now inc k ss = Ok (out, log) ->
    feasible out = true
    /\ deque_ok (sort_sessions inf period now k ss) log
    /\ (forall s, In s ss ->
          let i := s_station s in
          let levels := levels_for inf period inc s in
          exists kf e,
            events_of i log = map (Raised i) (seq 0 kf) ++ [e]
            /\ ((e = AtTop i kf /\ ~ (S kf < List.length levels)%nat)
                \/ (exists tried, e = Blocked i kf tried /\ (S kf < List.length levels)%nat
                                  /\ nth i tried 0 = nth (S kf) levels 0 /\ feasible tried = false))
            /\ nth i out 0 = nth kf levels 0
            /\ (kf = O \/ kf < List.length levels)%nat)
    /\ (forall j, ~ In j (map s_station ss) -> nth j out 0 = 0).
Proof. exact rr_run. Qed.
Print Assumptions C08_rr_stop_reason.

(* the level list of a session: its station's levels (finite-rate) or np.arange(min_rate, max_rate + inc/2, inc)
   (continuous), filtered to [max(0, min_rate), min(max_rate, max_pilot, remaining amp-periods)] *)
Theorem C08_rr_levels :
  forall inf period inc s a,
    In a (levels_for inf period inc s) ->
    Qmax 0 (hd0 (s_min s)) <= a
    /\ a <= Qmin (Qmin (hd0 (s_max s)) (nthQ (i_maxp inf) (s_station s))) (rap inf period s)
    /\ (nth (s_station s) (i_cont inf) true = false -> In a (nth (s_station s) (i_allow inf) [])).
Proof. exact levels_for_bounds. Qed.
Print Assumptions C08_rr_levels.

(* uncontrolled baseline: station x maps to [max pilot of x] iff x has an active session; other stations are
   absent from the dictionary *)
Theorem C08_uncontrolled :
  forall inf (ss : list session) j,
    (j < n_stations inf)%nat ->
    nth j (uncontrolled inf ss) None
    = if existsb (fun s => Nat.eqb (s_station s) j) ss then Some (nthQ (i_maxp inf) j) else None.
Proof. exact uncontrolled_spec. Qed.
Print Assumptions C08_uncontrolled.

(* non-vacuity: on the three-phase example of C07 the greedy FCFS run serves stations 0, 1, 2 in arrival order
   (sessions 11, 42, 17), and the round-robin run ends with every session blocked or at its top *)
Example C08_example :
  map s_id (sort_sessions Proofs.Preproc.ex_inf 5 5%Z FCFS Proofs.Preproc.ex_ss) = [11%Z; 42%Z; 17%Z]
  /\ exists out log,
       round_robin_full (feasQ Proofs.Preproc.ex_inf) Proofs.Preproc.ex_inf 5 5%Z (1 # 2) FCFS
                        (fst (run_preprocessing (feasQ Proofs.Preproc.ex_inf) Proofs.Preproc.ex_inf 5 None true
                                                Proofs.Preproc.ex_ss)) = Ok (out, log)
       /\ out = [59 # 2; 16; 64 # 2] /\ List.length log = 127%nat.
Proof.
  split; [vm_compute; reflexivity|]. eexists. eexists. split; [vm_compute; reflexivity|].
  split; vm_compute; reflexivity.
Qed.
