(* Props/C11.v — the event queue returns events by time then precedence, for every interleaving.

   Only statements.  The model (Model/Events.v) is acnportal's EventQueue on top of the exact,
   line-by-line model of CPython's heapq (Model/HeapQ.v); Event.__lt__, EventQueue.empty, the loop
   guard of get_current_events, the branch of get_last_timestamp and the precedence constants are
   the definitions regenerated from the code on every run (Gen/Events_Z.v, Gen/EventParams.v).

   Vocabulary:  item = (timestamp, (precedence, identity));  `item_lt` is Python's `<` on the heap
   entries `(event.timestamp, event)`;  q_queue q is the raw heap array, a multiset of pending
   events;  `run q ops` applies a list of operations and returns the final queue and one result per
   operation;  `inserted ops` / `returned rs` collect every inserted / every returned event;
   `reachable q` = q is EventQueue(events) followed by any operations whatsoever (insertions,
   retrievals, queries and JSON round trips in any interleaving). *)
From Coq Require Import ZArith List Bool Permutation Sorted Lia.
From ACN Require Import Base.Num Base.ListX Model.HeapQ Proofs.HeapQ Gen.Events_Z Gen.EventParams
                        Model.Events Proofs.Events.
Import ListNotations.
Open Scope Z_scope.

(* ---------------------------------------------------------------------------------------------
   The order.  Python's tuple comparison on (timestamp, event) with the generated Event.__lt__ is
   exactly "earlier timestamp first, ties by smaller precedence"; and the generated constants
   put unplug before plug-in before recompute. *)
Theorem C11_key_order : forall a b : item,
  item_lt a b = true <->
  item_ts a < item_ts b \/ (item_ts a = item_ts b /\ item_prec a < item_prec b).
Proof. exact item_lt_spec. Qed.
Print Assumptions C11_key_order.

Theorem C11_precedence_order : prec_unplug < prec_plugin /\ prec_plugin < prec_recompute.
Proof. exact prec_order. Qed.
Print Assumptions C11_precedence_order.

(* it is a strict weak order (irreflexive, asymmetric, transitive, negation transitive), which is
   all that heapq needs *)
Theorem C11_key_strict_weak_order :
  (forall x, item_lt x x = false) /\
  (forall x y, item_lt x y = true -> item_lt y x = false) /\
  (forall x y z, item_lt x y = true -> item_lt y z = true -> item_lt x z = true) /\
  (forall x y z, item_lt y x = false -> item_lt z y = false -> item_lt z x = false).
Proof. exact item_lt_strict_weak. Qed.
Print Assumptions C11_key_strict_weak_order.

(* `le_item a b` (used for "non-decreasing" below) is "not b < a", i.e. (ts a, prec a) <= (ts b, prec b) *)
Theorem C11_le_item_def : forall a b : item,
  le_item a b <-> item_ts a < item_ts b \/ (item_ts a = item_ts b /\ item_prec a <= item_prec b).
Proof. exact le_item_spec. Qed.
Print Assumptions C11_le_item_def.

(* ---------------------------------------------------------------------------------------------
   heapq.  `is_heap lt d h` is the heapq invariant  forall i>0, not (h[i] < h[(i-1)/2]). *)
Theorem C11_is_heap_def : forall (A : Type) (lt : A -> A -> bool) (d : A) (h : list A),
  is_heap A lt d h <->
  (forall i : nat, (0 < i < length h)%nat -> lt (nth i h d) (nth ((i - 1) / 2) h d) = false).
Proof. intros; reflexivity. Qed.
Print Assumptions C11_is_heap_def.

(* The exact model of heappush/heappop (_siftdown and _siftup, both halves) meets the heapq
   contract for ANY item type and any strict weak order `lt` — no premise about heapq is left
   in the theorems below. *)
Theorem C11_heapq_contract :
  forall (A : Type) (lt : A -> A -> bool) (d : A),
    (forall x y, lt x y = true -> lt y x = false) ->
    (forall x y z, lt y x = false -> lt z y = false -> lt z x = false) ->
    forall h : list A, is_heap A lt d h ->
      (forall x, is_heap A lt d (heappush lt d h x) /\ Permutation (heappush lt d h x) (x :: h)) /\
      (heappop lt d h = None <-> h = []) /\
      (h <> [] -> exists x h', heappop lt d h = Some (x, h') /\
                               is_heap A lt d h' /\ Permutation h (x :: h') /\
                               (forall y, In y h -> lt y x = false)).
Proof. exact heapq_contract. Qed.
Print Assumptions C11_heapq_contract.

(* ---------------------------------------------------------------------------------------------
   C11_inv: after EventQueue(init) and ANY sequence of operations the array is heap-ordered and,
   together with everything returned so far, is a permutation of everything inserted so far
   (nothing is lost, duplicated or invented). *)
Theorem C11_inv : forall (init : list item) (ops : list op),
  let '(q, rs) := run (eq_init init) ops in
  is_heap item item_lt item0 (q_queue q) /\
  Permutation (q_queue q ++ returned rs) (init ++ inserted ops).
Proof. exact run_inv. Qed.
Print Assumptions C11_inv.

Theorem C11_reachable_heap : forall q, reachable q -> is_heap item item_lt item0 (q_queue q).
Proof. exact reachable_wf. Qed.
Print Assumptions C11_reachable_heap.

(* ---------------------------------------------------------------------------------------------
   C11_pop_min: in every reachable state, get_event raises IndexError exactly on the empty queue;
   otherwise it returns a pending event x such that NO pending event is strictly below x, removes
   exactly x, and leaves a reachable state. *)
Theorem C11_pop_min : forall q, reachable q ->
  match get_event q with
  | None => q_queue q = [] /\ step q OGet = (q, RIndexError)
  | Some (x, q') =>
      In x (q_queue q) /\
      (forall y, In y (q_queue q) -> item_lt y x = false) /\
      Permutation (q_queue q) (x :: q_queue q') /\
      q_timestep q' = q_timestep q /\
      step q OGet = (q', REvent x) /\ reachable q'
  end.
Proof. exact pop_min. Qed.
Print Assumptions C11_pop_min.

(* ... hence, over any stretch of operations without insertion (retrievals of both kinds, queries,
   JSON round trips, in any order) the concatenation of everything returned is non-decreasing in
   (timestamp, precedence), and everything still pending is >= everything returned. *)
Theorem C11_pops_sorted : forall q ops, reachable q -> Forall no_insert ops ->
  let '(q', rs) := run q ops in
  StronglySorted le_item (returned rs) /\
  (forall x y, In x (returned rs) -> In y (q_queue q') -> le_item x y).
Proof. exact pops_sorted. Qed.
Print Assumptions C11_pops_sorted.

(* in particular, draining a reachable queue with get_event sorts the pending multiset *)
Theorem C11_drain_sorted : forall q, reachable q ->
  let '(q', rs) := run q (repeat OGet (length (q_queue q))) in
  q_queue q' = [] /\ Permutation (returned rs) (q_queue q) /\ StronglySorted le_item (returned rs).
Proof. exact drain_sorted. Qed.
Print Assumptions C11_drain_sorted.

(* within one timestamp: unplug events come out before plug-in events before recompute events *)
Theorem C11_class_order : forall ts i j k,
  item_lt (mk ts KUnplug i) (mk ts KPlugin j) = true /\
  item_lt (mk ts KPlugin j) (mk ts KRecompute k) = true /\
  item_lt (mk ts KUnplug i) (mk ts KRecompute k) = true /\
  forall ts' k1 k2, ts < ts' -> item_lt (mk ts k1 i) (mk ts' k2 j) = true.
Proof. exact class_order. Qed.
Print Assumptions C11_class_order.

(* ---------------------------------------------------------------------------------------------
   C11_current: get_current_events t returns exactly the pending events with timestamp <= t, in
   non-decreasing (timestamp, precedence) order, leaves exactly those with timestamp > t, records
   t as _timestep, and the loop stops because no event <= t is left (not because fuel ran out). *)
Theorem C11_current : forall q t, reachable q ->
  let '(q', l) := get_current_events q t in
  Permutation l (filter (fun x => item_ts x <=? t) (q_queue q)) /\
  Permutation (q_queue q') (filter (fun x => t <? item_ts x) (q_queue q)) /\
  StronglySorted le_item l /\
  q_timestep q' = t /\
  step q (OCurrent t) = (q', REvents l) /\ reachable q'.
Proof. exact current_exact. Qed.
Print Assumptions C11_current.

(* ---------------------------------------------------------------------------------------------
   C11_queries: len / empty / get_last_timestamp answer for the pending multiset M (any list that
   is a permutation of the array — by C11_inv, "inserted minus returned"), and change nothing. *)
Theorem C11_queries : forall q M, Permutation (q_queue q) M ->
  step q OLen = (q, RLen (Z.of_nat (length M))) /\
  (exists b, step q OEmpty = (q, RBool b) /\ (b = true <-> M = [])) /\
  (exists o, step q OLast = (q, RLast o) /\
     match o with
     | None => M = []
     | Some m => (exists x, In x M /\ item_ts x = m) /\ (forall x, In x M -> item_ts x <= m)
     end).
Proof. exact queries. Qed.
Print Assumptions C11_queries.

(* the `queue` property hands out the array itself and changes nothing *)
Theorem C11_queue_property : forall q, step q OQueue = (q, RQueue (q_queue q)).
Proof. reflexivity. Qed.
Print Assumptions C11_queue_property.

(* ---------------------------------------------------------------------------------------------
   C11_json: _from_dict (_to_dict q) rebuilds the same array in the same order with the same
   events and the same _timestep; so a JSON round trip at any point of any operation sequence
   changes no later result and no later state. *)
Theorem C11_json : forall q, from_dict (to_dict q) = Some q.
Proof. exact json_roundtrip. Qed.
Print Assumptions C11_json.

Theorem C11_json_transparent : forall q ops1 ops2,
  let '(qa, ra) := run q (ops1 ++ OJson :: ops2) in
  let '(qb, rb) := run q (ops1 ++ ops2) in
  qa = qb /\ returned ra = returned rb /\
  exists r1 r2 j, rb = r1 ++ r2 /\ ra = r1 ++ RJson (Some j) :: r2 /\ length r1 = length ops1.
Proof. exact json_transparent. Qed.
Print Assumptions C11_json_transparent.

(* ---------------------------------------------------------------------------------------------
   Several EventQueue instances in one process, operations addressed to queue 0/1/2/... interleaved
   in one sequence (`mrun`): queue i ends in the state, and the operations addressed to it get the
   results, of running those operations on queue i alone; so every statement above holds for each
   queue of the system whatever happens to the others.  In the model a result is a value, so a list
   returned earlier cannot change later; that the implementation's queues share nothing and that its
   returned lists are fresh and stay what they were is part of every correspondence case. *)
Theorem C11_queues_independent : forall (qs : list queue) (ops : list (nat * op)) (i : nat),
  (i < length qs)%nat ->
  nth i (fst (mrun qs ops)) eq_new = fst (run (nth i qs eq_new) (proj i ops)) /\
  proj_results i ops (snd (mrun qs ops)) = snd (run (nth i qs eq_new) (proj i ops)).
Proof. exact (fun qs ops i => queues_independent ops qs i). Qed.
Print Assumptions C11_queues_independent.

Theorem C11_multi_reachable : forall (qs : list queue) (ops : list (nat * op)) (i : nat),
  (i < length qs)%nat -> reachable (nth i qs eq_new) -> reachable (nth i (fst (mrun qs ops)) eq_new).
Proof. exact (fun qs ops i => multi_reachable ops qs i). Qed.
Print Assumptions C11_multi_reachable.

(* ---------------------------------------------------------------------------------------------
   The hypotheses are satisfiable and the statements are not vacuous: a concrete interleaving with
   ties, an insertion between retrievals, a restore and an empty-queue retrieval. *)
Example C11_example :
  let ops := [OAdd (mk 3 KRecompute 0); OAdd (mk 3 KPlugin 1); OAddMany [mk 3 KUnplug 2; mk 1 KRecompute 3];
              OGet; OAdd (mk 2 KPlugin 4); OJson; OCurrent 3; OLen; OLast; OGet] in
  snd (run eq_new ops) =
  [RNone; RNone; RNone;
   REvent (mk 1 KRecompute 3); RNone;
   RJson (Some (0, [mk 2 KPlugin 4; mk 3 KUnplug 2; mk 3 KPlugin 1; mk 3 KRecompute 0]));
   REvents [mk 2 KPlugin 4; mk 3 KUnplug 2; mk 3 KPlugin 1; mk 3 KRecompute 0];
   RLen 0; RLast None; RIndexError]
  /\ reachable (fst (run (eq_init [mk 5 KPlugin 7]) ops))
  /\ last (snd (run (eq_init [mk 5 KPlugin 7]) ops)) RNone = REvent (mk 5 KPlugin 7).
Proof. exact example_run. Qed.
