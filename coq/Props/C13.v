(* Props/C13.v — EVSEs accept exactly their allowable pilots and advertise truthful limits.
   Only statements, each closed by `exact <lemma>`; the kernels are the regenerated
   Gen/Evse_R.v (all reals, hence every float input under exact arithmetic) and Gen/EvseZ_Z.v. *)
From Coq Require Import ZArith Reals Lra List Bool String.
From ACN Require Import Base.Num Base.NumR Gen.Evse_R Gen.EvseZ_Z Proofs.EVSE.
Import ListNotations.
Open Scope R_scope.

(* continuous EVSE: accepted  <->  within 1e-3 A of [min_rate, max_rate] *)
Theorem C13_accept_iff_continuous : forall mx mn p,
  EVSE_valid_rate mx mn p = true <-> mn <= p + 1/1000 /\ p - 1/1000 <= mx.
Proof. exact evse_accept_iff. Qed.
Print Assumptions C13_accept_iff_continuous.

(* deadband EVSE: {0} u [deadband_end, max_rate], each within 1e-3 A *)
Theorem C13_accept_iff_deadband : forall de mx p,
  DeadbandEVSE_valid_rate de mx p = true <->
  Rabs p <= 1/1000 \/ (de <= p + 1/1000 /\ p - 1/1000 <= mx).
Proof. exact deadband_accept_iff. Qed.
Print Assumptions C13_accept_iff_deadband.

(* finite-rate EVSE built from ANY list (unsorted, duplicated, without 0):
   accepted <-> within 1e-3 A of 0 or of a listed rate *)
Theorem C13_accept_iff_finite : forall l p,
  FiniteRatesEVSE_valid_rate (finite_init_R l) p = true <->
  Rabs p <= 1/1000 \/ exists r, In r l /\ Rabs (p - r) <= 1/1000.
Proof. exact finite_accept_iff_input. Qed.
Print Assumptions C13_accept_iff_finite.

Theorem C13_finite_list_always_has_zero : forall l, In 0 (finite_init_R l).
Proof. exact finite_init_has_zero. Qed.
Print Assumptions C13_finite_list_always_has_zero.

(* advertised limits are accepted *)
Theorem C13_advertised_continuous : forall mn mx, mn <= mx ->
  EVSE_valid_rate mx mn mn = true /\ EVSE_valid_rate mx mn mx = true.
Proof. exact evse_advertised. Qed.
Print Assumptions C13_advertised_continuous.

Theorem C13_advertised_deadband : forall de mx, de <= mx ->
  DeadbandEVSE_valid_rate de mx de = true /\ DeadbandEVSE_valid_rate de mx mx = true
  /\ DeadbandEVSE_valid_rate de mx 0 = true.
Proof. exact deadband_advertised. Qed.
Print Assumptions C13_advertised_deadband.

Theorem C13_advertised_finite : forall l,
  (forall r, In r (finite_init_R l) -> FiniteRatesEVSE_valid_rate (finite_init_R l) r = true)
  /\ In (finite_max_R (finite_init_R l)) (finite_init_R l)
  /\ In (finite_min_R (finite_init_R l)) (finite_init_R l).
Proof.
  exact (fun l => conj (finite_member_accepted (finite_init_R l))
                       (conj (finite_max_member l) (finite_min_member l))).
Qed.
Print Assumptions C13_advertised_finite.

(* a rejected pilot raises InvalidRateError; pilot unchanged; EV.charge not called *)
Theorem C13_reject_atomic : forall cur ev p v t,
  BaseEVSE_set_pilot cur ev p v t false =
  ErrS "InvalidRateError"
       {| BaseEVSE_set_pilot_ret := tt; BaseEVSE_set_pilot__current_pilot := cur;
          BaseEVSE_set_pilot_effects := [] |}.
Proof. exact set_pilot_reject. Qed.
Print Assumptions C13_reject_atomic.

Theorem C13_accept_applies : forall cur ev p v t,
  exists st, BaseEVSE_set_pilot cur ev p v t true = OkS st
  /\ BaseEVSE_set_pilot__current_pilot st = p
  /\ BaseEVSE_set_pilot_effects st =
     match ev with None => [] | Some _ => [("self._ev.charge"%string, [p; v; t])] end.
Proof. exact set_pilot_accept. Qed.
Print Assumptions C13_accept_applies.

(* plugging into an occupied station is refused and the occupant stays *)
Theorem C13_plugin_occupied : forall x y : Z,
  BaseEVSE_plugin (Some x) y =
  ErrS "StationOccupiedError" {| BaseEVSE_plugin_ret := tt; BaseEVSE_plugin__ev := Some x |}.
Proof. exact plugin_occupied. Qed.
Print Assumptions C13_plugin_occupied.

(* non-vacuity: concrete EVSEs meeting the hypotheses *)
Example C13_example_deadband : 6 <= 32 /\ DeadbandEVSE_valid_rate 6 32 (6 - 1/2000) = true
                               /\ DeadbandEVSE_valid_rate 6 32 3 = false.
Proof.
  split; [lra|]. split.
  - apply deadband_accept_iff. right. lra.
  - destruct (DeadbandEVSE_valid_rate 6 32 3) eqn:E; auto.
    apply deadband_accept_iff in E. destruct E as [E|E]; [|lra].
    rewrite Rabs_pos_eq in E; lra.
Qed.
