(* Props/C05.v — the scheduler is invoked exactly when required, at most once per period, after the
   period's events, and sees the true, isolated state.

   `run` is the skeleton of Simulator.run (Model/SimSkel.v) built on the regenerated recompute
   condition, loop guard, scheduling block and _process_event (Gen/Sim_Z.v); `calls st` is the log of
   scheduler invocations (period, view shown); `hist st` is event_history tagged with the period of
   processing.  C05_invoked_iff / C05_once_after_events / C05_isolated hold for EVERY event list
   (valid or not), every max_recompute, every numeric layer and every scheduler function.
   C05_view_* are about the concrete Interface model (Model/SimIface.v) built on the regenerated
   EV.fully_charged, `i = iteration - 1`, `i > 0`, `ev.arrival <= i` and SessionInfo kernels. *)
From Coq Require Import ZArith QArith List Bool String Sorted Lia.
From ACN Require Import Base.Num Gen.SimParams Gen.Sim_Z Model.EVSE Model.SimSkel Model.SimIface
     Proofs.SimSkel Proofs.SimIface.
Import ListNotations.
Open Scope Z_scope.

(* prev_call cs t  =  the last element of cs that is < t  (the most recent earlier invocation) *)
Theorem C05_prev_call_unfold : forall cs t,
  prev_call cs t = fold_left (fun _ a => Some a) (filter (fun c => c <? t) cs) None.
Proof. reflexivity. Qed.
Print Assumptions C05_prev_call_unfold.

(* `resolving e`: e is a Plugin / Unplug / Recompute event (its event_type code is one of the three the
   regenerated _process_event dispatches on).  Any other queue entry — a bare acnsim.Event or a
   user-defined subclass — is logged in event_history but requests no schedule. *)
Theorem C05_resolving_unfold : forall e,
  resolving e = match e with EOther _ _ c => (c =? 0) || (c =? 1) || (c =? 2) | _ => true end.
Proof. intros []; reflexivity. Qed.
Print Assumptions C05_resolving_unfold.

(* For every completed period t: the scheduler ran in t  <->  a resolving event was processed in t, or
   max_recompute = Some k and (it never ran before, or the last run l satisfies t - l >= k). *)
Theorem C05_invoked_iff :
  forall N V Sch stations maxrec num_view num_apply num_charge num_store (sched : V -> Sch) evs n0 fuel st,
  run N V Sch stations maxrec num_view num_apply num_charge num_store sched fuel (init N V evs n0) = Done st ->
  forall t, 0 <= t < iter st ->
    (In t (map fst (calls st)) <->
     (exists e, In (t, e) (hist st) /\ resolving e = true) \/
     (exists k, maxrec = Some k /\
                match prev_call (map fst (calls st)) t with None => True | Some l => k <= t - l end)).
Proof.
  intros until st. intros R t Ht.
  exact (c_iff _ _ _ _ _ _ _ _ _ _ _ _
               (c05_done N V Sch stations maxrec num_view num_apply num_charge num_store sched evs n0 fuel st R) t Ht).
Qed.
Print Assumptions C05_invoked_iff.

(* The same for a valid session set (C01), with "an event occurred in period t" stated on the INPUT:
   a given Plugin/Recompute event has timestamp t, or a given session departs at t. *)
Theorem C05_invoked_iff_valid :
  forall N V Sch stations maxrec num_view num_apply num_charge num_store (sched : V -> Sch) evs n0 st,
  valid stations evs ->
  run N V Sch stations maxrec num_view num_apply num_charge num_store sched (fuel_of evs) (init N V evs n0) = Done st ->
  forall t, 0 <= t < iter st ->
    (In t (map fst (calls st)) <->
     ((exists e, In e evs /\ ev_ts e = t /\ resolving e = true) \/
      (exists x, In x (sessions_of evs) /\ s_departure x = t)) \/
     (exists k, maxrec = Some k /\
                match prev_call (map fst (calls st)) t with None => True | Some l => k <= t - l end)).
Proof.
  intros until st. intros VAL R.
  exact (invoked_iff_valid N V Sch stations maxrec num_view num_apply num_charge num_store sched evs VAL n0 st R).
Qed.
Print Assumptions C05_invoked_iff_valid.

(* At most one invocation per period (the log is strictly increasing in time, all within the run);
   each invocation (t, v) happened in a loop iteration that started in a reachable state s with
   iter s = t: the period's events were processed first (events_phase s = s1), the regenerated
   recompute condition held in s1, v is the view of s1, and every event of period t that is in the
   final event_history was already processed in s1. *)
Theorem C05_once_after_events :
  forall N V Sch stations maxrec num_view num_apply num_charge num_store (sched : V -> Sch) evs n0 fuel st,
  run N V Sch stations maxrec num_view num_apply num_charge num_store sched fuel (init N V evs n0) = Done st ->
  StronglySorted Z.lt (map fst (calls st)) /\
  (forall t, In t (map fst (calls st)) -> 0 <= t < iter st) /\
  forall t v, In (t, v) (calls st) ->
    exists s s1,
      reach N V Sch stations maxrec num_view num_apply num_charge num_store sched (init N V evs n0) s /\
      iter s = t /\ loop_guard N V s = true /\
      events_phase N V stations s = OkS s1 /\
      Simulator_recompute_cond t (last_upd s1) (resolve s1) maxrec = true /\
      num_view t (occ s1) (num s1) = Ok v /\
      (forall e, In (t, e) (hist st) <-> In (t, e) (hist s1)).
Proof.
  intros until st. intros R.
  pose proof (c05_done N V Sch stations maxrec num_view num_apply num_charge num_store sched evs n0 fuel st R) as C.
  split; [exact (c_incr _ _ _ _ _ _ _ _ _ _ _ _ C)|]. split; [exact (c_lt _ _ _ _ _ _ _ _ _ _ _ _ C)|].
  exact (c_origin _ _ _ _ _ _ _ _ _ _ _ _ C).
Qed.
Print Assumptions C05_once_after_events.

(* the regenerated recompute condition, spelled out *)
Theorem C05_recompute_cond : forall t last r mr,
  Simulator_recompute_cond t last r mr =
  r || match mr with
       | None => false
       | Some k => match last with None => true | Some l => k <=? t - l end
       end.
Proof. exact recompute_cond_spec. Qed.
Print Assumptions C05_recompute_cond.

(* The view is the projection of (period, occupancy, numeric state): current period and time offset;
   active sessions = connected (station order) with requested - delivered > 1e-3, each with the
   state's delivered energy; previous rates; previous pilots only from the third period on (t >= 2)
   and only for sessions that had arrived by t-1, read from column t-1 of the pilot matrix at the
   session's station; peak; infrastructure description. *)
Theorem C05_view_true : forall cfg t o ns v,
  num_view cfg t o ns = Ok v ->
  let act := filter (fun p => Qltb (1 # 1000) (s_req (snd p) - en_energy (ev_get (snd p) ns))) (connected cfg o) in
  v_time v = t /\
  v_minutes v = (n_period cfg * inject_Z t)%Q /\
  v_sessions v = map (fun p => mk_sinfo t ns (snd p)) act /\
  v_last_rates v = map (fun p => (sid (snd p), en_rate (ev_get (snd p) ns))) act /\
  v_last_pilots v =
    (if 2 <=? t
     then map (fun p => (sid (snd p), pilot_at ns (fst p) (t - 1)))
              (filter (fun p => s_arrival (snd p) <=? t - 1) act)
     else []) /\
  v_peak v = ns_peak ns /\
  v_infra v = infra_at cfg t /\
  (forall p, In p act -> s_arrival (snd p) < s_departure (snd p) /\ s_arrival (snd p) < s_est (snd p)).
Proof. exact view_true. Qed.
Print Assumptions C05_view_true.

(* `infra_at cfg t`: station ids, voltages, phases, pilot limits and allowable pilots of the network as
   built, with the constraint matrix / limits / names in force at period t — the last in-place change
   (update/add/remove_constraint) made in a period strictly before t, else those of the network as
   built.  Without in-place changes it is the static description. *)
Theorem C05_infra_static : forall cfg t, n_updates cfg = [] -> infra_at cfg t = infra_of cfg.
Proof. exact infra_at_static. Qed.
Print Assumptions C05_infra_static.

Theorem C05_infra_before_first_change : forall cfg t,
  (forall u c, In (u, c) (n_updates cfg) -> t <= u) ->
  cons_at cfg t = (n_cmat cfg, n_limits cfg, n_cids cfg).
Proof. exact cons_at_spec. Qed.
Print Assumptions C05_infra_before_first_change.

Theorem C05_infra_after_change : forall stations period cmat limits cids ups u c t,
  cons_at (mkNet stations period cmat limits cids (ups ++ [(u, c)])) t =
  if u <? t then c else cons_at (mkNet stations period cmat limits cids ups) t.
Proof. intros. unfold cons_at. cbn [n_updates n_cmat n_limits n_cids]. rewrite fold_left_app. reflexivity. Qed.
Print Assumptions C05_infra_after_change.

Theorem C05_view_session_fields : forall t ns x,
  let s := mk_sinfo t ns x in
  si_station s = s_station x /\ si_session s = sid x /\ si_req s = s_req x /\
  si_deliv s = en_energy (ev_get x ns) /\ si_arr s = s_arrival x /\ si_dep s = s_departure x /\
  si_est s = s_est x /\ si_time s = t /\
  si_remaining s = Z.max (Z.min (s_departure x - s_arrival x) (s_departure x - t)) 0 /\
  si_offset s = Z.max (s_arrival x - t) 0.
Proof. exact sinfo_fields. Qed.
Print Assumptions C05_view_session_fields.

(* (i, y) is in `connected cfg o` exactly when the i-th registered station holds session y *)
Theorem C05_connected_spec : forall cfg o i y,
  In (i, y) (connected cfg o) <->
  exists st, nth_error (n_stations cfg) i = Some st /\ occ_get (st_id st) o = Some y.
Proof. exact in_connected. Qed.
Print Assumptions C05_connected_spec.

(* the Interface refuses to build the view only for an active session with departure <= arrival or
   estimated_departure <= arrival (SessionInfo.__init__ raises ValueError) *)
Theorem C05_view_rejected : forall cfg t o ns e,
  num_view cfg t o ns = Err e ->
  e = "ValueError"%string /\
  exists p, In p (connected cfg o) /\ unsatisfied ns (snd p) = true /\
            (s_departure (snd p) <= s_arrival (snd p) \/ s_est (snd p) <= s_arrival (snd p)).
Proof. exact view_rejected. Qed.
Print Assumptions C05_view_rejected.

(* "previous period's pilots": column t-1 of the pilot matrix is what the charging step of period t-1
   read, and nothing rewrites it afterwards — a schedule applied in period t writes columns >= t only;
   charging and storing rates never write the pilot matrix. *)
Theorem C05_pilot_history_immutable : forall cfg t o ns sch,
  (forall ns', num_apply cfg t ns sch = Ok ns' ->
     forall c idx, c < t -> pilot_at ns' idx c = pilot_at ns idx c) /\
  (forall ns', num_charge cfg t o ns = Ok ns' -> ns_pilots ns' = ns_pilots ns) /\
  ns_pilots (num_store cfg t o ns) = ns_pilots ns.
Proof. exact pilots_immutable. Qed.
Print Assumptions C05_pilot_history_immutable.

(* With a valid session set (C01), at every invocation (t, v) of a completed run the view is that of a
   state s1 (after the period's events) in which station i holds session y iff y is a given session
   on that station with arrival y <= t < departure y. *)
Theorem C05_view_valid : forall cfg maxrec sched evs fuel st,
  valid (station_ids cfg) evs ->
  sim_run cfg maxrec sched fuel (sim_init evs) = Done st ->
  forall t v, In (t, v) (calls st) ->
  exists s1 : sim_state,
    num_view cfg t (occ s1) (num s1) = Ok v /\ iter s1 = t /\
    (forall e, In (t, e) (hist st) <-> In (t, e) (hist s1)) /\
    forall i y, In (i, y) (connected cfg (occ s1)) <->
      (exists stn, nth_error (n_stations cfg) i = Some stn /\ st_id stn = s_station y) /\
      In y (sessions_of evs) /\ s_arrival y <= t < s_departure y.
Proof. intros cfg maxrec sched evs fuel st VAL. exact (c05_view_valid cfg maxrec sched evs VAL fuel st). Qed.
Print Assumptions C05_view_valid.

(* Isolation: one loop iteration is a function of the state and of the schedule returned for the
   view shown — `before_schedule` (the regenerated `self._resolve = True` written before the scheduler
   is called), `apply_schedule` and `tail_phase` do not mention the scheduler — hence two schedulers
   that return the same schedules drive the simulator through the same states.  (That the real
   objects handed to the algorithm are copies is the correspondence's mutating-scheduler run.) *)
Theorem C05_isolated :
  forall N V Sch stations maxrec num_view num_apply num_charge num_store (sched : V -> Sch) st,
  step N V Sch stations maxrec num_view num_apply num_charge num_store sched st =
  bindS N V (events_phase N V stations st) (fun s1 =>
    if Simulator_recompute_cond (iter s1) (last_upd s1) (resolve s1) maxrec then
      match num_view (iter s1) (occ s1) (num s1) with
      | Err e => ErrS e (before_schedule N V s1)
      | Ok v => bindS N V (apply_schedule N V Sch num_apply (before_schedule N V s1) v (sched v))
                      (tail_phase N V num_charge num_store)
      end
    else tail_phase N V num_charge num_store s1).
Proof. exact step_isolated. Qed.
Print Assumptions C05_isolated.

Theorem C05_isolated_run :
  forall N V Sch stations maxrec num_view num_apply num_charge num_store (sched1 sched2 : V -> Sch),
  (forall v, sched1 v = sched2 v) ->
  forall fuel st,
    run N V Sch stations maxrec num_view num_apply num_charge num_store sched1 fuel st =
    run N V Sch stations maxrec num_view num_apply num_charge num_store sched2 fuel st.
Proof. exact run_ext. Qed.
Print Assumptions C05_isolated_run.

(* ---- non-vacuity: two stations (continuous 32 A at 208 V, AeroVironment-like finite rates at 240 V),
        5-minute periods, max_recompute = 3, a scheduler that always asks for 16 A on both stations
        for one period.  Session 7: station 1, [0,6), 1 kWh; session 8: station 2, [2,4), 0.2 kWh. ---- *)
Definition ex5_cfg : netcfg :=
  mkNet [mkStation 1 (Continuous (0 # 1) (32 # 1)) (208 # 1) (0 # 1);
         mkStation 2 (Finite [0 # 1; 8 # 1; 16 # 1; 24 # 1; 32 # 1]) (240 # 1) (30 # 1)] (5 # 1) [] [] [] [].
Definition ex5_events : list event :=
  [EPlugin 0 (mkSession 7 1 0 6 6 (1 # 1) (10 # 1) (0 # 1) (7 # 1));
   EPlugin 2 (mkSession 8 2 2 4 4 (1 # 5) (10 # 1) (0 # 1) (7 # 1))].
Definition ex5_sched (v : view) : schedule := [(1, [16 # 1]); (2, [16 # 1])].

Example C05_example_run :
  match sim_run ex5_cfg (Some 3) ex5_sched (fuel_of ex5_events) (sim_init ex5_events) with
  | Done st =>
      iter st = 7 /\
      map fst (calls st) = [0; 2; 4; 6] /\      (* events at 0, 2, 4, 6; no gap reaches 3 *)
      map (fun c => map si_session (v_sessions (snd c))) (calls st) = [[7]; [7; 8]; [7]; []] /\
      map (fun c => v_last_pilots (snd c)) (calls st) = [[]; [(7, 0%Q)]; [(7, 0%Q)]; []] /\
      map (fun c => map (fun s => Qred (si_deliv s)) (v_sessions (snd c))) (calls st)
        = [[0%Q]; [(104 # 375)%Q; 0%Q]; [(208 # 375)%Q]; []]
  | _ => False
  end.
Proof. vm_compute. repeat split; reflexivity. Qed.
Print Assumptions C05_example_run.
