(* Props/C16.v — the predefined site networks never admit more power than the transformer
   ratings; pods and sub-panels stay within their current rating; every EVSE carries one of the
   three line-to-line phase angles and is covered by a transformer constraint.

   Gen/Sites.v is the dump of the EXECUTED factories caltech_acn / jpl_acn / office001_acn
   (basic and real EVSE types, three capacity settings each, `voltage` argument 208 / 200 / 120 / 240), regenerated on every run;
   Model/Sites.v::check_site is a boolean checker of that dump; site_net_R s is the network the
   dump denotes (phase angles turned into cos/sin of deg2rad) and net_is_feasible RF is
   ChargingNetwork.is_feasible (Model/Feasible.v, C06).  Statements only. *)
From Coq Require Import String Reals List Bool QArith Qreals.
From ACN Require Import Base.Num Base.NumR Model.Feasible Gen.Sites Model.Sites Proofs.Sites.
From ACN Require Proofs.Feasible.
From ACN Require Gen.SiteLim_R.
Import ListNotations.
Open Scope R_scope.

(* Generic delta-wye theorem.  If the three secondary rows of a transformer have the delta
   pattern over the stations behind it (check_transformer), then EVERY schedule X (any sign, any
   number of periods, any tolerance arguments) that is_feasible accepts keeps, in every period,
       sqrt3 * 120 V * (sum of the currents of the stations behind the transformer)
   i.e. the power drawn at the nominal 208 V (= sqrt3 * 120 V) line-to-line voltage, at or below
   3 * 120 V * (L + tol(L)), L the secondary line-current limit. *)
Theorem C16_delta_wye : forall (s : site) (tr : transformer) (X : list (list R)) (T : nat) ovt ort (t : nat),
  check_transformer s tr = true ->
  net_is_feasible RF (site_net_R s) X T false ovt ort = true ->
  (t < T)%nat ->
  sqrt 3 * 120 * station_sum s (t_members tr) X t <= 3 * 120 * site_rhs s ovt ort (t_a tr).
Proof. exact transformer_bound. Qed.
Print Assumptions C16_delta_wye.

(* ... and 3 * 120 V * L is the rated capacity: power <= 1000 * cap [W] (up to the float rounding
   2^-50 of the limit and 360 V times the feasibility tolerance of C06). *)
Theorem C16_power_le_capacity : forall (s : site) (tr : transformer) (X : list (list R)) (T : nat) ovt ort (t : nat),
  check_transformer s tr = true ->
  net_is_feasible RF (site_net_R s) X T false ovt ort = true ->
  (t < T)%nat ->
  sqrt 3 * 120 * station_sum s (t_members tr) X t
  <= 1000 * Q2R (t_cap tr) * (1 + Q2R eps50)
     + 3 * 120 * Rmax (opt_or RF ovt (Q2R (s_vt s)))
                      (opt_or RF ort (Q2R (s_rt s)) * Q2R (site_limit s (t_a tr))).
Proof. exact transformer_capacity. Qed.
Print Assumptions C16_power_le_capacity.

(* Pods: the pod row is a 0/1 indicator over exactly the documented stations of the pod (all on
   one phase) and its limit is at most the documented rating; the sum of the pod's currents stays
   within that limit (+ tolerance). *)
Theorem C16_pod : forall (s : site) (j : nat) (rating : Q) (members : list nat)
                         (X : list (list R)) (T : nat) ovt ort (t : nat),
  check_pod s (j, rating, members) = true ->
  net_is_feasible RF (site_net_R s) X T false ovt ort = true ->
  (t < T)%nat ->
  station_sum s members X t <= site_rhs s ovt ort j /\ Q2R (site_limit s j) <= Q2R rating.
Proof. exact pod_bound. Qed.
Print Assumptions C16_pod.

(* Sub-panels: the three line currents of the panel, written through the sums ab, bc, ca of the
   currents of the panel's documented AB / BC / CA stations, stay within the per-phase limit
   (+ tolerance), which is at most the documented rating. *)
Theorem C16_panel : forall (s : site) (ja jb jc : nat) (rating : Q) (members : list nat)
                           (X : list (list R)) (T : nat) ovt ort (t : nat),
  check_panel s ((ja, jb, jc), rating, members) = true ->
  net_is_feasible RF (site_net_R s) X T false ovt ort = true ->
  (t < T)%nat ->
  let mem := member_flags (n_site_stations s) members in
  let ab := sum_sel (gflags AB (s_phases s) mem) X t in
  let bc := sum_sel (gflags BC (s_phases s) mem) X t in
  let ca := sum_sel (gflags CA (s_phases s) mem) X t in
  let rhs := site_rhs s ovt ort ja in
  sqrt (ab * ab + ca * ca + ab * ca) <= rhs /\
  sqrt (ab * ab + bc * bc + ab * bc) <= rhs /\
  sqrt (ca * ca + bc * bc + ca * bc) <= rhs /\
  Q2R (site_limit s ja) <= Q2R rating.
Proof.
  intros s ja jb jc rating members X T ovt ort t Hc Hf Ht.
  destruct (check_panel_fields s ja jb jc rating members Hc) as (Ha & Hb & Hcc & Hlen & Hd & Eb & Ec & Hr).
  destruct (delta_line_currents s ja jb jc _ X T ovt ort t Ha Hb Hcc Hlen Hd Hf Ht) as (H1 & H2 & H3).
  cbv zeta. unfold site_rhs in *. rewrite Eb in H2. rewrite Ec in H3. auto.
Qed.
Print Assumptions C16_panel.

(* Every dumped site (Caltech, JPL, Office001; basic and real EVSEs; three capacity settings
   each) passes the checker, and the wiring is the same for every capacity / EVSE type.
   vm_compute on the dump regenerated from the code on this run. *)
Theorem C16_sites_ok :
  check_family sites_caltech = true /\ check_family sites_jpl = true /\ check_family sites_office001 = true.
Proof. exact sites_ok. Qed.
Print Assumptions C16_sites_ok.

Theorem C16_every_site : forall s, In s all_sites -> check_site s = true.
Proof. exact all_sites_ok. Qed.
Print Assumptions C16_every_site.

(* all_sites contains a dump through every public constructor of acnportal.acnsim.network.sites — the three
   factories and the documented alias CaltechACN (simple_acn is a generic builder, not a predefined site) *)
Theorem C16_all_constructors_dumped : unknown_site_constructors = O.
Proof. exact all_constructors_dumped. Qed.
Print Assumptions C16_all_constructors_dumped.

(* All transformer capacities, whatever the factories' `voltage` argument: the limit formulas of
   the three factories (regenerated from the code, symbolic) are functions of the capacity ALONE
   (the generated definitions take no voltage parameter; for JPL the helper's literal default
   secondary voltage is inlined and an AST check of jpl_acn, redone on every run, confirms that
   every call uses that default) and give 3 * 120 V * L(cap) = 1000 * cap for EVERY cap.
   check_transformer ties each dumped limit — dumps cover voltage = 208, 200, 120, 240 — to the
   formula and to the capacity at the nominal 120 V. *)
Theorem C16_all_caps : forall cap : R,
  3 * 120 * Gen.SiteLim_R.Caltech_secondary cap = 1000 * cap
  /\ 3 * 120 * Gen.SiteLim_R.Jpl_secondary cap = 1000 * cap
  /\ 3 * 120 * Gen.SiteLim_R.Office_secondary cap = 1000 * cap.
Proof. exact all_caps. Qed.
Print Assumptions C16_all_caps.

Theorem C16_limits_independent_of_voltage :
  jpl_calls_use_default_secondary_voltage = true
  /\ forall s, In s all_sites -> forall tr, In tr (s_transformers s) ->
       (3 * 120 * site_limit s (t_a tr) <= 1000 * t_cap tr * (1 + eps50))%Q.
Proof.
  split; [exact jpl_default_voltage|].
  intros s Hs tr Htr.
  destruct (check_site_parts s (all_sites_ok s Hs)) as (_ & _ & _ & H & _).
  specialize (H tr Htr). unfold check_transformer in H.
  repeat (apply andb_true_iff in H; destruct H as [H ?]).
  match goal with H : Qleb (3 * 120 * _) _ = true |- _ => now apply Qleb_spec in H end.
Qed.
Print Assumptions C16_limits_independent_of_voltage.

(* Every EVSE carries one of the three line-to-line phase angles (30, -90, 150 degrees) and hangs
   behind a transformer whose constraint rows pass check_transformer (so C16_delta_wye applies). *)
Theorem C16_covered : forall s, check_site s = true ->
  forall i, (i < n_site_stations s)%nat ->
    (exists g, phase_group (nth i (s_phases s) 0%Q) = Some g)
    /\ exists tr, In tr (s_transformers s) /\ In i (t_members tr) /\ check_transformer s tr = true.
Proof. exact covered. Qed.
Print Assumptions C16_covered.

(* the whole property for the dumped sites, in one statement *)
Theorem C16_sites_safe : forall s, In s all_sites ->
  forall (X : list (list R)) (T : nat) ovt ort,
  net_is_feasible RF (site_net_R s) X T false ovt ort = true ->
  forall t, (t < T)%nat ->
    (forall tr, In tr (s_transformers s) ->
       sqrt 3 * 120 * station_sum s (t_members tr) X t
       <= 1000 * Q2R (t_cap tr) * (1 + Q2R eps50)
          + 3 * 120 * Rmax (opt_or RF ovt (Q2R (s_vt s)))
                           (opt_or RF ort (Q2R (s_rt s)) * Q2R (site_limit s (t_a tr))))
    /\ (forall j rating members, In (j, rating, members) (s_pods s) ->
          station_sum s members X t <= site_rhs s ovt ort j /\ Q2R (site_limit s j) <= Q2R rating)
    /\ (forall ja jb jc rating members, In ((ja, jb, jc), rating, members) (s_panels s) ->
          let mem := member_flags (n_site_stations s) members in
          let ab := sum_sel (gflags AB (s_phases s) mem) X t in
          let bc := sum_sel (gflags BC (s_phases s) mem) X t in
          let ca := sum_sel (gflags CA (s_phases s) mem) X t in
          let rhs := site_rhs s ovt ort ja in
          sqrt (ab * ab + ca * ca + ab * ca) <= rhs /\
          sqrt (ab * ab + bc * bc + ab * bc) <= rhs /\
          sqrt (ca * ca + bc * bc + ca * bc) <= rhs /\
          Q2R (site_limit s ja) <= Q2R rating).
Proof.
  intros s Hs X T ovt ort Hf t Ht.
  destruct (check_site_parts s (all_sites_ok s Hs)) as (_ & _ & _ & Htr & Hpod & Hpan).
  split; [|split].
  - intros tr Hin. apply transformer_capacity with (T := T); auto.
  - intros j rating members Hin. apply pod_bound with (T := T); auto.
  - intros ja jb jc rating members Hin. apply C16_panel with (T := T) (jb := jb) (jc := jc); auto.
Qed.
Print Assumptions C16_sites_safe.

(* The linear relaxation is one of the network's feasibility reports: for a non-negative schedule,
   whatever the site network accepts with linear=True it also accepts phase-aware (C06), so every
   bound above holds for schedules reported feasible by either check. *)
Theorem C16_linear_report_safe : forall (s : site) (X : list (list R)) (T : nat) ovt ort,
  all_nonneg RF X = true ->
  net_is_feasible RF (site_net_R s) X T true ovt ort = true ->
  net_is_feasible RF (site_net_R s) X T false ovt ort = true.
Proof.
  intros s X T ovt ort Hnn H.
  apply Proofs.Feasible.net_linear_conservative; auto.
  unfold site_net_R; cbn [n_cis]. apply Proofs.Feasible.unit_cis_deg.
Qed.
Print Assumptions C16_linear_report_safe.

(* non-vacuity: the Caltech dump has a transformer with stations behind it and pods, a concrete
   schedule (5 A on every EVSE) that its network accepts, and one (32 A) that it rejects *)
Example C16_caltech_example :
  let s := site_caltech_0 in
  let N := n_site_stations s in
  (exists tr, In tr (s_transformers s) /\ t_members tr <> [])
  /\ s_pods s <> []
  /\ net_is_feasible QF (site_net_Q s) (repeat [5%Q] N) 1 false None None = true
  /\ net_is_feasible QF (site_net_Q s) (repeat [32%Q] N) 1 false None None = false.
Proof.
  cbv zeta. split; [|split; [|split]].
  - eexists. split; [left; reflexivity|]. vm_compute. discriminate.
  - vm_compute. discriminate.
  - vm_compute. reflexivity.
  - vm_compute. reflexivity.
Qed.
