(* Props/C19.v — stochastic space assignment never loses, duplicates or starves a session.

   Model/StochNet.v is the executable model of StochasticNetwork as the Simulator drives it
   (tied to stochastic_network.py on every run by the per-call state comparison of harness/c19.py
   and by the regenerated EVSE kernels it calls).  Vocabulary (all in Model/StochNet.v):
     run ch (init stations early) evs = Ok st   the network state after the history evs, when the
                                                k-th random.choice call returns index (ch k mod #free)
     Arrive x / Depart x / PostCharge full      network.plugin(ev) / network.unplug(ev.station_id,
                                                ev.session_id) / post_charging_update() with [full] the
                                                fully charged sessions
     wf evs          each session is plugged in once and unplugged at most once, after its plugin (C01)
     complete evs    ... and every arrived session has been unplugged
     at_station st s x, connected st x, waiting st x, departed st x
     arrival_index evs x                        position of x in the order of the Plugin events
   Every theorem is for ALL station lists, ALL well-formed histories (hence all their prefixes:
   C19_prefix_closed) and ALL choice functions ch, i.e. every seed.  Only statements here. *)
From Coq Require Import ZArith List Bool String Sorted.
From ACN Require Import Base.Num Model.StochNet Model.StochNetGen Proofs.StochNet Proofs.StochNetGen.
Import ListNotations.
Open Scope Z_scope.
Open Scope list_scope.

(* "after every op": a prefix of a well-formed history is a well-formed history *)
Theorem C19_prefix_closed : forall a b, wf (a ++ b) -> wf a.
Proof. exact wf_prefix. Qed.
Print Assumptions C19_prefix_closed.

(* no call ever raises (KeyError / StationOccupiedError) *)
Theorem C19_no_error : forall ch stations early evs,
  NoDup stations -> wf evs -> exists st, run ch (init stations early) evs = Ok st.
Proof. exact thm_no_error. Qed.
Print Assumptions C19_no_error.

(* each arrived session is in exactly one place: connected (to exactly one station), waiting
   (once), or departed *)
Theorem C19_one_place : forall ch stations early evs st,
  NoDup stations -> wf evs -> run ch (init stations early) evs = Ok st ->
  forall x, In x (arrivals evs) ->
    ((connected st x /\ ~ waiting st x /\ ~ departed st x)
     \/ (~ connected st x /\ waiting st x /\ ~ departed st x)
     \/ (~ connected st x /\ ~ waiting st x /\ departed st x))
    /\ (forall s1 s2, at_station st s1 x -> at_station st s2 x -> s1 = s2)
    /\ (count_occ Z.eq_dec (queue st) x <= 1)%nat
    /\ (count_occ Z.eq_dec (occupants (evses st)) x <= 1)%nat.
Proof. exact thm_one_place. Qed.
Print Assumptions C19_one_place.

(* ... and a session that has not arrived is nowhere *)
Theorem C19_not_arrived_nowhere : forall ch stations early evs st,
  NoDup stations -> wf evs -> run ch (init stations early) evs = Ok st ->
  forall x, ~ In x (arrivals evs) -> ~ connected st x /\ ~ waiting st x /\ ~ departed st x.
Proof. exact thm_not_arrived. Qed.
Print Assumptions C19_not_arrived_nowhere.

(* a session leaves only through its own Unplug event or, with early departure, after it was
   reported fully charged: it is never lost *)
Theorem C19_never_lost : forall ch stations early evs st,
  NoDup stations -> wf evs -> run ch (init stations early) evs = Ok st ->
  forall x, In x (arrivals evs) -> ~ In x (departures evs) ->
    connected st x \/ waiting st x \/ (early = true /\ In x (satisfied evs)).
Proof. exact thm_never_lost. Qed.
Print Assumptions C19_never_lost.

(* once its Unplug event has been processed a session is gone (by C19_one_place: neither
   connected nor waiting) *)
Theorem C19_departed_gone : forall ch stations early evs st,
  NoDup stations -> wf evs -> run ch (init stations early) evs = Ok st ->
  forall x, In x (departures evs) -> departed st x.
Proof. exact thm_departed_gone. Qed.
Print Assumptions C19_departed_gone.

(* no station holds two EVs (a station holds at most one by construction), no EV holds two
   stations: the occupants are pairwise distinct; the set of stations never changes *)
Theorem C19_no_double : forall ch stations early evs st,
  NoDup stations -> wf evs -> run ch (init stations early) evs = Ok st ->
  NoDup (occupants (evses st)) /\ map fst (evses st) = stations.
Proof.
  exact (fun ch ss e evs st Hn Hw Hr =>
           conj (thm_no_double ch ss e evs st Hn Hw Hr) (thm_stations_fixed ch ss e evs st Hn Hw Hr)).
Qed.
Print Assumptions C19_no_double.

(* no EV waits while a station is free — after every call *)
Theorem C19_no_starvation : forall ch stations early evs st,
  NoDup stations -> wf evs -> run ch (init stations early) evs = Ok st ->
  forall x, waiting st x -> forall s, ~ In (s, None) (evses st).
Proof. exact thm_no_starvation. Qed.
Print Assumptions C19_no_starvation.

(* first come first served: the queue is in arrival order, and every connected EV arrived before
   every waiting EV (so an admission never overtakes somebody who still waits) *)
Theorem C19_fcfs : forall ch stations early evs st,
  NoDup stations -> wf evs -> run ch (init stations early) evs = Ok st ->
  StronglySorted (fun a b => (arrival_index evs a < arrival_index evs b)%nat) (queue st)
  /\ forall y x, connected st y -> waiting st x -> (arrival_index evs y < arrival_index evs x)%nat.
Proof. exact thm_fcfs. Qed.
Print Assumptions C19_fcfs.

(* ... and when a connected EV departs while the queue is h :: t, h gets exactly that station *)
Theorem C19_admit_head : forall ch stations early evs st x s h t,
  NoDup stations -> wf (evs ++ [Depart x]) -> run ch (init stations early) evs = Ok st ->
  at_station st s x -> queue st = h :: t ->
  exists st', step ch st (Depart x) = Ok st'
    /\ at_station st' s h /\ queue st' = t /\ swaps st' = swaps st + 1
    /\ ev_station st' h = Some s /\ departed st' x.
Proof. exact thm_admit_head. Qed.
Print Assumptions C19_admit_head.

(* early departure: after post_charging_update, if somebody still waits then no EV that was
   connected and fully charged keeps its station *)
Theorem C19_early_departure : forall ch stations evs st full st' x y,
  NoDup stations -> wf evs -> run ch (init stations true) evs = Ok st ->
  step ch st (PostCharge full) = Ok st' ->
  waiting st' x -> connected st y -> In y full -> departed st' y /\ ~ connected st' y.
Proof. exact thm_early_departure. Qed.
Print Assumptions C19_early_departure.

(* every early departure hands its station to a waiting EV at once: within one
   post_charging_update, #early unplugs = #admissions = #sessions that left = queue shrinkage
   (so nobody is sent away early unless somebody was waiting for that station) *)
Theorem C19_early_handover : forall ch stations early evs st full st',
  NoDup stations -> wf evs -> run ch (init stations early) evs = Ok st ->
  step ch st (PostCharge full) = Ok st' ->
  early_unplug st' - early_unplug st = swaps st' - swaps st
  /\ Z.of_nat (List.length (queue st)) = Z.of_nat (List.length (queue st')) + (swaps st' - swaps st)
  /\ Z.of_nat (List.length (gone st')) = Z.of_nat (List.length (gone st)) + (swaps st' - swaps st)
  /\ 0 <= swaps st' - swaps st.
Proof. exact thm_early_handover. Qed.
Print Assumptions C19_early_handover.

(* ev.station_id (what the Unplug event will carry) is the station the EV sits at, None while it waits *)
Theorem C19_station_id : forall ch stations early evs st,
  NoDup stations -> wf evs -> run ch (init stations early) evs = Ok st ->
  (forall s x, at_station st s x -> ev_station st x = Some s)
  /\ (forall x, waiting st x -> ev_station st x = None).
Proof. exact thm_station_id. Qed.
Print Assumptions C19_station_id.

(* never_charged = number of Unplug events that found their session in the queue
                 = number of departed sessions that were never assigned a station *)
Theorem C19_never_charged : forall ch stations early evs st,
  NoDup stations -> wf evs -> run ch (init stations early) evs = Ok st ->
  never_charged st = waiting_departures ch (init stations early) evs
  /\ never_charged st = Z.of_nat (List.length (never_assigned st)).
Proof. exact thm_never_charged. Qed.
Print Assumptions C19_never_charged.

(* every session is gone by the end of the run: stations and queue are empty *)
Theorem C19_all_gone : forall ch stations early evs st,
  NoDup stations -> wf evs -> run ch (init stations early) evs = Ok st -> complete evs ->
  occupants (evses st) = [] /\ queue st = [] /\ (forall s o, In (s, o) (evses st) -> o = None)
  /\ forall x, In x (arrivals evs) -> departed st x.
Proof. exact thm_all_gone. Qed.
Print Assumptions C19_all_gone.

(* reproducibility: the result is a function of the history and of the choices actually drawn
   (a fixed seed fixes them); nothing else is consulted *)
Theorem C19_deterministic : forall ch ch' evs st st',
  run ch st evs = Ok st' ->
  (forall k, (draws st <= k < draws st')%nat -> ch k = ch' k) ->
  run ch' st evs = Ok st'.
Proof. exact thm_deterministic. Qed.
Print Assumptions C19_deterministic.

(* tie to the source: the model used above IS the interpretation of the control skeletons
   (guards, branch structure, counter updates, order of the state-changing calls) regenerated on
   every run from StochasticNetwork.plugin / unplug / post_charging_update / available_evses and
   ChargingNetwork.plugin (Gen/StochNet_Z.v, interpreted by Model/StochNetGen.v) — for every
   state, event and choice function *)
Theorem C19_model_is_generated_skeleton : forall ch st e, gen_step ch st e = step ch st e.
Proof. exact gen_step_eq. Qed.
Print Assumptions C19_model_is_generated_skeleton.

(* ---- non-vacuity: a concrete history with 2 stations and 5 sessions in which a queue forms, a
   waiting EV leaves uncharged, a satisfied EV departs early and the head of the queue is admitted;
   the hypotheses of the theorems hold for it ---- *)
Definition ex_evs : list event :=
  [Arrive 101; Arrive 102; Arrive 103; Arrive 104; PostCharge []; Depart 104; Arrive 105;
   PostCharge [101]; Depart 102; PostCharge []; Depart 101; Depart 103; Depart 105].

Example C19_example_run :
  exists st, run (fun k => k) (init [1; 2] true) ex_evs = Ok st
             /\ never_charged st = 1 /\ early_unplug st = 1 /\ swaps st = 2
             /\ queue st = [] /\ occupants (evses st) = [].
Proof. eexists. split; [vm_compute; reflexivity|]. repeat split. Qed.

Example C19_example_wf : NoDup [1; 2] /\ wf ex_evs /\ complete ex_evs.
Proof.
  split; [apply nodupb_sound; reflexivity|].
  split; [apply wfb_sound; reflexivity|apply completeb_sound; reflexivity].
Qed.
