(* Props/C06_findings.v — witness of the OPEN C06 finding (known_findings.json), evaluated
   on the executable (Q) instance of the faithful model; axiom-free. *)
From Coq Require Import String QArith List Bool.
From ACN Require Import Base.Num Model.Feasible Proofs.Feasible.
Import ListNotations.
Open Scope Q_scope.

(* "The three checkers agree on every schedule" is FALSE when the network's tolerances differ
   from the 1e-5 / 1e-7 hard-coded in algorithms.utils: limit 40 A, network tolerances
   1e-9 / 1e-12, x = 40.000005 A: network and interface reject, the algorithm side accepts. *)
Theorem C06_agree_nondefault_tol_refuted :
  exists (n : network QF) (inf : infra QF) (X : list (list Q)) (m : mapping QF),
    infrastructure_info QF n = Ok inf
    /\ X = dense QF (n_stations QF n) 1 m
    /\ net_is_feasible QF n X 1 false None None = false
    /\ iface_is_feasible QF n m false None None = Ok false
    /\ alg_is_feasible_default QF inf X 1 false = true.
Proof.
  destruct witness_tol_disagree as (inf & H1 & H2 & H3 & H4).
  exists witness_tol_net, inf, witness_tol_X, [(O, [40000005 # 1000000])].
  repeat split; auto.
Qed.
Print Assumptions C06_agree_nondefault_tol_refuted.

