(* Props/C07.v — sorting-based algorithms only emit safe schedules.
   Statements only; each is closed by `exact <lemma>` from Proofs/.  The model (Model/Preproc.v,
   Model/Sorted.v) is over Q; `feasible : list Q -> bool` is ANY feasibility check (the executed instance is
   the phasor check feasQ of Model/Preproc.v, whose scalar expressions are regenerated from utils.py).
   Stations are indices into station_ids; `nth i out 0` is the pilot sent to station i. *)
From Coq Require Import ZArith QArith Qminmax List Bool String Permutation.
From ACN Require Import Base.Num Base.ListX Gen.Sorted_Q Gen.Evse_Q Gen.Battery_Q Model.EVSE Model.Preproc Model.Sorted
     Model.FeasBig Proofs.Sorted Proofs.FeasBig Proofs.Preproc Proofs.Total.
Import ListNotations.
Open Scope Q_scope.

(* ---------------------------------------------------------------------------------------------
   the greedy allocation loop keeps the vector feasible: every value written is one the check just
   accepted or the value already there.  The only other write — the fall-back to 0 of a finite-rate
   station — is harmless when the session's lower bound is 0 or one of the levels in [lb, ub]
   (`fallback_safe`), which is what run_preprocessing guarantees (C07_preproc_bounds). *)
Theorem C07_greedy_feasible :
  forall (feasible : list Q -> bool) inf period now k (ss : list session) out,
    NoDup (map s_station ss) ->                       (* one session per station *)
    stations_ok inf ss ->                             (* every station id is known *)
    (forall s, In s ss -> fallback_safe inf period s) ->
    sorting_algorithm feasible inf period now k ss = Ok out ->
    feasible out = true.
Proof. exact greedy_feasible. Qed.
Print Assumptions C07_greedy_feasible.

(* phasor feasibility is not monotone: without the preprocessing guarantee the fall-back to 0 from a
   positive lower bound emits an infeasible vector (|x0 - x1| <= 7, x0 + x1 <= 19.3; station 1 has
   levels {0, 6.5, 13} and a hand-made lower bound 6: the algorithm returns (13, 0)) *)
Definition c07_w_inf : infra :=
  {| i_A := [[1; -1]; [1; 1]]; i_L := [7; 193 # 10]; i_cos := [1; 1]; i_sin := [0; 0];
     i_volt := [208; 208]; i_maxp := [32; 13]; i_minp := [0; 13 # 2];
     i_allow := [[0; 32]; [0; 13 # 2; 13]]; i_cont := [true; false] |}.
Definition c07_w_sessions : list session :=
  [ {| s_station := 0; s_id := 10%Z; s_req := 30; s_del := 0; s_arr := 0%Z; s_dep := 20%Z; s_edep := 20%Z;
       s_cur := 1%Z; s_min := [0]; s_max := [32] |};
    {| s_station := 1; s_id := 11%Z; s_req := 30; s_del := 0; s_arr := 1%Z; s_dep := 20%Z; s_edep := 20%Z;
       s_cur := 1%Z; s_min := [6]; s_max := [13] |} ].
Theorem C07_fallback_needs_preproc :
  exists out,
    NoDup (map s_station c07_w_sessions) /\ stations_ok c07_w_inf c07_w_sessions
    /\ sorting_algorithm (feasQ c07_w_inf) c07_w_inf 5 1%Z FCFS c07_w_sessions = Ok out
    /\ feasQ c07_w_inf out = false.
Proof. exact fallback_witness_aux. Qed.
Print Assumptions C07_fallback_needs_preproc.

(* round robin: every increment is kept only if the check accepts it, otherwise exactly the previous
   vector is restored *)
Theorem C07_rr_feasible :
  forall (feasible : list Q -> bool) inf period now inc k (ss : list session) out,
    NoDup (map s_station ss) -> stations_ok inf ss -> infra_lengths inf ->
    round_robin feasible inf period now inc k ss = Ok out ->
    feasible out = true.
Proof. exact rr_feasible. Qed.
Print Assumptions C07_rr_feasible.

(* what run_preprocessing guarantees for sessions without a user-imposed minimum (min_rates[0] <= 0, which is
   what Interface.active_sessions produces) on a well-formed infrastructure:
   the lower bound is 0 or the station's minimum pilot, which is then an allowable level, affordable
   (<= remaining amp-periods) and <= the session maximum; the maximum never exceeds the EVSE maximum and,
   with an estimator, never exceeds max(estimator bound of THAT session, lower bound). *)
Theorem C07_preproc_bounds :
  forall (feasible : list Q -> bool) inf period est unint (ss : list session) s',
    infra_wf inf -> stations_ok inf ss ->
    (forall s, In s ss -> session_wf s /\ hd0 (s_min s) <= 0) ->
    In s' (fst (run_preprocessing feasible inf period est unint ss)) ->
    let i := s_station s' in
    let lb := g_lb s' in
    0 <= lb
    /\ (lb = 0 \/ (unint = true /\ lb = nthQ (i_minp inf) i /\ lb <= rap inf period s' /\ lb <= hd0 (s_max s')
                  /\ (nth i (i_cont inf) true = false -> In lb (nth i (i_allow inf) []))))
    /\ fallback_safe inf period s'
    /\ hd0 (s_max s') <= nthQ (i_maxp inf) i
    /\ (forall rp b, est = Some rp ->
          zassoc (s_id s') (snd (run_preprocessing feasible inf period est unint ss)) = Some b ->
          hd0 (s_max s') <= Qmax b lb)
    /\ exists s, In s ss /\ ident s' = ident s.
Proof. exact preproc_bounds. Qed.
Print Assumptions C07_preproc_bounds.

(* the estimator (SimpleRampdown): every session handed to it has a bound afterwards, stored under its SESSION id,
   and a bound updated from last period's pilot / rate is clipped to [0, max pilot] *)
Theorem C07_estimator_bounds :
  forall inf rp (l : list session) s,
    In s l ->
    (exists b, zassoc (s_id s) (rampdown inf rp l) = Some b)
    /\ forall pp pr ub, 0 <= nthQ (i_maxp inf) (s_station s) ->
         0 <= ramp_update rp (nthQ (i_maxp inf) (s_station s)) pp pr ub
         /\ ramp_update rp (nthQ (i_maxp inf) (s_station s)) pp pr ub <= nthQ (i_maxp inf) (s_station s).
Proof.
  intros inf rp l s I. split; [now apply rampdown_has_bound|]. intros. now apply ramp_update_range.
Qed.
Print Assumptions C07_estimator_bounds.

(* preprocessing keeps one session per station and never invents sessions *)
Theorem C07_preproc_sessions :
  forall (feasible : list Q -> bool) inf period est unint (ss : list session),
    NoDup (map s_station ss) ->
    NoDup (map s_station (fst (run_preprocessing feasible inf period est unint ss)))
    /\ incl (map s_station (fst (run_preprocessing feasible inf period est unint ss))) (map s_station ss).
Proof. exact preproc_stations. Qed.
Print Assumptions C07_preproc_sessions.

(* the vector of lower bounds produced by uninterrupted-charging preprocessing is feasible, i.e. the
   algorithms' "Charging all sessions at their lower bound is not feasible" error cannot occur *)
Theorem C07_preproc_lower_bounds_feasible :
  forall (feasible : list Q -> bool) inf period now est unint k (ss : list session),
    infra_wf inf -> NoDup (map s_station ss) -> stations_ok inf ss ->
    (forall s, In s ss -> session_wf s /\ hd0 (s_min s) <= 0) ->
    feasible (repeat 0 (n_stations inf)) = true ->
    let pre := fst (run_preprocessing feasible inf period est unint ss) in
    feasible (init_sched inf g_init_lb (sort_sessions inf period now k pre)) = true.
Proof. exact preproc_lower_bounds_feasible. Qed.
Print Assumptions C07_preproc_lower_bounds_feasible.

(* bounds on every emitted pilot, greedy: 0, the lower bound, the upper bound min(max_rate, remaining
   amp-periods), or a value between them; finite-rate stations only get 0 or one of their levels *)
Theorem C07_bounds_greedy :
  forall (feasible : list Q -> bool) inf period now k (ss : list session) out s,
    NoDup (map s_station ss) -> stations_ok inf ss ->
    sorting_algorithm feasible inf period now k ss = Ok out -> In s ss ->
    let r := nth (s_station s) out 0 in
    let lb := Qmax 0 (hd0 (s_min s)) in
    let ub := Qmin (hd0 (s_max s)) (rap inf period s) in
    (r = 0 \/ r = lb \/ r = ub \/ (lb <= r /\ r <= ub))
    /\ (nth (s_station s) (i_cont inf) true = false -> r = 0 \/ In r (nth (s_station s) (i_allow inf) [])).
Proof. exact greedy_bounds. Qed.
Print Assumptions C07_bounds_greedy.

(* round robin: 0 or a level in [lb, min(max_rate, max_pilot, remaining amp-periods)] *)
Theorem C07_bounds_rr :
  forall (feasible : list Q -> bool) inf period now inc k (ss : list session) out s,
    NoDup (map s_station ss) -> stations_ok inf ss -> infra_lengths inf ->
    round_robin feasible inf period now inc k ss = Ok out -> In s ss ->
    let r := nth (s_station s) out 0 in
    r = 0 \/ (Qmax 0 (hd0 (s_min s)) <= r
              /\ r <= Qmin (Qmin (hd0 (s_max s)) (nthQ (i_maxp inf) (s_station s))) (rap inf period s)
              /\ (nth (s_station s) (i_cont inf) true = false -> In r (nth (s_station s) (i_allow inf) []))).
Proof. exact rr_bounds. Qed.
Print Assumptions C07_bounds_rr.

(* the whole pipeline schedule() = preprocessing + algorithm + formatting, for sessions as the simulator
   hands them out (no user minimum, non-negative maximum): the schedule is feasible, covers every
   station, and each pilot p of an active station satisfies 0 <= p <= remaining amp-periods,
   p <= EVSE maximum, p <= max(estimator bound of that session, minimum pilot); finite-rate stations get
   0 or a level; stations without an active session get exactly 0. *)
Theorem C07_bounds :
  forall (feasible : list Q -> bool) inf cfg (ss : list session) out,
    infra_wf inf -> NoDup (map s_station ss) -> stations_ok inf ss ->
    (forall s, In s ss -> session_wf s /\ hd0 (s_min s) <= 0 /\ 0 <= hd0 (s_max s)) ->
    period_ok inf (c_period cfg) -> est_ok (c_est cfg) ->
    so_result (schedule_with feasible inf cfg ss) = Ok out ->
    feasible out = true
    /\ List.length out = n_stations inf
    /\ (forall j, ~ In j (map s_station ss) -> nth j out 0 = 0)
    /\ forall s, In s ss ->
         let i := s_station s in let p := nth i out 0 in
         0 <= p /\ p <= Qmax 0 (rap inf (c_period cfg) s) /\ p <= nthQ (i_maxp inf) i
         /\ (nth i (i_cont inf) true = false -> p = 0 \/ In p (nth i (i_allow inf) []))
         /\ (forall b, c_est cfg <> None ->
               zassoc (s_id s) (so_store (schedule_with feasible inf cfg ss)) = Some b ->
               p <= Qmax b (if c_unint cfg then nthQ (i_minp inf) i else 0)).
Proof. exact pipeline_bounds. Qed.
Print Assumptions C07_bounds.

(* EVSE acceptance (generated predicates of Gen/Evse_Q.v): a continuous-from-zero EVSE accepts every pilot in
   [0, max_rate]; a finite-rate EVSE accepts 0 and each of its levels *)
Theorem C07_evse_accepts :
  forall (feasible : list Q -> bool) inf cfg (ss : list session) out s,
    infra_wf inf -> NoDup (map s_station ss) -> stations_ok inf ss ->
    (forall s, In s ss -> session_wf s /\ hd0 (s_min s) <= 0 /\ 0 <= hd0 (s_max s)) ->
    period_ok inf (c_period cfg) -> est_ok (c_est cfg) ->
    so_result (schedule_with feasible inf cfg ss) = Ok out -> In s ss ->
    let i := s_station s in let p := nth i out 0 in
    (forall mx, station_is inf i (Continuous 0 mx) -> valid_rate (Continuous 0 mx) p = true)
    /\ (forall l, station_is inf i (Finite l) -> valid_rate (Finite l) p = true).
Proof. exact pipeline_evse_accepts. Qed.
Print Assumptions C07_evse_accepts.

Theorem C07_inactive_zero :
  forall (feasible : list Q -> bool) inf cfg (ss : list session) out j,
    infra_wf inf -> NoDup (map s_station ss) -> stations_ok inf ss ->
    so_result (schedule_with feasible inf cfg ss) = Ok out ->
    ~ In j (map s_station ss) -> nth j out 0 = 0.
Proof. exact pipeline_inactive_zero. Qed.
Print Assumptions C07_inactive_zero.

(* the fuelled bisection never runs out of fuel: for every eps > 0 the fuel computed by the model suffices *)
Theorem C07_bisect_terminates :
  forall (feasible : list Q -> bool) idx sched eps lo hi,
    0 < eps -> bisect feasible (bisect_fuel eps lo hi) idx sched eps lo hi <> None.
Proof. exact bisect_fuel_enough. Qed.
Print Assumptions C07_bisect_terminates.

(* the round-robin loop of the model never runs out of fuel either: every iteration removes a session from the
   deque or raises one level *)
Theorem C07_rr_terminates :
  forall (feasible : list Q -> bool) inf period now inc k (ss : list session),
    NoDup (map s_station ss) -> stations_ok inf ss -> infra_lengths inf ->
    feasible (snd (rr_init inf period inc (sort_sessions inf period now k ss))) = true ->
    exists out, round_robin feasible inf period now inc k ss = Ok out /\ List.length out = n_stations inf.
Proof. exact round_robin_ok. Qed.
Print Assumptions C07_rr_terminates.

(* a schedule IS produced: for sessions as the simulator hands them out (min_rates[0] = 0) on a well-formed
   infrastructure whose zero vector is feasible, neither algorithm raises ("lower bound is not feasible",
   "initial schedule is not feasible") and format_array_schedule accepts the vector.  `veq` is pointwise == of rate
   vectors; the phasor check respects it (C07_check_respects_eq). *)
Theorem C07_schedule_defined :
  forall (feasible : list Q -> bool) inf cfg (ss : list session),
    (forall x y, veq x y -> feasible x = feasible y) ->
    infra_wf inf -> infra_wf_rr inf -> NoDup (map s_station ss) -> stations_ok inf ss ->
    (forall s, In s ss -> session_wf s /\ hd0 (s_min s) == 0 /\ 0 <= hd0 (s_max s)) ->
    period_ok inf (c_period cfg) -> est_ok (c_est cfg) -> 0 < c_inc cfg ->
    feasible (repeat 0 (n_stations inf)) = true ->
    exists out, so_result (schedule_with feasible inf cfg ss) = Ok out.
Proof. exact (fun feasible inf cfg ss H => schedule_defined feasible H inf cfg ss). Qed.
Print Assumptions C07_schedule_defined.

Theorem C07_check_respects_eq : forall inf x y, veq x y -> feasQ inf x = feasQ inf y.
Proof. exact feasQ_veq. Qed.
Print Assumptions C07_check_respects_eq.

(* the executed feasibility check (BigQ arithmetic) is the phasor check of Model/Preproc.v *)
Theorem C07_exec_is_model :
  forall inf x, feas_big (big_rows (prep_rows inf)) x = feasQ inf x.
Proof. exact feas_big_feasQ. Qed.
Print Assumptions C07_exec_is_model.

(* composition with C06 / C13 / C03: in a simulation period where the scheduler is one of these algorithms,
   - the network check that raises the infeasible-schedule warning agrees with the algorithm-side check
     (C06_three_agree, for networks with the default tolerances), so no warning;
   - every EVSE is continuous-from-zero or finite-rate and its _valid_rate is the generated predicate (C13),
     so no InvalidRateError;
   - the EV draws at most the pilot (C03) for one period at the station's voltage, so the energy ledger stays
     within the request. *)
Theorem C07_sim_safe :
  forall (feasible net_feasible : list Q -> bool) inf cfg (ss : list session) out,
    (forall x, net_feasible x = feasible x) ->                                   (* C06 *)
    infra_wf inf -> NoDup (map s_station ss) -> stations_ok inf ss ->
    (forall s, In s ss -> session_wf s /\ hd0 (s_min s) <= 0 /\ 0 <= hd0 (s_max s)) ->
    period_ok inf (c_period cfg) -> est_ok (c_est cfg) ->
    so_result (schedule_with feasible inf cfg ss) = Ok out ->
    (* no infeasible-schedule warning *)
    net_feasible out = true
    (* no InvalidRateError at any station *)
    /\ (forall i k, (i < n_stations inf)%nat -> station_is inf i k -> evse_kind_supported k ->
          valid_rate k (nth i out 0) = true)
    (* no session is over-served: whatever rate <= pilot the EV draws for this period (C03) *)
    /\ (forall s rate, In s ss -> s_del s <= s_req s -> 0 <= rate -> rate <= nth (s_station s) out 0 ->
          EV_charge__energy_delivered
            (EV_charge (s_del s) (nth (s_station s) out 0) (nthQ (i_volt inf) (s_station s)) (c_period cfg) rate)
          <= s_req s).
Proof. exact (fun feasible net inf cfg => sim_safe feasible inf cfg net). Qed.
Print Assumptions C07_sim_safe.

(* non-vacuity: a concrete three-phase mixed-sign instance with a binding constraint runs through the
   whole pipeline, satisfies every hypothesis above and yields a non-trivial schedule *)
Example C07_example : c07_example_statement.
Proof. exact c07_example_holds. Qed.
