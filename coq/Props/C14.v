(* Props/C14.v — battery models follow their documented charging laws.
   Only statements, each closed by `exact <lemma>`.  Kernels: the regenerated Gen/Battery_R.v
   (Battery_charge = Battery.charge, L2_charge = Linear2StageBattery._charge) and
   Gen/BatteryGuard_R.v (Battery_reset).  Reals, real exp.

   Notation (Proofs/Battery.v):
     l2_after cap maxP ts c pilot V T
        = the _current_charge written by L2_charge(capacity cap, charge c, max power maxP,
          noise level 0, transition SoC ts) called with (pilot, V, T)          [kWh]
     l2_req_power maxP pilot V   = min(pilot*V/1000, maxP)                      [kW]
     l2_knee cap maxP ts pilot V = SoC at which the declining stage starts for this pilot
                                   (= pilot_transition_soc of the code)
     l2_ramp_power cap maxP ts x = maxP * (1 - x/cap) / (1 - ts): the maximum power in the
                                   declining stage, linear in the stored charge x, 0 at full *)
From Coq Require Import ZArith Reals Lra List Bool String.
From ACN Require Import Base.Num Base.NumR Gen.Battery_R Gen.BatteryGuard_R Proofs.Battery.
Import ListNotations.
Open Scope R_scope.

(* ---------- ideal battery ---------- *)
(* charges at min(pilot power, maximum power, power that would exactly fill it in the period) *)
Theorem C14_ideal_law : forall cap c p0 maxP pilot V T, 0 < V -> 0 < T ->
  Battery_charge cap c p0 maxP pilot V T =
  let P := Rmin (Rmin (pilot * V / 1000) maxP) ((cap - c) / (T / 60)) in
  OkS {| Battery_charge_ret := P * 1000 / V; Battery_charge__current_charge := c + P * (T / 60);
         Battery_charge__current_charging_power := P |}.
Proof. exact Battery_charge_ok. Qed.
Print Assumptions C14_ideal_law.

(* ---------- two-stage battery, continuous calculation, noise off ---------- *)
(* with noise_level <= 0 neither the noise draw nor the previous power influence the result *)
Theorem C14_noise_off : forall cap c p0 maxP nl ts pilot V T noise, nl <= 0 ->
  L2_charge cap c p0 maxP nl ts pilot V T noise = L2_charge cap c p0 maxP 0 ts pilot V T 0.
Proof. exact l2_noise_off. Qed.
Print Assumptions C14_noise_off.

(* the documented law, stage by stage.  The knee is where the linearly declining maximum power
   equals the requested power: *)
Theorem C14_knee : forall cap maxP ts pilot V, 0 < cap -> 0 < maxP -> ts < 1 ->
  l2_ramp_power cap maxP ts (l2_knee cap maxP ts pilot V * cap) = l2_req_power maxP pilot V.
Proof. exact l2_knee_power. Qed.
Print Assumptions C14_knee.

(* (1) constant power min(pilot power, max power) while the period ends at or below the knee *)
Theorem C14_law_constant_stage : forall cap maxP ts c pilot V T,
  0 < cap -> 0 < maxP -> ts < 1 -> 0 < V -> 0 < T -> 0 < pilot ->
  c + l2_req_power maxP pilot V * (T / 60) <= l2_knee cap maxP ts pilot V * cap ->
  l2_after cap maxP ts c pilot V T = c + l2_req_power maxP pilot V * (T / 60).
Proof. exact c14_law_constant. Qed.
Print Assumptions C14_law_constant_stage.

(* (2) at or above the knee: d charge/dt = l2_ramp_power(charge), whose solution is an exponential
   decay of the gap to full at rate maxP / (cap (1 - ts)) per hour, independent of the pilot *)
Theorem C14_law_declining_stage : forall cap maxP ts c pilot V T,
  0 < cap -> 0 < maxP -> ts < 1 -> 0 < V -> 0 < T -> 0 < pilot ->
  l2_knee cap maxP ts pilot V * cap <= c -> c <= cap ->
  cap - l2_after cap maxP ts c pilot V T = (cap - c) * exp (- (maxP * (T / 60) / (cap * (1 - ts)))).
Proof. exact c14_law_declining. Qed.
Print Assumptions C14_law_declining_stage.

(* (3) crossing the knee inside the period: constant power up to the knee, exponential after *)
Theorem C14_law_crossing : forall cap maxP ts c pilot V T,
  0 < cap -> 0 < maxP -> ts < 1 -> 0 < V -> 0 < T -> 0 < pilot ->
  c < l2_knee cap maxP ts pilot V * cap ->
  l2_knee cap maxP ts pilot V * cap < c + l2_req_power maxP pilot V * (T / 60) ->
  cap - l2_after cap maxP ts c pilot V T
  = (cap - l2_knee cap maxP ts pilot V * cap)
    * exp (- ((c + l2_req_power maxP pilot V * (T / 60) - l2_knee cap maxP ts pilot V * cap)
              / (cap - l2_knee cap maxP ts pilot V * cap))).
Proof. exact c14_law_crossing. Qed.
Print Assumptions C14_law_crossing.

(* the same law as a differential equation.  l2_law_power cap maxP ts pilot V x
     = min(l2_req_power maxP pilot V, l2_ramp_power cap maxP ts x)   [kW accepted at stored charge x];
   right_derivative f x l = for every eps > 0 there is delta > 0 with
     |(f (x+h) - f x)/h - l| < eps for all 0 < h < delta.
   The average power over a vanishing first period tends to the law's power at the initial charge ... *)
Theorem C14_law_initial : forall cap maxP ts c pilot V,
  0 < cap -> 0 < maxP -> ts < 1 -> c <= cap -> 0 < V -> 0 <= pilot ->
  forall eps, 0 < eps -> exists delta, 0 < delta /\ forall h, 0 < h < delta ->
    Rabs ((l2_after cap maxP ts c pilot V h - c) / (h / 60) - l2_law_power cap maxP ts pilot V c) < eps.
Proof. exact c14_law_initial. Qed.
Print Assumptions C14_law_initial.

(* ... and at every time T > 0 the stored charge grows [kWh per minute] at the law's power for the
   charge reached at T: T |-> l2_after c T solves d charge/dt = l2_law_power(charge)/60 *)
Theorem C14_law_ode : forall cap maxP ts c pilot V T,
  0 < cap -> 0 < maxP -> ts < 1 -> c <= cap -> 0 < V -> 0 < T -> 0 <= pilot ->
  right_derivative (fun t => l2_after cap maxP ts c pilot V t) T
                   (l2_law_power cap maxP ts pilot V (l2_after cap maxP ts c pilot V T) / 60).
Proof. exact c14_law_ode. Qed.
Print Assumptions C14_law_ode.

(* the result for a period is the flow of an autonomous law: charging for T1 + T2 equals
   charging for T1 and then for T2 (all T1, T2 > 0) *)
Theorem C14_split : forall cap maxP ts c pilot V T1 T2,
  0 < cap -> 0 < maxP -> ts < 1 -> c <= cap -> 0 < V -> 0 < T1 -> 0 < T2 -> 0 <= pilot ->
  l2_after cap maxP ts c pilot V (T1 + T2) =
  l2_after cap maxP ts (l2_after cap maxP ts c pilot V T1) pilot V T2.
Proof. exact c14_split. Qed.
Print Assumptions C14_split.

(* in particular charging for T equals charging for T/2 twice ... *)
Theorem C14_half : forall cap maxP ts c pilot V T,
  0 < cap -> 0 < maxP -> ts < 1 -> c <= cap -> 0 < V -> 0 < T -> 0 <= pilot ->
  l2_after cap maxP ts c pilot V T =
  l2_after cap maxP ts (l2_after cap maxP ts c pilot V (T / 2)) pilot V (T / 2).
Proof. exact c14_half. Qed.
Print Assumptions C14_half.

(* ... and n equal sub-steps for every n > 0 *)
Theorem C14_n_steps : forall cap maxP ts c pilot V T n,
  0 < cap -> 0 < maxP -> ts < 1 -> c <= cap -> 0 < V -> 0 < T -> 0 <= pilot -> (0 < n)%nat ->
  Nat.iter n (fun x => l2_after cap maxP ts x pilot V (T / INR n)) c = l2_after cap maxP ts c pilot V T.
Proof. exact c14_n_steps. Qed.
Print Assumptions C14_n_steps.

(* delivered energy (= stored charge after - before, C03_continuous) is non-decreasing in the pilot *)
Theorem C14_mono_pilot : forall cap maxP ts c p1 p2 V T,
  0 < cap -> 0 < maxP -> ts < 1 -> c <= cap -> 0 < V -> 0 < T -> 0 <= p1 -> p1 <= p2 ->
  l2_after cap maxP ts c p1 V T <= l2_after cap maxP ts c p2 V T.
Proof. exact c14_mono_pilot. Qed.
Print Assumptions C14_mono_pilot.

(* ... and in the period length *)
Theorem C14_mono_T : forall cap maxP ts c pilot V T1 T2,
  0 < cap -> 0 < maxP -> ts < 1 -> c <= cap -> 0 < V -> 0 < T1 -> T1 <= T2 -> 0 <= pilot ->
  l2_after cap maxP ts c pilot V T1 <= l2_after cap maxP ts c pilot V T2.
Proof. exact c14_mono_T. Qed.
Print Assumptions C14_mono_T.

(* a zero pilot delivers nothing (any noise level, any draw): rate 0, power 0, charge unchanged *)
Theorem C14_zero_pilot : forall cap c p0 maxP nl ts V T noise, 0 < V -> 0 < T ->
  L2_charge cap c p0 maxP nl ts 0 V T noise =
  OkS {| L2_charge_ret := 0; L2_charge__current_charging_power := 0; L2_charge__current_charge := c |}.
Proof. exact L2_charge_zero_pilot. Qed.
Print Assumptions C14_zero_pilot.

(* scope: the legacy 'stepwise' calculation (stepwise_after = the _current_charge written by
   L2_charge_stepwise, noise off) is NOT a flow — the class documents it as a less accurate
   approximation; 60 min from 45 kWh gives 48.5 kWh, 30 min twice 47.8875 kWh *)
Theorem C14_stepwise_does_not_split :
  stepwise_after 50 7 (4/5) 45 32 208 60
  <> stepwise_after 50 7 (4/5) (stepwise_after 50 7 (4/5) 45 32 208 30) 32 208 30.
Proof. exact c14_stepwise_does_not_split. Qed.
Print Assumptions C14_stepwise_does_not_split.

(* ---------- reset ---------- *)
(* reset() sets charge := initial charge, power := 0 *)
Theorem C14_reset_default : forall cap c p init,
  Battery_reset cap c p init None =
  OkS {| Battery_reset_ret := tt; Battery_reset__current_charge := init;
         Battery_reset__current_charging_power := 0 |}.
Proof. exact Battery_reset_default. Qed.
Print Assumptions C14_reset_default.

(* EV.reset(): energy delivered := 0 and the battery's reset() is called *)
Theorem C14_ev_reset :
  EV_reset = {| EV_reset_ret := tt; EV_reset__energy_delivered := 0;
                EV_reset_effects := [("self._battery.reset"%string, [])] |}.
Proof. exact ev_reset_spec. Qed.
Print Assumptions C14_ev_reset.

(* after ANY sequence of charge calls on a battery object of any class, reset() restores the
   state the constructor produced (charge = init charge, power = 0; capacity, max power, init
   charge, noise level, transition SoC are never written by the charge kernels: the generated
   result records have no such fields) *)
Theorem C14_reset : forall b st ops, reset_state b (final_state b st ops) None = initial_state b.
Proof. exact c14_reset. Qed.
Print Assumptions C14_reset.

(* ---------- non-vacuity ---------- *)
(* a 50 kWh / 7 kW battery at 30 kWh with transition SoC 0.8, 32 A at 208 V for 5 min stays in the
   constant stage and stores exactly 6.656 kW * 5/60 h *)
Example C14_example :
  l2_after 50 7 (4/5) 30 32 208 5 = 30 + (32 * 208 / 1000) * (5 / 60).
Proof.
  assert (E : l2_req_power 7 32 208 = 32 * 208 / 1000).
  { unfold l2_req_power. apply Rmin_left. lra. }
  rewrite <- E. apply c14_law_constant; try lra.
  unfold l2_knee. rewrite l2_rate_req by lra. rewrite E. lra.
Qed.
