(* Props/C01.v — every session is plugged in and unplugged exactly once; run() terminates.

   The theorems are about `run` of Model/SimSkel.v, the skeleton of Simulator.run built on the
   regenerated Gen/Sim_Z.v + Gen/SimParams.v + Gen/EvseZ_Z.v (loop guard, get_current_events guard,
   recompute condition, _process_event, ChargingNetwork/EVSE plugin & unplug, event precedences).
   They quantify over
     - every network (list of registered station ids) and every max_recompute (option Z),
     - every finite list of Plugin/Recompute events that is `valid` (below),
     - every numeric layer (N, num_view, num_apply, num_charge, num_store: pilot matrix, batteries, ...)
       and every scheduler `sched : V -> Sch` (an arbitrary function of what it is shown).
   `hist st` is event_history, each entry tagged with the period in which it was processed;
   `occ_log st` is the occupancy seen by post_charging_update (the charging step) in each period. *)
From Coq Require Import ZArith QArith List Bool String Sorted Lia.
From ACN Require Import Base.Num Gen.SimParams Gen.Sim_Z Model.SimSkel Proofs.SimSkel.
Import ListNotations.
Open Scope Z_scope.

(* `valid stations evs` (Proofs/SimSkel.v) unfolds to:
     every event is  EPlugin ts x  with ts = arrival x, station x registered, 0 <= arrival x < departure x,
                 or  ERecompute ts with 0 <= ts,
                 or  EOther ts prec code (a bare acnsim.Event / user-defined Event subclass with its own
                     precedence; `code` = number of its event_type label: 2 if it is labelled "Recompute" (it then requests a
                     resolve like a RecomputeEvent), otherwise a label the simulator ignores; not labelled Plugin/Unplug)
                     with 0 <= ts;
     (session id, station) pairs are pairwise distinct — two sessions may carry the same id on
     different stations;
     two sessions on one station never overlap:  departure x <= arrival y \/ departure y <= arrival x
     (back-to-back, departure x = arrival y, is allowed). *)
Theorem C01_valid_unfold : forall stations evs,
  valid stations evs <->
  (Forall (fun e => match e with
                    | EPlugin ts x => ts = s_arrival x /\ In (s_station x) stations /\ 0 <= s_arrival x < s_departure x
                    | ERecompute ts => 0 <= ts
                    | EOther ts _ c => 0 <= ts /\ c <> 0 /\ c <> 1
                    | EUnplug _ _ => False
                    end) evs) /\
  NoDup (map (fun x => (sid x, s_station x)) (sessions_of evs)) /\
  (forall x y, In x (sessions_of evs) -> In y (sessions_of evs) -> (sid x, s_station x) <> (sid y, s_station y) ->
     s_station x = s_station y -> s_departure x <= s_arrival y \/ s_departure y <= s_arrival x).
Proof. intros. split; [intros [A B C]; auto|intros (A & B & C); constructor; auto]. Qed.
Print Assumptions C01_valid_unfold.

Section Statements.
  Variables N V Sch : Type.
  Variable stations : list Z.
  Variable maxrec : option Z.
  Variable num_view : Z -> occupancy -> N -> res V.
  Variable num_apply : Z -> N -> Sch -> res N.
  Variable num_charge : Z -> occupancy -> N -> res N.
  Variable num_store : Z -> occupancy -> N -> N.
  Variable sched : V -> Sch.
  Variable evs : list event.
  Variable n0 : N.

  Let the_run := run N V Sch stations maxrec num_view num_apply num_charge num_store sched
                     (fuel_of evs) (init N V evs n0).
  (* an exception that comes out of the numeric layer / the Interface (a schedule the simulator
     rejects, an invalid pilot, a SessionInfo the Interface cannot build): C04 / C13 territory *)
  Let interface_error (e : string) :=
    (exists t o n, num_view t o n = Err e) \/ (exists t n s, num_apply t n s = Err e) \/
    (exists t o n, num_charge t o n = Err e).

  (* run() terminates within the fuel computed from the input (2 + largest timestamp/departure): it is
     never out of fuel; it never raises KeyError / StationOccupiedError or anything else of its own;
     when it returns, the queue is empty and every station is vacant. *)
  Definition C01_terminates_stmt :=
    valid stations evs ->
    match the_run with
    | Done st => queue st = [] /\ occ st = []
    | Raised e _ => interface_error e
    | OutOfFuel _ => False
    end.

  (* ... and with a scheduler / numeric layer that never raises it returns *)
  Definition C01_terminates_total_stmt :=
    valid stations evs -> (forall e, ~ interface_error e) ->
    exists st, the_run = Done st /\ queue st = [] /\ (forall s, occ_get s (occ st) = None).

  (* each session (identified by session id and station): exactly one Plugin entry, processed in period
     arrival; exactly one Unplug entry, processed in period departure *)
  Definition C01_once_stmt :=
    valid stations evs -> forall st, the_run = Done st ->
    forall x, In x (sessions_of evs) ->
      List.length (filter (fun p => match snd p with EPlugin _ y => Z.eqb (sid y) (sid x) && Z.eqb (s_station y) (s_station x) | _ => false end) (hist st)) = 1%nat /\
      List.length (filter (fun p => match snd p with EUnplug _ y => Z.eqb (sid y) (sid x) && Z.eqb (s_station y) (s_station x) | _ => false end) (hist st)) = 1%nat /\
      In (s_arrival x, EPlugin (s_arrival x) x) (hist st) /\
      In (s_departure x, EUnplug (s_departure x) x) (hist st).

  (* events are handled in non-decreasing (timestamp, precedence) order, each in the period of its
     timestamp, and the regenerated constants put departures before arrivals before recomputes *)
  Definition C01_order_stmt :=
    valid stations evs -> forall st, the_run = Done st ->
    StronglySorted (fun a b => ev_ts a < ev_ts b \/ (ev_ts a = ev_ts b /\ ev_prec a <= ev_prec b))
                   (map snd (hist st)) /\
    (forall u e, In (u, e) (hist st) -> u = ev_ts e) /\
    UnplugEvent_precedence < PluginEvent_precedence < RecomputeEvent_precedence /\
    (forall h t, EventQueue_current_guard h t false = (h <=? t) /\ EventQueue_current_guard h t true = false).

  (* the charging step runs once in each period 0 .. iter-1, and in period t station s holds session y
     iff y is one of the given sessions, on station s, with arrival y <= t < departure y *)
  Definition C01_connected_stmt :=
    valid stations evs -> forall st, the_run = Done st ->
    map fst (occ_log st) = map Z.of_nat (seq 0 (Z.to_nat (iter st))) /\
    forall t o, In (t, o) (occ_log st) -> forall s y,
      occ_get s o = Some y <->
      In y (sessions_of evs) /\ s_station y = s /\ s_arrival y <= t < s_departure y.

  (* the simulation ends one period after the last event: after the largest timestamp in
     event_history, which is the largest arrival / departure / recompute time of the input *)
  Definition C01_final_iter_stmt :=
    valid stations evs -> forall st, the_run = Done st ->
    iter st = 1 + fold_right Z.max (-1) (map (fun p => ev_ts (snd p)) (hist st)) /\
    (evs <> [] -> iter st = max_ts evs + 1).

  (* nothing is lost and nothing is invented: every given event is in event_history, processed in the
     period of its timestamp; so is the unplug of every given session; and every entry is one of these *)
  Definition C01_all_processed_stmt :=
    valid stations evs -> forall st, the_run = Done st ->
    (forall e, In e evs -> In (ev_ts e, e) (hist st)) /\
    (forall x, In x (sessions_of evs) -> In (s_departure x, EUnplug (s_departure x) x) (hist st)) /\
    (forall u e, In (u, e) (hist st) ->
       u = ev_ts e /\
       match e with
       | EPlugin ts x => In (EPlugin ts x) evs
       | EUnplug ts x => In x (sessions_of evs) /\ ts = s_departure x
       | ERecompute ts => In (ERecompute ts) evs
       | EOther ts p c => In (EOther ts p c) evs
       end).
End Statements.

Theorem C01_terminates : forall N V Sch stations maxrec num_view num_apply num_charge num_store sched evs n0,
  C01_terminates_stmt N V Sch stations maxrec num_view num_apply num_charge num_store sched evs n0.
Proof. unfold C01_terminates_stmt. intros. apply c01_trichotomy; assumption. Qed.
Print Assumptions C01_terminates.

Theorem C01_terminates_total : forall N V Sch stations maxrec num_view num_apply num_charge num_store sched evs n0,
  C01_terminates_total_stmt N V Sch stations maxrec num_view num_apply num_charge num_store sched evs n0.
Proof.
  unfold C01_terminates_total_stmt. intros until n0. intros VAL NR.
  destruct (c01_terminates N V Sch stations maxrec num_view num_apply num_charge num_store sched evs VAL n0 NR)
    as (st & R & Q & O).
  exists st. rewrite O. auto.
Qed.
Print Assumptions C01_terminates_total.

Theorem C01_once : forall N V Sch stations maxrec num_view num_apply num_charge num_store sched evs n0,
  C01_once_stmt N V Sch stations maxrec num_view num_apply num_charge num_store sched evs n0.
Proof. unfold C01_once_stmt. intros until n0. intros VAL st R. exact (c01_once _ _ _ _ _ _ _ _ _ _ _ VAL _ _ R). Qed.
Print Assumptions C01_once.

Theorem C01_order : forall N V Sch stations maxrec num_view num_apply num_charge num_store sched evs n0,
  C01_order_stmt N V Sch stations maxrec num_view num_apply num_charge num_store sched evs n0.
Proof.
  unfold C01_order_stmt. intros until n0. intros VAL st R.
  destruct (c01_order _ _ _ _ _ _ _ _ _ _ _ VAL _ _ R) as (A & B).
  split; [exact A|]. split; [exact B|]. split; [exact prec_order|exact current_guard_spec].
Qed.
Print Assumptions C01_order.

Theorem C01_connected : forall N V Sch stations maxrec num_view num_apply num_charge num_store sched evs n0,
  C01_connected_stmt N V Sch stations maxrec num_view num_apply num_charge num_store sched evs n0.
Proof. unfold C01_connected_stmt. intros until n0. intros VAL st R. exact (c01_connected _ _ _ _ _ _ _ _ _ _ _ VAL _ _ R). Qed.
Print Assumptions C01_connected.

Theorem C01_final_iter : forall N V Sch stations maxrec num_view num_apply num_charge num_store sched evs n0,
  C01_final_iter_stmt N V Sch stations maxrec num_view num_apply num_charge num_store sched evs n0.
Proof. unfold C01_final_iter_stmt. intros until n0. intros VAL st R. exact (c01_final_iter _ _ _ _ _ _ _ _ _ _ _ VAL _ _ R). Qed.
Print Assumptions C01_final_iter.

Theorem C01_all_processed : forall N V Sch stations maxrec num_view num_apply num_charge num_store sched evs n0,
  C01_all_processed_stmt N V Sch stations maxrec num_view num_apply num_charge num_store sched evs n0.
Proof.
  unfold C01_all_processed_stmt. intros until n0. intros VAL st R.
  destruct (c01_all_processed _ _ _ _ _ _ _ _ _ _ _ VAL _ _ R) as (A & B & C).
  split; [exact A|]. split; [exact B|]. intros u e I. destruct (C u e I) as (G & E). split; [exact E|].
  destruct e; exact G.
Qed.
Print Assumptions C01_all_processed.

(* What the simulator rejects (the `valid` guard is not vacuous: outside it the code raises).
   Processing a Plugin event: unknown station -> KeyError; occupied station -> StationOccupiedError (the
   occupant stays); otherwise the EV is connected, recorded, its Unplug is queued at ev.departure, and the
   scheduler is asked to resolve.  Processing an Unplug: session-checked. *)
Theorem C01_plugin_outcomes : forall N V stations (st : state N V) ts x,
  process_event N V stations st (EPlugin ts x) =
  if zmem (s_station x) stations then
    match occ_get (s_station x) (occ st) with
    | None => OkS (mkState N V (iter st) true (Some ts)
                     (q_insert (EUnplug (s_departure x) x) (queue st)) (occ_set (s_station x) x (occ st))
                     ((sid x, x) :: filter (fun p => negb (Z.eqb (fst p) (sid x))) (ev_hist st))
                     (hist st) (calls st) (occ_log st) (num st))
    | Some y => ErrS "StationOccupiedError"%string
                     (set_occ N V st (if Z.eqb (sid y) (sid x) then occ_set (s_station x) x (occ st) else occ st))
    end
  else ErrS "KeyError"%string (set_occ N V st (occ st)).
Proof. exact process_plugin_outcomes. Qed.
Print Assumptions C01_plugin_outcomes.

Theorem C01_unplug_outcomes : forall N V stations (st : state N V) ts x,
  process_event N V stations st (EUnplug ts x) =
  if zmem (s_station x) stations then
    OkS (mkState N V (iter st) true (Some ts) (queue st)
           (match occ_get (s_station x) (occ st) with
            | Some y => if Z.eqb (sid x) (sid y) then occ_remove (s_station x) (occ st) else occ st
            | None => occ st
            end)
           (ev_hist st) (hist st) (calls st) (occ_log st) (num st))
  else ErrS "KeyError"%string (set_occ N V st (occ st)).
Proof. exact process_unplug_outcomes. Qed.
Print Assumptions C01_unplug_outcomes.

(* ---- non-vacuity: 3 stations, back-to-back reuse of station 1, one session id used on two stations,
        four simultaneous events at t = 4
        (two departures, two arrivals) plus a recompute at the same time ---- *)
Definition ex_s (i st a d : Z) : session := mkSession i st a d d 1 10 0 7.
Definition ex_events : list event :=
  [ EPlugin 0 (ex_s 11 1 0 4); EPlugin 4 (ex_s 12 1 4 6);      (* back-to-back on station 1 *)
    EPlugin 2 (ex_s 11 2 2 4); EPlugin 4 (ex_s 31 3 4 5);      (* id 11 again, on station 2; leaves at 4 / arrives at 4 *)
    ERecompute 4; EPlugin 6 (ex_s 22 2 6 9) ].

Example C01_example_valid : valid [1; 2; 3] ex_events.
Proof.
  apply C01_valid_unfold. split; [|split].
  - repeat constructor; simpl; lia.
  - repeat constructor; simpl; intuition discriminate.
  - simpl. intros x y Hx Hy.
    repeat (destruct Hx as [<-|Hx]; [|]); try contradiction;
    repeat (destruct Hy as [<-|Hy]; [|]); try contradiction; simpl; intros; try lia; try congruence.
Qed.
Print Assumptions C01_example_valid.

(* the run of the example with a trivial numeric layer and max_recompute = 2 *)
Example C01_example_run :
  match run unit unit unit [1; 2; 3] (Some 2) (fun _ _ _ => Ok tt) (fun _ _ _ => Ok tt) (fun _ _ _ => Ok tt)
            (fun _ _ n => n) (fun _ => tt) (fuel_of ex_events) (init unit unit ex_events tt) with
  | Done st => iter st = 10 /\ queue st = [] /\ occ st = [] /\
               map (fun p => (fst p, ev_code (snd p), match ev_session (snd p) with Some x => sid x | None => -1 end))
                   (hist st)
               = [(0, 0, 11); (2, 0, 11); (4, 1, 11); (4, 1, 11); (4, 0, 12); (4, 0, 31); (4, 2, -1);
                  (5, 1, 31); (6, 1, 12); (6, 0, 22); (9, 1, 22)] /\
               map fst (calls st) = [0; 2; 4; 5; 6; 8; 9]
  | _ => False
  end.
Proof. vm_compute. repeat split; reflexivity. Qed.
Print Assumptions C01_example_run.
