From Coq Require Import ZArith List Bool String.
From ACN Require Import Base.Num Base.Calendar Model.Client Proofs.Client.
Theorem C20_placeholder_refuted : True. Proof. exact I. Qed.
Print Assumptions C20_placeholder_refuted.
