(* Props/C20_findings.v — open finding of C20 (compiled while the entry in known_findings.json is open).

   Full statement of the round-trip clause for the implementation as it is on Linux/glibc
   (strftime "%Y" not zero-padded, i.e. pad = false):
       forall a, in_range (instant a) = true ->
         res_bind (http_date false a) (parse_http_date zn z) = astimezone zn z (instant a).
   It is refuted by 0999-06-15 12:30:45 UTC: http_date renders "Sat, 15 Jun 999 12:30:45 GMT" (not RFC 1123),
   which strptime's four-digit "%Y" rejects.  Replayed on the implementation by harness/c20.py::replay_known. *)
From Coq Require Import ZArith List Bool String.
From ACN Require Import Base.Num Base.Calendar Model.Client Proofs.Client.
Open Scope string_scope.

Theorem C20_roundtrip_refuted : exists a,
  in_range (instant a) = true /\
  http_date false a = Ok "Sat, 15 Jun 999 12:30:45 GMT" /\
  forall zn z, res_bind (http_date false a) (parse_http_date zn z) = Err "ValueError".
Proof. exact (ex_intro _ a999 roundtrip_unpadded_fails). Qed.
Print Assumptions C20_roundtrip_refuted.
