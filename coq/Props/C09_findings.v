(* Props/C09_findings.v — witness of the OPEN C09 finding (known_findings.json): an input on
   which the faithful model, like the implementation, does NOT resume to the reference run.
   It violates `history_ok` (C09_resume) and `queue_ok` (C09_resume_partial). *)
From Coq Require Import ZArith List Bool String.
From ACN Require Import Base.Num Model.Resume Proofs.Resume Proofs.ResumeFindings.
Import ListNotations.
Open Scope Z_scope.

(* a session whose departure is not later than the period in which it is plugged in:
   PluginEvent(1, EV(arrival 1, departure 1) at station 0), PluginEvent(0, EV(0, 4) at station 1);
   the scheduler raises at its second call (period 1).  Reference: session 0 occupies its station
   during period 1.  Interrupted and resumed: it is unplugged before period 1 is stepped. *)
Theorem C09_resume_zero_stay_refuted :
  exists (k fuel : nat) (sc sref sres : dsim HeapQ),
    drun fuel None zero_stay_witness = Done sref
    /\ drun fuel (Some k) zero_stay_witness = Raised sc
    /\ drun fuel None sc = Done sres
    /\ zassoc 1 (d_log (s_rest sref)) = Some [(1, 1); (0, 0)]
    /\ zassoc 1 (d_log (s_rest sres)) = Some [(1, 1)]
    /\ d_calls (s_rest sref) <> d_calls (s_rest sres).
Proof. exact zero_stay_refuted. Qed.
Print Assumptions C09_resume_zero_stay_refuted.
