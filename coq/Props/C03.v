(* Props/C03.v — physical bounds of every battery model.
   Only statements, each closed by `exact <lemma>`.  The kernels are the regenerated
   Gen/Battery_R.v (Battery_charge = Battery.charge, L2_charge = Linear2StageBattery._charge,
   L2_charge_stepwise = Linear2StageBattery._charge_stepwise; `noise`, `noise2` stand for the value
   returned by np.random.normal at the respective call site, so the theorems hold for EVERY draw)
   and Gen/BatteryGuard_R.v (constructor / reset guards, the charge_calculation dispatch).
   All numbers are reals: every float input is covered under exact arithmetic.
   Arguments of the kernels: capacity, current charge, current charging power, max power,
   [noise level, transition SoC,] pilot, voltage, period, [noise draws]. *)
From Coq Require Import ZArith QArith Reals Lra List Bool String.
From ACN Require Import Base.Num Base.NumR Gen.Battery_Q Proofs.BatteryQ Gen.Battery_R Gen.BatteryGuard_R Proofs.Battery.
Import ListNotations.
Open Scope R_scope.

(* ---------- one call of each kernel ---------- *)
(* ideal battery: 0 <= rate <= pilot, 0 <= power <= max power, charge never decreases and never
   exceeds capacity; the stored energy is exactly what the returned current carries *)
Theorem C03_ideal : forall cap c p0 maxP pilot V T,
  0 <= maxP -> c <= cap -> 0 < V -> 0 < T -> 0 <= pilot ->
  exists o, Battery_charge cap c p0 maxP pilot V T = OkS o
    /\ (0 <= Battery_charge_ret o <= pilot
        /\ 0 <= Battery_charge__current_charging_power o <= maxP
        /\ c <= Battery_charge__current_charge o <= cap)
    /\ Battery_charge__current_charge o - c = Battery_charge_ret o * V / 1000 * (T / 60).
Proof. exact c03_ideal. Qed.
Print Assumptions C03_ideal.

(* two-stage battery, legacy stepwise calculation, with or without noise, for every noise draw *)
Theorem C03_stepwise : forall cap c p0 maxP noise_level ts pilot V T noise noise2,
  0 < cap -> 0 <= maxP -> ts < 1 -> c <= cap -> 0 < V -> 0 < T -> 0 <= pilot ->
  exists o, L2_charge_stepwise cap c p0 maxP noise_level ts pilot V T noise noise2 = OkS o
    /\ (0 <= L2_charge_stepwise_ret o <= pilot
        /\ 0 <= L2_charge_stepwise__current_charging_power o <= maxP
        /\ c <= L2_charge_stepwise__current_charge o <= cap)
    /\ L2_charge_stepwise__current_charge o - c = L2_charge_stepwise_ret o * V / 1000 * (T / 60).
Proof. exact c03_stepwise. Qed.
Print Assumptions C03_stepwise.

(* two-stage battery, continuous calculation (the default), with or without noise, for every
   noise draw (this is the statement that failed before commit 79f722b of /repo) *)
Theorem C03_continuous : forall cap c p0 maxP noise_level ts pilot V T noise,
  0 < cap -> 0 < maxP -> ts < 1 -> c <= cap -> 0 < V -> 0 < T -> 0 <= pilot ->
  exists o, L2_charge cap c p0 maxP noise_level ts pilot V T noise = OkS o
    /\ (0 <= L2_charge_ret o <= pilot
        /\ 0 <= L2_charge__current_charging_power o <= maxP
        /\ c <= L2_charge__current_charge o <= cap)
    /\ L2_charge__current_charge o - c = L2_charge_ret o * V / 1000 * (T / 60).
Proof. exact c03_continuous. Qed.
Print Assumptions C03_continuous.

(* the ideal and the stepwise kernel do not use exp: the same two theorems about the executable
   rational twin Gen/Battery_Q.v (every float is a rational), without any axiom *)
Theorem C03_ideal_Q : forall cap c p0 maxP pilot V T : Q,
  (0 <= maxP -> c <= cap -> 0 < V -> 0 < T -> 0 <= pilot ->
  exists o, Battery_Q.Battery_charge cap c p0 maxP pilot V T = OkS o
    /\ (0 <= Battery_Q.Battery_charge_ret o /\ Battery_Q.Battery_charge_ret o <= pilot)
    /\ (0 <= Battery_Q.Battery_charge__current_charging_power o
        /\ Battery_Q.Battery_charge__current_charging_power o <= maxP)
    /\ (c <= Battery_Q.Battery_charge__current_charge o /\ Battery_Q.Battery_charge__current_charge o <= cap)
    /\ Battery_Q.Battery_charge__current_charge o - c
       == Battery_Q.Battery_charge_ret o * V / 1000 * (T / 60))%Q.
Proof. exact c03_ideal_Q. Qed.
Print Assumptions C03_ideal_Q.

Theorem C03_stepwise_Q : forall cap c p0 maxP noise_level ts pilot V T noise noise2 : Q,
  (0 < cap -> 0 <= maxP -> ts < 1 -> c <= cap -> 0 < V -> 0 < T -> 0 <= pilot ->
  exists o, Battery_Q.L2_charge_stepwise cap c p0 maxP noise_level ts pilot V T noise noise2 = OkS o
    /\ (0 <= Battery_Q.L2_charge_stepwise_ret o /\ Battery_Q.L2_charge_stepwise_ret o <= pilot)
    /\ (0 <= Battery_Q.L2_charge_stepwise__current_charging_power o
        /\ Battery_Q.L2_charge_stepwise__current_charging_power o <= maxP)
    /\ (c <= Battery_Q.L2_charge_stepwise__current_charge o
        /\ Battery_Q.L2_charge_stepwise__current_charge o <= cap)
    /\ Battery_Q.L2_charge_stepwise__current_charge o - c
       == Battery_Q.L2_charge_stepwise_ret o * V / 1000 * (T / 60))%Q.
Proof. exact c03_stepwise_Q. Qed.
Print Assumptions C03_stepwise_Q.

(* ---------- error branches: voltage <= 0 or period <= 0 raise ValueError, state untouched ---------- *)
Theorem C03_ideal_rejects : forall cap c p0 maxP pilot V T, V <= 0 \/ T <= 0 ->
  Battery_charge cap c p0 maxP pilot V T =
  ErrS "ValueError" {| Battery_charge_ret := 0; Battery_charge__current_charge := c;
                       Battery_charge__current_charging_power := p0 |}.
Proof. exact Battery_charge_rejects. Qed.
Print Assumptions C03_ideal_rejects.

Theorem C03_stepwise_rejects : forall cap c p0 maxP nl ts pilot V T noise noise2, V <= 0 \/ T <= 0 ->
  L2_charge_stepwise cap c p0 maxP nl ts pilot V T noise noise2 =
  ErrS "ValueError" {| L2_charge_stepwise_ret := 0; L2_charge_stepwise__current_charge := c;
                       L2_charge_stepwise__current_charging_power := p0 |}.
Proof. exact L2_charge_stepwise_rejects. Qed.
Print Assumptions C03_stepwise_rejects.

Theorem C03_continuous_rejects : forall cap c p0 maxP nl ts pilot V T noise, V <= 0 \/ T <= 0 ->
  L2_charge cap c p0 maxP nl ts pilot V T noise =
  ErrS "ValueError" {| L2_charge_ret := 0; L2_charge__current_charging_power := p0;
                       L2_charge__current_charge := c |}.
Proof. exact L2_charge_rejects. Qed.
Print Assumptions C03_continuous_rejects.

(* ---------- any battery object, any sequence of calls ----------
   battery   = (class: Ideal | TwoStage noise_level transition_soc charge_calculation; capacity; max power; init charge)
   charge_call b st op = the class's charge() through the generated dispatch L2_dispatch
   battery_ok b  =  0 < capacity /\ 0 < max power /\ (two-stage: transition_soc < 1)
   call_ok b st op r  =  either r is a ValueError with state st untouched and rate 0,
                         or 0 <= rate <= pilot /\ 0 <= power <= max power /\ charge st <= charge' <= capacity
                            /\ charge' - charge st = rate * V/1000 * T/60                      *)
Theorem C03_call : forall b st o,
  battery_ok b -> s_charge st <= b_cap b -> 0 <= o_pilot o ->
  call_ok b st o (charge_call b st o)
  /\ (0 < o_V o -> 0 < o_T o -> mode_known b -> r_err (charge_call b st o) = None)
  /\ (r_err (charge_call b st o) = None -> 0 < o_V o /\ 0 < o_T o /\ mode_known b).
Proof. exact c03_call. Qed.
Print Assumptions C03_call.

(* the bounds are an invariant of every sequence of calls with non-negative pilots (any voltages,
   periods and noise draws; refused calls leave the state alone): before each call the stored
   charge is between the initial charge and capacity, each call is call_ok, and so is the end *)
Theorem C03_sequence : forall b ops,
  battery_ok b -> Forall (fun o => 0 <= o_pilot o) ops ->
  forall st, s_charge st <= b_cap b ->
  Forall (fun '(s, o, r) => s_charge st <= s_charge s <= b_cap b /\ call_ok b s o r) (run_calls b st ops)
  /\ s_charge st <= s_charge (final_state b st ops) <= b_cap b.
Proof. exact c03_sequence. Qed.
Print Assumptions C03_sequence.

(* the whole life of a battery object: constructed (init charge <= capacity), then ANY list of
   charge calls (non-negative pilots) and reset(x) calls: before every operation the stored charge is
   at most the capacity, every charge call is call_ok, every reset leaves it at most at capacity *)
Theorem C03_life : forall b ops,
  battery_ok b -> b_init b <= b_cap b -> Forall bop_pilot_ok ops ->
  Forall (fun '(st, o) =>
            s_charge st <= b_cap b /\
            match o with
            | OpCharge c => call_ok b st c (charge_call b st c)
            | OpReset x => s_charge (reset_state b st x) <= b_cap b
            end) (life b (initial_state b) ops).
Proof. exact c03_life. Qed.
Print Assumptions C03_life.

(* hence in a simulation: a station's history is a sequence of gaps (no EV: recorded rate 0) and
   sessions; every period runs the generated BaseEVSE_set_pilot (accepted pilot), whose effect on
   the attached EV is the generated EV_charge on top of the battery's charge_call;
   recorded = the (pilot, actual rate) pairs that Simulator stores for that station.
   0 <= recorded rate <= recorded pilot at every period, for every such history. *)
Theorem C03_sim_station : forall timeline : list segment,
  Forall segment_ok timeline ->
  Forall (fun pr => 0 <= snd pr <= fst pr) (flat_map recorded timeline).
Proof. exact c03_station. Qed.
Print Assumptions C03_sim_station.

(* ---------- constructor / reset guards ---------- *)
(* Battery.__init__ refuses init_charge > capacity; a constructed battery starts with
   charge = init_charge <= capacity and power 0 *)
Theorem C03_constructor_guard : forall u1 u2 u3 u4 u5 cap init maxP,
  (cap < init -> errS (Battery_init u1 u2 u3 u4 u5 cap init maxP) = Some "ValueError"%string)
  /\ (forall o, Battery_init u1 u2 u3 u4 u5 cap init maxP = OkS o ->
        Battery_init__current_charge o <= Battery_init__capacity o
        /\ Battery_init__init_charge o = Battery_init__current_charge o
        /\ Battery_init__current_charging_power o = 0).
Proof. exact c03_constructor_guard. Qed.
Print Assumptions C03_constructor_guard.

(* Linear2StageBattery.__init__ lets through exactly 0 <= transition_soc < 1 *)
Theorem C03_two_stage_constructor_guard : forall cap init maxP nl ts cc,
  L2_init_ts_negative cap init maxP nl ts cc = false /\ L2_init_ts_ge_one cap init maxP nl ts cc = false
  <-> 0 <= ts < 1.
Proof. exact L2_init_guards. Qed.
Print Assumptions C03_two_stage_constructor_guard.

(* reset(x): x > capacity is refused with the state untouched; otherwise charge := x (or the
   initial charge), power := 0; in all cases the battery stays at or below capacity *)
Theorem C03_reset_guard : forall cap c p init x,
  (cap < x -> Battery_reset cap c p init (Some x) =
     ErrS "ValueError" {| Battery_reset_ret := tt; Battery_reset__current_charge := c;
                          Battery_reset__current_charging_power := p |})
  /\ (forall y, init <= cap -> c <= cap ->
        Battery_reset__current_charge (stateS (Battery_reset cap c p init y)) <= cap).
Proof. exact c03_reset_guard. Qed.
Print Assumptions C03_reset_guard.

(* ---------- non-vacuity: a concrete noisy continuous two-stage battery and a noisy call ---------- *)
Example C03_example :
  let b := {| b_kind := TwoStage 1 (4/5) 0; b_cap := 50; b_maxP := 7; b_init := 10 |} in
  battery_ok b /\ mode_known b /\ s_charge (initial_state b) <= b_cap b
  /\ r_err (charge_call b (initial_state b) {| o_pilot := 1; o_V := 208; o_T := 5; o_n1 := 1; o_n2 := 0 |}) = None.
Proof.
  cbv zeta.
  set (b := {| b_kind := TwoStage 1 (4/5) 0; b_cap := 50; b_maxP := 7; b_init := 10 |}).
  assert (Hb : battery_ok b) by (unfold battery_ok; cbn; lra).
  assert (Hm : mode_known b) by (cbn; auto).
  assert (Hc : s_charge (initial_state b) <= b_cap b) by (cbn; lra).
  repeat split; try assumption; try (cbn; lra).
  set (o := {| o_pilot := 1; o_V := 208; o_T := 5; o_n1 := 1; o_n2 := 0 |}).
  assert (Hp : 0 <= o_pilot o) by (cbn; lra).
  destruct (c03_call b (initial_state b) o Hb Hc Hp) as (_ & H & _).
  apply H; try assumption; cbn; lra.
Qed.
