(* Props/C06.v — the feasibility check matches the phasor definition; the three checkers agree;
   a network without constraints accepts every schedule and is usable; the linear relaxation is
   conservative.  Statements only; proofs in Proofs/Feasible.v.

   Model (Model/Feasible.v, instance RF = all reals, hence every float input under exact
   arithmetic): net_is_feasible = ChargingNetwork.is_feasible, iface_is_feasible =
   Interface.is_feasible, infrastructure_info = Interface.infrastructure_info (+ _validate),
   alg_is_feasible[_default] = algorithms.utils.infrastructure_constraints_feasible.
   The tolerance expressions / default tolerances / algorithm-side comparison inside them are
   the definitions regenerated from the code (Gen/Feas_R.v).  X is station-major with T periods.
   phasor_re A X phi j t = sum_i A_ji * X_it * cos(phi_i deg), phasor_im likewise with sin. *)
From Coq Require Import String Reals List Bool QArith.
From ACN Require Import Base.Num Base.NumR Model.Feasible Proofs.Feasible.
Import ListNotations.
Open Scope R_scope.

(* A schedule is reported feasible exactly when, for every constraint j and period t,
   |sum_i A_ji X_it e^{i phi_i}|  <=  L_j + max(abs_tol, rel_tol * L_j). *)
Theorem C06_definition : forall (A : list (list R)) (L phi : list R) (vt rt : R) (X : list (list R)) (T : nat),
  length A = length L ->
  net_is_feasible RF (net_of A L phi vt rt) X T false None None = true <->
  forall j t, (j < length L)%nat -> (t < T)%nat ->
    sqrt (phasor_re A X phi j t * phasor_re A X phi j t + phasor_im A X phi j t * phasor_im A X phi j t)
    <= nth j L 0 + Rmax vt (rt * nth j L 0).
Proof. exact definition_deg. Qed.
Print Assumptions C06_definition.

(* linear=True: |sum_i |A_ji| X_it|  <=  L_j + max(abs_tol, rel_tol * L_j)  (lsum a X t = sum_i |a_i| X_it) *)
Theorem C06_definition_linear : forall (A : list (list R)) (L phi : list R) (vt rt : R) (X : list (list R)) (T : nat),
  length A = length L ->
  net_is_feasible RF (net_of A L phi vt rt) X T true None None = true <->
  forall j t, (j < length L)%nat -> (t < T)%nat ->
    Rabs (lsum (nth j A []) X t) <= nth j L 0 + Rmax vt (rt * nth j L 0).
Proof. exact definition_linear. Qed.
Print Assumptions C06_definition_linear.

(* The two computation orders used in the code give the same complex currents:
   network side  A @ (X.T * e^{i phi}).T   vs.   algorithm side  [v cos phi; v sin phi] @ X. *)
Theorem C06_orders_agree : forall (a : list R) (cis : list (R * R)) (X : list (list R)) (t : nat),
  (dot RF a (col RF t (scale_rows RF X (map fst cis))), dot RF a (col RF t (scale_rows RF X (map snd cis))))
  = (dot RF (vmul RF a (map fst cis)) (col RF t X), dot RF (vmul RF a (map snd cis)) (col RF t X)).
Proof. exact orders_agree. Qed.
Print Assumptions C06_orders_agree.

(* The algorithm-side check, given the same tolerances, is the network-side check (phase-aware
   mode; any network that infrastructure_info accepts, any schedule, any explicit tolerances). *)
Theorem C06_alg_equals_net : forall (n : network RF) (inf : infra RF) X T ovt ort,
  infrastructure_info RF n = Ok inf ->
  alg_is_feasible RF inf X T false (opt_or RF ovt (n_vt n)) (opt_or RF ort (n_rt n))
  = net_is_feasible RF n X T false ovt ort.
Proof. exact alg_net_agree_phasor. Qed.
Print Assumptions C06_alg_equals_net.

(* All three checkers agree on every schedule mapping — UNDER EQUAL TOLERANCES: the algorithm
   side is always called with its hard-coded defaults, so the network's tolerances must equal
   them (they do for a default-constructed network, C06_defaults_coincide). *)
Theorem C06_three_agree : forall (n : network RF) (inf : infra RF) (m : mapping RF),
  infrastructure_info RF n = Ok inf ->
  m <> [] -> uniform_lengths RF m = true ->
  n_vt n = g_utils_default_vt RF -> n_rt n = g_utils_default_rt RF ->
  let T := mapping_T RF m in
  let X := dense RF (n_stations RF n) T m in
  iface_is_feasible RF n m false None None = Ok (net_is_feasible RF n X T false None None)
  /\ alg_is_feasible_default RF inf X T false = net_is_feasible RF n X T false None None.
Proof.
  intros n inf m Hinf Hne Hu Hvt Hrt T X. split.
  - now apply iface_dense.
  - rewrite default_is_explicit, <- Hvt, <- Hrt. exact (alg_net_agree_phasor n inf X T None None Hinf).
Qed.
Print Assumptions C06_three_agree.

Theorem C06_defaults_coincide :
  g_net_default_vt RF = g_utils_default_vt RF /\ g_net_default_rt RF = g_utils_default_rt RF.
Proof. exact defaults_coincide. Qed.
Print Assumptions C06_defaults_coincide.

(* Linear mode: the three agree on EVERY schedule (negative entries included) under equal
   tolerances: both sides compare |sum_i |A_ji| X_it| with the limit (algorithm side since fix
   1df0c97; the old witness limit 40 A, x = -50 A is kept in corpus/C06/ and below). *)
Theorem C06_three_agree_linear : forall (n : network RF) (inf : infra RF) (m : mapping RF),
  infrastructure_info RF n = Ok inf ->
  m <> [] -> uniform_lengths RF m = true ->
  n_vt n = g_utils_default_vt RF -> n_rt n = g_utils_default_rt RF ->
  let T := mapping_T RF m in
  let X := dense RF (n_stations RF n) T m in
  iface_is_feasible RF n m true None None = Ok (net_is_feasible RF n X T true None None)
  /\ alg_is_feasible_default RF inf X T true = net_is_feasible RF n X T true None None.
Proof.
  intros n inf m Hinf Hne Hu Hvt Hrt T X. split.
  - now apply iface_dense.
  - rewrite default_is_explicit, <- Hvt, <- Hrt.
    exact (alg_net_agree_linear n inf X T None None Hinf).
Qed.
Print Assumptions C06_three_agree_linear.

(* ... and for any schedule matrix and any explicit tolerance arguments *)
Theorem C06_alg_equals_net_linear : forall (n : network RF) (inf : infra RF) X T ovt ort,
  infrastructure_info RF n = Ok inf ->
  alg_is_feasible RF inf X T true (opt_or RF ovt (n_vt n)) (opt_or RF ort (n_rt n))
  = net_is_feasible RF n X T true ovt ort.
Proof. exact alg_net_agree_linear. Qed.
Print Assumptions C06_alg_equals_net_linear.

(* regression witness of the fixed finding (Q instance, axiom-free): all three reject x = -50 *)
Theorem C06_linear_negative_witness_agrees :
  exists inf, infrastructure_info QF witness_neg_net = Ok inf
  /\ net_is_feasible QF witness_neg_net [[-50]]%Q 1 true None None = false
  /\ iface_is_feasible QF witness_neg_net [(O, [-50]%Q)] true None None = Ok false
  /\ alg_is_feasible_default QF inf [[-50]]%Q 1 true = false.
Proof. exact witness_neg_agree. Qed.
Print Assumptions C06_linear_negative_witness_agrees.

(* Interface.is_feasible: {} is feasible; schedules of unequal lengths are rejected with
   InvalidScheduleError; otherwise it is the network check of the dense matrix whose row i is the
   mapping's entry for station i, or T zeros when the station is omitted (ids unknown to the
   network — indices >= N — are ignored). *)
Theorem C06_interface_dense : forall (n : network RF) (m : mapping RF) lin ovt ort,
  iface_is_feasible RF n [] lin ovt ort = Ok true
  /\ (uniform_lengths RF m = false -> iface_is_feasible RF n m lin ovt ort = Err "InvalidScheduleError"%string)
  /\ (m <> [] -> uniform_lengths RF m = true ->
      let T := mapping_T RF m in
      let X := dense RF (n_stations RF n) T m in
      iface_is_feasible RF n m lin ovt ort = Ok (net_is_feasible RF n X T lin ovt ort)
      /\ length X = n_stations RF n
      /\ (forall i, (i < n_stations RF n)%nat ->
            nth i X [] = match nassoc i m with Some r => r | None => repeat 0 T end)
      /\ (forall k r, In (k, r) m -> length r = T)).
Proof.
  intros n m lin ovt ort. split; [reflexivity|]. split; [apply iface_ragged|].
  intros Hne Hu T X. split; [now apply iface_dense|]. split; [apply dense_length|].
  split; [intros i Hi; now apply dense_nth | intros k r; now apply uniform_all_T].
Qed.
Print Assumptions C06_interface_dense.

(* A network without constraints accepts every schedule on all three sides (the interface still
   refuses ragged mappings, as it does on every network), and it is usable by schedulers:
   infrastructure_info is defined, with a 0 x N constraint matrix. *)
Theorem C06_unconstrained : forall (cis : list (R * R)) vt rt X T lin ovt ort (m : mapping RF),
  let n := unconstrained cis vt rt in
  net_is_feasible RF n X T lin ovt ort = true
  /\ infrastructure_info RF n = Ok (Build_infra RF [] (length cis) [] cis)
  /\ (forall inf, infrastructure_info RF n = Ok inf ->
        alg_is_feasible_default RF inf X T lin = true
        /\ forall vt' rt', alg_is_feasible RF inf X T lin vt' rt' = true)
  /\ iface_is_feasible RF n m lin ovt ort
     = (if uniform_lengths RF m then Ok true else Err "InvalidScheduleError"%string).
Proof.
  intros cis vt rt X T lin ovt ort m n.
  destruct (unconstrained_all cis vt rt X T lin ovt ort m) as (H1 & H2 & H3).
  split; [exact H1|]. split; [apply unconstrained_info|]. split; [exact H2 | exact H3].
Qed.
Print Assumptions C06_unconstrained.

(* The linear relaxation is conservative: a non-negative schedule accepted with linear=True is
   accepted by the phase-aware check — network side and algorithm side (any tolerance function).
   unit_cis: every (c, s) has c^2 + s^2 <= 1, which holds for (cos, sin) of any angle. *)
Theorem C06_linear_conservative : forall (n : network RF) X T ovt ort,
  unit_cis (n_cis n) -> all_nonneg RF X = true ->
  net_is_feasible RF n X T true ovt ort = true -> net_is_feasible RF n X T false ovt ort = true.
Proof. exact net_linear_conservative. Qed.
Print Assumptions C06_linear_conservative.

Theorem C06_linear_conservative_alg : forall tolf (inf : infra RF) X T,
  unit_cis (i_cis inf) -> all_nonneg RF X = true ->
  alg_is_feasible_tol RF tolf inf X T true = true -> alg_is_feasible_tol RF tolf inf X T false = true.
Proof. exact alg_linear_conservative. Qed.
Print Assumptions C06_linear_conservative_alg.

Theorem C06_phases_are_unit : forall phi : list R, unit_cis (map cis_deg phi).
Proof. exact unit_cis_deg. Qed.
Print Assumptions C06_phases_are_unit.

(* The algorithm-side comparison `line_currents <= limits[j] + tol[j]` (regenerated text) applied
   to a 2-norm is the square-root-free test the executable model uses. *)
Theorem C06_alg_comparison : forall L tol re im,
  Gen.Feas_R.Utils_ok_phasor L (sqrt (re * re + im * im)) tol = mag_le RF (re, im) (L + tol).
Proof. exact utils_ok_phasor_sqrt. Qed.
Print Assumptions C06_alg_comparison.

(* non-vacuity: a concrete network meeting the hypotheses of C06_three_agree, with a schedule
   that is accepted and one that is rejected *)
Example C06_three_agree_example :
  let n := Build_network QF (Some [[1; -1]%Q]) [40%Q] [(1, 0); (0, 1)]%Q (g_net_default_vt QF) (g_net_default_rt QF) in
  exists inf, infrastructure_info QF n = Ok inf
  /\ n_vt n = g_utils_default_vt QF
  /\ net_is_feasible QF n [[28]; [28]]%Q 1 false None None = true
  /\ alg_is_feasible_default QF inf [[28]; [28]]%Q 1 false = true
  /\ iface_is_feasible QF n [(1%nat, [28%Q]); (O, [28%Q])] false None None = Ok true
  /\ net_is_feasible QF n [[29]; [29]]%Q 1 false None None = false
  /\ alg_is_feasible_default QF inf [[29]; [29]]%Q 1 false = false
  /\ net_is_feasible QF n [[29]; [29]]%Q 1 true None None = false.
Proof. eexists. repeat split; vm_compute; reflexivity. Qed.
