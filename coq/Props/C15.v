(* Props/C15.v — generated sessions are well-formed and their batteries can hold the request;
   with the provided two-stage capacity fit, charging at full rate for the whole stay delivers
   exactly the requested energy.

   Part 1 (Z / Q, axiom-free): acndata_events.get_evs / _convert_to_ev / _datetime_to_timestamp and
   stochastic_events._convert_ev_matrix / clip_samples, as modelled by Model/Convert.v on top of
   the regenerated kernels Gen/Convert_Q.v.  A session document is (conn, disc, kWh) with conn /
   disc the POSIX timestamps (seconds) of connectionTime / disconnectTime; `start` likewise.
   Part 2 (R): battery.batt_cap_fn (Model/ConvertR.v on Gen/Fit_R.v) and n periods of
   Linear2StageBattery._charge (Gen/Battery_R.v::L2_charge).
   Only statements; every proof is `exact <lemma>` (Proofs/Convert.v, Proofs/ConvertFit.v). *)
From Coq Require Import ZArith QArith Qminmax Qround Reals List Bool String.
From ACN Require Import Base.Num Base.NumR Gen.Convert_Q Gen.Fit_R Gen.FitConst Gen.Battery_R
     Gen.Battery_Q Model.Convert Model.ConvertR Model.ConvertDeliver Proofs.Convert Proofs.ConvertFit
     Proofs.ConvertDeliver.
Import ListNotations.

(* ========================================================================================== *)
Section Sessions.
Open Scope Q_scope.

(* cap_stay max_len arr dep = dep, or arr + L when max_len = Some L and dep - arr > L
   (Proofs/Convert.v); conn_of / disc_of / kwh_of are the three components of a document. *)

(* arrival / departure are the period index (floor) of the connection / disconnection time
   minus the period index of the simulation start, for every instant since the Unix epoch;
   one EV per document, in order *)
Theorem C15_index : forall start T V maxP max_len bp ff docs evs,
  0 < T -> 0 <= start -> Forall (fun d => 0 <= conn_of d /\ 0 <= disc_of d) docs ->
  get_evs start T V maxP max_len bp ff docs = Ok evs ->
  Forall2 (fun d o =>
             ev_arrival o = (Qfloor (conn_of d / (60 * T)) - Qfloor (start / (60 * T)))%Z /\
             ev_departure o = cap_stay max_len (ev_arrival o)
                                (Qfloor (disc_of d / (60 * T)) - Qfloor (start / (60 * T)))%Z)
          docs evs.
Proof. exact get_evs_index. Qed.
Print Assumptions C15_index.

Theorem C15_one_ev_per_document : forall start T V maxP max_len bp ff docs evs,
  get_evs start T V maxP max_len bp ff docs = Ok evs -> List.length evs = List.length docs.
Proof. exact get_evs_length. Qed.
Print Assumptions C15_one_ev_per_document.

(* what `int()` does: floor from the epoch on, ceiling before it (truncation toward zero); the
   index theorem above is therefore stated for instants >= 1970-01-01T00:00:00Z *)
Theorem C15_index_kernel : forall ts T, 0 < T ->
  (0 <= ts -> DT_timestamp T false ts = Qfloor (ts / (60 * T))) /\
  (ts < 0 -> DT_timestamp T false ts = Qceiling (ts / (60 * T))) /\
  DT_timestamp T true ts = Qceiling (ts / (60 * T)).
Proof.
  intros ts T HT. split; [|split].
  - exact (DT_index ts T HT).
  - exact (DT_index_pre_epoch ts T HT).
  - exact (DT_index_round_up ts T).
Qed.
Print Assumptions C15_index_kernel.

(* departure >= arrival whenever disconnect >= connect (no assumption on the sign of the
   timestamps; max_len, if given, non-negative) *)
Theorem C15_monotone : forall start T V maxP max_len bp ff docs evs,
  0 < T -> match max_len with Some L => (0 <= L)%Z | None => True end ->
  get_evs start T V maxP max_len bp ff docs = Ok evs ->
  Forall2 (fun d o => conn_of d <= disc_of d -> (ev_arrival o <= ev_departure o)%Z) docs evs.
Proof. exact get_evs_monotone. Qed.
Print Assumptions C15_monotone.

(* order-preserving across sessions: a document that connects no later arrives no later *)
Theorem C15_order_preserving : forall start T V maxP max_len bp ff docs evs i j d1 d2 o1 o2,
  0 < T -> get_evs start T V maxP max_len bp ff docs = Ok evs ->
  nth_error docs i = Some d1 -> nth_error evs i = Some o1 ->
  nth_error docs j = Some d2 -> nth_error evs j = Some o2 ->
  conn_of d1 <= conn_of d2 -> (ev_arrival o1 <= ev_arrival o2)%Z.
Proof. exact get_evs_order. Qed.
Print Assumptions C15_order_preserving.

(* stay capped at max_len (periods on this path) *)
Theorem C15_max_len : forall start T V maxP L bp ff docs evs,
  get_evs start T V maxP (Some L) bp ff docs = Ok evs ->
  Forall (fun o => (ev_departure o - ev_arrival o <= L)%Z) evs.
Proof. exact get_evs_max_len. Qed.
Print Assumptions C15_max_len.

(* requested = delivered, or min(delivered, max_battery_power * stay * T/60) with force_feasible,
   where stay is the (capped) stay of the EV that is returned *)
Theorem C15_energy : forall start T V maxP max_len bp ff docs evs,
  get_evs start T V maxP max_len bp ff docs = Ok evs ->
  Forall2 (fun d o =>
             ev_requested o =
             if ff then Qmin (kwh_of d) (maxP * inject_Z (ev_departure o - ev_arrival o) * (T / 60))
             else kwh_of d) docs evs.
Proof. exact get_evs_energy. Qed.
Print Assumptions C15_energy.

(* without capacity_fn: capacity - initial charge = requested energy (battery starts empty);
   the Battery constructor only lets non-negative requests through *)
Theorem C15_capacity_default : forall start T V maxP max_len ff docs evs,
  get_evs start T V maxP max_len BP_default ff docs = Ok evs ->
  Forall (fun o => ev_cap o - ev_init o == ev_requested o /\ ev_init o = 0 /\ 0 <= ev_requested o) evs.
Proof. exact get_evs_default_battery. Qed.
Print Assumptions C15_capacity_default.

(* rejected input: the default battery raises ValueError exactly for a negative energy *)
Theorem C15_default_rejects_negative : forall off T V maxP max_len ff conn disc kwh s,
  convert_to_ev off T V maxP max_len BP_default ff (conn, disc, kwh) = Err s ->
  s = E_INIT /\
  (if ff then Qmin kwh (maxP * inject_Z (cap_stay max_len (DT_timestamp T false conn - off)
                                           (DT_timestamp T false disc - off)
                                         - (DT_timestamp T false conn - off)) * (T / 60)) else kwh) < 0.
Proof. exact session_default_error. Qed.
Print Assumptions C15_default_rejects_negative.

(* with capacity_fn = batt_cap_fn the battery is what the fit returns for (requested, stay) *)
Theorem C15_capacity_fit : forall start T V maxP max_len ff docs evs,
  get_evs start T V maxP max_len BP_fit ff docs = Ok evs ->
  Forall (fun o => batt_cap_fn_Q (ev_requested o) (inject_Z (ev_departure o - ev_arrival o)) V T
                   = FitOk (ev_cap o) (ev_init o) /\ ev_init o <= ev_cap o) evs.
Proof. exact get_evs_fit_battery. Qed.
Print Assumptions C15_capacity_fit.

(* ---- stochastic samples (arrival a [h], duration d [h], energy e [kWh]); cap_dur max_len d =
        min(d, max_len) with max_len in HOURS on this path ---- *)
Theorem C15_stoch_rows : forall i T V maxP max_len bp ff rows os,
  convert_ev_matrix_from i T V maxP max_len bp ff rows = Ok os ->
  map fst os = valid_indices i rows /\
  Forall2 (fun r io => stoch_convert_row T V maxP max_len bp ff r = Ok (snd io))
          (filter row_valid rows) os.
Proof. exact convert_ev_matrix_from_spec. Qed.
Print Assumptions C15_stoch_rows.

Theorem C15_stoch_invalid_iff : forall a d e,
  Stoch_invalid a d e = false <-> 0 <= a /\ 0 < d /\ 0 < e.
Proof. exact Stoch_invalid_false. Qed.
Print Assumptions C15_stoch_invalid_iff.

Theorem C15_stoch_index : forall T V maxP max_len bp ff a d e o,
  0 < T -> 0 <= a -> 0 < d -> match max_len with Some L => 0 <= L | None => True end ->
  stoch_convert_row T V maxP max_len bp ff (a, d, e) = Ok o ->
  let d' := cap_dur max_len d in
  ev_arrival o = Qfloor (a * (60 / T)) /\
  ev_departure o = Qfloor ((a + d') * (60 / T)) /\
  (ev_arrival o <= ev_departure o)%Z /\
  (ev_departure o - ev_arrival o <= Qfloor (d' * (60 / T)) + 1)%Z.
Proof. exact stoch_row_index. Qed.
Print Assumptions C15_stoch_index.

Theorem C15_stoch_max_len : forall L d, cap_dur (Some L) d <= L /\ cap_dur (Some L) d <= d.
Proof. intros L d. split; [exact (cap_dur_le L d)|exact (cap_dur_le_d (Some L) d)]. Qed.
Print Assumptions C15_stoch_max_len.

Theorem C15_stoch_energy : forall T V maxP max_len bp ff a d e o,
  stoch_convert_row T V maxP max_len bp ff (a, d, e) = Ok o ->
  ev_requested o =
  if ff then Qmin (maxP * inject_Z (ev_departure o - ev_arrival o) / Stoch_pph T) e else e.
Proof. exact stoch_row_energy. Qed.
Print Assumptions C15_stoch_energy.

(* force_feasible on the stochastic path: the request never exceeds what max_battery_power can
   deliver during the discretised stay [arrival, departure) of the EV that is returned, and is
   the sampled energy whenever that is feasible.  (Was refuted before the fix ebdc3a4, which capped
   by the sampled duration: sample (0.0 h, 0.9 h, 10 kWh), 60-min periods, 7 kW gave 6.3 kWh for a
   stay of 0 periods; the witness is kept in corpus/C15/.) *)
Theorem C15_stoch_force_feasible : forall T V maxP max_len bp a d e o,
  0 < T ->
  stoch_convert_row T V maxP max_len bp true (a, d, e) = Ok o ->
  ev_requested o <= e /\
  ev_requested o <= maxP * inject_Z (ev_departure o - ev_arrival o) * (T / 60) /\
  (e <= maxP * inject_Z (ev_departure o - ev_arrival o) * (T / 60) -> ev_requested o == e).
Proof. exact stoch_row_energy_feasible. Qed.
Print Assumptions C15_stoch_force_feasible.

(* clip_samples projects into the bounds; with the default kind of bounds (arrival_min >= 0,
   duration_min > 0, energy_min > 0) no clipped sample is skipped as invalid *)
Theorem C15_clip : forall b a d e,
  a_min b <= a_max b -> d_min b <= d_max b -> e_min b <= e_max b ->
  let '(a', d', e') := clip_row b (a, d, e) in
  a_min b <= a' <= a_max b /\ d_min b <= d' <= d_max b /\ e_min b <= e' <= e_max b.
Proof. exact clip_row_bounds. Qed.
Print Assumptions C15_clip.

Theorem C15_clip_valid : forall b a d e,
  a_min b <= a_max b -> d_min b <= d_max b -> e_min b <= e_max b ->
  0 <= a_min b -> 0 < d_min b -> 0 < e_min b ->
  let '(a', d', e') := clip_row b (a, d, e) in Stoch_invalid a' d' e' = false.
Proof. exact clip_row_valid. Qed.
Print Assumptions C15_clip_valid.

(* generate_events: day d contributes its clipped draws with the arrival shifted by 24*d hours *)
Theorem C15_stoch_day_shift : forall b d raw rest,
  day_rows b d (raw :: rest) =
  (map (fun r => let '(a, du, e) := clip_row b r in (a + 24 * inject_Z d, du, e)) raw
   ++ day_rows b (d + 1) rest)%list.
Proof. exact day_rows_cons. Qed.
Print Assumptions C15_stoch_day_shift.

(* force_feasible makes the session deliverable: with the default battery, charging flat out
   (any pilot whose power is at least max_battery_power) for every period of the stay with the
   regenerated Battery.charge fills the battery to exactly the requested energy — on both paths *)
Theorem C15_force_feasible_deliverable : forall off T V maxP max_len conn disc kwh o pilot,
  0 < T -> 0 < V -> 0 <= maxP -> maxP <= pilot * V / 1000 ->
  convert_to_ev off T V maxP max_len BP_default true (conn, disc, kwh) = Ok o ->
  (0 <= ev_departure o - ev_arrival o)%Z ->
  batt_run_Q (Z.to_nat (ev_departure o - ev_arrival o)) (ev_cap o) maxP pilot V T (ev_init o)
  == ev_requested o.
Proof. exact session_deliverable. Qed.
Print Assumptions C15_force_feasible_deliverable.

Theorem C15_stoch_force_feasible_deliverable : forall T V maxP max_len a d e o pilot,
  0 < T -> 0 < V -> 0 <= maxP -> maxP <= pilot * V / 1000 ->
  stoch_convert_row T V maxP max_len BP_default true (a, d, e) = Ok o ->
  (0 <= ev_departure o - ev_arrival o)%Z ->
  batt_run_Q (Z.to_nat (ev_departure o - ev_arrival o)) (ev_cap o) maxP pilot V T (ev_init o)
  == ev_requested o.
Proof. exact stoch_deliverable. Qed.
Print Assumptions C15_stoch_force_feasible_deliverable.

(* the hypotheses are satisfiable: two documents 5-minute periods, one capped by max_len and
   force_feasible, default battery *)
Example C15_sessions_example :
  get_evs 1541322000 5 208 7 (Some 12%Z) BP_default true
          [(1541322060, 1541329200, 10); (1541325600 + (1 # 2), 1541325900, 3)]
  = Ok [ {| ev_arrival := 0; ev_departure := 12; ev_requested := Qmin 10 (7 * inject_Z (12 - 0) * (5 / 60));
            ev_cap := Qmin 10 (7 * inject_Z (12 - 0) * (5 / 60)); ev_init := 0 |};
         {| ev_arrival := 12; ev_departure := 13; ev_requested := Qmin 3 (7 * inject_Z (13 - 12) * (5 / 60));
            ev_cap := Qmin 3 (7 * inject_Z (13 - 12) * (5 / 60)); ev_init := 0 |} ].
Proof. reflexivity. Qed.

End Sessions.

(* ========================================================================================== *)
Section Fit.
Open Scope R_scope.

(* Notation used below (all from the regenerated Gen/Fit_R.v, i.e. the current battery.py):
     Fit_max_dsoc T V cap            max SoC change per period at 32 A: 32*V/1000/cap/(60/T)
     Fit_delta_from m n ts x         delta_soc_from_init_soc(x) for max_dsoc m, stay n
     closed_form_test E n V T cap    the test `init_soc >= transition_soc` of _get_init_cap
     get_init_cap_R fuel E n V T cap _get_init_cap(cap) (fuel = recursion depth of binsearch)
     l2_run_R n cap maxP ts pilot V T noise c   stored charge after n calls of
                                     Linear2StageBattery._charge(pilot, V, T) from charge c
     fit_max_power_R V = 32*V/1000,  Fit_transition_soc = 4/5,  Fit_max_rate = 32,  tol9 = 1e-9.
   The battery charged is the one the fit is written for: max_power = 32 V/1000,
   transition_soc = 0.8, noise_level = 0 (whatever the noise draws), pilot 32 A. *)

(* closed-form branch: charging at full rate for the n periods of the stay delivers exactly the
   requested energy, and the battery holds it *)
Theorem C15_fit_closed_form : forall fuel E (n : nat) V T cap noise,
  0 < V -> 0 < T -> 0 < cap -> 0 <= E -> (0 < n)%nat ->
  closed_form_test E (INR n) V T cap = true ->
  exists init,
    get_init_cap_R fuel E (INR n) V T cap = FVR init /\
    4/5 * cap <= init /\ init + E <= cap /\
    l2_run_R n cap (fit_max_power_R V) Fit_transition_soc Fit_max_rate V T noise init - init = E.
Proof. exact fit_closed_form. Qed.
Print Assumptions C15_fit_closed_form.

(* bisection branch: terminates within S k halvings as soon as (0.2 + max_dsoc*n) < 1e-9 * 2^(S k)
   (k = 63 covers max_dsoc*n < 1.8e10) and returns x with |delta_soc_from_init_soc(x) - target| < 1e-9;
   starting from x*cap at or below the transition, n full-rate periods deliver the request
   up to 1e-9 * cap *)
Theorem C15_fit_bisect : forall k E (n : nat) V T cap,
  0 < V -> 0 < T -> 0 < cap -> 0 <= E -> (0 < n)%nat ->
  closed_form_test E (INR n) V T cap = false ->
  let m := Fit_max_dsoc T V cap in
  E / cap <= Fit_delta_from m (INR n) Fit_transition_soc 0 ->
  1/5 + m * INR n < tol9 * 2 ^ (S k) ->
  exists x,
    get_init_cap_R (S k) E (INR n) V T cap = FVR (x * cap) /\
    4/5 - m * INR n <= x <= 1 /\
    Rabs (Fit_delta_from m (INR n) Fit_transition_soc x - E / cap) < tol9 /\
    x * cap + E < cap * (1 + tol9) /\
    (x <= 4/5 -> forall noise,
       Rabs (l2_run_R n cap (fit_max_power_R V) Fit_transition_soc Fit_max_rate V T noise (x * cap)
             - x * cap - E) < tol9 * cap).
Proof. exact fit_bisect. Qed.
Print Assumptions C15_fit_bisect.

(* in particular 64 halvings suffice whenever max_dsoc * stay <= 1e9 (CPython allows ~1000) *)
Theorem C15_fit_bisect_64 : forall E (n : nat) V T cap,
  0 < V -> 0 < T -> 0 < cap -> 0 <= E -> (0 < n)%nat ->
  closed_form_test E (INR n) V T cap = false ->
  let m := Fit_max_dsoc T V cap in
  E / cap <= Fit_delta_from m (INR n) Fit_transition_soc 0 ->
  m * INR n <= 1000000000 ->
  exists x,
    get_init_cap_R 64 E (INR n) V T cap = FVR (x * cap) /\
    4/5 - m * INR n <= x <= 1 /\
    Rabs (Fit_delta_from m (INR n) Fit_transition_soc x - E / cap) < tol9.
Proof. exact fit_bisect_64. Qed.
Print Assumptions C15_fit_bisect_64.

(* the same delivery statement for whatever _get_init_cap returned (any fuel).
   _partial: the full statement has no hypothesis `init <= 4/5 * cap`; the bisection may stop at a
   point a hair above the transition, where the battery follows the other closed form. *)
Theorem C15_fit_bisect_delivers_partial : forall fuel E (n : nat) V T cap init noise,
  0 < V -> 0 < T -> 0 < cap -> 0 <= E -> (0 < n)%nat ->
  get_init_cap_R fuel E (INR n) V T cap = FVR init -> 0 <= init ->
  closed_form_test E (INR n) V T cap = false ->
  init <= 4/5 * cap ->
  Rabs (l2_run_R n cap (fit_max_power_R V) Fit_transition_soc Fit_max_rate V T noise init - init - E)
  < tol9 * cap.
Proof. exact fit_bisect_delivers. Qed.
Print Assumptions C15_fit_bisect_delivers_partial.

(* THE LAST SENTENCE OF THE PROPERTY, for whatever batt_cap_fn returns (either branch, any
   recursion depth, any ladder step): charging the fitted battery at full rate for the n periods of
   the stay delivers the requested energy — exactly in the closed-form branch (C15_fit_closed_form),
   and within 2e-9 * capacity in general (the bisection stops at |delta_soc - target| < 1e-9).
   Hypothesis max_dsoc * n >= 0.001: at full rate the stay moves the SoC by at least 0.1 %
   (used only when the bisection stops above the transition SoC). *)
Theorem C15_fit_delivers : forall fuel E (n : nat) V T cap init noise,
  0 < V -> 0 < T -> 0 <= E -> (0 < n)%nat ->
  batt_cap_fn_R fuel E (INR n) V T = FitOkR cap init ->
  1/1000 <= Fit_max_dsoc T V cap * INR n ->
  Rabs (l2_run_R n cap (fit_max_power_R V) Fit_transition_soc Fit_max_rate V T noise init - init - E)
  < 2 * tol9 * cap.
Proof. exact batt_cap_fn_delivers. Qed.
Print Assumptions C15_fit_delivers.

(* the battery returned by batt_cap_fn holds the request.
   _partial: `init + E <= cap` exactly holds in the closed-form branch (C15_fit_closed_form); in the
   bisection branch only up to the bisection tolerance 1e-9 * cap, which is what is stated. *)
Theorem C15_fit_covers_partial : forall fuel E (n : nat) V T cap init,
  0 < V -> 0 < T -> 0 <= E -> (0 < n)%nat ->
  batt_cap_fn_R fuel E (INR n) V T = FitOkR cap init ->
  In cap potential_caps_R /\ E <= cap /\ 0 <= init <= cap /\ init + E < cap * (1 + tol9) /\
  get_init_cap_R fuel E (INR n) V T cap = FVR init.
Proof. exact batt_cap_fn_ok. Qed.
Print Assumptions C15_fit_covers_partial.

(* the ladder picks the first capacity >= request whose fit succeeds (init >= 0) *)
Theorem C15_ladder : forall fuel E n V T cap init,
  batt_cap_fn_R fuel E n V T = FitOkR cap init ->
  exists pre post, potential_caps_R = (pre ++ cap :: post)%list /\
    E <= cap /\ get_init_cap_R fuel E n V T cap = FVR init /\ 0 <= init /\
    Forall (fun c => c < E \/ exists i, get_init_cap_R fuel E n V T c = FVR i /\ i < 0) pre.
Proof. exact batt_cap_fn_first. Qed.
Print Assumptions C15_ladder.

(* rejected input: ValueError("No feasible battery size found.") only when no ladder capacity
   >= request can take the request in n periods at 32 A even from empty (up to 1e-9 * cap) *)
Theorem C15_fit_rejects_only_infeasible : forall fuel E (n : nat) V T,
  0 < V -> 0 < T -> 0 <= E -> (0 < n)%nat ->
  batt_cap_fn_R fuel E (INR n) V T = FitNoneR ->
  Forall (fun cap => cap < E \/
            cap * Fit_delta_from (Fit_max_dsoc T V cap) (INR n) Fit_transition_soc 0 < E + tol9 * cap)
         potential_caps_R.
Proof. exact batt_cap_fn_none. Qed.
Print Assumptions C15_fit_rejects_only_infeasible.

(* the hypotheses of C15_fit_closed_form are satisfiable: 1 kWh in 64 five-minute periods at
   208 V with the 8 kWh step (the witness of the repaired closed-form defect) *)
Example C15_fit_closed_form_example :
  closed_form_test 1 (INR 64) 208 5 8 = true.
Proof. exact closed_form_example. Qed.

(* ... and those of C15_fit_bisect / C15_fit_bisect_64: 6 kWh in 12 five-minute periods *)
Example C15_fit_bisect_example :
  closed_form_test 6 (INR 12) 208 5 8 = false /\
  6 / 8 <= Fit_delta_from (Fit_max_dsoc 5 208 8) (INR 12) Fit_transition_soc 0 /\
  Fit_max_dsoc 5 208 8 * INR 12 <= 1000000000.
Proof. exact bisect_example. Qed.

End Fit.
