From ACN Require Import Model.Current Model.Network.
