(* Props/C12.v — constraint matrix, limits and names stay aligned under add/remove/update;
   Current algebra; subset queries; registration guard.

   Only statements, each closed by `exact <lemma>`.  Vocabulary (Model/Current.v, Model/Network.v):
     current A        ordered list of (station, coefficient) — the Series behind a Current
     coeff 0 c s      coefficient of station s in c, 0 when s is not in c
     op A             ORegister s volt angle | OAdd c limit name? | ORemove name | OUpdate name c limit new_name?
     step / run       one operation / a whole sequence on the model of ChargingNetwork (a raising operation
                      leaves the state the code leaves)
     gstep / grun     the paper book-keeping: registered stations, "a constraint was ever accepted", and the
                      live constraints (name, current, limit) in network order
     spec_err         the exception class an operation must end with, read off the book-keeping
   The network theorems hold for every coefficient type (they only need the constant 0); the algebra is
   stated for Q and for any commutative ring.  The model is tied to /repo by the correspondence run. *)
From Coq Require Import List Bool Arith ZArith QArith String Permutation Sorted Ring_theory Setoid.
From ACN Require Import Base.Num Base.ListX Model.Current Model.Network Proofs.Current Proofs.Network Proofs.NetworkMore Proofs.NetworkPhase.
Import ListNotations.
Open Scope nat_scope.

(* ===== alignment, for ALL operation sequences =====
   After any sequence of register/add/remove/update operations (failing ones included), started from a
   fresh network: the station list is the registered stations; the matrix is None until a constraint is
   accepted and afterwards has exactly one row per live constraint, row i = [coeff(current_i, station_k)]_k
   in station order; magnitudes[i] = limit_i; constraint_index[i] = name_i. *)
Theorem C12_aligned : forall (A : Type) (zero : A) (ops : list (op A)),
  let n := run zero ops net0 in
  let g := grun ops ghost0 in
  stations n = g_stations g /\
  NoDup (stations n) /\
  cmat n = (if g_ever g
            then Some (map (fun x => map (fun s => Some (coeff zero (l_cur x) s)) (stations n)) (g_live g))
            else None) /\
  mags n = map l_limit (g_live g) /\
  cnames n = map l_name (g_live g).
Proof. exact (@aligned). Qed.
Print Assumptions C12_aligned.

(* the same, entry by entry *)
Theorem C12_aligned_entry : forall (A : Type) (zero : A) (ops : list (op A)) i k x s m,
  let n := run zero ops net0 in
  let g := grun ops ghost0 in
  nth_error (g_live g) i = Some x ->          (* constraint i is (name, current, limit) = x *)
  nth_error (stations n) k = Some s ->        (* column k belongs to station s *)
  cmat n = Some m ->
  (exists row, nth_error m i = Some row /\ nth_error row k = Some (Some (coeff zero (l_cur x) s)))
  /\ nth_error (mags n) i = Some (l_limit x)
  /\ nth_error (cnames n) i = Some (l_name x).
Proof. exact (@aligned_entry). Qed.
Print Assumptions C12_aligned_entry.

(* the three arrays always have the same List.length, every row has one entry per station, no NaN hole *)
Theorem C12_aligned_lengths : forall (A : Type) (zero : A) (ops : list (op A)),
  let n := run zero ops net0 in
  List.length (mags n) = List.length (cnames n) /\
  (forall m, cmat n = Some m ->
     List.length m = List.length (cnames n) /\ forall row, In row m -> List.length row = List.length (stations n)) /\
  (cmat n = None -> cnames n = []).
Proof. exact (@aligned_lengths). Qed.
Print Assumptions C12_aligned_lengths.

(* which operations raise, and what (everything else succeeds) *)
Theorem C12_outcomes : forall (A : Type) (zero : A) (ops : list (op A)) (o : op A),
  fst (step zero o (run zero ops net0)) = spec_err o (grun ops ghost0).
Proof. exact (@outcome). Qed.
Print Assumptions C12_outcomes.

(* the order in which a Current lists its stations is irrelevant: two Currents with the same entries give
   the same outcome and the same network *)
Theorem C12_listing_order : forall (A : Type) (zero : A) (ops : list (op A)) (c c' : current A) l nm,
  cur_equiv c c' ->
  add_constraint zero c l nm (run zero ops net0) = add_constraint zero c' l nm (run zero ops net0).
Proof. exact (@listing_order). Qed.
Print Assumptions C12_listing_order.

Theorem C12_listing_order_perm : forall (A : Type) (c c' : current A),
  NoDup (keys c) -> Permutation c c' -> cur_equiv c c'.
Proof. exact (@perm_cur_equiv). Qed.
Print Assumptions C12_listing_order_perm.

(* registration order: column k is the k-th distinct station registered; a repeated registration keeps the
   station's first position and overwrites its voltage and angle (76013ed), so both arrays always have one entry
   per station *)
Theorem C12_registration_order : forall (A : Type) (zero : A) (regs : list (station * Q * Q)),
  let n := run zero (map (reg_op (A := A)) regs) net0 in
  stations n = dedup_first [] (map (fun p => fst (fst p)) regs) /\
  volts n = map (reg_volt regs) (stations n) /\        (* voltage given at the station's last registration *)
  angles n = map (reg_angle regs) (stations n) /\
  cmat n = None /\ mags n = [] /\ cnames n = [].
Proof. exact (@registration_order). Qed.
Print Assumptions C12_registration_order.

Theorem C12_arrays_aligned : forall (A : Type) (zero : A) (ops : list (op A)),
  let n := run zero ops net0 in
  List.length (volts n) = List.length (stations n) /\ List.length (angles n) = List.length (stations n).
Proof. exact (@arrays_aligned). Qed.
Print Assumptions C12_arrays_aligned.

(* update_constraint = remove + add at the end; if the new Current names an unregistered station the
   KeyError is raised after the old constraint is gone *)
Theorem C12_update_unknown_station : forall (A : Type) (zero : A) nm (c : current A) l nn (n : net A),
  nmem nm (cnames n) = true -> known (stations n) c = false ->
  update_constraint zero nm c l nn n = (Some "KeyError"%string, snd (remove_constraint nm n)).
Proof. exact (@update_unknown_station). Qed.
Print Assumptions C12_update_unknown_station.

(* an operation that raises leaves the network exactly as it was — except update_constraint with a live name,
   which has already removed the old constraint when add_constraint raises (previous theorem) *)
Theorem C12_failed_unchanged : forall (A : Type) (zero : A) (o : op A) (n : net A) e,
  fst (step zero o n) = Some e ->
  snd (step zero o n) =
  match o with
  | OUpdate nm _ _ _ => if nmem nm (cnames n) then snd (remove_constraint nm n) else n
  | _ => n
  end.
Proof. exact (@failed_unchanged). Qed.
Print Assumptions C12_failed_unchanged.

(* registration order is irrelevant: register the same stations in another order and apply the same constraint
   operations — same live constraints, names, limits and outcomes; the matrices hold the same coefficient for
   every (constraint, station) pair, only in different columns *)
Theorem C12_registration_order_irrelevant : forall (A : Type) (zero : A)
    (regs regs' : list (station * Q * Q)) (ops : list (op A)),
  NoDup (reg_ids regs) -> Permutation regs regs' -> forallb (no_register (A := A)) ops = true ->
  let n := run zero (map reg_op regs ++ ops) net0 in
  let n' := run zero (map reg_op regs' ++ ops) net0 in
  let g := grun (map reg_op regs ++ ops) (ghost0 (A := A)) in
  let g' := grun (map reg_op regs' ++ ops) (ghost0 (A := A)) in
  stations n = reg_ids regs /\ stations n' = reg_ids regs' /\
  g_live g = g_live g' /\ g_ever g = g_ever g' /\
  cnames n = cnames n' /\ mags n = mags n' /\
  (forall o, no_register o = true -> fst (step zero o n) = fst (step zero o n')) /\
  (forall m m' i k k' s,
      cmat n = Some m -> cmat n' = Some m' ->
      nth_error (stations n) k = Some s -> nth_error (stations n') k' = Some s ->
      i < List.length (cnames n) ->
      nth k (nth i m []) None = nth k' (nth i m' []) None).
Proof. exact (@registration_order_irrelevant). Qed.
Print Assumptions C12_registration_order_irrelevant.

(* ===== Current algebra ===== *)
Open Scope Q_scope.

Theorem C12_algebra_add : forall (a b : current Q) s,
  qcoeff (cur_add 0 Qplus a b) s == qcoeff a s + qcoeff b s.
Proof. exact qadd_law. Qed.
Print Assumptions C12_algebra_add.

Theorem C12_algebra_sub : forall (a b : current Q) s,
  qcoeff (cur_sub 0 Qplus Qmult (-1 # 1) a b) s == qcoeff a s - qcoeff b s.
Proof. exact qsub_law. Qed.
Print Assumptions C12_algebra_sub.

Theorem C12_algebra_scale : forall (a : current Q) k s,
  qcoeff (cur_mul Qmult a k) s == k * qcoeff a s.
Proof. exact qscale_left_law. Qed.
Print Assumptions C12_algebra_scale.

(* arbitrary nesting, INCLUDING the in-place spellings `a += b`, `a -= b`, `a *= k`.  `qceval e s` evaluates the
   tree pointwise (sum, difference, scalar multiple) on the coefficients of its leaves; `repo_inplace_mode` is
   what tools/gen_c12.py read off the class body of Current in the tree under test (it defines __iadd__ and
   __isub__ as the binary operators since a20c019, so the mode is InplaceRebind; if they are removed this theorem
   stops compiling). *)
Theorem C12_algebra : forall (e : cexpr Q) s,
  qcoeff (qdenote repo_inplace_mode e) s == qceval e s.
Proof. exact qtree_repo_law. Qed.
Print Assumptions C12_algebra.

(* why the class must define the in-place operators itself: with the operators a pandas Series inherits
   (NDFrame._inplace_method, mode InplaceReindex) the law fails — `t = Current("s0"); t += Current({"s0": 1,
   "s1": 2})` gives s1 the coefficient 0 instead of 2 (the defect repaired by a20c019; corpus/C12) *)
Theorem C12_algebra_inherited_inplace_loses_stations :
  exists (e : cexpr Q) (s : station), ~ qcoeff (qdenote InplaceReindex e) s == qceval e s.
Proof. exact inplace_refuted. Qed.
Print Assumptions C12_algebra_inherited_inplace_loses_stations.

(* in whichever mode the in-place statements run: true for every tree in which no `a += b` / `a -= b` has a
   right operand with a station the left operand lacks *)
Theorem C12_algebra_any_mode : forall m (e : cexpr Q) s,
  inplace_lossless 0 1 Qplus Qmult (-1 # 1) m e = true ->
  qcoeff (qdenote m e) s == qceval e s.
Proof. exact qtree_law. Qed.
Print Assumptions C12_algebra_any_mode.

(* the same over any commutative ring (coefficients in Z, in R, ...) *)
Theorem C12_algebra_ring :
  forall (A : Type) (rO rI : A) (radd rmul rsub : A -> A -> A) (ropp : A -> A) (req : A -> A -> Prop),
  Equivalence req -> ring_eq_ext radd rmul ropp req -> ring_theory rO rI radd rmul rsub ropp req ->
  forall m (e : cexpr A) s,
    inplace_lossless rO rI radd rmul (ropp rI) m e = true ->
    req (coeff rO (denote rO rI radd rmul (ropp rI) m e) s) (ceval rO rI radd rmul (ropp rI) e s).
Proof. exact (@alg_tree). Qed.
Print Assumptions C12_algebra_ring.

(* a Current never mentions a station its expression does not *)
Theorem C12_algebra_stations : forall m (e : cexpr Q) s,
  smem s (keys (qdenote m e)) = true -> In s (emention e).
Proof. exact (keys_mentioned 0 1 Qplus Qmult Qopp). Qed.
Print Assumptions C12_algebra_stations.

Open Scope nat_scope.

(* ===== subset queries =====
   constraint_current(X, constraints=C, time_indices=T, linear=True) on any reachable network: IndexError iff a
   time index is outside [-w, w); otherwise the outcome of the full query (TypeError before the first
   constraint, ValueError for a schedule of the wrong height) and, when that succeeds, its rows
   {i | name_i in C} in NETWORK order, each restricted to the columns T in the order given
   (negative indices count from the end, repetitions are kept). *)
Theorem C12_subset : forall (A : Type) (zero : A) (add mul : A -> A -> A) (absf : A -> A)
    (ops : list (op A)) (X : sched A) (C : option (list string)) (T : option (list Z)),
  let n := run zero ops net0 in
  constraint_current zero add mul absf X C T n =
  match sel_cols (xw X) T with
  | None => Err "IndexError"%string
  | Some js =>
      match constraint_current zero add mul absf X None None n with
      | Err e => Err e
      | Ok full =>
          Ok (map (fun i => map (fun j => nth j (nth i full []) None) js)
                  (constraint_indices C (cnames n)))
      end
  end.
Proof. exact (@subset_of_full). Qed.
Print Assumptions C12_subset.

(* the selected rows: exactly the positions whose name is requested, strictly increasing *)
Theorem C12_subset_network_order : forall (C names : list string),
  StronglySorted lt (positions_from 0 C names) /\
  forall i, In i (positions_from 0 C names) <->
            exists x, nth_error names i = Some x /\ nmem x C = true.
Proof. exact positions_network_order. Qed.
Print Assumptions C12_subset_network_order.

(* with alignment: every entry of the answer is  sum_k |coeff(current_i, station_k)| * X[k][j] *)
Theorem C12_subset_values : forall (A : Type) (zero : A) (add mul : A -> A -> A) (absf : A -> A)
    (ops : list (op A)) (X : sched A) (C : option (list string)) (T : option (list Z)),
  let n := run zero ops net0 in
  let g := grun ops (ghost0 (A := A)) in
  constraint_current zero add mul absf X C T n =
  match sel_cols (xw X) T with
  | None => Err "IndexError"%string
  | Some js =>
      if g_ever g then
        if negb (Nat.eqb (List.length (xrows X)) (List.length (stations n))) then Err "ValueError"%string
        else Ok (map (fun i =>
                   map (fun j =>
                      match nth_error (g_live g) i with
                      | Some x => Some (lin_sum zero add mul
                                          (map (fun s => absf (coeff zero (l_cur x) s)) (stations n))
                                          (column zero X j))
                      | None => Some zero      (* never: i ranges over positions of live constraints *)
                      end) js)
                 (constraint_indices C (cnames n)))
      else Err "TypeError"%string
  end.
Proof. exact (@cc_values). Qed.
Print Assumptions C12_subset_values.

(* and the registration order does not change any aggregate current: give each network the schedule rows in
   ITS station order (xf s = row of station s) and the answers agree (numbers up to ==, same exception) *)
Theorem C12_aggregate_order_irrelevant : forall (regs regs' : list (station * Q * Q)) (ops : list (op Q))
    w (xf : station -> list Q) C T,
  NoDup (reg_ids regs) -> Permutation regs regs' -> forallb (no_register (A := Q)) ops = true ->
  let n := run 0%Q (map reg_op regs ++ ops) net0 in
  let n' := run 0%Q (map reg_op regs' ++ ops) net0 in
  res_equiv (qcc (sched_for w xf (stations n)) C T n) (qcc (sched_for w xf (stations n')) C T n').
Proof. exact aggregate_order_irrelevant. Qed.
Print Assumptions C12_aggregate_order_irrelevant.

(* ===== the default, phase-aware query (linear=False) =====
   cos/sin of the registered angles are inputs `trig` (one pair per entry of _phase_angles); the answer is the
   pair (real parts, imaginary parts).  Same subset law: whenever the full query answers, the answer for (C, T) is
   its rows {i | name_i in C} in network order x columns T in the given order; otherwise the same exception. *)
Theorem C12_subset_phase : forall (A : Type) (zero : A) (add mul : A -> A -> A)
    (ops : list (op A)) (X : sched A) (C : option (list string)) (T : option (list Z)) (trig : list (A * A)),
  let n := run zero ops net0 in
  constraint_current_phase zero add mul X C T trig n =
  match sel_cols (xw X) T with
  | None => Err "IndexError"%string
  | Some js =>
      match constraint_current_phase zero add mul X None None trig n with
      | Err e => Err e
      | Ok (fre, fim) =>
          let pick full := map (fun i => map (fun j => nth j (nth i full []) None) js)
                               (constraint_indices C (cnames n)) in
          Ok (pick fre, pick fim)
      end
  end.
Proof. exact (@subset_phase_of_full). Qed.
Print Assumptions C12_subset_phase.

(* on EVERY reachable network — any registration sequence, repeated station ids included — a schedule with one
   row per station is answered (never ValueError), and entry (i, j) is
   sum_k coeff(current_i, s_k) * X[k][j] * (cos_k, sin_k) *)
Theorem C12_subset_phase_values : forall (A : Type) (zero : A) (add mul : A -> A -> A)
    (ops : list (op A)) (X : sched A) C T (trig : list (A * A)),
  let n := run zero ops net0 in
  let g := grun ops (ghost0 (A := A)) in
  List.length (xrows X) = List.length (stations n) ->
  constraint_current_phase zero add mul X C T trig n =
  match sel_cols (xw X) T with
  | None => Err "IndexError"%string
  | Some js =>
      if g_ever g then
        let entry part i j :=
          match nth_error (g_live g) i with
          | Some x => Some (lin_sum_w zero add mul (map (fun s => coeff zero (l_cur x) s) (stations n))
                                      (column zero X j) (map part trig))
          | None => Some zero
          end in
        Ok (map (fun i => map (entry fst i) js) (constraint_indices C (cnames n)),
            map (fun i => map (entry snd i) js) (constraint_indices C (cnames n)))
      else Err "TypeError"%string
  end.
Proof. exact (@ccp_values). Qed.
Print Assumptions C12_subset_phase_values.

(* ===== registration guard =====
   The code tests `self.constraint_matrix is not None`.  Once an add_constraint / update_constraint has been
   accepted — whatever happens afterwards, including the removal of every constraint — register_evse raises
   EVSERegistrationError and leaves the network exactly as it was. *)
Theorem C12_register_guard : forall (A : Type) (zero : A) (pre : list (op A)) (o : op A) (post : list (op A)) s v ph,
  is_constraint_op o = true ->
  fst (step zero o (run zero pre net0)) = None ->
  let n := run zero (pre ++ o :: post) net0 in
  register_evse s v ph n = (Some "EVSERegistrationError"%string, n).
Proof. exact (@register_guard). Qed.
Print Assumptions C12_register_guard.

(* and only then: while no add/update has been accepted (failed attempts do not count) registration succeeds *)
Theorem C12_register_open : forall (A : Type) (zero : A) (ops : list (op A)) s v ph,
  (forall pre o post, ops = pre ++ o :: post -> is_constraint_op o = true ->
                      fst (step zero o (run zero pre net0)) <> None) ->
  let n := run zero ops net0 in
  register_evse s v ph n =
  (None, match col_pos s (stations n) with
         | Some i => mkNet (stations n) (upd i v (volts n)) (upd i ph (angles n)) None (mags n) (cnames n)
         | None => mkNet (stations n ++ [s]) (volts n ++ [v]) (angles n ++ [ph]) None (mags n) (cnames n)
         end).
Proof. exact (@register_open). Qed.
Print Assumptions C12_register_open.

(* ===== JSON round trip (ChargingNetwork.from_json(net.to_json())) =====
   `json_reload lossy` models the reload; `repo_json_lossy` is read from _from_dict of the tree under test (it
   reshapes the reloaded matrix to (constraints, stations) since d5bb06b) and probed on the implementation on every run.
   Full strength: the reloaded network IS the network — also when every constraint had been removed — and every
   operation on it behaves as on the original, so all theorems above carry over to reloaded networks. *)
Theorem C12_json_roundtrip : forall (A : Type) (j : jnet A), json_reload repo_json_lossy j = j.
Proof. exact (@json_roundtrip). Qed.
Print Assumptions C12_json_roundtrip.

Theorem C12_json_roundtrip_ops : forall (A : Type) (zero : A) (n : net A) (o : op A),
  jstep zero o (json_reload repo_json_lossy (mkJ n false)) =
  (fst (step zero o n), mkJ (snd (step zero o n)) false).
Proof. exact (@json_roundtrip_ops). Qed.
Print Assumptions C12_json_roundtrip_ops.

(* why _from_dict must restore the shape: with a bare np.array(list) (the code before d5bb06b) a network whose
   constraints were all removed reloads with a matrix of shape (0,); a well-formed add_constraint then raises after the
   limit was appended — a limit without row and name (corpus/C12) *)
Theorem C12_json_lossy_reload_misaligns :
  exists (ops : list (op Q)) (o : op Q),
    let j := json_reload true (mkJ (run 0%Q ops net0) false) in
    let r := jstep 0%Q o j in
    fst (step 0%Q o (run 0%Q ops net0)) = None /\
    fst r = Some "ValueError"%string /\
    List.length (mags (jn (snd r))) = 1%nat /\ cnames (jn (snd r)) = [] /\ cmat (jn (snd r)) = Some [].
Proof. exact json_refuted. Qed.
Print Assumptions C12_json_lossy_reload_misaligns.

(* for any serialisation: the reload is the identity on every reachable network that still has a constraint or
   never had one *)
Theorem C12_json_roundtrip_any_serialisation : forall (A : Type) (zero : A) (ops : list (op A)) lossy,
  let n := run zero ops net0 in
  cnames n <> [] \/ cmat n = None ->
  json_reload lossy (mkJ n false) = mkJ n false /\
  forall o, jstep zero o (mkJ n false) = (fst (step zero o n), mkJ (snd (step zero o n)) false).
Proof. exact (@json_roundtrip_identity). Qed.
Print Assumptions C12_json_roundtrip_any_serialisation.

(* ===== non-vacuity: a concrete history =====
   stations registered in the order 5, 2, 9 (2 twice); constraints "pod" = 1*s2 + 1*s9 (listed 9 first),
   default-named 0.5*s5 - s2, a second "pod" (filed as "pod_v2"), "pod" removed, "pod_v2" updated. *)
Open Scope Q_scope.
Definition ex_ops : list (op Q) :=
  [ ORegister 5%nat 208 30; ORegister 2%nat 208 (-30); ORegister 2%nat 240 0; ORegister 9%nat 208 150;
    OAdd (qdenote InplaceReindex (EList [9; 2]%nat)) 32 (Some "pod"%string);
    ORegister 7%nat 208 0;
    OAdd (qdenote InplaceReindex (ESub (ERmul (1 # 2) (EStr 5%nat)) (EStr 2%nat))) 20 None;
    OAdd (qdenote InplaceReindex (EStr 5%nat)) 10 (Some "pod"%string);
    ORemove "pod"%string;
    OAdd (qdenote InplaceReindex (EStr 4%nat)) 10 None;
    OUpdate "pod_v2"%string (qdenote InplaceReindex (EDict [(9%nat, 3); (5%nat, -2)])) 11 None ].

Example C12_aligned_example :
  let n := run 0 ex_ops net0 in
  stations n = [5; 2; 9]%nat /\
  cnames n = ["_const_1"; "pod_v2"]%string /\
  list_eqb Qeq_bool (mags n) [20; 11] = true /\
  option_eqb (list_eqb (list_eqb (option_eqb Qeq_bool))) (cmat n)
     (Some [[Some (1 # 2); Some (-1 # 1); Some 0]; [Some (-2 # 1); Some 0; Some 3]]) = true /\
  map (fun o => spec_err o (grun ex_ops ghost0))
      [ORegister 1%nat 1 1; ORemove "pod"%string; OAdd [(4%nat, 1)] 1 None] =
  [Some "EVSERegistrationError"; Some "KeyError"; Some "KeyError"]%string.
Proof. vm_compute. repeat split. Qed.

Example C12_subset_example :
  qcc (mkSched 3 [[1; 2; 3]; [10; 20; 30]; [100; 200; 300]]) (Some ["pod_v2"; "zz"; "_const_1"]%string)
      (Some [-1; 0; 0]%Z) (run 0 ex_ops net0)
  = Ok [[Some ((1 # 2) * 3 + 1 * 30 + 0 * 300 + 0); Some ((1 # 2) * 1 + 1 * 10 + 0 * 100 + 0);
         Some ((1 # 2) * 1 + 1 * 10 + 0 * 100 + 0)];
        [Some (2 * 3 + 0 * 30 + 3 * 300 + 0); Some (2 * 1 + 0 * 10 + 3 * 100 + 0);
         Some (2 * 1 + 0 * 10 + 3 * 100 + 0)]].
Proof. vm_compute. reflexivity. Qed.

Example C12_algebra_any_mode_example :
  inplace_lossless 0 1 Qplus Qmult (-1 # 1) InplaceReindex
    (EIadd (EDict [(1%nat, 1); (2%nat, 0)]) (ERmul 3 (EStr 2%nat))) = true.
Proof. reflexivity. Qed.

(* observation (not a violation of alignment): the "_v2" renaming is applied once and not re-checked, so names
   can repeat; remove_constraint then deletes the first one and a subset query returns both rows *)
Example C12_duplicate_names_example :
  let ops := [ ORegister 1%nat 208 0;
               OAdd [(1%nat, 1)] 10 (Some "a"%string); OAdd [(1%nat, 2)] 20 (Some "a"%string);
               OAdd [(1%nat, 3)] 30 (Some "a"%string) ] in
  cnames (run 0 ops net0) = ["a"; "a_v2"; "a_v2"]%string /\
  qcc (mkSched 1 [[1]]) (Some ["a_v2"]%string) None (run 0 ops net0) = Ok [[Some (2 * 1 + 0)]; [Some (3 * 1 + 0)]] /\
  cnames (run 0 (ops ++ [ORemove "a_v2"%string]) net0) = ["a"; "a_v2"]%string /\
  list_eqb Qeq_bool (mags (run 0 (ops ++ [ORemove "a_v2"%string]) net0)) [10; 30] = true.
Proof. vm_compute. repeat split. Qed.

(* the history that used to break the default query (a station id registered twice; repaired by 76013ed) *)
Example C12_reregistration_example :
  let n := run 0 rereg_ops net0 in
  stations n = [1; 2]%nat /\
  list_eqb Qeq_bool (volts n) [240; 208] = true /\ list_eqb Qeq_bool (angles n) [150; -30] = true /\
  qcc rereg_X None None n = Ok [[Some (1 * 10 + (1 * 5 + 0)); Some (1 * 10 + (1 * 5 + 0))]] /\
  (exists re im, qccp rereg_X None None rereg_trig n = Ok (re, im) /\
     qmatrix_eqb re [[Some (-433 # 100); Some (-433 # 100)]] = true /\
     qmatrix_eqb im [[Some (5 # 2); Some (5 # 2)]] = true).
Proof. exact rereg_example. Qed.
