(* Model/Sites.v — boolean structure checker for the dumped predefined sites (Gen/Sites.v,
   regenerated on every run by executing caltech_acn / jpl_acn / office001_acn), and the
   networks (Q for execution, R for the theorems) those dumps denote.  Definitions only. *)
From Coq Require Import String ZArith QArith Qminmax Qabs Reals List Bool Arith.
From ACN Require Import Base.Num Base.NumR Model.Feasible Gen.Sites.
From ACN Require Gen.SiteLim_Q Gen.SiteLim_R.
Import ListNotations.
Open Scope Q_scope.

Definition qeq (a b : Q) : bool := Qeq_bool a b.
Definition memb (i : nat) (l : list nat) : bool := existsb (Nat.eqb i) l.
Definition site_row (s : site) (j : nat) : list Q := nth j (s_rows s) [].
Definition site_limit (s : site) (j : nat) : Q := nth j (s_limits s) 0.
Definition n_site_stations (s : site) : nat := length (s_phases s).
Definition n_site_rows (s : site) : nat := length (s_rows s).

(* the three line-to-line phase groups *)
Inductive lgroup := AB | BC | CA.
Definition phase_group (p : Q) : option lgroup :=
  if qeq p 30 then Some AB else if qeq p (-90) then Some BC else if qeq p 150 then Some CA else None.

(* delta connection: coefficients of a station of the given group in the secondary line
   currents  Ia = I_AB - I_CA,  Ib = I_BC - I_AB,  Ic = I_CA - I_BC *)
Definition delta_ok (p a b c : Q) : bool :=
  match phase_group p with
  | Some AB => qeq a 1 && qeq b (-1) && qeq c 0
  | Some BC => qeq a 0 && qeq b 1 && qeq c (-1)
  | Some CA => qeq a (-1) && qeq b 0 && qeq c 1
  | None => false
  end.
Definition zero3 (a b c : Q) : bool := qeq a 0 && qeq b 0 && qeq c 0.

(* members follow the delta pattern, everybody else has coefficient 0; all lists of one length *)
Fixpoint delta_rows_ok (ph a b c : list Q) (mem : list bool) : bool :=
  match ph, a, b, c, mem with
  | p :: ph', x :: a', y :: b', z :: c', m :: mem' =>
      (if m then delta_ok p x y z else zero3 x y z) && delta_rows_ok ph' a' b' c' mem'
  | [], [], [], [], [] => true
  | _, _, _, _, _ => false
  end.

Definition member_flags (N : nat) (members : list nat) : list bool :=
  map (fun i => memb i members) (seq 0 N).

Definition site_formula (kind : nat) (cap : Q) : Q :=
  match kind with
  | O => SiteLim_Q.Caltech_secondary cap
  | S O => SiteLim_Q.Jpl_secondary cap
  | _ => SiteLim_Q.Office_secondary cap
  end.

Definition eps50 : Q := 1 # 1125899906842624.    (* 2^-50 *)

Definition check_transformer (s : site) (tr : transformer) : bool :=
  let N := n_site_stations s in
  let M := n_site_rows s in
  let L := site_limit s (t_a tr) in
  Nat.ltb (t_a tr) M && Nat.ltb (t_b tr) M && Nat.ltb (t_c tr) M
  && Nat.eqb (length (s_limits s)) M
  && forallb (fun i => Nat.ltb i N) (t_members tr)
  && delta_rows_ok (s_phases s) (site_row s (t_a tr)) (site_row s (t_b tr)) (site_row s (t_c tr))
                   (member_flags N (t_members tr))
  && qeq (site_limit s (t_b tr)) L && qeq (site_limit s (t_c tr)) L
  && Qleb 0 L            (* a capacity of 0 kW is legal: the limit is then 0 A *)
  (* three secondary phases at 120 V line-to-neutral carry at most the rated capacity *)
  && Qleb (3 * 120 * L) (1000 * t_cap tr * (1 + eps50))
  (* and the limit is at most the (regenerated) formula of the factory evaluated at that capacity *)
  && Qleb L (site_formula (s_kind s) (t_cap tr) * (1 + eps50)).

(* pod: a 0/1 indicator row over stations of one phase group *)
Fixpoint pod_row_ok (g : Q) (ph a : list Q) : bool :=
  match ph, a with
  | p :: ph', x :: a' => (qeq x 0 || (qeq x 1 && qeq p g)) && pod_row_ok g ph' a'
  | [], [] => true
  | _, _ => false
  end.
Definition nonzero_flags (a : list Q) : list bool := map (fun x => negb (qeq x 0)) a.
Definition check_pod (s : site) (pd : nat * Q * list nat) : bool :=
  let '(j, rating, members) := pd in
  Nat.ltb j (n_site_rows s) && Nat.eqb (length (s_limits s)) (n_site_rows s) && Qltb 0 (site_limit s j)
  && existsb (fun g => pod_row_ok g (s_phases s) (site_row s j)) [30; -90; 150]
  (* the row constrains exactly the documented stations, to at most the documented rating *)
  && list_eqb Bool.eqb (nonzero_flags (site_row s j)) (member_flags (n_site_stations s) members)
  && Qleb (site_limit s j) rating.

(* sub-panel: three line-current rows (delta pattern over the panel's own stations) *)
Definition panel_flags (a b c : list Q) : list bool :=
  map (fun t => negb (zero3 (fst (fst t)) (snd (fst t)) (snd t))) (combine (combine a b) c).
Definition check_panel (s : site) (pn : (nat * nat * nat) * Q * list nat) : bool :=
  let '((ja, jb, jc), rating, members) := pn in
  let M := n_site_rows s in
  list_eqb Bool.eqb (panel_flags (site_row s ja) (site_row s jb) (site_row s jc))
           (member_flags (n_site_stations s) members)
  && Qleb (site_limit s ja) rating &&
  Nat.ltb ja M && Nat.ltb jb M && Nat.ltb jc M
  && Nat.eqb (length (s_limits s)) M
  && delta_rows_ok (s_phases s) (site_row s ja) (site_row s jb) (site_row s jc)
                   (panel_flags (site_row s ja) (site_row s jb) (site_row s jc))
  && qeq (site_limit s jb) (site_limit s ja) && qeq (site_limit s jc) (site_limit s ja)
  && Qltb 0 (site_limit s ja).

(* primary rows: (1/4) (Ia - Ic), (1/4) (Ib - Ia), (1/4) (Ic - Ib) of the transformer's secondary rows *)
Definition check_primary (s : site) (p : (nat * nat * nat) * nat) : bool :=
  let '((pa, pb, pc), k) := p in
  let M := n_site_rows s in
  match nth_error (s_transformers s) k with
  | None => false
  | Some tr =>
      Nat.ltb pa M && Nat.ltb pb M && Nat.ltb pc M
      && forallb (fun i =>
           let a := nth i (site_row s (t_a tr)) 0 in
           let b := nth i (site_row s (t_b tr)) 0 in
           let c := nth i (site_row s (t_c tr)) 0 in
           qeq (4 * nth i (site_row s pa) 0) (a - c)
           && qeq (4 * nth i (site_row s pb) 0) (b - a)
           && qeq (4 * nth i (site_row s pc) 0) (c - b)) (seq 0 (n_site_stations s))
      && qeq (site_limit s pb) (site_limit s pa) && qeq (site_limit s pc) (site_limit s pa)
      && Qleb 0 (site_limit s pa)
  end.

Definition check_phases (s : site) : bool :=
  forallb (fun p => match phase_group p with Some _ => true | None => false end) (s_phases s).

(* every station hangs behind some transformer *)
Definition check_covered (s : site) : bool :=
  forallb (fun i => existsb (fun tr => memb i (t_members tr)) (s_transformers s))
          (seq 0 (n_site_stations s)).

Definition classified_rows (s : site) : list nat :=
  flat_map (fun tr => [t_a tr; t_b tr; t_c tr]) (s_transformers s)
  ++ flat_map (fun p => let '((a, b, c), _) := p in [a; b; c]) (s_primaries s)
  ++ flat_map (fun p => let '((a, b, c), _, _) := p in [a; b; c]) (s_panels s)
  ++ map (fun p => fst (fst p)) (s_pods s).

Definition check_shape (s : site) : bool :=
  let N := n_site_stations s in
  let M := n_site_rows s in
  Nat.eqb (length (s_limits s)) M
  && Nat.eqb (length (s_voltages s)) N && Nat.eqb (length (s_cis s)) N
  && forallb (fun r => Nat.eqb (length r) N) (s_rows s)
  && match s_unknown s with [] => true | _ => false end
  (* every row is classified exactly once *)
  && forallb (fun j => Nat.eqb (count_occ Nat.eq_dec (classified_rows s) j) 1) (seq 0 M)
  && Nat.eqb (length (classified_rows s)) M
  && negb (Nat.eqb (length (s_transformers s)) 0).

Definition check_site (s : site) : bool :=
  check_shape s && check_phases s && check_covered s
  && forallb (check_transformer s) (s_transformers s)
  && forallb (check_pod s) (s_pods s)
  && forallb (check_panel s) (s_panels s)
  && forallb (check_primary s) (s_primaries s).

(* the wiring does not depend on the capacity parameters or on the EVSE type *)
Definition tr_same (t1 t2 : transformer) : bool :=
  Nat.eqb (t_a t1) (t_a t2) && Nat.eqb (t_b t1) (t_b t2) && Nat.eqb (t_c t1) (t_c t2)
  && list_eqb Nat.eqb (t_members t1) (t_members t2).
Definition same_structure (s1 s2 : site) : bool :=
  list_eqb qeq (s_phases s1) (s_phases s2)
  && list_eqb (list_eqb qeq) (s_rows s1) (s_rows s2)
  && list_eqb tr_same (s_transformers s1) (s_transformers s2)
  && list_eqb Nat.eqb (map (fun p => fst (fst p)) (s_pods s1)) (map (fun p => fst (fst p)) (s_pods s2)).
Definition check_family (l : list site) : bool :=
  match l with
  | [] => false
  | s0 :: _ => forallb check_site l && forallb (same_structure s0) l
  end.

(* ------------------------------------------------------------------ the networks *)
Definition site_net_Q (s : site) : network QF :=
  Build_network QF (Some (s_rows s)) (s_limits s) (s_cis s) (s_vt s) (s_rt s).

Definition site_net_R (s : site) : network RF :=
  Build_network RF (Some (map (map Q2R) (s_rows s))) (map Q2R (s_limits s))
                (map cis_deg (map Q2R (s_phases s))) (Q2R (s_vt s)) (Q2R (s_rt s)).

(* selected stations of one line-to-line group *)
Definition in_group (G : lgroup) (p : Q) : bool :=
  match phase_group p, G with
  | Some AB, AB => true | Some BC, BC => true | Some CA, CA => true
  | _, _ => false
  end.
Definition gflags (G : lgroup) (ph : list Q) (mem : list bool) : list bool :=
  zipw (fun p m => m && in_group G p) ph mem.

(* sum over the selected stations of X_it *)
Fixpoint sum_sel (sel : list bool) (X : list (list R)) (t : nat) : R :=
  match sel, X with
  | b :: sel', r :: X' => ((if b then nth t r 0 else 0) + sum_sel sel' X' t)%R
  | _, _ => 0%R
  end.
Definition station_sum (s : site) (members : list nat) (X : list (list R)) (t : nat) : R :=
  sum_sel (member_flags (n_site_stations s) members) X t.
Definition row_sum (s : site) (j : nat) (X : list (list R)) (t : nat) : R :=
  sum_sel (nonzero_flags (site_row s j)) X t.

(* ------------------------------------------------------------------ correspondence (Q) *)
Fixpoint qsum_sel (sel : list bool) (V : list Q) (X : list (list Q)) (t : nat) : Q :=
  match sel, V, X with
  | b :: sel', v :: V', r :: X' => (if b then v * nth t r 0 else 0) + qsum_sel sel' V' X' t
  | _, _, _ => 0
  end.

Record c16case := {
  k_site : site;
  k_T : nat;
  k_X : list (list Q);
  (* recorded from the implementation *)
  j_feasible : bool;                 (* network.is_feasible(X) *)
  j_feasible_lin : bool;             (* network.is_feasible(X, linear=True) *)
  j_iface : option bool;             (* Interface.is_feasible({station id: row}) on a Simulator+Interface of the site *)
  j_alg : bool;                      (* utils.infrastructure_constraints_feasible(X, interface.infrastructure_info()), N x T matrix *)
  j_reload : bool;                   (* ChargingNetwork.from_json(network.to_json()).is_feasible(X) *)
  j_reload_iface : option bool;      (* Interface.is_feasible({station id: row}) on the reloaded network *)
  j_power : list Q                   (* per transformer: sum over the stations behind it of V_i * X_i0 *)
}.

Definition check_c16 (c : c16case) : bool :=
  let s := k_site c in
  Bool.eqb (net_is_feasible QF (site_net_Q s) (k_X c) (k_T c) false None None) (j_feasible c)
  && Bool.eqb (net_is_feasible QF (site_net_Q s) (k_X c) (k_T c) true None None) (j_feasible_lin c)
  (* through the Interface: the mapping {station i: row i} of ALL stations, by station id *)
  && (let m := combine (seq 0 (length (k_X c))) (k_X c) in
      let want := iface_is_feasible QF (site_net_Q s) m false None None in
      let agrees o := match want, o with
                      | Ok b, Some b' => Bool.eqb b b'
                      | Err _, None => true
                      | _, _ => false
                      end in
      agrees (j_iface c) && agrees (j_reload_iface c))
  (* the algorithm-side check on the site's InfrastructureInfo (default call, as the algorithms use it) *)
  && (match infrastructure_info QF (site_net_Q s) with
      | Ok inf => Bool.eqb (alg_is_feasible_default QF inf (k_X c) (k_T c) false) (j_alg c)
      | Err _ => false
      end)
  (* a network reloaded from its own JSON answers like the original *)
  && Bool.eqb (net_is_feasible QF (site_net_Q s) (k_X c) (k_T c) false None None) (j_reload c)
  && list_eqb Qclose
       (map (fun tr => qsum_sel (member_flags (n_site_stations s) (t_members tr)) (s_voltages s) (k_X c) 0)
            (s_transformers s))
       (j_power c).
