(* Model/Client.v — executable model of acnportal/acndata/data_client.py (get_sessions,
   get_sessions_by_time) and acndata/utils.py (http_date, parse_http_date, parse_dates).
   Definitions only.

   * Instants are integer seconds of wall-clock time since the fictitious midnight of proleptic ordinal 0
     (Base/Calendar.v):  t = toordinal * 86400 + second_of_day.  POSIX time = t - 719163 * 86400.
   * An aware datetime is (local wall-clock seconds, utc offset seconds, zone name); its instant is
     local - offset, exactly as CPython computes `.timestamp()` / comparisons of aware datetimes.
   * A time zone is an oracle: zone name -> (UTC instant -> offset).  pytz's tables are not modelled.
   * RFC-1123 strings are real strings.  http_date's text is produced by interpreting the format strings
     regenerated from utils.py (strftime directives %a %d %b %H %M %S %Y as the C library renders them, the year
     through the regenerated "%04d"); strptime's "%Y" needs exactly four digits.  The parser is *strict*: it accepts exactly the canonical
     layout "Www, DD Mmm YYYY HH:MM:SS GMT" (any of the seven day names, not cross-checked against the date,
     as in strptime).  strptime's extra leniencies (case-insensitive names, one-digit fields, runs of blanks)
     are outside the model: neither http_date nor the API produces such strings.
   * The server is the finite list of responses it gives, one per request, in order (so stateful servers are
     covered); a response is a page = (items, optional next href). *)
From Coq Require Import ZArith QArith List Bool String Ascii.
From ACN Require Import Base.Num Base.Calendar Gen.ClientShape.
Import ListNotations.
Open Scope string_scope.

(* ------------------------------------------------------------------ strings *)
Fixpoint join (sep : string) (l : list string) : string :=
  match l with
  | [] => ""
  | [x] => x
  | x :: r => x ++ sep ++ join sep r
  end.

(* s with the prefix p removed, if s starts with p *)
Fixpoint strip_prefix (p s : string) : option string :=
  match p with
  | EmptyString => Some s
  | String c p' =>
      match s with
      | String c' s' => if Ascii.eqb c c' then strip_prefix p' s' else None
      | EmptyString => None
      end
  end.

(* index of the first name that s starts with, and the rest *)
Fixpoint take_name (names : list string) (i : nat) (s : string) : option (nat * string) :=
  match names with
  | [] => None
  | nm :: rest =>
      match strip_prefix nm s with
      | Some r => Some (i, r)
      | None => take_name rest (S i) s
      end
  end.

Definition digit (n : Z) : ascii := ascii_of_nat (48 + Z.to_nat n).
Definition digit_val (c : ascii) : option Z :=
  let n := nat_of_ascii c in
  if (48 <=? n)%nat && (n <=? 57)%nat then Some (Z.of_nat n - 48)%Z else None.

(* exactly k decimal digits *)
Fixpoint take_dec (k : nat) (acc : Z) (s : string) : option (Z * string) :=
  match k with
  | O => Some (acc, s)
  | S k' =>
      match s with
      | String c s' =>
          match digit_val c with
          | Some v => take_dec k' (10 * acc + v)%Z s'
          | None => None
          end
      | EmptyString => None
      end
  end.

Definition dec2 (n : Z) : string := String (digit (n / 10)) (String (digit (n mod 10)) "").

(* "%Y" of the C library for years 1..9999: plain decimal, no padding *)
Definition dec_year (y : Z) : string :=
  if (y <? 10)%Z then String (digit y) ""
  else if (y <? 100)%Z then dec2 y
  else if (y <? 1000)%Z then String (digit (y / 100)) (dec2 (y mod 100))
  else dec2 (y / 100) ++ dec2 (y mod 100).

Definition day_names : list string := ["Mon"; "Tue"; "Wed"; "Thu"; "Fri"; "Sat"; "Sun"].
Definition month_names : list string :=
  ["Jan"; "Feb"; "Mar"; "Apr"; "May"; "Jun"; "Jul"; "Aug"; "Sep"; "Oct"; "Nov"; "Dec"].

Definition dec4 (y : Z) : string := dec2 (y / 100) ++ dec2 (y mod 100).

(* ------------------------------------------------------------------ RFC 1123 <-> instants (UTC) *)
Definition min_t : Z := 86400.                       (* 0001-01-01 00:00:00 *)
Definition max_t : Z := 3652060 * 86400 - 1.         (* 9999-12-31 23:59:59 *)
Definition in_range (t : Z) : bool := (min_t <=? t)%Z && (t <=? max_t)%Z.

(* one strftime directive for the UTC datetime with instant t (C locale, glibc: %Y is not padded) *)
Definition directive (c : ascii) (t : Z) : string :=
  let n := ord_of t in
  let '(y, m, d) := civil n in
  if Ascii.eqb c "a" then nth (Z.to_nat (weekday n)) day_names ""
  else if Ascii.eqb c "d" then dec2 d
  else if Ascii.eqb c "b" then nth (Z.to_nat (m - 1)) month_names ""
  else if Ascii.eqb c "Y" then dec_year y
  else if Ascii.eqb c "H" then dec2 (hour_of t)
  else if Ascii.eqb c "M" then dec2 (minute_of t)
  else if Ascii.eqb c "S" then dec2 (second_of t)
  else if Ascii.eqb c "%" then "%"
  else "?".

(* datetime.strftime(fmt) *)
Fixpoint strftime (fmt : string) (t : Z) : string :=
  match fmt with
  | EmptyString => ""
  | String c rest =>
      if Ascii.eqb c "%" then
        match rest with
        | String k rest' => directive k t ++ strftime rest' t
        | EmptyString => "%"
        end
      else String c (strftime rest t)
  end.

(* fmt % year for the two integer formats that can occur *)
Definition format_year (fmt : string) (y : Z) : string :=
  if String.eqb fmt "%04d" then dec4 y
  else if String.eqb fmt "%d" then dec_year y
  else "?".

(* the text http_date builds for the UTC datetime with instant t:
   utc.strftime(K_strftime_prefix) + K_year_format % utc.year + utc.strftime(K_strftime_suffix) *)
Definition rfc1123 (t : Z) : string :=
  strftime K_strftime_prefix t ++ format_year K_year_format (year_of (ord_of t)) ++ strftime K_strftime_suffix t.

Definition obind {A B} (o : option A) (f : A -> option B) : option B :=
  match o with Some a => f a | None => None end.

(* datetime.strptime(s, "%a, %d %b %Y %H:%M:%S GMT") as a UTC instant; None = ValueError *)
Definition parse_rfc1123 (s : string) : option Z :=
  obind (take_name day_names 0 s) (fun '(_, s) =>
  obind (strip_prefix ", " s) (fun s =>
  obind (take_dec 2 0 s) (fun '(d, s) =>
  obind (strip_prefix " " s) (fun s =>
  obind (take_name month_names 0 s) (fun '(mi, s) =>
  obind (strip_prefix " " s) (fun s =>
  obind (take_dec 4 0 s) (fun '(y, s) =>
  obind (strip_prefix " " s) (fun s =>
  obind (take_dec 2 0 s) (fun '(h, s) =>
  obind (strip_prefix ":" s) (fun s =>
  obind (take_dec 2 0 s) (fun '(mn, s) =>
  obind (strip_prefix ":" s) (fun s =>
  obind (take_dec 2 0 s) (fun '(sc, s) =>
  obind (strip_prefix " GMT" s) (fun s =>
  match s with
  | EmptyString =>
      let m := (Z.of_nat mi + 1)%Z in
      if (1 <=? y)%Z && valid_date y m d && (h <=? 23)%Z && (mn <=? 59)%Z && (sc <=? 59)%Z
      then Some (ordinal y m d * 86400 + h * 3600 + mn * 60 + sc)%Z
      else None
  | _ => None
  end)))))))))))))).

(* ------------------------------------------------------------------ aware datetimes, zones *)
Record aware := { a_local : Z; a_off : Z; a_zone : string }.
Definition instant (a : aware) : Z := (a_local a - a_off a)%Z.

Definition zone := Z -> Z.                           (* UTC instant -> utc offset in seconds *)
Definition tzdb := string -> option zone.            (* pytz.timezone(name) *)

(* dt.astimezone(tz) of the UTC datetime with instant u *)
Definition astimezone (zname : string) (z : zone) (u : Z) : res aware :=
  let off := z u in
  if in_range (u + off) then Ok {| a_local := u + off; a_off := off; a_zone := zname |}
  else Err "OverflowError".

(* utils.parse_http_date(ds, tz) *)
Definition parse_http_date (zname : string) (z : zone) (ds : string) : res aware :=
  match parse_rfc1123 ds with
  | None => Err "ValueError"
  | Some u => astimezone zname z u
  end.

(* utils.http_date(dt) for an aware dt *)
Definition http_date (a : aware) : res string :=
  if in_range (instant a) then Ok (rfc1123 (instant a)) else Err "OverflowError".

(* ------------------------------------------------------------------ documents, parse_dates *)
Inductive jv :=
| JStr (s : string)
| JOpaque (k : Z)                  (* any other JSON value; k identifies it *)
| JSeries (ts : list string)       (* a dict with a "timestamps" list (other keys are opaque) *)
| JDate (a : aware)                (* after conversion *)
| JSeriesP (l : list aware).

Definition doc := list (string * jv).

Fixpoint dlookup (k : string) (d : doc) : option jv :=
  match d with
  | [] => None
  | (k', v) :: r => if String.eqb k k' then Some v else dlookup k r
  end.

Fixpoint conv_series (zname : string) (z : zone) (ts : list string) : res (list aware) :=
  match ts with
  | [] => Ok []
  | s :: r => res_bind (parse_http_date zname z s) (fun a => res_map (cons a) (conv_series zname z r))
  end.

(* one field: strings that parse become datetimes (ValueError is swallowed, anything else propagates);
   time series are converted element-wise (every error propagates) *)
Definition conv_field (zname : string) (z : zone) (v : jv) : res jv :=
  match v with
  | JStr s =>
      match parse_rfc1123 s with
      | None => Ok v
      | Some u => res_map JDate (astimezone zname z u)
      end
  | JSeries ts => res_map JSeriesP (conv_series zname z ts)
  | _ => Ok v
  end.

Fixpoint conv_fields (zname : string) (z : zone) (d : doc) : res doc :=
  match d with
  | [] => Ok []
  | (k, v) :: r =>
      res_bind (conv_field zname z v) (fun v' => res_map (cons (k, v')) (conv_fields zname z r))
  end.

Definition parse_dates (tz : tzdb) (d : doc) : res doc :=
  match dlookup "timezone" d with
  | Some (JStr zname) =>
      match tz zname with
      | Some z => conv_fields zname z d
      | None => Err "UnknownTimeZoneError"
      end
  | Some _ => Err "UnknownTimeZoneError"
  | None => Err "KeyError"
  end.

(* ------------------------------------------------------------------ get_sessions *)
Record page := { p_items : list doc; p_next : option string }.

Record query := {
  q_site : string;
  q_cond : option string;
  q_project : option string;
  q_sort : option string;
  q_timeseries : bool
}.

(* the K_* literals are regenerated from data_client.py / utils.py on every run (Gen/ClientShape.v) *)
Definition valid_site (s : string) : bool := existsb (String.eqb s) K_valid_sites.

Definition opt_arg (prefix : string) (v : option string) : list string :=
  match v with Some x => [prefix ++ x] | None => [] end.

Definition query_args (q : query) : list string :=
  opt_arg K_arg_cond (q_cond q) ++ opt_arg K_arg_project (q_project q) ++ opt_arg K_arg_sort (q_sort q)
  ++ [K_arg_max_results ++ (if q_timeseries q then K_limit_ts else K_limit)].

Definition first_url (base : string) (q : query) : string :=
  base ++ K_endpoint ++ q_site q ++ (if q_timeseries q then K_ts_suffix else "") ++ K_query_mark
  ++ join K_arg_sep (query_args q).

(* the format both utils functions are expected to use; rfc1123 / parse_rfc1123 below implement it *)
Definition rfc1123_format : string := "%a, %d %b %Y %H:%M:%S GMT".

Inductive outcome := Done | Raised (e : string) | Suspended.   (* Suspended: the consumer stopped calling next() *)

Record trace := {
  t_requests : list string;          (* URLs passed to requests.get, in order *)
  t_yielded : list doc;              (* documents yielded, converted, in order *)
  t_outcome : outcome
}.

(* convert and yield the items of a page; an exception in parse_dates ends the generator *)
Fixpoint yield_items (tz : tzdb) (items : list doc) : list doc * option string :=
  match items with
  | [] => ([], None)
  | d :: r =>
      match parse_dates tz d with
      | Err e => ([], Some e)
      | Ok d' => let '(ys, e) := yield_items tz r in (d' :: ys, e)
      end
  end.

(* the `while True` loop: pg is the payload in hand, rest the responses the server will still give *)
Fixpoint consume (tz : tzdb) (base : string) (pg : page) (rest : list page) : trace :=
  let '(ys, e) := yield_items tz (p_items pg) in
  match e with
  | Some err => {| t_requests := []; t_yielded := ys; t_outcome := Raised err |}
  | None =>
      match p_next pg with
      | None => {| t_requests := []; t_yielded := ys; t_outcome := Done |}
      | Some href =>
          match rest with
          | [] => {| t_requests := [base ++ href]; t_yielded := ys; t_outcome := Raised "transport" |}
          | pg' :: rest' =>
              let tr := consume tz base pg' rest' in
              {| t_requests := (base ++ href) :: t_requests tr; t_yielded := ys ++ t_yielded tr;
                 t_outcome := t_outcome tr |}
          end
      end
  end.

(* list(DataClient(token, base).get_sessions(...)) against a server answering `responses` *)
Definition get_sessions (tz : tzdb) (base : string) (q : query) (responses : list page) : trace :=
  if valid_site (q_site q) then
    match responses with
    | [] => {| t_requests := [first_url base q]; t_yielded := []; t_outcome := Raised "transport" |}
    | pg :: rest =>
        let tr := consume tz base pg rest in
        {| t_requests := first_url base q :: t_requests tr; t_yielded := t_yielded tr;
           t_outcome := t_outcome tr |}
    end
  else {| t_requests := []; t_yielded := []; t_outcome := Raised K_site_error |}.

(* ---- lazy consumption: the consumer calls next() at most k times, then closes the generator.
   Nothing runs before the first next() (not even the site check), and after the k-th yield the generator is
   suspended at its `yield`: no further document is converted and no further request is made. *)
Fixpoint items_k (tz : tzdb) (items : list doc) (k : nat) : list doc * option string * nat :=
  match k with
  | O => ([], None, O)
  | S k' =>
      match items with
      | [] => ([], None, k)
      | d :: r =>
          match parse_dates tz d with
          | Err e => ([], Some e, k)
          | Ok d' => let '(ys, e, kk) := items_k tz r k' in (d' :: ys, e, kk)
          end
      end
  end.

Fixpoint consume_k (tz : tzdb) (base : string) (pg : page) (rest : list page) (k : nat) : trace :=
  let '(ys, e, kk) := items_k tz (p_items pg) k in
  match e with
  | Some err => {| t_requests := []; t_yielded := ys; t_outcome := Raised err |}
  | None =>
      match kk with
      | O => {| t_requests := []; t_yielded := ys; t_outcome := Suspended |}
      | S _ =>
          match p_next pg with
          | None => {| t_requests := []; t_yielded := ys; t_outcome := Done |}
          | Some href =>
              match rest with
              | [] => {| t_requests := [base ++ href]; t_yielded := ys; t_outcome := Raised "transport" |}
              | pg' :: rest' =>
                  let tr := consume_k tz base pg' rest' kk in
                  {| t_requests := (base ++ href) :: t_requests tr; t_yielded := ys ++ t_yielded tr;
                     t_outcome := t_outcome tr |}
              end
          end
      end
  end.

(* list(itertools.islice(client.get_sessions(...), k)) followed by close() *)
Definition get_sessions_take (tz : tzdb) (base : string) (q : query) (responses : list page) (k : nat) : trace :=
  match k with
  | O => {| t_requests := []; t_yielded := []; t_outcome := Suspended |}
  | S _ =>
      if valid_site (q_site q) then
        match responses with
        | [] => {| t_requests := [first_url base q]; t_yielded := []; t_outcome := Raised "transport" |}
        | pg :: rest =>
            let tr := consume_k tz base pg rest k in
            {| t_requests := first_url base q :: t_requests tr; t_yielded := t_yielded tr;
               t_outcome := t_outcome tr |}
        end
      else {| t_requests := []; t_yielded := []; t_outcome := Raised K_site_error |}
  end.

Definition run_sessions (tz : tzdb) (base : string) (q : query) (responses : list page) (take : option nat) : trace :=
  match take with None => get_sessions tz base q responses | Some k => get_sessions_take tz base q responses k end.

(* ------------------------------------------------------------------ count_sessions *)
(* requests.head(<base>sessions/<site>?[where=<cond>&]limit=1).headers["x-total-count"] *)
Definition count_url (base site : string) (cond : option string) : string :=
  base ++ K_endpoint ++ site ++ K_query_mark ++ join K_arg_sep (opt_arg K_arg_cond cond ++ ["limit=1"]).

Definition count_sessions (base site : string) (cond : option string) (total : option string)
  : list string * res string :=
  if valid_site site
  then ([count_url base site cond], match total with Some h => Ok h | None => Err "KeyError" end)
  else ([], Err K_site_error).

(* ------------------------------------------------------------------ get_sessions_by_time *)
Definition time_cond (start stop : option aware) (min_energy : option string) : res string :=
  let part (op : string) (a : option aware) : res (list string) :=
    match a with
    | None => Ok []
    | Some x => res_map (fun s => ["connectionTime " ++ op ++ " """ ++ s ++ """"]) (http_date x)
    end in
  res_bind (part ">=" start) (fun c1 =>
  res_bind (part "<=" stop) (fun c2 =>
  Ok (join " and " (c1 ++ c2 ++ match min_energy with Some e => ["kWhDelivered > " ++ e] | None => [] end)))).

Definition by_time_query (site : string) (start stop : option aware) (min_energy : option string)
           (timeseries : bool) : res query :=
  res_map (fun c => {| q_site := site; q_cond := Some c; q_project := None; q_sort := Some "connectionTime";
                       q_timeseries := timeseries |}) (time_cond start stop min_energy).

Definition get_sessions_by_time (tz : tzdb) (base site : string) (start stop : option aware)
           (min_energy : option string) (timeseries : bool) (responses : list page) (take : option nat) : trace :=
  match by_time_query site start stop min_energy timeseries with
  | Err e => {| t_requests := []; t_yielded := []; t_outcome := Raised e |}    (* raised by the call itself *)
  | Ok q => run_sessions tz base q responses take
  end.

Definition count_sessions_by_time (base site : string) (start stop : option aware)
           (min_energy : option string) (total : option string) : list string * res string :=
  match time_cond start stop min_energy with
  | Err e => ([], Err e)
  | Ok c => count_sessions base site (Some c) total
  end.

(* ------------------------------------------------------------------ specification vocabulary *)
(* a well-formed paging: every page but the last links to a next page *)
Fixpoint paging (ps : list page) : Prop :=
  match ps with
  | [] => False
  | [p] => p_next p = None
  | p :: r => p_next p <> None /\ paging r
  end.

Definition all_items (ps : list page) : list doc := List.concat (map p_items ps).

Fixpoint next_urls (base : string) (ps : list page) : list string :=
  match ps with
  | [] => []
  | p :: r => match p_next p with Some h => (base ++ h) :: next_urls base r | None => [] end
  end.

(* what one converted field is, case by case *)
Definition field_converted (zn : string) (z : zone) (v v' : jv) : Prop :=
  match v with
  | JStr s =>
      match parse_rfc1123 s with
      | Some u => exists a, v' = JDate a /\ instant a = u /\ a_off a = z u /\ a_zone a = zn
      | None => v' = v
      end
  | JSeries ts =>
      exists l, v' = JSeriesP l /\ List.length l = List.length ts /\
                forall i, (i < List.length ts)%nat ->
                  exists a, nth_error l i = Some a /\ parse_http_date zn z (nth i ts "") = Ok a
  | _ => v' = v
  end.

(* a document parse_dates accepts, and the document after conversion *)
Definition convertible (tz : tzdb) (d : doc) : Prop := exists d', parse_dates tz d = Ok d'.
Definition converted (tz : tzdb) (d : doc) : doc :=
  match parse_dates tz d with Ok d' => d' | Err _ => d end.

(* ------------------------------------------------------------------ correspondence cases *)
Definition tz_of_tables (tabs : list (string * list (Z * Z))) : tzdb :=
  fun name =>
    match find (fun e => String.eqb name (fst e)) tabs with
    | Some e => Some (fun u => match zassoc u (snd e) with Some o => o | None => 0%Z end)
    | None => None
    end.

Definition aware_eqb (a b : aware) : bool :=
  Z.eqb (a_local a) (a_local b) && Z.eqb (a_off a) (a_off b) && String.eqb (a_zone a) (a_zone b).

Definition jv_eqb (a b : jv) : bool :=
  match a, b with
  | JStr x, JStr y => String.eqb x y
  | JOpaque x, JOpaque y => Z.eqb x y
  | JSeries x, JSeries y => list_eqb String.eqb x y
  | JDate x, JDate y => aware_eqb x y
  | JSeriesP x, JSeriesP y => list_eqb aware_eqb x y
  | _, _ => false
  end.

Definition doc_eqb : doc -> doc -> bool :=
  list_eqb (fun x y => String.eqb (fst x) (fst y) && jv_eqb (snd x) (snd y)).

Definition outcome_eqb (a b : outcome) : bool :=
  match a, b with
  | Done, Done => true
  | Raised x, Raised y => String.eqb x y
  | Suspended, Suspended => true
  | _, _ => false
  end.

Definition trace_eqb (a b : trace) : bool :=
  list_eqb String.eqb (t_requests a) (t_requests b) && list_eqb doc_eqb (t_yielded a) (t_yielded b)
  && outcome_eqb (t_outcome a) (t_outcome b).

Inductive c20case :=
| CRun (tabs : list (string * list (Z * Z))) (base : string) (q : query) (responses : list page)
       (take : option nat) (expect : trace)
| CRunByTime (tabs : list (string * list (Z * Z))) (base site : string) (start stop : option aware)
             (min_energy : option string) (timeseries : bool) (responses : list page) (take : option nat) (expect : trace)
| CCount (base site : string) (cond : option string) (total : option string)
         (expect : list string * res string)
| CCountByTime (base site : string) (start stop : option aware) (min_energy : option string)
               (total : option string) (expect : list string * res string)
| CParseDates (tabs : list (string * list (Z * Z))) (d : doc) (expect : res doc)
| CHttpDate (a : aware) (expect : res string)
| CParse (tabs : list (string * list (Z * Z))) (zname : string) (ds : string) (expect : res aware)
| CRoundTrip (tabs : list (string * list (Z * Z))) (zname : string) (a : aware) (expect : res aware).

Definition res_aware_eqb := res_eqb aware_eqb.

Definition check_c20 (c : c20case) : bool :=
  match c with
  | CRun tabs base q rs take e => trace_eqb (run_sessions (tz_of_tables tabs) base q rs take) e
  | CRunByTime tabs base site st en me ts rs take e =>
      trace_eqb (get_sessions_by_time (tz_of_tables tabs) base site st en me ts rs take) e
  | CCount base site cond total e =>
      let r := count_sessions base site cond total in
      list_eqb String.eqb (fst r) (fst e) && res_eqb String.eqb (snd r) (snd e)
  | CCountByTime base site st en me total e =>
      let r := count_sessions_by_time base site st en me total in
      list_eqb String.eqb (fst r) (fst e) && res_eqb String.eqb (snd r) (snd e)
  | CParseDates tabs d e => res_eqb doc_eqb (parse_dates (tz_of_tables tabs) d) e
  | CHttpDate a e => res_eqb String.eqb (http_date a) e
  | CParse tabs zn ds e =>
      match tz_of_tables tabs zn with
      | Some z => res_aware_eqb (parse_http_date zn z ds) e
      | None => false
      end
  | CRoundTrip tabs zn a e =>
      match tz_of_tables tabs zn with
      | Some z => res_aware_eqb (res_bind (http_date a) (parse_http_date zn z)) e
      | None => false
      end
  end.
